#!/bin/bash
# usage: refcheck.sh <outdir containing patch.diff equiv_test.go meta.json> <prop> [more props...]
# Applies a behaviour-preserving refactoring to a scratch copy of /repo, confirms it (build, suite, equivalence test) and
# runs the checks, which must stay silent.
set -u
out=$(realpath $1); shift
export GOFLAGS=-mod=mod GOPROXY=off GOSUMDB=off GOTOOLCHAIN=local
pkg=$(python3 -c "import json;print(json.load(open('$out/meta.json'))['package_dir'])")
d=$(mktemp -d /tmp/refc.XXXXXX)
rsync -a --exclude .git /repo/ $d/
(cd $d && git init -q . 2>/dev/null; git apply --whitespace=nowarn $out/patch.diff 2>&1 | head -3)
[ -f $out/equiv_test.go ] && cp $out/equiv_test.go $d/$pkg/zz_equiv_test.go
build=$(cd $d && go build ./... 2>&1 | head -3)
suite=$(cd $d && go test -vet=off -count=1 ./... 2>&1 | grep -v "no test files" | grep -v "^ok" | head -3)
rm -f $d/$pkg/zz_equiv_test.go
echo "build: ${build:-ok} | suite+equiv: ${suite:-all ok}"
mkdir -p /tmp/gmsa-mut-verif; cp /verif/known_findings.json /tmp/gmsa-mut-verif/
for p in "$@"; do
  timeout 120 /verif/bin/gmsa check $p --repo $d --verif /tmp/gmsa-mut-verif --no-controls > /tmp/refcheck.last 2>&1
  rc=$?
  [ $rc -ge 124 ] && echo "  TIMEOUT/KILLED property=$p rc=$rc (the analyser did not finish in 120 s)"
  grep -E "FAILED|UNDECIDED|^gmsa:" /tmp/refcheck.last | awk '/^gmsa:/{print; next} {n++; if (n<=3) print substr($0,1,2600)}'
done
rm -rf $d /tmp/gmsa-mut-verif/evidence /tmp/gmsa-mut-verif/replay
