package main

// Engine B, part 3: extraction of normal forms from go/ssa values.
// Global-value-numbering style: every SSA value gets a normal form built
// from its defining instruction; loads are resolved through reaching stores;
// phis are resolved under stated assumptions, as gating functions (ite) for
// two-armed diamonds, or become atoms; small acyclic helpers are inlined as
// gated single-assignment expressions. No path is ever executed.

import (
	"fmt"
	"go/constant"
	"go/token"
	"go/types"
	"math/big"
	"os"
	"sort"
	"strings"

	"golang.org/x/tools/go/ssa"
)

// sign tracing: by environment, or switched on for one watched query (GMSA_WATCH)
var signWatchOn bool
var signWatch = os.Getenv("GMSA_WATCH")
var signTraceEnv = os.Getenv("GMSA_SIGN_TRACE")

func signTrace2() bool { return signWatchOn || signTraceEnv == "2" }
func signTrace1() bool { return signWatchOn || signTraceEnv != "" }

var watchedX *Extractor
var watchedC *RF
var watchedA []Assumption

// evalTrace: when GMSA_TRACE_EVAL names a file, every condition evaluation is
// logged there (a debugging aid for finding order-dependent verdicts).
var evalTrace *os.File

func init() {
	if p := os.Getenv("GMSA_TRACE_EVAL"); p != "" {
		evalTrace, _ = os.Create(p)
	}
}

type Extractor struct {
	W               *World
	S               *Sym
	Eff             *Effects
	depth           map[*ssa.Function]int
	NoInline        map[string]bool // short names never inlined
	cloFn           map[AtomID]*ssa.MakeClosure
	cloFC           map[AtomID]*FC           // the context that created the closure
	funcOf          map[AtomID]*ssa.Function // function values (func: atoms)
	BenignWriteTags map[string]bool
	caseBudget      int
	caseAssume      []Assumption   // standing assumptions of EquivByCasesUnder
	caseWorkLimit   int64          // bound of the running case analysis on the work clock
	caseNotNaN      map[AtomID]int // quantities that are not NaN in the case being analysed
	idivDepth       int            // recursion guard of evalIdivCmp
	inSign          bool
	inUnit          bool
	ctxDepth        int
	signActive      bool
	signSteps       int
	signLimit       int
	signCache       map[string]Tri
	phiOf           map[AtomID]*ssa.Phi
	phiFC           map[AtomID]*FC
	memphiOf        map[AtomID]memphiInfo
	fcCache         map[*ssa.Function]*FC
	MaxInlineBlocks int
}

func NewExtractor(w *World, eff *Effects) *Extractor {
	return &Extractor{W: w, S: NewSym(), Eff: eff, depth: map[*ssa.Function]int{}, NoInline: map[string]bool{},
		cloFn: map[AtomID]*ssa.MakeClosure{}, cloFC: map[AtomID]*FC{}, funcOf: map[AtomID]*ssa.Function{}, BenignWriteTags: map[string]bool{}, signCache: map[string]Tri{}, phiOf: map[AtomID]*ssa.Phi{}, phiFC: map[AtomID]*FC{}, memphiOf: map[AtomID]memphiInfo{}, fcCache: map[*ssa.Function]*FC{}, MaxInlineBlocks: 14}
}

// Assumption: either an equality atom := value, or a condition with a truth value.
type Assumption struct {
	Atom *RF // single-atom RF to substitute (may be nil)
	Val  *RF
	Cond *RF // condition RF (may be nil)
	True bool
}

type FC struct {
	X        *Extractor
	Fn       *ssa.Function
	Ctx      *Ctx
	Bind     map[*ssa.Parameter]*RF
	Parent   *FC // for closures inlined with a known creating context
	memo     map[ssa.Value]*RF
	busy     map[ssa.Value]bool
	Assume   []Assumption
	Errs     []string
	phiIdx   map[*ssa.Phi]int
	cellMemo map[cellBlock]*RF
	cellBusy map[cellBlock]bool
	bindArgs []*RF // actual arguments of an inlined instance: its loop-carried atoms are applications to them
}

type cellKey struct {
	base  ssa.Value
	field int // -1: whole cell
}

// FCFor returns the context of fn without assumptions (cached).
func (x *Extractor) FCFor(fn *ssa.Function) *FC {
	if fc, ok := x.fcCache[fn]; ok {
		return fc
	}
	fc := x.newFC(fn, nil, nil)
	x.fcCache[fn] = fc
	return fc
}

func (x *Extractor) newFC(fn *ssa.Function, bind map[*ssa.Parameter]*RF, assume []Assumption) *FC {
	fc := &FC{X: x, Fn: fn, Bind: bind, memo: map[ssa.Value]*RF{}, busy: map[ssa.Value]bool{}, Assume: assume,
		phiIdx: map[*ssa.Phi]int{}, cellMemo: map[cellBlock]*RF{}, cellBusy: map[cellBlock]bool{}}
	n := 0
	for _, b := range fn.Blocks {
		for _, in := range b.Instrs {
			if p, ok := in.(*ssa.Phi); ok {
				fc.phiIdx[p] = n
				n++
			}
		}
	}
	if len(assume) == 0 {
		fc.Ctx = NewCtx(x.W, fn, nil)
		return fc
	}
	base := x.newFC(fn, bind, nil)
	fc.Ctx = NewCtx(x.W, fn, func(c ssa.Value) Tri {
		v := base.Val(c)
		if t := x.EvalCond(v, assume); t != Unknown {
			return t
		}
		// the unassuming context may see gating functions that the assumptions resolve
		return x.EvalCond(x.SimplifyUnder(v, assume), assume)
	})
	return fc
}

// Under returns a context for fn with assumptions.
func (x *Extractor) Under(fn *ssa.Function, assume ...Assumption) *FC {
	return x.newFC(fn, nil, assume)
}

func (fc *FC) errf(format string, args ...interface{}) {
	fc.Errs = append(fc.Errs, fmt.Sprintf(format, args...))
}

// EvalCond decides a condition under assumptions (Unknown when it cannot).
func (x *Extractor) EvalCond(c *RF, assume []Assumption) (res Tri) {
	workUnits += 4
	if signWatch != "" && watchedX == nil && strings.Contains(c.String(), signWatch) && len(assume) == 2 && x.idivDepth == 0 {
		ok := true
		for _, a := range assume {
			if a.Cond == nil || a.True {
				ok = false
			}
		}
		if ok {
			watchedX, watchedC, watchedA = x, c, append([]Assumption{}, assume...)
		}
	}
	if signWatch != "" && !signWatchOn && strings.Contains(c.String(), signWatch) {
		signWatchOn = true
		fmt.Fprintf(os.Stderr, "WATCH-BEGIN %s\n", clip(c.String(), 300))
		for _, a := range assume {
			if a.Cond != nil {
				fmt.Fprintf(os.Stderr, "  WATCH-ASSUME %v %s\n", a.True, clip(a.Cond.String(), 300))
			}
		}
		defer func() {
			signWatchOn = false
			fmt.Fprintf(os.Stderr, "WATCH-END => %d\n", res)
		}()
	}
	if evalTrace != nil {
		defer func() {
			var sb strings.Builder
			sb.WriteString(c.String())
			sb.WriteString(" | ")
			var as []string
			for _, a := range assume {
				if a.Cond != nil {
					as = append(as, fmt.Sprintf("%v:%s", a.True, a.Cond.String()))
				}
			}
			sort.Strings(as)
			sb.WriteString(strings.Join(as, " & "))
			fmt.Fprintf(evalTrace, "%s => %d\n", sb.String(), res)
		}()
	}
	s := x.S
	assume = expandAssumptions(assume)
	assume = x.unitPropagate(assume)
	for _, a := range assume {
		if a.Cond != nil && a.Cond.Equal(c) {
			if a.True {
				return True
			}
			return False
		}
	}
	// the negation of an assumed condition (De Morgan forms included)
	if nc := s.Not(c); !nc.Equal(c) {
		for _, a := range assume {
			if a.Cond != nil && a.Cond.Equal(nc) {
				if a.True {
					return False
				}
				return True
			}
		}
	}
	sub0 := map[AtomID]*RF{}
	for _, a := range assume {
		if a.Atom != nil {
			if aa := a.Atom.SingleAtom(); aa != nil {
				sub0[aa.ID] = a.Val
			}
		}
	}
	if len(sub0) > 0 {
		c = c.Subst(sub0)
	}
	at := c.SingleAtom()
	if at == nil {
		return Unknown
	}
	for _, a := range assume {
		if a.Cond != nil && a.Cond.Equal(c) {
			if a.True {
				return True
			}
			return False
		}
	}
	switch {
	case at.Name == "true":
		return True
	case at.Name == "false":
		return False
	case at.Name == "not":
		switch x.EvalCond(at.Args[0], assume) {
		case True:
			return False
		case False:
			return True
		}
		return Unknown
	case at.Name == "land" || at.Name == "lor":
		// an assumed disjunction whose disjuncts all occur here makes this disjunction true
		// (an assumed false conjunction is the disjunction of the negations); dually for land
		for _, a := range assume {
			if a.Cond == nil {
				continue
			}
			ca := a.Cond.SingleAtom()
			if ca == nil {
				continue
			}
			var known []*RF // a disjunction known true (for lor) / the negated form for land
			switch {
			case ca.Name == "lor" && a.True:
				known = ca.Args
			case ca.Name == "land" && !a.True:
				for _, k := range ca.Args {
					known = append(known, s.Not(k))
				}
			default:
				continue
			}
			// query lor(S): known ⊆ S → true. query land(S): {¬k : k ∈ known} ⊆ S → some conjunct false → false.
			sub := true
			for _, k := range known {
				want := k
				if at.Name == "land" {
					want = s.Not(k)
				}
				found := false
				for _, q := range at.Args {
					if q.Equal(want) {
						found = true
						break
					}
				}
				if !found {
					sub = false
					break
				}
			}
			if sub && len(known) > 0 {
				if at.Name == "lor" {
					return True
				}
				// land(S) contains the negations of ALL disjuncts of a true disjunction: not all can hold
				return False
			}
		}
		allT, allF := true, true
		for _, a := range at.Args {
			switch x.EvalCond(a, assume) {
			case True:
				allF = false
				if at.Name == "lor" {
					return True
				}
			case False:
				allT = false
				if at.Name == "land" {
					return False
				}
			default:
				allT, allF = false, false
			}
		}
		if at.Name == "land" && allT {
			return True
		}
		if at.Name == "lor" && allF {
			return False
		}
		return Unknown
	case isCmpName(at.Name):
		sub := map[AtomID]*RF{}
		for _, a := range assume {
			if a.Atom != nil {
				if aa := a.Atom.SingleAtom(); aa != nil {
					sub[aa.ID] = a.Val
				}
			}
		}
		d := at.Args[0].Sub(at.Args[1])
		if len(sub) > 0 {
			d = d.Subst(sub)
		}
		cst, ok := d.IsConst()
		if !ok {
			if t := x.evalByRegions(at.Name, d, assume, sub); t != Unknown {
				return t
			}
			if t := x.evalBySignCached(at, d, assume); t != Unknown {
				return t
			}
			return x.evalIdivCmp(at.Name, d, assume)
		}
		sg := cst.Sign()
		var res bool
		switch strings.TrimPrefix(at.Name, "cmp") {
		case "==":
			res = sg == 0
		case "!=":
			res = sg != 0
		case "<":
			res = sg < 0
		case "<=":
			res = sg <= 0
		default:
			return Unknown
		}
		_ = s
		if res {
			return True
		}
		return False
	}
	return Unknown
}

// idivLinear: a comparison `d name 0` in which d = ±idiv(x0, c) + rest for a
// positive whole constant c, integer x0 >= 0 (decided from the assumptions) and
// integer rest, written without the division: with q = x0/c the unique integer
// such that c·q <= x0 <= c·q + c−1,
//
//	q + r <  0  ⇔  x0 + c·r < 0          q + r <= 0  ⇔  x0 + c·r − (c−1) <= 0
//	r − q <  0  ⇔  c·r + c − x0 <= 0     r − q <= 0  ⇔  c·r − x0 <= 0
//
// Returns the equivalent comparison, or nil.
func (x *Extractor) idivLinear(name string, d *RF, assume []Assumption) *RF {
	s := x.S
	if name != "cmp<" && name != "cmp<=" {
		return nil
	}
	if c, ok := d.D.isConst(); !ok || c.Cmp(big.NewRat(1, 1)) != 0 {
		return nil
	}
	for _, t := range d.N.sortedTerms() {
		if len(t.vars) != 1 || t.exps[0] != 1 {
			continue
		}
		at := s.atoms[t.vars[0]]
		if at.Name != "idiv" || len(at.Args) != 2 {
			continue
		}
		sgn := 0
		switch {
		case t.coef.Cmp(big.NewRat(1, 1)) == 0:
			sgn = 1
		case t.coef.Cmp(big.NewRat(-1, 1)) == 0:
			sgn = -1
		default:
			continue
		}
		c, ok := at.Args[1].IsConst()
		if !ok || !c.IsInt() || c.Sign() <= 0 {
			continue
		}
		x0 := at.Args[0]
		q := s.atomRF(at.ID)
		rest := d.Sub(q.Mul(s.Int(int64(sgn))))
		if !s.Integral(x0) || !s.Integral(rest) || len(FindAtomID(rest, at.ID)) > 0 {
			continue
		}
		// x0 >= 0 (Go's / truncates: the floor characterisation needs it)
		x.idivDepth++
		nonneg := x.EvalCond(s.Cmp("<", x0, s.Int(0)), assume) == False
		x.idivDepth--
		if !nonneg {
			continue
		}
		cr := s.Const(c).Mul(rest)
		switch {
		case sgn == 1 && name == "cmp<":
			return s.Cmp("<", x0.Add(cr), s.Int(0))
		case sgn == 1 && name == "cmp<=":
			return s.Cmp("<=", x0.Add(cr).Sub(s.Const(c)).Add(s.Int(1)), s.Int(0))
		case sgn == -1 && name == "cmp<":
			return s.Cmp("<=", cr.Add(s.Const(c)).Sub(x0), s.Int(0))
		case sgn == -1 && name == "cmp<=":
			return s.Cmp("<=", cr.Sub(x0), s.Int(0))
		}
	}
	return nil
}

// evalIdivCmp: a comparison involving an integer division by a constant,
// decided through its division-free equivalent (idivLinear); assumed
// comparisons of that kind are likewise replaced by their equivalents first.
func (x *Extractor) evalIdivCmp(name string, d *RF, assume []Assumption) Tri {
	if x.idivDepth > 0 {
		return Unknown
	}
	has := func(r *RF) bool {
		for _, a := range r.Atoms(false) {
			if a.Name == "idiv" {
				return true
			}
		}
		return false
	}
	changed := false
	as2 := append([]Assumption{}, assume...)
	for _, a := range assume {
		if a.Cond == nil {
			continue
		}
		c, truth := a.Cond, a.True
		for {
			ca := c.SingleAtom()
			if ca != nil && ca.Name == "not" {
				c, truth = ca.Args[0], !truth
				continue
			}
			break
		}
		ca := c.SingleAtom()
		if ca == nil || !isCmpName(ca.Name) {
			continue
		}
		da := ca.Args[0].Sub(ca.Args[1])
		if !has(da) {
			continue
		}
		if eq := x.idivLinear(ca.Name, da, assume); eq != nil {
			as2 = append(as2, Assumption{Cond: eq, True: truth})
			changed = true
		}
	}
	q := x.S.MakeFn(name, d, x.S.Int(0))
	if has(d) {
		if eq := x.idivLinear(name, d, assume); eq != nil {
			q = eq
			changed = true
		}
	}
	if !changed {
		return Unknown
	}
	x.idivDepth++
	defer func() { x.idivDepth-- }()
	return x.EvalCond(q, as2)
}

// cmpTruth: truth of the comparison `name` of (l, r) when sign(l-r) = sg
// (sg == 2: unordered, i.e. a NaN operand).
func cmpTruth(name string, sg int) bool {
	if sg == 2 {
		return name == "cmp!="
	}
	switch name {
	case "cmp<":
		return sg < 0
	case "cmp<=":
		return sg <= 0
	case "cmp==":
		return sg == 0
	case "cmp!=":
		return sg != 0
	}
	return false
}

// evalByRegions decides a comparison with difference d from the assumed
// comparisons over the same difference (up to a nonzero constant factor):
// the order regions of d (negative, zero, positive, unordered for floats)
// compatible with every such assumption are enumerated, and the comparison is
// decided when it has the same truth value in all of them.
func (x *Extractor) evalByRegions(name string, d *RF, assume []Assumption, sub map[AtomID]*RF) Tri {
	regions := []int{-1, 0, 1}
	if !x.S.Integral(d) {
		regions = append(regions, 2)
	}
	used := false
	for _, a := range assume {
		if a.Cond == nil {
			continue
		}
		c, truth := a.Cond, a.True
		for {
			ca := c.SingleAtom()
			if ca != nil && ca.Name == "not" {
				c, truth = ca.Args[0], !truth
				continue
			}
			break
		}
		ca := c.SingleAtom()
		if ca == nil || !isCmpName(ca.Name) {
			continue
		}
		d2 := ca.Args[0].Sub(ca.Args[1])
		if len(sub) > 0 {
			d2 = d2.Subst(sub)
		}
		k := 0
		switch {
		case d2.Equal(d):
			k = 1
		case d2.Equal(d.Neg()):
			k = -1
		default:
			if q := d2.Div(d); q != nil {
				if cq, ok := q.IsConst(); ok && cq.Sign() != 0 {
					k = cq.Sign()
				}
			}
		}
		if k == 0 {
			continue
		}
		used = true
		var keep []int
		for _, reg := range regions {
			sg := reg
			if reg != 2 {
				sg = reg * k
			}
			if cmpTruth(ca.Name, sg) == truth {
				keep = append(keep, reg)
			}
		}
		regions = keep
	}
	if used && len(regions) > 0 {
		t0 := cmpTruth(name, regions[0])
		same := true
		for _, reg := range regions[1:] {
			if cmpTruth(name, reg) != t0 {
				same = false
			}
		}
		if same {
			if t0 {
				return True
			}
			return False
		}
	}
	// an assumed comparison of the same two sides shifted by a constant (n <= m-1 when asked about
	// n < m; y < 0 when asked about 1 < y) bounds the difference all the same
	if t := x.evalByInterval(name, d, assume, sub); t != Unknown {
		return t
	}
	return Unknown
}

// evalByInterval: every assumed comparison whose difference is ±d + c for a
// constant c narrows the interval of d; the comparison `name` of d with 0 is
// decided when the interval settles it. For integer-valued d strict bounds are
// tightened by one and negated comparisons count as well; for real-valued d
// only comparisons assumed TRUE are used (they also tell that d is ordered, i.e.
// not NaN, which the conclusion needs).
func (x *Extractor) evalByInterval(name string, d *RF, assume []Assumption, sub map[AtomID]*RF) Tri {
	integral := x.S.Integral(d)
	type bound struct {
		v      *big.Rat
		strict bool
	}
	var lo, hi *bound // nil: unbounded
	tighten := func(l, h *bound) {
		if l != nil && (lo == nil || l.v.Cmp(lo.v) > 0 || l.v.Cmp(lo.v) == 0 && l.strict && !lo.strict) {
			lo = l
		}
		if h != nil && (hi == nil || h.v.Cmp(hi.v) < 0 || h.v.Cmp(hi.v) == 0 && h.strict && !hi.strict) {
			hi = h
		}
	}
	for _, a := range assume {
		if a.Cond == nil {
			continue
		}
		c, truth := a.Cond, a.True
		for {
			ca := c.SingleAtom()
			if ca != nil && ca.Name == "not" {
				c, truth = ca.Args[0], !truth
				continue
			}
			break
		}
		ca := c.SingleAtom()
		if ca == nil || !isCmpName(ca.Name) {
			continue
		}
		if !truth && !integral && ca.Name != "cmp!=" {
			continue
		}
		d2 := ca.Args[0].Sub(ca.Args[1])
		if len(sub) > 0 {
			d2 = d2.Subst(sub)
		}
		if integral && !x.S.Integral(d2) {
			continue
		}
		var k int
		var off *big.Rat
		if cc, ok := d2.Sub(d).IsConst(); ok && (!integral || cc.IsInt()) {
			k, off = 1, cc
		} else if cc, ok := d2.Add(d).IsConst(); ok && (!integral || cc.IsInt()) {
			k, off = -1, cc
		} else {
			continue
		}
		// bounds on d2 from the comparison d2 ? 0
		var l2, h2 *bound
		zero := new(big.Rat)
		switch {
		case ca.Name == "cmp<" && truth:
			h2 = &bound{zero, true}
		case ca.Name == "cmp<" && !truth:
			l2 = &bound{zero, false}
		case ca.Name == "cmp<=" && truth:
			h2 = &bound{zero, false}
		case ca.Name == "cmp<=" && !truth:
			l2 = &bound{zero, true}
		case ca.Name == "cmp==" && truth, ca.Name == "cmp!=" && !truth:
			l2, h2 = &bound{zero, false}, &bound{zero, false}
		default:
			continue
		}
		// d2 = k*d + off  ⇒  d = (d2 - off)/k
		var l, h *bound
		if k == 1 {
			if l2 != nil {
				l = &bound{new(big.Rat).Sub(l2.v, off), l2.strict}
			}
			if h2 != nil {
				h = &bound{new(big.Rat).Sub(h2.v, off), h2.strict}
			}
		} else {
			if h2 != nil {
				l = &bound{new(big.Rat).Sub(off, h2.v), h2.strict}
			}
			if l2 != nil {
				h = &bound{new(big.Rat).Sub(off, l2.v), l2.strict}
			}
		}
		tighten(l, h)
	}
	if lo == nil && hi == nil {
		return Unknown
	}
	if integral {
		// strict integer bounds tighten by one
		if lo != nil && lo.strict {
			lo = &bound{new(big.Rat).Add(lo.v, big.NewRat(1, 1)), false}
		}
		if hi != nil && hi.strict {
			hi = &bound{new(big.Rat).Sub(hi.v, big.NewRat(1, 1)), false}
		}
	}
	neg := func() bool { return hi != nil && (hi.v.Sign() < 0 || hi.v.Sign() == 0 && hi.strict) } // d < 0
	nonpos := func() bool { return hi != nil && hi.v.Sign() <= 0 }                                // d <= 0
	pos := func() bool { return lo != nil && (lo.v.Sign() > 0 || lo.v.Sign() == 0 && lo.strict) } // d > 0
	nonneg := func() bool { return lo != nil && lo.v.Sign() >= 0 }                                // d >= 0
	isZero := func() bool {
		return lo != nil && hi != nil && lo.v.Sign() == 0 && hi.v.Sign() == 0 && !lo.strict && !hi.strict
	}
	switch name {
	case "cmp<": // d < 0
		if neg() {
			return True
		}
		if nonneg() {
			return False
		}
	case "cmp<=":
		if nonpos() {
			return True
		}
		if pos() {
			return False
		}
	case "cmp==":
		if isZero() {
			return True
		}
		if pos() || neg() {
			return False
		}
	case "cmp!=":
		if isZero() {
			return False
		}
		if pos() || neg() {
			return True
		}
	}
	return Unknown
}

func isIntType(t types.Type) bool {
	b, ok := t.Underlying().(*types.Basic)
	return ok && b.Info()&types.IsInteger != 0
}
func isUnsignedType(t types.Type) bool {
	b, ok := t.Underlying().(*types.Basic)
	return ok && b.Info()&types.IsUnsigned != 0
}
func isFloatType(t types.Type) bool {
	b, ok := t.Underlying().(*types.Basic)
	return ok && b.Info()&types.IsFloat != 0
}

func (x *Extractor) typeName(t types.Type) string {
	if p, ok := t.(*types.Pointer); ok {
		t = p.Elem()
	}
	if n, ok := t.(*types.Named); ok {
		return n.Obj().Name()
	}
	return typeKey(t)
}

func (x *Extractor) fieldOf(v *RF, st types.Type, i int) *RF {
	tn := x.typeName(st)
	x.S.noteStruct(tn, st)
	str := st.Underlying().(*types.Struct)
	if at := v.SingleAtom(); at != nil && at.Name == "mk:"+tn && i < len(at.Args) {
		return at.Args[i]
	}
	f := str.Field(i)
	r := x.S.MakeFn("fld:"+tn+"."+f.Name(), v)
	if isIntType(f.Type()) {
		if at := r.SingleAtom(); at != nil {
			at.Int = true
			at.Unsigned = isUnsignedType(f.Type())
		}
	}
	return r
}

func (x *Extractor) mkStruct(st types.Type, fields []*RF) *RF {
	tn := x.typeName(st)
	x.S.noteStruct(tn, st)
	// all fields projections of the same value: that value
	if len(fields) > 0 {
		if at := fields[0].SingleAtom(); at != nil && strings.HasPrefix(at.Name, "fld:"+tn+".") && len(at.Args) == 1 {
			v := at.Args[0]
			all := true
			for i := range fields {
				if !fields[i].Equal(x.fieldOf(v, st, i)) {
					all = false
					break
				}
			}
			if all {
				return v
			}
		}
	}
	return x.S.MakeFn("mk:"+tn, fields...)
}

func (x *Extractor) zero(t types.Type) *RF {
	switch u := t.Underlying().(type) {
	case *types.Basic:
		if u.Info()&types.IsNumeric != 0 {
			return x.S.Int(0)
		}
		if u.Info()&types.IsBoolean != 0 {
			return x.S.False()
		}
		return x.S.Var(`""`, false)
	case *types.Struct:
		fs := make([]*RF, u.NumFields())
		for i := range fs {
			fs[i] = x.zero(u.Field(i).Type())
		}
		return x.mkStruct(t, fs)
	}
	return x.S.Var("nil", false)
}

func (fc *FC) constVal(c *ssa.Const) *RF {
	s := fc.X.S
	if c.Value == nil {
		return fc.X.zero(c.Type())
	}
	switch c.Value.Kind() {
	case constant.Bool:
		if constant.BoolVal(c.Value) {
			return s.True()
		}
		return s.False()
	case constant.Int:
		if r, ok := newRatFromString(c.Value.ExactString()); ok {
			return s.Const(r)
		}
	case constant.Float:
		if isIntType(c.Type()) {
			if r, ok := newRatFromString(c.Value.ExactString()); ok {
				return s.Const(r)
			}
		}
		f, _ := constant.Float64Val(c.Value)
		return s.Float(f)
	case constant.String:
		return s.Var(fmt.Sprintf("%q", constant.StringVal(c.Value)), false)
	}
	return s.Var("const:"+c.Value.ExactString(), false)
}

// Val returns the normal form of v in this context.
func (fc *FC) Val(v ssa.Value) *RF {
	if r, ok := fc.memo[v]; ok {
		return r
	}
	if fc.busy[v] {
		// cyclic definition not through a loop-header phi
		return fc.X.S.Var(fmt.Sprintf("cyc:%s:%s", fc.X.W.FuncName(fc.Fn), v.Name()), isIntType(v.Type()))
	}
	fc.busy[v] = true
	r := fc.val(v)
	delete(fc.busy, v)
	if isIntType(v.Type()) {
		if at := r.SingleAtom(); at != nil && (at.Kind == "var" || strings.HasPrefix(at.Name, "fld:") || at.Name == "idx" || at.Name == "lookup") {
			at.Int = true
			if isUnsignedType(v.Type()) {
				at.Unsigned = true
			}
		}
	}
	fc.memo[v] = r
	return r
}

func (fc *FC) paramKey(p *ssa.Parameter) string {
	for i, q := range fc.Fn.Params {
		if q == p {
			return fmt.Sprintf("param:%s:%d", fc.X.W.FuncName(fc.Fn), i)
		}
	}
	return "param:?" + p.Name()
}

// ParamRF returns the atom of parameter i of fn.
func (x *Extractor) ParamRF(fn *ssa.Function, i int) *RF {
	return x.S.Var(fmt.Sprintf("param:%s:%d", x.W.FuncName(fn), i), isIntType(fn.Params[i].Type()))
}

func (fc *FC) val(v ssa.Value) *RF {
	x, s := fc.X, fc.X.S
	switch v := v.(type) {
	case *ssa.Const:
		return fc.constVal(v)
	case *ssa.Parameter:
		if fc.Bind != nil {
			if b, ok := fc.Bind[v]; ok {
				return b
			}
		}
		return s.Var(fc.paramKey(v), isIntType(v.Type()))
	case *ssa.Global:
		return s.Var("global:"+x.W.relPkg(v.Pkg.Pkg)+"."+v.Name(), false)
	case *ssa.Function:
		fr := s.Var("func:"+x.W.FuncName(v), false)
		x.funcOf[fr.SingleAtom().ID] = v
		return fr
	case *ssa.FreeVar:
		return s.Var(fmt.Sprintf("fvptr:%s:%s", x.W.FuncName(fc.Fn), v.Name()), false)
	case *ssa.BinOp:
		return fc.binop(v)
	case *ssa.UnOp:
		switch v.Op {
		case token.SUB:
			return fc.Val(v.X).Neg()
		case token.NOT:
			return s.Not(fc.Val(v.X))
		case token.MUL:
			return fc.load(v)
		case token.XOR:
			return s.MakeFn("bitnot", fc.Val(v.X))
		}
	case *ssa.Convert:
		xv := fc.Val(v.X)
		from, to := v.X.Type(), v.Type()
		switch {
		case isFloatType(from) && isIntType(to):
			return s.MakeFn("toint", xv)
		case (isIntType(from) || isFloatType(from)) && (isIntType(to) || isFloatType(to)):
			return xv
		}
		return s.MakeFn("conv:"+typeKey(to), xv)
	case *ssa.ChangeType:
		return fc.Val(v.X)
	case *ssa.ChangeInterface:
		return fc.Val(v.X)
	case *ssa.MakeInterface:
		return fc.Val(v.X)
	case *ssa.TypeAssert:
		if v.CommaOk {
			return s.MakeFn("typeassert:"+typeKey(v.AssertedType), fc.Val(v.X))
		}
		return fc.Val(v.X)
	case *ssa.Phi:
		return fc.phi(v)
	case *ssa.Call:
		r := fc.call(v)
		// an application that stands for an integer result is integer-valued
		if isIntType(v.Type()) {
			if at := r.SingleAtom(); at != nil && at.Kind == "fn" && !at.Int && (strings.HasPrefix(at.Name, "call:") || strings.HasPrefix(at.Name, "apply")) {
				at.Int = true
				at.Unsigned = isUnsignedType(v.Type())
			}
		}
		return r
	case *ssa.Extract:
		t := fc.Val(v.Tuple)
		if at := t.SingleAtom(); at != nil && at.Name == "tuple" && v.Index < len(at.Args) {
			return at.Args[v.Index]
		}
		if at := t.SingleAtom(); at != nil && at.Kind == "fn" && !strings.Contains(at.Name, "#") {
			return s.MakeFn(fmt.Sprintf("%s#%d", at.Name, v.Index), at.Args...)
		}
		return s.MakeFn(fmt.Sprintf("extract#%d", v.Index), t)
	case *ssa.Field:
		return x.fieldOf(fc.Val(v.X), v.X.Type(), v.Field)
	case *ssa.FieldAddr:
		return s.MakeFn(fmt.Sprintf("&fld:%s.%d", x.typeName(v.X.Type()), v.Field), fc.Val(v.X))
	case *ssa.IndexAddr:
		return s.MakeFn("&idx", fc.Val(v.X), fc.Val(v.Index))
	case *ssa.Index:
		return s.MakeFn("idx", fc.Val(v.X), fc.Val(v.Index))
	case *ssa.Lookup:
		r := s.MakeFn("lookup", fc.Val(v.X), fc.Val(v.Index))
		if v.CommaOk {
			return s.MakeFn("tuple", r, s.MakeFn("lookupok", fc.Val(v.X), fc.Val(v.Index)))
		}
		return r
	case *ssa.Slice:
		// an empty slice literal (`S{}`): a fresh slice of length 0
		if al, ok := v.X.(*ssa.Alloc); ok && v.Low == nil && v.High == nil && v.Max == nil {
			if at, isArr := al.Type().Underlying().(*types.Pointer).Elem().Underlying().(*types.Array); isArr && at.Len() == 0 {
				return s.MakeFn("makeslice:"+x.W.FuncName(fc.Fn)+":"+al.Name(), s.Int(0))
			}
		}
		args := []*RF{fc.Val(v.X)}
		for _, b := range []ssa.Value{v.Low, v.High, v.Max} {
			if b == nil {
				args = append(args, s.Var("_", false))
			} else {
				args = append(args, fc.Val(b))
			}
		}
		return s.MakeFn("slice", args...)
	case *ssa.Alloc:
		// a struct cell that only ever holds a spilled parameter: a reference to that value
		if _, isStruct := v.Type().Underlying().(*types.Pointer).Elem().Underlying().(*types.Struct); isStruct {
			var only *ssa.Store
			simple := true
			for _, ref := range *v.Referrers() {
				switch r := ref.(type) {
				case *ssa.Store:
					if r.Addr != v {
						continue // the address itself is stored somewhere: a use, not a definition
					}
					if only == nil {
						only = r
					} else {
						simple = false
					}
				case *ssa.FieldAddr:
					for _, r2 := range *r.Referrers() {
						if st, ok := r2.(*ssa.Store); ok && st.Addr == r {
							simple = false
						}
					}
				}
			}
			if simple && only != nil {
				if _, isParam := only.Val.(*ssa.Parameter); isParam {
					return s.MakeFn("ref", fc.Val(only.Val))
				}
			}
		}
		return s.Var(fmt.Sprintf("alloc:%s:%s", x.W.FuncName(fc.Fn), v.Name()), false)
	case *ssa.MakeSlice:
		if src := fc.copiedFrom(v); src != nil {
			return s.Fn("copyof", src) // make+copy: a fresh copy of src
		}
		return s.MakeFn("makeslice:"+x.W.FuncName(fc.Fn)+":"+v.Name(), fc.Val(v.Len))
	case *ssa.MakeMap:
		return s.Var(fmt.Sprintf("makemap:%s:%s", x.W.FuncName(fc.Fn), v.Name()), false)
	case *ssa.MakeClosure:
		// a closure created by an inlined instance is keyed by the instance's arguments
		var r *RF
		if len(fc.bindArgs) > 0 {
			r = s.Fn("closure:"+x.W.FuncName(v.Fn.(*ssa.Function)), fc.bindArgs...)
		} else {
			r = s.Var("closure:"+x.W.FuncName(v.Fn.(*ssa.Function)), false)
		}
		x.cloFn[r.SingleAtom().ID] = v
		if _, ok := x.cloFC[r.SingleAtom().ID]; !ok {
			x.cloFC[r.SingleAtom().ID] = fc
		}
		return r
	case *ssa.Range:
		return s.MakeFn("range", fc.Val(v.X))
	case *ssa.Next:
		return s.MakeFn("next:"+x.W.FuncName(fc.Fn)+":"+v.Name(), fc.Val(v.Iter))
	case *ssa.Builtin:
		return s.Var("builtin:"+v.Name(), false)
	}
	fc.errf("no normal form for %T %s", v, v.String())
	return s.Var(fmt.Sprintf("opaque:%s:%s", x.W.FuncName(fc.Fn), v.Name()), false)
}

func (fc *FC) binop(v *ssa.BinOp) *RF {
	s := fc.X.S
	l, r := fc.Val(v.X), fc.Val(v.Y)
	isInt := isIntType(v.X.Type())
	switch v.Op {
	case token.ADD:
		if b, ok := v.X.Type().Underlying().(*types.Basic); ok && b.Info()&types.IsString != 0 {
			return s.MakeFn("concat", l, r)
		}
		return l.Add(r)
	case token.SUB:
		return l.Sub(r)
	case token.MUL:
		return l.Mul(r)
	case token.QUO:
		if isInt {
			return s.MakeFn("idiv", l, r)
		}
		return l.Div(r)
	case token.REM:
		return s.MakeFn("imod", l, r)
	case token.SHL:
		return s.MakeFn("shl", l, r)
	case token.SHR:
		return s.MakeFn("shr", l, r)
	case token.AND:
		return s.MakeFn("and", l, r)
	case token.OR:
		return s.MakeFn("or", l, r)
	case token.XOR:
		return s.MakeFn("xor", l, r)
	case token.AND_NOT:
		return s.MakeFn("andnot", l, r)
	case token.EQL:
		// x == x on a float is the NaN test written without the math package
		if l.Equal(r) && isFloatType(v.X.Type()) {
			if _, isC := l.IsConst(); !isC {
				return s.Not(s.MakeFn("math.IsNaN", l))
			}
		}
		return s.Cmp("==", l, r)
	case token.NEQ:
		if l.Equal(r) && isFloatType(v.X.Type()) {
			if _, isC := l.IsConst(); !isC {
				return s.MakeFn("math.IsNaN", l)
			}
		}
		return s.Cmp("!=", l, r)
	case token.LSS:
		return s.Cmp("<", l, r)
	case token.LEQ:
		return s.Cmp("<=", l, r)
	case token.GTR:
		return s.Cmp(">", l, r)
	case token.GEQ:
		return s.Cmp(">=", l, r)
	}
	fc.errf("binop %s", v.Op)
	return s.MakeFn("binop:"+v.Op.String(), l, r)
}

// ---- loads through reaching stores ----

func (fc *FC) cellOf(addr ssa.Value) (cellKey, types.Type, bool) {
	switch a := addr.(type) {
	case *ssa.Alloc:
		return cellKey{a, -1}, a.Type().Underlying().(*types.Pointer).Elem(), true
	case *ssa.FieldAddr:
		switch a.X.(type) {
		case *ssa.Alloc, *ssa.Parameter:
			st := a.X.Type().Underlying().(*types.Pointer).Elem()
			return cellKey{a.X, a.Field}, st, true
		}
	}
	return cellKey{}, nil, false
}

// defsOf: is instruction `in` a definition of cell c? returns kind:
// 0 no, 1 direct store to the cell, 2 whole-struct store covering a field cell, 3 clobber by call
func (fc *FC) defKind(in ssa.Instruction, c cellKey) int {
	switch in := in.(type) {
	case *ssa.Store:
		if c.field < 0 {
			if in.Addr == c.base {
				return 1
			}
			if fa, ok := in.Addr.(*ssa.FieldAddr); ok && fa.X == c.base {
				return 3 // partial update of a whole cell: handled by per-field loads
			}
			return 0
		}
		if fa, ok := in.Addr.(*ssa.FieldAddr); ok && fa.X == c.base && fa.Field == c.field {
			return 1
		}
		if in.Addr == c.base {
			return 2
		}
	case *ssa.Call:
		// a call receiving the base pointer and writing through it
		cm := in.Common()
		// a cell captured by a closure that stores to it: any call that can run the closure
		// (a dynamic call, a call handed a function, a call of one of this function's own
		// closures) may have rewritten the cell
		if al, ok := c.base.(*ssa.Alloc); ok && capturedAndStored(al) {
			if _, isBuiltin := cm.Value.(*ssa.Builtin); !isBuiltin {
				f := cm.StaticCallee()
				if f == nil || f.Parent() != nil {
					return 3
				}
				for _, a := range cm.Args {
					if _, isFn := a.Type().Underlying().(*types.Signature); isFn {
						return 3
					}
				}
			}
		}
		for i, a := range cm.Args {
			if a != c.base {
				continue
			}
			f := cm.StaticCallee()
			if f == nil || fc.X.Eff == nil || !fc.X.Eff.analyzable(f) {
				return 3
			}
			if sum := fc.X.Eff.Summary(f); sum != nil {
				// the callee's writes are tagged with the field written: a
				// field cell is clobbered only by a write of that field (or an
				// untyped one)
				prefix, ftag := "", ""
				if pt, ok := c.base.Type().Underlying().(*types.Pointer); ok && c.field >= 0 {
					if st, ok := pt.Elem().Underlying().(*types.Struct); ok && c.field < st.NumFields() {
						if n, ok := pt.Elem().(*types.Named); ok {
							prefix = fc.X.W.relPkg(n.Obj().Pkg()) + "." + n.Obj().Name() + "."
							ftag = prefix + st.Field(c.field).Name()
						}
					}
				}
				for k := range sum.Writes {
					if k.O.K == KParam && k.O.Idx == i && !k.O.Deep {
						if ftag != "" && strings.HasPrefix(k.Tag, prefix) && k.Tag != ftag {
							continue
						}
						if fc.X.BenignWriteTags[k.Tag] {
							continue
						}
						return 3
					}
				}
			}
		}
	}
	return 0
}

// cellValue: value of cell c just before instruction `at` — resolved through
// the stores that reach it, merged by gating functions at joins.
func (fc *FC) cellValue(c cellKey, cellType types.Type, at ssa.Instruction) *RF {
	blk := at.Block()
	var last ssa.Instruction
	for _, in := range blk.Instrs {
		if in == at {
			break
		}
		if fc.defKind(in, c) != 0 {
			last = in
		}
	}
	if last != nil {
		return fc.defValue(c, cellType, last)
	}
	return fc.cellAtEntry(c, cellType, blk)
}

type cellBlock struct {
	c cellKey
	b int
}

func (fc *FC) memphi(c cellKey, cellType types.Type, b *ssa.BasicBlock) *RF {
	name := fmt.Sprintf("memphi:%s:%s.%d@%d", fc.X.W.FuncName(fc.Fn), c.base.Name(), c.field, b.Index)
	var r *RF
	if len(fc.bindArgs) > 0 {
		r = fc.X.S.Fn(name, fc.bindArgs...)
	} else {
		r = fc.X.S.Var(name, isIntType(cellTypeField(cellType, c.field)))
	}
	if at := r.SingleAtom(); at != nil {
		if _, ok := fc.X.memphiOf[at.ID]; !ok {
			fc.X.memphiOf[at.ID] = memphiInfo{fc, c, cellType, b}
		}
	}
	return r
}

type memphiInfo struct {
	fc *FC
	c  cellKey
	t  types.Type
	b  *ssa.BasicBlock
}

func (fc *FC) cellAtEntry(c cellKey, cellType types.Type, b *ssa.BasicBlock) *RF {
	key := cellBlock{c, b.Index}
	if r, ok := fc.cellMemo[key]; ok {
		return r
	}
	if b.Index == 0 {
		return fc.entryValue(c, cellType)
	}
	if fc.cellBusy[key] {
		return fc.memphi(c, cellType, b)
	}
	fc.cellBusy[key] = true
	defer delete(fc.cellBusy, key)
	var preds []*ssa.BasicBlock
	seen := map[int]bool{}
	isHeader := false
	for _, p := range fc.Ctx.LivePreds(b) {
		if fc.Ctx.Dominates(b, p) {
			isHeader = true
			continue
		}
		if !seen[p.Index] {
			seen[p.Index] = true
			preds = append(preds, p)
		}
	}
	var r *RF
	if isHeader {
		// unchanged inside the loop: the value on entry to the loop
		modified := false
		for _, l := range fc.Ctx.Loops() {
			if l.Header != b {
				continue
			}
			for bi := range l.Body {
				for _, in := range fc.Fn.Blocks[bi].Instrs {
					if fc.defKind(in, c) != 0 {
						modified = true
					}
				}
			}
		}
		if modified {
			r = fc.memphi(c, cellType, b)
		}
	}
	if r == nil {
		switch len(preds) {
		case 0:
			r = fc.entryValue(c, cellType)
		case 1:
			r = fc.cellAtExit(c, cellType, preds[0])
		default:
			// all predecessors agree?
			first := fc.cellAtExit(c, cellType, preds[0])
			same := true
			for _, p := range preds[1:] {
				if !fc.cellAtExit(c, cellType, p).Equal(first) {
					same = false
				}
			}
			if same {
				r = first
				break
			}
			if isHeader {
				r = fc.memphi(c, cellType, b) // several entries into a loop: not gated
				break
			}
			r = fc.mergeAt(b, func(p *ssa.BasicBlock) *RF { return fc.cellAtExit(c, cellType, p) })
			if r == nil {
				r = fc.memphi(c, cellType, b)
			}
		}
	}
	fc.cellMemo[key] = r
	return r
}

func (fc *FC) cellAtExit(c cellKey, cellType types.Type, p *ssa.BasicBlock) *RF {
	var last ssa.Instruction
	for _, in := range p.Instrs {
		if fc.defKind(in, c) != 0 {
			last = in
		}
	}
	if last != nil {
		return fc.defValue(c, cellType, last)
	}
	return fc.cellAtEntry(c, cellType, p)
}

func cellTypeField(t types.Type, f int) types.Type {
	if f < 0 {
		return t
	}
	if st, ok := t.Underlying().(*types.Struct); ok && f < st.NumFields() {
		return st.Field(f).Type()
	}
	return t
}

func (fc *FC) defValue(c cellKey, cellType types.Type, d ssa.Instruction) *RF {
	switch fc.defKind(d, c) {
	case 1:
		st := d.(*ssa.Store)
		// the address of a local struct stored into a field (a literal holding &s):
		// a reference to the struct's value at that point, as for call arguments
		if al, ok := st.Val.(*ssa.Alloc); ok {
			if _, isStruct := al.Type().Underlying().(*types.Pointer).Elem().Underlying().(*types.Struct); isStruct {
				return fc.X.S.MakeFn("ref", fc.structAt(al, st))
			}
		}
		return fc.Val(st.Val)
	case 2:
		st := d.(*ssa.Store)
		return fc.X.fieldOf(fc.Val(st.Val), st.Val.Type(), c.field)
	}
	if call, ok := d.(*ssa.Call); ok && c.field >= 0 {
		if v := fc.fieldAfterCall(call, c, cellType); v != nil {
			return v
		}
	}
	return fc.X.S.Var(fmt.Sprintf("clobber:%s:%s.%d", fc.X.W.InstrPos(d), c.base.Name(), c.field), false)
}

// mergeAt: the gating function of a merge at block j. valOf gives the value
// carried by each live predecessor edge. The region between idom(j) and j
// must be acyclic; control leaving through return/panic is irrelevant.
func (fc *FC) mergeAt(j *ssa.BasicBlock, valOf func(p *ssa.BasicBlock) *RF) *RF {
	s := fc.X.S
	d := fc.Ctx.idom[j.Index]
	if d < 0 {
		return nil
	}
	vals := map[int]*RF{}
	memo := map[int]*RF{}
	visiting := map[int]bool{}
	fail := false
	var V func(b *ssa.BasicBlock, depth int) *RF
	edge := func(b *ssa.BasicBlock, k int, depth int) *RF {
		succ := b.Succs[k]
		if succ == j {
			if v, ok := vals[b.Index]; ok {
				return v
			}
			v := valOf(b)
			vals[b.Index] = v
			return v
		}
		return V(succ, depth+1)
	}
	V = func(b *ssa.BasicBlock, depth int) *RF {
		if r, ok := memo[b.Index]; ok {
			return r
		}
		if visiting[b.Index] || depth > 100 {
			fail = true
			return s.Bottom()
		}
		visiting[b.Index] = true
		defer delete(visiting, b.Index)
		var r *RF
		// a loop that does not contain j is stepped over through its single exit
		for _, l := range fc.Ctx.Loops() {
			if l.Header == b && !l.Body[j.Index] {
				exits := map[int]*ssa.BasicBlock{}
				var from *ssa.BasicBlock
				for bi := range l.Body {
					for _, sc := range fc.Ctx.LiveSuccs(fc.Fn.Blocks[bi]) {
						if !l.Body[sc.Index] {
							if _, isP := sc.Instrs[len(sc.Instrs)-1].(*ssa.Panic); isP {
								continue
							}
							exits[sc.Index] = sc
							from = fc.Fn.Blocks[bi]
						}
					}
				}
				if len(exits) != 1 {
					fail = true
					return s.Bottom()
				}
				for _, e := range exits {
					if e == j {
						if v, ok := vals[from.Index]; ok {
							r = v
						} else {
							r = valOf(from)
							vals[from.Index] = r
						}
					} else {
						r = V(e, depth+1)
					}
				}
				memo[b.Index] = r
				return r
			}
		}
		switch t := b.Instrs[len(b.Instrs)-1].(type) {
		case *ssa.Jump:
			r = edge(b, 0, depth)
		case *ssa.If:
			var tv, fv *RF
			if fc.Ctx.EdgeLive(b, 0) {
				tv = edge(b, 0, depth)
			}
			if fc.Ctx.EdgeLive(b, 1) {
				fv = edge(b, 1, depth)
			}
			switch {
			case tv == nil && fv == nil:
				r = s.Bottom()
			case tv == nil || s.isBottom(tv):
				r = fv
				if r == nil {
					r = tv
				}
			case fv == nil || s.isBottom(fv):
				r = tv
			default:
				r = s.Ite(fc.Val(t.Cond), tv, fv)
			}
		default:
			r = s.Bottom()
		}
		memo[b.Index] = r
		return r
	}
	r := V(fc.Fn.Blocks[d], 0)
	if fail || r == nil || s.isBottom(r) {
		return nil
	}
	return r
}

// structOf: the struct value a pointer designates, for pointers that are not
// tracked cells (a pointer atom stands for its pointee; nested field
// addresses project).
func (fc *FC) structOf(ptr ssa.Value) *RF {
	if fa, ok := ptr.(*ssa.FieldAddr); ok {
		st := fa.X.Type().Underlying().(*types.Pointer).Elem()
		return fc.X.fieldOf(fc.structOf(fa.X), st, fa.Field)
	}
	if ia, ok := ptr.(*ssa.IndexAddr); ok {
		// address of a slice/array element: the element
		return fc.X.S.MakeFn("idx", fc.Val(ia.X), fc.Val(ia.Index))
	}
	v := fc.Val(ptr)
	if at := v.SingleAtom(); at != nil && at.Name == "ref" {
		return at.Args[0]
	}
	return v
}

// structAt: the value of the struct held in local cell al just before `at`.
func (fc *FC) structAt(al *ssa.Alloc, at ssa.Instruction) *RF {
	t := al.Type().Underlying().(*types.Pointer).Elem()
	st := t.Underlying().(*types.Struct)
	fs := make([]*RF, st.NumFields())
	for i := range fs {
		fs[i] = fc.cellValue(cellKey{al, i}, t, at)
	}
	return fc.X.mkStruct(t, fs)
}

func (fc *FC) entryValue(c cellKey, cellType types.Type) *RF {
	x := fc.X
	switch b := c.base.(type) {
	case *ssa.Alloc:
		t := cellType
		if c.field >= 0 {
			t = cellTypeField(cellType, c.field)
		}
		return x.zero(t)
	case *ssa.Parameter:
		v := fc.Val(b)
		if at := v.SingleAtom(); at != nil && at.Name == "ref" {
			v = at.Args[0]
		}
		return x.fieldOf(v, cellType, c.field)
	}
	return x.S.Var("entry?", false)
}

func (fc *FC) load(u *ssa.UnOp) *RF {
	x, s := fc.X, fc.X.S
	switch a := u.X.(type) {
	case *ssa.Global:
		return s.Var("global:"+x.W.relPkg(a.Pkg.Pkg)+"."+a.Name(), isIntType(u.Type()))
	case *ssa.FreeVar:
		return fc.freeVar(a)
	case *ssa.IndexAddr:
		return s.MakeFn("idx", fc.Val(a.X), fc.Val(a.Index))
	case *ssa.Alloc:
		c, t, _ := fc.cellOf(a)
		if st, ok := t.Underlying().(*types.Struct); ok {
			fs := make([]*RF, st.NumFields())
			for i := range fs {
				fs[i] = fc.cellValue(cellKey{a, i}, t, u)
			}
			return x.mkStruct(t, fs)
		}
		return fc.cellValue(c, t, u)
	case *ssa.FieldAddr:
		if c, t, ok := fc.cellOf(a); ok {
			return fc.cellValue(c, t, u)
		}
		// field of some other pointer value (not tracked through stores):
		// the pointer stands for the struct it points to
		st := a.X.Type().Underlying().(*types.Pointer).Elem()
		return x.fieldOf(fc.structOf(a.X), st, a.Field)
	case *ssa.Parameter:
		// whole-struct load through a pointer parameter
		t := a.Type().Underlying().(*types.Pointer).Elem()
		if st, ok := t.Underlying().(*types.Struct); ok {
			fs := make([]*RF, st.NumFields())
			for i := range fs {
				fs[i] = fc.cellValue(cellKey{a, i}, t, u)
			}
			return x.mkStruct(t, fs)
		}
	}
	// a load through some other pointer value (typically a call result): calls
	// that received the pointer earlier and write through it changed the pointee
	ptr := fc.Val(u.X)
	if refs := u.X.Referrers(); refs != nil {
		var muts []*ssa.Call
		for _, ref := range *refs {
			c, ok := ref.(*ssa.Call)
			if !ok || !fc.Ctx.Reach[c.Block().Index] {
				continue
			}
			if fc.defKind(c, cellKey{u.X, -1}) != 0 && fc.reaches(c, u) {
				muts = append(muts, c)
			}
		}
		switch len(muts) {
		case 0:
		case 1:
			// a method that returns its receiver names the state after the call
			// (p.Sort(); *p  is  *p.Sort())
			c := muts[0]
			if f := c.Common().StaticCallee(); f != nil && x.Eff != nil && len(c.Common().Args) > 0 && c.Common().Args[0] == u.X {
				if sum := x.Eff.Summary(f); sum != nil && len(sum.Returns) == 1 && len(sum.Returns[0]) == 1 {
					for o := range sum.Returns[0] {
						if o.K == KParam && o.Idx == 0 && !o.Deep {
							return s.MakeFn("deref", fc.Val(c))
						}
					}
				}
			}
			return s.MakeFn("deref", s.MakeFn("after:"+fc.calleeName(c), ptr))
		default:
			return s.MakeFn("deref", s.MakeFn("after:"+x.W.InstrPos(muts[len(muts)-1]), ptr))
		}
	}
	// a parameter spilled to a cell that nothing ever writes again (its address
	// goes only into loads, possibly through a phi): the load is the parameter
	if at := ptr.SingleAtom(); at != nil && at.Name == "ref" && len(at.Args) == 1 && spillOnly(u.X) {
		return at.Args[0]
	}
	return s.MakeFn("deref", ptr)
}

// loadOnly: every use of the address v is a load (directly or of a field).
func loadOnly(v ssa.Value) bool {
	refs := v.Referrers()
	if refs == nil {
		return false
	}
	for _, r := range *refs {
		switch r := r.(type) {
		case *ssa.UnOp, *ssa.DebugRef:
		case *ssa.FieldAddr:
			if !loadOnly(r) {
				return false
			}
		default:
			return false
		}
	}
	return true
}

// spillOnly: v is a cell holding a parameter (one store, of a parameter) whose
// address is otherwise only loaded from, or a phi — itself only loaded from —
// whose parameter-holding cells are all such cells.
func spillOnly(v ssa.Value) bool {
	cell := func(al *ssa.Alloc, via *ssa.Phi) bool {
		stores := 0
		for _, r := range *al.Referrers() {
			switch r := r.(type) {
			case *ssa.Store:
				if _, isParam := r.Val.(*ssa.Parameter); r.Addr != al || !isParam {
					return false
				}
				stores++
			case *ssa.UnOp, *ssa.DebugRef:
			case *ssa.FieldAddr:
				if !loadOnly(r) {
					return false
				}
			case *ssa.Phi:
				if r != via {
					return false
				}
			default:
				return false
			}
		}
		return stores == 1
	}
	switch v := v.(type) {
	case *ssa.Alloc:
		return cell(v, nil)
	case *ssa.Phi:
		if !loadOnly(v) {
			return false
		}
		for _, e := range v.Edges {
			al, ok := e.(*ssa.Alloc)
			if !ok {
				continue // cannot be such a cell: their addresses go nowhere but here
			}
			one := false
			for _, r := range *al.Referrers() {
				if st, ok := r.(*ssa.Store); ok && st.Addr == al {
					if _, isParam := st.Val.(*ssa.Parameter); isParam {
						one = true
					}
				}
			}
			if one && !cell(al, v) {
				return false
			}
		}
		return true
	}
	return false
}

// freeVar resolves a load of a captured variable through the creating function.
func (fc *FC) freeVar(fv *ssa.FreeVar) *RF {
	x, s := fc.X, fc.X.S
	opaque := s.Var(fmt.Sprintf("fv:%s:%s", x.W.FuncName(fc.Fn), fv.Name()), false)
	parent := fc.Fn.Parent()
	if parent == nil {
		return opaque
	}
	idx := -1
	for i, f := range fc.Fn.FreeVars {
		if f == fv {
			idx = i
		}
	}
	var binding ssa.Value
	for _, b := range parent.Blocks {
		for _, in := range b.Instrs {
			if mc, ok := in.(*ssa.MakeClosure); ok && mc.Fn == fc.Fn && idx < len(mc.Bindings) {
				binding = mc.Bindings[idx]
			}
		}
	}
	if binding == nil {
		return opaque
	}
	pfc := fc.Parent
	if pfc == nil {
		pfc = x.FCFor(parent)
	}
	switch b := binding.(type) {
	case *ssa.Alloc:
		// exactly one store to the cell in the creating function (and none in any closure)
		var stores []*ssa.Store
		other := false
		for _, ref := range *b.Referrers() {
			switch r := ref.(type) {
			case *ssa.Store:
				if r.Addr == b {
					stores = append(stores, r)
				} else {
					other = true
				}
			case *ssa.MakeClosure:
				cf := r.Fn.(*ssa.Function)
				for i, bb := range r.Bindings {
					if bb == b && closureStoresTo(cf, i) {
						other = true
					}
				}
			case *ssa.UnOp, *ssa.DebugRef:
			case *ssa.FieldAddr:
				for _, r2 := range *r.Referrers() {
					if _, isStore := r2.(*ssa.Store); isStore {
						other = true
					}
				}
			default:
				other = true
			}
		}
		if len(stores) == 1 && !other {
			// one store statement, but executed once per iteration of a loop the cell
			// lives outside of: the closures created in that loop share the cell and
			// see its last value when they run (`var pow float64; for … { pow = …;
			// terms[d] = func… pow … }`), not the value stored when they were created
			if l := pfc.Ctx.LoopOf(stores[0].Block()); l != nil && !l.Body[b.Block().Index] {
				return opaque
			}
			return pfc.Val(stores[0].Val)
		}
		if !other && len(stores) > 1 {
			// several stores, all of which happen before the closure is created:
			// the closure sees the cell's value at its creation
			var mk *ssa.MakeClosure
			for _, blk := range parent.Blocks {
				for _, in := range blk.Instrs {
					if mc, ok := in.(*ssa.MakeClosure); ok && mc.Fn == fc.Fn {
						mk = mc
					}
				}
			}
			if mk != nil {
				late := false
				for _, st := range stores {
					if pfc.reaches(mk, st) {
						late = true
					}
				}
				if !late {
					t := b.Type().Underlying().(*types.Pointer).Elem()
					return pfc.cellValue(cellKey{b, -1}, t, mk)
				}
			}
		}
		return opaque
	case *ssa.FreeVar:
		return pfc.freeVar(b)
	}
	return opaque
}

// reaches: can control flow from instruction a to instruction b?
func (fc *FC) reaches(a, b ssa.Instruction) bool {
	if a.Block() == b.Block() {
		for _, in := range a.Block().Instrs {
			if in == a {
				// b after a in the same block?
				after := false
				for _, in2 := range a.Block().Instrs {
					if in2 == a {
						after = true
						continue
					}
					if after && in2 == b {
						return true
					}
				}
				break
			}
		}
	}
	seen := map[int]bool{}
	stack := []*ssa.BasicBlock{}
	for _, sc := range fc.Ctx.LiveSuccs(a.Block()) {
		stack = append(stack, sc)
	}
	for len(stack) > 0 {
		x := stack[len(stack)-1]
		stack = stack[:len(stack)-1]
		if seen[x.Index] {
			continue
		}
		seen[x.Index] = true
		if x == b.Block() {
			return true
		}
		stack = append(stack, fc.Ctx.LiveSuccs(x)...)
	}
	return false
}

// capturedAndStored: the cell is bound into a closure that (transitively) stores to it.
func capturedAndStored(al *ssa.Alloc) bool {
	refs := al.Referrers()
	if refs == nil {
		return false
	}
	for _, ref := range *refs {
		if mc, ok := ref.(*ssa.MakeClosure); ok {
			for i, b := range mc.Bindings {
				if b == al && closureStoresTo(mc.Fn.(*ssa.Function), i) {
					return true
				}
			}
		}
	}
	return false
}

func closureStoresTo(cf *ssa.Function, fvIdx int) bool {
	if fvIdx >= len(cf.FreeVars) {
		return true
	}
	fv := cf.FreeVars[fvIdx]
	for _, ref := range *fv.Referrers() {
		switch r := ref.(type) {
		case *ssa.Store:
			if r.Addr == fv {
				return true
			}
		case *ssa.MakeClosure:
			inner := r.Fn.(*ssa.Function)
			for i, b := range r.Bindings {
				if b == fv && closureStoresTo(inner, i) {
					return true
				}
			}
		case *ssa.UnOp, *ssa.DebugRef:
		default:
			return true
		}
	}
	return false
}

// ---- phis ----

// rotatedExitOf: the header phi that the exit merge p of a rotated loop stands for, or nil.
func (fc *FC) rotatedExitOf(p *ssa.Phi, vals []ssa.Value, preds []*ssa.BasicBlock) *ssa.Phi {
	if len(vals) != 2 {
		return nil
	}
	for _, l := range fc.Ctx.Loops() {
		if l.Body[p.Block().Index] || len(l.Latch) != 1 {
			continue
		}
		lt := l.Latch[0]
		var pre *ssa.BasicBlock
		nOut := 0
		for _, hp := range fc.Ctx.LivePreds(l.Header) {
			if !l.Body[hp.Index] {
				pre = hp
				nOut++
			}
		}
		if nOut != 1 {
			continue
		}
		var fromPre, fromLatch ssa.Value
		for i, pr := range preds {
			switch pr {
			case pre:
				fromPre = vals[i]
			case lt:
				fromLatch = vals[i]
			}
		}
		if fromPre == nil || fromLatch == nil {
			continue
		}
		// both the preheader and the latch end in a two-way branch between the header and p's block
		twoWay := func(b *ssa.BasicBlock) bool {
			if _, isIf := b.Instrs[len(b.Instrs)-1].(*ssa.If); !isIf || len(b.Succs) != 2 {
				return false
			}
			return (b.Succs[0] == l.Header && b.Succs[1] == p.Block()) || (b.Succs[1] == l.Header && b.Succs[0] == p.Block())
		}
		if !twoWay(pre) || !twoWay(lt) {
			continue
		}
		for _, in := range l.Header.Instrs {
			h, ok := in.(*ssa.Phi)
			if !ok {
				break
			}
			hv, hp := fc.Ctx.PhiLiveEdges(h)
			if len(hv) != 2 {
				continue
			}
			match := 0
			for i, pr := range hp {
				if pr == pre && hv[i] == fromPre {
					match++
				}
				if pr == lt && hv[i] == fromLatch {
					match++
				}
			}
			if match == 2 {
				return h
			}
		}
	}
	return nil
}

func (fc *FC) phi(p *ssa.Phi) *RF {
	s := fc.X.S
	vals, preds := fc.Ctx.PhiLiveEdges(p)
	if len(vals) == 0 {
		return s.Var("deadphi", false)
	}
	// loop header?
	isHeader := false
	for _, pr := range preds {
		if fc.Ctx.Dominates(p.Block(), pr) {
			isHeader = true
		}
	}
	var atom *RF
	if len(fc.bindArgs) > 0 {
		atom = s.Fn(fmt.Sprintf("phi:%s:%d", fc.X.W.FuncName(fc.Fn), fc.phiIdx[p]), fc.bindArgs...)
		if isIntType(p.Type()) {
			atom.SingleAtom().Int = true
		}
	} else {
		atom = s.Var(fmt.Sprintf("phi:%s:%d", fc.X.W.FuncName(fc.Fn), fc.phiIdx[p]), isIntType(p.Type()))
	}
	fc.X.phiOf[atom.SingleAtom().ID] = p
	fc.X.phiFC[atom.SingleAtom().ID] = fc
	if isHeader {
		// a value carried round the loop unchanged (every back edge brings the phi itself) is
		// the value the loop was entered with
		invariant := true
		initBy := map[int]*RF{}
		var one *RF
		same := true
		for i, v := range vals {
			if fc.Ctx.Dominates(p.Block(), preds[i]) {
				if v != ssa.Value(p) {
					invariant = false
				}
				continue
			}
			rv := fc.Val(v)
			if one != nil && !one.Equal(rv) {
				same = false
			}
			one = rv
			initBy[preds[i].Index] = rv
		}
		if invariant && one != nil {
			if same {
				return one
			}
			if r := fc.mergeAt(p.Block(), func(pb *ssa.BasicBlock) *RF { return initBy[pb.Index] }); r != nil {
				return r
			}
		}
		return atom
	}
	// the merge at the exit of a rotated (bottom-tested) loop — initial value from the
	// preheader's skip edge, next value from the latch — carries exactly the incoming values of
	// a header phi: it is that loop variable as it stands when the loop is over
	if h := fc.rotatedExitOf(p, vals, preds); h != nil {
		return fc.Val(h)
	}
	rfs := make([]*RF, len(vals))
	for i, v := range vals {
		rfs[i] = fc.Val(v)
	}
	all := true
	for _, r := range rfs[1:] {
		if !r.Equal(rfs[0]) {
			all = false
		}
	}
	if all {
		return rfs[0]
	}
	byPred := map[int]*RF{}
	conflict := false
	for i, pr := range preds {
		if old, ok := byPred[pr.Index]; ok && !old.Equal(rfs[i]) {
			conflict = true
		}
		byPred[pr.Index] = rfs[i]
	}
	if !conflict {
		if r := fc.mergeAt(p.Block(), func(pb *ssa.BasicBlock) *RF { return byPred[pb.Index] }); r != nil {
			return r
		}
	}
	return atom
}

// ---- calls ----

func (fc *FC) call(c *ssa.Call) *RF {
	x, s := fc.X, fc.X.S
	cm := c.Common()
	args := make([]*RF, len(cm.Args))
	for i, a := range cm.Args {
		if al, ok := a.(*ssa.Alloc); ok {
			if _, isStruct := al.Type().Underlying().(*types.Pointer).Elem().Underlying().(*types.Struct); isStruct {
				// address of a local struct: pass the struct's current value by reference
				args[i] = s.MakeFn("ref", fc.structAt(al, c))
				continue
			}
		}
		args[i] = fc.Val(a)
	}
	// for inlining, a pointer parameter whose pointee this function has
	// modified before the call is passed as a reference to the struct's
	// current value (an inlined callee reads memory as of the call, not as of
	// this function's entry)
	iargs := args
	for i, a := range cm.Args {
		p, ok := a.(*ssa.Parameter)
		if !ok {
			continue
		}
		pt, ok := p.Type().Underlying().(*types.Pointer)
		if !ok {
			continue
		}
		st, ok := pt.Elem().Underlying().(*types.Struct)
		if !ok {
			continue
		}
		changed := false
		fs := make([]*RF, st.NumFields())
		for k := range fs {
			fs[k] = fc.cellValue(cellKey{p, k}, pt.Elem(), c)
			if !fs[k].Equal(fc.entryValue(cellKey{p, k}, pt.Elem())) {
				changed = true
			}
		}
		if changed {
			if &iargs[0] == &args[0] {
				iargs = append([]*RF(nil), args...)
			}
			iargs[i] = s.MakeFn("ref", x.mkStruct(pt.Elem(), fs))
		}
	}
	if cm.IsInvoke() {
		return x.Invoke(cm.Method.Name(), append([]*RF{fc.Val(cm.Value)}, args...)...)
	}
	if b, ok := cm.Value.(*ssa.Builtin); ok {
		switch b.Name() {
		case "len", "cap":
			if at := args[0].SingleAtom(); at != nil && strings.HasPrefix(at.Name, "makeslice:") && b.Name() == "len" {
				return at.Args[0]
			}
			if at := args[0].SingleAtom(); at != nil && at.Name == "copyof" && b.Name() == "len" {
				return s.MakeFn("len", at.Args[0])
			}
			return s.MakeFn(b.Name(), args[0])
		}
		return s.MakeFn("builtin:"+b.Name(), args...)
	}
	if f := cm.StaticCallee(); f != nil {
		if mc, ok := cm.Value.(*ssa.MakeClosure); ok {
			return x.callClosure(mc, args, fc)
		}
		return x.callFn(f, args, iargs)
	}
	// call through a function value
	return x.applyValue(fc.Val(cm.Value), args, 0)
}

// applyValue: the value of calling the function value fv: a known closure or
// function is called as such, a bound method value is the method call on the
// bound receiver, and a value chosen between several (uniform := f; if c {
// uniform = g }) is the same choice between the calls.
func (x *Extractor) applyValue(fv *RF, args []*RF, depth int) *RF {
	s := x.S
	if at := fv.SingleAtom(); at != nil && depth < 6 {
		if at.Name == "ite" && len(at.Args) == 3 {
			return s.Ite(at.Args[0], x.applyValue(at.Args[1], args, depth+1), x.applyValue(at.Args[2], args, depth+1))
		}
		if mc, ok := x.cloFn[at.ID]; ok {
			f := mc.Fn.(*ssa.Function)
			if strings.HasPrefix(f.Synthetic, "bound method wrapper") && len(mc.Bindings) == 1 && x.cloFC[at.ID] != nil {
				if obj, ok := f.Object().(*types.Func); ok {
					recv := x.cloFC[at.ID].Val(mc.Bindings[0])
					if m := f.Prog.FuncValue(obj); m != nil {
						return x.callFn(m, append([]*RF{recv}, args...), append([]*RF{recv}, args...))
					}
					return s.MakeFn("call:"+obj.Name(), append([]*RF{recv}, args...)...)
				}
			}
			return x.callClosure(mc, args, nil)
		}
		if f, ok := x.funcOf[at.ID]; ok && f.Signature.Recv() == nil && len(f.FreeVars) == 0 {
			return x.callFn(f, args, args)
		}
	}
	return s.MakeFn("apply", append([]*RF{fv}, args...)...)
}

func (x *Extractor) Invoke(method string, args ...*RF) *RF {
	return x.S.MakeFn("call:"+method, args...)
}

func (x *Extractor) callClosure(mc *ssa.MakeClosure, args []*RF, parent *FC) *RF {
	f := mc.Fn.(*ssa.Function)
	if !x.NoInline[x.W.FuncName(f)] {
		if r := x.inline(f, args, parent); r != nil {
			return r
		}
	}
	return x.S.MakeFn("apply", append([]*RF{x.S.Var("closure:"+x.W.FuncName(f), false)}, args...)...)
}

// CallFn: the value of calling f with args — inlined when f is a small
// acyclic module function, else an application atom.
func (x *Extractor) CallFn(f *ssa.Function, args []*RF) *RF { return x.callFn(f, args, args) }

// callFn: iargs are the arguments as seen by an inlined body (see FC.call).
func (x *Extractor) callFn(f *ssa.Function, args, iargs []*RF) *RF {
	name := x.W.FuncName(f)
	if f.Blocks != nil && x.Eff != nil && x.Eff.analyzable(f) && !x.NoInline[name] {
		if r := x.inline(f, iargs, nil); r != nil {
			return r
		}
	}
	if f.Signature.Recv() != nil && f.Blocks != nil && x.Eff != nil && x.Eff.analyzable(f) {
		return x.S.MakeFn("call:"+f.Name(), args...)
	}
	if f.Signature.Recv() != nil && f.Object() != nil {
		return x.S.MakeFn("call:"+f.Object().Name(), args...)
	}
	n := f.String()
	n = strings.ReplaceAll(n, x.W.ModPath+"/", "")
	return x.S.MakeFn(canonCallee(n), args...)
}

// inline returns the gated single-assignment value of f(args), or nil when f
// is not inlinable (loops, too large, recursion).
func (x *Extractor) inline(f *ssa.Function, args []*RF, parent *FC) *RF {
	if f.Blocks == nil || len(f.Blocks) > x.MaxInlineBlocks || x.depth[f] > 0 || len(args) != len(f.Params) {
		return nil
	}
	// only value-returning helpers: a pointer/slice/map/func result denotes memory, not a formula
	// (interface results such as error values are fine)
	res := f.Signature.Results()
	if res.Len() == 0 {
		return nil
	}
	ptrRes, sliceRes := false, false
	for i := 0; i < res.Len(); i++ {
		t := res.At(i).Type()
		if _, isIface := t.Underlying().(*types.Interface); isIface {
			continue
		}
		// a struct value that merely contains slices is a value (its fields are atoms)
		switch t.Underlying().(type) {
		case *types.Pointer, *types.Map, *types.Chan:
			ptrRes = true
		case *types.Slice, *types.Signature:
			// a slice or function value returned by a pure acyclic helper is a value like
			// any other (a parameter, a fresh copy, a closure keyed by the instance's arguments)
			sliceRes = true
		}
	}
	x.depth[f]++
	defer func() { x.depth[f]-- }()
	bind := map[*ssa.Parameter]*RF{}
	for i, p := range f.Params {
		bind[p] = args[i]
	}
	fc := x.newFC(f, bind, nil)
	fc.Parent = parent
	fc.bindArgs = args
	if len(fc.Ctx.Loops()) > 0 {
		// a helper containing loops is inlined when it has a single return:
		// its result is expressed through the helper's own loop-carried
		// atoms (keyed by the actual arguments), whose recurrences remain
		// available to the caller's obligations
		if x.Eff != nil {
			if !x.pureForInline(f) {
				return nil
			}
		}
		rets := fc.Ctx.Returns()
		if len(rets) != 1 {
			return nil
		}
		if len(rets[0].Results) == 1 {
			return fc.Val(rets[0].Results[0])
		}
		rs := make([]*RF, len(rets[0].Results))
		for i, rr := range rets[0].Results {
			rs[i] = fc.Val(rr)
		}
		return x.S.MakeFn("tuple", rs...)
	}
	if ptrRes {
		return nil
	}
	_ = sliceRes // a slice result of a pure acyclic helper is a value like any other (a parameter, a fresh copy, …)
	// effects: only pure helpers are inlined (no stores to non-local memory)
	if x.Eff != nil {
		if !x.pureForInline(f) {
			return nil
		}
	}
	r := fc.retVal(f.Blocks[0], 0)
	if r == nil || x.S.isBottom(r) {
		return nil
	}
	for _, a := range r.Atoms(true) {
		if strings.HasPrefix(a.Name, "phi:") || strings.HasPrefix(a.Name, "memphi:") || strings.HasPrefix(a.Name, "opaque:") || strings.HasPrefix(a.Name, "cyc:") {
			if strings.Contains(a.Name, ":"+x.W.FuncName(f)+":") {
				return nil
			}
		}
	}
	return r
}

// retVal: gated value returned by executing from block b (acyclic CFG).
func (fc *FC) retVal(b *ssa.BasicBlock, depth int) *RF { return fc.gatedReturns(b, depth, nil) }

// gatedReturns: the value leaf(return) — by default the returned value(s) —
// gated over the branch conditions on the way from b to each return.
func (fc *FC) gatedReturns(b *ssa.BasicBlock, depth int, leaf func(*ssa.Return) *RF) *RF {
	s := fc.X.S
	if depth > 40 {
		return nil
	}
	// a loop header is stepped over through the loop's single exit target
	// (values computed by the loop are its loop-carried atoms)
	var outer *Loop
	for _, l := range fc.Ctx.Loops() {
		if l.Header == b && (outer == nil || len(l.Body) > len(outer.Body)) {
			outer = l
		}
	}
	if outer != nil {
		exits := map[int]*ssa.BasicBlock{}
		for bi := range outer.Body {
			for _, sc := range fc.Ctx.LiveSuccs(fc.Fn.Blocks[bi]) {
				if !outer.Body[sc.Index] {
					exits[sc.Index] = sc
				}
			}
		}
		if len(exits) > 1 {
			// an exit block that runs straight (no branch) into another exit target — the body of a
			// break — joins it: the merged values there are phis like any other
			for changed := true; changed && len(exits) > 1; {
				changed = false
				for idx, e := range exits {
					t := e
					for n := 0; n < 8 && len(t.Succs) == 1 && !outer.Body[t.Succs[0].Index]; n++ {
						t = t.Succs[0]
						if _, ok := exits[t.Index]; ok && t != e {
							delete(exits, idx)
							changed = true
							break
						}
					}
					if changed {
						break
					}
				}
			}
			if len(exits) > 1 {
				// all exits forwarding to one common block
				common := map[int]*ssa.BasicBlock{}
				for _, e := range exits {
					t := e
					for n := 0; n < 8 && len(t.Succs) == 1 && !outer.Body[t.Succs[0].Index] && len(t.Succs[0].Preds) == 1; n++ {
						t = t.Succs[0]
					}
					if len(t.Succs) == 1 {
						t = t.Succs[0]
					}
					common[t.Index] = t
				}
				if len(common) == 1 {
					exits = common
				}
			}
		}
		if len(exits) > 1 {
			// several exit targets (a return or panic from inside the loop besides its normal
			// continuation): the value is gated over the exit taken by the final iteration, the
			// conditions read at that iteration's loop-carried values. Exits that only panic
			// contribute no value.
			var idxs []int
			for i := range exits {
				idxs = append(idxs, i)
			}
			sort.Ints(idxs)
			type ev struct {
				cond, val *RF
			}
			var evs []ev
			for _, i := range idxs {
				e := exits[i]
				v := fc.gatedReturns(e, depth+1, leaf)
				if v == nil {
					return nil
				}
				v = fc.resolveExitPhis(outer, e, v)
				if s.isBottom(v) {
					continue
				}
				c := fc.exitCond(outer, e)
				if c == nil {
					return nil
				}
				evs = append(evs, ev{c, v})
			}
			switch len(evs) {
			case 0:
				return s.Bottom()
			case 1:
				return evs[0].val
			}
			// the final iteration takes exactly one exit, so the last condition of the chain is
			// implied; gate on the simplest conditions (fewest atoms), leaving the most involved implied
			sort.SliceStable(evs, func(i, j int) bool { return len(evs[i].cond.Atoms(true)) < len(evs[j].cond.Atoms(true)) })
			acc := evs[len(evs)-1].val
			for k := len(evs) - 2; k >= 0; k-- {
				acc = fc.gateTuple(evs[k].cond, evs[k].val, acc)
			}
			return acc
		}
		for _, e := range exits {
			v := fc.gatedReturns(e, depth+1, leaf)
			if v == nil {
				return nil
			}
			return fc.resolveExitPhis(outer, e, v)
		}
		return nil
	}
	last := b.Instrs[len(b.Instrs)-1]
	switch t := last.(type) {
	case *ssa.Return:
		if leaf != nil {
			return leaf(t)
		}
		if len(t.Results) == 0 {
			return s.Var("void", false)
		}
		if len(t.Results) == 1 {
			return fc.Val(t.Results[0])
		}
		rs := make([]*RF, len(t.Results))
		for i, r := range t.Results {
			rs[i] = fc.Val(r)
		}
		return s.MakeFn("tuple", rs...)
	case *ssa.Panic:
		return s.Bottom()
	case *ssa.Jump:
		return fc.gatedReturns(b.Succs[0], depth+1, leaf)
	case *ssa.If:
		var tv, fv *RF
		if fc.Ctx.EdgeLive(b, 0) {
			tv = fc.gatedReturns(b.Succs[0], depth+1, leaf)
			if tv == nil {
				return nil // a live branch whose value could not be computed: no gated value at all
			}
		}
		if fc.Ctx.EdgeLive(b, 1) {
			fv = fc.gatedReturns(b.Succs[1], depth+1, leaf)
			if fv == nil {
				return nil
			}
		}
		switch {
		case tv == nil && fv == nil:
			return nil
		case tv == nil || s.isBottom(tv):
			if fv == nil {
				return tv
			}
			return fv
		case fv == nil || s.isBottom(fv):
			return tv
		}
		// tuples: gate component-wise
		ta, fa := tv.SingleAtom(), fv.SingleAtom()
		if ta != nil && fa != nil && ta.Name == "tuple" && fa.Name == "tuple" && len(ta.Args) == len(fa.Args) {
			c := fc.Val(t.Cond)
			rs := make([]*RF, len(ta.Args))
			for i := range rs {
				rs[i] = s.Ite(c, ta.Args[i], fa.Args[i])
			}
			return s.MakeFn("tuple", rs...)
		}
		return s.Ite(fc.Val(t.Cond), tv, fv)
	}
	return nil
}

// exitCond: the condition, within one iteration of loop l (at its loop-carried
// values), under which the iteration leaves the loop to target e; nil when the
// loop body is not loop-free.
func (fc *FC) exitCond(l *Loop, e *ssa.BasicBlock) (c *RF) {
	defer func() {
		if rec := recover(); rec != nil {
			if _, ok := rec.(anchorErr); ok {
				c = nil
				return
			}
			panic(rec)
		}
	}()
	s := fc.X.S
	acc := s.False()
	for _, p := range fc.Ctx.LivePreds(e) {
		if !l.Body[p.Index] {
			// an exit reached through the body of a break: the edge into that body
			found := false
			q := p
			for n := 0; n < 8 && !found; n++ {
				ps := fc.Ctx.LivePreds(q)
				if len(ps) != 1 {
					break
				}
				if l.Body[ps[0].Index] {
					acc = s.Or(acc, s.And(fc.ReachCondFrom(l.Header, ps[0]), fc.edgeCond(ps[0], q)))
					found = true
				}
				q = ps[0]
			}
			continue
		}
		acc = s.Or(acc, s.And(fc.ReachCondFrom(l.Header, p), fc.edgeCond(p, e)))
	}
	return acc
}

// resolveExitPhis: v was computed from block e, reached by leaving loop l. A
// value merged at e (a phi the extractor could not gate, because e joins the
// exits of several loops or branches) is, on this path, the value carried by
// the edges out of l — when they all carry the same one.
func (fc *FC) resolveExitPhis(l *Loop, e *ssa.BasicBlock, v *RF) *RF {
	fromLoop := func(p *ssa.BasicBlock) bool {
		for n := 0; n < 8; n++ {
			if l.Body[p.Index] {
				return true
			}
			ps := fc.Ctx.LivePreds(p)
			if len(ps) != 1 {
				return false
			}
			p = ps[0]
		}
		return false
	}
	sub := map[AtomID]*RF{}
	for _, in := range e.Instrs {
		ph, ok := in.(*ssa.Phi)
		if !ok {
			break
		}
		pv := fc.Val(ph)
		at := pv.SingleAtom()
		if at == nil || fc.X.phiOf[at.ID] != ph {
			continue
		}
		vals, preds := fc.Ctx.PhiLiveEdges(ph)
		var common *RF
		same, any := true, false
		for k, pr := range preds {
			if !fromLoop(pr) {
				continue
			}
			any = true
			ev := fc.Val(vals[k])
			if common != nil && !common.Equal(ev) {
				same = false
			}
			common = ev
		}
		if any && same && common != nil {
			sub[at.ID] = common
		}
	}
	if len(sub) == 0 {
		return v
	}
	return v.Subst(sub)
}

// resolveAlongEdge: v was computed from block `to`, entered over the edge
// from→to. Values merged at `to` — and at the joins reached from it in a
// straight line (the body of a break running into the common continuation) —
// that the extractor left as opaque merge atoms are, on this path, the values
// carried by the edges actually taken.
func (fc *FC) resolveAlongEdge(from, to *ssa.BasicBlock, v *RF) *RF {
	sub := map[AtomID]*RF{}
	for n := 0; n < 8; n++ {
		for _, in := range to.Instrs {
			ph, ok := in.(*ssa.Phi)
			if !ok {
				break
			}
			pv := fc.Val(ph)
			at := pv.SingleAtom()
			if at == nil || fc.X.phiOf[at.ID] != ph {
				continue
			}
			for k, pr := range ph.Block().Preds {
				if pr == from && k < len(ph.Edges) {
					if _, done := sub[at.ID]; !done {
						sub[at.ID] = fc.Val(ph.Edges[k])
					}
				}
			}
		}
		if len(to.Succs) != 1 {
			break
		}
		from, to = to, to.Succs[0]
	}
	if len(sub) == 0 {
		return v
	}
	// (a substituted value may itself mention an earlier merge on the path)
	for i := 0; i < 3; i++ {
		v = v.Subst(sub)
	}
	return v
}

// gateTuple: ite(c, a, b), component-wise on tuples.
func (fc *FC) gateTuple(c, a, b *RF) *RF {
	s := fc.X.S
	ta, fa := a.SingleAtom(), b.SingleAtom()
	if ta != nil && fa != nil && ta.Name == "tuple" && fa.Name == "tuple" && len(ta.Args) == len(fa.Args) {
		rs := make([]*RF, len(ta.Args))
		for i := range rs {
			rs[i] = s.Ite(c, ta.Args[i], fa.Args[i])
		}
		return s.MakeFn("tuple", rs...)
	}
	return s.Ite(c, a, b)
}

// BoundCallees: this context followed by contexts of the module functions it
// calls statically (transitively to the given depth), their parameters bound
// to the actual arguments and the caller's assumptions applied — for rules
// that look for a construct "in this function or a helper it delegates to".
func (fc *FC) BoundCallees(depth int) []*FC {
	out := []*FC{fc}
	if depth <= 0 {
		return out
	}
	// one context per call site (a helper called twice with different
	// arguments is two contexts); recursion is cut by the chain of callers
	var walk func(cur *FC, d int, chain map[*ssa.Function]bool)
	walk = func(cur *FC, d int, chain map[*ssa.Function]bool) {
		cur.Ctx.Instrs(func(in ssa.Instruction) {
			c, ok := in.(*ssa.Call)
			if !ok || len(out) > 60 {
				return
			}
			f := c.Common().StaticCallee()
			if f == nil || f.Blocks == nil || chain[f] || !fc.X.W.IsLibFunc(f) || len(c.Common().Args) != len(f.Params) {
				return
			}
			bind := map[*ssa.Parameter]*RF{}
			args := make([]*RF, len(f.Params))
			for i, p := range f.Params {
				args[i] = cur.Val(c.Common().Args[i])
				if len(fc.Assume) > 0 {
					args[i] = fc.Sub(args[i])
				}
				bind[p] = args[i]
			}
			sub := fc.X.newFC(f, bind, fc.Assume)
			sub.bindArgs = args
			out = append(out, sub)
			if d > 1 {
				chain[f] = true
				walk(sub, d-1, chain)
				delete(chain, f)
			}
		})
	}
	walk(fc, depth, map[*ssa.Function]bool{fc.Fn: true})
	return out
}

// ClosureFC: a context for the body of the closure denoted by atom id, its
// free variables resolved in the context that created it.
func (x *Extractor) ClosureFC(id AtomID) *FC {
	mc, ok := x.cloFn[id]
	if !ok {
		return nil
	}
	cf := mc.Fn.(*ssa.Function)
	parent := x.cloFC[id]
	if parent == nil || len(parent.bindArgs) == 0 {
		return x.FCFor(cf)
	}
	fc := x.newFC(cf, nil, nil)
	fc.Parent = parent
	return fc
}

// pureForInline: f writes no caller-visible memory, except under the write
// tags a property declares benign for its extraction (BenignWriteTags; e.g.
// the idempotent lazy fill of KDE.Bandwidth, every reader of which goes
// through prepare()).
func (x *Extractor) pureForInline(f *ssa.Function) bool {
	if x.Eff == nil {
		return true
	}
	sum := x.Eff.Summary(f)
	if sum == nil {
		return true
	}
	for k := range sum.Writes {
		if !x.BenignWriteTags[k.Tag] {
			return false
		}
	}
	return true
}

// fieldAfterCall: the value of field c.field of the struct c.base points to
// after a static call that receives the pointer and writes through it: the
// callee's own value of that field at its return(s), computed with the
// pointer bound to a reference to the struct's value just before the call
// (a mutating helper extracted from its caller is followed like inline code).
func (fc *FC) fieldAfterCall(call *ssa.Call, c cellKey, cellType types.Type) *RF {
	x := fc.X
	cm := call.Common()
	f := cm.StaticCallee()
	if f == nil || f.Blocks == nil || len(cm.Args) != len(f.Params) || x.depth[f] > 0 || len(f.Blocks) > 3*x.MaxInlineBlocks {
		return nil
	}
	if !x.W.IsLibFunc(f) {
		return nil
	}
	st, ok := cellType.Underlying().(*types.Struct)
	if !ok {
		return nil
	}
	which := -1
	for i, a := range cm.Args {
		if a == c.base {
			if which >= 0 {
				return nil // passed twice: aliasing inside the callee
			}
			which = i
		}
	}
	if which < 0 {
		return nil
	}
	x.depth[f]++
	defer func() { x.depth[f]-- }()
	bind := map[*ssa.Parameter]*RF{}
	args := make([]*RF, len(f.Params))
	for i, p := range f.Params {
		if i == which {
			fs := make([]*RF, st.NumFields())
			for k := range fs {
				fs[k] = fc.cellValue(cellKey{c.base, k}, cellType, call)
			}
			args[i] = x.S.MakeFn("ref", x.mkStruct(cellType, fs))
		} else {
			args[i] = fc.Val(cm.Args[i])
		}
		bind[p] = args[i]
	}
	sub := x.newFC(f, bind, nil)
	sub.bindArgs = args
	key := cellKey{f.Params[which], c.field}
	v := sub.gatedReturns(f.Blocks[0], 0, func(rt *ssa.Return) *RF {
		return sub.cellValue(key, cellType, rt)
	})
	if v == nil || x.S.isBottom(v) {
		return nil
	}
	return v
}

// evalBySign decides a comparison with difference d = l - r by the sign
// analysis of engine D over the assumed conditions (sums of facts,
// non-negativity of len/cap and of documented domain quantities): e.g.
// bin<0 makes len(bins)<=bin false.
func (x *Extractor) evalBySign(name string, d *RF, assume []Assumption) Tri {
	if len(assume) == 0 || x.inSign {
		return Unknown
	}
	x.inSign = true
	defer func() { x.inSign = false }()
	g := &Signer{X: x, assumed: map[AtomID]bool{}, Used: map[string]bool{}}
	for _, a := range assume {
		if a.Cond == nil {
			continue
		}
		c := a.Cond
		if !a.True {
			c = x.S.Not(c)
		}
		g.addFact(c)
	}
	if len(g.facts) == 0 || len(g.facts) > 12 {
		return Unknown
	}
	// a small budget: this is a fallback tried for every comparison met
	x.signActive = true
	x.signSteps, x.signLimit = 0, 250
	defer func() { x.signActive = false }()
	pos, neg := g.Pos(d), g.Pos(d.Neg()) // l>r, l<r
	if signTrace1() && (pos || neg) {
		fmt.Fprintf(os.Stderr, "SIGN %s d=%s pos=%v neg=%v used=%v\n  facts:", name, clip(d.String(), 300), pos, neg, g.Used)
		for _, f := range g.facts {
			fmt.Fprintf(os.Stderr, " [%v]", f)
		}
		fmt.Fprintln(os.Stderr)
	}
	switch name {
	case "cmp<":
		if neg {
			return True
		}
		if pos || g.NonNeg(d) {
			return False
		}
	case "cmp<=":
		if neg || g.NonNeg(d.Neg()) {
			return True
		}
		if pos {
			return False
		}
	case "cmp==":
		if pos || neg {
			return False
		}
		if g.NonNeg(d) && g.NonNeg(d.Neg()) {
			return True
		}
	case "cmp!=":
		if pos || neg {
			return True
		}
		if g.NonNeg(d) && g.NonNeg(d.Neg()) {
			return False
		}
	}
	return Unknown
}

// expandAssumptions adds the consequences of compound assumptions: a false
// disjunction makes every disjunct false, a true conjunction every conjunct
// true, a negation flips.
func expandAssumptions(assume []Assumption) []Assumption {
	need := false
	for _, a := range assume {
		if a.Cond != nil {
			if at := a.Cond.SingleAtom(); at != nil && (at.Name == "lor" && !a.True || at.Name == "land" && a.True || at.Name == "not") {
				need = true
			}
		}
	}
	if !need {
		return assume
	}
	out := append([]Assumption{}, assume...)
	for i := 0; i < len(out) && i < 256; i++ {
		a := out[i]
		if a.Cond == nil {
			continue
		}
		at := a.Cond.SingleAtom()
		if at == nil {
			continue
		}
		switch {
		case at.Name == "lor" && !a.True, at.Name == "land" && a.True:
			for _, arg := range at.Args {
				out = append(out, Assumption{Cond: arg, True: a.True})
			}
		case at.Name == "not":
			out = append(out, Assumption{Cond: at.Args[0], True: !a.True})
		}
	}
	return out
}

// evalBySignCached memoises evalBySign per (comparison atom, assumption set).
func (x *Extractor) evalBySignCached(at *Atom, d *RF, assume []Assumption) Tri {
	if len(assume) == 0 || x.inSign || x.signActive {
		return Unknown
	}
	var sb strings.Builder
	fmt.Fprintf(&sb, "%d|", at.ID)
	for _, a := range assume {
		if a.Cond == nil {
			continue
		}
		if ca := a.Cond.SingleAtom(); ca != nil {
			fmt.Fprintf(&sb, "%d:%v,", ca.ID, a.True)
		} else {
			sb.WriteString(a.Cond.String())
		}
	}
	key := sb.String()
	if t, ok := x.signCache[key]; ok {
		return t
	}
	t := x.evalBySign(at.Name, d, assume)
	x.signCache[key] = t
	return t
}

// TailCallees: bound contexts of the module functions whose result this
// function returns directly (`return helper(args)`), under its assumptions.
func (fc *FC) TailCallees() []*FC {
	var out []*FC
	for _, rt := range fc.Ctx.Returns() {
		for _, res := range rt.Results {
			v := res
			if ex, ok := v.(*ssa.Extract); ok {
				v = ex.Tuple
			}
			c, ok := v.(*ssa.Call)
			if !ok {
				continue
			}
			f := c.Common().StaticCallee()
			if f == nil || f.Blocks == nil || !fc.X.W.IsLibFunc(f) || len(c.Common().Args) != len(f.Params) {
				continue
			}
			dup := false
			for _, o := range out {
				if o.Fn == f {
					dup = true
				}
			}
			if dup {
				continue
			}
			bind := map[*ssa.Parameter]*RF{}
			args := make([]*RF, len(f.Params))
			for i, p := range f.Params {
				args[i] = fc.Val(c.Common().Args[i])
				if al, isAl := c.Common().Args[i].(*ssa.Alloc); isAl {
					if _, isStruct := al.Type().Underlying().(*types.Pointer).Elem().Underlying().(*types.Struct); isStruct {
						args[i] = fc.X.S.MakeFn("ref", fc.structAt(al, c))
					}
				}
				if len(fc.Assume) > 0 {
					args[i] = fc.Sub(args[i])
				}
				bind[p] = args[i]
			}
			sub := fc.X.newFC(f, bind, fc.Assume)
			sub.bindArgs = args
			out = append(out, sub)
		}
	}
	return out
}

// copiedFrom: ms is `make([]T, len(src))` immediately filled by
// `copy(ms, src)` before any other use: the source slice, else nil.
func (fc *FC) copiedFrom(ms *ssa.MakeSlice) *RF {
	refs := ms.Referrers()
	if refs == nil {
		return nil
	}
	var cp *ssa.Call
	for _, ref := range *refs {
		if c, ok := ref.(*ssa.Call); ok {
			if bi, isB := c.Common().Value.(*ssa.Builtin); isB && bi.Name() == "copy" && len(c.Common().Args) == 2 && c.Common().Args[0] == ms {
				if cp != nil {
					return nil
				}
				cp = c
			}
		}
	}
	if cp == nil {
		return nil
	}
	src := fc.Val(cp.Common().Args[1])
	if !fc.Val(ms.Len).Equal(fc.X.S.MakeFn("len", src)) {
		return nil
	}
	// every other use comes after the copy
	for _, ref := range *refs {
		if ref == ssa.Instruction(cp) {
			continue
		}
		if _, isDbg := ref.(*ssa.DebugRef); isDbg {
			continue
		}
		if ref.Block() == cp.Block() {
			after := false
			for _, in := range cp.Block().Instrs {
				if in == ssa.Instruction(cp) {
					after = true
				}
				if in == ref && !after {
					return nil
				}
			}
			continue
		}
		if ph, isPhi := ref.(*ssa.Phi); isPhi {
			// a merge uses the value on the edges that carry it
			for k, e := range ph.Edges {
				if e == ssa.Value(ms) && !fc.Ctx.Dominates(cp.Block(), ph.Block().Preds[k]) {
					return nil
				}
			}
			continue
		}
		if !fc.Ctx.Dominates(cp.Block(), ref.Block()) {
			return nil
		}
	}
	return src
}

// unitPropagate: a true disjunction all but one of whose disjuncts the other
// assumptions refute makes the remaining disjunct true (dually for a false
// conjunction).
func (x *Extractor) unitPropagate(assume []Assumption) []Assumption {
	if x.inUnit || os.Getenv("GMSA_NOUNIT") != "" {
		return assume
	}
	need := false
	for _, a := range assume {
		if a.Cond != nil {
			if at := a.Cond.SingleAtom(); at != nil && (at.Name == "lor" && a.True || at.Name == "land" && !a.True) {
				need = true
			}
		}
	}
	if !need {
		return assume
	}
	x.inUnit = true
	defer func() { x.inUnit = false }()
	out := assume
	for i, a := range assume {
		if a.Cond == nil {
			continue
		}
		at := a.Cond.SingleAtom()
		if at == nil || !(at.Name == "lor" && a.True || at.Name == "land" && !a.True) {
			continue
		}
		others := append(append([]Assumption{}, assume[:i]...), assume[i+1:]...)
		var open []*RF
		decided := false
		for _, d := range at.Args {
			t := x.EvalCond(d, others)
			if at.Name == "lor" && t == True || at.Name == "land" && t == False {
				decided = true // already satisfied: nothing to learn
			}
			if t == Unknown {
				open = append(open, d)
			}
		}
		if !decided && len(open) == 1 {
			out = append(append([]Assumption{}, out...), Assumption{Cond: open[0], True: at.Name == "lor"})
		}
	}
	if len(out) != len(assume) {
		return expandAssumptions(out)
	}
	return assume
}
