package main

// Engine C — control-shape rules that are not tied to one property.

import (
	"fmt"
	"go/constant"
	"go/types"
	"sort"
	"strings"

	"golang.org/x/tools/go/ssa"
)

// constsOfType: declared package-level constants of the named type.
func (b *B) constsOfType(pkg *ssa.Package, typeName string) map[string]*RF {
	out := map[string]*RF{}
	for name, m := range pkg.Members {
		nc, ok := m.(*ssa.NamedConst)
		if !ok {
			continue
		}
		if n, ok := nc.Type().(*types.Named); !ok || n.Obj().Name() != typeName {
			continue
		}
		if nc.Value.Value.Kind() == constant.Int {
			r, _ := newRatFromString(nc.Value.Value.ExactString())
			out[name] = b.X.S.Const(r)
		}
	}
	return out
}

// SwitchExhaustive: every declared constant of the named type of parameter
// idx is compared (==) with that parameter somewhere in fn, or the function
// has a panicking default.
func (b *B) SwitchExhaustive(rule string, fn *ssa.Function, idx int, _ []string) {
	name := b.A.W.FuncName(fn)
	construct := fmt.Sprintf("%s/switch(arg%d)", name, idx)
	b.guard(rule, construct, func() {
		fc := b.X.FCFor(fn)
		b.switchExhaustiveOn(rule, construct, fc, fc.Val(fn.Params[idx]), fn.Params[idx].Type())
	})
}

func (b *B) switchExhaustiveOn(rule, construct string, fc *FC, v *RF, t types.Type) {
	n, ok := t.(*types.Named)
	if !ok {
		b.R.Undecided(rule, construct, "", "switch operand is not of a named type")
		return
	}
	pkg := b.A.W.Prog.Package(n.Obj().Pkg())
	consts := b.constsOfType(pkg, n.Obj().Name())
	if len(consts) == 0 {
		b.R.Undecided(rule, construct, "", "no declared constants of type "+n.Obj().Name())
		return
	}
	seen := map[string]bool{}
	hasPanicDefault := false
	fc.Ctx.Instrs(func(in ssa.Instruction) {
		ifi, ok := in.(*ssa.If)
		if !ok {
			return
		}
		c := fc.Val(ifi.Cond)
		for cn, cv := range consts {
			if c.Equal(b.X.S.Cmp("==", v, cv)) {
				seen[cn] = true
				// the false edge of the last case leading to a panic = default panics
				if _, isPanic := ifi.Block().Succs[1].Instrs[len(ifi.Block().Succs[1].Instrs)-1].(*ssa.Panic); isPanic {
					hasPanicDefault = true
				}
			}
		}
	})
	var missing []string
	for cn := range consts {
		if !seen[cn] {
			missing = append(missing, cn)
		}
	}
	sort.Strings(missing)
	if len(missing) == 0 || hasPanicDefault {
		b.R.OK(rule, construct, b.pos(fc.Fn), fmt.Sprintf("all %d declared constants of %s handled (panicking default: %v)", len(consts), n.Obj().Name(), hasPanicDefault))
	} else {
		b.R.Fail(rule, construct, b.pos(fc.Fn), "declared constants without a case and no panicking default: "+strings.Join(missing, ","))
	}
}
