#!/usr/bin/env python3
# Regenerates MANIFEST.json from the table below (kept valid at all times).
import json
props={json.loads(l)["id"]:json.loads(l) for l in open('/verif/properties.jsonl')}
claimed={
 "C17":("other","structural necessary conditions: spacingAtLevel formulas with inward (ticks) / outward (Nice) rounding, CountTicks = len(TicksAtLevel) sibling agreement, Ticks decision lists and major/minor levels, Nice's new domain from spacingAtLevel(level,true) and no write on failure, FindLevel's prefix, clamp and search recurrences with exit values, D-floor with the guessLevel exemption; not minimality of the level or finiteness","formula/recurrence conformance + sibling agreement + field-at-exit + D-floor"),
 "C20":("proof","sound over-approximating effect analysis: every write any exported API call can perform is classified; all obligations must be discharged; anything not understood fails closed","interprocedural effect and points-to analysis on go/ssa (engine A)"),
 "C01":("other","structural necessary conditions: rank-pass recurrences (matched by role), U1/U2 formulas, labeledMerge value/label pairing, exact-branch tails per alternative with the lattice-offset rule, exhaustiveness; one recorded finding (two-sided exact formula); not the exactness of UDist itself","recurrence-system and formula conformance on go/ssa (engine B)"),
 "C02":("other","structural necessary conditions: support decision lists, tied/untied PMF and CDF formulas, mirror flip, the Mann-Whitney recurrence in UDist.p, makeUmemo coefficient recurrence, sibling agreement of its two passes, K=2 base case with floor division, step term; D-floor; not the combinatorial exactness of the counts","formula/recurrence conformance and sibling agreement on go/ssa (engine B) + D-floor"),
 "C03":("other","structural necessary conditions: no-mutation of arguments (engine A), error-guard reach conditions, method-selection condition over the two limit variables, normal-approximation formulas with tie and continuity correction, result plumbing; not 0<=P<=1 or invariance laws","effect analysis + reach-condition rules + formula conformance"),
 "C04":("other","structural necessary conditions: the statistic/DoF/tail formulas and error-guard reach conditions extracted from go/ssa are algebraically identical to the textbook formulas on every path; not numerical accuracy","formula conformance by algebraic value numbering on go/ssa + reach-condition rules"),
 "C09":("other","structural necessary conditions: freshness of Copy and vec results, no-mutation of arguments, pair-preserving Swap, Welford/incremental recurrences of Mean, GeoMean, Variance, weighted forms, decision lists for empty/degenerate input, vec element formulas; not rounding-error closeness","effect analysis (A) + C-swap + recurrence/formula conformance (B)"),
 "C10":("other","structural necessary conditions: R8 formula, clamping decision list, weighted scan recurrence, IQR, no-mutation; not monotonicity/order independence","formula conformance (engine B) + effect analysis (A) + integer discipline (D)"),
 "C11":("other","structural necessary conditions: result plumbing and clamps, method selection, the greedy accumulation as a system of recurrences (left bias, neighbour re-reads, loop condition, Ambiguous), the normal-approximation band/trim/fix-up formulas, SampleCI's order-to-value mapping and guards; not the probabilistic guarantees (Confidence >= c, minimality, nesting)","recurrence-system and formula conformance with case-split equivalence of gating functions"),
 "C12":("other","structural necessary conditions: Bandwidth-only write, lazy default, exhaustive kernel switch, boundary decision lists, weighted kernel average with pdfEach/cdfEach sibling agreement, PDF = d/dx CDF image by image in all four boundary branches, Epanechnikov formulas and polynomial derivative, bandwidth rules, Bounds' bisection targets/margins/clipping; not mass-1/monotonicity/convergence","image-set differentiation on normal forms + formula conformance + effect analysis"),
 "C13":("other","structural necessary conditions: value of every receiver field at exit of Add/Combine equals the online/pairwise-merge formula in three regimes; derived statistics; Combine never writes its argument","field-at-exit formula conformance via reaching stores and gating functions"),
 "C05":("other","structural necessary conditions: NormalDist PDF/CDF/moments/Bounds/Rand formulas, InvCDF decision list + Acklam polynomials + Halley step, pdfEach/cdfEach sibling agreement incl. the fast path, DeltaDist, dispatch signatures; not accuracy/monotonicity","formula conformance and sibling agreement (engine B), signature rule"),
 "C06":("other","structural necessary conditions: support decision lists, PMF/CDF/moment formulas, tail-flip identity, term-ratio recurrence, floor semantics of k; not 1e-10 accuracy","formula conformance (engine B) + D-floor"),
 "C07":("other","structural necessary conditions: dispatch to the distribution's own method on the ok edge of the type assertion, decision list of the generic quantile closure, predicate/bracket/result-1 plumbing of the bisection, bisectBool recurrences and termination tests, Rand's re-draw loop and source; not bracket-expansion completeness or accuracy","control-shape (C-dispatch, reach conditions) + recurrence conformance"),
 "C08":("other","structural necessary conditions: the formulas and recurrences of BetaInc/betacf, GammaInc/GammaIncComp (sibling agreement, sum to 1 symbolically), Choose/Lchoose, Sign equal the cited ones; bounded loops; not accuracy/convergence","formula and recurrence conformance (engine B), sibling agreement"),
 "C15":("other","structural necessary conditions: no-mutation, pair-preserving Swap, monomial basis degree = storage index for every basis function, evaluator recurrences, Coefficients plumbing, normal-equation call sequence with data flow, LOESS window/search/tricube/local-fit formulas, sorting on copies; not the minimisation property inside gonum","basis-degree rule + call-sequence data flow + formula/recurrence conformance + effect analysis"),
 "C16":("other","structural necessary conditions: Map/Unmap formulas for Linear, Log (both signs), QQ; derived symbolically Map(Min)=0, Map(Max)=1, Unmap∘Map=id, Map∘Unmap=id; NewLog decision list and error type; not floating-point monotonicity","formula conformance + symbolic composition/substitution on normal forms"),
 "C14":("other","structural necessary conditions: exactly-one-increment, guard/counter agreement by reach conditions, floor semantics of the bin index, BinToValue∘bin = id symbolically, quantile interpolation formulas","control-shape rules + D-floor + formula conformance"),
}
na={"C19":"dominance is a fixed point over all paths of an input graph: no clause of the statement has its truth in the shape of the code (DESIGN.md §6); needs execution against a reference, a different technique family"}
checks=[]
for pid in sorted(claimed):
    lvl,text,tech=claimed[pid]
    checks.append({"property_id":pid,"quick_cmd":"bin/gmsa check %s --tier quick"%pid,"thorough_cmd":"bin/gmsa check %s --tier thorough"%pid,
      "evidence_file":"evidence/%s.json"%pid,"engine":"gmsa","replay_cmd_template":"bin/gmsa check %s --tier quick  # replay file {path} names the rule and construct"%pid,
      "level_claimed":{"category":lvl,"text":text,"design_ref":"DESIGN.md §5 "+pid},
      "level_note":"decides clauses listed in the evidence file's explanation; undecided clauses are listed under clauses_not_decided; assumptions A1-A6 of DESIGN.md §8; trusted: x/tools v0.29.0 and the analyser (positive controls every run)",
      "technique":tech})
nal=[]
for pid in sorted(props):
    if pid in claimed: continue
    nal.append({"property_id":pid,"reason":na.get(pid,"check not built yet in this round; no claim made (see DESIGN.md §5 for the planned clauses)")})
m={"version":1,"setup_cmd":"./setup.sh",
 "hooks":{"guard":"verif","enable":"none needed: the analysis reads /repo's source tree as it is (no instrumentation, no hooks)","baseline_off_cmd":"cd /repo && go test -vet=off -count=1 ./...","source_commits":[],"add_only":True},
 "engines":[{"name":"gmsa","path":"sa/","serves_properties":sorted(claimed),"kind_free_text":"static analysis over go/packages + go/ssa: effects/ownership (A), formula conformance by algebraic value numbering (B), control-shape rules (C), integer discipline (D)"}],
 "checks":checks,"not_applicable":nal,
 "notes":"static analysis only (DESIGN.md). Genuine defects found and repaired are listed in known_findings.json (fixed entries suppress nothing)."}
json.dump(m,open('/verif/MANIFEST.json','w'),indent=1)
print(len(checks),"checks",len(nal),"not_applicable")
