#!/bin/bash
# usage: catmut.sh <prop> <catalog id>... : apply one catalogue entry to a scratch copy, build it, run the quick check with bin/gmsa.new
p=$1; shift
for id in "$@"; do
d=$(mktemp -d /tmp/cm.XXXXXX); v=$(mktemp -d /tmp/cmv.XXXXXX)
rsync -a --exclude .git /repo/ $d/
python3 - $d $p $id <<'PY'
import json,sys
d,p,i=sys.argv[1:]
for prop in [p]+['C%02d'%k for k in range(1,21)]:
    try: c=json.load(open('/verif/catalog/%s.json'%prop))
    except Exception: continue
    e=[x for x in c if x['id']==i]
    if e: break
e=e[0]; f=d+'/'+e['file']; s=open(f).read()
assert s.count(e['old'])==1, 'old text occurs %d times'%s.count(e['old'])
open(f,'w').write(s.replace(e['old'],e['new'],1))
PY
( cd $d && export GOFLAGS=-mod=mod GOPROXY=off GOSUMDB=off GOTOOLCHAIN=local && go build ./... 2>&1 | head -3 )
cp /verif/known_findings.json $v/
timeout 300 ${GMSA_BIN:-/verif/bin/gmsa.new} check $p --repo $d --verif $v --no-controls > $v/out.txt 2>&1
echo "== $id: $(grep -E 'FAILED|UNDECIDED' $v/out.txt | head -${N:-2} | cut -c1-${W:-260})"
grep "^gmsa:" $v/out.txt
rm -rf $d $v
done
