package main

import (
	"go/types"
	"strings"

	"golang.org/x/tools/go/ssa"
)

func init() {
	propFuncs["C09"] = propC09
	propInfos["C09"] = &PropInfo{
		Level:   "other",
		Explain: "Structural necessary conditions decided statically (DESIGN.md §5 C09): Sample.Copy — Xs and Weights element-for-element copies of the same length (copy, append to an empty slice, or a full element loop), Weights nil exactly when the receiver's is, Sorted kept; vec.Concat — len(result) = Σ len(xss[i]) and argument i copied behind the arguments before it (front to back with a running position, appended in order, or filled from the back), for every i; vec.Vectorize(f)(xs) = Map(f, xs); engine A — Sample.Copy and the vec helpers return memory sharing nothing with their inputs, no query writes its argument, Sort writes exactly the documented paths; C-swap — sampleSorter.Swap exchanges (i,j) in both xs and weights, Sort hands both slices of the same receiver to the sorter and sets Sorted; engine B — the incremental recurrences of Mean, weighted Mean, GeoMean (log/exp), Variance (Welford) with the n-1 denominator, StdDev, weighted Sum, Weight, vec.Sum, the element formulas of Linspace, Logspace, Map; decision lists for empty input (NaN), len<=1 (variance 0), non-positive value in GeoMean (NaN); Bounds' fast path for sorted unweighted samples and its scans over sorted weighted data (value at the first/last non-zero weight: start, step, advanced only past zero weights, left only at a hit or exhausted); Sort leaves the data unsorted only when s.Sorted or the values are found ascending (sort.Float64sAreSorted or a module helper decided to be that all-adjacent-pairs scan). Added after the mutation sweep (DESIGN §13): delegation decisions of Sample.Bounds/MeanCI/Variance/StdDev, the unsorted-weighted Bounds recurrences, every-element coverage of Linspace/Logspace/Map.",
		Assume:  []string{"A4 reals", "A2"},
		Undec:   []string{"closeness to the exact value under rounding", "order independence beyond rounding", "that sort.Sort/sort.Float64s sort (trusted library)"},
	}
}

func propC09(a *Analysis, r *Registry) {
	b := NewB(a, r)
	X := b.X
	S := X.S
	const rB = "B-C09 formula"
	for _, fr := range freshClaims[:6] {
		a.CheckFresh(r, "A-3 fresh-result", fr.fn, fr.idx)
	}
	propC09copy(a, r, b)
	sweepC09(a, r, b)
	for _, n := range []string{"stats.Mean", "stats.Variance", "stats.StdDev", "stats.GeoMean", "stats.Bounds", "stats.MeanCI",
		"stats.(Sample).Bounds", "stats.(Sample).Sum", "stats.(Sample).Weight", "stats.(Sample).Mean", "stats.(Sample).GeoMean",
		"stats.(Sample).Variance", "stats.(Sample).StdDev", "stats.(Sample).Copy", "stats.(*Sample).Sort",
		"vec.Sum", "vec.Map", "vec.Concat", "vec.Logspace", "vec.Vectorize$1"} {
		if fn := b.Fn("A-1 no-mutation", n); fn != nil {
			a.CheckNoMutation(r, "A-1 no-mutation", fn, nil)
		}
	}
	b.CheckSwap("C-swap", "stats.(*sampleSorter).Swap")
	// the order handed to sort.Sort: ascending by value, over all the values
	b.Formula(rB, "stats.(*sampleSorter).Less", "stats.(*sampleSorter).Less", []string{"p", "i", "j"}, nil, 0, "p.xs[i]<p.xs[j]", nil)
	b.Formula(rB, "stats.(*sampleSorter).Len", "stats.(*sampleSorter).Len", []string{"p"}, nil, 0, "len(p.xs)", nil)
	if fn := b.Fn(rB, "stats.(*Sample).Sort"); fn != nil {
		b.guard(rB, "stats.(*Sample).Sort", func() {
			fc := X.FCFor(fn)
			env := X.EnvFor(fn, "s")
			b.Eq("C-swap", "stats.(*Sample).Sort/sorter.xs", b.pos(fn), fc.LitFieldAny("sampleSorter", "xs"), env, "s.Xs")
			b.Eq("C-swap", "stats.(*Sample).Sort/sorter.weights", b.pos(fn), fc.LitFieldAny("sampleSorter", "weights"), env, "s.Weights")
			b.EqRF(rB, "stats.(*Sample).Sort/Sorted", b.pos(fn), fc.FieldAtExit(0, "Sorted"), S.True(), "Sorted is set on every path")
			b.EqRF(rB, "stats.(*Sample).Sort/returns-receiver", b.pos(fn), fc.RetVal(0), env.Vars["s"].RF, "returns s")
			// the elements are reordered only by sort.Float64s (unweighted) or by sort.Sort on the
			// paired sorter: any other element write (a hand-written reversal, a fast path) can move
			// the values without their weights
			{
				bad := ""
				for _, sfc := range fc.BoundCallees(2) {
					sfc := sfc
					sfc.Ctx.Instrs(func(in ssa.Instruction) {
						st, ok := in.(*ssa.Store)
						if !ok {
							return
						}
						if ia, isIA := st.Addr.(*ssa.IndexAddr); isIA {
							base := sfc.Val(ia.X)
							if base.Equal(env.MustParse("s.Xs")) || base.Equal(env.MustParse("s.Weights")) {
								bad = a.W.InstrPos(st)
							}
						}
					})
				}
				nSort := 0
				for _, sfc := range fc.BoundCallees(2) {
					nSort += len(sfc.CallsTo("sort.Sort")) + len(sfc.CallsTo("sort.Float64s"))
				}
				if bad != "" {
					r.Fail("C-swap", "stats.(*Sample).Sort/element-writes", bad, "Sort writes elements of Xs/Weights itself, outside sort.Float64s / sort.Sort(sampleSorter): values can be reordered without their weights")
				} else if nSort == 0 {
					r.Undecided("C-swap", "stats.(*Sample).Sort/element-writes", b.pos(fn), "no call to sort.Sort / sort.Float64s found in Sort (vacuity)")
				} else {
					r.OK("C-swap", "stats.(*Sample).Sort/element-writes", b.pos(fn), "elements are reordered only through sort.Float64s / sort.Sort")
				}
			}
			for _, sfc := range fc.BoundCallees(1) {
				for _, c := range sfc.CallsTo("sort.Float64s") {
					if sfc.HoldsAt(c.Block(), env.MustParse("s.Weights==nil")) {
						r.OK("C-swap", "stats.(*Sample).Sort/Float64s-only-unweighted", a.W.InstrPos(c), "sort.Float64s(s.Xs) is reached only when there are no weights")
					} else {
						r.Fail("C-swap", "stats.(*Sample).Sort/Float64s-only-unweighted", a.W.InstrPos(c), "sort.Float64s is applied to the values although weights may be present (they would stay behind)")
					}
				}
			}
		})
	}
	// Sort leaves the data as it is only when it is already in order: the paths on which
	// neither sort.Float64s nor sort.Sort is reached are those with s.Sorted set or the values
	// found ascending — by sort.Float64sAreSorted or by a helper of the module that is itself
	// decided to be that test (every adjacent pair compared, false exactly at a descent)
	if fn := b.Fn("C-decision", "stats.(*Sample).Sort"); fn != nil {
		name := "stats.(*Sample).Sort"
		b.guard("C-decision", name+"/skips-only-sorted", func() {
			fc := X.FCFor(fn)
			env := X.EnvFor(fn, "s")
			reach := S.False()
			n := 0
			for _, cn := range []string{"sort.Float64s", "sort.Sort"} {
				for _, c := range fc.CallsTo(cn) {
					reach = S.Or(reach, fc.ReachCond(c.Block()))
					n++
				}
			}
			// (the sorting may be delegated to a helper: reached when the helper is called and the
			// helper reaches its sort call)
			for _, hfc := range fc.BoundCallees(1)[1:] {
				var sites []*ssa.Call
				fc.Ctx.Instrs(func(in ssa.Instruction) {
					if c, ok := in.(*ssa.Call); ok && c.Call.StaticCallee() == hfc.Fn {
						sites = append(sites, c)
					}
				})
				if len(sites) != 1 {
					continue
				}
				for _, cn := range []string{"sort.Float64s", "sort.Sort"} {
					for _, c := range hfc.CallsTo(cn) {
						reach = S.Or(reach, S.And(fc.ReachCond(sites[0].Block()), hfc.Sub(hfc.ReachCond(c.Block()))))
						n++
					}
				}
			}
			if n == 0 {
				r.Undecided("C-decision", name+"/skips-only-sorted", b.pos(fn), "no call to sort.Sort / sort.Float64s in Sort itself")
				return
			}
			skip := S.Not(reach)
			lib := S.MakeFn("sort.Float64sAreSorted", env.MustParse("s.Xs"))
			sub := map[AtomID]*RF{}
			// sort.IsSorted(sort.Float64Slice(s.Xs)) is the same test
			for _, sfc := range fc.BoundCallees(1) {
				for _, c := range sfc.CallsTo("sort.IsSorted") {
					mi, ok := c.Call.Args[0].(*ssa.MakeInterface)
					if !ok {
						continue
					}
					if nt, ok := mi.X.Type().(*types.Named); !ok || nt.Obj().Pkg() == nil || nt.Obj().Pkg().Path() != "sort" || nt.Obj().Name() != "Float64Slice" {
						continue
					}
					if v := sfc.Val(c); sfc.Val(mi.X).Equal(env.MustParse("s.Xs")) && v.SingleAtom() != nil {
						sub[v.SingleAtom().ID] = lib
					}
				}
			}
			for _, at := range skip.Atoms(true) {
				if at.Kind != "fn" || len(at.Args) != 1 || !at.Args[0].Equal(env.MustParse("s.Xs")) {
					continue
				}
				h := a.W.Fn(at.Name)
				if h == nil || len(h.Params) != 1 {
					continue
				}
				hfc := X.FCFor(h)
				loops := hfc.Ctx.Loops()
				if len(loops) != 1 {
					r.Fail("C-decision", name+"/skips-only-sorted/"+at.Name, b.pos(h), "the order test is not a single scan")
					continue
				}
				xs := X.ParamRF(h, 0)
				ln := S.MakeFn("len", xs)
				el := func(i *RF) *RF { return S.MakeFn("idx", xs, i) }
				variant := func(sp FirstHit) func() {
					return func() {
						sp.Base, sp.Miss = xs, S.True()
						sp.Val = func(*RF) *RF { return S.False() }
						b.FirstHitScan("C-decision", name+"/skips-only-sorted/"+at.Name, b.pos(h), hfc, loops[0].Header, sp)
					}
				}
				down := func(e *RF) *RF { return S.Cmp("<", el(e), el(e.Sub(S.Int(1)))) }
				up := func(e *RF) *RF { return S.Cmp("<", el(e.Add(S.Int(1))), el(e)) }
				mark := len(r.Obs)
				b.AnyOf(
					variant(FirstHit{First: S.Int(1), N: ln, Pair: -1, Hit: down}),
					variant(FirstHit{First: S.Int(0), N: ln.Sub(S.Int(1)), Pair: 1, Hit: up}),
					variant(FirstHit{First: ln.Sub(S.Int(1)), Down: true, Low: S.Int(1), Pair: -1, Hit: down}),
					variant(FirstHit{First: ln.Sub(S.Int(2)), Down: true, Low: S.Int(0), Pair: 1, Hit: up}),
				)
				good := len(r.Obs) > mark
				for _, o := range r.Obs[mark:] {
					if o.st != Discharged {
						good = false
					}
				}
				if good {
					sub[at.ID] = lib
				}
			}
			if len(sub) > 0 {
				skip = skip.Subst(sub)
			}
			want := S.Or(env.MustParse("s.Sorted"), lib)
			if skip.Equal(want) || S.BoolEquiv(skip, want) || X.EquivByCases(skip, want, 0) {
				r.OK("C-decision", name+"/skips-only-sorted", b.pos(fn), "no sorting exactly when s.Sorted || the values are found ascending")
			} else {
				r.Fail("C-decision", name+"/skips-only-sorted", b.pos(fn), "Sort leaves the data unsorted when "+clip(skip.String(), 300)+", not exactly when s.Sorted || sort.Float64sAreSorted(s.Xs)")
			}
		})
	}
	// accumulations: rv = returned loop-carried value (possibly wrapped)
	type acc struct {
		fn, construct string
		names         []string
		assume        func(env *SpecEnv) []Assumption
		bases         [][2]string // name -> slice spec: binds name to element, name+"i" to its index
		result        string      // spec of result in terms of loop vars
		recs          []recSpec
	}
	nonEmptyUnw := func(env *SpecEnv) []Assumption {
		return []Assumption{X.AssumeCond(env.MustParse("len($0)==0"), false)}
	}
	weighted := func(env *SpecEnv) []Assumption {
		return []Assumption{X.AssumeCond(env.MustParse("len(s.Xs)==0"), false), X.AssumeCond(env.MustParse("s.Weights==nil"), false)}
	}
	accs := []acc{
		{"stats.Mean", "stats.Mean", []string{"xs"}, nonEmptyUnw, [][2]string{{"x", "xs"}}, "m",
			[]recSpec{{"m", "0", "m+(x-m)/(xi+1)"}}},
		{"stats.GeoMean", "stats.GeoMean", []string{"xs"}, nonEmptyUnw, [][2]string{{"x", "xs"}}, "exp(m)",
			[]recSpec{{"m", "0", "m+(log(x)-m)/(xi+1)"}}},
		{"stats.Variance", "stats.Variance", []string{"xs"}, func(env *SpecEnv) []Assumption {
			return []Assumption{X.AssumeCond(env.MustParse("len(xs)==0"), false), X.AssumeCond(env.MustParse("len(xs)<=1"), false)}
		}, [][2]string{{"x", "xs"}}, "M2/(len(xs)-1)",
			[]recSpec{{"mean", "0", "mean+(x-mean)/(xi+1)"}, {"M2", "0", "M2+(x-mean)*(x-(mean+(x-mean)/(xi+1)))"}}},
		{"stats.(Sample).Mean", "stats.(Sample).Mean/weighted", []string{"s"}, weighted, [][2]string{{"x", "s.Xs"}, {"w", "s.Weights"}}, "m",
			[]recSpec{{"m", "0", "m+(x-m)*w/(wsum+w)"}, {"wsum", "0", "wsum+w"}}},
		{"stats.(Sample).GeoMean", "stats.(Sample).GeoMean/weighted", []string{"s"}, weighted, [][2]string{{"x", "s.Xs"}, {"w", "s.Weights"}}, "exp(m)",
			[]recSpec{{"m", "0", "m+(log(x)-m)*w/(wsum+w)"}, {"wsum", "0", "wsum+w"}}},
		{"stats.(Sample).Sum", "stats.(Sample).Sum/weighted", []string{"s"}, func(env *SpecEnv) []Assumption {
			return []Assumption{X.AssumeCond(env.MustParse("s.Weights==nil"), false)}
		}, [][2]string{{"x", "s.Xs"}, {"w", "s.Weights"}}, "sum",
			[]recSpec{{"sum", "0", "sum+x*w"}}},
		{"vec.Sum", "vec.Sum", []string{"xs"}, nil, [][2]string{{"x", "xs"}}, "sum", []recSpec{{"sum", "0", "sum+x"}}},
	}
	for _, ac := range accs {
		ac := ac
		fn := b.Fn(rB, ac.fn)
		if fn == nil {
			continue
		}
		b.guard(rB, ac.construct, func() {
			env := X.EnvFor(fn, ac.names...)
			var fc *FC
			if ac.assume != nil {
				fc = X.Under(fn, ac.assume(env)...)
			} else {
				fc = X.FCFor(fn)
			}
			var ret *ssa.Return
			for _, rt := range fc.Ctx.Returns() {
				if hasAtomPrefix(fc.Val(rt.Results[0]), "phi:") {
					ret = rt
				}
			}
			if ret == nil {
				anchorFail("no return of an accumulated value")
			}
			rv := fc.Val(ret.Results[0])
			var idxs []*RF
			for _, bs := range ac.bases {
				x, i := fc.elemOf(rv, env.MustParse(bs[1]))
				env.Set(bs[0], x, nil)
				env.Set(bs[0]+"i", i, nil)
				idxs = append(idxs, i)
			}
			for _, i := range idxs[1:] {
				if !i.Equal(idxs[0]) {
					r.Fail(rB, ac.construct+"/same-index", a.W.InstrPos(ret), "value and weight are read at different indices")
				}
			}
			nRF := env.MustParse("len(" + ac.bases[0][1] + ")")
			scanned := b.FullScan("C-scan coverage", ac.construct+"/visits-all", a.W.InstrPos(ret), fc, idxs[0], nRF)
			vars := b.LoopSystem(rB, ac.construct+"/recurrence", a.W.InstrPos(ret), fc, rv, env, ac.recs)
			if vars != nil {
				for k, v := range vars {
					env.Set(k, v, nil)
				}
				// a counter read after the complete scan has the value it left the loop with
				res := rv
				if scanned {
					if ev := b.ExitValues(fc, rv, idxs[0], nRF); len(ev) > 0 {
						keep := map[AtomID]bool{}
						for _, v := range vars {
							if va := v.SingleAtom(); va != nil {
								keep[va.ID] = true
							}
						}
						for id := range ev {
							if keep[id] {
								delete(ev, id)
							}
						}
						res = rv.Subst(ev)
					}
				}
				b.Eq(rB, ac.construct+"/result", a.W.InstrPos(ret), res, env, ac.result)
			}
		})
	}
	// Bounds(xs): running minimum and maximum over every element
	if fn := b.Fn(rB, "stats.Bounds"); fn != nil {
		b.guard(rB, "stats.Bounds", func() {
			env := X.EnvFor(fn, "xs")
			fc := X.Under(fn, X.AssumeCond(env.MustParse("len(xs)==0"), false))
			r0, r1 := fc.RetVal(0), fc.RetVal(1)
			rv := S.MakeFn("tuple", r0, r1)
			x, i := fc.elemOf(rv, env.MustParse("xs"))
			env.Set("x", x, nil)
			b.FullScanSeeded("C-scan coverage", "stats.Bounds/visits-all", b.pos(fn), fc, i, env.MustParse("len(xs)")) // min/max start at xs[0]
			vars := b.LoopSystem(rB, "stats.Bounds/recurrence", b.pos(fn), fc, rv, env, []recSpec{
				{"mn", "xs[0]", "ite(x<mn, x, mn)"}, {"mx", "xs[0]", "ite(mx<x, x, mx)"}})
			if vars != nil {
				b.EqRF(rB, "stats.Bounds/min", b.pos(fn), r0, vars["mn"], "first result is the running minimum")
				b.EqRF(rB, "stats.Bounds/max", b.pos(fn), r1, vars["mx"], "second result is the running maximum")
			}
		})
	}
	// dispatch to the unweighted forms and decision lists
	b.Formula(rB, "stats.(Sample).Weight", "stats.(Sample).Weight", []string{"s"}, nil, 0, "ite(s.Weights==nil, len(s.Xs), vec.Sum(s.Weights))", nil)
	b.Formula(rB, "stats.StdDev", "stats.StdDev", []string{"xs"}, nil, 0, "sqrt(Variance(xs))", nil)
	for _, m := range [][2]string{{"Mean", "Mean(s.Xs)"}, {"GeoMean", "GeoMean(s.Xs)"}, {"Variance", "Variance(s.Xs)"}, {"StdDev", "StdDev(s.Xs)"}} {
		m := m
		b.Formula(rB, "stats.(Sample)."+m[0]+"/unweighted", "stats.(Sample)."+m[0], []string{"s"}, nil, 0, m[1], func(env *SpecEnv) []Assumption {
			return []Assumption{X.AssumeEq(env.MustParse("s.Weights"), env.MustParse("nil"))}
		})
	}
	b.Formula(rB, "stats.(Sample).Sum/unweighted", "stats.(Sample).Sum", []string{"s"}, nil, 0, "vec.Sum(s.Xs)", func(env *SpecEnv) []Assumption {
		return []Assumption{X.AssumeEq(env.MustParse("s.Weights"), env.MustParse("nil"))}
	})
	nanRet := func(fc *FC) func(rt *ssa.Return) bool {
		return func(rt *ssa.Return) bool {
			at := fc.Val(rt.Results[0]).SingleAtom()
			return at != nil && at.Name == "math.NaN" && fc.Ctx.LoopOf(rt.Block()) == nil
		}
	}
	for _, f := range []string{"stats.Mean", "stats.GeoMean", "stats.Variance", "stats.Bounds"} {
		f := f
		if fn := b.Fn("C-decision", f); fn != nil {
			b.guard("C-decision", f+"/empty→NaN", func() {
				fc := X.FCFor(fn)
				env := X.EnvFor(fn, "xs")
				var got *RF
				n := 0
				for _, rt := range fc.Ctx.Returns() {
					if nanRet(fc)(rt) {
						func() {
							defer func() { recover() }()
							rc := fc.ReachCond(rt.Block())
							if got == nil {
								got = rc
							} else {
								got = S.Or(got, rc)
							}
							n++
						}()
					}
				}
				if n == 0 {
					r.Fail("C-decision", f+"/empty→NaN", b.pos(fn), "no NaN return for empty input")
					return
				}
				b.Eq("C-decision", f+"/empty→NaN", b.pos(fn), got, env, "len(xs)==0")
			})
		}
	}
	if fn := b.Fn("C-decision", "stats.Variance"); fn != nil {
		b.guard("C-decision", "stats.Variance/len<=1→0", func() {
			fc := X.FCFor(fn)
			env := X.EnvFor(fn, "xs")
			got, n := fc.ReturnCond(func(rt *ssa.Return) bool {
				c, ok := rt.Results[0].(*ssa.Const)
				return ok && c.Value != nil && c.Value.ExactString() == "0"
			})
			if n != 1 {
				r.Fail("C-decision", "stats.Variance/len<=1→0", b.pos(fn), "no `return 0` for a single value")
				return
			}
			b.Eq("C-decision", "stats.Variance/len<=1→0", b.pos(fn), got, env, "len(xs)!=0 && len(xs)<=1")
		})
	}
	if fn := b.Fn("C-decision", "stats.GeoMean"); fn != nil {
		b.guard("C-decision", "stats.GeoMean/x<=0→NaN", func() {
			fc := X.FCFor(fn)
			ok := false
			for _, rt := range fc.Ctx.Returns() {
				at := fc.Val(rt.Results[0]).SingleAtom()
				if at == nil || at.Name != "math.NaN" {
					continue
				}
				for _, f := range fc.Ctx.Facts(rt.Block()) {
					c := fc.Val(f.Cond).SingleAtom()
					if f.Val && c != nil && c.Name == "cmp<=" {
						if x := c.Args[0].SingleAtom(); x != nil && x.Name == "idx" {
							if z, isC := c.Args[1].IsConst(); isC && z.Sign() == 0 {
								ok = true
							}
						}
					}
				}
			}
			if !ok {
				// the single-exit form: a flag flipped by x <= 0 for an element x ends the loop, and
				// with the flag flipped the function returns NaN
				for _, l := range fc.Ctx.Loops() {
					for _, lf := range fc.latchFlags(l.Header) {
						c := lf.flip.SingleAtom()
						if c == nil || c.Name != "cmp<=" {
							continue
						}
						x := c.Args[0].SingleAtom()
						z, isC := c.Args[1].IsConst()
						if x == nil || x.Name != "idx" || !isC || z.Sign() != 0 {
							continue
						}
						v := fc.gatedReturns(fn.Blocks[0], 0, nil)
						if v == nil {
							continue
						}
						flipped := S.True()
						if lf.init {
							flipped = S.False()
						}
						fv := X.SimplifyUnder(v.Subst(map[AtomID]*RF{lf.atom.SingleAtom().ID: flipped}), nil)
						if at := fv.SingleAtom(); at != nil && at.Name == "math.NaN" {
							ok = true
						}
					}
				}
			}
			if ok {
				r.OK("C-decision", "stats.GeoMean/x<=0→NaN", b.pos(fn), "a non-positive element returns NaN")
			} else {
				r.Fail("C-decision", "stats.GeoMean/x<=0→NaN", b.pos(fn), "no NaN return guarded by x <= 0 for an element x")
			}
		})
	}
	// Bounds fast path
	if fn := b.Fn(rB, "stats.(Sample).Bounds"); fn != nil {
		for i, sp := range []string{"s.Xs[0]", "s.Xs[len(s.Xs)-1]"} {
			i, sp := i, sp
			b.guard(rB, "stats.(Sample).Bounds/sorted-unweighted/"+itoa(i), func() {
				env := X.EnvFor(fn, "s")
				fc := X.Under(fn, X.AssumeEq(env.MustParse("s.Sorted"), S.True()), X.AssumeEq(env.MustParse("s.Weights"), env.MustParse("nil")),
					X.AssumeCond(env.MustParse("len(s.Xs)==0"), false))
				b.EqUnder(rB, "stats.(Sample).Bounds/sorted-unweighted/"+itoa(i), b.pos(fn), fc, fc.RetVal(i), env, sp)
			})
		}
	}
	// which samples go to the plain-slice functions: an empty or unweighted sample is handed to the
	// slice function of the same name; a weighted one is not (it would lose its weights)
	for _, m := range [][2]string{{"MeanCI", "stats.MeanCI"}, {"Variance", "stats.Variance"}, {"StdDev", "stats.StdDev"}} {
		m := m
		if fn := b.Fn("C-decision", "stats.(Sample)."+m[0]); fn != nil {
			b.guard("C-decision", "stats.(Sample)."+m[0]+"/delegates-when", func() {
				fc := X.FCFor(fn)
				env := X.EnvFor(fn, "s")
				calls := fc.CallsTo(m[1])
				if len(calls) == 0 && m[0] == "StdDev" {
					calls = fc.CallsTo("stats.Variance") // StdDev(xs) written out as sqrt(Variance(xs))
				}
				if len(calls) != 1 {
					r.Fail("C-decision", "stats.(Sample)."+m[0]+"/delegates-when", b.pos(fn), "expected one call of "+m[1])
					return
				}
				// (a length is never negative: len == 0, len <= 0 and !(0 < len) are one condition)
				rc := fc.ReachCond(calls[0].Block())
				for _, alt := range []string{"len(s.Xs)<=0 || s.Weights==nil", "!(0<len(s.Xs)) || s.Weights==nil"} {
					if w := env.MustParse(alt); rc.Equal(w) || S.BoolEquiv(rc, w) {
						rc = env.MustParse("len(s.Xs)==0 || s.Weights==nil")
					}
				}
				b.Eq("C-decision", "stats.(Sample)."+m[0]+"/delegates-when", a.W.InstrPos(calls[0]), rc, env, "len(s.Xs)==0 || s.Weights==nil")
				b.Eq("C-decision", "stats.(Sample)."+m[0]+"/delegates-what", a.W.InstrPos(calls[0]), fc.Val(calls[0].Call.Args[0]), env, "s.Xs")
			})
		}
	}
	if fn := b.Fn("C-decision", "stats.(Sample).Bounds"); fn != nil {
		b.guard("C-decision", "stats.(Sample).Bounds/delegates-when", func() {
			fc := X.FCFor(fn)
			env := X.EnvFor(fn, "s")
			calls := fc.CallsTo("stats.Bounds")
			if len(calls) == 0 {
				r.Fail("C-decision", "stats.(Sample).Bounds/delegates-when", b.pos(fn), "no call of stats.Bounds")
				return
			}
			when := S.False()
			for _, c := range calls {
				when = S.Or(when, fc.ReachCond(c.Block()))
				b.Eq("C-decision", "stats.(Sample).Bounds/delegates-what", a.W.InstrPos(c), fc.Val(c.Call.Args[0]), env, "s.Xs")
			}
			b.Eq("C-decision", "stats.(Sample).Bounds/delegates-when", a.W.InstrPos(calls[0]), when, env, "len(s.Xs)==0 || (!s.Sorted && s.Weights==nil)")
		})
		// unsorted and weighted: the extremes over the values of non-zero weight, NaN when there is none
		b.guard(rB, "stats.(Sample).Bounds/unsorted-weighted", func() {
			env := X.EnvFor(fn, "s")
			fc := X.Under(fn, X.AssumeEq(env.MustParse("s.Sorted"), S.False()), X.AssumeCond(env.MustParse("s.Weights==nil"), false),
				X.AssumeCond(env.MustParse("len(s.Xs)==0"), false))
			name := "stats.(Sample).Bounds/unsorted-weighted"
			rv0, rv1 := fc.Sub(fc.RetVal(0)), fc.Sub(fc.RetVal(1))
			if len(fc.Ctx.Loops()) > 0 && (len(fc.loopPhis(rv0)) == 0 || len(fc.loopPhis(rv1)) == 0) {
				r.Fail(rB, name, b.pos(fn), "the unsorted weighted scan does not carry both extremes round its loop (one of them is never updated): "+clip(rv0.String(), 80)+" / "+clip(rv1.String(), 80))
				return
			}
			if len(fc.Ctx.Loops()) == 0 {
				// the scan lives in a helper with its own loop: this rule is stated on the
				// one-function shape (the decision above still says when the slice function is used)
				return
			}
			x, xi := fc.elemOf(rv0, env.MustParse("s.Xs"))
			if x == nil || xi == nil {
				r.Undecided(rB, name, b.pos(fn), "anchor: the minimum is not built from the elements of s.Xs")
				return
			}
			env.Set("x", x, nil)
			env.Set("w", S.MakeFn("idx", env.MustParse("s.Weights"), xi), nil)
			vars := b.LoopSystem(rB, name+"/recurrences", b.pos(fn), fc, S.MakeFn("tuple", rv0, rv1), env, []recSpec{
				{"mn", "inf(1)", "ite(x<mn && w!=0, x, mn)"}, {"mx", "inf(-1)", "ite(mx<x && w!=0, x, mx)"},
			})
			if vars == nil {
				return
			}
			for k, v := range vars {
				env.Set(k, v, nil)
			}
			b.FullScan("C-scan coverage", name+"/visits-all", b.pos(fn), fc, xi, env.MustParse("len(s.Xs)"))
			b.Eq(rB, name+"/min", b.pos(fn), rv0, env, "ite(isinf(mn, 0), nan(), mn)")
			b.Eq(rB, name+"/max", b.pos(fn), rv1, env, "ite(isinf(mn, 0), nan(), mx)")
		})
	}
	// weighted Bounds on sorted data: both scans cover every index and pair weight and value at the same index
	if fn := b.Fn("C-scan coverage", "stats.(Sample).Bounds"); fn != nil {
		b.guard("C-scan coverage", "stats.(Sample).Bounds/sorted-weighted", func() {
			// On sorted weighted data the minimum is the value at the first non-zero weight and the
			// maximum the value at the last one. Decided on the values returned, wherever the scans
			// live and however they are written: each result is s.Xs[e] for an index e that (1) starts
			// at the proper end (0 / len-1), (2) moves by one per iteration, and (3) is advanced only
			// past zero weights at that same index (the loop continues only while s.Weights[e] == 0), and
			// (4) is left only at a non-zero weight or once every index has been examined.
			env := X.EnvFor(fn, "s")
			fc := X.Under(fn, X.AssumeEq(env.MustParse("s.Sorted"), S.True()), X.AssumeCond(env.MustParse("s.Weights==nil"), false),
				X.AssumeCond(env.MustParse("len(s.Xs)==0"), false))
			xs, ws := env.MustParse("s.Xs"), env.MustParse("s.Weights")
			var fwdE *RF
			for ri, dir := range []string{"forward", "backward"} {
				construct := "stats.(Sample).Bounds/sorted-weighted/" + dir
				ri := ri
				v := fc.gatedReturns(fn.Blocks[0], 0, func(rt *ssa.Return) *RF { return fc.Val(rt.Results[ri]) })
				if v == nil {
					r.Undecided("C-scan coverage", construct, b.pos(fn), "returned value not computable")
					continue
				}
				v = fc.Sub(v)
				// with no non-zero weight there is no extreme: NaN must be among the values the
				// result can take (the "not found" alternative of the scan)
				hasNaN := func(v *RF) bool {
					seenP := map[AtomID]bool{}
					var dig func(v *RF, d int) bool
					dig = func(v *RF, d int) bool {
						if len(FindFn(v, "math.NaN")) > 0 {
							return true
						}
						if d > 6 {
							return false
						}
						for _, at := range v.Atoms(true) {
							if ph, ok := X.phiOf[at.ID]; ok && !seenP[at.ID] {
								seenP[at.ID] = true
								vals, _ := X.phiFC[at.ID].Ctx.PhiLiveEdges(ph)
								for _, pv := range vals {
									if dig(X.phiFC[at.ID].Val(pv), d+1) {
										return true
									}
								}
							}
						}
						return false
					}
					return dig(v, 0) || dig(X.ExpandCalls(v), 0)
				}
				if hasNaN(v) {
					r.OK(rB, construct+"/none→NaN", b.pos(fn), "NaN is the value when no weight is non-zero")
				} else {
					r.Fail(rB, construct+"/none→NaN", b.pos(fn), "the result cannot be NaN: with every weight zero a value is reported as an extreme")
				}
				// a value merged at a loop's exits (taken at a break, or the initial value otherwise)
				// stands for any of its alternatives
				var idxs []*Atom
				seen := map[AtomID]bool{}
				var collect func(v *RF, depth int)
				collect = func(v *RF, depth int) {
					if at := v.SingleAtom(); at != nil && at.Name == "ite" && len(at.Args) == 3 {
						collect(at.Args[1], depth) // the alternatives, not the conditions selecting them
						collect(at.Args[2], depth)
						return
					}
					idxs = append(idxs, FindFn(v, "idx")...)
					if depth > 6 {
						return
					}
					for _, at := range v.Atoms(true) {
						ph, ok := X.phiOf[at.ID]
						if !ok || seen[at.ID] {
							continue
						}
						seen[at.ID] = true
						pfc := X.phiFC[at.ID]
						isHeader := false
						vals, preds := pfc.Ctx.PhiLiveEdges(ph)
						for _, pr := range preds {
							if pfc.Ctx.Dominates(ph.Block(), pr) {
								isHeader = true
							}
						}
						if isHeader {
							continue
						}
						for _, pv := range vals {
							collect(pfc.Sub(pfc.Val(pv)), depth+1)
						}
					}
				}
				collect(v, 0)
				if len(idxs) == 0 {
					collect(X.ExpandCalls(v), 0) // the scans delegated to a helper with several returns
				}
				var es []*RF
				for _, at := range idxs {
					if !at.Args[0].Equal(xs) {
						continue
					}
					dup := false
					for _, e := range es {
						if e.Equal(at.Args[1]) {
							dup = true
						}
					}
					if !dup {
						es = append(es, at.Args[1])
					}
				}
				if len(es) != 1 {
					r.Fail("C-scan coverage", construct, b.pos(fn), "the "+map[int]string{0: "minimum", 1: "maximum"}[ri]+" is not the value at one scanned index: "+clip(v.String(), 200))
					continue
				}
				e := es[0]
				// an index remembered at the scan's break (`first = i; break`, -1 otherwise) is a merge
				// of the loop counter with a not-found marker: the scanned index is the counter
				if ea := e.SingleAtom(); ea != nil && X.phiOf[ea.ID] != nil && len(fc.loopPhis(e)) > 0 {
					ph := X.phiOf[ea.ID]
					pfc := X.phiFC[ea.ID]
					isHeader := false
					vals, preds := pfc.Ctx.PhiLiveEdges(ph)
					for _, pr := range preds {
						if pfc.Ctx.Dominates(ph.Block(), pr) {
							isHeader = true
						}
					}
					if !isHeader {
						var alts []*RF
						for _, pv := range vals {
							av := pfc.Sub(pfc.Val(pv))
							if _, isC := av.IsConst(); isC {
								continue // the not-found marker
							}
							dup := false
							for _, o := range alts {
								if o.Equal(av) {
									dup = true
								}
							}
							if !dup {
								alts = append(alts, av)
							}
						}
						if len(alts) == 1 {
							e = alts[0]
						}
					}
				}
				var k *RF
				for _, ph := range fc.loopPhis(e) {
					if d, isC := e.Sub(ph).IsConst(); isC && d.IsInt() {
						k = ph
					} else if d, isC := e.Add(ph).Sub(S.MakeFn("len", ws)).IsConst(); isC && d.IsInt() {
						k = ph // an index counted from the end: len-1-k
					} else if d, isC := e.Add(ph).Sub(S.MakeFn("len", xs)).IsConst(); isC && d.IsInt() {
						k = ph
					}
				}
				if k == nil {
					r.Fail("C-scan coverage", construct, b.pos(fn), "the index "+clip(e.String(), 100)+" is not driven by one loop counter")
					continue
				}
				kat := k.SingleAtom()
				kfc := X.phiFC[kat.ID]
				ki, kn := kfc.Recurrence(k)
				first := e.Subst(map[AtomID]*RF{kat.ID: ki})
				step := e.Subst(map[AtomID]*RF{kat.ID: kn}).Sub(e)
				wantFirst, wantStep := S.Int(0), S.Int(1)
				if dir == "backward" {
					wantStep = S.Int(-1)
				}
				okFirst := first.Equal(wantFirst)
				if dir == "backward" {
					okFirst = first.Equal(S.MakeFn("len", ws).Sub(S.Int(1))) || first.Equal(S.MakeFn("len", xs).Sub(S.Int(1)))
				}
				if !okFirst || !step.Equal(wantStep) {
					r.Fail("C-scan coverage", construct, b.pos(fn), "the "+dir+" scan starts at "+clip(first.String(), 60)+" and moves by "+clip(step.String(), 20)+" (expected the "+map[string]string{"forward": "first", "backward": "last"}[dir]+" index, one step at a time)")
					continue
				}
				// continuation condition: header → back edge
				hdr := X.phiOf[kat.ID].Block()
				cont := kfc.ContinueCond(hdr)
				wz := S.Cmp("==", S.MakeFn("idx", ws, e), S.Int(0))
				// (4) the scan is left only at a non-zero weight or with every index examined
				var kl *Loop
				for _, l := range kfc.Ctx.Loops() {
					if l.Header == hdr {
						kl = l
					}
				}
				exhausted := S.Or(S.Cmp("<=", S.MakeFn("len", ws), e), S.Cmp("<=", S.MakeFn("len", xs), e))
				if dir == "backward" {
					exhausted = S.Cmp("<", e, S.Int(0))
					// (coming down to the index the forward scan stopped at is as good: every index
					// above it has been examined, and it carries a non-zero weight itself)
					// — provided the maximum is the value at the index the scan is left with on
					// every way out (no not-found marker such as an initial NaN among its alternatives)
					var onlyIdx func(v *RF, depth int) bool
					onlyIdx = func(v *RF, depth int) bool {
						at := v.SingleAtom()
						if at == nil || depth > 6 {
							return false
						}
						switch {
						case at.Name == "ite" && len(at.Args) == 3:
							return onlyIdx(at.Args[1], depth+1) && onlyIdx(at.Args[2], depth+1)
						case at.Name == "idx" && at.Args[0].Equal(xs):
							return true
						}
						if ph, ok := X.phiOf[at.ID]; ok {
							pfc := X.phiFC[at.ID]
							vals, preds := pfc.Ctx.PhiLiveEdges(ph)
							for _, pr := range preds {
								if pfc.Ctx.Dominates(ph.Block(), pr) {
									return false
								}
							}
							for _, pv := range vals {
								if !onlyIdx(pfc.Sub(pfc.Val(pv)), depth+1) {
									return false
								}
							}
							return len(vals) > 0
						}
						return false
					}
					after := true
					nAfter := 0
					for _, rt := range kfc.Ctx.Returns() {
						if kfc.Ctx.Dominates(hdr, rt.Block()) && ri < len(rt.Results) {
							nAfter++
							if !onlyIdx(kfc.Sub(kfc.Val(rt.Results[ri])), 0) {
								after = false
							}
						}
					}
					if fwdE != nil && after && nAfter > 0 {
						exhausted = S.Or(exhausted, S.Cmp("<=", e, fwdE))
					}
				} else {
					fwdE = e
				}
				early := ""
				if kl == nil {
					early = "loop not found"
				} else {
					for bi := range kl.Body {
						blk := kfc.Fn.Blocks[bi]
						for _, sc := range kfc.Ctx.LiveSuccs(blk) {
							if kl.Body[sc.Index] {
								continue
							}
							ec := S.And(kfc.ReachCondFrom(hdr, blk), kfc.edgeCond(blk, sc))
							as := []Assumption{{Cond: ec, True: true}}
							if X.EvalCond(wz, as) == False || X.EvalCond(exhausted, as) == True {
								continue
							}
							early = "it can stop while " + clip(ec.String(), 160) + ", with indices still unexamined"
						}
					}
				}
				if early != "" {
					r.Fail("C-scan coverage", construct, b.pos(fn), "the "+dir+" scan does not examine every index: "+early)
					continue
				}
				if X.EvalCond(wz, []Assumption{{Cond: cont, True: true}}) == True {
					r.OK("C-scan coverage", construct, b.pos(fn), "value taken at an index that starts at the "+map[string]string{"forward": "first", "backward": "last"}[dir]+" element and is advanced only past zero weights at that index")
				} else {
					r.Fail("C-scan coverage", construct, b.pos(fn), "the "+dir+" scan does not advance exactly past zero weights: it continues while "+clip(cont.String(), 200))
				}
			}
		})
	}
	// vec element formulas
	elemStore := func(fname string, names []string, spec string, fixed func(fc *FC, env *SpecEnv)) {
		fn := b.Fn(rB, fname)
		if fn == nil {
			return
		}
		b.guard(rB, fname, func() {
			fc := X.FCFor(fn)
			n := 0
			rv := fc.Ctx.Returns()
			// the fill loop may live in the function or in a helper it hands the slice to
			for _, sfc := range fc.BoundCallees(1) {
				sfc := sfc
				sfc.Ctx.Instrs(func(in ssa.Instruction) {
					st, ok := in.(*ssa.Store)
					if !ok {
						return
					}
					ia, ok := st.Addr.(*ssa.IndexAddr)
					if !ok || sfc.Ctx.LoopOf(st.Block()) == nil {
						return
					}
					if sfc != fc && len(rv) > 0 && !sfc.Val(ia.X).Equal(fc.Val(rv[len(rv)-1].Results[0])) {
						return // a helper's store into something other than the result
					}
					if sfc != fc {
						// only a helper that is HANDED the slice fills it on this function's behalf; one
						// that makes the slice it fills (Linspace under Logspace) has its own obligations
						handed := false
						for _, p := range sfc.Fn.Params {
							if sfc.Val(p).Equal(sfc.Val(ia.X)) {
								handed = true
							}
						}
						if !handed {
							return
						}
					}
					n++
					env := X.EnvFor(fn, names...)
					env.Set("i", sfc.Val(ia.Index), nil)
					env.Set("res", sfc.Val(ia.X), nil)
					b.Eq(rB, fname+"/element", a.W.InstrPos(st), sfc.Val(st.Val), env, spec)
					b.FullScan("C-scan coverage", fname+"/every-element", a.W.InstrPos(st), sfc, sfc.Val(ia.Index), S.MakeFn("len", sfc.Val(ia.X)))
					if len(rv) > 0 {
						b.EqRF(rB, fname+"/stored-in-result", a.W.InstrPos(st), sfc.Val(ia.X), fc.Val(rv[len(rv)-1].Results[0]), "the element is stored into the returned slice")
					}
				})
			}
			if n != 1 {
				r.Fail(rB, fname+"/element", b.pos(fn), "expected one element store in a loop")
			}
			if fixed != nil {
				fixed(fc, X.EnvFor(fn, names...))
			}
		})
	}
	elemStore("vec.Linspace", []string{"lo", "hi", "num"}, "lo+i*(hi-lo)/(num-1)", func(fc *FC, env *SpecEnv) {
		// num == 1 → res[0] = lo ; len(res) = num
		ok := false
		fc.Ctx.Instrs(func(in ssa.Instruction) {
			st, isS := in.(*ssa.Store)
			if !isS || fc.Ctx.LoopOf(st.Block()) != nil {
				return
			}
			if ia, isI := st.Addr.(*ssa.IndexAddr); isI {
				if z, isC := fc.Val(ia.Index).IsConst(); isC && z.Sign() == 0 && fc.Val(st.Val).Equal(env.MustParse("lo")) {
					if fc.HoldsAt(st.Block(), env.MustParse("num==1")) {
						ok = true
					}
				}
			}
		})
		if ok {
			r.OK(rB, "vec.Linspace/num==1", b.pos(fc.Fn), "a single point is lo")
		} else {
			r.Fail(rB, "vec.Linspace/num==1", b.pos(fc.Fn), "num==1 → [lo] missing")
		}
		rets := fc.Ctx.Returns()
		if at := fc.Val(rets[0].Results[0]).SingleAtom(); at != nil && strings.HasPrefix(at.Name, "makeslice:") {
			b.Eq(rB, "vec.Linspace/len", b.pos(fc.Fn), at.Args[0], env, "num")
		} else {
			r.Fail(rB, "vec.Linspace/len", b.pos(fc.Fn), "result is not a fresh slice of length num")
		}
	})
	elemStore("vec.Logspace", []string{"lo", "hi", "num", "base"}, "pow(base, Linspace(lo,hi,num)[i])", nil)
	elemStore("vec.Map", []string{"f", "xs"}, "f(xs[i])", nil)
}
