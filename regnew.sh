#!/bin/bash
# all 20 quick checks with bin/gmsa.new against /repo, private evidence dir; prints only non-clean properties
v=$(mktemp -d /tmp/regnew.XXXXXX); cp /verif/known_findings.json $v/
for p in C01 C02 C03 C04 C05 C06 C07 C08 C09 C10 C11 C12 C13 C14 C15 C16 C17 C18 C19 C20; do
  ( out=$(timeout 400 /verif/bin/gmsa.new check $p --no-controls --verif $v 2>&1); echo "$out" | grep -E "FAILED|UNDECIDED|panic" | head -3 | cut -c1-300; echo "$out" | grep "^gmsa:" | grep -v "violations=0" ) &
done
wait
rm -rf $v
