#!/bin/bash
# usage: rc2.sh <refactor-or-seed dir> <prop>...   (private temp dirs; binary from $GMSA_BIN, default bin/gmsa.new)
# Applies patch.diff to a scratch copy and runs the checks (no build/suite confirmation: use refcheck.sh/seedcheck.sh for that).
out=$(realpath $1); shift
bin=${GMSA_BIN:-/verif/bin/gmsa.new}
d=$(mktemp -d /tmp/rc2.XXXXXX); v=$(mktemp -d /tmp/rc2v.XXXXXX)
rsync -a --exclude .git /repo/ $d/
(cd $d && git init -q . 2>/dev/null; git apply --whitespace=nowarn $out/patch.diff 2>&1 | head -3)
cp /verif/known_findings.json $v/
for p in "$@"; do
  timeout 120 $bin check $p --repo $d --verif $v --no-controls > $v/out.txt 2>&1; rc=$?
  [ $rc -ge 124 ] && echo "  TIMEOUT property=$p"
  grep -E "ANYOF|FAILED|UNDECIDED|^gmsa:" $v/out.txt | awk '/^gmsa:/{print; next} {n++; if (n<=4) print}' | cut -c1-${W:-400}
done
rm -rf $d $v
