package main

// Obligation registry, evidence files, known findings, replay files.

import (
	"encoding/json"
	"fmt"
	"os"
	"path/filepath"
	"sort"
	"strings"
	"time"
)

type Status int

const (
	Discharged Status = iota
	Failed            // the rule decided the construct violates it
	Undecided         // the analyser could not decide (fail closed)
)

func (s Status) String() string {
	return [...]string{"discharged", "failed", "undecided"}[s]
}

type Obligation struct {
	Property  string `json:"property"`
	Rule      string `json:"rule"`
	Construct string `json:"construct"`
	Status    string `json:"status"`
	Detail    string `json:"detail,omitempty"`
	Where     string `json:"where,omitempty"`
	st        Status
}

type Registry struct {
	Prop   string
	Obs    []*Obligation
	Counts map[string]int // free-form measured counters for the evidence
	Notes  []string
	Undec  []string // clauses not decided (documentation, copied to evidence)
}

func NewRegistry(prop string) *Registry {
	return &Registry{Prop: prop, Counts: map[string]int{}}
}

func (r *Registry) add(rule, construct string, st Status, where, detail string) *Obligation {
	o := &Obligation{Property: r.Prop, Rule: rule, Construct: construct, Status: st.String(), Detail: detail, Where: where, st: st}
	r.Obs = append(r.Obs, o)
	return o
}

func (r *Registry) OK(rule, construct, where, detail string) {
	r.add(rule, construct, Discharged, where, detail)
}
func (r *Registry) Fail(rule, construct, where, detail string) {
	r.add(rule, construct, Failed, where, detail)
}
func (r *Registry) Undecided(rule, construct, where, detail string) {
	r.add(rule, construct, Undecided, where, detail)
}
func (r *Registry) Count(key string, n int) { r.Counts[key] += n }

// Floor records a vacuity-floor obligation: measured must be >= min.
func (r *Registry) Floor(rule, what string, measured, min int) {
	d := fmt.Sprintf("measured %d, floor %d", measured, min)
	if measured >= min {
		r.OK(rule, "floor:"+what, "", d)
	} else {
		r.Undecided(rule, "floor:"+what, "", "vacuity floor not met: "+d)
	}
}

// ---- known findings ----

type Finding struct {
	Property  string `json:"property"`
	Rule      string `json:"rule"`
	Construct string `json:"construct"`
	Status    string `json:"status"` // "known" | "fixed"
	Commit    string `json:"commit,omitempty"`
	Witness   string `json:"witness"`
}

type findingsFile struct {
	Findings []Finding `json:"findings"`
	Fixed    []string  `json:"fixed_log,omitempty"`
}

func loadFindings(path string) ([]Finding, error) {
	b, err := os.ReadFile(path)
	if err != nil {
		if os.IsNotExist(err) {
			return nil, nil
		}
		return nil, err
	}
	var ff findingsFile
	if err := json.Unmarshal(b, &ff); err != nil {
		return nil, err
	}
	return ff.Findings, nil
}

// ---- evidence ----

type evidence struct {
	PropertyID  string                 `json:"property_id"`
	Tier        string                 `json:"tier"`
	Seed        int                    `json:"seed"`
	Level       string                 `json:"level"`
	Coverage    map[string]interface{} `json:"coverage"`
	Assumptions []string               `json:"assumptions"`
	WallS       float64                `json:"wall_s"`
	Violations  int                    `json:"violations"`
}

type RunInfo struct {
	VerifDir string
	Tier     string
	Seed     int
	Level    string
	Start    time.Time
	Assume   []string
	Explain  string
	Trusted  []string
	Cmd      string
	Extra    map[string]interface{}
}

// Finish prints the verdict lines, writes evidence and replay files and
// returns the process exit code.
func (r *Registry) Finish(ri *RunInfo) int {
	known, err := loadFindings(filepath.Join(ri.VerifDir, "known_findings.json"))
	if err != nil {
		fmt.Printf("gmsa: cannot read known_findings.json: %v\n", err)
		return 2
	}
	isKnown := func(o *Obligation) *Finding {
		for i := range known {
			k := &known[i]
			if k.Status == "known" && k.Property == o.Property && k.Rule == o.Rule && k.Construct == o.Construct {
				return k
			}
		}
		return nil
	}
	sort.SliceStable(r.Obs, func(i, j int) bool {
		if r.Obs[i].Rule != r.Obs[j].Rule {
			return r.Obs[i].Rule < r.Obs[j].Rule
		}
		return r.Obs[i].Construct < r.Obs[j].Construct
	})
	var viol []*Obligation
	nKnown, nDis := 0, 0
	rules := map[string]int{}
	for _, o := range r.Obs {
		rules[o.Rule]++
		if os.Getenv("GMSA_LIST") != "" {
			fmt.Printf("OBLIGATION rule=%s construct=%s status=%s detail=%s\n", o.Rule, o.Construct, o.Status, o.Detail)
		}
		switch o.st {
		case Discharged:
			nDis++
		default:
			if o.st == Failed {
				if k := isKnown(o); k != nil {
					nKnown++
					fmt.Printf("KNOWN-FINDING: property=%s rule=%s construct=%s %s (%s)\n", o.Property, o.Rule, o.Construct, k.Witness, o.Where)
					continue
				}
			}
			viol = append(viol, o)
		}
	}
	replayDir := filepath.Join(ri.VerifDir, "replay")
	os.MkdirAll(replayDir, 0o755)
	for i, o := range viol {
		name := fmt.Sprintf("%s-%s-%d.json", r.Prop, sanitize(o.Rule), i)
		p := filepath.Join(replayDir, name)
		b, _ := json.MarshalIndent(map[string]interface{}{
			"property": o.Property, "rule": o.Rule, "construct": o.Construct, "kind": o.Status,
			"where": o.Where, "detail": o.Detail,
			"replay": fmt.Sprintf("bin/gmsa check %s --tier %s   # re-evaluates the rule on /repo's current tree", r.Prop, ri.Tier),
		}, "", " ")
		os.WriteFile(p, b, 0o644)
		fmt.Printf("  %s rule=%s construct=%s at %s: %s\n", strings.ToUpper(o.Status), o.Rule, o.Construct, o.Where, o.Detail)
		fmt.Printf("VIOLATION property=%s replay=%s\n", r.Prop, p)
	}
	// evidence
	samples := []interface{}{}
	step := 1
	if len(r.Obs) > 40 {
		step = len(r.Obs) / 40
	}
	for i := 0; i < len(r.Obs); i += step {
		samples = append(samples, r.Obs[i])
	}
	cov := map[string]interface{}{
		"explanation":         ri.Explain,
		"obligations":         len(r.Obs),
		"discharged":          nDis,
		"known_findings":      nKnown,
		"checker_cmd":         ri.Cmd,
		"trusted_base":        ri.Trusted,
		"evaluations":         len(r.Obs),
		"distinct_nontrivial": distinctConstructs(r.Obs),
		"rule":                "one obligation per (rule, construct) named in DESIGN.md section 5; distinct = distinct (rule,construct) keys; every obligation is decided on /repo's current source",
		"samples":             samples,
		"obligations_by_rule": rules,
		"measured":            r.Counts,
		"clauses_not_decided": r.Undec,
		"notes":               r.Notes,
	}
	for k, v := range ri.Extra {
		cov[k] = v
	}
	ev := evidence{PropertyID: r.Prop, Tier: ri.Tier, Seed: ri.Seed, Level: ri.Level, Coverage: cov,
		Assumptions: ri.Assume, WallS: time.Since(ri.Start).Seconds(), Violations: len(viol)}
	evDir := filepath.Join(ri.VerifDir, "evidence")
	os.MkdirAll(evDir, 0o755)
	b, _ := json.MarshalIndent(ev, "", " ")
	if err := os.WriteFile(filepath.Join(evDir, r.Prop+".json"), b, 0o644); err != nil {
		fmt.Printf("gmsa: cannot write evidence: %v\n", err)
		return 2
	}
	fmt.Printf("gmsa: property=%s tier=%s obligations=%d discharged=%d known=%d violations=%d wall=%.1fs\n",
		r.Prop, ri.Tier, len(r.Obs), nDis, nKnown, len(viol), ev.WallS)
	if len(viol) > 0 {
		return 1
	}
	return 0
}

func distinctConstructs(obs []*Obligation) int {
	m := map[string]bool{}
	for _, o := range obs {
		m[o.Rule+"|"+o.Construct] = true
	}
	return len(m)
}

func sanitize(s string) string {
	var b strings.Builder
	for _, c := range s {
		if c >= 'a' && c <= 'z' || c >= 'A' && c <= 'Z' || c >= '0' && c <= '9' || c == '-' || c == '_' {
			b.WriteRune(c)
		} else {
			b.WriteByte('_')
		}
	}
	return b.String()
}
