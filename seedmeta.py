#!/usr/bin/env python3
"""usage: seedmeta.py "<source text>" [--missed id,id] <seed id>...
Runs the quick check of the seed's property (bin/gmsa) on a scratch copy with the patch applied,
records source / confirmed_by_me / detected_by in seeded/<id>/meta.json and prints the DESIGN.md table rows."""
import json, os, re, subprocess, sys, tempfile, shutil
args = sys.argv[1:]
source = args.pop(0)
missed = set()
if args and args[0] == '--missed':
    args.pop(0); missed = set(args.pop(0).split(','))
rows = []
for sid in args:
    d = '/verif/seeded/' + sid
    meta = json.load(open(d + '/meta.json'))
    prop = meta['property']
    tmp = tempfile.mkdtemp(prefix='sm.', dir='/tmp'); v = tempfile.mkdtemp(prefix='smv.', dir='/tmp')
    subprocess.run(['rsync', '-a', '--exclude', '.git', '/repo/', tmp + '/'], check=True)
    subprocess.run('git init -q . && git apply --whitespace=nowarn %s/patch.diff' % d, shell=True, cwd=tmp, check=True)
    shutil.copy('/verif/known_findings.json', v)
    out = subprocess.run(['/verif/bin/gmsa', 'check', prop, '--repo', tmp, '--verif', v, '--no-controls'], capture_output=True, text=True).stdout
    shutil.rmtree(tmp); shutil.rmtree(v)
    det = []
    for line in out.splitlines():
        m = re.match(r'\s*(FAILED|UNDECIDED) rule=(.*?) construct=(.*?) at ', line)
        if m:
            s = '%s:%s %s' % (prop, m.group(2), m.group(3))
            if m.group(1) == 'UNDECIDED': s += ' (undecided: fail-closed)'
            if s not in det: det.append(s)
    meta['source'] = source
    meta['confirmed_by_me'] = 'seedcheck.sh: scratch copy of /repo; demo passes on clean tree; with patch: go build ok, pinned suite passes, demo fails'
    meta['detected_by'] = det
    if sid in missed: meta['initially_missed'] = True
    json.dump(meta, open(d + '/meta.json', 'w'), indent=1)
    note = 'initially missed; see the text below the table' if sid in missed else ''
    rows.append('| %s | %s | %s | %s |' % (sid, meta['what_changed'][:150].replace('|', '/').replace('\n', ' '), ', '.join(det[:3])[:170] if det else '**NOT DETECTED**', note))
print('\n'.join(rows))
