package main

func runControls(verif, prop string) string                                         { return "" }
func runControlsCmd(verif string) int                                               { return 0 }
func runThorough(a *Analysis, reg *Registry, ri *RunInfo, prop, repo, verif string) {}
