package main

import (
	"fmt"
	"go/token"
	"go/types"
	"os"
	"strings"

	"golang.org/x/tools/go/ssa"
)

func init() {
	propFuncs["C14"] = propC14
	propInfos["C14"] = &PropInfo{
		Level:   "other",
		Explain: "Structural necessary conditions decided statically (DESIGN.md §5 C14), for every type of the module implementing stats.Histogram: C-once — every path through Add performs exactly one `counter++` and no other store; guard/counter agreement — the reach condition of the increment of the field Counts() returns as `under` is bin<0, of `over` is bin>=len(bins), of bins[bin] the complement (so 0<=bin<len(bins) at the indexed increment); D-floor — the bin index conversion has floor semantics (integral or non-negative operand), so a value just below the first edge gets a negative bin; B — BinToValue(b(x)) = x for the pre-floor bin function b with the constructor's field definitions substituted (bin function and edges are inverse), constructor fields, HistogramIQR = Q(0.75)-Q(0.25), and the total/goal/interpolation formulas of HistogramQuantile, including that the rank walked over the bins is uint(total*q) minus the under count and that the walk stops in the first bin whose count exceeds the remaining rank. Added after the mutation sweep: NaN off the edges of the binned rank range and only there.",
		Assume:  []string{"A4 reals", "q in [0,1] for HistogramQuantile (precondition)"},
		Undec:   []string{"HistogramQuantile's boundary conventions: goal == under gives NaN, q=1 without over-flow reaches the final panic (the doc comment and the strict walk do not settle the intended rank origin)", "monotonicity of BinToValue and of the quantile in q"},
	}
}

// expandPow rewrites math.Pow(b,e) atoms as exp(e*log b) (valid for b>0).
func expandPow(x *Extractor, r *RF) *RF {
	m := map[AtomID]*RF{}
	for _, a := range r.Atoms(true) {
		if a.Name == "math.Pow" && len(a.Args) == 2 {
			m[a.ID] = x.S.MakeFn("math.Exp", expandPow(x, a.Args[1]).Mul(x.S.MakeFn("math.Log", expandPow(x, a.Args[0]))))
		}
	}
	if len(m) == 0 {
		return r
	}
	return r.Subst(m)
}

func fieldNameOfAtom(r *RF) string {
	at := r.SingleAtom()
	if at == nil || !strings.HasPrefix(at.Name, "fld:") {
		return ""
	}
	return at.Name[strings.Index(at.Name, ".")+1:]
}

func propC14(a *Analysis, r *Registry) {
	b := NewB(a, r)
	X := b.X
	histT := a.W.Lib["stats"].Members["Histogram"]
	if histT == nil {
		r.Undecided("C14", "stats.Histogram", "", "interface not found")
		return
	}
	iface := histT.Type().Underlying().(*types.Interface)
	impls := b.implementorsOf(iface)
	r.Floor("C14 vacuity", "Histogram implementations", len(impls), 2)
	for _, t := range impls {
		tn := X.typeName(t)
		add, counts, b2v := b.methodOf(t, "Add"), b.methodOf(t, "Counts"), b.methodOf(t, "BinToValue")
		if add == nil || counts == nil || b2v == nil {
			r.Undecided("C14", tn, "", "method missing")
			continue
		}
		addName := a.W.FuncName(add)
		// D-floor over Add and what it calls
		nsites := 0
		for _, f := range b.staticCallees(add) {
			if len(X.DFloor(f)) > 0 {
				nsites += b.CheckDFloor("D-floor", a.W.FuncName(f))
			}
		}
		r.Floor("D-floor", "bin-index conversions reachable from "+addName, nsites, 1)
		// C-once
		b.guard("C-once", addName, func() {
			fc := X.FCFor(add)
			lo, hi, ok := fc.pathCountRange(fc.isIncrement)
			other := 0
			fc.Ctx.Instrs(func(in ssa.Instruction) {
				switch in.(type) {
				case *ssa.Store, *ssa.MapUpdate:
					if !fc.isIncrement(in) {
						other++
					}
				}
			})
			switch {
			case !ok:
				r.Undecided("C-once", addName, b.pos(add), "Add contains a loop: paths cannot be counted")
			case lo == 1 && hi == 1 && other == 0:
				r.OK("C-once", addName, b.pos(add), "every path performs exactly one counter increment and no other store")
			default:
				r.Fail("C-once", addName, b.pos(add), "increments per path between "+itoa(lo)+" and "+itoa(hi)+", other stores "+itoa(other)+" (want exactly 1 and 0)")
			}
		})
		// guard ↔ counter agreement
		b.guard("C-guard counters", addName, func() {
			fc := X.FCFor(add)
			cfc := X.FCFor(counts)
			env := X.EnvFor(add, "h", "x")
			under, bins, over := fieldNameOfAtom(cfc.RetVal(0)), fieldNameOfAtom(cfc.RetVal(1)), fieldNameOfAtom(cfc.RetVal(2))
			if under == "" || bins == "" || over == "" || under == over {
				r.Fail("C-guard counters", tn+".Counts", b.pos(counts), "Counts() does not return three distinct fields of the receiver")
				return
			}
			// the bin index used by Add: the value compared with 0
			// the bin index: the bin helper's value at Add's own receiver and argument, whether Add
			// calls the helper or computes the same expression itself
			binV, _, _ := c14BinOf(b, t, add)
			if binV == nil {
				r.Undecided("C-guard counters", addName, b.pos(add), "anchor: no bin helper and no integer compared with 0 in Add: the bin index cannot be identified")
				return
			}
			env.Set("bin", binV, types.Typ[types.Int])
			want := map[string]string{
				"&fld:" + under: "bin<0",
				"&fld:" + over:  "!(bin<0) && len(h." + bins + ")<=bin",
				"&idx":          "!(bin<0) && !(len(h." + bins + ")<=bin)",
			}
			found := map[string]bool{}
			fc.Ctx.Instrs(func(in ssa.Instruction) {
				if !fc.isIncrement(in) {
					return
				}
				st := in.(*ssa.Store)
				key := ""
				// the counter chosen first and incremented once through a pointer (`slot := &h.high;
				// … *slot++`): one increment per way the pointer is chosen, under the condition of
				// that choice
				if ph, isPhi := st.Addr.(*ssa.Phi); isPhi && ph.Block() == st.Block() {
					for k, pb := range ph.Block().Preds {
						if k >= len(ph.Edges) || !fc.Ctx.Reach[pb.Index] {
							continue
						}
						pk := ""
						switch ad := ph.Edges[k].(type) {
						case *ssa.FieldAddr:
							pk = "&fld:" + ad.X.Type().Underlying().(*types.Pointer).Elem().Underlying().(*types.Struct).Field(ad.Field).Name()
						case *ssa.IndexAddr:
							pk = "&idx"
							e2 := X.EnvFor(add, "h", "x")
							e2.Set("bin", binV, types.Typ[types.Int])
							b.Eq("C-guard counters", addName+"/bins-slot", a.W.InstrPos(st), fc.Val(ad), e2, "addr(h."+bins+", bin)")
						}
						sp, ok := want[pk]
						if !ok {
							r.Fail("C-guard counters", addName+"/"+pk, a.W.InstrPos(st), "increment of something that is not one of the three counters Counts() returns")
							continue
						}
						found[pk] = true
						b.Eq("C-guard counters", addName+"/"+pk, a.W.InstrPos(st), X.S.And(fc.ReachCond(pb), fc.edgeCond(pb, ph.Block())), env, sp)
					}
					return
				}
				switch ad := st.Addr.(type) {
				case *ssa.FieldAddr:
					key = "&fld:" + ad.X.Type().Underlying().(*types.Pointer).Elem().Underlying().(*types.Struct).Field(ad.Field).Name()
				case *ssa.IndexAddr:
					key = "&idx"
					e2 := X.EnvFor(add, "h", "x")
					e2.Set("bin", binV, types.Typ[types.Int])
					b.Eq("C-guard counters", addName+"/bins-slot", a.W.InstrPos(st), fc.Val(ad), e2, "addr(h."+bins+", bin)")
				}
				sp, ok := want[key]
				if !ok {
					r.Fail("C-guard counters", addName+"/"+key, a.W.InstrPos(st), "increment of something that is not one of the three counters Counts() returns")
					return
				}
				found[key] = true
				b.Eq("C-guard counters", addName+"/"+key, a.W.InstrPos(st), fc.ReachCond(st.Block()), env, sp)
			})
			for k := range want {
				if !found[k] {
					r.Fail("C-guard counters", addName+"/"+k, b.pos(add), "no increment of this counter")
				}
			}
		})
		// inverse identity BinToValue(b(x)) = x
		b.guard("B-C14 inverse", tn, func() {
			pre, binRecv, binX := c14BinOf(b, t, add)
			if pre == nil {
				r.Undecided("B-C14 inverse", tn, b.pos(add), "anchor: no bin helper and no integer compared with 0 in Add: the bin index cannot be identified")
				return
			}
			// strip int()/floor
			for {
				at := pre.SingleAtom()
				if at != nil && (at.Name == "toint" || at.Name == "math.Floor") {
					pre = at.Args[0]
					continue
				}
				break
			}
			// BinToValue with bin := pre, receiver := bin's receiver
			vfc := X.FCFor(b2v)
			v := vfc.RetVal(0)
			m := map[AtomID]*RF{
				X.ParamRF(b2v, 1).SingleAtom().ID: pre,
				X.ParamRF(b2v, 0).SingleAtom().ID: binRecv,
			}
			v = v.Subst(m)
			// constructor field definitions
			ctor := a.W.Fn("stats.New" + tn)
			if ctor != nil {
				cfc := X.FCFor(ctor)
				sub := map[AtomID]*RF{}
				st := derefT(t).Underlying().(*types.Struct)
				recv := binRecv
				// fields defined purely in terms of other fields' sources: express ctor params by fields that copy them
				paramOf := map[AtomID]*RF{}
				for i := 0; i < st.NumFields(); i++ {
					fv := cfc.LitField(tn, st.Field(i).Name())
					if at := fv.SingleAtom(); at != nil && strings.HasPrefix(at.Name, "param:") {
						paramOf[at.ID] = X.fieldOf(recv, derefT(t), i)
					}
				}
				for i := 0; i < st.NumFields(); i++ {
					fv := cfc.LitField(tn, st.Field(i).Name())
					if at := fv.SingleAtom(); at != nil && strings.HasPrefix(at.Name, "param:") {
						continue
					}
					if _, isC := fv.IsConst(); isC {
						continue
					}
					if hasAtomPrefix(fv, "makeslice:") {
						continue
					}
					sub[X.fieldOf(recv, derefT(t), i).SingleAtom().ID] = fv.Subst(paramOf)
				}
				v = v.Subst(sub)
			}
			v = expandPow(X, v)
			b.EqRF("B-C14 inverse", tn+"/BinToValue∘bin", b.pos(b2v), v, binX, "BinToValue(pre-floor bin(x)) ≡ x with the constructor's field definitions")
		})
	}
	// formulas
	specsB2V := map[string]string{"stats.(*LinearHist).BinToValue": "h.min+bin/h.delta", "stats.(*LogHist).BinToValue": "pow(h.b, bin/h.m)"}
	for fnName, sp := range specsB2V {
		fnName, sp := fnName, sp
		if fn := b.Fn("B-C14 formula", fnName); fn != nil {
			b.guard("B-C14 formula", fnName, func() {
				b.Eq("B-C14 formula", fnName, b.pos(fn), X.FCFor(fn).RetVal(0), X.EnvFor(fn, "h", "bin"), sp)
			})
		}
	}
	ctors := map[string][][2]string{
		"stats.NewLinearHist": {{"min", "$0"}, {"max", "$1"}, {"delta", "$2/($1-$0)"}, {"low", "0"}, {"high", "0"}},
		"stats.NewLogHist":    {{"b", "$0"}, {"m", "$1"}, {"mOverLogb", "$1/log($0)"}, {"low", "0"}, {"high", "0"}},
	}
	for cn, fs := range ctors {
		cn, fs := cn, fs
		if fn := b.Fn("B-C14 formula", cn); fn != nil {
			tn := strings.TrimPrefix(cn, "stats.New")
			for _, f := range fs {
				f := f
				b.guard("B-C14 formula", cn+"/"+f[0], func() {
					b.Eq("B-C14 formula", cn+"/"+f[0], b.pos(fn), X.FCFor(fn).LitField(tn, f[0]), X.EnvFor(fn), f[1])
				})
			}
			b.guard("B-C14 formula", cn+"/len(bins)", func() {
				v := X.FCFor(fn).LitField(tn, "bins")
				at := v.SingleAtom()
				if at == nil || !strings.HasPrefix(at.Name, "makeslice:") {
					r.Fail("B-C14 formula", cn+"/len(bins)", b.pos(fn), "bins is not a freshly made slice")
					return
				}
				sp := "$2"
				if tn == "LogHist" {
					sp = "ceil($1/log($0)*log($2))"
				}
				b.Eq("B-C14 formula", cn+"/len(bins)", b.pos(fn), at.Args[0], X.EnvFor(fn), sp)
			})
		}
	}
	if fn := b.Fn("B-C14 formula", "stats.HistogramIQR"); fn != nil {
		b.guard("B-C14 formula", "stats.HistogramIQR", func() {
			if os.Getenv("GMSA_DEBUG_C14") != "" {
				fmt.Fprintln(os.Stderr, "IQR got:", X.FCFor(fn).RetVal(0))
				fmt.Fprintln(os.Stderr, "IQR want:", X.EnvFor(fn, "h").MustParse("HistogramQuantile(h,0.75)-HistogramQuantile(h,0.25)"))
			}
			b.Eq("B-C14 formula", "stats.HistogramIQR", b.pos(fn), X.FCFor(fn).RetVal(0), X.EnvFor(fn, "h"), "HistogramQuantile(h,0.75)-HistogramQuantile(h,0.25)")
		})
	}
	if fn := b.Fn("B-C14 formula", "stats.HistogramQuantile"); fn != nil {
		name := "stats.HistogramQuantile"
		b.guard("B-C14 formula", name, func() {
			fc := X.FCFor(fn)
			env := X.EnvFor(fn, "hist", "q")
			// the value returned from inside the walk
			var ret *ssa.Return
			for _, rt := range fc.Ctx.Returns() {
				if c, ok := rt.Results[0].(*ssa.Call); ok && fc.calleeName(c) == "invoke:BinToValue" {
					ret = rt
				}
			}
			if ret == nil {
				anchorFail("no return of hist.BinToValue(...)")
			}
			call := ret.Results[0].(*ssa.Call)
			arg := fc.Val(call.Common().Args[0])
			// the walk stops in the first bin whose count exceeds the remaining rank (strictly)
			func() {
				l := fc.Ctx.LoopOf(ret.Block())
				hdr := ret.Block()
				if l != nil {
					hdr = l.Header
				} else {
					// the return block hangs off the loop: find the loop whose body branches to it
					for _, lp := range fc.Ctx.Loops() {
						for _, p := range fc.Ctx.LivePreds(ret.Block()) {
							if lp.Body[p.Index] {
								hdr = lp.Header
							}
						}
					}
				}
				ids := FindFn(arg, "idx")
				if len(ids) != 1 {
					return
				}
				e3 := X.EnvFor(fn, "hist", "q")
				cnt := X.S.atomRF(ids[0].ID)
				e3.Set("count", cnt, nil)
				e3.Set("goal", arg.Sub(ids[0].Args[1]).Mul(cnt), nil)
				// the walk is left towards the return only in a bin whose count exceeds the
				// remaining rank, and never goes on past such a bin — read off the loop's exit
				// edges (a return inside the body, a break, a found-flag tested after the
				// loop) and its continue condition, whatever form the test takes
				hit := e3.MustParse("goal<count")
				// (the loop is the one that carries the bin index)
				for _, ph := range fc.loopPhis(ids[0].Args[1]) {
					if pa := ph.SingleAtom(); pa != nil && X.phiOf[pa.ID] != nil {
						hdr = X.phiOf[pa.ID].Block()
					}
				}
				if fc.Ctx.LoopOf(hdr) == nil || fc.Ctx.LoopOf(hdr).Header != hdr {
					b.R.Fail("B-C14 formula", name+"/walk-guard", a.W.InstrPos(ret), "the return is not attached to a loop over the bins")
					return
				}
				okGuard := true
				// R: the condition, at the iteration in which the walk is left, under which the
				// return is reached (over every exit edge; a way out that panics contributes nothing)
				R := X.S.False()
				for _, ee := range fc.ExitEdges(hdr) {
					// (forward over the loop-free code after the walk; merges on the way are
					// resolved along the edges taken)
					var fwd func(cur *ssa.BasicBlock, depth int) *RF
					fwd = func(cur *ssa.BasicBlock, depth int) *RF {
						if cur == ret.Block() {
							return X.S.True()
						}
						if depth > 24 || fc.Ctx.LoopOf(cur) != nil && fc.Ctx.LoopOf(cur).Header == hdr {
							return X.S.False()
						}
						acc := X.S.False()
						for _, sc := range fc.Ctx.LiveSuccs(cur) {
							acc = X.S.Or(acc, X.S.And(fc.edgeCond(cur, sc), fwd(sc, depth+1)))
						}
						return acc
					}
					reach := fc.resolveAlongEdge(ee.From, ee.To, fwd(ee.To, 0))
					if os.Getenv("GMSA_DEBUG_C14") != "" {
						fmt.Fprintln(os.Stderr, "EXIT", ee.From.Index, "->", ee.To.Index, "cond", ee.Cond, "\n  reach:", reach)
						for _, p := range fc.Ctx.LivePreds(ret.Block()) {
							fmt.Fprintln(os.Stderr, "  edgeCond", p.Index, "->", ret.Block().Index, fc.edgeCond(p, ret.Block()))
						}
					}
					R = X.S.Or(R, X.S.And(ee.Cond, reach))
				}
				nret := 1
				if R.Equal(X.S.False()) {
					nret = 0
				}
				if !X.SimplifyUnder(R, []Assumption{{Cond: hit, True: false}}).Equal(X.S.False()) {
					okGuard = false
					b.R.Fail("B-C14 formula", name+"/walk-guard", a.W.InstrPos(ret), "the walk can return from a bin whose count does not exceed the remaining rank: returns when "+clip(R.String(), 200))
				}
				if cc := fc.ContinueCond(hdr); okGuard && !X.SimplifyUnder(cc, []Assumption{{Cond: hit, True: true}}).Equal(X.S.False()) {
					okGuard = false
					b.R.Fail("B-C14 formula", name+"/walk-guard", a.W.InstrPos(ret), "the walk can go on past a bin whose count exceeds the remaining rank: continues while "+clip(cc.String(), 160))
				}
				if okGuard && nret == 0 {
					okGuard = false
					b.R.Fail("B-C14 formula", name+"/walk-guard", a.W.InstrPos(ret), "no way out of the walk returns a value")
				}
				if okGuard {
					b.R.OK("B-C14 formula", name+"/walk-guard", a.W.InstrPos(ret), "the walk returns exactly from the first bin with goal < count")
				}
				_ = hdr
			}()
			b.EqRF("B-C14 formula", name+"/BinToValue-receiver", a.W.InstrPos(call), fc.Val(call.Common().Value), env.Vars["hist"].RF, "interpolates with the histogram's own BinToValue")
			// arg = bin + goal/count with count = counts[bin]
			idxs := FindFn(arg, "idx")
			if len(idxs) != 1 {
				anchorFail("expected one counts[bin] in the interpolation argument, found %d", len(idxs))
			}
			count := X.S.atomRF(idxs[0].ID)
			binIdx := idxs[0].Args[1]
			env.Set("count", count, nil)
			env.Set("bin", binIdx, nil)
			b.Eq("B-C14 formula", name+"/counts-source", a.W.InstrPos(call), idxs[0].Args[0], env, "hist.Counts()#1")
			goal := arg.Sub(binIdx).Mul(count)
			env.Set("goal", goal, nil)
			b.Eq("B-C14 formula", name+"/interpolation", a.W.InstrPos(call), arg, env, "bin+goal/count")
			ginit, gnext := fc.Recurrence(goal)
			// total: the loop-carried sum
			tot := FindFn(ginit, "toint")
			_ = tot
			e2 := X.EnvFor(fn, "hist", "q")
			e2.Set("goal", goal, nil)
			e2.Set("count", count, nil)
			b.Eq("B-C14 formula", name+"/goal-step", a.W.InstrPos(call), gnext, e2, "goal-count")
			// the walk visits the bins from the first one, one at a time
			bi, bn := fc.Recurrence(binIdx)
			b.EqRF("B-C14 formula", name+"/walk-first-bin", a.W.InstrPos(call), bi, X.S.Int(0), "the walk starts in bin 0")
			b.EqRF("B-C14 formula", name+"/walk-next-bin", a.W.InstrPos(call), bn, binIdx.Add(X.S.Int(1)), "the walk moves to the next bin")
			// the rank carried into the walk over the bins must be the rank among the BINNED samples:
			// uint(total*q) minus the under count (the under-flow samples are the smallest ones, and the
			// bins' counts are accumulated from the first bin). Without the subtraction the walk lands in a
			// later bin than the one holding the sample, or runs off the end.
			under := e2.MustParse("hist.Counts()#0")
			at := ginit.SingleAtom()
			if sum := ginit.Add(under).SingleAtom(); sum != nil && sum.Name == "toint" {
				at = sum
				r.OK("B-C14 formula", name+"/walk-start", b.pos(fn), "the walk starts at uint(total*q) - under: the rank among the binned samples")
			} else if at != nil && at.Name == "toint" {
				r.Fail("B-C14 formula", name+"/walk-start[code: walk starts at uint(total*q), under count compared but not subtracted]", b.pos(fn),
					"the rank walked over the bins is uint(total*q), not uint(total*q) - under: with a non-zero under count the value returned is not in the bin holding that sample (NewLinearHist(0,10,10) with -1,-1,0.5,0.6,5.5: q=0.7 panics \"goal count not reached\" instead of returning a value in bin 0)")
			} else {
				r.Fail("B-C14 formula", name+"/walk-start", b.pos(fn), "the rank walked over the bins is neither uint(total*q) - under nor uint(total*q): "+clip(ginit.String(), 200))
				return
			}
			if at == nil || at.Name != "toint" {
				r.Fail("B-C14 formula", name+"/goal-init", b.pos(fn), "goal is not initialised as uint(total*q): "+clip(ginit.String(), 200))
				return
			}
			total := at.Args[0].Div(e2.Vars["q"].RF)
			tinit, tnext := fc.Recurrence(total)
			e2.Set("total", total, nil)
			b.Eq("B-C14 formula", name+"/total-init", b.pos(fn), tinit, e2, "hist.Counts()#0+hist.Counts()#2")
			ti := FindFn(tnext, "idx")
			if len(ti) == 1 {
				e2.Set("c", X.S.atomRF(ti[0].ID), nil)
				b.Eq("B-C14 formula", name+"/total-step", b.pos(fn), tnext, e2, "total+c")
				b.Eq("B-C14 formula", name+"/total-source", b.pos(fn), ti[0].Args[0], e2, "hist.Counts()#1")
				b.FullScan("B-C14 formula", name+"/total-coverage", b.pos(fn), fc, ti[0].Args[1], X.S.MakeFn("len", ti[0].Args[0]))
			} else {
				r.Fail("B-C14 formula", name+"/total-step", b.pos(fn), "total is not accumulated over the bin counts")
			}
			// NaN for a rank in the under- or over-flow, a value otherwise. The exact edges
			// (rank == under, rank == total-over) are the convention left undecided (Undec); what is
			// decided is everything off the edges: rank < under ⇒ NaN, rank > total-over ⇒ NaN,
			// under < rank < total-over ⇒ not NaN.
			func() {
				S := X.S
				nan := S.False()
				nNaN := 0
				for _, rt := range fc.Ctx.Returns() {
					if len(rt.Results) != 1 {
						continue
					}
					if va := fc.Val(rt.Results[0]).SingleAtom(); va == nil || va.Name != "math.NaN" {
						continue
					}
					nNaN++
					nan = S.Or(nan, fc.ReachCondFrom(fc.Ctx.LoopFreeRegionStart(rt.Block()), rt.Block()))
				}
				G := S.atomRF(at.ID)
				W := total.Sub(e2.MustParse("hist.Counts()#2"))
				cn := name + "/NaN-when"
				if nNaN == 0 {
					r.Fail("B-C14 formula", cn, b.pos(fn), "no NaN result for ranks in the under- or over-flow")
					return
				}
				bad := ""
				if X.EvalCond(nan, []Assumption{{Cond: S.Cmp("<", G, under), True: true}}) != True {
					bad = "a rank below the under count does not give NaN"
				} else if X.EvalCond(nan, []Assumption{{Cond: S.Cmp("<", W, G), True: true}}) != True {
					bad = "a rank above total-over does not give NaN"
				} else if X.EvalCond(nan, []Assumption{{Cond: S.Cmp("<", under, G), True: true}, {Cond: S.Cmp("<", G, W), True: true}}) != False {
					bad = "a rank strictly inside the binned range can give NaN"
				}
				if bad != "" {
					r.Fail("B-C14 formula", cn, b.pos(fn), bad+": NaN is returned when "+clip(nan.String(), 200))
				} else {
					r.OK("B-C14 formula", cn, b.pos(fn), "rank < under ⇒ NaN, rank > total-over ⇒ NaN, under < rank < total-over ⇒ a value")
				}
			}()
		})
	}
	a.CheckNoMutation(r, "A-1 no-mutation", a.W.Fn("stats.HistogramQuantile"), nil)
}

func hasAtomPrefix(r *RF, p string) bool {
	for _, a := range r.Atoms(true) {
		if strings.HasPrefix(a.Name, p) {
			return true
		}
	}
	return false
}

func itoa(i int) string { return fmt.Sprint(i) }

// c14BinOf returns the bin index a histogram's Add computes for its argument, with the receiver
// and argument it is expressed in: the value of the type's bin helper when it has one, otherwise
// the integer Add itself compares with 0 (the helper written out in Add).
func c14BinOf(b *B, t types.Type, add *ssa.Function) (bin, recv, x *RF) {
	X := b.X
	if binFn := b.methodOf(t, "bin"); binFn != nil {
		return X.CallFn(binFn, []*RF{X.ParamRF(add, 0), X.ParamRF(add, 1)}), X.ParamRF(add, 0), X.ParamRF(add, 1)
	}
	fc := X.FCFor(add)
	var found ssa.Value
	n := 0
	fc.Ctx.Instrs(func(in ssa.Instruction) {
		iff, ok := in.(*ssa.If)
		if !ok {
			return
		}
		bo, ok := iff.Cond.(*ssa.BinOp)
		if !ok {
			return
		}
		c, ok := bo.Y.(*ssa.Const)
		if !ok || c.Value == nil || c.Int64() != 0 {
			return
		}
		if bt, ok := bo.X.Type().Underlying().(*types.Basic); !ok || bt.Kind() != types.Int {
			return
		}
		switch bo.Op {
		case token.LSS, token.GEQ:
			if found != bo.X {
				found = bo.X
				n++
			}
		}
	})
	if n != 1 {
		return nil, nil, nil
	}
	return fc.Val(found), X.ParamRF(add, 0), X.ParamRF(add, 1)
}
