package main

// Helpers for engine-B obligations: anchors by role, comparison with specs.

import (
	"fmt"
	"go/types"
	"math/big"
	"os"
	"sort"
	"strconv"
	"strings"
	"time"

	"golang.org/x/tools/go/ssa"
)

type B struct {
	A *Analysis
	R *Registry
	X *Extractor
	// earlyExitsOK: FullScan is asked about a search loop — every index is visited unless the
	// loop is left from inside an iteration (the caller decides what those exits mean)
	earlyExitsOK bool
	// rotated: set by loopGuard when the loop's bound test sits at the bottom (the condition it
	// returns is then about the NEXT iteration, at this iteration's values)
	rotated bool
}

func NewB(a *Analysis, r *Registry) *B {
	return &B{A: a, R: r, X: NewExtractor(a.W, a.Eff)}
}

// Fn looks a function up; a missing anchor is an undecided obligation.
func (b *B) Fn(rule, name string) *ssa.Function {
	fn := b.A.W.Fn(name)
	if fn == nil {
		b.R.Undecided(rule, name, "", "anchor function "+name+" not found in the library")
	}
	return fn
}

func (b *B) pos(fn *ssa.Function) string { return b.A.W.Pos(fn.Pos()) }

// guard runs f, turning spec/anchor panics into undecided obligations.
func (b *B) guard(rule, construct string, f func()) {
	defer func() {
		if r := recover(); r != nil {
			switch e := r.(type) {
			case specErr:
				b.R.Undecided(rule, construct, "", "spec/anchor: "+string(e))
			case anchorErr:
				b.R.Undecided(rule, construct, "", "anchor: "+string(e))
			default:
				panic(r)
			}
		}
	}()
	f()
}

type anchorErr string

func anchorFail(f string, a ...interface{}) { panic(anchorErr(fmt.Sprintf(f, a...))) }

func hasOpaque(r *RF) string {
	for _, a := range r.Atoms(true) {
		if strings.HasPrefix(a.Name, "opaque:") || strings.HasPrefix(a.Name, "cyc:") || a.Name == "deadphi" || a.Name == "entry?" {
			return a.Name
		}
	}
	return ""
}

// Eq: the anchored value must equal the spec (as rational functions over the atoms).
func (b *B) Eq(rule, construct, where string, got *RF, env *SpecEnv, spec string) bool {
	ok := false
	b.guard(rule, construct, func() {
		want := env.MustParse(spec)
		if o := hasOpaque(got); o != "" {
			b.R.Undecided(rule, construct, where, "extracted value contains an unanalysed part: "+o)
			return
		}
		if got.Equal(want) || b.X.S.BoolEquiv(got, want) || b.X.EquivByCases(got, want, 0) {
			b.R.OK(rule, construct, where, "≡ "+spec)
			ok = true
		} else if g2, w2 := b.X.ExpandCalls(got), b.X.ExpandCalls(want); !(g2.Equal(got) && w2.Equal(want)) && (g2.Equal(w2) || b.X.EquivByCases(g2, w2, 0)) {
			if os.Getenv("GMSA_DEBUG_EXPAND") != "" {
				fmt.Fprintf(os.Stderr, "EXPAND %s\n  g2=%s\n  w2=%s\n", construct, clip(g2.String(), 1500), clip(w2.String(), 1500))
			}
			// helpers kept as applications replaced by their gated result
			b.R.OK(rule, construct, where, "≡ "+spec)
			ok = true
		} else {
			b.R.Fail(rule, construct, where, fmt.Sprintf("code computes %s ; the stated formula is %s = %s", clip(got.String(), 600), spec, clip(want.String(), 600)))
		}
	})
	return ok
}

// EqRF compares two extracted values.
func (b *B) EqRF(rule, construct, where string, got, want *RF, what string) bool {
	if o := hasOpaque(got); o != "" {
		b.R.Undecided(rule, construct, where, "extracted value contains an unanalysed part: "+o)
		return false
	}
	if got.Equal(want) || b.X.EquivByCases(got, want, 0) {
		b.R.OK(rule, construct, where, what)
		return true
	}
	// second attempt: helpers kept as applications replaced by their gated result
	if g2, w2 := b.X.ExpandCalls(got), b.X.ExpandCalls(want); !(g2.Equal(got) && w2.Equal(want)) {
		if g2.Equal(w2) || b.X.EquivByCases(g2, w2, 0) {
			b.R.OK(rule, construct, where, what)
			return true
		}
	}
	b.R.Fail(rule, construct, where, fmt.Sprintf("%s: got %s ; want %s", what, clip(got.String(), 600), clip(want.String(), 600)))
	return false
}

func clip(s string, n int) string {
	if os.Getenv("GMSA_FULL") != "" {
		return s
	}
	if len(s) > n {
		return s[:n] + "…"
	}
	return s
}

// ---- anchors ----

// RetVal: result i of the function under the context's assumptions. With
// several reachable returns the gated value over the acyclic CFG is used.
func (fc *FC) RetVal(i int) *RF {
	rets := fc.Ctx.Returns()
	if len(rets) == 0 {
		anchorFail("%s: no reachable return", fc.X.W.FuncName(fc.Fn))
	}
	if len(rets) == 1 {
		if i >= len(rets[0].Results) {
			anchorFail("%s: no result %d", fc.X.W.FuncName(fc.Fn), i)
		}
		return fc.Val(rets[0].Results[i])
	}
	// all equal?
	first := fc.Val(rets[0].Results[i])
	same := true
	for _, r := range rets[1:] {
		if !fc.Val(r.Results[i]).Equal(first) {
			same = false
		}
	}
	if same {
		return first
	}
	{
		if r := fc.retVal(fc.Fn.Blocks[0], 0); r != nil {
			if at := r.SingleAtom(); at != nil && at.Name == "tuple" && i < len(at.Args) {
				return at.Args[i]
			}
			if i == 0 {
				return r
			}
		}
	}
	anchorFail("%s: %d reachable returns with different values for result %d (add assumptions)", fc.X.W.FuncName(fc.Fn), len(rets), i)
	return nil
}

// calleeName: short name of a static callee, "invoke:M" for interface calls,
// "builtin:x" for builtins, "" otherwise.
func (fc *FC) calleeName(c ssa.CallInstruction) string {
	cm := c.Common()
	if cm.IsInvoke() {
		return "invoke:" + cm.Method.Name()
	}
	if b, ok := cm.Value.(*ssa.Builtin); ok {
		return "builtin:" + b.Name()
	}
	if f := cm.StaticCallee(); f != nil {
		return canonCallee(fc.X.W.FuncName(f))
	}
	return ""
}

// canonCallee: the ascending sorts of package slices (Go 1.21) under the names of the
// package sort functions they replace (same order, NaNs first).
func canonCallee(n string) string {
	if strings.HasPrefix(n, "slices.IsSorted[") && strings.Contains(n, "float64") {
		return "sort.Float64sAreSorted"
	}
	if strings.HasPrefix(n, "slices.Sort[") {
		switch {
		case strings.Contains(n, "float64"):
			return "sort.Float64s"
		case strings.Contains(n, "[]int,") || strings.HasSuffix(n, "int]"):
			return "sort.Ints"
		}
	}
	return n
}

// CallsTo lists reachable calls whose callee short name equals name
// (e.g. "stats.newTTestResult", "math.Sqrt", "invoke:Weight", "stats.(UDist).CDF").
func (fc *FC) CallsTo(name string) []*ssa.Call {
	var out []*ssa.Call
	fc.Ctx.Instrs(func(in ssa.Instruction) {
		if c, ok := in.(*ssa.Call); ok && fc.calleeName(c) == name {
			out = append(out, c)
		}
	})
	return out
}

func (fc *FC) TheCallTo(name string) *ssa.Call {
	cs := fc.CallsTo(name)
	if len(cs) != 1 {
		anchorFail("%s: expected exactly one reachable call to %s, found %d", fc.X.W.FuncName(fc.Fn), name, len(cs))
	}
	return cs[0]
}

// StoresToField: reachable stores to field `field` of the struct pointed to by
// parameter idx (or of any Alloc of that struct type when idx < 0).
func (fc *FC) StoresToField(idx int, field string) []*ssa.Store {
	var out []*ssa.Store
	fc.Ctx.Instrs(func(in ssa.Instruction) {
		st, ok := in.(*ssa.Store)
		if !ok {
			return
		}
		fa, ok := st.Addr.(*ssa.FieldAddr)
		if !ok {
			return
		}
		str := fa.X.Type().Underlying().(*types.Pointer).Elem().Underlying().(*types.Struct)
		if str.Field(fa.Field).Name() != field {
			return
		}
		if idx >= 0 {
			if p, ok := fa.X.(*ssa.Parameter); !ok || idx >= len(fc.Fn.Params) || fc.Fn.Params[idx] != p {
				return
			}
		}
		out = append(out, st)
	})
	return out
}

// LitField: the value stored to `field` of the composite literal of struct
// type typeName built in this function (unique reachable store).
func (fc *FC) LitField(typeName, field string) *RF {
	// the value the field has when the (unique) struct of that type built here
	// is handed on — returned, loaded as a whole, or passed to a call: covers
	// positional and keyed literals (omitted fields are zero), new(T) followed
	// by assignments, and fields assigned after the literal
	var allocs []*ssa.Alloc
	fc.Ctx.Instrs(func(in ssa.Instruction) {
		if al, ok := in.(*ssa.Alloc); ok {
			if fc.X.typeName(al.Type().Underlying().(*types.Pointer).Elem()) == typeName {
				allocs = append(allocs, al)
			}
		}
	})
	if len(allocs) == 1 {
		al := allocs[0]
		pt := al.Type().Underlying().(*types.Pointer).Elem()
		if st, ok := pt.Underlying().(*types.Struct); ok {
			fi := -1
			for i := 0; i < st.NumFields(); i++ {
				if st.Field(i).Name() == field {
					fi = i
				}
			}
			var pts []ssa.Instruction
			for _, rt := range fc.Ctx.Returns() {
				for _, res := range rt.Results {
					if res == al {
						pts = append(pts, rt)
					}
				}
			}
			if len(pts) == 0 && al.Referrers() != nil {
				for _, ref := range *al.Referrers() {
					switch u := ref.(type) {
					case *ssa.UnOp:
						if u.X == al {
							pts = append(pts, u)
						}
					case *ssa.Call:
						pts = append(pts, u)
					case *ssa.MakeInterface:
						pts = append(pts, u)
					}
				}
			}
			if fi >= 0 && len(pts) > 0 {
				var v *RF
				same := true
				for _, at := range pts {
					if !fc.Ctx.Reach[at.Block().Index] {
						continue
					}
					cv := fc.cellValue(cellKey{al, fi}, pt, at)
					if v != nil && !v.Equal(cv) {
						same = false
					}
					v = cv
				}
				if v != nil && same {
					return v
				}
			}
		}
	}
	var found []*ssa.Store
	fc.Ctx.Instrs(func(in ssa.Instruction) {
		st, ok := in.(*ssa.Store)
		if !ok {
			return
		}
		fa, ok := st.Addr.(*ssa.FieldAddr)
		if !ok {
			return
		}
		if _, isAlloc := fa.X.(*ssa.Alloc); !isAlloc {
			return
		}
		pt := fa.X.Type().Underlying().(*types.Pointer).Elem()
		if fc.X.typeName(pt) != typeName {
			return
		}
		if pt.Underlying().(*types.Struct).Field(fa.Field).Name() == field {
			found = append(found, st)
		}
	})
	if len(found) != 1 {
		anchorFail("%s: expected one store to %s.%s of a literal, found %d", fc.X.W.FuncName(fc.Fn), typeName, field, len(found))
	}
	return fc.Val(found[0].Val)
}

// Recurrence: r must be a loop-header phi atom; returns its initial value and
// the value carried by the back edge(s).
func (fc *FC) Recurrence(r *RF) (init, next *RF) {
	at := r.SingleAtom()
	if at != nil {
		if mp, isMem := fc.X.memphiOf[at.ID]; isMem {
			return mp.fc.memRecurrence(mp, at.Name)
		}
	}
	if _, isPhi := fc.X.phiOf[atomIDOf(at)]; at == nil || !isPhi {
		// an expression over one loop-carried quantity and loop-invariant values (a counter
		// plus an offset, a running sum plus the terms added after the loop): its value in the
		// first and in the next iteration follow from that quantity's
		// (the arguments of a bound helper's loop atom identify the instance: they are not
		// themselves quantities carried by this expression)
		var carried []*Atom
		seenC := map[AtomID]bool{}
		var walk func(v *RF)
		walk = func(v *RF) {
			for _, a := range v.Atoms(false) {
				if seenC[a.ID] {
					continue
				}
				seenC[a.ID] = true
				if _, ok := fc.X.phiOf[a.ID]; ok {
					carried = append(carried, a)
					continue
				}
				if _, ok := fc.X.memphiOf[a.ID]; ok {
					carried = append(carried, a)
					continue
				}
				for _, ar := range a.Args {
					walk(ar)
				}
			}
		}
		walk(r)
		if len(carried) > 1 {
			// quantities carried by an earlier or an enclosing loop are fixed while the latest,
			// innermost loop runs: the recurrence is the one of that loop's quantity — provided
			// there is exactly one whose loop header every other one's header dominates
			hdrOf := func(a *Atom) *ssa.BasicBlock {
				if ph, ok := fc.X.phiOf[a.ID]; ok && fc.X.phiFC[a.ID] == fc {
					return ph.Block()
				}
				return nil
			}
			var last []*Atom
			for _, c := range carried {
				hc := hdrOf(c)
				if hc == nil {
					last = nil
					break
				}
				isLast := true
				for _, o := range carried {
					ho := hdrOf(o)
					if o == c {
						continue
					}
					if ho == nil || ho == hc || !fc.Ctx.Dominates(ho, hc) {
						isLast = false
					}
				}
				if isLast {
					last = append(last, c)
				}
			}
			if len(last) == 1 {
				carried = last
			}
		}
		if len(carried) != 1 {
			anchorFail("not a loop-carried value: %s", clip(r.String(), 200))
		}
		ci, cn := fc.Recurrence(fc.X.S.atomRF(carried[0].ID))
		return r.Subst(map[AtomID]*RF{carried[0].ID: ci}), r.Subst(map[AtomID]*RF{carried[0].ID: cn})
	}
	p := fc.X.phiOf[at.ID]
	pfc := fc.X.phiFC[at.ID]
	vals, preds := pfc.Ctx.PhiLiveEdges(p)
	conflict := false
	initBy := map[int]*RF{}
	initConflict := false
	for i, v := range vals {
		rv := pfc.Val(v)
		if pfc.Ctx.Dominates(p.Block(), preds[i]) {
			if next != nil && !next.Equal(rv) {
				conflict = true
			}
			next = rv
		} else {
			if init != nil && !init.Equal(rv) {
				initConflict = true
			}
			init = rv
			initBy[preds[i].Index] = rv
		}
	}
	if initConflict {
		// the loop is entered along several edges carrying different values (branches that
		// run straight into the header): the initial value is their gated merge
		init = pfc.mergeAt(p.Block(), func(pb *ssa.BasicBlock) *RF { return initBy[pb.Index] })
		if init == nil {
			anchorFail("several different initial values for %s", at.Name)
		}
	}
	if conflict {
		next = pfc.backEdgeValue(p)
		if next == nil {
			anchorFail("several different back-edge values for %s and no gating function", at.Name)
		}
	}
	if init == nil || next == nil {
		anchorFail("%s is not a loop-header phi", at.Name)
	}
	return
}

func atomIDOf(a *Atom) AtomID {
	if a == nil {
		return -1
	}
	return a.ID
}

func sameLoop(a, b *Loop) bool {
	if a == nil || b == nil {
		return a == nil && b == nil
	}
	return a.Header == b.Header
}

// backEdgeValue: gated value carried around the loop into header phi p when
// several latches carry different values. Inner loops are stepped over
// through their single exit.
func (fc *FC) backEdgeValue(p *ssa.Phi) *RF {
	h := p.Block()
	edgeVal := map[int]*RF{}
	vals, preds := fc.Ctx.PhiLiveEdges(p)
	for i, pr := range preds {
		if fc.Ctx.Dominates(h, pr) {
			edgeVal[pr.Index] = fc.Val(vals[i])
		}
	}
	return fc.backEdgeGated(h, edgeVal)
}

// backEdgeGated: gated value carried around the loop headed by h, given the
// value carried by each latch (keyed by block index).
func (fc *FC) backEdgeGated(h *ssa.BasicBlock, edgeVal map[int]*RF) *RF {
	s := fc.X.S
	var loop *Loop
	for _, l := range fc.Ctx.Loops() {
		if l.Header == h {
			loop = l
		}
	}
	if loop == nil {
		return nil
	}
	inner := map[int]*Loop{}
	for _, l := range fc.Ctx.Loops() {
		if l.Header != h && loop.Body[l.Header.Index] {
			inner[l.Header.Index] = l
		}
	}
	memo := map[int]*RF{}
	visiting := map[int]bool{}
	fail := false
	var V func(b *ssa.BasicBlock) *RF
	step := func(b *ssa.BasicBlock, k int) *RF {
		succ := b.Succs[k]
		if succ == h {
			return edgeVal[b.Index]
		}
		if !loop.Body[succ.Index] {
			return s.Bottom()
		}
		return V(succ)
	}
	V = func(b *ssa.BasicBlock) *RF {
		if r, ok := memo[b.Index]; ok {
			return r
		}
		if visiting[b.Index] {
			fail = true
			return s.Bottom()
		}
		visiting[b.Index] = true
		defer delete(visiting, b.Index)
		var r *RF
		if il, ok := inner[b.Index]; ok && b != h {
			// step over the inner loop through its single exit target
			exits := map[int]*ssa.BasicBlock{}
			for bi := range il.Body {
				for _, sc := range fc.Ctx.LiveSuccs(fc.Fn.Blocks[bi]) {
					if !il.Body[sc.Index] {
						exits[sc.Index] = sc
					}
				}
			}
			if len(exits) != 1 {
				fail = true
				return s.Bottom()
			}
			for _, e := range exits {
				if e == h || !loop.Body[e.Index] {
					fail = true
					return s.Bottom()
				}
				r = V(e)
			}
			memo[b.Index] = r
			return r
		}
		switch t := b.Instrs[len(b.Instrs)-1].(type) {
		case *ssa.Jump:
			r = step(b, 0)
		case *ssa.If:
			var tv, fv *RF
			if fc.Ctx.EdgeLive(b, 0) {
				tv = step(b, 0)
			}
			if fc.Ctx.EdgeLive(b, 1) {
				fv = step(b, 1)
			}
			switch {
			case tv == nil || s.isBottom(tv):
				r = fv
			case fv == nil || s.isBottom(fv):
				r = tv
			default:
				r = s.Ite(fc.Val(t.Cond), tv, fv)
			}
			if r == nil {
				r = s.Bottom()
			}
		default:
			r = s.Bottom()
		}
		memo[b.Index] = r
		return r
	}
	r := V(h)
	if fail || r == nil || s.isBottom(r) {
		return nil
	}
	return r
}

// FindFn: atoms named `name` occurring (deeply) in r.
func FindFn(r *RF, name string) []*Atom {
	var out []*Atom
	for _, a := range r.Atoms(true) {
		if a.Name == name {
			out = append(out, a)
		}
	}
	return out
}

// Assume helpers
func (x *Extractor) AssumeEq(atom, val *RF) Assumption { return Assumption{Atom: atom, Val: val} }
func (x *Extractor) AssumeCond(c *RF, truth bool) Assumption {
	return Assumption{Cond: c, True: truth}
}

// ---- reaching conditions (control-shape, engine C) ----

// edgeCond: condition under which control goes from p to b.
func (fc *FC) edgeCond(p, b *ssa.BasicBlock) *RF {
	s := fc.X.S
	ifi, ok := p.Instrs[len(p.Instrs)-1].(*ssa.If)
	if !ok {
		return s.True()
	}
	c := fc.Val(ifi.Cond)
	t, f := p.Succs[0] == b && fc.Ctx.EdgeLive(p, 0), p.Succs[1] == b && fc.Ctx.EdgeLive(p, 1)
	switch {
	case t && f:
		return s.True()
	case t:
		if !fc.Ctx.EdgeLive(p, 1) {
			return s.True() // the condition is decided by the context's assumptions
		}
		return c
	case f:
		if !fc.Ctx.EdgeLive(p, 0) {
			return s.True()
		}
		return s.Not(c)
	}
	return s.False()
}

// ReachCond: the condition (over values computed in the loop-free prefix of
// the function) under which block b is reached. Fails when b is inside or
// after a loop.
func (fc *FC) ReachCond(b *ssa.BasicBlock) *RF { return fc.ReachCondFrom(fc.Fn.Blocks[0], b) }

// ReachCondFrom: condition under which control, being at `start` (which must
// dominate b), reaches b; the region in between must be loop-free.
func (fc *FC) ReachCondFrom(start, b *ssa.BasicBlock) *RF {
	memo := map[int]*RF{}
	inLoop := map[int]bool{}
	for _, l := range fc.Ctx.Loops() {
		for i := range l.Body {
			inLoop[i] = true
		}
	}
	var rc func(b *ssa.BasicBlock, depth int) *RF
	rc = func(b *ssa.BasicBlock, depth int) *RF {
		if r, ok := memo[b.Index]; ok {
			return r
		}
		if depth > 200 {
			anchorFail("reach condition too deep")
		}
		if b == start {
			return fc.X.S.True()
		}
		if b.Index == 0 {
			return fc.X.S.False()
		}
		if inLoop[b.Index] && !(inLoop[start.Index] && sameLoop(fc.Ctx.LoopOf(b), fc.Ctx.LoopOf(start))) {
			anchorFail("%s: block %d is inside a loop; no loop-free reach condition", fc.X.W.FuncName(fc.Fn), b.Index)
		}
		acc := fc.X.S.False()
		for _, p := range fc.Ctx.LivePreds(b) {
			if !fc.Ctx.Dominates(start, p) {
				continue
			}
			if inLoop[p.Index] && p != start && !(inLoop[start.Index] && sameLoop(fc.Ctx.LoopOf(p), fc.Ctx.LoopOf(start))) {
				anchorFail("%s: block %d is reached from a loop", fc.X.W.FuncName(fc.Fn), b.Index)
			}
			if fc.Ctx.Dominates(b, p) {
				continue // back edge
			}
			acc = fc.X.S.Or(acc, fc.X.S.And(rc(p, depth+1), fc.edgeCond(p, b)))
		}
		memo[b.Index] = acc
		return acc
	}
	return rc(b, 0)
}

// ReturnCond: disjunction of the reach conditions of the return blocks
// selected by match.
func (fc *FC) ReturnCond(match func(r *ssa.Return) bool) (*RF, int) {
	acc := fc.X.S.False()
	n := 0
	for _, r := range fc.Ctx.Returns() {
		if match(r) {
			n++
			acc = fc.X.S.Or(acc, fc.ReachCond(r.Block()))
		}
	}
	return acc, n
}

// CanonIV: r with every derived induction variable of i's loop written in
// terms of i: a loop-carried quantity c that starts at c0 and is advanced by a
// loop-invariant amount dc once per iteration, next to a counter i that starts
// at i0 and is advanced by one, is c0 + dc*(i - i0).
func (fc *FC) CanonIV(r, i *RF) *RF {
	s := fc.X.S
	var ip *ssa.Phi
	var ipa *Atom
	for _, at := range i.Atoms(true) {
		if ph, ok := fc.X.phiOf[at.ID]; ok && fc.X.phiFC[at.ID].isHeaderPhi(ph) {
			ip, ipa = ph, at
		}
	}
	if ip == nil {
		return r
	}
	pfc := fc.X.phiFC[ipa.ID]
	ii, in := recurrenceOrNil(pfc, i)
	if ii == nil || !in.Sub(i).Equal(s.Int(1)) {
		return r
	}
	sub := map[AtomID]*RF{}
	for _, instr := range ip.Block().Instrs {
		ph, ok := instr.(*ssa.Phi)
		if !ok {
			break
		}
		if ph == ip || !isIntType(ph.Type()) {
			continue
		}
		c := pfc.Val(ph)
		ca := c.SingleAtom()
		if ca == nil || fc.X.phiOf[ca.ID] != ph {
			continue
		}
		ci, cn := recurrenceOrNil(pfc, c)
		if ci == nil {
			continue
		}
		dc := cn.Sub(c)
		if len(pfc.loopPhis(dc)) > 0 || hasAtomPrefix(dc, "memphi") {
			continue
		}
		sub[ca.ID] = ci.Add(dc.Mul(i.Sub(ii)))
	}
	if len(sub) == 0 {
		return r
	}
	return r.Subst(sub)
}

// ExitEdge: one way out of a loop, with the condition (at the iteration's
// loop-carried values) under which the iteration takes it.
type ExitEdge struct {
	From, To *ssa.BasicBlock
	Cond     *RF
}

// ExitEdges: the live edges leaving the loop headed by hdr.
func (fc *FC) ExitEdges(hdr *ssa.BasicBlock) []ExitEdge {
	var l *Loop
	for _, ll := range fc.Ctx.Loops() {
		if ll.Header == hdr {
			l = ll
		}
	}
	if l == nil {
		anchorFail("no loop headed by block %d of %s", hdr.Index, fc.X.W.FuncName(fc.Fn))
	}
	var idxs []int
	for bi := range l.Body {
		idxs = append(idxs, bi)
	}
	sort.Ints(idxs)
	var out []ExitEdge
	for _, bi := range idxs {
		blk := fc.Fn.Blocks[bi]
		for _, sc := range fc.Ctx.LiveSuccs(blk) {
			if l.Body[sc.Index] {
				continue
			}
			out = append(out, ExitEdge{blk, sc, fc.X.S.And(fc.ReachCondFrom(hdr, blk), fc.edgeCond(blk, sc))})
		}
	}
	return out
}

// FirstHit: the shape of a search loop — "the first index, from `first`
// upwards, at which hit(e) holds, or `miss` when the indices below n are
// exhausted".
type FirstHit struct {
	Base  *RF             // the sequence whose elements the test reads
	First *RF             // first index examined
	N     *RF             // indices run up to N-1
	Hit   func(e *RF) *RF // the test at index e
	Val   func(e *RF) *RF // value returned when the test holds at e
	Miss  *RF             // value returned when no index qualifies
	Down  bool            // the search runs from First downwards and is exhausted when e < Low
	Low   *RF
	Pair  int // the test reads two adjacent elements: e and e+Pair (±1)
	// Peeled: the search proper starts with the loop's SECOND iteration (the first one handles a
	// special first element and is decided separately): First is the index of that iteration, and
	// Aux gives the loop-carried quantities that are constant from then on (their constant value)
	Peeled bool
	Aux    map[AtomID]*RF
}

// FirstHitScan decides that the loop headed by hdr in fc is the search sp,
// however it is written (early return, break, flag; index or range loop;
// range over a sub-slice): the index e read by the loop's tests starts at
// First and advances by one; the loop goes round again only when the test
// fails at e; and every way out of the loop either has the test holding at e
// and leads to Val(e), or has e >= N and leads to Miss.
func (b *B) FirstHitScan(rule, construct, where string, fc *FC, hdr *ssa.BasicBlock, sp FirstHit) bool {
	s, X, r := b.X.S, b.X, b.R
	var l *Loop
	for _, ll := range fc.Ctx.Loops() {
		if ll.Header == hdr {
			l = ll
		}
	}
	exits := fc.ExitEdges(hdr)
	cont := fc.ContinueCond(hdr)
	if len(sp.Aux) > 0 {
		cont = cont.Subst(sp.Aux)
		for i := range exits {
			exits[i].Cond = exits[i].Cond.Subst(sp.Aux)
		}
	}
	// the index read by the tests
	var e *RF
	var cands []*RF
	for _, src := range append([]*RF{cont}, func() []*RF {
		var cs []*RF
		for _, ee := range exits {
			cs = append(cs, ee.Cond)
		}
		return cs
	}()...) {
		for _, at := range FindFn(src, "idx") {
			if !at.Args[0].Equal(sp.Base) || len(fc.loopPhis(at.Args[1])) == 0 {
				continue
			}
			dup := false
			for _, c := range cands {
				if c.Equal(at.Args[1]) {
					dup = true
				}
			}
			if !dup {
				cands = append(cands, at.Args[1])
			}
		}
	}
	switch {
	case len(cands) == 1 && sp.Pair == 0:
		e = cands[0]
	case len(cands) == 2 && sp.Pair != 0:
		lo, hi := cands[0], cands[1]
		if lo.Sub(hi).Equal(s.Int(1)) {
			lo, hi = hi, lo
		}
		if !hi.Sub(lo).Equal(s.Int(1)) {
			r.Fail(rule, construct, where, "the two elements compared are not adjacent: "+clip(lo.String(), 60)+" and "+clip(hi.String(), 60))
			return false
		}
		if sp.Pair > 0 {
			e = lo
		} else {
			e = hi
		}
	case len(cands) > 1:
		r.Fail(rule, construct, where, "the loop tests elements at several indices: "+clip(cands[0].String(), 60)+" and "+clip(cands[1].String(), 60))
		return false
	}
	if e == nil {
		r.Fail(rule, construct, where, "the loop does not test the elements of "+clip(sp.Base.String(), 60))
		return false
	}
	ei, en := fc.Recurrence(e)
	if sp.Peeled {
		// the index of the second iteration: the next value with every counter at its start
		first := map[AtomID]*RF{}
		for _, in := range hdr.Instrs {
			ph, ok := in.(*ssa.Phi)
			if !ok {
				break
			}
			q := fc.Val(ph)
			if qa := q.SingleAtom(); qa != nil && X.phiOf[qa.ID] == ph {
				if qi, _ := recurrenceOrNil(fc, q); qi != nil {
					first[qa.ID] = qi
				}
			}
		}
		ei = en.Subst(first)
	}
	if !ei.Equal(sp.First) && !X.EquivByCases(ei, sp.First, 0) {
		r.Fail(rule, construct, where, "the first index examined is "+clip(ei.String(), 100)+", not "+clip(sp.First.String(), 100))
		return false
	}
	wantStep := s.Int(1)
	if sp.Down {
		wantStep = s.Int(-1)
	}
	if !en.Sub(e).Equal(wantStep) {
		r.Fail(rule, construct, where, "the index does not move by one in the stated direction: "+clip(en.String(), 100))
		return false
	}
	hit := sp.Hit(e)
	if X.EvalCond(hit, []Assumption{{Cond: cont, True: true}}) != False {
		r.Fail(rule, construct, where, "the loop can go on past an index at which the test holds: continues while "+clip(cont.String(), 200))
		return false
	}
	var exhausted *RF
	if sp.Down {
		exhausted = s.Cmp("<", e, sp.Low)
	} else {
		exhausted = s.Cmp("<=", sp.N, e)
	}
	// the search stays inside the sequence: it cannot go round again with the indices exhausted
	// (`e <= N` for `e < N` reads one element past the end)
	if sp.Pair == 0 && X.EvalCond(exhausted, []Assumption{{Cond: cont, True: true}}) != False {
		r.Fail(rule, construct, where, "the loop can go on with the indices exhausted (continues while "+clip(cont.String(), 160)+"): an element outside the sequence is read")
		return false
	}
	for _, ee := range exits {
		v := fc.gatedReturns(ee.To, 0, nil)
		if v == nil {
			r.Undecided(rule, construct, where, "the value returned after leaving the loop is not computable")
			return false
		}
		if s.isBottom(v) {
			continue // a panic: no value
		}
		v = fc.resolveAlongEdge(ee.From, ee.To, v)
		v = fc.resolveExitPhis(l, ee.To, v)
		if len(sp.Aux) > 0 {
			v = v.Subst(sp.Aux)
		}
		as := []Assumption{{Cond: ee.Cond, True: true}}
		switch {
		case X.EvalCond(hit, as) == True:
			if want := sp.Val(e); !(v.Equal(want) || X.EquivByCases(X.SimplifyUnder(v, as), X.SimplifyUnder(want, as), 0)) {
				r.Fail(rule, construct, where, "at a hit the result is "+clip(v.String(), 160)+", not "+clip(want.String(), 160))
				return false
			}
		case X.EvalCond(exhausted, as) == True:
			if !(v.Equal(sp.Miss) || X.SimplifyUnder(v, as).Equal(sp.Miss)) {
				r.Fail(rule, construct, where, "with the indices exhausted the result is "+clip(v.String(), 160)+", not "+clip(sp.Miss.String(), 60))
				return false
			}
		default:
			r.Fail(rule, construct, where, "the loop can be left while "+clip(ee.Cond.String(), 200)+": neither at a hit nor with the indices exhausted")
			return false
		}
	}
	r.OK(rule, construct, where, "searches e = "+clip(sp.First.String(), 60)+", … for the first hit; result at the hit / when exhausted as stated")
	return true
}

// LoopOutcome: one way a loop ends, as the condition (at the loop-carried
// values of the iteration that ends it) and the value the function then returns.
type LoopOutcome struct {
	Cond, Val *RF
}

// LoopOutcomes: the outcomes of the single loop l of fc. A way out from inside
// an iteration is an outcome as it stands. A loop driven by a latch flag
// (`for !done { … done = true … }`, left at the header) ends after the
// iteration that flips the flag: the outcome's condition is the flip condition
// in that iteration and its value is the returned value with every
// loop-carried quantity at the value that iteration leaves — quantities that
// stay unchanged as long as the loop goes on being at their initial values.
func (b *B) LoopOutcomes(fc *FC, l *Loop) ([]LoopOutcome, string) {
	s, X := b.X.S, b.X
	hdr := l.Header
	_, _, guard, msg := b.loopGuard(fc, hdr)
	if msg != "" {
		guard = map[int]bool{}
	}
	var flags []latch
	for _, lf := range fc.latchFlags(hdr) {
		flags = append(flags, lf)
	}
	var out []LoopOutcome
	for _, ee := range fc.ExitEdges(hdr) {
		v := fc.gatedReturns(ee.To, 0, nil)
		if v == nil {
			return nil, "the value returned after leaving the loop is not computable"
		}
		if s.isBottom(v) {
			continue
		}
		v = fc.resolveAlongEdge(ee.From, ee.To, v)
		v = fc.resolveExitPhis(l, ee.To, v)
		if !guard[ee.From.Index] || len(flags) == 0 {
			out = append(out, LoopOutcome{ee.Cond, v})
			continue
		}
		if len(flags) != 1 {
			return nil, "the loop is driven by several flags"
		}
		lf := flags[0]
		fid := lf.atom.SingleAtom().ID
		initV, flipped := s.True(), s.False()
		if !lf.init {
			initV, flipped = s.False(), s.True()
		}
		// the header exit must be exactly "the flag is flipped"
		if !X.SimplifyUnder(ee.Cond, []Assumption{{Cond: lf.atom, True: !lf.init}}).Equal(s.True()) ||
			!X.SimplifyUnder(ee.Cond, []Assumption{{Cond: lf.atom, True: lf.init}}).Equal(s.False()) {
			return nil, "the loop's guard tests more than its flag: " + clip(ee.Cond.String(), 120)
		}
		_ = flipped
		noflip := []Assumption{{Cond: lf.flip, True: false}, {Cond: lf.atom, True: lf.init}}
		nextSub := map[AtomID]*RF{}
		stable := map[AtomID]*RF{fid: initV}
		for _, in := range hdr.Instrs {
			ph, ok := in.(*ssa.Phi)
			if !ok {
				break
			}
			q := fc.Val(ph)
			qa := q.SingleAtom()
			if qa == nil || X.phiOf[qa.ID] != ph {
				continue
			}
			qi, qn := recurrenceOrNil(fc, q)
			if qi == nil {
				return nil, "a loop-carried value without a recurrence: " + qa.Name
			}
			nextSub[qa.ID] = qn
			if qa.ID != fid {
				rq := X.restrictNoFlip(qn, lf.flip, true, 0)
				if rq != nil && (X.SimplifyUnder(rq, noflip).Equal(q) || X.SimplifyUnder(qn, noflip).Equal(q)) {
					stable[qa.ID] = qi
				}
			}
		}
		val := v.Subst(nextSub).Subst(stable)
		cond := lf.flip.Subst(stable)
		out = append(out, LoopOutcome{cond, X.SimplifyUnder(val, []Assumption{{Cond: cond, True: true}})})
	}
	return out, ""
}

// SplitOutcome: an outcome whose value is a tuple with a boolean component
// given as a choice (ok = true on one branch, unchanged on the other) is split
// into one outcome per truth value of that component.
func (b *B) SplitOutcome(o LoopOutcome, comp int) []LoopOutcome {
	s, X := b.X.S, b.X
	at := o.Val.SingleAtom()
	if at == nil || at.Name != "tuple" || comp >= len(at.Args) {
		return []LoopOutcome{o}
	}
	c := at.Args[comp]
	if c.Equal(s.True()) || c.Equal(s.False()) {
		return []LoopOutcome{o}
	}
	var outs []LoopOutcome
	for _, truth := range []bool{true, false} {
		as := []Assumption{{Cond: c, True: truth}}
		cond := s.And(o.Cond, c)
		if !truth {
			cond = s.And(o.Cond, s.Not(c))
		}
		if cond.Equal(s.False()) {
			continue
		}
		args := make([]*RF, len(at.Args))
		for i, a := range at.Args {
			args[i] = X.SimplifyUnder(a, as)
		}
		if truth {
			args[comp] = s.True()
		} else {
			args[comp] = s.False()
		}
		outs = append(outs, LoopOutcome{cond, s.MakeFn("tuple", args...)})
	}
	return outs
}

// ContinueCond: the condition, within one iteration of the loop headed by hdr
// (at its loop-carried values), under which the iteration runs to a back edge,
// i.e. the loop goes round again.
func (fc *FC) ContinueCond(hdr *ssa.BasicBlock) *RF {
	s := fc.X.S
	cont := s.False()
	for _, p := range fc.Ctx.LivePreds(hdr) {
		if fc.Ctx.Dominates(hdr, p) {
			cont = s.Or(cont, s.And(fc.ReachCondFrom(hdr, p), fc.edgeCond(p, hdr)))
		}
	}
	return cont
}

// ResAlt: one alternative of a function result — the SSA value returned (or
// merged into the returned value along one edge) and the condition under
// which that alternative is the result.
type ResAlt struct {
	V    ssa.Value
	Cond *RF
	Ret  *ssa.Return
}

// ResultAlts: the alternatives of result i over every live return, with a
// result that is merged at a join (a named result assigned on several
// branches and returned once) split into one alternative per incoming edge.
// The function's relevant region must be loop-free (ReachCond's contract).
func (fc *FC) ResultAlts(i int) []ResAlt {
	s := fc.X.S
	var out []ResAlt
	var expand func(v ssa.Value, cond *RF, rt *ssa.Return, at *ssa.BasicBlock, depth int)
	expand = func(v ssa.Value, cond *RF, rt *ssa.Return, at *ssa.BasicBlock, depth int) {
		if ph, ok := v.(*ssa.Phi); ok && depth < 8 {
			vals, preds := fc.Ctx.PhiLiveEdges(ph)
			header := false
			for _, pr := range preds {
				if fc.Ctx.Dominates(ph.Block(), pr) {
					header = true
				}
			}
			if !header && (ph.Block() == at || fc.Ctx.Dominates(ph.Block(), at)) {
				onward := s.True()
				if ph.Block() != at {
					onward = fc.ReachCondFrom(ph.Block(), at)
				}
				for k, pv := range vals {
					c := s.And(s.And(fc.ReachCond(preds[k]), fc.edgeCond(preds[k], ph.Block())), onward)
					expand(pv, c, rt, preds[k], depth+1)
				}
				return
			}
		}
		out = append(out, ResAlt{v, cond, rt})
	}
	for _, rt := range fc.Ctx.Returns() {
		if i >= len(rt.Results) {
			continue
		}
		expand(rt.Results[i], fc.ReachCond(rt.Block()), rt, rt.Block(), 0)
	}
	return out
}

// returnsGlobal: result i of r is a load of the package-level variable name.
func returnsGlobal(r *ssa.Return, i int, name string) bool {
	if i >= len(r.Results) {
		return false
	}
	v := r.Results[i]
	if mi, ok := v.(*ssa.MakeInterface); ok {
		v = mi.X
	}
	u, ok := v.(*ssa.UnOp)
	if !ok {
		return false
	}
	g, ok := u.X.(*ssa.Global)
	return ok && g.Name() == name
}

// ErrGuard: the function returns the error variable errName exactly under
// the stated condition (decision-list semantics: spec is the full reach
// condition, typically "!(earlier) && this").
func (b *B) ErrGuard(rule string, fc *FC, env *SpecEnv, errName, spec string) {
	name := b.A.W.FuncName(fc.Fn)
	construct := name + "/" + errName
	b.guard(rule, construct, func() {
		nres := fc.Fn.Signature.Results().Len()
		got, n := fc.ReturnCond(func(r *ssa.Return) bool { return returnsGlobal(r, nres-1, errName) })
		if n == 0 {
			b.R.Fail(rule, construct, b.pos(fc.Fn), "no path returns "+errName+" (the documented error guard is missing)")
			return
		}
		b.Eq(rule, construct, b.pos(fc.Fn), got, env, spec)
	})
}

// FieldAtExit: value of field `field` of the struct pointed to by parameter
// idx when the function returns (unique reachable return under the context's
// assumptions), resolved through the stores that reach the return.
func (fc *FC) FieldAtExit(idx int, field string) *RF {
	rets := fc.Ctx.Returns()
	if len(rets) == 0 {
		anchorFail("%s: no reachable return", fc.X.W.FuncName(fc.Fn))
	}
	p := fc.Fn.Params[idx]
	pt, ok := p.Type().Underlying().(*types.Pointer)
	if !ok {
		anchorFail("parameter %d of %s is not a pointer", idx, fc.X.W.FuncName(fc.Fn))
	}
	st, ok := pt.Elem().Underlying().(*types.Struct)
	if !ok {
		anchorFail("parameter %d of %s does not point to a struct", idx, fc.X.W.FuncName(fc.Fn))
	}
	for i := 0; i < st.NumFields(); i++ {
		if st.Field(i).Name() == field {
			if len(rets) == 1 {
				return fc.Sub(fc.cellValue(cellKey{p, i}, pt.Elem(), rets[0]))
			}
			// several returns (an early `return` on one branch): the field's value at whichever
			// return is taken, gated over the branch conditions on the way
			i := i
			v := fc.gatedReturns(fc.Fn.Blocks[0], 0, func(rt *ssa.Return) *RF { return fc.cellValue(cellKey{p, i}, pt.Elem(), rt) })
			if v == nil {
				anchorFail("%s: %d reachable returns and no gated value for the field at exit", fc.X.W.FuncName(fc.Fn), len(rets))
			}
			return fc.Sub(v)
		}
	}
	anchorFail("no field %s", field)
	return nil
}

// Sub applies the context's assumptions to r: equalities are substituted and
// gating functions whose condition the assumptions decide are resolved (also
// inside inlined helpers, where CFG pruning of this function cannot reach).
func (fc *FC) Sub(r *RF) *RF {
	return fc.X.SimplifyUnder(r, fc.Assume)
}

func (x *Extractor) SimplifyUnder(r *RF, assume []Assumption) *RF {
	if len(assume) == 0 {
		return r
	}
	m := map[AtomID]*RF{}
	for _, a := range assume {
		if a.Atom != nil {
			if at := a.Atom.SingleAtom(); at != nil {
				m[at.ID] = a.Val
			}
		}
	}
	if len(m) > 0 {
		r = r.Subst(m)
	}
	return r.Rewrite(func(at *Atom, args []*RF) *RF {
		if at.Name == "ite" && len(args) == 3 {
			switch x.EvalCond(args[0], assume) {
			case True:
				return args[1]
			case False:
				return args[2]
			}
		}
		// an assumed atomic condition occurring inside a boolean structure
		switch at.Name {
		case "land", "lor", "not":
			// a boolean combination the assumptions decide as a whole
			switch x.EvalCond(x.S.MakeFn(at.Name, args...), assume) {
			case True:
				return x.S.True()
			case False:
				return x.S.False()
			}
			return nil
		case "ite", "true", "false":
			return nil
		}
		{
			self := x.S.Fn(at.Name, args...)
			if at.Kind == "var" {
				self = x.S.atomRF(at.ID)
			}
			if isCmpName(at.Name) {
				switch x.EvalCond(self, assume) {
				case True:
					return x.S.True()
				case False:
					return x.S.False()
				}
				return nil
			}
			for _, a := range assume {
				if a.Cond != nil && a.Cond.Equal(self) {
					if a.True {
						return x.S.True()
					}
					return x.S.False()
				}
			}
		}
		return nil
	})
}

// structFields lists the field names of the struct parameter idx points to.
func structFieldsOf(fn *ssa.Function, idx int) []string {
	t := fn.Params[idx].Type()
	if pt, ok := t.Underlying().(*types.Pointer); ok {
		t = pt.Elem()
	}
	st, ok := t.Underlying().(*types.Struct)
	if !ok {
		return nil
	}
	var out []string
	for i := 0; i < st.NumFields(); i++ {
		out = append(out, st.Field(i).Name())
	}
	return out
}

// Formula: result idx of fnName (under assumptions built by mk, may be nil) ≡ spec.
func (b *B) Formula(rule, construct, fnName string, names []string, lets [][2]string, idx int, spec string, mk func(env *SpecEnv) []Assumption) {
	fn := b.Fn(rule, fnName)
	if fn == nil {
		return
	}
	b.guard(rule, construct, func() {
		env := b.X.EnvFor(fn, names...)
		for _, l := range lets {
			if err := env.Let(l[0], l[1]); err != nil {
				panic(specErr(err.Error()))
			}
		}
		var fc *FC
		if mk != nil {
			fc = b.X.Under(fn, mk(env)...)
		} else {
			fc = b.X.FCFor(fn)
		}
		if mk != nil {
			b.EqUnder(rule, construct, b.pos(fn), fc, fc.RetVal(idx), env, spec)
		} else {
			b.Eq(rule, construct, b.pos(fn), fc.RetVal(idx), env, spec)
		}
	})
}

// loopPhis: the loop-carried atoms reachable from r (through their back-edge values).
func (fc *FC) loopPhis(r *RF) []*RF {
	seen := map[AtomID]bool{}
	var out []*RF
	var visit func(r *RF)
	visit = func(r *RF) {
		for _, at := range r.Atoms(true) {
			if _, ok := fc.X.phiOf[at.ID]; !ok || seen[at.ID] {
				continue
			}
			seen[at.ID] = true
			v := fc.X.S.atomRF(at.ID)
			if ph := fc.X.phiOf[at.ID]; !fc.X.phiFC[at.ID].isHeaderPhi(ph) {
				// a value merged at a join the extractor could not gate: not loop-carried itself,
				// but the values it merges may be
				pfc := fc.X.phiFC[at.ID]
				vals, _ := pfc.Ctx.PhiLiveEdges(ph)
				for _, pv := range vals {
					visit(pfc.Val(pv))
				}
				continue
			}
			out = append(out, v)
			func() {
				defer func() { recover() }()
				_, nx := fc.Recurrence(v)
				visit(nx)
			}()
		}
	}
	visit(r)
	return out
}

func (fc *FC) isHeaderPhi(p *ssa.Phi) bool {
	_, preds := fc.Ctx.PhiLiveEdges(p)
	for _, pr := range preds {
		if fc.Ctx.Dominates(p.Block(), pr) {
			return true
		}
	}
	return false
}

// latch: a boolean loop-carried flag that starts at `init` and whose flipped
// state ends the loop (so it is flipped at most once, by the last iteration): the
// single-exit way of writing an early return. flip is the condition, at an
// iteration's loop-carried values, under which that iteration flips it.
type latch struct {
	atom *RF
	init bool
	flip *RF
	dead bool // once flipped, the function's result no longer depends on anything the loop carries
}

// latchFlags: the latch flags among the header phis of the loop headed by hdr.
func (fc *FC) latchFlags(hdr *ssa.BasicBlock) []latch {
	s := fc.X.S
	var out []latch
	var loop *Loop
	for _, l := range fc.Ctx.Loops() {
		if l.Header == hdr {
			loop = l
		}
	}
	if loop == nil {
		return nil
	}
	for _, in := range hdr.Instrs {
		ph, ok := in.(*ssa.Phi)
		if !ok {
			break
		}
		if bt, ok := ph.Type().Underlying().(*types.Basic); !ok || bt.Kind() != types.Bool {
			continue
		}
		F := fc.Val(ph)
		at := F.SingleAtom()
		if at == nil || fc.X.phiOf[at.ID] != ph {
			continue
		}
		var ini, nx *RF
		func() {
			defer func() { recover() }()
			ini, nx = fc.Recurrence(F)
		}()
		if ini == nil || nx == nil {
			continue
		}
		var init bool
		switch {
		case ini.Equal(s.True()):
			init = true
		case ini.Equal(s.False()):
			init = false
		default:
			continue
		}
		bv := func(v bool) *RF {
			if v {
				return s.True()
			}
			return s.False()
		}
		// (whether it could be set back is immaterial: the flipped flag ends the loop, below)
		flip := nx.Subst(map[AtomID]*RF{at.ID: bv(init)})
		if init {
			flip = s.Not(flip)
		}
		// the flipped flag ends the loop: no back edge is taken with it flipped
		cont := func() (c *RF) {
			defer func() {
				if recover() != nil {
					c = nil
				}
			}()
			return fc.ContinueCond(hdr)
		}()
		if cont == nil || !cont.Subst(map[AtomID]*RF{at.ID: bv(!init)}).Equal(s.False()) {
			continue
		}
		l := latch{atom: F, init: init, flip: flip}
		// dead: with the flag flipped, the result mentions nothing this loop carries
		if v := fc.gatedReturns(fc.Fn.Blocks[0], 0, nil); v != nil {
			fv := v.Subst(map[AtomID]*RF{at.ID: bv(!init)})
			l.dead = true
			for _, a := range fv.Atoms(true) {
				if p2, ok := fc.X.phiOf[a.ID]; ok && loop.Body[p2.Block().Index] && p2.Parent() == fc.Fn {
					l.dead = false
				}
				if _, ok := fc.X.memphiOf[a.ID]; ok {
					l.dead = false
				}
			}
		}
		out = append(out, l)
	}
	return out
}

// restrictNoFlip: q restricted to the cases in which the boolean f does not
// take the value `flipped` — the case analysis follows f's own structure
// (ite / or / and / not), so only the conditions that decide the flag are
// split. nil when f always takes that value.
func (x *Extractor) restrictNoFlip(q, f *RF, flipped bool, depth int) *RF {
	s := x.S
	if f.Equal(s.True()) || f.Equal(s.False()) {
		if f.Equal(s.True()) == flipped {
			return nil
		}
		return q
	}
	at := f.SingleAtom()
	if at == nil || depth > 12 {
		return q
	}
	var c, a, b *RF
	switch {
	case at.Name == "ite" && len(at.Args) == 3:
		c, a, b = at.Args[0], at.Args[1], at.Args[2]
	case at.Name == "lor" && len(at.Args) >= 2:
		c, a, b = at.Args[0], s.True(), s.MakeFn("lor", at.Args[1:]...)
		if len(at.Args) == 2 {
			b = at.Args[1]
		}
	case at.Name == "land" && len(at.Args) >= 2:
		c, a, b = at.Args[0], s.MakeFn("land", at.Args[1:]...), s.False()
		if len(at.Args) == 2 {
			a = at.Args[1]
		}
	case at.Name == "not" && len(at.Args) == 1:
		return x.restrictNoFlip(q, at.Args[0], !flipped, depth+1)
	default:
		// an atomic condition: the flag takes the unflipped value exactly when it is !flipped
		return x.SimplifyUnder(q, []Assumption{{Cond: f, True: !flipped}})
	}
	t := []Assumption{{Cond: c, True: true}}
	e := []Assumption{{Cond: c, True: false}}
	r1 := x.restrictNoFlip(x.SimplifyUnder(q, t), x.SimplifyUnder(a, t), flipped, depth+1)
	r2 := x.restrictNoFlip(x.SimplifyUnder(q, e), x.SimplifyUnder(b, e), flipped, depth+1)
	switch {
	case r1 == nil:
		return r2
	case r2 == nil:
		return r1
	case r1.Equal(r2):
		return r1
	}
	return s.Ite(c, r1, r2)
}

// exitUses: the loop-carried atoms of hdr's loop that the value returned after
// the loop's guard fails mentions (their values left by the final iteration
// reach the result; every other quantity's update in that iteration is dead).
func (fc *FC) exitUses(hdr *ssa.BasicBlock) (map[AtomID]bool, bool) {
	var l *Loop
	for _, ll := range fc.Ctx.Loops() {
		if ll.Header == hdr {
			l = ll
		}
	}
	if l == nil {
		return nil, false
	}
	uses := map[AtomID]bool{}
	for _, sc := range hdr.Succs {
		if l.Body[sc.Index] {
			continue
		}
		v := fc.gatedReturns(sc, 0, nil)
		if v == nil {
			return nil, false
		}
		if fc.X.S.isBottom(v) {
			continue
		}
		v = fc.resolveAlongEdge(hdr, sc, v)
		v = fc.resolveExitPhis(l, sc, v)
		for _, a := range v.Atoms(true) {
			if ph, ok := fc.X.phiOf[a.ID]; ok && ph.Block() == hdr {
				uses[a.ID] = true
			}
			if _, ok := fc.X.memphiOf[a.ID]; ok {
				return nil, false
			}
		}
	}
	return uses, true
}

// noFlipFor: like noFlip for one loop-carried quantity q, also under latch
// flags that are not dead: when the loop is left only through its guard and the
// returned value does not mention q, the value q is given by the iteration that
// flips the flag is never read, so q's recurrence matters in the other
// iterations only.
func (fc *FC) noFlipFor(q *RF) []Assumption {
	at := q.SingleAtom()
	if at == nil {
		for _, a := range q.Atoms(false) {
			if _, ok := fc.X.phiOf[a.ID]; ok {
				at = a
			}
		}
	}
	if at == nil {
		return nil
	}
	ph, ok := fc.X.phiOf[at.ID]
	if !ok {
		return nil
	}
	pfc := fc.X.phiFC[at.ID]
	var as []Assumption
	var uses map[AtomID]bool
	usesOK, usesDone := false, false
	for _, l := range pfc.latchFlags(ph.Block()) {
		if l.dead {
			as = append(as, Assumption{Cond: l.flip, True: false}, Assumption{Cond: l.atom, True: l.init})
			continue
		}
		if !usesDone {
			uses, usesOK = pfc.exitUses(ph.Block())
			usesDone = true
		}
		if usesOK && !uses[at.ID] && pfc.onlyGuardExits(ph.Block()) {
			as = append(as, Assumption{Cond: l.flip, True: false}, Assumption{Cond: l.atom, True: l.init})
		}
	}
	return as
}

// onlyGuardExits: the loop headed by hdr is left through its header test only
// (or into panics).
func (fc *FC) onlyGuardExits(hdr *ssa.BasicBlock) bool {
	for _, ee := range fc.ExitEdges(hdr) {
		if ee.From == hdr {
			continue
		}
		if _, isP := ee.To.Instrs[len(ee.To.Instrs)-1].(*ssa.Panic); isP {
			continue
		}
		return false
	}
	return true
}

// noFlip: assumptions stating that no (dead) latch flag of the loops carrying
// the given quantities is flipped in the current iteration and that none has
// been flipped before — the only iterations whose accumulated values can
// reach the result.
func (fc *FC) noFlip(carried []*RF) []Assumption {
	var as []Assumption
	seen := map[*ssa.BasicBlock]bool{}
	for _, c := range carried {
		at := c.SingleAtom()
		if at == nil {
			continue
		}
		ph, ok := fc.X.phiOf[at.ID]
		if !ok || seen[ph.Block()] {
			continue
		}
		seen[ph.Block()] = true
		pfc := fc.X.phiFC[at.ID]
		for _, l := range pfc.latchFlags(ph.Block()) {
			if !l.dead {
				continue
			}
			as = append(as, Assumption{Cond: l.flip, True: false}, Assumption{Cond: l.atom, True: l.init})
		}
	}
	return as
}

// lockStepCounters: among the loop-carried quantities phis, integer counters
// of one loop that advance by the same constant are one quantity: each later
// one is written as the first plus the constant difference of their initial
// values (lock), and dropped from the list — unless fewer than minKeep would remain.
func (b *B) lockStepCounters(fc *FC, phis []*RF, minKeep int) ([]*RF, map[AtomID]*RF) {
	lock := map[AtomID]*RF{}
	type ctr struct {
		p          *RF
		init, step *RF
		hdr        *ssa.BasicBlock
	}
	var ctrs []ctr
	var kept []*RF
	for _, p := range phis {
		at := p.SingleAtom()
		if at == nil || !at.Int || b.X.phiOf[at.ID] == nil {
			kept = append(kept, p)
			continue
		}
		in, nx := recurrenceOrNil(fc, p)
		if in == nil {
			kept = append(kept, p)
			continue
		}
		st := nx.Sub(p)
		if _, isC := st.IsConst(); !isC {
			kept = append(kept, p)
			continue
		}
		merged := false
		for _, c := range ctrs {
			if c.hdr == b.X.phiOf[at.ID].Block() && c.step.Equal(st) {
				if d, isC := in.Sub(c.init).IsConst(); isC && d.IsInt() {
					lock[at.ID] = c.p.Add(fc.X.S.Const(d))
					merged = true
					break
				}
			}
		}
		if !merged {
			ctrs = append(ctrs, ctr{p, in, st, b.X.phiOf[at.ID].Block()})
			kept = append(kept, p)
		}
	}
	if len(lock) > 0 && len(kept) >= minKeep {
		return kept, lock
	}
	return phis, map[AtomID]*RF{}
}

// ExitValues: after FullScan has established that the loop driving idx visits
// idx = 0 … n-1 once each in order and is left only when its guard fails, the
// loop's counter — and every counter in lock-step with it among the
// quantities reachable from `from` — has a known value once the loop is left:
// the one that makes idx equal n. Returned as a substitution for values read
// after the loop.
func (b *B) ExitValues(fc *FC, from, idx, n *RF) map[AtomID]*RF {
	s := b.X.S
	out := map[AtomID]*RF{}
	var k *RF
	for _, ph := range fc.loopPhis(idx) {
		if d, isC := idx.Sub(ph).IsConst(); isC && d.IsInt() {
			k = ph
		}
	}
	if k == nil {
		return out
	}
	kat := k.SingleAtom()
	_, kn := recurrenceOrNil(fc, k)
	if kn == nil || !kn.Equal(k.Add(s.Int(1))) {
		return out // (ascending scans only)
	}
	exitK := n.Sub(idx.Sub(k))
	out[kat.ID] = exitK
	phis := fc.loopPhis(from)
	has := false
	for _, p := range phis {
		if p.Equal(k) {
			has = true
		}
	}
	if !has {
		phis = append([]*RF{k}, phis...)
	} else {
		// the scan counter first, so that the others are written in terms of it
		ord := []*RF{k}
		for _, p := range phis {
			if !p.Equal(k) {
				ord = append(ord, p)
			}
		}
		phis = ord
	}
	_, lock := b.lockStepCounters(fc, phis, 0)
	for id, v := range lock {
		out[id] = v.Subst(map[AtomID]*RF{kat.ID: exitK})
	}
	return out
}

type recSpec struct{ name, init, next string }

// LoopSystem: find an assignment of the named loop variables to the
// loop-carried atoms reachable from `from` such that every variable's initial
// value and back-edge value equal the stated expressions (which may mention
// the other variables). Names are roles, not source identifiers.
func (b *B) LoopSystem(rule, construct, where string, fc *FC, from *RF, env *SpecEnv, specs []recSpec) map[string]*RF {
	phis := fc.loopPhis(from)
	if len(phis) < len(specs) {
		b.R.Fail(rule, construct, where, fmt.Sprintf("expected %d loop-carried quantities, found %d", len(specs), len(phis)))
		return nil
	}
	// counters of one loop that advance in lock-step (a range index next to a hand-kept
	// count) are one quantity: the later ones are written in terms of the first
	phis, lock := b.lockStepCounters(fc, phis, len(specs))
	// an integer counter may play a stated role offset by one (a count of completed iterations
	// where the formulas use the iteration number, or the reverse)
	base := make([]int, len(phis)) // candidates sharing a loop-carried atom exclude one another
	for i := range base {
		base[i] = i
	}
	for i, p := range phis[:len(phis):len(phis)] {
		if at := p.SingleAtom(); at != nil && at.Int {
			phis = append(phis, p.Add(fc.X.S.Int(1)), p.Sub(fc.X.S.Int(1)))
			base = append(base, i, i)
		}
	}
	type rec struct{ init, next *RF }
	recs := make([]rec, len(phis))
	for i, p := range phis {
		if base[i] != i {
			// an offset candidate that has no recurrence of its own is simply not a candidate
			in, nx := recurrenceOrNil(fc, p)
			if in == nil {
				in, nx = fc.X.S.Var("norec", false), fc.X.S.Var("norec", false)
			}
			recs[i] = rec{in, nx}
			continue
		}
		in, nx := fc.Recurrence(p)
		recs[i] = rec{in, nx}
	}
	if len(lock) > 0 {
		for i := range recs {
			recs[i] = rec{recs[i].init.Subst(lock), recs[i].next.Subst(lock)}
		}
	}
	// iterations in which a latch flag flips (the single-exit form of an early return) carry
	// values that can no longer reach the result: the recurrences are compared for the others
	noflip := fc.noFlip(phis)
	n := len(specs)
	used := make([]bool, len(phis))
	assign := make([]int, n)
	var best string
	var try func(k int) bool
	check := func() bool {
		e := *env
		e.Vars = map[string]SVal{}
		for k, v := range env.Vars {
			e.Vars[k] = v
		}
		for k, sp := range specs {
			e.Vars[sp.name] = SVal{phis[assign[k]], nil}
		}
		for k, sp := range specs {
			wi, err := e.Parse(sp.init)
			if err != nil {
				panic(specErr(err.Error()))
			}
			if len(lock) > 0 {
				wi.RF = wi.RF.Subst(lock)
			}
			if !recs[assign[k]].init.Equal(wi.RF) {
				if base[assign[k]] == assign[k] || best == "" {
					best = fmt.Sprintf("%s: initial value %s, stated %s", sp.name, clip(recs[assign[k]].init.String(), 200), sp.init)
				}
				return false
			}
		}
		for k, sp := range specs {
			wn, err := e.Parse(sp.next)
			if err != nil {
				panic(specErr(err.Error()))
			}
			if len(lock) > 0 {
				wn.RF = wn.RF.Subst(lock)
			}
			nf := noflip
			if len(nf) == 0 {
				nf = fc.noFlipFor(phis[assign[k]])
			}
			if os.Getenv("GMSA_DEBUG_LS") != "" {
				fmt.Fprintf(os.Stderr, "LS %s role=%s phi=%s nf=%d\n  next=%s\n  simp=%s\n  want=%s\n", construct, sp.name, phis[assign[k]], len(nf), clip(recs[assign[k]].next.String(), 600), clip(b.X.SimplifyUnder(recs[assign[k]].next, nf).String(), 600), clip(b.X.SimplifyUnder(wn.RF, nf).String(), 600))
				for _, a := range nf {
					fmt.Fprintf(os.Stderr, "   nf %v %s\n", a.True, clip(a.Cond.String(), 300))
				}
			}
			okNext := recs[assign[k]].next.Equal(wn.RF)
			if !okNext && len(nf) > 0 {
				okNext = b.X.SimplifyUnder(recs[assign[k]].next, nf).Equal(b.X.SimplifyUnder(wn.RF, nf))
			}
			if !okNext && len(nf) > 0 {
				// the update restricted to the iterations that do not flip the flag, the cases
				// split along the flag's own update
				got, want := recs[assign[k]].next, wn.RF
				for _, fa := range nf {
					if fa.Cond == nil || fa.Cond.SingleAtom() == nil {
						continue
					}
					if _, isPhi := b.X.phiOf[fa.Cond.SingleAtom().ID]; isPhi {
						continue // the flag itself at its initial value: by substitution below
					}
					if g := b.X.restrictNoFlip(got, fa.Cond, !fa.True, 0); g != nil {
						got = g
					}
					if w := b.X.restrictNoFlip(want, fa.Cond, !fa.True, 0); w != nil {
						want = w
					}
				}
				got, want = b.X.SimplifyUnder(got, nf), b.X.SimplifyUnder(want, nf)
				okNext = got.Equal(want) || b.X.EquivByCases(got, want, 0)
			}
			if !okNext {
				best = fmt.Sprintf("%s: step computes %s, stated %s = %s", sp.name, clip(recs[assign[k]].next.String(), 300), sp.next, clip(wn.RF.String(), 300))
				return false
			}
		}
		return true
	}
	try = func(k int) bool {
		if k == n {
			return check()
		}
		for i := range phis {
			if used[base[i]] {
				continue
			}
			used[base[i]] = true
			assign[k] = i
			if try(k + 1) {
				return true
			}
			used[base[i]] = false
		}
		return false
	}
	ok := false
	b.guard(rule, construct, func() { ok = try(0) })
	if !ok {
		if best != "" {
			b.R.Fail(rule, construct, where, "no assignment of the loop-carried values satisfies the stated recurrences; closest mismatch — "+best)
		}
		return nil
	}
	out := map[string]*RF{}
	for k, sp := range specs {
		out[sp.name] = phis[assign[k]]
	}
	b.R.OK(rule, construct, where, fmt.Sprintf("%d recurrences (init and step) ≡ stated", n))
	return out
}

// AppendedValues: for `append(s, v1, v2…)` (variadic form) the values v_i.
func (fc *FC) AppendedValues(c *ssa.Call) []*RF {
	if len(c.Call.Args) < 2 {
		return nil
	}
	sl, ok := c.Call.Args[1].(*ssa.Slice)
	if !ok {
		return nil
	}
	al, ok := sl.X.(*ssa.Alloc)
	if !ok {
		return nil
	}
	var out []*RF
	for _, ref := range *al.Referrers() {
		ia, ok := ref.(*ssa.IndexAddr)
		if !ok {
			continue
		}
		for _, r2 := range *ia.Referrers() {
			if st, ok := r2.(*ssa.Store); ok && st.Addr == ia {
				out = append(out, fc.Val(st.Val))
			}
		}
	}
	return out
}

// IfsMentioning lists reachable If instructions whose condition mentions an atom with the given name.
func (fc *FC) IfsMentioning(atomName string) []*ssa.If {
	var out []*ssa.If
	fc.Ctx.Instrs(func(in ssa.Instruction) {
		if ifi, ok := in.(*ssa.If); ok {
			c := fc.Val(ifi.Cond).SingleAtom()
			if c == nil {
				return
			}
			// shallow: the comparison's own operands, not values gated by it elsewhere
			for _, side := range c.Args {
				for _, a := range side.Atoms(false) {
					if a.Name == atomName {
						out = append(out, ifi)
						return
					}
				}
			}
		}
	})
	return out
}

// blockOf: block containing the (unique) store to field `field` of a literal of type typeName.
func (fc *FC) blockOfLit(typeName string) *ssa.BasicBlock {
	var blk *ssa.BasicBlock
	fc.Ctx.Instrs(func(in ssa.Instruction) {
		if al, ok := in.(*ssa.Alloc); ok {
			if fc.X.typeName(al.Type().Underlying().(*types.Pointer).Elem()) == typeName {
				blk = al.Block()
			}
		}
	})
	if blk == nil {
		anchorFail("%s: no literal of type %s", fc.X.W.FuncName(fc.Fn), typeName)
	}
	return blk
}

// elemOf: the unique element atom base[i] read inside the loop system
// reachable from rv; returns the element and its index.
func (fc *FC) elemOf(rv *RF, base *RF) (x, i *RF) {
	var found *Atom
	for _, ph := range fc.loopPhis(rv) {
		_, nx := fc.Recurrence(ph)
		for _, at := range FindFn(nx, "idx") {
			if at.Args[0].Equal(base) {
				if found != nil && found.ID != at.ID {
					anchorFail("several different elements of the same slice are read per iteration")
				}
				found = at
			}
		}
	}
	if found == nil {
		anchorFail("no element of %s is read in the loop", clip(base.String(), 80))
	}
	return fc.X.S.atomRF(found.ID), found.Args[1]
}

// CheckSwap: a sort.Interface Swap over several parallel slices exchanges
// the same (i,j) in each slice field of the receiver.
func (b *B) CheckSwap(rule, fnName string) {
	fn := b.Fn(rule, fnName)
	if fn == nil {
		return
	}
	b.guard(rule, fnName, func() {
		fc := b.X.FCFor(fn)
		env := b.X.EnvFor(fn, "p", "i", "j")
		fields := structFieldsOf(fn, 0)
		n := 0
		for _, f := range fields {
			F := env.MustParse("p." + f)
			got := map[string]bool{}
			// the exchange may be made here or by a helper handed the slice
			for _, sfc := range fc.BoundCallees(1) {
				sfc := sfc
				sfc.Ctx.Instrs(func(in ssa.Instruction) {
					st, ok := in.(*ssa.Store)
					if !ok {
						return
					}
					ia, ok := st.Addr.(*ssa.IndexAddr)
					if !ok || !sfc.Val(ia.X).Equal(F) {
						return
					}
					idx, val := sfc.Val(ia.Index), sfc.Val(st.Val)
					switch {
					case idx.Equal(env.MustParse("i")) && val.Equal(env.MustParse("p."+f+"[j]")):
						got["i<-j"] = true
					case idx.Equal(env.MustParse("j")) && val.Equal(env.MustParse("p."+f+"[i]")):
						got["j<-i"] = true
					default:
						got["other"] = true
					}
				})
			}
			n++
			if got["i<-j"] && got["j<-i"] && !got["other"] {
				b.R.OK(rule, fnName+"/"+f, b.pos(fn), "exchanges elements i and j of "+f)
			} else {
				b.R.Fail(rule, fnName+"/"+f, b.pos(fn), "Swap does not exchange elements i and j of the parallel slice "+f+" (values would be detached from their partners)")
			}
		}
		b.R.Floor(rule, "parallel slices swapped by "+fnName, n, 2)
	})
}

// EquivByCases: a ≡ b by case analysis on the conditions of the gating
// functions occurring in them. A comparison is split into the order regions
// of its two sides (less, equal, greater, and unordered for floats) and every
// comparison of the same two sides is decided per region; other boolean
// atoms are split true/false. Makes the nesting order of if-then-else and
// the way a comparison is written (x<0 vs !(0<=x), a<=b vs !(b<a)) irrelevant.
// EquivByCasesUnder: EquivByCases with the cases that contradict the given
// assumptions left out (they cannot occur where the comparison is made).
func (x *Extractor) EquivByCasesUnder(a, b *RF, assume []Assumption) bool {
	old := x.caseAssume
	x.caseAssume = expandAssumptions(assume)
	defer func() { x.caseAssume = old }()
	return x.EquivByCases(x.SimplifyUnder(a, assume), x.SimplifyUnder(b, assume), 0)
}

// caseFeasible: the case described by `as` does not contradict the standing assumptions.
func (x *Extractor) caseFeasible(as0 []Assumption) bool {
	for ci, c := range x.caseAssume {
		if c.Cond == nil {
			continue
		}
		// each standing assumption is tested against the case together with the other standing
		// assumptions (g > maxL and maxL >= minL rule out g < minL only jointly)
		as := append([]Assumption{}, as0...)
		for cj, o := range x.caseAssume {
			if cj != ci && o.Cond != nil {
				as = append(as, o)
			}
		}
		if os.Getenv("GMSA_TRACE_EQ") == "4" {
			fmt.Fprintf(os.Stderr, "FEAS %s want=%v got=%v under", clip(c.Cond.String(), 120), c.True, x.EvalCond(c.Cond, as))
			for _, a := range as {
				if a.Cond != nil {
					fmt.Fprintf(os.Stderr, " [%v %s]", a.True, clip(a.Cond.String(), 100))
				}
			}
			fmt.Fprintln(os.Stderr)
		}
		switch x.EvalCond(c.Cond, as) {
		case True:
			if !c.True {
				return false
			}
		case False:
			if c.True {
				return false
			}
		}
	}
	return true
}

// caseWorkUnits: the bound of one case analysis, in units of the deterministic
// work clock (about 15 s on an idle core of the sandbox; the deepest analysis
// needed on the pinned tree uses 1.7M, the deepest among the stored
// refactorings 3.5M).
const caseWorkUnits = 12000000

func (x *Extractor) EquivByCases(a, b *RF, depth int) bool {
	if depth == 0 {
		x.caseBudget = 4000
		x.caseWorkLimit = workUnits + caseWorkUnits
		if os.Getenv("GMSA_TIMING") != "" {
			w0, t0 := workUnits, time.Now()
			defer func() {
				if d := workUnits - w0; d > 20000 {
					fmt.Printf("TIMING-CASES units=%d wall=%.2fs\n", d, time.Since(t0).Seconds())
				}
			}()
		}
	}
	if a.Equal(b) {
		return true
	}
	// bounded: a comparison that cannot be decided within the budget is
	// reported as a mismatch (fail-closed), never left running
	x.caseBudget--
	if depth > 10 || x.caseBudget < 0 || workUnits > x.caseWorkLimit {
		x.caseBudget = -1
		return false
	}
	// split on an innermost gating condition first (one that contains no
	// further gating function), so that the comparisons it guards become
	// comparable; plain boolean conditions before comparisons
	var cond *RF
	rank := 0
	for _, r := range []*RF{a, b} {
		for _, at := range r.Atoms(true) {
			if at.Name != "ite" || len(at.Args) != 3 {
				continue
			}
			k := 1
			if len(FindFn(at.Args[0], "ite")) == 0 {
				k = 2
				if ca := at.Args[0].SingleAtom(); ca != nil && !isCmpName(ca.Name) && ca.Name != "land" && ca.Name != "lor" && ca.Name != "not" {
					k = 3
				}
			}
			if k > rank {
				cond, rank = at.Args[0], k
			}
		}
	}
	// whether a quantity is NaN decides how its comparisons behave: settle that first
	for _, r := range []*RF{a, b} {
		for _, at := range r.Atoms(true) {
			if at.Name == "math.IsNaN" && len(at.Args) == 1 && at.Args[0].SingleAtom() != nil {
				cond = x.S.atomRF(at.ID)
				break
			}
		}
		if cond != nil && cond.SingleAtom().Name == "math.IsNaN" {
			break
		}
	}
	if cond == nil {
		if x.S.BoolEquiv(a, b) {
			return true
		}
		if os.Getenv("GMSA_TRACE_EQ") != "" {
			defer func() { fmt.Fprintf(os.Stderr, "EQ-LEAF depth=%d\n  a=%s\n  b=%s\n", depth, a, b) }()
		}
		// boolean structure over related comparisons: split on the first comparison leaf
		cond = firstCmpLeaf(x.S, a)
		if cond == nil {
			cond = firstCmpLeaf(x.S, b)
		}
		if cond == nil {
			return false
		}
	}
	leaf := cond
	for {
		at := leaf.SingleAtom()
		if at != nil && (at.Name == "land" || at.Name == "lor" || at.Name == "not") {
			leaf = at.Args[0]
			continue
		}
		break
	}
	la := leaf.SingleAtom()
	if la != nil && isCmpName(la.Name) {
		d := la.Args[0].Sub(la.Args[1])
		if c, isC := d.IsConst(); isC {
			// decided outright
			as := []Assumption{{Cond: leaf, True: cmpTruth(la.Name, c.Sign())}}
			return x.EquivByCases(x.SimplifyUnder(a, as), x.SimplifyUnder(b, as), depth+1)
		}
		regions := []int{-1, 0, 1}
		if !x.S.Integral(d) && !x.knownOrdered(d) {
			regions = append(regions, 2) // unordered (NaN)
		}
		for _, reg := range regions {
			if os.Getenv("GMSA_TRACE_EQ") == "2" {
				fmt.Fprintf(os.Stderr, "EQ-SPLIT depth=%d region=%d of d=%s\n", depth, reg, clip(d.String(), 300))
			}
			as := x.regionAssumptions([]*RF{a, b}, d, reg)
			var nested []Assumption // the case itself is a standing assumption for the cases nested in it
			if len(x.caseAssume) > 0 {
				// the region's own defining comparison, for the feasibility test
				var self Assumption
				switch reg {
				case -1:
					self = Assumption{Cond: x.S.Cmp("<", la.Args[0], la.Args[1]), True: true}
				case 0:
					self = Assumption{Cond: x.S.Cmp("==", la.Args[0], la.Args[1]), True: true}
				case 1:
					self = Assumption{Cond: x.S.Cmp("<", la.Args[1], la.Args[0]), True: true}
				default:
					self = Assumption{Cond: x.S.Cmp("<=", la.Args[0], la.Args[1]), True: false}
				}
				if !x.caseFeasible(append(append([]Assumption{}, as...), self)) {
					continue
				}
				nested = append(append([]Assumption{}, x.caseAssume...), self)
			}
			a2, b2 := x.SimplifyUnder(a, as), x.SimplifyUnder(b, as)
			if reg == 0 {
				if sub := solveZero(x.S, d, a2, b2); sub != nil {
					a2, b2 = a2.Subst(sub), b2.Subst(sub)
				}
			}
			if os.Getenv("GMSA_TRACE_EQ") == "3" {
				fmt.Fprintf(os.Stderr, "EQ-REGION depth=%d region=%d\n  a2=%s\n  b2=%s\n", depth, reg, clip(a2.String(), 300), clip(b2.String(), 300))
			}
			saved := x.caseAssume
			if nested != nil {
				x.caseAssume = nested
			}
			same := x.EquivByCases(a2, b2, depth+1)
			x.caseAssume = saved
			if !same {
				return false
			}
		}
		return true
	}
	for _, truth := range []bool{true, false} {
		as := []Assumption{{Cond: leaf, True: truth}}
		if len(x.caseAssume) > 0 && !x.caseFeasible(as) {
			continue
		}
		// in the case "x is not NaN" the comparisons of x are ordered
		var nn *Atom
		if la != nil && la.Name == "math.IsNaN" && len(la.Args) == 1 && !truth {
			nn = la.Args[0].SingleAtom()
		}
		if nn != nil {
			if x.caseNotNaN == nil {
				x.caseNotNaN = map[AtomID]int{}
			}
			x.caseNotNaN[nn.ID]++
		}
		same := x.EquivByCases(x.SimplifyUnder(a, as), x.SimplifyUnder(b, as), depth+1)
		if nn != nil {
			x.caseNotNaN[nn.ID]--
		}
		if !same {
			return false
		}
	}
	return true
}

// knownOrdered: every float quantity d is built from is, in the current case,
// known not to be NaN (so the two sides of a comparison with difference d are
// ordered: the "unordered" case cannot occur). Only plain sums of such
// quantities and constants qualify.
func (x *Extractor) knownOrdered(d *RF) bool {
	if c, ok := d.D.isConst(); !ok || c.Sign() == 0 {
		return false
	}
	for _, t := range d.N.sortedTerms() {
		for i, v := range t.vars {
			if t.exps[i] != 1 || len(t.vars) != 1 {
				return false
			}
			at := x.S.atoms[v]
			if x.S.atomIntegral(at) {
				continue // integer-valued quantities (also with the fractional coefficients a substitution leaves)
			}
			if x.caseNotNaN[v] > 0 {
				continue
			}
			// a choice between quantities known not to be NaN
			if at.Name == "ite" && len(at.Args) == 3 {
				ok := true
				for _, br := range at.Args[1:] {
					ba := br.SingleAtom()
					if c, isC := br.IsConst(); isC && c != nil {
						continue
					}
					if ba == nil || !(x.S.atomIntegral(ba) || x.caseNotNaN[ba.ID] > 0) {
						ok = false
					}
				}
				if ok {
					continue
				}
			}
			return false
		}
	}
	return true
}

func firstCmpLeaf(s *Sym, r *RF) *RF {
	for _, at := range r.Atoms(true) {
		if isCmpName(at.Name) {
			return s.atomRF(at.ID)
		}
	}
	return nil
}

// regionAssumptions: truth values of every comparison of the two sides of d
// (up to a constant factor) occurring in the expressions, in the given order
// region of d (-1: d<0, 0: d==0, 1: d>0, 2: unordered).
func (x *Extractor) regionAssumptions(exprs []*RF, d *RF, region int) []Assumption {
	var out []Assumption
	seen := map[AtomID]bool{}
	for _, e := range exprs {
		for _, at := range e.Atoms(true) {
			if !isCmpName(at.Name) || seen[at.ID] {
				continue
			}
			seen[at.ID] = true
			d2 := at.Args[0].Sub(at.Args[1])
			var k int
			switch {
			case d2.Equal(d):
				k = 1
			case d2.Equal(d.Neg()):
				k = -1
			default:
				if q := d2.Div(d); q != nil {
					if c, ok := q.IsConst(); ok && c.Sign() != 0 {
						k = c.Sign()
					}
				}
			}
			if k == 0 {
				continue
			}
			sg := region * k // sign of d2 in this region (for region 2: unordered)
			var truth bool
			if region == 2 {
				truth = at.Name == "cmp!="
			} else {
				switch at.Name {
				case "cmp<":
					truth = sg < 0
				case "cmp<=":
					truth = sg <= 0
				case "cmp==":
					truth = sg == 0
				case "cmp!=":
					truth = sg != 0
				}
			}
			out = append(out, Assumption{Cond: x.S.atomRF(at.ID), True: truth})
		}
	}
	return out
}

// solveZero: d == 0 solved for an atom occurring linearly with a constant coefficient.
func solveZero(s *Sym, d *RF, exprs ...*RF) map[AtomID]*RF {
	if c, ok := d.D.isConst(); !ok || c.Sign() == 0 {
		return nil
	}
	for _, t := range d.N.sortedTerms() {
		if len(t.vars) != 1 || t.exps[0] != 1 {
			continue
		}
		id := t.vars[0]
		// a projection of a value that may also occur as a whole (fld:T.f(v) next
		// to v itself) cannot be eliminated by substitution
		if fa := s.atoms[id]; strings.HasPrefix(fa.Name, "fld:") && len(fa.Args) == 1 {
			// … unless the value it projects occurs only through projections
			base, whole := fa.Args[0], len(exprs) == 0
			for _, e := range exprs {
				if e.Equal(base) {
					whole = true
				}
				for _, oa := range e.Atoms(true) {
					if strings.HasPrefix(oa.Name, "fld:") {
						continue
					}
					for _, arg := range oa.Args {
						if arg.Equal(base) {
							whole = true
						}
					}
				}
			}
			if whole {
				continue
			}
		}
		// the atom must not occur elsewhere in d
		occ := 0
		for _, t2 := range d.N.sortedTerms() {
			for _, v := range t2.vars {
				if v == id {
					occ++
				}
			}
		}
		if occ != 1 {
			continue
		}
		rest := d.Sub(s.atomRF(id).Mul(s.Const(t.coef)).Div(&RF{N: d.D, D: polyConst(bigOne()), S: s}))
		// d = coef*x/D + rest = 0  =>  x = -rest*D/coef
		val := rest.Neg().Mul(&RF{N: d.D, D: polyConst(bigOne()), S: s}).Div(s.Const(t.coef))
		// the solved atom must not occur (at any depth) in its value, else the
		// substitution does not eliminate it
		self := false
		for _, va := range val.Atoms(true) {
			if va.ID == id {
				self = true
			}
		}
		if self {
			continue
		}
		// an integer equation solved for an atom with coefficient other than ±1
		// gives a value no longer recognisable as whole: the equality then stays
		// an assumption only
		if s.Integral(d) && !s.Integral(val) {
			continue
		}
		return map[AtomID]*RF{id: val}
	}
	return nil
}

// EqUnder: like Eq, with the stated formula also simplified under the context's assumptions.
func (b *B) EqUnder(rule, construct, where string, fc *FC, got *RF, env *SpecEnv, spec string) bool {
	ok := false
	b.guard(rule, construct, func() {
		want := fc.Sub(env.MustParse(spec))
		ok = b.EqRF(rule, construct, where, fc.Sub(got), want, "≡ "+spec)
	})
	return ok
}

// HoldsAt: cond is implied by the branch conditions known on entry to blk
// (decided through the assumptions machinery: exact match, boolean
// structure, order regions of comparisons).
func (fc *FC) HoldsAt(blk *ssa.BasicBlock, cond *RF) bool {
	var as []Assumption
	as = append(as, fc.Assume...)
	for _, f := range fc.Ctx.Facts(blk) {
		as = append(as, Assumption{Cond: fc.Val(f.Cond), True: f.Val})
	}
	return fc.X.EvalCond(cond, as) == True
}

// memRecurrence: initial and back-edge value of a memory cell carried around
// a loop (the cell analogue of a loop-header phi).
func (fc *FC) memRecurrence(mp memphiInfo, name string) (init, next *RF) {
	h := mp.b
	edgeVal := map[int]*RF{}
	same := true
	for _, p := range fc.Ctx.LivePreds(h) {
		v := fc.cellAtExit(mp.c, mp.t, p)
		if fc.Ctx.Dominates(h, p) {
			edgeVal[p.Index] = v
			if next != nil && !next.Equal(v) {
				same = false
			}
			next = v
		} else {
			if init != nil && !init.Equal(v) {
				anchorFail("several different initial values for %s", name)
			}
			init = v
		}
	}
	if !same {
		next = fc.backEdgeGated(h, edgeVal)
		if next == nil {
			anchorFail("several different back-edge values for %s and no gating function", name)
		}
	}
	if init == nil || next == nil {
		anchorFail("%s is not carried by a loop", name)
	}
	return
}

// ---- per-iteration element definitions of a result slice ----

// ElemDef: in one loop, element Index of the slice receives Value (a gated
// value over the loop body: zero — the fresh slice's content — on paths that
// store nothing).
type ElemDef struct {
	Index, Value *RF
	FC           *FC
	Where        string
}

// ElementDefs: how the elements of the slice `res` built by fc are defined,
// per loop: by indexed stores res[i] = v in a loop of fc or of a helper the
// slice is handed to (several stores on different branches of one iteration
// are merged by gating functions), or by one append per iteration to an
// initially empty slice. ok=false with a reason when the shape is not one of
// these.
func (fc *FC) ElementDefs(res *RF) (defs []ElemDef, why string) {
	s := fc.X.S
	type loopKey struct {
		fc *FC
		h  int
	}
	byLoop := map[loopKey][]*ssa.Store{}
	var order []loopKey
	for _, sfc := range fc.BoundCallees(1) {
		sfc := sfc
		sfc.Ctx.Instrs(func(in ssa.Instruction) {
			st, ok := in.(*ssa.Store)
			if !ok {
				return
			}
			ia, ok := st.Addr.(*ssa.IndexAddr)
			if !ok || !sfc.Val(ia.X).Equal(res) {
				return
			}
			l := sfc.Ctx.LoopOf(st.Block())
			if l == nil {
				return
			}
			k := loopKey{sfc, l.Header.Index}
			if _, seen := byLoop[k]; !seen {
				order = append(order, k)
			}
			byLoop[k] = append(byLoop[k], st)
		})
	}
	for _, k := range order {
		sts := byLoop[k]
		lfc := k.fc
		idx := lfc.Val(sts[0].Addr.(*ssa.IndexAddr).Index)
		for _, st := range sts[1:] {
			if !lfc.Val(st.Addr.(*ssa.IndexAddr).Index).Equal(idx) {
				return nil, "stores at different indices in one iteration"
			}
		}
		isStore := map[ssa.Instruction]bool{}
		for _, st := range sts {
			isStore[st] = true
		}
		l := lfc.Ctx.LoopOf(sts[0].Block())
		fail := ""
		var eval func(b *ssa.BasicBlock, cur *RF, depth int) *RF
		eval = func(b *ssa.BasicBlock, cur *RF, depth int) *RF {
			if depth > 60 {
				fail = "loop body too deep"
				return nil
			}
			if il := lfc.Ctx.LoopOf(b); il != nil && !sameLoop(il, l) && il.Header == b {
				fail = "nested loop in the filling loop"
				return nil
			}
			for _, in := range b.Instrs {
				if isStore[in] {
					cur = lfc.Val(in.(*ssa.Store).Val)
				}
			}
			var nexts []*ssa.BasicBlock
			var exits int
			for i, sc := range b.Succs {
				if !lfc.Ctx.EdgeLive(b, i) {
					continue
				}
				if l.Body[sc.Index] {
					nexts = append(nexts, sc)
				} else {
					exits++
				}
			}
			if exits > 0 && b != l.Header {
				fail = "the filling loop can be left from inside an iteration"
				return nil
			}
			step := func(sc *ssa.BasicBlock) *RF {
				if sc == l.Header {
					return cur
				}
				return eval(sc, cur, depth+1)
			}
			switch len(nexts) {
			case 0:
				fail = "iteration does not return to the loop header"
				return nil
			case 1:
				return step(nexts[0])
			}
			ifi, ok := b.Instrs[len(b.Instrs)-1].(*ssa.If)
			if !ok {
				fail = "unexpected terminator"
				return nil
			}
			tv, fv := step(b.Succs[0]), step(b.Succs[1])
			if tv == nil || fv == nil {
				return nil
			}
			return s.Ite(lfc.Val(ifi.Cond), tv, fv)
		}
		v := eval(l.Header, s.Int(0), 0)
		if v == nil {
			return nil, fail
		}
		defs = append(defs, ElemDef{Index: idx, Value: v, FC: lfc, Where: fc.X.W.InstrPos(sts[0])})
	}
	if len(defs) > 0 {
		return defs, ""
	}
	// append form: res is carried by a loop, starts empty and grows by exactly one element per iteration
	if at := res.SingleAtom(); at != nil && fc.X.phiOf[at.ID] != nil {
		pfc := fc.X.phiFC[at.ID]
		init, next := pfc.Recurrence(res)
		ia := init.SingleAtom()
		if ia == nil || !strings.HasPrefix(ia.Name, "makeslice:") || len(ia.Args) == 0 {
			return nil, "appended slice does not start as a fresh slice"
		}
		if z, isC := ia.Args[0].IsConst(); !isC || z.Sign() != 0 {
			return nil, "appended slice does not start empty"
		}
		na := next.SingleAtom()
		if na == nil || na.Name != "builtin:append" || !na.Args[0].Equal(res) {
			return nil, "the slice is not extended by exactly one append in every iteration: " + clip(next.String(), 120)
		}
		// the appended value: through the variadic argument's backing array
		ph := fc.X.phiOf[at.ID]
		l := pfc.Ctx.LoopOf(ph.Block())
		var vals []*RF
		for _, c := range pfc.CallsTo("builtin:append") {
			if l != nil && l.Body[c.Block().Index] && pfc.Val(c.Call.Args[0]).Equal(res) {
				vals = append(vals, pfc.AppendedValues(c)...)
			}
		}
		if len(vals) != 1 {
			return nil, "expected one value appended per iteration"
		}
		// element k is the value of iteration k: the index is the position at
		// which the input is read in that iteration
		var idx *RF
		for _, ix := range FindFn(vals[0], "idx") {
			if idx != nil && !idx.Equal(ix.Args[1]) {
				return nil, "the appended value reads inputs at several indices"
			}
			idx = ix.Args[1]
		}
		if idx == nil {
			return nil, "the appended value does not depend on an input element"
		}
		// the iteration counter must run 0,1,2,…: idx = c (+1) for a counter c from 0 (-1) by +1
		ok := false
		for _, cand := range pfc.loopPhis(idx) {
			ci, cn := pfc.Recurrence(cand)
			if !cn.Equal(cand.Add(s.Int(1))) {
				continue
			}
			if first := idx.Subst(map[AtomID]*RF{cand.SingleAtom().ID: ci}); first.Equal(s.Int(0)) {
				if d, isC := idx.Sub(cand).IsConst(); isC && d.IsInt() {
					ok = true
				}
			}
		}
		if !ok {
			return nil, "the appended value's input index does not run 0,1,2,… with the iterations"
		}
		return []ElemDef{{Index: idx, Value: vals[0], FC: pfc, Where: fc.X.W.Pos(ph.Pos())}}, ""
	}
	return nil, "no indexed store into the result in a loop and no append loop"
}

// FullScan: the loop that reads/writes position idx visits every index
// 0,1,…,n-1 exactly once, in order: idx = k+c for one loop counter k that
// advances by 1, idx is 0 in the first iteration, the loop continues exactly
// while idx < n (tested at the header), and it cannot be left from inside an
// iteration.
func (b *B) FullScan(rule, construct, where string, fc *FC, idx, n *RF) bool {
	return b.fullScanFrom(rule, construct, where, fc, idx, n, 0)
}

// FullScanSeeded: like FullScan for an accumulation whose initial value
// already is element 0: the loop may start at index 0 or at index 1.
func (b *B) FullScanSeeded(rule, construct, where string, fc *FC, idx, n *RF) bool {
	return b.fullScanFrom(rule, construct, where, fc, idx, n, 1)
}

func (b *B) fullScanFrom(rule, construct, where string, fc *FC, idx, n *RF, maxFirst int64) bool {
	s := b.X.S
	var k *RF
	for _, ph := range fc.loopPhis(idx) {
		if d, isC := idx.Sub(ph).IsConst(); isC && d.IsInt() {
			if k != nil {
				b.R.Fail(rule, construct, where, "the index depends on several loop counters")
				return false
			}
			k = ph
		}
	}
	if k == nil {
		// the index counted down through an ascending counter: idx = c - k (`for i := range n { j := n-1-i … }`)
		for _, ph := range fc.loopPhis(idx) {
			pa := ph.SingleAtom()
			if pa == nil || len(FindAtomID(idx.Add(ph), pa.ID)) > 0 {
				continue
			}
			plfc := b.X.phiFC[pa.ID]
			pi, pn := recurrenceOrNil(plfc, ph)
			if pi != nil && pn.Equal(ph.Add(s.Int(1))) {
				return b.fullScanDown(rule, construct, where, plfc, b.X.phiOf[pa.ID].Block(), ph, pi, idx, n, maxFirst)
			}
		}
		b.R.Fail(rule, construct, where, "the index "+clip(idx.String(), 80)+" is not a loop counter plus a constant")
		return false
	}
	kat := k.SingleAtom()
	lfc := b.X.phiFC[kat.ID]
	hdr := b.X.phiOf[kat.ID].Block()
	ki, kn := lfc.Recurrence(k)
	if kn.Equal(k.Sub(s.Int(1))) {
		// a descending scan: from n-1 down to 0, while 0 <= index
		return b.fullScanDown(rule, construct, where, lfc, hdr, k, ki, idx, n, maxFirst)
	}
	if !kn.Equal(k.Add(s.Int(1))) {
		b.R.Fail(rule, construct, where, "the counter does not advance by 1 per iteration: "+clip(kn.String(), 80))
		return false
	}
	if first := idx.Subst(map[AtomID]*RF{kat.ID: ki}); !first.Equal(s.Int(0)) && !(maxFirst >= 1 && first.Equal(s.Int(1))) {
		b.R.Fail(rule, construct, where, "the first index visited is "+clip(first.String(), 80)+", not 0")
		return false
	}
	l, cond, guard, msg := b.loopGuard(lfc, hdr)
	if msg != "" {
		b.R.Fail(rule, construct, where, msg)
		return false
	}
	want := s.Cmp("<", idx, n)
	if b.rotated {
		// bottom-tested: goes round again while the next index is in range — and must be entered
		// only when the first one is
		want = s.Cmp("<", idx.Add(s.Int(1)), n)
		first := idx.Subst(map[AtomID]*RF{kat.ID: ki})
		for _, p := range lfc.Ctx.LivePreds(hdr) {
			if l.Body[p.Index] {
				continue
			}
			ec := lfc.edgeCond(p, hdr)
			if fw := s.Cmp("<", first, n); !(ec.Equal(fw) || b.X.EquivByCases(ec, fw, 0)) {
				b.R.Fail(rule, construct, where, "the bottom-tested loop is entered under "+clip(ec.String(), 100)+", not exactly when the first index "+clip(first.String(), 40)+" is below "+clip(n.String(), 60))
				return false
			}
		}
	}
	if b.earlyExitsOK {
		// a search loop may carry its hit test in the loop condition (`for k < n && a[k] == b[k]`):
		// the other conjuncts are early exits
		if ca := cond.SingleAtom(); ca != nil && ca.Name == "land" {
			for _, arg := range ca.Args {
				if arg.Equal(want) || b.X.EquivByCases(arg, want, 0) {
					cond = want
				}
			}
		}
	}
	// (counting up from 0 by ones to a length, `idx != n` stops at the same place as `idx < n`)
	if na := n.SingleAtom(); !b.rotated && na != nil && na.Name == "len" && idx.Subst(map[AtomID]*RF{kat.ID: ki}).Equal(s.Int(0)) {
		if cond.Equal(s.Cmp("!=", idx, n)) || cond.Equal(s.Cmp("!=", n, idx)) {
			cond = want
		}
	}
	if !(cond.Equal(want) || b.X.EquivByCases(cond, want, 0) || (len(fc.Assume) > 0 && b.X.EquivByCasesUnder(cond, want, fc.Assume))) {
		b.R.Fail(rule, construct, where, "the loop runs while "+clip(cond.String(), 120)+", not while index < "+clip(n.String(), 60)+": not every element is visited")
		return false
	}
	if msg := b.leftEarly(lfc, l, guard); msg != "" && !b.earlyExitsOK {
		b.R.Fail(rule, construct, where, msg)
		return false
	}
	b.R.OK(rule, construct, where, "visits every index 0.."+clip(n.String(), 40)+"-1 once, in order")
	return true
}

// BoundedOrPanics: the loop l runs a bounded number of iterations and its
// exhaustion panics. Decided on the loop's conditions however the test is
// placed (header bound, test inside the body, countdown, `==` against the
// limit) and whether convergence leaves by a return or through a latch flag:
// there is an integer counter k (constant start, constant step) and a
// comparison X of k with a constant such that (a) no back edge is taken once X
// holds, (b) once X holds — with no latch flag flipped — the function panics,
// and (c) X becomes true after finitely many steps of k.
func (b *B) BoundedOrPanics(fc *FC, l *Loop) (bool, string) {
	s, X := b.X.S, b.X
	hdr := l.Header
	var cont, panicCond *RF
	msg := ""
	func() {
		defer func() {
			if rec := recover(); rec != nil {
				if e, ok := rec.(anchorErr); ok {
					msg = string(e)
					return
				}
				panic(rec)
			}
		}()
		cont = fc.ContinueCond(hdr)
		panicCond = s.False()
		for bi := range l.Body {
			blk := fc.Fn.Blocks[bi]
			for _, sc := range fc.Ctx.LiveSuccs(blk) {
				if l.Body[sc.Index] {
					continue
				}
				ec := s.And(fc.ReachCondFrom(hdr, blk), fc.edgeCond(blk, sc))
				for _, pb := range fc.Fn.Blocks {
					if _, isP := pb.Instrs[len(pb.Instrs)-1].(*ssa.Panic); !isP || !fc.Ctx.Reach[pb.Index] {
						continue
					}
					if pb == sc {
						panicCond = s.Or(panicCond, ec)
					} else if fc.Ctx.Dominates(sc, pb) {
						panicCond = s.Or(panicCond, s.And(ec, fc.ReachCondFrom(sc, pb)))
					}
				}
			}
		}
	}()
	if msg != "" {
		return false, msg
	}
	var flags []Assumption
	for _, lf := range fc.latchFlags(hdr) {
		flags = append(flags, Assumption{Cond: lf.atom, True: lf.init})
	}
	why := "no counter compared with a constant"
	for _, in := range hdr.Instrs {
		ph, ok := in.(*ssa.Phi)
		if !ok {
			break
		}
		if !isIntType(ph.Type()) {
			continue
		}
		k := fc.Val(ph)
		kat := k.SingleAtom()
		if kat == nil || X.phiOf[kat.ID] != ph {
			continue
		}
		var ki, kn *RF
		func() {
			defer func() { recover() }()
			ki, kn = fc.Recurrence(k)
		}()
		if ki == nil || kn == nil {
			continue
		}
		c0, isC := ki.IsConst()
		d, isD := kn.Sub(k).IsConst()
		if !isC || !isD || d.Sign() == 0 || !c0.IsInt() || !d.IsInt() {
			continue
		}
		seen := map[AtomID]bool{}
		for _, src := range []*RF{cont, panicCond} {
			for _, t := range src.Atoms(true) {
				if seen[t.ID] || !isCmpName(t.Name) || len(t.Args) != 2 {
					continue
				}
				seen[t.ID] = true
				// a comparison of k (plus a constant) with a constant
				onlyK := true
				for _, a := range s.atomRF(t.ID).Atoms(true) {
					if a.ID != t.ID && a.ID != kat.ID {
						onlyK = false
					}
				}
				if !onlyK || len(FindAtomID(s.atomRF(t.ID), kat.ID)) == 0 {
					continue
				}
				for _, neg := range []bool{false, true} {
					x := s.atomRF(t.ID)
					if neg {
						x = s.Not(x)
					}
					as := []Assumption{{Cond: s.atomRF(t.ID), True: !neg}}
					if !X.SimplifyUnder(cont, as).Equal(s.False()) {
						continue
					}
					if !X.SimplifyUnder(panicCond, append(append([]Assumption{}, as...), flags...)).Equal(s.True()) {
						why = "exhausting the counter (" + clip(x.String(), 80) + ") does not lead to the panic"
						continue
					}
					// (c) reached after finitely many steps: far along the counter's direction for an
					// ordering test; at the limit itself, on the counter's path, for an equality test
					reached := false
					far := new(big.Rat).Add(c0, new(big.Rat).Mul(d, big.NewRat(1<<40, 1)))
					if x.Subst(map[AtomID]*RF{kat.ID: s.Const(far)}).Equal(s.True()) {
						reached = true
					} else {
						for _, side := range t.Args {
							if cv, ok := side.IsConst(); ok && cv.IsInt() {
								for off := int64(-2); off <= 2; off++ {
									kv := new(big.Rat).Add(cv, big.NewRat(off, 1))
									steps := new(big.Rat).Quo(new(big.Rat).Sub(kv, c0), d)
									if steps.IsInt() && steps.Sign() >= 0 && x.Subst(map[AtomID]*RF{kat.ID: s.Const(kv)}).Equal(s.True()) {
										reached = true
									}
								}
							}
						}
					}
					if !reached {
						why = "the counter never reaches " + clip(x.String(), 80)
						continue
					}
					return true, "counter " + kat.Name + " from " + c0.RatString() + " by " + d.RatString() + "; exhausted when " + clip(x.String(), 80)
				}
			}
		}
	}
	return false, why
}

// FindAtomID: occurrences (deep) of the atom id in r.
func FindAtomID(r *RF, id AtomID) []*Atom {
	var out []*Atom
	for _, a := range r.Atoms(true) {
		if a.ID == id {
			out = append(out, a)
		}
	}
	return out
}

// unrotate: a bottom-tested loop whose bottom test is G(k + step) for a counter k of constant
// step and which is entered exactly under G(first value of k) is the while-loop `for G(k)`:
// returns G(k), or nil.
func (b *B) unrotate(lfc *FC, l *Loop, hdr *ssa.BasicBlock, bottom *RF) *RF {
	s := b.X.S
	for _, in := range hdr.Instrs {
		ph, ok := in.(*ssa.Phi)
		if !ok {
			break
		}
		k := lfc.Val(ph)
		ka := k.SingleAtom()
		if ka == nil || !ka.Int || b.X.phiOf[ka.ID] != ph || len(FindAtomID(bottom, ka.ID)) == 0 {
			continue
		}
		ki, kn := recurrenceOrNil(lfc, k)
		if ki == nil {
			continue
		}
		step := kn.Sub(k)
		if c, isC := step.IsConst(); !isC || c.Sign() == 0 {
			continue
		}
		g := bottom.Subst(map[AtomID]*RF{ka.ID: k.Sub(step)})
		gFirst := g.Subst(map[AtomID]*RF{ka.ID: ki})
		ok2 := true
		n := 0
		for _, p := range lfc.Ctx.LivePreds(hdr) {
			if l.Body[p.Index] {
				continue
			}
			n++
			ec := lfc.edgeCond(p, hdr)
			if !(ec.Equal(gFirst) || b.X.EquivByCases(ec, gFirst, 0)) {
				ok2 = false
			}
		}
		if ok2 && n > 0 {
			_ = s
			return g
		}
	}
	return nil
}

// loopGuard: the condition under which the loop headed by hdr runs another
// iteration's body — the header's test together with the tests of a
// short-circuit chain sharing its exit (`for a && b`) — with dead latch flags
// at their initial value (see latch); guard holds the blocks of that chain.
func (b *B) loopGuard(lfc *FC, hdr *ssa.BasicBlock) (l *Loop, cond *RF, guard map[int]bool, msg string) {
	s := b.X.S
	for _, ll := range lfc.Ctx.Loops() {
		if ll.Header == hdr {
			l = ll
		}
	}
	if l == nil {
		return nil, nil, nil, "loop not found"
	}
	b.rotated = false
	hdrTests := false
	if _, ok := hdr.Instrs[len(hdr.Instrs)-1].(*ssa.If); ok {
		for _, sc := range hdr.Succs {
			if !l.Body[sc.Index] {
				hdrTests = true // the header's branch can leave the loop: a bound test
			}
		}
	}
	if !hdrTests {
		// a rotated loop (the form go/ssa gives `for i := range n`): entered under a test of the
		// first index, the bound tested again at the bottom for the next one
		if len(l.Latch) == 1 {
			lt := l.Latch[0]
			if _, isIf := lt.Instrs[len(lt.Instrs)-1].(*ssa.If); isIf && len(lt.Succs) == 2 {
				var out *ssa.BasicBlock
				for _, sc := range lt.Succs {
					if !l.Body[sc.Index] {
						out = sc
					}
				}
				if out != nil {
					bottom := lfc.edgeCond(lt, hdr)
					if g := b.unrotate(lfc, l, hdr, bottom); g != nil {
						return l, g, map[int]bool{lt.Index: true}, ""
					}
					b.rotated = true
					return l, bottom, map[int]bool{lt.Index: true}, ""
				}
			}
		}
		return nil, nil, nil, "the loop has no bound test at its header"
	}
	for _, sc := range hdr.Succs {
		if sc == hdr {
			// (a one-block rotated loop: the header is its own latch)
			if g := b.unrotate(lfc, l, hdr, lfc.edgeCond(hdr, hdr)); g != nil {
				return l, g, map[int]bool{hdr.Index: true}, ""
			}
			b.rotated = true
		}
	}
	var exit, body *ssa.BasicBlock
	for _, sc := range hdr.Succs {
		if l.Body[sc.Index] {
			body = sc
		} else {
			exit = sc
		}
	}
	if exit == nil || body == nil {
		return nil, nil, nil, "the bound test does not lead into the loop body"
	}
	guard = map[int]bool{hdr.Index: true}
	cond = lfc.edgeCond(hdr, body)
	cur := body
	for n := 0; n < 6; n++ {
		if len(cur.Preds) != 1 {
			break
		}
		if _, ok := cur.Instrs[len(cur.Instrs)-1].(*ssa.If); !ok {
			break
		}
		pure := true
		for _, in := range cur.Instrs[:len(cur.Instrs)-1] {
			switch in.(type) {
			case *ssa.UnOp, *ssa.BinOp, *ssa.FieldAddr, *ssa.IndexAddr, *ssa.Index, *ssa.Field, *ssa.Convert, *ssa.ChangeType, *ssa.DebugRef:
			case *ssa.Call:
				if bi, ok := in.(*ssa.Call).Call.Value.(*ssa.Builtin); !ok || (bi.Name() != "len" && bi.Name() != "cap") {
					pure = false
				}
			default:
				pure = false
			}
		}
		var inner *ssa.BasicBlock
		toExit := false
		for _, sc := range cur.Succs {
			if sc == exit {
				toExit = true
			} else if l.Body[sc.Index] {
				inner = sc
			}
		}
		if !pure || !toExit || inner == nil {
			break
		}
		guard[cur.Index] = true
		cond = s.And(cond, lfc.edgeCond(cur, inner))
		cur = inner
	}
	sub := map[AtomID]*RF{}
	for _, lf := range lfc.latchFlags(hdr) {
		if lf.dead {
			if lf.init {
				sub[lf.atom.SingleAtom().ID] = s.True()
			} else {
				sub[lf.atom.SingleAtom().ID] = s.False()
			}
		}
	}
	if len(sub) > 0 {
		cond = cond.Subst(sub)
	}
	return l, cond, guard, ""
}

// ReturnPhase: how the return rt relates to the loop carrying the atom
// `carried`: "mid" when it is reached by leaving the loop from inside an
// iteration (past the guard: the values it uses are this iteration's updated
// ones), "exit" when it is reached only through the loop's guard failing (the
// loop-carried values it sees are those left by the last completed
// iteration), "" when both or neither apply.
func (b *B) ReturnPhase(fc *FC, rt *ssa.Return, carried *RF) string {
	at := carried.SingleAtom()
	if at == nil {
		return ""
	}
	ph, ok := b.X.phiOf[at.ID]
	if !ok {
		return ""
	}
	l, _, guard, msg := b.loopGuard(fc, ph.Block())
	if msg != "" {
		return ""
	}
	reaches := func(from *ssa.BasicBlock) bool {
		seen := map[int]bool{}
		stack := []*ssa.BasicBlock{from}
		for len(stack) > 0 {
			x := stack[len(stack)-1]
			stack = stack[:len(stack)-1]
			if seen[x.Index] || l.Body[x.Index] {
				continue
			}
			seen[x.Index] = true
			if x == rt.Block() {
				return true
			}
			stack = append(stack, fc.Ctx.LiveSuccs(x)...)
		}
		return false
	}
	mid, exit := false, false
	for bi := range l.Body {
		blk := fc.Fn.Blocks[bi]
		for _, sc := range fc.Ctx.LiveSuccs(blk) {
			if l.Body[sc.Index] || !reaches(sc) {
				continue
			}
			if guard[bi] {
				exit = true
			} else {
				mid = true
			}
		}
	}
	switch {
	case mid && !exit:
		return "mid"
	case exit && !mid:
		return "exit"
	}
	return ""
}

// leftEarly: a message when the loop can be left from inside an iteration
// (past its guard) other than by a return or panic with its own result.
func (b *B) leftEarly(lfc *FC, l *Loop, guard map[int]bool) string {
	var exit *ssa.BasicBlock
	for _, sc := range l.Header.Succs {
		if !l.Body[sc.Index] {
			exit = sc
		}
	}
	for bi := range l.Body {
		blk := lfc.Fn.Blocks[bi]
		if guard[bi] {
			continue
		}
		for _, sc := range lfc.Ctx.LiveSuccs(blk) {
			if !l.Body[sc.Index] {
				// an early return/panic with its own result is not a truncated
				// scan; a jump to the loop's normal continuation (break) is
				last := sc.Instrs[len(sc.Instrs)-1]
				_, isPanic := last.(*ssa.Panic)
				_, isRet := last.(*ssa.Return)
				if (isPanic || isRet) && sc != exit {
					continue
				}
				return "the loop can be left from inside an iteration (not every element is visited)"
			}
		}
	}
	return ""
}

// TDistCDF: the Student-t distribution function, decided branch by branch so
// that the code may obtain the lower tail either by the recursion
// 1 - CDF(-x) or directly: CDF(0) = 1/2; for x>0, 1 - I(v/(v+x²); v/2, 1/2)/2;
// for x<0, I(v/(v+x²); v/2, 1/2)/2 (a recursive call at -x is unfolded with
// the x>0 formula, which is its value since -x>0); NaN otherwise.
func (b *B) TDistCDF(rule string) {
	name := "stats.(TDist).CDF"
	fn := b.Fn(rule, name)
	if fn == nil {
		return
	}
	X, S := b.X, b.X.S
	X.NoInline["mathx.BetaInc"] = true // its own formula is decided under C08 (imported)
	b.guard(rule, name, func() {
		env := X.EnvFor(fn, "t", "x")
		pos := "(1-0.5*mathx.BetaInc(t.V/(t.V+x*x), t.V/2, 0.5))"
		eq0, gt0, lt0 := env.MustParse("x==0"), env.MustParse("0<x"), env.MustParse("x<0")
		nan := env.MustParse("isnan(x)")
		cases := []struct {
			tag  string
			as   []Assumption
			spec string
		}{
			{"x==0", []Assumption{{Cond: eq0, True: true}, {Cond: nan, True: false}}, "0.5"},
			{"x>0", []Assumption{{Cond: eq0, True: false}, {Cond: gt0, True: true}, {Cond: nan, True: false}}, pos},
			{"x<0", []Assumption{{Cond: eq0, True: false}, {Cond: gt0, True: false}, {Cond: lt0, True: true}, {Cond: nan, True: false}}, "0.5*mathx.BetaInc(t.V/(t.V+x*x), t.V/2, 0.5)"},
			{"x NaN", []Assumption{{Cond: eq0, True: false}, {Cond: gt0, True: false}, {Cond: lt0, True: false}, {Cond: nan, True: true}}, "nan()"},
		}
		for _, c := range cases {
			fc := X.Under(fn, c.as...)
			got := fc.Sub(fc.RetVal(0))
			// unfold a recursive call at -x with the x>0 formula
			negx := env.MustParse("-x")
			sub := map[AtomID]*RF{}
			for _, at := range FindFn(got, "call:CDF") {
				if len(at.Args) == 2 && at.Args[0].Equal(env.Vars["t"].RF) && at.Args[1].Equal(negx) && c.tag == "x<0" {
					e2 := X.EnvFor(fn, "t", "x")
					e2.Set("x", negx, nil)
					sub[at.ID] = e2.MustParse(pos)
				}
			}
			if len(sub) > 0 {
				got = got.Subst(sub)
			}
			b.EqRF(rule, name+"/"+c.tag, b.pos(fn), got, fc.Sub(env.MustParse(c.spec)), "CDF for "+c.tag+" ≡ "+c.spec)
		}
		_ = S
	})
}

// AnyOf: the construct may legitimately have one of several shapes (e.g. a
// table filled from a running product or from its own previous entry). The
// alternatives are tried in order; the obligations of the first one that
// raises no failure are kept. When none succeeds, the obligations of the
// first alternative (the shape of the pinned tree) are reported.
func (b *B) AnyOf(alts ...func()) {
	r := b.R
	var first []*Obligation
	for i, alt := range alts {
		mark := len(r.Obs)
		func() {
			defer func() {
				if rec := recover(); rec != nil {
					switch e := rec.(type) {
					case specErr:
						r.Undecided("anchor", "alternative shape", "", "spec/anchor: "+string(e))
					case anchorErr:
						r.Undecided("anchor", "alternative shape", "", "anchor: "+string(e))
					default:
						panic(rec)
					}
				}
			}()
			alt()
		}()
		bad := false
		for _, o := range r.Obs[mark:] {
			if o.st != Discharged {
				bad = true
			}
		}
		if !bad && len(r.Obs) > mark {
			return
		}
		if os.Getenv("GMSA_ANYOF_DEBUG") != "" {
			for _, o := range r.Obs[mark:] {
				if o.st != Discharged {
					fmt.Fprintf(os.Stderr, "ANYOF alt#%d: %s %s: %s\n", i, o.Rule, o.Construct, clip(o.Detail, 400))
				}
			}
		}
		if i == 0 {
			first = append([]*Obligation{}, r.Obs[mark:]...)
		}
		r.Obs = r.Obs[:mark]
	}
	r.Obs = append(r.Obs, first...)
}

// LitFieldAny: LitField in fc or in a module function it calls (parameters
// bound to the actual arguments) — a literal built by a helper.
func (fc *FC) LitFieldAny(typeName, field string) *RF {
	var first interface{}
	for _, sfc := range fc.BoundCallees(2) {
		var v *RF
		func() {
			defer func() {
				if rec := recover(); rec != nil {
					if _, ok := rec.(anchorErr); !ok {
						panic(rec)
					}
					if first == nil {
						first = rec
					}
				}
			}()
			v = sfc.LitField(typeName, field)
		}()
		if v != nil {
			return v
		}
	}
	panic(first)
}

// ExpandCalls rewrites applications of module functions that were kept as
// atoms (several returns, pointer results) by the gated value of their
// result over all their returns, their parameters bound to the arguments —
// used as a second attempt when a comparison fails on such an atom.
func (x *Extractor) ExpandCalls(r *RF) *RF {
	return r.Rewrite(func(at *Atom, args []*RF) *RF {
		name := at.Name
		idx := -1
		if i := strings.LastIndex(name, "#"); i > 0 {
			if n, err := strconv.Atoi(name[i+1:]); err == nil {
				name, idx = name[:i], n
			}
		}
		f := x.W.Fn(name)
		if f == nil || f.Blocks == nil || len(args) != len(f.Params) || x.depth[f] > 0 || x.NoInline[name] {
			return nil
		}
		if !x.pureForInline(f) {
			return nil
		}
		x.depth[f]++
		defer func() { x.depth[f]-- }()
		bind := map[*ssa.Parameter]*RF{}
		for i, p := range f.Params {
			bind[p] = args[i]
		}
		sub := x.newFC(f, bind, nil)
		sub.bindArgs = args
		// a function that fills memory it returns is not its gated return value: the value of
		// `res := make([]float64, n); for … { res[i] = … }; return res` would be the bare
		// allocation, the same for any arguments with equal n (found by the mutation sweep:
		// Linspace(f/sp, …) compared equal to Linspace(f*sp, …)) — rejected below. A scalar
		// computed by a loop is fine: its loop-carried atoms are applications to the arguments.
		v := sub.gatedReturns(f.Blocks[0], 0, nil)
		if v == nil || x.S.isBottom(v) {
			return nil
		}
		own := x.W.FuncName(f) + ":"
		for _, va := range v.Atoms(true) {
			if strings.HasPrefix(va.Name, "makeslice:"+own) || strings.HasPrefix(va.Name, "makemap:"+own) {
				return nil // memory the callee allocates (and may fill): its contents are not in the value
			}
		}
		if ta := v.SingleAtom(); ta != nil && ta.Name == "tuple" {
			if idx < 0 || idx >= len(ta.Args) {
				return nil
			}
			return ta.Args[idx]
		}
		if idx > 0 {
			return nil
		}
		return v
	})
}

// EqAt: got ≡ want given the branch conditions known at instruction `at`
// (equalities among them are substituted, e.g. len(xs)==len(ys) after the
// length-mismatch panic).
func (b *B) EqAt(rule, construct, where string, fc *FC, at ssa.Instruction, got, want *RF, what string) bool {
	g, w := fc.atSite(at, got, want)
	return b.EqRF(rule, construct, where, g, w, what)
}

// EqualAt: got ≡ want given the branch conditions known at instruction at.
func (fc *FC) EqualAt(at ssa.Instruction, got, want *RF) bool {
	g, w := fc.atSite(at, got, want)
	return g.Equal(w) || fc.X.EquivByCasesUnder(g, w, fc.SiteAssumptions(at))
}

// SiteAssumptions: the context's assumptions and the branch conditions known at instruction at.
func (fc *FC) SiteAssumptions(at ssa.Instruction) []Assumption {
	var as []Assumption
	as = append(as, fc.Assume...)
	for _, f := range fc.Ctx.Facts(at.Block()) {
		as = append(as, Assumption{Cond: fc.Val(f.Cond), True: f.Val})
	}
	return expandAssumptions(as)
}

// atSite: both values simplified under the facts at the site, equalities among them substituted.
func (fc *FC) atSite(at ssa.Instruction, got, want *RF) (*RF, *RF) {
	b := struct{ X *Extractor }{fc.X}
	var as []Assumption
	as = append(as, fc.Assume...)
	for _, f := range fc.Ctx.Facts(at.Block()) {
		as = append(as, Assumption{Cond: fc.Val(f.Cond), True: f.Val})
	}
	as = expandAssumptions(as)
	g, w := b.X.SimplifyUnder(got, as), b.X.SimplifyUnder(want, as)
	for _, a := range as {
		if a.Cond == nil {
			continue
		}
		ca := a.Cond.SingleAtom()
		if ca == nil || !(ca.Name == "cmp==" && a.True || ca.Name == "cmp!=" && !a.True) {
			continue
		}
		if sub := solveZero(b.X.S, ca.Args[0].Sub(ca.Args[1])); sub != nil {
			g, w = g.Subst(sub), w.Subst(sub)
		}
	}
	return g, w
}

// RefutedAt: cond is contradicted by the branch conditions known on entry to blk.
func (fc *FC) RefutedAt(blk *ssa.BasicBlock, cond *RF) bool {
	var as []Assumption
	as = append(as, fc.Assume...)
	for _, f := range fc.Ctx.Facts(blk) {
		as = append(as, Assumption{Cond: fc.Val(f.Cond), True: f.Val})
	}
	return fc.X.EvalCond(cond, as) == False
}

// InvariantEq: expr == want holds throughout the loop that carries the loop
// counters occurring in expr: it holds on entry (counters at their initial
// values) and is preserved by an iteration (counters at their next values
// give the same expr). E.g. i+j == len-1 for i from 0 up and j from len-1 down.
func (fc *FC) InvariantEq(expr, want *RF) bool {
	if expr.Equal(want) {
		return true
	}
	phs := fc.loopPhis(expr)
	if len(phs) == 0 {
		return false
	}
	initSub, nextSub := map[AtomID]*RF{}, map[AtomID]*RF{}
	ok := true
	func() {
		defer func() {
			if recover() != nil {
				ok = false
			}
		}()
		for _, p := range phs {
			// only the counters occurring directly in expr are substituted
			direct := false
			for _, at := range expr.Atoms(false) {
				if at.ID == p.SingleAtom().ID {
					direct = true
				}
			}
			if !direct {
				continue
			}
			pi, pn := fc.Recurrence(p)
			initSub[p.SingleAtom().ID] = pi
			nextSub[p.SingleAtom().ID] = pn
		}
	}()
	if !ok || len(initSub) == 0 {
		return false
	}
	return expr.Subst(initSub).Equal(want) && expr.Subst(nextSub).Equal(expr)
}

// fullScanDown: the descending form of FullScan (index n-1, n-2, …, 0).
func (b *B) fullScanDown(rule, construct, where string, lfc *FC, hdr *ssa.BasicBlock, k, ki, idx, n *RF, skipLast int64) bool {
	s := b.X.S
	kat := k.SingleAtom()
	if first := idx.Subst(map[AtomID]*RF{kat.ID: ki}); !first.Equal(n.Sub(s.Int(1))) && !b.X.EquivByCases(first, n.Sub(s.Int(1)), 0) && !(skipLast >= 1 && first.Equal(n.Sub(s.Int(2)))) {
		b.R.Fail(rule, construct, where, "the first index of the descending scan is "+clip(first.String(), 80)+", not "+clip(n.String(), 40)+"-1")
		return false
	}
	l, cond, guard, msg := b.loopGuard(lfc, hdr)
	if msg != "" {
		b.R.Fail(rule, construct, where, msg)
		return false
	}
	want := s.Cmp("<=", s.Int(0), idx)
	if !(cond.Equal(want) || b.X.EquivByCases(cond, want, 0)) {
		b.R.Fail(rule, construct, where, "the descending loop runs while "+clip(cond.String(), 120)+", not while 0 <= index: not every element is visited")
		return false
	}
	if msg := b.leftEarly(lfc, l, guard); msg != "" && !b.earlyExitsOK {
		b.R.Fail(rule, construct, where, msg)
		return false
	}
	b.R.OK(rule, construct, where, "visits every index "+clip(n.String(), 40)+"-1..0 once, in descending order")
	return true
}

// TripCount: the number of iterations of the top-tested counting loop headed
// by hdr, before clamping at 0 (the loop runs max(0, count) times): there is
// one integer header phi k in the loop's condition, k advances by +1 or -1
// per iteration, the condition is a comparison L < R or L <= R whose slack
// R-L shrinks by exactly 1 per iteration, and the loop cannot be left from
// inside an iteration. Ascending (`i := a; i < b; i++` → b-a), descending
// (`left := c; left > 0; left--` → c) and inclusive bounds alike.
func (b *B) TripCount(lfc *FC, hdr *ssa.BasicBlock) (count *RF, msg string) {
	s := b.X.S
	l, cond, guard, msg := b.loopGuard(lfc, hdr)
	if msg != "" {
		return nil, msg
	}
	if b.rotated {
		return nil, "bottom-tested loop"
	}
	ca := cond.SingleAtom()
	if ca == nil || (ca.Name != "cmp<" && ca.Name != "cmp<=") {
		return nil, "the loop condition is not an order comparison: " + clip(cond.String(), 100)
	}
	var k *RF
	for _, ph := range lfc.loopPhis(cond) {
		pa := ph.SingleAtom()
		if pa == nil || b.X.phiOf[pa.ID] == nil || b.X.phiOf[pa.ID].Block() != hdr {
			continue
		}
		if k != nil {
			return nil, "the loop condition mentions several loop-carried values"
		}
		k = ph
	}
	if k == nil {
		return nil, "the loop condition mentions no loop counter"
	}
	if !isIntType(b.X.phiOf[k.SingleAtom().ID].Type()) {
		return nil, "the loop counter is not an integer"
	}
	ki, kn := recurrenceOrNil(lfc, k)
	if ki == nil {
		return nil, "the loop counter has no recurrence"
	}
	d := ca.Args[1].Sub(ca.Args[0])
	kid := k.SingleAtom().ID
	if !d.Subst(map[AtomID]*RF{kid: kn}).Sub(d).Equal(s.Int(-1)) {
		return nil, "the bound's slack does not shrink by exactly 1 per iteration"
	}
	if m := b.leftEarly(lfc, l, guard); m != "" {
		return nil, m
	}
	count = d.Subst(map[AtomID]*RF{kid: ki})
	if ca.Name == "cmp<=" {
		count = count.Add(s.Int(1))
	}
	return count, ""
}
