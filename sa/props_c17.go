package main

import (
	"fmt"
	"go/types"
	"os"
	"strings"

	"golang.org/x/tools/go/ssa"
)

func init() {
	propFuncs["C17"] = propC17
	propInfos["C17"] = &PropInfo{
		Level:   "other",
		Explain: "Structural necessary conditions decided statically (DESIGN.md §5 C17): Linear.spacingAtLevel — exp=floor(level/2), spacing=ebase^exp (x5 iff level odd and Base==0), slack=(Max-Min)*1e-10, rounding INWARD for ticks (ceil((Min-slack)/s), floor((Max+slack)/s)) and OUTWARD for Nice (floor((Min+slack)/s), ceil((Max-slack)/s)) — the direction of rounding is what 'inside the domain' and 'Nice only expands' rest on; Log.spacingAtLevel likewise with ebase=Base^(2^level) in log space; sibling agreement CountTicks = len(TicksAtLevel) for linearTicker (count formula and Linspace length) and logTicker (count formula and generating loop firstN..lastN step 1 of base^n, reversal/negation loop for negative domains); Ticks' decision lists and major/minor = TicksAtLevel(level)/(level-1) for the level FindLevel returned; Nice writes Min'=firstN*spacing, Max'=lastN*spacing from spacingAtLevel(level,true) and nothing when FindLevel fails; FindLevel's prefix decisions, clamping of the guess, and the two searches as recurrences with their exit values; D-floor on the count conversions with guessLevel the one exemption (its result only feeds FindLevel's guess, whose contract quantifies over all guesses). Added after seed round 8 and the mutation sweep (DESIGN §11, §13): Log minor ticks (exactly one append under level<0, appended exactly when min <= tick <= max, Base-1 multiples per decade, decades firstN..lastN of the rounded-out level 0), Log.Nice on negative domains, coverage of the negate-and-reverse loop.",
		Assume:  []string{"A4 reals"},
		Undec:   []string{"that the level returned is the lowest feasible one for every monotone ticker (loop invariants not inferred)", "count <= Max, idempotence of Nice, finiteness of Nice's result at extreme levels (the property text notes Linear.Nice can produce NaN when only an overflowing level fits)"},
	}
}

func propC17(a *Analysis, r *Registry) {
	b := NewB(a, r)
	X := b.X
	S := X.S
	const rB = "B-C17 formula"
	sweepC17(a, r, b)
	X.NoInline["scale.(logTicker).TicksAtLevel"] = true // kept as an application (its own clauses are decided below)
	linLets := [][2]string{
		{"eb", "ite(s.Base==0, 10, s.Base)"},
		{"sp0", "pow(eb, floor(level/2))"},
		{"sp", "ite((imod(level,2)==1 || imod(level,2)==-1) && s.Base==0, sp0*5, sp0)"},
		{"slack", "(s.Max-s.Min)*1e-10"},
	}
	b.Formula(rB, "scale.(*Linear).spacingAtLevel/firstN", "scale.(*Linear).spacingAtLevel", []string{"s", "level", "roundOut"}, linLets, 0,
		"ite(roundOut, floor((s.Min+slack)/sp), ceil((s.Min-slack)/sp))", nil)
	b.Formula(rB, "scale.(*Linear).spacingAtLevel/lastN", "scale.(*Linear).spacingAtLevel", []string{"s", "level", "roundOut"}, linLets, 1,
		"ite(roundOut, ceil((s.Max-slack)/sp), floor((s.Max+slack)/sp))", nil)
	b.Formula(rB, "scale.(*Linear).spacingAtLevel/spacing", "scale.(*Linear).spacingAtLevel", []string{"s", "level", "roundOut"}, linLets, 2, "sp", nil)
	logLets := [][2]string{
		{"neg", "s.Min<0"}, {"lo", "ite(neg, -s.Max, s.Min)"}, {"hi", "ite(neg, -s.Min, s.Max)"},
		{"eb", "pow(s.Base, pow(2, level))"},
		{"lmin", "log(lo)/log(eb)"}, {"lmax", "log(hi)/log(eb)"}, {"slack", "(lmax-lmin)*1e-10"},
	}
	b.Formula(rB, "scale.(*Log).spacingAtLevel/firstN", "scale.(*Log).spacingAtLevel", []string{"s", "level", "roundOut"}, logLets, 0,
		"ite(roundOut, floor(lmin+slack), ceil(lmin-slack))", nil)
	b.Formula(rB, "scale.(*Log).spacingAtLevel/lastN", "scale.(*Log).spacingAtLevel", []string{"s", "level", "roundOut"}, logLets, 1,
		"ite(roundOut, ceil(lmax-slack), floor(lmax+slack))", nil)
	b.Formula(rB, "scale.(*Log).spacingAtLevel/ebase", "scale.(*Log).spacingAtLevel", []string{"s", "level", "roundOut"}, logLets, 2, "eb", nil)

	// linearTicker siblings
	sal := [][2]string{{"f", "t.s.spacingAtLevel(level, t.roundOut)#0"}, {"l", "t.s.spacingAtLevel(level, t.roundOut)#1"}, {"sp", "t.s.spacingAtLevel(level, t.roundOut)#2"}}
	b.Formula("B-C17 siblings", "scale.(linearTicker).CountTicks", "scale.(linearTicker).CountTicks", []string{"t", "level"}, sal, 0, "int(l-f+1)", nil)
	b.Formula("B-C17 siblings", "scale.(linearTicker).TicksAtLevel", "scale.(linearTicker).TicksAtLevel", []string{"t", "level"}, sal, 0, "vec.Linspace(f*sp, l*sp, int(l-f+1))", nil)
	b.Formula("B-C17 siblings", "scale.(Linear).CountTicks", "scale.(Linear).CountTicks", []string{"s", "level"}, nil, 0, "linearTicker(ref(s), false).CountTicks(level)", nil)
	b.Formula("B-C17 siblings", "scale.(Linear).TicksAtLevel", "scale.(Linear).TicksAtLevel", []string{"s", "level"}, nil, 0, "linearTicker(ref(s), false).TicksAtLevel(level)", nil)
	// Linspace length is its num argument (decided under C09; repeated here because the sibling law needs it)
	if lf := b.Fn("B-C17 siblings", "vec.Linspace"); lf != nil {
		b.guard("B-C17 siblings", "vec.Linspace/len", func() {
			fc := X.FCFor(lf)
			ok := true
			for _, rt := range fc.Ctx.Returns() {
				at := fc.Val(rt.Results[0]).SingleAtom()
				if at == nil || len(at.Name) < 10 || at.Name[:10] != "makeslice:" || !at.Args[0].Equal(X.ParamRF(lf, 2)) {
					ok = false
				}
			}
			if ok {
				r.OK("B-C17 siblings", "vec.Linspace/len", b.pos(lf), "len(Linspace(lo,hi,num)) = num on every path")
			} else {
				r.Fail("B-C17 siblings", "vec.Linspace/len", b.pos(lf), "Linspace does not return a slice of length num")
			}
		})
	}
	// logTicker
	lsal := [][2]string{{"f", "t.s.spacingAtLevel(level, t.roundOut)#0"}, {"l", "t.s.spacingAtLevel(level, t.roundOut)#1"}, {"base", "t.s.spacingAtLevel(level, t.roundOut)#2"}}
	b.Formula("B-C17 siblings", "scale.(logTicker).CountTicks", "scale.(logTicker).CountTicks", []string{"t", "level"}, lsal, 0,
		"ite(level<0, "+maxIntOf(a)+", int(l-f+1))", nil)
	if fn := b.Fn("B-C17 siblings", "scale.(logTicker).TicksAtLevel"); fn != nil {
		name := "scale.(logTicker).TicksAtLevel"
		b.guard("B-C17 siblings", name+"/level>=0", func() {
			env := X.EnvFor(fn, "t", "level")
			for _, l := range lsal {
				env.Let(l[0], l[1])
			}
			fc := X.Under(fn, X.AssumeCond(env.MustParse("level<0"), false), X.AssumeCond(env.MustParse("t.s.Min<0"), false))
			// the append in the generating loop
			var app *ssa.Call
			// (the generating loop may sit in a helper reached on this path)
			for _, sfc := range fc.BoundCallees(1) {
				for _, c := range sfc.CallsTo("builtin:append") {
					app, fc = c, sfc
				}
				if app != nil {
					break
				}
			}
			if app == nil {
				anchorFail("no tick is appended")
			}
			vals := fc.AppendedValues(app)
			if len(vals) != 1 {
				anchorFail("expected one tick appended per step")
			}
			top := vals[0].SingleAtom()
			if top == nil || top.Name != "math.Pow" {
				r.Fail("B-C17 siblings", name+"/tick-value", a.W.InstrPos(app), "the tick is not base^n: "+clip(vals[0].String(), 160))
				return
			}
			n := top.Args[1]
			env.Set("n", n, nil)
			b.Eq("B-C17 siblings", name+"/tick-value", a.W.InstrPos(app), vals[0], env, "pow(base, n)")
			ni, nn := fc.Recurrence(n)
			b.Eq("B-C17 siblings", name+"/n-init", a.W.InstrPos(app), ni, env, "f")
			b.Eq("B-C17 siblings", name+"/n-step", a.W.InstrPos(app), nn, env, "n+1")
			hdr := X.phiOf[n.SingleAtom().ID].Block()
			if ifi, ok := hdr.Instrs[len(hdr.Instrs)-1].(*ssa.If); ok {
				b.Eq("B-C17 siblings", name+"/n-bound", a.W.InstrPos(ifi), fc.Val(ifi.Cond), env, "n<=l")
			} else {
				r.Fail("B-C17 siblings", name+"/n-bound", b.pos(fn), "generating loop has no bound")
			}
		})
		// minor ticks (level < 0): m·Base^n for n over the rounded-out level-0 range and
		// m = 1..Base-1, each appended only under min <= tick <= max — "inside the domain"
		// for minor ticks rests on that guard alone, because the range is rounded OUT
		b.guard("B-C17 minor", name+"/level<0", func() {
			env := X.EnvFor(fn, "t", "level")
			env.Let("f0", "t.s.spacingAtLevel(0, true)#0")
			env.Let("l0", "t.s.spacingAtLevel(0, true)#1")
			env.Let("lo", "t.s.ebounds()#1")
			env.Let("hi", "t.s.ebounds()#2")
			top := X.Under(fn, X.AssumeCond(env.MustParse("level<0"), true), X.AssumeCond(env.MustParse("t.s.Min<0"), false))
			napp := 0
			for _, fc := range top.BoundCallees(1) {
				for _, app := range fc.CallsTo("builtin:append") {
					if fc.RefutedAt(app.Block(), env.MustParse("level<0")) {
						continue
					}
					napp++
					where := a.W.InstrPos(app)
					cn := name + "/level<0"
					vals := fc.AppendedValues(app)
					if len(vals) != 1 {
						r.Undecided("B-C17 minor", cn, where, "anchor: expected one tick appended per step")
						continue
					}
					v := vals[0]
					env.Set("v", v, nil)
					if fc.HoldsAt(app.Block(), env.MustParse("lo<=v")) && fc.HoldsAt(app.Block(), env.MustParse("v<=hi")) {
						r.OK("C-guard in-domain", cn+"/append", where, "the minor tick is appended only under min <= tick <= max of the (sign-normalised) domain")
						// … and whenever that holds (a major tick equal to an end of the domain is a minor tick too)
						if pa := v.SingleAtom(); pa != nil && X.phiOf[pa.ID] != nil {
							vh := X.phiOf[pa.ID].Block()
							var body *ssa.BasicBlock
							if lp := fc.Ctx.LoopOf(app.Block()); lp != nil && lp.Header == vh {
								exits := false
								for _, sc := range vh.Succs {
									if lp.Body[sc.Index] {
										body = sc
									} else {
										exits = true
									}
								}
								if !exits {
									body = vh // bottom-tested loop: the header is the start of the body
								}
							}
							if body != nil {
								b.EqRF("C-guard in-domain", cn+"/append/exactly", where, fc.ReachCondFrom(body, app.Block()), env.MustParse("lo<=v && v<=hi"), "within an iteration the tick is appended exactly when min <= tick <= max")
							}
						}
					} else {
						r.Fail("C-guard in-domain", cn+"/append", where, "a minor tick is appended without the guard min <= tick <= max: the rounded-out range reaches outside the domain")
					}
					// the value: tick starts at Base^n and advances by Base^n, Base-1 times
					ti, tn := fc.Recurrence(v)
					if ti == nil || tn == nil {
						r.Undecided("B-C17 minor", cn+"/tick-value", where, "anchor: the appended tick is not carried around a loop: "+clip(v.String(), 120))
						continue
					}
					pw := ti.SingleAtom()
					if pw == nil || pw.Name != "math.Pow" {
						r.Fail("B-C17 minor", cn+"/tick-value", where, "the first minor tick of a decade is not Base^n: "+clip(ti.String(), 160))
						continue
					}
					n := pw.Args[1]
					env.Set("n", n, nil)
					b.EqRF("B-C17 minor", cn+"/tick-init", where, ti, env.MustParse("pow(float(t.s.Base), n)"), "≡ pow(float(t.s.Base), n)")
					b.EqRF("B-C17 minor", cn+"/tick-step", where, tn, env.MustParse("v+pow(float(t.s.Base), n)"), "≡ tick + pow(float(t.s.Base), n)")
					// the multiples: the loop that carries the tick runs exactly Base-1 times
					hdr := X.phiOf[v.SingleAtom().ID].Block()
					if cnt, msg := b.TripCount(X.phiFC[v.SingleAtom().ID], hdr); msg != "" {
						r.Fail("B-C17 minor", cn+"/multiples", where, "the loop over the multiples of Base^n is not a counting loop: "+msg)
					} else {
						b.EqRF("B-C17 minor", cn+"/multiples", where, cnt, env.MustParse("t.s.Base-1"), "the loop over the multiples of Base^n runs Base-1 times")
					}
					// the decades
					ni, nn := fc.Recurrence(n)
					if ni == nil || nn == nil {
						r.Undecided("B-C17 minor", cn+"/n", where, "anchor: the exponent is not carried around a loop")
						continue
					}
					b.EqRF("B-C17 minor", cn+"/n-init", where, ni, env.MustParse("f0"), "≡ spacingAtLevel(0, true) firstN")
					b.EqRF("B-C17 minor", cn+"/n-step", where, nn, env.MustParse("n+1"), "≡ n+1")
					nh := X.phiOf[n.SingleAtom().ID].Block()
					// the minor form is produced exactly for negative levels (level 0 must give the
					// powers of the base themselves)
					if fc.Fn == fn {
						fc0 := X.FCFor(fn)
						var nl *Loop
						for _, l := range fc0.Ctx.Loops() {
							if l.Header == nh {
								nl = l
							}
						}
						if nl != nil {
							entry := S.False()
							for _, p := range fc0.Ctx.LivePreds(nh) {
								if !nl.Body[p.Index] {
									entry = S.Or(entry, S.And(fc0.ReachCond(p), fc0.edgeCond(p, nh)))
								}
							}
							b.EqRF("C-decision", cn+"/when", where, entry, env.MustParse("level<0"), "the minor ticks are generated exactly when level < 0")
						}
					}
					if ifi, ok := nh.Instrs[len(nh.Instrs)-1].(*ssa.If); ok {
						b.EqRF("B-C17 minor", cn+"/n-bound", a.W.InstrPos(ifi), fc.Val(ifi.Cond), env.MustParse("n<=l0"), "≡ n <= spacingAtLevel(0, true) lastN")
					} else {
						r.Fail("B-C17 minor", cn+"/n-bound", where, "the decade loop has no bound")
					}
				}
			}
			if napp != 1 {
				r.Fail("B-C17 minor", name+"/level<0", b.pos(fn), "expected exactly one append of a minor tick on the level<0 path, found "+itoa(napp))
			}
		})
		b.guard(rB, name+"/negated-domain", func() {
			env := X.EnvFor(fn, "t", "level")
			top := X.Under(fn, X.AssumeCond(env.MustParse("t.s.Min<0"), true))
			// stores of one element of ticks (possibly negated) into ticks, inside loops:
			// mirror-negate ticks[i] = -ticks[len-1-i]; mirror-swap ticks[i] = ticks[len-1-i];
			// negate-in-place ticks[i] = -ticks[i]
			mirrorNeg, mirrorSwap, negInPlace, other := 0, 0, 0, 0
			var ticks *RF
			var mirrorI, mirrorJ *RF
			var mirrorFC *FC
			for _, fc := range top.BoundCallees(1) {
				fc := fc
				fc.Ctx.Instrs(func(in ssa.Instruction) {
					st, ok := in.(*ssa.Store)
					if !ok || !isFloatType(st.Val.Type()) {
						return
					}
					ia, ok := st.Addr.(*ssa.IndexAddr)
					if !ok || fc.Ctx.LoopOf(st.Block()) == nil {
						return
					}
					v := fc.Val(st.Val)
					src := FindFn(v, "idx")
					if len(src) != 1 || !src[0].Args[0].Equal(fc.Val(ia.X)) {
						return
					}
					elem := S.atomRF(src[0].ID)
					negated := v.Equal(elem.Neg())
					if !negated && !v.Equal(elem) {
						return
					}
					ticks = fc.Val(ia.X)
					i, j := fc.Val(ia.Index), src[0].Args[1]
					e := X.EnvFor(fn, "t", "level")
					e.Set("ticks", ticks, nil)
					// mirror positions: i + j == len(ticks)-1, syntactically or as a loop invariant of two counters
					mirror := fc.InvariantEq(i.Add(j), e.MustParse("len(ticks)-1"))
					if mirror {
						if mirrorI == nil || len(i.String()) < len(mirrorI.String()) {
							mirrorI, mirrorJ, mirrorFC = i, j, fc
						}
					}
					switch {
					case mirror && negated:
						mirrorNeg++
					case mirror:
						mirrorSwap++
					case negated && i.Equal(j):
						if b.FullScan("C-scan coverage", name+"/negated-domain/negates-all", a.W.InstrPos(st), fc, i, e.MustParse("len(ticks)")) {
							negInPlace++
						} else {
							other++
						}
					default:
						other++
					}
				})
			}
			// the exchange covers the whole slice, each pair once: the lower index runs 0, 1, … while
			// it is below the middle — (len+1)/2 when the exchange also negates (the middle element of
			// an odd count must be negated once), len/2 or (len+1)/2 for a pure swap; with two
			// counters (`i <= j`, `i < j`) the upper one is len-1-i throughout
			if mirrorI != nil && (mirrorNeg == 2 || mirrorSwap == 2) && ticks != nil {
				e := X.EnvFor(fn, "t", "level")
				e.Set("ticks", ticks, nil)
				half := []*RF{e.MustParse("idiv(len(ticks)+1,2)")}
				if mirrorSwap == 2 {
					half = append(half, e.MustParse("idiv(len(ticks),2)"))
				}
				cn := name + "/negated-domain/covers-all"
				where := b.pos(fn)
				done := false
				ownPhis := func(v *RF) []*RF {
					var out []*RF
					for _, ph := range mirrorFC.loopPhis(v) {
						if pa := ph.SingleAtom(); pa != nil && X.phiOf[pa.ID] != nil && X.phiOf[pa.ID].Block().Parent() == mirrorFC.Fn && len(FindAtomID(v, pa.ID)) > 0 {
							direct := false
							for _, t := range v.Atoms(false) {
								if t.ID == pa.ID {
									direct = true
								}
							}
							if direct {
								out = append(out, ph)
							}
						}
					}
					return out
				}
				if ipn, jpn := ownPhis(mirrorI), ownPhis(mirrorJ); len(jpn) == 1 && len(ipn) == 1 && !jpn[0].Equal(ipn[0]) {
					// two counters: the guard with the upper one replaced by len-1-i
					ip, jp := ipn[0], jpn[0]
					hdr := X.phiOf[ip.SingleAtom().ID].Block()
					ii, in := recurrenceOrNil(mirrorFC, ip)
					_, jn := recurrenceOrNil(mirrorFC, jp)
					_, cond, guard, msg := b.loopGuard(mirrorFC, hdr)
					var lp *Loop
					for _, l := range mirrorFC.Ctx.Loops() {
						if l.Header == hdr {
							lp = l
						}
					}
					if msg == "" && ii != nil && jn != nil && lp != nil && ii.Equal(S.Int(0)) && in.Equal(ip.Add(S.Int(1))) && jn.Equal(jp.Sub(S.Int(1))) && b.leftEarly(mirrorFC, lp, guard) == "" {
						// i and j as the indexes actually used
						sub := map[AtomID]*RF{jp.SingleAtom().ID: e.MustParse("len(ticks)-1").Sub(mirrorI).Add(jp).Sub(mirrorJ)}
						c2 := cond.Subst(sub)
						for _, h := range half {
							want := S.Cmp("<", mirrorI, h)
							if c2.Equal(want) || X.EquivByCases(c2, want, 0) {
								done = true
							}
						}
					}
					if done {
						r.OK("C-scan coverage", cn, where, "two counters meeting in the middle: every pair is exchanged once")
					} else {
						r.Fail("C-scan coverage", cn, where, "the exchange loop does not run exactly while the lower index is below the middle: "+clip(cond.String(), 160))
					}
				} else {
					alts := []func(){}
					for _, h := range half {
						h := h
						alts = append(alts, func() { b.FullScan("C-scan coverage", cn, where, mirrorFC, mirrorI, h) })
					}
					b.AnyOf(alts...)
				}
			}
			// the exchange delegated to package slices (or the repository's own in-place Reverse)
			// on the negated slice
			libRev := 0
			if ticks != nil {
				for _, fc := range top.BoundCallees(1) {
					fc := fc
					fc.Ctx.Instrs(func(in ssa.Instruction) {
						c, ok := in.(*ssa.Call)
						if !ok || c.Call.StaticCallee() == nil || len(c.Call.Args) != 1 {
							return
						}
						if strings.HasPrefix(c.Call.StaticCallee().String(), "slices.Reverse[") && fc.Val(c.Call.Args[0]).Equal(ticks) {
							libRev++
						}
					})
				}
			}
			switch {
			case mirrorNeg == 0 && mirrorSwap == 0 && negInPlace == 1 && other == 0 && libRev == 1:
				r.OK(rB, name+"/negated-domain", b.pos(fn), "for negative domains every tick is negated and the slice reversed by slices.Reverse")
			case mirrorNeg == 2 && mirrorSwap == 0 && negInPlace == 0 && other == 0:
				r.OK(rB, name+"/negated-domain", b.pos(fn), "for negative domains ticks[i] and ticks[len-1-i] are exchanged and negated")
			case mirrorNeg == 0 && mirrorSwap == 2 && negInPlace == 1 && other == 0:
				r.OK(rB, name+"/negated-domain", b.pos(fn), "for negative domains every tick is negated and ticks[i], ticks[len-1-i] are exchanged")
			default:
				r.Fail(rB, name+"/negated-domain", b.pos(fn), "the reversal loop does not exchange and negate mirror positions")
			}
		})
	}
	// Ticks
	for _, typ := range []string{"Linear", "Log"} {
		typ := typ
		fn := b.Fn(rB, "scale.("+typ+").Ticks")
		if fn == nil {
			continue
		}
		name := "scale.(" + typ + ").Ticks"
		b.guard(rB, name, func() {
			env := X.EnvFor(fn, "s", "o")
			fc := X.Under(fn, X.AssumeCond(env.MustParse("o.Max<=0"), false), X.AssumeCond(env.MustParse("s.Min==s.Max"), false))
			call := fc.TheCallTo("scale.(*TickOptions).FindLevel")
			// the search runs with the caller's options as given (a rewritten copy can turn a limit
			// into the MinLevel == MaxLevel == 0 "no limits" sentinel, or drop one)
			b.EqRF(rB, name+"/options-as-given", a.W.InstrPos(call), fc.Val(call.Call.Args[0]), S.MakeFn("ref", env.Vars["o"].RF), "FindLevel is called on the TickOptions passed in, unchanged")
			lvl, okv := tupleOf(fc, call, 0), tupleOf(fc, call, 1)
			fc2 := X.Under(fn, X.AssumeCond(env.MustParse("o.Max<=0"), false), X.AssumeCond(env.MustParse("s.Min==s.Max"), false), X.AssumeEq(okv, S.True()))
			// major and minor are the ticks of the ticker handed to FindLevel, at the level found and one below
			e := X.EnvFor(fn, "s", "o")
			e.Set("level", lvl, nil)
			tkv := call.Call.Args[1]
			if mi, isMI := tkv.(*ssa.MakeInterface); isMI {
				tkv = mi.X // the concrete ticker
			}
			e.Set("ticker", fc.Val(tkv), tkv.Type())
			// … and that ticker is this scale's own, rounding INWARD (ticks stay inside the domain)
			if ta := fc.Val(tkv).SingleAtom(); ta == nil || !strings.HasPrefix(ta.Name, "mk:") || !strings.HasSuffix(ta.Name, "Ticker") || len(ta.Args) != 2 || !ta.Args[1].Equal(S.False()) {
				r.Fail(rB, name+"/ticker", a.W.InstrPos(call), "Ticks does not search the levels with this scale's round-in ticker {&s, false}: "+clip(fc.Val(tkv).String(), 120))
			} else {
				r.OK(rB, name+"/ticker", a.W.InstrPos(call), "Ticks searches levels with "+strings.TrimPrefix(ta.Name, "mk:")+"{&s, roundOut: false}")
			}
			b.EqUnder(rB, name+"/major-level", b.pos(fn), fc2, fc2.RetVal(0), e, "ticker.TicksAtLevel(level)")
			b.EqUnder(rB, name+"/minor-level", b.pos(fn), fc2, fc2.RetVal(1), e, "ticker.TicksAtLevel(level-1)")
			// failure → nil,nil
			fc3 := X.Under(fn, X.AssumeCond(env.MustParse("o.Max<=0"), false), X.AssumeCond(env.MustParse("s.Min==s.Max"), false), X.AssumeEq(okv, S.False()))
			b.EqRF(rB, name+"/no-level→nil", b.pos(fn), fc3.Sub(fc3.RetVal(0)), S.Var("nil", false), "no ticks when no level fits")
			// Max<=0 → nil
			fc4 := X.Under(fn, X.AssumeCond(env.MustParse("o.Max<=0"), true))
			b.EqRF(rB, name+"/Max<=0→nil", b.pos(fn), fc4.Sub(fc4.RetVal(0)), S.Var("nil", false), "no ticks when none are allowed")
			// a one-point domain has that point as its only tick: no level is searched for
			fc5 := X.Under(fn, X.AssumeCond(env.MustParse("o.Max<=0"), false), X.AssumeCond(env.MustParse("s.Min==s.Max"), true))
			nSearch := len(fc5.CallsTo("scale.(*TickOptions).FindLevel"))
			one := false
			if m5 := fc5.Sub(fc5.RetVal(0)); nSearch == 0 {
				fc5.Ctx.Instrs(func(in ssa.Instruction) {
					st, ok := in.(*ssa.Store)
					if !ok {
						return
					}
					if at := fc5.Val(st.Addr).SingleAtom(); at != nil && at.Name == "&idx" && at.Args[0].Equal(m5) {
						if v := fc5.Val(st.Val); v.Equal(env.MustParse("s.Min")) || v.Equal(env.MustParse("s.Max")) {
							one = true
						}
					}
				})
			}
			if os.Getenv("GMSA_DEBUG_C17B") != "" {
				fmt.Fprintf(os.Stderr, "C17B %s nSearch=%d ret=%s\n", name, nSearch, fc5.Sub(fc5.RetVal(0)))
			}
			if one {
				r.OK("C-decision", name+"/one-point-domain", b.pos(fn), "Min == Max: the point itself is returned, without a level search")
			} else {
				r.Fail("C-decision", name+"/one-point-domain", b.pos(fn), "a one-point domain (Min == Max) is not answered with that point before the level search")
			}
			// the ticker works on the ordered domain whichever way the ends were given (Linear)
			if ta := fc.Val(tkv).SingleAtom(); typ == "Linear" && ta != nil && len(ta.Args) == 2 {
				sc := unref(ta.Args[0]).SingleAtom()
				if sc == nil || sc.Name != "mk:Linear" || len(sc.Args) < 2 {
					r.Undecided("C-decision", name+"/ordered-domain", a.W.InstrPos(call), "anchor: the ticker's scale is not a Linear value built in Ticks: "+clip(ta.Args[0].String(), 120))
				} else {
					b.Eq("C-decision", name+"/ordered-domain/Min", a.W.InstrPos(call), sc.Args[0], env, "ite(s.Max<s.Min, s.Max, s.Min)")
					b.Eq("C-decision", name+"/ordered-domain/Max", a.W.InstrPos(call), sc.Args[1], env, "ite(s.Max<s.Min, s.Min, s.Max)")
				}
			}
		})
	}
	// Nice
	if fn := b.Fn(rB, "scale.(*Linear).Nice"); fn != nil {
		name := "scale.(*Linear).Nice"
		b.guard(rB, name, func() {
			env := X.EnvFor(fn, "s", "o")
			base := []Assumption{X.AssumeCond(env.MustParse("s.Min==s.Max"), false), X.AssumeCond(env.MustParse("s.Max<s.Min"), false)}
			fc := X.Under(fn, base...)
			call := fc.TheCallTo("scale.(*TickOptions).FindLevel")
			// the search runs with the caller's options as given (a rewritten copy can turn a limit
			// into the MinLevel == MaxLevel == 0 "no limits" sentinel, or drop one)
			b.EqRF(rB, name+"/options-as-given", a.W.InstrPos(call), fc.Val(call.Call.Args[0]), S.MakeFn("ref", env.Vars["o"].RF), "FindLevel is called on the TickOptions passed in, unchanged")
			lvl, okv := tupleOf(fc, call, 0), tupleOf(fc, call, 1)
			tk := fc.Val(call.Call.Args[1]).SingleAtom()
			if tk == nil || tk.Name != "mk:linearTicker" || !tk.Args[1].Equal(S.True()) {
				r.Fail(rB, name+"/ticker", a.W.InstrPos(call), "Nice does not search with the round-out ticker")
			} else {
				r.OK(rB, name+"/ticker", a.W.InstrPos(call), "Nice searches levels with linearTicker{s, roundOut: true}")
			}
			fcOK := X.Under(fn, append(base, X.AssumeEq(okv, S.True()))...)
			e := X.EnvFor(fn, "s", "o")
			e.Set("level", lvl, nil)
			b.EqUnder(rB, name+"/Min'", b.pos(fn), fcOK, fcOK.FieldAtExit(0, "Min"), e, "s.spacingAtLevel(level, true)#0*s.spacingAtLevel(level, true)#2")
			b.EqUnder(rB, name+"/Max'", b.pos(fn), fcOK, fcOK.FieldAtExit(0, "Max"), e, "s.spacingAtLevel(level, true)#1*s.spacingAtLevel(level, true)#2")
			fcNo := X.Under(fn, append(base, X.AssumeEq(okv, S.False()))...)
			b.Eq(rB, name+"/unchanged-on-failure/Min", b.pos(fn), fcNo.FieldAtExit(0, "Min"), e, "s.Min")
			b.Eq(rB, name+"/unchanged-on-failure/Max", b.pos(fn), fcNo.FieldAtExit(0, "Max"), e, "s.Max")
			// the domain the search runs on (what the fields hold when no level fits): a reversed
			// domain put in order, a one-point domain widened outward — however that is written
			func() {
				rev := []Assumption{X.AssumeCond(env.MustParse("s.Min==s.Max"), false), X.AssumeCond(env.MustParse("s.Max<s.Min"), true)}
				fcR := X.Under(fn, rev...)
				cR := fcR.TheCallTo("scale.(*TickOptions).FindLevel")
				fcRno := X.Under(fn, append(rev, X.AssumeEq(tupleOf(fcR, cR, 1), S.False()))...)
				b.Eq("C-decision", name+"/reversed-domain/Min", b.pos(fn), fcRno.FieldAtExit(0, "Min"), e, "s.Max")
				b.Eq("C-decision", name+"/reversed-domain/Max", b.pos(fn), fcRno.FieldAtExit(0, "Max"), e, "s.Min")
				one := []Assumption{X.AssumeCond(env.MustParse("s.Min==s.Max"), true)}
				fcO := X.Under(fn, one...)
				cO := fcO.TheCallTo("scale.(*TickOptions).FindLevel")
				fcOno := X.Under(fn, append(one, X.AssumeEq(tupleOf(fcO, cO, 1), S.False()))...)
				dmin, dmax := fcOno.Sub(fcOno.FieldAtExit(0, "Min")).Sub(env.MustParse("s.Min")), fcOno.Sub(fcOno.FieldAtExit(0, "Max")).Sub(env.MustParse("s.Max"))
				c1, ok1 := dmin.IsConst()
				c2, ok2 := dmax.IsConst()
				if ok1 && ok2 && c1.Sign() < 0 && c2.Sign() > 0 {
					r.OK("C-decision", name+"/one-point-domain", b.pos(fn), "a one-point domain is widened outward on both sides before the search")
				} else {
					r.Fail("C-decision", name+"/one-point-domain", b.pos(fn), "a one-point domain is not widened outward on both sides: Min' − Min = "+clip(dmin.String(), 60)+", Max' − Max = "+clip(dmax.String(), 60))
				}
			}()
		})
	}
	if fn := b.Fn(rB, "scale.(*Log).Nice"); fn != nil {
		name := "scale.(*Log).Nice"
		b.guard(rB, name, func() {
			env := X.EnvFor(fn, "s", "o")
			base := []Assumption{X.AssumeCond(env.MustParse("s.Min==s.Max"), false), X.AssumeCond(env.MustParse("s.Min<0"), false)}
			fc := X.Under(fn, base...)
			call := fc.TheCallTo("scale.(*TickOptions).FindLevel")
			// the search runs with the caller's options as given (a rewritten copy can turn a limit
			// into the MinLevel == MaxLevel == 0 "no limits" sentinel, or drop one)
			b.EqRF(rB, name+"/options-as-given", a.W.InstrPos(call), fc.Val(call.Call.Args[0]), S.MakeFn("ref", env.Vars["o"].RF), "FindLevel is called on the TickOptions passed in, unchanged")
			lvl, okv := tupleOf(fc, call, 0), tupleOf(fc, call, 1)
			// the level is searched with the ROUND-OUT ticker of this scale (counting the ticks of the
			// domain as it stands would pick a level whose rounded-out domain has more than Max ticks)
			if tk := fc.Val(call.Call.Args[1]).SingleAtom(); tk == nil || tk.Name != "mk:logTicker" || len(tk.Args) != 2 || !tk.Args[1].Equal(S.True()) || !tk.Args[0].Equal(X.ParamRF(fn, 0)) {
				r.Fail(rB, name+"/ticker", a.W.InstrPos(call), "Nice does not search the levels with logTicker{s, roundOut: true}: "+clip(fc.Val(call.Call.Args[1]).String(), 120))
			} else {
				r.OK(rB, name+"/ticker", a.W.InstrPos(call), "Nice searches levels with logTicker{s, roundOut: true}")
			}
			fcOK := X.Under(fn, append(base, X.AssumeEq(okv, S.True()))...)
			e := X.EnvFor(fn, "s", "o")
			e.Set("level", lvl, nil)
			b.EqUnder(rB, name+"/Min'", b.pos(fn), fcOK, fcOK.FieldAtExit(0, "Min"), e, "pow(s.spacingAtLevel(level, true)#2, s.spacingAtLevel(level, true)#0)")
			b.EqUnder(rB, name+"/Max'", b.pos(fn), fcOK, fcOK.FieldAtExit(0, "Max"), e, "pow(s.spacingAtLevel(level, true)#2, s.spacingAtLevel(level, true)#1)")
			fcNo := X.Under(fn, append(base, X.AssumeEq(okv, S.False()))...)
			b.Eq(rB, name+"/unchanged-on-failure/Min", b.pos(fn), fcNo.FieldAtExit(0, "Min"), e, "s.Min")
			b.Eq(rB, name+"/unchanged-on-failure/Max", b.pos(fn), fcNo.FieldAtExit(0, "Max"), e, "s.Max")
			// a one-point domain is left as it is
			fcOne := X.Under(fn, X.AssumeCond(env.MustParse("s.Min==s.Max"), true))
			if len(fcOne.CallsTo("scale.(*TickOptions).FindLevel")) == 0 {
				b.Eq("C-decision", name+"/one-point-domain/Min", b.pos(fn), fcOne.FieldAtExit(0, "Min"), e, "s.Min")
				b.Eq("C-decision", name+"/one-point-domain/Max", b.pos(fn), fcOne.FieldAtExit(0, "Max"), e, "s.Max")
			} else {
				r.Fail("C-decision", name+"/one-point-domain", b.pos(fn), "a one-point domain (Min == Max) is not left unchanged: the level search runs on it")
			}
			// a negative domain: the powers are negated and exchanged (Min' = −base^lastN, Max' = −base^firstN)
			negBase := []Assumption{X.AssumeCond(env.MustParse("s.Min==s.Max"), false), X.AssumeCond(env.MustParse("s.Min<0"), true)}
			fcN := X.Under(fn, negBase...)
			callN := fcN.TheCallTo("scale.(*TickOptions).FindLevel")
			lvlN, okN := tupleOf(fcN, callN, 0), tupleOf(fcN, callN, 1)
			fcNOK := X.Under(fn, append(negBase, X.AssumeEq(okN, S.True()))...)
			eN := X.EnvFor(fn, "s", "o")
			eN.Set("level", lvlN, nil)
			b.EqUnder(rB, name+"/negative/Min'", b.pos(fn), fcNOK, fcNOK.FieldAtExit(0, "Min"), eN, "-pow(s.spacingAtLevel(level, true)#2, s.spacingAtLevel(level, true)#1)")
			b.EqUnder(rB, name+"/negative/Max'", b.pos(fn), fcNOK, fcNOK.FieldAtExit(0, "Max"), eN, "-pow(s.spacingAtLevel(level, true)#2, s.spacingAtLevel(level, true)#0)")
		})
	}
	// the domain is put in order exactly when it is reversed, and a degenerate domain is widened
	// on both sides (Nice): decisions the value formulas above do not see, because they are
	// stated on whatever domain reaches the ticker
	for _, fname := range []string{"scale.(Linear).Ticks", "scale.(*Linear).Nice"} {
		fname := fname
		fn := b.Fn("C-decision", fname)
		if fn == nil {
			continue
		}
		b.guard("C-decision", fname+"/domain-order", func() {
			fc := X.FCFor(fn)
			p0 := X.ParamRF(fn, 0)
			minO, maxO := S.MakeFn("fld:Linear.Min", p0), S.MakeFn("fld:Linear.Max", p0)
			reversed := S.Cmp("<", maxO, minO)
			degenerate := S.Cmp("==", maxO, minO)
			nSwap, nWiden := 0, 0
			fc.Ctx.Instrs(func(in ssa.Instruction) {
				st, ok := in.(*ssa.Store)
				if !ok {
					return
				}
				at := fc.Val(st.Addr).SingleAtom()
				if at == nil || (at.Name != "&fld:Linear.0" && at.Name != "&fld:Linear.1") {
					return
				}
				isMin := at.Name == "&fld:Linear.0"
				v := fc.Val(st.Val)
				where := a.W.InstrPos(st)
				switch {
				case (isMin && v.Equal(maxO)) || (!isMin && v.Equal(minO)):
					nSwap++
					if fc.HoldsAt(st.Block(), reversed) {
						r.OK("C-decision", fname+"/domain-order/swap#"+itoa(nSwap), where, "the ends are exchanged only when Max < Min")
					} else {
						r.Fail("C-decision", fname+"/domain-order/swap#"+itoa(nSwap), where, "the ends of the domain are exchanged without Max < Min being known: an ordered domain is reversed")
					}
				case fc.HoldsAt(st.Block(), degenerate):
					nWiden++
					d := v.Sub(minO)
					if !isMin {
						d = v.Sub(maxO)
					}
					c, isC := d.IsConst()
					if isC && ((isMin && c.Sign() < 0) || (!isMin && c.Sign() > 0)) {
						r.OK("C-decision", fname+"/degenerate/"+map[bool]string{true: "Min", false: "Max"}[isMin], where, "a one-point domain is widened outward by a constant")
					} else {
						r.Fail("C-decision", fname+"/degenerate/"+map[bool]string{true: "Min", false: "Max"}[isMin], where, "a one-point domain is not widened outward: "+clip(v.String(), 120))
					}
				}
			})
			if nSwap != 0 && nSwap != 2 {
				r.Fail("C-decision", fname+"/domain-order", b.pos(fn), "expected both ends exchanged for a reversed domain, found "+itoa(nSwap)+" store(s)")
			}
			if nSwap == 0 && nWiden == 0 {
				// (no store into the fields before the search: the ordering may be done in locals —
				// then the value rules on the ticker's scale speak; if the scale is used through the
				// receiver itself, as in Nice, nothing orders it)
				r.OK("C-decision", fname+"/domain-order", b.pos(fn), "no in-place ordering (decided on the ticker's scale / on the fields left when no level fits)")
			}
		})
	}
	// FindLevel
	if fn := b.Fn(rB, "scale.(*TickOptions).FindLevel"); fn != nil {
		name := "scale.(*TickOptions).FindLevel"
		b.guard("C-decision", name, func() {
			fc := X.FCFor(fn)
			env := X.EnvFor(fn, "o", "ticker", "guess")
			env.Let("dflt", "o.MinLevel==0 && o.MaxLevel==0")
			env.Let("minL", "ite(dflt, -1000, o.MinLevel)")
			env.Let("maxL", "ite(dflt, 1000, o.MaxLevel)")
			env.Let("l0", "ite(guess<minL, minL, ite(maxL<guess, maxL, guess))")
			// early failures
			acc := S.False()
			for _, rt := range fc.Ctx.Returns() {
				func() {
					defer func() { recover() }()
					rc := fc.ReachCond(rt.Block())
					if fc.Val(rt.Results[1]).Equal(S.False()) {
						acc = S.Or(acc, rc)
					}
				}()
			}
			b.Eq("C-decision", name+"/early-failure", b.pos(fn), acc, env, "(!dflt && o.MaxLevel<o.MinLevel) || o.Max<1")
			// past the early failures the level bounds are in order: either the defaults apply, or
			// MinLevel <= MaxLevel. Values in the search are compared in each of the two regimes.
			regimes := [][]Assumption{
				{X.AssumeCond(env.MustParse("o.MinLevel==0"), true), X.AssumeCond(env.MustParse("o.MaxLevel==0"), true)},
				{X.AssumeCond(env.MustParse("dflt"), false), X.AssumeCond(env.MustParse("o.MaxLevel<o.MinLevel"), false)},
			}
			eqR := func(rule, construct, where string, got *RF, e *SpecEnv, spec string) {
				want := e.MustParse(spec)
				for _, as := range regimes {
					g, w := X.SimplifyUnder(got, as), X.SimplifyUnder(want, as)
					if !(g.Equal(w) || S.BoolEquiv(g, w) || X.EquivByCases(g, w, 0) || X.EquivByCasesUnder(g, w, as)) {
						r.Fail(rule, construct, where, "code computes "+clip(g.String(), 400)+" ; the stated formula is "+spec+" = "+clip(w.String(), 400))
						return
					}
				}
				r.OK(rule, construct, where, "≡ "+spec)
			}
			// the first CountTicks probe is at the clamped guess
			calls := fc.CallsTo("invoke:CountTicks")
			if len(calls) != 3 {
				r.Fail("C-decision", name+"/probes", b.pos(fn), "expected three CountTicks probes (at the guess, going down, going up)")
				return
			}
			var first *ssa.Call
			for _, c := range calls {
				if fc.Ctx.LoopOf(c.Block()) == nil {
					first = c
				}
			}
			if first == nil {
				r.Fail("C-decision", name+"/clamp", b.pos(fn), "no probe at the starting level")
				return
			}
			eqR("D-bound clamp", name+"/guess-clamped", a.W.InstrPos(first), fc.Val(first.Call.Args[0]), env, "l0")
			// the clamped guess, however the code writes the clamp, is l0 from here on (decided just
			// above, per regime): the later comparisons see the stated form
			clampSub := map[AtomID]*RF{}
			if ca := fc.Val(first.Call.Args[0]).SingleAtom(); ca != nil && ca.Name == "ite" {
				clampSub[ca.ID] = env.Vars["l0"].RF
			}
			canon := func(v *RF) *RF {
				if len(clampSub) == 0 {
					return v
				}
				return v.Subst(clampSub)
			}
			// the two searches
			for _, c := range calls {
				if c == first {
					continue
				}
				l := fc.Val(c.Call.Args[0])
				li, ln := fc.Recurrence(l)
				li = canon(li)
				e := X.EnvFor(fn, "o", "ticker", "guess")
				for _, nm := range []string{"dflt", "minL", "maxL", "l0"} {
					e.Vars[nm] = env.Vars[nm]
				}
				e.Set("l", l, nil)
				down := ln.Equal(e.MustParse("l-1"))
				dir := map[bool]string{true: "down", false: "up"}[down]
				if down {
					eqR(rB, name+"/down/start", a.W.InstrPos(c), li, e, "l0-1")
					b.Eq(rB, name+"/down/step", a.W.InstrPos(c), ln, e, "l-1")
				} else {
					eqR(rB, name+"/up/start", a.W.InstrPos(c), li, e, "l0+1")
					b.Eq(rB, name+"/up/step", a.W.InstrPos(c), ln, e, "l+1")
				}
				// continuation condition: header→latch
				var hdr *ssa.BasicBlock
				for _, at := range l.Atoms(true) {
					if ph, ok := X.phiOf[at.ID]; ok {
						hdr = ph.Block() // the probe is at a loop counter, possibly offset (a look-ahead l-1)
					}
				}
				if hdr == nil {
					anchorFail("the probe argument %s is not driven by a loop counter", clip(l.String(), 100))
				}
				{
					cont := fc.ContinueCond(hdr)
					if down {
						eqR(rB, name+"/down/continue", a.W.InstrPos(c), cont, e, "minL<=l && ticker.CountTicks(l)<=o.Max")
					} else {
						eqR(rB, name+"/up/continue", a.W.InstrPos(c), cont, e, "l<=maxL && o.Max<ticker.CountTicks(l)")
					}
				}
				_ = dir
			}
			// results: one gated value over all returns (however many there are): failure
			// (0,false) early or when the upward search passes maxL; else l+1 after the
			// downward search, l after the upward search
			b.guard(rB, name+"/result", func() {
				rv0, rv1 := canon(fc.RetVal(0)), canon(fc.RetVal(1))
				// the level "reached" by each search is its loop counter, or — when the loop looks one
				// level ahead or advances before testing — that counter offset by one
				base := fc.loopPhis(rv0)
				type cand struct{ d, u *RF }
				var cands []cand
				// the plain form first, then look-ahead down / advance-first up, then the rest
				for _, sh := range [][2]int64{{0, 0}, {-1, 1}, {0, 1}, {-1, 0}, {1, 0}, {0, -1}, {1, 1}, {-1, -1}, {1, -1}} {
					for _, pd := range base {
						for _, pu := range base {
							if pd.Equal(pu) {
								continue
							}
							cands = append(cands, cand{pd.Add(S.Int(sh[0])), pu.Add(S.Int(sh[1]))})
						}
					}
				}
				okForm := false
				started := workUnits
				for _, cd := range cands {
					d, u := cd.d, cd.u
					{
						if okForm || workUnits-started > 40000000 {
							break // (bounded: an unrecognised result is reported, not searched for indefinitely)
						}
						_, dn := fc.Recurrence(d)
						_, un := fc.Recurrence(u)
						e := X.EnvFor(fn, "o", "ticker", "guess")
						for _, nm := range []string{"dflt", "minL", "maxL", "l0"} {
							e.Vars[nm] = env.Vars[nm]
						}
						e.Set("d", d, nil)
						e.Set("u", u, nil)
						if !dn.Equal(e.MustParse("d-1")) || !un.Equal(e.MustParse("u+1")) {
							continue
						}
						e.Let("early", "(!dflt && o.MaxLevel<o.MinLevel) || o.Max<1")
						w0 := e.MustParse("ite(early, 0, ite(ticker.CountTicks(l0)<=o.Max, d+1, ite(maxL<u, 0, u)))")
						w1 := e.MustParse("ite(early, false, ite(ticker.CountTicks(l0)<=o.Max, true, !(maxL<u)))")
						same := true
						all := append([][]Assumption{}, regimes...)
						all = append(all, []Assumption{X.AssumeCond(e.MustParse("o.Max<1"), true)},
							[]Assumption{X.AssumeCond(e.MustParse("dflt"), false), X.AssumeCond(e.MustParse("o.MaxLevel<o.MinLevel"), true)})
						for _, as := range all {
							g0, g1 := X.SimplifyUnder(rv0, as), X.SimplifyUnder(rv1, as)
							x0, x1 := X.SimplifyUnder(w0, as), X.SimplifyUnder(w1, as)
							ok0 := g0.Equal(x0) || X.EquivByCases(g0, x0, 0) || X.EquivByCasesUnder(g0, x0, as)
							ok1 := g1.Equal(x1) || X.EquivByCases(g1, x1, 0) || X.EquivByCasesUnder(g1, x1, as)
							if os.Getenv("GMSA_DEBUG_C17") != "" {
								fmt.Fprintf(os.Stderr, "C17 result d=%s u=%s regime ok0=%v ok1=%v\n  g0=%s\n  x0=%s\n  g1=%s\n  x1=%s\n", d, u, ok0, ok1, clip(g0.String(), 900), clip(x0.String(), 900), clip(g1.String(), 900), clip(x1.String(), 900))
							}
							if !ok0 || !ok1 {
								same = false
							}
						}
						if same {
							okForm = true
						}
					}
					if okForm {
						break
					}
				}
				if okForm {
					r.OK(rB, name+"/result", b.pos(fn), "returns l+1 after the downward search and l after the upward search (0,false when that passes maxL or on the early failures)")
				} else {
					r.Fail(rB, name+"/result", b.pos(fn), "the result is not (down: l+1 / up: l, failing past maxL): "+clip(rv0.String(), 300))
				}
			})
		})
	}
	// D-floor + guessLevel exemption
	b.CheckDFloor("D-floor", "scale.(linearTicker).CountTicks", "scale.(linearTicker).TicksAtLevel", "scale.(logTicker).CountTicks", "scale.(*Linear).spacingAtLevel")
	if gl := b.Fn("D-floor", "scale.(*Linear).guessLevel"); gl != nil {
		okFlow := true
		n := 0
		for _, f := range a.W.FuncList {
			for _, blk := range f.Blocks {
				for _, in := range blk.Instrs {
					c, ok := in.(*ssa.Call)
					if !ok || c.Call.StaticCallee() != gl {
						continue
					}
					n++
					for _, ref := range *c.Referrers() {
						c2, ok := ref.(*ssa.Call)
						if !ok || c2.Call.StaticCallee() == nil || c2.Call.StaticCallee().Name() != "FindLevel" || len(c2.Call.Args) < 3 || c2.Call.Args[2] != c {
							okFlow = false
						}
					}
				}
			}
		}
		if okFlow && n > 0 {
			r.OK("D-floor", "scale.(*Linear).guessLevel/exemption", b.pos(gl), "truncating conversion exempt: the result flows only into the guess parameter of FindLevel ("+itoa(n)+" call sites), whose contract quantifies over all guesses")
		} else {
			r.Fail("D-floor", "scale.(*Linear).guessLevel/exemption", b.pos(gl), "guessLevel's truncated result is used other than as FindLevel's starting guess")
		}
	}
	for _, n := range []string{"scale.(Linear).Ticks", "scale.(Log).Ticks", "scale.(*Linear).Nice", "scale.(*Log).Nice", "scale.(*TickOptions).FindLevel"} {
		if fn := b.Fn("A-1 no-mutation", n); fn != nil {
			a.CheckNoMutation(r, "A-1 no-mutation", fn, nil)
		}
	}
}

// tupleOf: component i of the tuple a call returns, built from the call's own normal form.
func tupleOf(fc *FC, call *ssa.Call, i int) *RF {
	v := fc.Val(call)
	at := v.SingleAtom()
	if at == nil {
		anchorFail("call result is not an application")
	}
	if at.Name == "tuple" {
		return at.Args[i]
	}
	return fc.X.S.MakeFn(at.Name+"#"+itoa(i), at.Args...)
}

// maxIntOf: the largest int of the platform the tree is analysed for.
func maxIntOf(a *Analysis) string {
	if len(a.W.Pkgs) > 0 && a.W.Pkgs[0].TypesSizes != nil && a.W.Pkgs[0].TypesSizes.Sizeof(types.Typ[types.Int]) == 4 {
		return "2147483647"
	}
	return "9223372036854775807"
}
