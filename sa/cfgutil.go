package main

// CFG utilities on go/ssa functions: pruning of edges whose condition is a
// constant (go/ssa does not fold `if debug {…}`) or decided by stated
// assumptions; reachability; dominators on the pruned graph; edge facts
// (comparisons known true in a block because a branch edge dominates it);
// natural loops.

import (
	"go/constant"
	"go/token"

	"golang.org/x/tools/go/ssa"
)

type Tri int

const (
	Unknown Tri = iota
	True
	False
)

type Ctx struct {
	W     *World
	Fn    *ssa.Function
	dead  map[[2]int]bool // (block index, successor index)
	Reach []bool
	idom  []int // on pruned graph; -1 for entry/unreachable
	depth []int
	// assumption oracle for If conditions (may be nil)
	Assume func(cond ssa.Value) Tri
}

func constBool(v ssa.Value) Tri {
	if c, ok := v.(*ssa.Const); ok && c.Value != nil && c.Value.Kind() == constant.Bool {
		if constant.BoolVal(c.Value) {
			return True
		}
		return False
	}
	return Unknown
}

func NewCtx(w *World, fn *ssa.Function, assume func(ssa.Value) Tri) *Ctx {
	c := &Ctx{W: w, Fn: fn, dead: map[[2]int]bool{}, Assume: assume}
	c.recompute()
	return c
}

func (c *Ctx) condValue(v ssa.Value) Tri {
	if t := constBool(v); t != Unknown {
		return t
	}
	if u, ok := v.(*ssa.UnOp); ok && u.Op == token.NOT {
		switch c.condValue(u.X) {
		case True:
			return False
		case False:
			return True
		}
		return Unknown
	}
	if c.Assume != nil {
		return c.Assume(v)
	}
	return Unknown
}

func (c *Ctx) recompute() {
	fn := c.Fn
	n := len(fn.Blocks)
	c.dead = map[[2]int]bool{}
	for _, b := range fn.Blocks {
		if len(b.Instrs) == 0 {
			continue
		}
		if ifi, ok := b.Instrs[len(b.Instrs)-1].(*ssa.If); ok {
			switch c.condValue(ifi.Cond) {
			case True:
				c.dead[[2]int{b.Index, 1}] = true
			case False:
				c.dead[[2]int{b.Index, 0}] = true
			}
		}
	}
	c.Reach = make([]bool, n)
	var stack []*ssa.BasicBlock
	if n > 0 {
		c.Reach[0] = true
		stack = append(stack, fn.Blocks[0])
	}
	for len(stack) > 0 {
		b := stack[len(stack)-1]
		stack = stack[:len(stack)-1]
		for i, s := range b.Succs {
			if c.dead[[2]int{b.Index, i}] || c.Reach[s.Index] {
				continue
			}
			c.Reach[s.Index] = true
			stack = append(stack, s)
		}
	}
	// dominators (iterative, Cooper-Harvey-Kennedy) on the pruned graph
	order := c.rpo()
	pos := make([]int, n)
	for i := range pos {
		pos[i] = -1
	}
	for i, b := range order {
		pos[b.Index] = i
	}
	c.idom = make([]int, n)
	for i := range c.idom {
		c.idom[i] = -1
	}
	if n == 0 {
		return
	}
	c.idom[0] = 0
	changed := true
	for changed {
		changed = false
		for _, b := range order[1:] {
			nd := -1
			for _, p := range c.LivePreds(b) {
				if c.idom[p.Index] == -1 {
					continue
				}
				if nd == -1 {
					nd = p.Index
					continue
				}
				a, d := p.Index, nd
				for a != d {
					for pos[a] > pos[d] {
						a = c.idom[a]
					}
					for pos[d] > pos[a] {
						d = c.idom[d]
					}
				}
				nd = a
			}
			if nd != -1 && c.idom[b.Index] != nd {
				c.idom[b.Index] = nd
				changed = true
			}
		}
	}
	c.idom[0] = -1
}

func (c *Ctx) rpo() []*ssa.BasicBlock {
	seen := map[int]bool{}
	var post []*ssa.BasicBlock
	var visit func(b *ssa.BasicBlock)
	visit = func(b *ssa.BasicBlock) {
		seen[b.Index] = true
		for _, s := range c.LiveSuccs(b) {
			if !seen[s.Index] {
				visit(s)
			}
		}
		post = append(post, b)
	}
	if len(c.Fn.Blocks) > 0 {
		visit(c.Fn.Blocks[0])
	}
	for i, j := 0, len(post)-1; i < j; i, j = i+1, j-1 {
		post[i], post[j] = post[j], post[i]
	}
	return post
}

func (c *Ctx) EdgeLive(b *ssa.BasicBlock, succIdx int) bool {
	return c.Reach[b.Index] && !c.dead[[2]int{b.Index, succIdx}]
}

func (c *Ctx) LiveSuccs(b *ssa.BasicBlock) []*ssa.BasicBlock {
	var out []*ssa.BasicBlock
	for i, s := range b.Succs {
		if c.EdgeLive(b, i) {
			out = append(out, s)
		}
	}
	return out
}

// LivePreds returns the predecessors of b reached through live edges (a
// predecessor appears once per live edge).
func (c *Ctx) LivePreds(b *ssa.BasicBlock) []*ssa.BasicBlock {
	var out []*ssa.BasicBlock
	for _, p := range b.Preds {
		if c.predEdgeLive(p, b) {
			out = append(out, p)
		}
	}
	return out
}

func (c *Ctx) predEdgeLive(p, b *ssa.BasicBlock) bool {
	if !c.Reach[p.Index] {
		return false
	}
	for i, s := range p.Succs {
		if s == b && !c.dead[[2]int{p.Index, i}] {
			return true
		}
	}
	return false
}

// PhiLiveEdges returns the incoming values of a phi over live edges.
func (c *Ctx) PhiLiveEdges(phi *ssa.Phi) (vals []ssa.Value, preds []*ssa.BasicBlock) {
	b := phi.Block()
	for i, p := range b.Preds {
		if c.predEdgeLive(p, b) {
			vals = append(vals, phi.Edges[i])
			preds = append(preds, p)
		}
	}
	return
}

func (c *Ctx) Dominates(a, b *ssa.BasicBlock) bool {
	if !c.Reach[a.Index] || !c.Reach[b.Index] {
		return false
	}
	x := b.Index
	for x != -1 {
		if x == a.Index {
			return true
		}
		x = c.idom[x]
	}
	return false
}

// Idom: immediate dominator of b under the context's pruning (nil for the entry).
func (c *Ctx) Idom(b *ssa.BasicBlock) *ssa.BasicBlock {
	if !c.Reach[b.Index] || c.idom[b.Index] < 0 {
		return nil
	}
	return c.Fn.Blocks[c.idom[b.Index]]
}

// LoopFreeRegionStart: the earliest dominator d of b such that no block on
// the dominator chain d..b lies in a loop (the start of the loop-free region
// that leads to b).
func (c *Ctx) LoopFreeRegionStart(b *ssa.BasicBlock) *ssa.BasicBlock {
	cur := b
	for {
		p := c.Idom(cur)
		if p == nil || c.LoopOf(p) != nil {
			return cur
		}
		cur = p
	}
}

// EdgeFact: condition Cond is known to be Val in a block.
type EdgeFact struct {
	Cond ssa.Value
	Val  bool
	If   *ssa.If
}

// Facts returns the branch conditions known on entry to block b: for every
// If block I with successors T,F (T != F): if T has I as its only live
// predecessor and T dominates b, then cond is true in b (resp. false for F).
func (c *Ctx) Facts(b *ssa.BasicBlock) []EdgeFact {
	var out []EdgeFact
	for _, ib := range c.Fn.Blocks {
		if !c.Reach[ib.Index] || len(ib.Instrs) == 0 {
			continue
		}
		ifi, ok := ib.Instrs[len(ib.Instrs)-1].(*ssa.If)
		if !ok || ib.Succs[0] == ib.Succs[1] {
			continue
		}
		for k := 0; k < 2; k++ {
			t := ib.Succs[k]
			if !c.EdgeLive(ib, k) {
				continue
			}
			lp := c.LivePreds(t)
			if len(lp) != 1 || lp[0] != ib {
				continue
			}
			if c.Dominates(t, b) {
				out = append(out, EdgeFact{Cond: ifi.Cond, Val: k == 0, If: ifi})
			}
		}
	}
	return out
}

// Loop: natural loop with header h.
type Loop struct {
	Header *ssa.BasicBlock
	Body   map[int]bool // block indices incl. header
	Latch  []*ssa.BasicBlock
}

func (c *Ctx) Loops() []*Loop {
	byHeader := map[int]*Loop{}
	var order []int
	for _, b := range c.Fn.Blocks {
		if !c.Reach[b.Index] {
			continue
		}
		for _, s := range c.LiveSuccs(b) {
			if c.Dominates(s, b) { // back edge b -> s
				l := byHeader[s.Index]
				if l == nil {
					l = &Loop{Header: s, Body: map[int]bool{s.Index: true}}
					byHeader[s.Index] = l
					order = append(order, s.Index)
				}
				l.Latch = append(l.Latch, b)
				// collect body: nodes that reach b without passing s
				stack := []*ssa.BasicBlock{b}
				for len(stack) > 0 {
					x := stack[len(stack)-1]
					stack = stack[:len(stack)-1]
					if l.Body[x.Index] {
						continue
					}
					l.Body[x.Index] = true
					for _, p := range c.LivePreds(x) {
						stack = append(stack, p)
					}
				}
			}
		}
	}
	var out []*Loop
	for _, h := range order {
		out = append(out, byHeader[h])
	}
	return out
}

// LoopOf returns the innermost loop containing block b, or nil.
func (c *Ctx) LoopOf(b *ssa.BasicBlock) *Loop {
	var best *Loop
	for _, l := range c.Loops() {
		if l.Body[b.Index] && (best == nil || len(l.Body) < len(best.Body)) {
			best = l
		}
	}
	return best
}

// Returns lists the reachable Return instructions.
func (c *Ctx) Returns() []*ssa.Return {
	var out []*ssa.Return
	for _, b := range c.Fn.Blocks {
		if !c.Reach[b.Index] || len(b.Instrs) == 0 {
			continue
		}
		if r, ok := b.Instrs[len(b.Instrs)-1].(*ssa.Return); ok {
			out = append(out, r)
		}
	}
	return out
}

// Instrs iterates over the instructions of reachable blocks.
func (c *Ctx) Instrs(f func(in ssa.Instruction)) {
	for _, b := range c.Fn.Blocks {
		if !c.Reach[b.Index] {
			continue
		}
		for _, in := range b.Instrs {
			f(in)
		}
	}
}
