package main

import (
	"sort"
)

func init() {
	propFuncs["C20"] = propC20
	propInfos["C20"] = &PropInfo{
		Level:   "proof",
		Explain: "Engine A (DESIGN.md §4, §5 C20): a summary-based interprocedural effect/points-to analysis over go/ssa decides, for every exported function and method of the 8 library packages, every closure they return and every implementation of the library's interfaces: A-1 no write to memory designated by or reached from any pointer-like parameter outside the property's own allow-list (field-precise); A-2 no package-level variable written outside init; A-3 freshness of results documented as copies; A-4 no goroutines/channels/time/os/runtime/reflect/unsafe/sync, global math/rand only under r==nil; A-5 every range-over-map loop is iteration-order independent. Together: every write of a call targets memory allocated by that call (race freedom on shared read-only inputs), no state survives a call and no hidden input exists (determinism). Nothing of the library is executed.",
		Assume: []string{
			"A1 go/types, go/ssa, VTA/CHA (x/tools v0.29.0) represent the program faithfully; host GOOS/GOARCH (no build-tagged files exist)",
			"A2 user-supplied callbacks and interface implementations outside the module do not write the data they are handed and are deterministic",
			"A3 gonum mat: Mul/MulVec/MulElemVec/SolveVec write only the receiver; NewDense/NewVecDense/T/RowView alias their argument/receiver; DenseCopyOf copies; standard-library summaries as in effects.go externTable",
			"A6 distinct pointer parameters of one call do not alias",
			"the proof establishes the stronger condition 'no shared mutable state at all'; floating-point determinism relies on Go's deterministic float semantics on one platform",
		},
		Undec: []string{},
	}
}

func propC20(a *Analysis, r *Registry) {
	// problems anywhere in the library make the proof undecided
	probs := map[string]bool{}
	for _, fn := range a.W.FuncList {
		for p := range a.Eff.Summary(fn).Problems {
			probs[p] = true
		}
	}
	var ps []string
	for p := range probs {
		ps = append(ps, p)
	}
	sort.Strings(ps)
	for _, p := range ps {
		r.Undecided("A-0 analysable", p, "", "construct without transfer function / summary: "+p)
	}
	if len(ps) == 0 {
		r.OK("A-0 analysable", "library", "", "every instruction kind, builtin and external callee in the library has a transfer function/summary")
	}
	entries := a.Entries()
	nparams := 0
	for _, fn := range entries {
		nparams += a.CheckNoMutation(r, "A-1 no-mutation", fn, nil)
	}
	a.CheckNoGlobalState(r, "A-2 no-package-state")
	for _, fr := range freshClaims {
		a.CheckFresh(r, "A-3 fresh-result", fr.fn, fr.idx)
	}
	a.CheckNondet(r, "A-4 nondeterminism-sources")
	nmaps := a.CheckMapRanges(r, "A-5 map-order-independence")
	st := a.Eff.Stats
	r.Count("entry_points", len(entries))
	r.Count("entry_pointer_params", nparams)
	r.Count("stores_classified", st.Stores)
	r.Count("call_sites", st.Calls)
	r.Count("call_sites_static_module", st.CallsStatic)
	r.Count("call_sites_invoke", st.CallsInvoke)
	r.Count("call_sites_closure", st.CallsClosure)
	r.Count("call_sites_builtin", st.CallsBuiltin)
	r.Count("call_sites_external", st.CallsExtern)
	r.Count("map_range_loops", nmaps)
	r.Count("ssa_instructions", st.Instrs)
	for k, v := range st.InstrKinds {
		r.Count("instr_"+k, v)
	}
	r.Floor("A-0 vacuity", "entry points", len(entries), 150)
	r.Floor("A-0 vacuity", "stores classified", st.Stores, 400)
	r.Floor("A-0 vacuity", "library packages", len(a.W.Lib), 8)
	var ext []string
	for k := range st.ExternUsed {
		ext = append(ext, k)
	}
	sort.Strings(ext)
	r.Notes = append(r.Notes, "external summaries used: "+joinMax(ext, 80))
}

type freshClaim struct {
	fn  string
	idx int
}

var freshClaims = []freshClaim{
	{"stats.(Sample).Copy", 0},
	{"vec.Map", 0}, {"vec.Linspace", 0}, {"vec.Logspace", 0}, {"vec.Concat", 0}, {"vec.Vectorize$1", 0},
	{"stats.(*KDE).normalizedXs", 0},
	{"stats.labeledMerge", 0}, {"stats.labeledMerge", 1},
}

func joinMax(xs []string, n int) string {
	s := ""
	for i, x := range xs {
		if i >= n {
			s += " …"
			break
		}
		if i > 0 {
			s += ", "
		}
		s += x
	}
	return s
}
