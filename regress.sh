#!/bin/bash
# all 20 quick checks; prints only the ones that are not clean
cd /verif
for p in C01 C02 C03 C04 C05 C06 C07 C08 C09 C10 C11 C12 C13 C14 C15 C16 C17 C18 C19 C20; do
  bin/gmsa check $p 2>&1 | grep -E "FAILED|UNDECIDED|^gmsa:" | grep -v "violations=0" | cut -c1-${W:-260}
done
