package main

import "golang.org/x/tools/go/ssa"

func init() {
	propFuncs["C04"] = propC04
	propInfos["C04"] = &PropInfo{
		Level:   "other",
		Explain: "Structural necessary conditions decided statically (DESIGN.md §5 C04): engine B extracts, from go/ssa, the normal form (rational function over atoms such as x1.Mean(), x1.Variance(), x1.Weight()) of the statistic T and the degrees of freedom passed to newTTestResult by each of the four t-tests and compares it with the textbook formula; the tail selection in newTTestResult per alternative; the swap law T[x1<->x2] = -T at formula level; the reach condition of every documented error return; MeanCI's decision list and half-width formula; TDist.CDF/PDF formulas. Decides that the code computes the stated formulas over the reals on every path — not floating-point accuracy of BetaInc/InvCDF.",
		Assume:  []string{"A2 observers (Weight, Mean, Variance) called twice on the same receiver denote the same value", "A4 reasoning over the reals; int<->float conversions of counts are exact"},
		Undec:   []string{"accuracy of the Student-t tail (BetaInc) and of the generic InvCDF", "invariance under affine maps of the data (holds for the formulas; not checked)", "NaN for empty input"},
	}
}

func sameParam(fc *FC, v ssa.Value, idx int) bool {
	p, ok := v.(*ssa.Parameter)
	return ok && idx < len(fc.Fn.Params) && fc.Fn.Params[idx] == p
}

func propC04(a *Analysis, r *Registry) {
	b := NewB(a, r)
	X := b.X
	X.NoInline["mathx.BetaInc"] = true // its own formula is decided under C08 (imported)
	const rB = "B-C04 formula"
	const rG = "C-guard error-returns"
	tt := func(fname string, names []string, lets [][2]string, specs map[string]string, guards [][2]string, swap bool) {
		fn := b.Fn(rB, fname)
		if fn == nil {
			return
		}
		b.guard(rB, fname, func() {
			fc := X.FCFor(fn)
			env := X.EnvFor(fn, names...)
			for _, l := range lets {
				if err := env.Let(l[0], l[1]); err != nil {
					panic(specErr(err.Error()))
				}
			}
			call := fc.TheCallTo("stats.newTTestResult")
			where := a.W.InstrPos(call)
			argIdx := map[string]int{"N1": 0, "N2": 1, "T": 2, "DoF": 3, "alt": 4}
			for _, k := range []string{"N1", "N2", "T", "DoF", "alt"} {
				if sp, ok := specs[k]; ok {
					b.Eq(rB, fname+"/"+k, where, fc.Val(call.Common().Args[argIdx[k]]), env, sp)
				}
			}
			for _, g := range guards {
				b.ErrGuard(rG, fc, env, g[0], g[1])
			}
			if swap {
				x1, x2 := X.ParamRF(fn, 0), X.ParamRF(fn, 1)
				m := map[AtomID]*RF{x1.SingleAtom().ID: x2, x2.SingleAtom().ID: x1}
				T := fc.Val(call.Common().Args[2])
				D := fc.Val(call.Common().Args[3])
				b.EqRF("B-C04 swap-law", fname+"/T", where, T.Subst(m), T.Neg(), "swapping the samples negates T")
				b.EqRF("B-C04 swap-law", fname+"/DoF", where, D.Subst(m), D, "swapping the samples preserves DoF")
			}
		})
	}
	sampLets := [][2]string{{"n1", "x1.Weight()"}, {"n2", "x2.Weight()"}, {"v1", "x1.Variance()"}, {"v2", "x2.Variance()"}, {"m1", "x1.Mean()"}, {"m2", "x2.Mean()"}}
	tt("stats.TwoSampleTTest", []string{"x1", "x2", "alt"}, sampLets, map[string]string{
		"T":   "(m1-m2)/sqrt(((n1-1)*v1+(n2-1)*v2)/(n1+n2-2)*(1/n1+1/n2))",
		"DoF": "n1+n2-2", "N1": "int(n1)", "N2": "int(n2)", "alt": "alt",
	}, [][2]string{{"ErrSampleSize", "n1==0 || n2==0"}, {"ErrZeroVariance", "!(n1==0 || n2==0) && v1==0 && v2==0"}}, true)
	tt("stats.TwoSampleWelchTTest", []string{"x1", "x2", "alt"}, sampLets, map[string]string{
		"T":   "(m1-m2)/sqrt(v1/n1+v2/n2)",
		"DoF": "(v1/n1+v2/n2)^2/((v1/n1)^2/(n1-1)+(v2/n2)^2/(n2-1))", "N1": "int(n1)", "N2": "int(n2)", "alt": "alt",
	}, [][2]string{{"ErrSampleSize", "n1<=1 || n2<=1"}, {"ErrZeroVariance", "!(n1<=1 || n2<=1) && v1==0 && v2==0"}}, true)
	tt("stats.OneSampleTTest", []string{"x", "mu0", "alt"}, [][2]string{{"n", "x.Weight()"}, {"v", "x.Variance()"}, {"m", "x.Mean()"}}, map[string]string{
		"T": "(m-mu0)*sqrt(n)/sqrt(v)", "DoF": "n-1", "N1": "int(n)", "N2": "0", "alt": "alt",
	}, [][2]string{{"ErrSampleSize", "n==0"}, {"ErrZeroVariance", "n!=0 && v==0"}}, false)

	// paired: diff[i] = x1[i]-x2[i]; statistics of diff
	if fn := b.Fn(rB, "stats.PairedTTest"); fn != nil {
		fname := "stats.PairedTTest"
		b.guard(rB, fname, func() {
			fc := X.FCFor(fn)
			env := X.EnvFor(fn, "x1", "x2", "mu0", "alt")
			call := fc.TheCallTo("stats.newTTestResult")
			where := a.W.InstrPos(call)
			// the slice handed to StdDev and Mean is the same freshly made diff
			sd := fc.TheCallTo("stats.StdDev")
			mn := fc.TheCallTo("stats.Mean")
			diff := fc.Val(sd.Common().Args[0])
			b.EqRF(rB, fname+"/diff-shared", where, fc.Val(mn.Common().Args[0]), diff, "Mean and StdDev are taken of the same difference slice")
			if at := diff.SingleAtom(); at == nil || len(at.Name) < 10 || at.Name[:10] != "makeslice:" {
				b.R.Fail(rB, fname+"/diff-fresh", where, "the difference slice is not a freshly made slice: "+clip(diff.String(), 200))
			} else {
				b.EqRF(rB, fname+"/diff-len", where, at.Args[0], env.MustParse("len(x1)"), "len(diff) = len(x1)")
			}
			// element definition diff[i] = x1[i]-x2[i], over every index
			defs, why := fc.ElementDefs(diff)
			if len(defs) != 1 {
				b.R.Fail(rB, fname+"/diff[i]", where, "expected one per-element definition of the difference slice: "+why)
			} else {
				e2 := X.EnvFor(fn, "x1", "x2", "mu0", "alt")
				e2.Set("i", defs[0].Index, nil)
				b.Eq(rB, fname+"/diff[i]", defs[0].Where, defs[0].Value, e2, "x1[i]-x2[i]")
				b.FullScan("C-scan coverage", fname+"/diff-visits-all", defs[0].Where, defs[0].FC, defs[0].Index, env.MustParse("len(x1)"))
			}
			env.Set("sd", fc.Val(sd), nil)
			env.Set("mean", fc.Val(mn), nil)
			b.Eq(rB, fname+"/T", where, fc.Val(call.Common().Args[2]), env, "(mean-mu0)*sqrt(len(x1))/sd")
			b.Eq(rB, fname+"/DoF", where, fc.Val(call.Common().Args[3]), env, "len(x1)-1")
			// (compared under what is known at the call: len(x1) == len(x2) past the mismatch guard)
			b.EqAt(rB, fname+"/N1", where, fc, call, fc.Val(call.Common().Args[0]), env.MustParse("len(x1)"), "N1 = len(x1)")
			b.EqAt(rB, fname+"/N2", where, fc, call, fc.Val(call.Common().Args[1]), env.MustParse("len(x2)"), "N2 = len(x2)")
			b.Eq(rB, fname+"/alt", where, fc.Val(call.Common().Args[4]), env, "alt")
			b.ErrGuard(rG, fc, env, "ErrMismatchedSamples", "len(x1) != len(x2)")
			b.ErrGuard(rG, fc, env, "ErrSampleSize", "len(x1) == len(x2) && len(x1) <= 1")
		})
		// zero-variance guard sits after the loop: dominance form
		b.guard(rG, fname+"/ErrZeroVariance", func() {
			fc := X.FCFor(fn)
			sd := fc.TheCallTo("stats.StdDev")
			ok := false
			for _, ret := range fc.Ctx.Returns() {
				if !returnsGlobal(ret, 1, "ErrZeroVariance") {
					continue
				}
				for _, f := range fc.Ctx.Facts(ret.Block()) {
					if f.Val && fc.Val(f.Cond).Equal(X.S.Cmp("==", fc.Val(sd), X.S.Int(0))) {
						ok = true
					}
				}
			}
			succ := 0
			for _, ret := range fc.Ctx.Returns() {
				if c, isC := ret.Results[1].(*ssa.Const); isC && c.Value == nil {
					succ++
					has := false
					for _, f := range fc.Ctx.Facts(ret.Block()) {
						if !f.Val && fc.Val(f.Cond).Equal(X.S.Cmp("==", fc.Val(sd), X.S.Int(0))) {
							has = true
						}
					}
					if !has {
						ok = false
					}
				}
			}
			if ok && succ > 0 {
				b.R.OK(rG, fname+"/ErrZeroVariance", b.pos(fn), "ErrZeroVariance returned under StdDev(diff)==0, and every success return is dominated by its negation")
			} else {
				b.R.Fail(rG, fname+"/ErrZeroVariance", b.pos(fn), "zero-variance guard (sd == 0 → ErrZeroVariance) missing or not dominating the success return")
			}
		})
	}

	// tails
	if fn := b.Fn(rB, "stats.newTTestResult"); fn != nil {
		alts := []struct {
			name, val, spec string
		}{{"LocationLess", "-1", "TDist(dof).CDF(t)"}, {"LocationGreater", "1", "1-TDist(dof).CDF(t)"}, {"LocationDiffers", "0", "2*(1-TDist(dof).CDF(abs(t)))"}}
		for _, al := range alts {
			al := al
			construct := "stats.newTTestResult/P/" + al.name
			b.guard(rB, construct, func() {
				env := X.EnvFor(fn, "n1", "n2", "t", "dof", "alt")
				fc := X.Under(fn, X.AssumeEq(env.Vars["alt"].RF, env.MustParse(al.val)))
				b.EqUnder(rB, construct, b.pos(fn), fc, fc.LitField("TTestResult", "P"), env, al.spec)
			})
		}
		b.guard(rB, "stats.newTTestResult/fields", func() {
			env := X.EnvFor(fn, "n1", "n2", "t", "dof", "alt")
			fc := X.FCFor(fn)
			for _, f := range [][2]string{{"N1", "n1"}, {"N2", "n2"}, {"T", "t"}, {"DoF", "dof"}, {"AltHypothesis", "alt"}} {
				b.Eq(rB, "stats.newTTestResult/"+f[0], b.pos(fn), fc.LitField("TTestResult", f[0]), env, f[1])
			}
		})
		b.SwitchExhaustive("C-exhaustive", fn, 4, []string{"-1", "0", "1"})
	}

	// TDist
	b.TDistCDF(rB)
	if fn := b.Fn(rB, "stats.(TDist).PDF"); fn != nil {
		b.guard(rB, "stats.(TDist).PDF", func() {
			env := X.EnvFor(fn, "t", "x")
			fc := X.FCFor(fn)
			b.Eq(rB, "stats.(TDist).PDF", b.pos(fn), fc.RetVal(0), env,
				"exp(lgamma((t.V+1)/2)-lgamma(t.V/2))/sqrt(t.V*3.141592653589793)*pow(1+x*x/t.V, -(t.V+1)/2)")
		})
	}

	// Sample.MeanCI: the unweighted (or empty) sample delegates to MeanCI on its values
	if fn := b.Fn(rB, "stats.(Sample).MeanCI"); fn != nil {
		b.guard(rB, "stats.(Sample).MeanCI", func() {
			env := X.EnvFor(fn, "s", "confidence")
			fc := X.Under(fn, X.AssumeEq(env.MustParse("s.Weights"), env.MustParse("nil")))
			for i, nm := range []string{"mean", "lo", "hi"} {
				b.EqUnder(rB, "stats.(Sample).MeanCI/"+nm, b.pos(fn), fc, fc.RetVal(i), env, "MeanCI(s.Xs, confidence)#"+itoa(i))
			}
		})
	}
	// MeanCI
	if fn := b.Fn(rB, "stats.MeanCI"); fn != nil {
		b.guard(rB, "stats.MeanCI", func() {
			env := X.EnvFor(fn, "xs", "c")
			fc := X.FCFor(fn)
			env.Let("w", "ite(c<=0, 0, ite(1<=c, inf(1), ite(len(xs)<=1, inf(1), -InvCDF(TDist(len(xs)-1))((1-c)/2)*StdDev(xs)/sqrt(len(xs)))))")
			b.Eq(rB, "stats.MeanCI/mean", b.pos(fn), fc.RetVal(0), env, "Mean(xs)")
			b.Eq(rB, "stats.MeanCI/lo", b.pos(fn), fc.RetVal(1), env, "Mean(xs)-w")
			b.Eq(rB, "stats.MeanCI/hi", b.pos(fn), fc.RetVal(2), env, "Mean(xs)+w")
		})
	}
	r.Count("engineB_atoms", len(X.S.atoms))
}
