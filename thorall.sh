#!/bin/bash
# usage: thorall.sh <dir with frozen gmsa>  — thorough tier for all 20 (4 at a time), private evidence dirs, logs in <dir>/Cxx.log
d=$1
run() { p=$1; v=$d/v$p; mkdir -p $v; cp /verif/known_findings.json $v/; cp -r /verif/catalog /verif/seeded /verif/refactors $v/ 2>/dev/null; ln -s /verif/sa $v/sa; GMSA_DEADLINE_S=3600 $d/gmsa check $p --tier thorough --verif $v > $d/$p.log 2>&1; echo "$p exit=$?" >> $d/summary; rm -rf $v; }
for p in C01 C02 C03 C04 C05 C06 C07 C08 C09 C10 C11 C12 C13 C14 C15 C16 C17 C18 C19 C20; do
  while [ $(jobs -r | wc -l) -ge 4 ]; do sleep 2; done
  run $p &
done
wait
echo ALLDONE >> $d/summary
