module ctlmod

go 1.22
