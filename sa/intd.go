package main

// Engine D — integer discipline. D-floor: every float→int conversion and
// every signed integer / or % must have an operand that is integral
// (conversion) or non-negative — otherwise truncation toward zero differs
// from the floor the surrounding code means (the rule the library states for
// itself in stats/dist.go). Sign facts come from the normal forms, from
// dominating branch conditions, inductively for loop-carried values, and
// from a closed table of documented preconditions.

import (
	"fmt"
	"go/token"
	"go/types"
	"math/big"
	"os"
	"regexp"
	"sort"
	"strings"

	"golang.org/x/tools/go/ssa"
)

type precond struct {
	re     *regexp.Regexp
	strict bool // > 0 rather than >= 0
	reason string
}

var preconds = []precond{
	{regexp.MustCompile(`^fld:UDist\.(N1|N2)\(`), false, "UDist.N1,N2 are sample sizes (udist.go doc)"},
	{regexp.MustCompile(`^idx\(fld:UDist\.T\(`), false, "UDist.T holds tie counts (udist.go doc)"},
	{regexp.MustCompile(`^param:stats\.makeUmemo:1$`), false, "n1 is a sample size"},
	{regexp.MustCompile(`^idx\(param:stats\.makeUmemo:2,`), false, "t holds tie counts"},
	{regexp.MustCompile(`^fld:ukey\.n1\(`), false, "memo keys hold sample sizes n1 >= 0 (keys are generated with n1-rk, rk <= n1)"},
	{regexp.MustCompile(`^fld:BinomialDist\.N\(`), false, "BinomialDist.N is a number of trials"},
	{regexp.MustCompile(`^fld:HypergeometicDist\.(N|K|Draws)\(`), false, "HypergeometicDist fields are population counts"},
	{regexp.MustCompile(`^call:Weight\(`), false, "weights are non-negative (Sample doc); Weight() is their sum or a count"},
	{regexp.MustCompile(`^param:graph/graphalg\.\(\*NodeMarks\)\.(Mark|Unmark|grow):1$`), false, "node ids are non-negative (NodeMarks doc: 'set of non-negative integers')"},
	{regexp.MustCompile(`^param:stats\.HistogramQuantile:1$`), false, "q is a quantile in [0,1]"},
	{regexp.MustCompile(`^idx\(global:mathx\.smallFact,`), true, "entries of the factorial table are positive (init: products of 1..20)"},
	{regexp.MustCompile(`^fld:TickOptions\.Max\(`), false, "TickOptions.Max"},
}

type Signer struct {
	X       *Extractor
	ctx     []*RF // facts of the calling context (hold at every point of a bound helper)
	facts   []*RF // conditions known true at the program point
	chain   int   // depth of fact chaining in sign()
	assumed map[AtomID]bool
	Used    map[string]bool // preconditions used
	depth   int
}

func (fc *FC) SignerAt(in ssa.Instruction) *Signer {
	g := &Signer{X: fc.X, assumed: map[AtomID]bool{}, Used: map[string]bool{}}
	for _, f := range fc.Ctx.Facts(in.Block()) {
		c := fc.Val(f.Cond)
		if !f.Val {
			c = fc.X.S.Not(c)
		}
		g.addFact(c)
	}
	return g
}

func (g *Signer) addFact(c *RF) {
	if at := c.SingleAtom(); at != nil && at.Name == "land" {
		for _, a := range at.Args {
			g.addFact(a)
		}
		return
	}
	g.facts = append(g.facts, c)
	// a bound by a minimum bounds by both, a maximum bounded bounds both:
	// A < min(x,y) gives A < x and A < y; max(x,y) < A gives x < A and y < A (same for <=)
	if at := c.SingleAtom(); at != nil && (at.Name == "cmp<" || at.Name == "cmp<=") && len(at.Args) == 2 {
		s := g.X.S
		minmax := func(v *RF) (x, y *RF, isMin, ok bool) {
			ia := v.SingleAtom()
			if ia == nil || ia.Name != "ite" || len(ia.Args) != 3 {
				return
			}
			ca := ia.Args[0].SingleAtom()
			if ca == nil || (ca.Name != "cmp<" && ca.Name != "cmp<=") {
				return
			}
			x, y = ia.Args[1], ia.Args[2]
			switch {
			case ca.Args[0].Equal(x) && ca.Args[1].Equal(y): // x<y ? x : y
				return x, y, true, true
			case ca.Args[0].Equal(y) && ca.Args[1].Equal(x): // y<x ? x : y
				return x, y, false, true
			}
			return nil, nil, false, false
		}
		if x, y, isMin, ok := minmax(at.Args[1]); ok && isMin {
			g.facts = append(g.facts, s.MakeFn(at.Name, at.Args[0], x), s.MakeFn(at.Name, at.Args[0], y))
		}
		if x, y, isMin, ok := minmax(at.Args[0]); ok && !isMin {
			g.facts = append(g.facts, s.MakeFn(at.Name, x, at.Args[1]), s.MakeFn(at.Name, y, at.Args[1]))
		}
	}
}

func (g *Signer) with(c *RF) *Signer {
	h := &Signer{X: g.X, ctx: g.ctx, facts: append([]*RF{}, g.facts...), assumed: g.assumed, Used: g.Used, depth: g.depth}
	h.addFact(c)
	return h
}

// factBounds: expressions known >= 0 (and whether strictly > 0) from the facts.
func (g *Signer) factBounds() (ge []*RF, gt []*RF) {
	s := g.X.S
	for _, f := range g.facts {
		at := f.SingleAtom()
		if at == nil {
			continue
		}
		neg := false
		if at.Name == "not" {
			neg = true
			at = at.Args[0].SingleAtom()
			if at == nil {
				continue
			}
		}
		if !isCmpName(at.Name) {
			continue
		}
		l, r := at.Args[0], at.Args[1]
		d := r.Sub(l) // r - l
		intv := s.Integral(d)
		switch at.Name {
		case "cmp<":
			if !neg {
				gt = append(gt, d)
				if intv {
					ge = append(ge, d.Sub(s.Int(1)))
				}
			} else {
				ge = append(ge, d.Neg()) // !(l<r): l-r >= 0 (or NaN)
			}
		case "cmp<=":
			if !neg {
				ge = append(ge, d)
			} else {
				gt = append(gt, d.Neg())
				if intv {
					ge = append(ge, d.Neg().Sub(s.Int(1)))
				}
			}
		case "cmp==":
			if !neg {
				ge = append(ge, d, d.Neg())
			}
		case "cmp!=":
			if neg {
				ge = append(ge, d, d.Neg())
			}
		}
	}
	// an integer that is >= 0 and != 0 is >= 1
	for _, f := range g.facts {
		at := f.SingleAtom()
		if at == nil || at.Name != "cmp!=" {
			continue
		}
		d := at.Args[1].Sub(at.Args[0])
		if !s.Integral(d) {
			continue
		}
		for _, e := range []*RF{d, d.Neg()} {
			for _, k := range ge {
				if k.Equal(e) {
					gt = append(gt, e)
					ge = append(ge, e.Sub(s.Int(1)))
				}
			}
		}
	}
	return
}

func (g *Signer) NonNeg(r *RF) bool { return g.top(r, false) }
func (g *Signer) Pos(r *RF) bool    { return g.top(r, true) }

// top: a top-level query gets a fresh step budget (nested queries share it).
func (g *Signer) top(r *RF, strict bool) bool {
	if g.X.signActive {
		return g.sign(r, strict)
	}
	g.X.signActive = true
	g.X.signSteps, g.X.signLimit = 0, 3000
	defer func() { g.X.signActive = false }()
	return g.sign(r, strict)
}

func (g *Signer) sign(r *RF, strict bool) (res bool) {
	if signTrace2() {
		fmt.Fprintf(os.Stderr, "%*sSIGN? strict=%v chain=%d r=%s\n", g.depth*2, "", strict, g.chain, clip(r.String(), 260))
		defer func() { fmt.Fprintf(os.Stderr, "%*s=> %v\n", g.depth*2, "", res) }()
	}
	// bounded search: undecided (false) when the budget is spent
	g.X.signSteps++
	if g.depth > 12 || g.X.signSteps > g.X.signLimit {
		return false
	}
	g.depth++
	defer func() { g.depth-- }()
	// r = ±k + rest for one integer loop counter k and a rest the loop does not change: by
	// induction over the loop, r >= 0 when it is at the counter's initial value and an iteration
	// moves it upwards (or not at all)
	if !strict {
		for _, at := range r.Atoms(false) {
			ph, ok := g.X.phiOf[at.ID]
			if signTrace2() {
				fmt.Fprintf(os.Stderr, "AFFINE r=%s atom=%s isphi=%v int=%v\n", clip(r.String(), 200), at.Name, ok, at.Int)
			}
			if !ok || !at.Int || g.Used[fmt.Sprintf("@affine:%d", at.ID)] {
				continue
			}
			pfc := g.X.phiFC[at.ID]
			if !pfc.isHeaderPhi(ph) {
				continue
			}
			k := g.X.S.atomRF(at.ID)
			ki, kn := recurrenceOrNil(pfc, k)
			if ki == nil {
				continue
			}
			step, isC := kn.Sub(k).IsConst()
			coef, okD := r.Deriv(at.ID)
			if signTrace2() {
				fmt.Fprintf(os.Stderr, "  ki=%s kn=%s isC=%v okD=%v coef=%v\n", clip(ki.String(), 100), clip(kn.String(), 100), isC, okD, coef)
			}
			if !isC || !okD {
				continue
			}
			cc, isCC := coef.IsConst()
			if !isCC || new(big.Rat).Mul(cc, step).Sign() < 0 {
				continue
			}
			rest := r.Sub(coef.Mul(k))
			// the rest must not change during k's loop: no quantity carried by that loop (or one nested in it)
			var kl *Loop
			for _, l := range pfc.Ctx.Loops() {
				if l.Header == ph.Block() {
					kl = l
				}
			}
			varies := kl == nil || len(FindAtomID(rest, at.ID)) > 0
			for _, ra := range rest.Atoms(true) {
				if q, isPhi := g.X.phiOf[ra.ID]; isPhi && (q.Parent() != ph.Parent() || kl != nil && kl.Body[q.Block().Index]) {
					varies = true
				}
				if _, isMem := g.X.memphiOf[ra.ID]; isMem {
					varies = true
				}
			}
			if signTrace2() {
				fmt.Fprintf(os.Stderr, "  varies=%v kl=%v rest=%s\n", varies, kl != nil, rest)
			}
			if varies {
				continue
			}
			key := fmt.Sprintf("@affine:%d", at.ID)
			g.Used[key] = true
			ok2 := g.sign(r.Subst(map[AtomID]*RF{at.ID: ki}), false)
			delete(g.Used, key)
			if signTrace2() {
				fmt.Fprintf(os.Stderr, "  start=%s ok=%v depth=%d steps=%d/%d\n", r.Subst(map[AtomID]*RF{at.ID: ki}), ok2, g.depth, g.X.signSteps, g.X.signLimit)
			}
			if ok2 {
				g.Used["induction over a loop counter (start value and direction)"] = true
				return true
			}
		}
	}
	if g.direct(r, strict) {
		return true
	}
	// r mentions a choice ite(c, x, y) (an inlined min/max, a clamped bound): r has the sign in
	// question when it has it in both cases, each under its condition
	// (explicit queries only: not in the small-budget fallback tried for every comparison)
	if len(r.N.terms) > 1 && g.X.signLimit >= 3000 {
		for _, at := range r.Atoms(false) {
			if at.Name != "ite" || len(at.Args) != 3 || g.depth > 6 {
				continue
			}
			t := r.Subst(map[AtomID]*RF{at.ID: at.Args[1]})
			f := r.Subst(map[AtomID]*RF{at.ID: at.Args[2]})
			if g.with(at.Args[0]).sign(t, strict) && g.with(g.X.S.Not(at.Args[0])).sign(f, strict) {
				return true
			}
			break // one choice per level: nested ones are reached by the recursion
		}
	}
	// r = v * r' for an atom v common to every term of the numerator
	// (denominator a positive constant): signs multiply
	if c, isC := r.D.isConst(); isC && c.Sign() > 0 && len(r.N.terms) > 1 {
		var firstT *term
		for _, t := range r.N.sortedTerms() {
			firstT = t
			break
		}
		for _, v := range firstT.vars {
			common := true
			for _, t := range r.N.sortedTerms() {
				has := false
				for i, tv := range t.vars {
					if tv == v && t.exps[i] >= 1 {
						has = true
					}
				}
				if !has {
					common = false
					break
				}
			}
			if !common {
				continue
			}
			rest := r.Div(g.X.S.atomRF(v))
			if rest != nil && g.atomSign(v, strict) && g.sign(rest, strict) {
				return true
			}
		}
	}
	ge, gt := g.factBounds()
	// r = f + (something non-negative) for a fact-derived bound f
	for _, f := range gt {
		if g.direct(r.Sub(f), false) {
			return true
		}
	}
	if !strict {
		for _, f := range ge {
			if g.direct(r.Sub(f), false) {
				return true
			}
		}
	} else {
		for _, f := range ge {
			if g.direct(r.Sub(f), true) {
				return true
			}
		}
	}
	// r = f1 + f2 + (something non-negative): chains of two facts
	if g.chain < 1 {
		g.chain++
		ok := false
		for _, f := range gt {
			if g.sign(r.Sub(f), false) {
				ok = true
				break
			}
		}
		if !ok {
			for _, f := range ge {
				if g.sign(r.Sub(f), strict) {
					ok = true
					break
				}
			}
		}
		g.chain--
		if ok {
			return true
		}
	}
	// r = c*f for positive constant c
	for _, f := range append(ge, gt...) {
		if q := r.Div(f); q != nil {
			if c, ok := q.IsConst(); ok && c.Sign() > 0 {
				if !strict {
					return true
				}
				for _, h := range gt {
					if h.Equal(f) {
						return true
					}
				}
			}
		}
	}
	return false
}

// direct: sign from the shape of the normal form.
func (g *Signer) direct(r *RF, strict bool) bool {
	if c, ok := r.IsConst(); ok {
		if strict {
			return c.Sign() > 0
		}
		return c.Sign() >= 0
	}
	if !g.polyPos(r.D, true) {
		return false
	}
	return g.polyPos(r.N, strict)
}

// polyPos: every term has a positive coefficient and non-negative factors;
// for strict, at least one term is strictly positive.
func (g *Signer) polyPos(p *Poly, strict bool) bool {
	if p.isZero() {
		return !strict
	}
	anyPos := false
	for _, t := range p.sortedTerms() {
		if t.coef.Sign() < 0 {
			return false
		}
		allPos := true
		for i, v := range t.vars {
			if t.exps[i]%2 == 0 && t.exps[i] > 0 {
				if !g.atomSign(v, true) {
					allPos = false
				}
				continue
			}
			if !g.atomSign(v, false) {
				return false
			}
			if t.exps[i] < 0 && !g.atomSign(v, true) {
				return false
			}
			if !g.atomSign(v, true) {
				allPos = false
			}
		}
		if allPos {
			anyPos = true
		}
	}
	return !strict || anyPos
}

func (g *Signer) atomSign(id AtomID, strict bool) bool {
	s := g.X.S
	at := s.atoms[id]
	if g.assumed[id] && !strict {
		return true
	}
	key := s.atomStr(id)
	for _, p := range preconds {
		if p.re.MatchString(key) && (!strict || p.strict) {
			g.Used[p.reason] = true
			return true
		}
	}
	// facts directly about this atom
	self := s.atomRF(id)
	ge, gt := g.factBounds()
	for _, f := range gt {
		if f.Equal(self) {
			return true
		}
	}
	if !strict {
		for _, f := range ge {
			if f.Equal(self) {
				return true
			}
		}
	}
	if at.Unsigned && !strict {
		return true
	}
	switch {
	case at.Name == "len" || at.Name == "cap" || at.Name == "math.Abs" || at.Name == "math.Sqrt" || at.Name == "math/bits.TrailingZeros32":
		return !strict
	case at.Name == "math.Exp":
		return true
	case at.Name == "math.Floor" || at.Name == "math.Trunc" || at.Name == "toint":
		return !strict && g.sign(at.Args[0], false)
	case at.Name == "math.Ceil":
		return g.sign(at.Args[0], strict)
	case at.Name == "idiv":
		return !strict && g.sign(at.Args[0], false) && g.sign(at.Args[1], false)
	case at.Name == "imod":
		return !strict && g.sign(at.Args[0], false)
	case at.Name == "shl":
		return g.sign(at.Args[0], strict)
	case at.Name == "shr":
		// x >> k >= 0 for x >= 0; never known to be > 0 (the shift may clear every set bit).
		// (This case used to answer the strict question with the non-strict one: with the fact
		// E == 0 for E = marks[j/32] >> j%32 it made marks[bi] + E "positive", hence
		// marks[bi] != 0, and NodeMarks.Next's scan loop dead — but only when the terms of a
		// sum happened to be visited in one of two orders: the source of a rare order-dependent
		// false alarm.)
		return !strict && g.sign(at.Args[0], false)
	case at.Name == "ite":
		c := at.Args[0]
		return g.with(c).sign(at.Args[1], strict) && g.with(s.Not(c)).sign(at.Args[2], strict)
	case at.Name == "stats.maxint" || at.Name == "maxint" || at.Name == "math.Max":
		return g.sign(at.Args[0], strict) || g.sign(at.Args[1], strict)
	case at.Name == "stats.minint" || at.Name == "minint" || at.Name == "math.Min":
		return g.sign(at.Args[0], strict) && g.sign(at.Args[1], strict)
	case strings.HasPrefix(at.Name, "phi:"):
		p, ok := g.X.phiOf[id]
		if !ok {
			return false
		}
		pfc := g.X.phiFC[id]
		if g.assumed[id] {
			return false // strict not provable inductively here
		}
		g.assumed[id] = true
		defer delete(g.assumed, id)
		// counters of the same loop moving in lock step differ by a constant: p = q + (p0 - q0);
		// what is known about q (typically the loop's guard) then bounds p
		if pfc.isHeaderPhi(p) && isIntType(p.Type()) {
			if pi, pn := recurrenceOrNil(pfc, self); pi != nil {
				if d, isC := pn.Sub(self).IsConst(); isC && d.Sign() != 0 {
					for _, in := range p.Block().Instrs {
						q, ok := in.(*ssa.Phi)
						if !ok {
							break
						}
						if q == p || !isIntType(q.Type()) {
							continue
						}
						qv := pfc.Val(q)
						qa := qv.SingleAtom()
						if qa == nil || g.X.phiOf[qa.ID] != q || g.assumed[qa.ID] || g.Used[fmt.Sprintf("@lockstep:%d", qa.ID)] {
							continue
						}
						qi, qn := recurrenceOrNil(pfc, qv)
						if qi == nil {
							continue
						}
						if d2, isC2 := qn.Sub(qv).IsConst(); !isC2 || d2.Cmp(d) != 0 {
							continue
						}
						// (q itself is not in turn derived from p: a recursion guard, not an assumption)
						lk := fmt.Sprintf("@lockstep:%d", id)
						g.Used[lk] = true
						ok2 := g.sign(qv.Add(pi.Sub(qi)), strict)
						delete(g.Used, lk)
						if ok2 {
							g.Used["lock-step loop counters differ by a constant"] = true
							return true
						}
					}
				}
			}
		}
		vals, preds := pfc.Ctx.PhiLiveEdges(p)
		for i, v := range vals {
			h := pfc.SignerAt(preds[i].Instrs[len(preds[i].Instrs)-1])
			h.assumed, h.Used, h.depth = g.assumed, g.Used, g.depth
			h.ctx = g.ctx
			for _, f := range g.ctx {
				h.addFact(f)
			}
			// what is known where the question is asked also held while a helper's loop ran, as
			// far as it speaks only of values fixed for the whole call (parameters, their lengths
			// and fields, constants — nothing carried by a loop or read from updated memory)
			if pfc.Fn != p.Parent() || len(pfc.bindArgs) > 0 {
				for _, f := range g.facts {
					fixed := true
					for _, fa := range f.Atoms(true) {
						if _, isPhi := g.X.phiOf[fa.ID]; isPhi {
							fixed = false
						}
						if _, isMem := g.X.memphiOf[fa.ID]; isMem {
							fixed = false
						}
						if strings.HasPrefix(fa.Name, "idx") || strings.HasPrefix(fa.Name, "lookup") || strings.HasPrefix(fa.Name, "call:") || strings.HasPrefix(fa.Name, "apply") {
							fixed = false
						}
					}
					if fixed {
						h.addFact(f)
					}
				}
			}
			// the edge condition from pred into the header
			h.addFact(pfc.edgeCond(preds[i], p.Block()))
			if !h.sign(pfc.Val(v), strict) {
				return false
			}
		}
		return true
	}
	return false
}

func recurrenceOrNil(fc *FC, v *RF) (init, next *RF) {
	defer func() {
		if recover() != nil {
			init, next = nil, nil
		}
	}()
	return fc.Recurrence(v)
}

// ---- D-floor ----

type floorSite struct {
	Fn, Where, Kind, Expr string
	OK                    bool
	Why                   string
}

func isSignedInt(t types.Type) bool {
	b, ok := t.Underlying().(*types.Basic)
	return ok && b.Info()&types.IsInteger != 0 && b.Info()&types.IsUnsigned == 0
}

// DFloor examines every site in fn.
func (x *Extractor) DFloor(fn *ssa.Function) []floorSite { return x.dfloorFC(x.FCFor(fn), nil) }

// DFloorInContexts: the sites of a private helper decided in each of its
// calling contexts (parameters bound to the caller's arguments, the caller's
// branch facts at the call added); a site holds when it holds in every context.
func (x *Extractor) DFloorInContexts(fn *ssa.Function, callers []*ssa.Function) []floorSite {
	var merged []floorSite
	idx := map[string]int{}
	n := 0
	for _, g := range callers {
		gfc := x.FCFor(g)
		gfc.Ctx.Instrs(func(in ssa.Instruction) {
			c, ok := in.(*ssa.Call)
			if !ok || c.Common().StaticCallee() != fn || len(c.Common().Args) != len(fn.Params) {
				return
			}
			n++
			bind := map[*ssa.Parameter]*RF{}
			args := make([]*RF, len(fn.Params))
			for i, p := range fn.Params {
				args[i] = gfc.Val(c.Common().Args[i])
				bind[p] = args[i]
			}
			sub := x.newFC(fn, bind, nil)
			sub.bindArgs = args
			for _, st := range x.dfloorFC(sub, gfc.SignerAt(c).facts) {
				key := st.Where + "|" + st.Kind
				if i, seen := idx[key]; seen {
					if !st.OK && merged[i].OK {
						merged[i] = st
					}
					continue
				}
				idx[key] = len(merged)
				st.Why += " (in the context of its call from " + x.W.FuncName(g) + ")"
				merged = append(merged, st)
			}
		})
	}
	if n == 0 {
		return x.DFloor(fn)
	}
	return merged
}

func (x *Extractor) dfloorFC(fc *FC, extra []*RF) []floorSite {
	fn := fc.Fn
	name := x.W.FuncName(fn)
	var out []floorSite
	signerAt := func(in ssa.Instruction) *Signer {
		g := fc.SignerAt(in)
		g.ctx = extra
		for _, f := range extra {
			g.addFact(f)
		}
		return g
	}
	fc.Ctx.Instrs(func(in ssa.Instruction) {
		switch v := in.(type) {
		case *ssa.Convert:
			if !(isFloatType(v.X.Type()) && isIntType(v.Type())) {
				return
			}
			if _, isConst := v.X.(*ssa.Const); isConst {
				return
			}
			site := floorSite{Fn: name, Where: x.W.InstrPos(v), Kind: "float→int"}
			arg := fc.Val(v.X)
			site.Expr = clip(arg.String(), 160)
			g := signerAt(v)
			switch {
			case x.S.Integral(arg):
				site.OK, site.Why = true, "operand is integral (floor/ceil/modf/int arithmetic)"
			case g.NonNeg(arg):
				site.OK, site.Why = true, "operand is non-negative"+usedStr(g)
			default:
				site.Why = "operand neither integral nor provably non-negative: int() truncates toward zero where floor is meant"
			}
			out = append(out, site)
		case *ssa.BinOp:
			if v.Op != token.QUO && v.Op != token.REM {
				return
			}
			if !isSignedInt(v.X.Type()) {
				return
			}
			site := floorSite{Fn: name, Where: x.W.InstrPos(v), Kind: "int " + v.Op.String()}
			l, r := fc.Val(v.X), fc.Val(v.Y)
			site.Expr = clip(l.String()+" "+v.Op.String()+" "+r.String(), 200)
			g := signerAt(v)
			switch {
			case g.NonNeg(l) && (v.Op == token.REM || g.NonNeg(r)):
				site.OK, site.Why = true, "operands non-negative"+usedStr(g)
			case v.Op == token.REM && remOnlyComparedSymmetrically(fn, v):
				site.OK, site.Why = true, "result used only in ==/!= against a constant set closed under negation"
			default:
				site.Why = "dividend not provably non-negative: Go's / and % truncate toward zero where floor is meant"
			}
			out = append(out, site)
		}
	})
	return out
}

func usedStr(g *Signer) string {
	if len(g.Used) == 0 {
		return ""
	}
	var xs []string
	for k := range g.Used {
		xs = append(xs, k)
	}
	sort.Strings(xs)
	return " [precondition: " + strings.Join(xs, "; ") + "]"
}

// remOnlyComparedSymmetrically: all uses of x%m (over all % instructions in fn
// with the same operands) are ==/!= comparisons with constants, and the set of
// constants is closed under negation.
func remOnlyComparedSymmetrically(fn *ssa.Function, v *ssa.BinOp) bool {
	consts := map[string]bool{}
	for _, b := range fn.Blocks {
		for _, in := range b.Instrs {
			bo, ok := in.(*ssa.BinOp)
			if !ok || bo.Op != token.REM || bo.X != v.X || !sameVal(bo.Y, v.Y) {
				continue
			}
			for _, ref := range *bo.Referrers() {
				cmp, ok := ref.(*ssa.BinOp)
				if !ok || (cmp.Op != token.EQL && cmp.Op != token.NEQ) {
					return false
				}
				other := cmp.Y
				if other == bo {
					other = cmp.X
				}
				c, ok := other.(*ssa.Const)
				if !ok || c.Value == nil {
					return false
				}
				consts[c.Value.ExactString()] = true
			}
		}
	}
	for c := range consts {
		r, ok := new(big.Rat).SetString(c)
		if !ok {
			return false
		}
		if !consts[new(big.Rat).Neg(r).RatString()] && r.Sign() != 0 {
			return false
		}
	}
	return len(consts) > 0
}

// CheckDFloor registers one obligation per site of the named functions.
// Returns the number of sites.
func (b *B) CheckDFloor(rule string, fnNames ...string) int {
	n := 0
	// the named functions form a group together with their anonymous functions
	// and the private helpers all of whose callers are in the group (an
	// extracted helper is part of the function it was extracted from); the
	// vacuity floor applies to the group
	var group []*ssa.Function
	named := map[*ssa.Function]string{}
	var first *ssa.Function
	for _, name := range fnNames {
		if strings.Contains(name, "$") {
			if fn := b.A.W.Fn(name); fn != nil {
				group = append(group, fn)
				named[fn] = name
			}
			continue // an anonymous function may have been turned into a helper
		}
		fn := b.Fn(rule, name)
		if fn == nil {
			continue
		}
		if first == nil {
			first = fn
		}
		group = append(group, fn)
		named[fn] = name
	}
	if first == nil {
		return 0
	}
	group = b.A.W.WithPrivateHelpers(group)
	total := 0
	for _, fn := range group {
		name := named[fn]
		if name == "" {
			name = b.A.W.FuncName(fn)
		}
		sites := b.X.DFloor(fn)
		if named[fn] == "" && fn.Parent() == nil {
			sites = b.X.DFloorInContexts(fn, group) // a private helper: decided in its calling contexts
		}
		per := map[string]int{}
		for _, s := range sites {
			per[s.Kind]++
			construct := fmt.Sprintf("%s/%s#%d", name, s.Kind, per[s.Kind])
			if s.OK {
				b.R.OK(rule, construct, s.Where, s.Expr+" — "+s.Why)
			} else {
				b.R.Fail(rule, construct, s.Where, s.Expr+" — "+s.Why)
			}
			n++
		}
		total += len(sites)
	}
	if total == 0 {
		b.R.Undecided(rule, fnNames[0]+"/sites", b.pos(first), "expected at least one float→int conversion or integer division in "+strings.Join(fnNames, ", ")+" or their private helpers (vacuity floor)")
	}
	return n
}
