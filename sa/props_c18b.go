package main

import (
	"fmt"
	"go/types"
	"os"
	"strings"

	"golang.org/x/tools/go/ssa"
)

func propC18rest(a *Analysis, r *Registry, b *B) {
	X := b.X
	S := X.S
	const rB = "B-C18 formula"
	// ---- taint in graphout ----
	sinks := 0
	for _, fn := range a.W.FuncList {
		if fn.Pkg == nil || a.W.relPkg(fn.Pkg.Pkg) != "graph/graphout" {
			continue
		}
		name := a.W.FuncName(fn)
		if name == "graph/graphout.DotString" || name == "graph/graphout.defaultLabel" {
			continue
		}
		for _, blk := range fn.Blocks {
			for _, in := range blk.Instrs {
				c, ok := in.(*ssa.Call)
				if !ok {
					continue
				}
				f := c.Call.StaticCallee()
				if f == nil {
					continue
				}
				var operands []ssa.Value
				switch f.String() {
				case "fmt.Fprintf":
					// format must be constant; operands = the variadic elements
					if _, isC := c.Call.Args[1].(*ssa.Const); !isC {
						r.Fail("C-taint", name+"/format", a.W.InstrPos(c), "non-constant format string")
					}
					if sl, ok := c.Call.Args[2].(*ssa.Slice); ok {
						if al, ok := sl.X.(*ssa.Alloc); ok {
							for _, ref := range *al.Referrers() {
								if ia, ok := ref.(*ssa.IndexAddr); ok {
									for _, r2 := range *ia.Referrers() {
										if st, ok := r2.(*ssa.Store); ok {
											operands = append(operands, st.Val)
										}
									}
								}
							}
						}
					}
				case "(*strings.Builder).WriteString":
					operands = append(operands, c.Call.Args[1])
				default:
					continue
				}
				sinks++
				taintBlock = blk
				bad := ""
				for _, op := range operands {
					if ok, why := taintOK(a.W, op, 0); !ok {
						bad += why + "; "
					}
				}
				construct := name + "/sink@" + strings.TrimPrefix(f.String(), "(*strings.Builder).") + "#" + itoa(sinks)
				if bad == "" {
					r.OK("C-taint", construct, a.W.InstrPos(c), "every string operand is constant, quoted (DotString/formatAttrs), numeric, a DotLiteral or an attribute name")
				} else {
					r.Fail("C-taint", construct, a.W.InstrPos(c), "unquoted string reaches the dot output: "+bad)
				}
			}
		}
	}
	r.Floor("C-taint", "output sinks in graphout", sinks, 8)
	// node label goes through DotAttr{"label", label(i)} → formatAttrs → DotString: string attribute values are quoted
	if fn := b.Fn("C-taint", "graph/graphout.formatAttrs"); fn != nil {
		ok := false
		for _, blk := range fn.Blocks {
			for _, in := range blk.Instrs {
				if c, isC := in.(*ssa.Call); isC && c.Call.StaticCallee() != nil && c.Call.StaticCallee().Name() == "DotString" {
					if ex, isE := c.Call.Args[0].(*ssa.Extract); isE {
						if ta, isT := ex.Tuple.(*ssa.TypeAssert); isT {
							if bt, isB := ta.AssertedType.Underlying().(*types.Basic); isB && bt.Kind() == types.String {
								ok = true
							}
						}
					}
				}
			}
		}
		if ok {
			r.OK("C-taint", "graph/graphout.formatAttrs/string-values-quoted", b.pos(fn), "a string attribute value is written as DotString(val)")
		} else {
			r.Fail("C-taint", "graph/graphout.formatAttrs/string-values-quoted", b.pos(fn), "string attribute values are not passed through DotString")
		}
	}
	// ---- index maps ----
	if fn := b.Fn(rB, "graph.(*listSubgraph).NodeMap$1"); fn != nil {
		parent := a.W.Fn("graph.(*listSubgraph).NodeMap")
		b.guard(rB, "graph.(*listSubgraph).NodeMap", func() {
			env := X.EnvFor(fn, "node")
			env.Set("s", X.ParamRF(parent, 0), parent.Params[0].Type())
			env.Set("f", X.ParamRF(parent, 1), nil)
			b.Eq(rB, "graph.(*listSubgraph).NodeMap", b.pos(fn), X.FCFor(fn).RetVal(0), env, "f(s.nodes[node].oldNode)")
		})
	}
	if fn := b.Fn(rB, "graph.(*listSubgraph).EdgeMap$1"); fn != nil {
		parent := a.W.Fn("graph.(*listSubgraph).EdgeMap")
		b.guard(rB, "graph.(*listSubgraph).EdgeMap", func() {
			env := X.EnvFor(fn, "node", "edge")
			env.Set("s", X.ParamRF(parent, 0), parent.Params[0].Type())
			env.Set("f", X.ParamRF(parent, 1), nil)
			b.Eq(rB, "graph.(*listSubgraph).EdgeMap", b.pos(fn), X.FCFor(fn).RetVal(0), env, "f(s.nodes[node].oldNode, s.nodes[node].oldEdges[edge])")
		})
	}
	b.Formula(rB, "graph.(*listSubgraph).Out", "graph.(*listSubgraph).Out", []string{"s", "node"}, nil, 0, "s.nodes[node].out", nil)
	b.Formula(rB, "graph.(*listSubgraph).NumNodes", "graph.(*listSubgraph).NumNodes", []string{"s"}, nil, 0, "len(s.nodes)", nil)
	// lock-step appends
	for _, fname := range []string{"graph.SubgraphKeep", "graph.SubgraphRemove"} {
		fn := b.Fn("C-pair lock-step", fname)
		if fn == nil {
			continue
		}
		nOut, nOld := 0, 0
		paired := true
		builtSites := map[string]map[string]map[int]int{} // node → field → block index → appends
		// the two appends may be made here or by a helper that receives the node
		for _, fc := range X.FCFor(fn).BoundCallees(1) {
			fc := fc
			fc.Ctx.Instrs(func(in ssa.Instruction) {
				st, ok := in.(*ssa.Store)
				if !ok {
					return
				}
				fa, ok := st.Addr.(*ssa.FieldAddr)
				if !ok || X.typeName(fa.X.Type()) != "listSubgraphNode" {
					return
				}
				fname2 := fa.X.Type().Underlying().(*types.Pointer).Elem().Underlying().(*types.Struct).Field(fa.Field).Name()
				if _, isApp := st.Val.(*ssa.Call); !isApp {
					// the lists built in locals and stored once: the blocks in which each local is
					// appended to must be the same for the two lists stored into one node
					if fname2 == "out" || fname2 == "oldEdges" {
						key := fc.Val(fa.X).String()
						if builtSites[key] == nil {
							builtSites[key] = map[string]map[int]int{}
						}
						builtSites[key][fname2] = appendSites(st.Val)
					}
					return
				}
				other := map[string]string{"out": "oldEdges", "oldEdges": "out"}[fname2]
				if other == "" {
					return
				}
				if fname2 == "out" {
					nOut++
				} else {
					nOld++
				}
				found := false
				for _, in2 := range st.Block().Instrs {
					if st2, ok := in2.(*ssa.Store); ok {
						if fa2, ok := st2.Addr.(*ssa.FieldAddr); ok && fc.Val(fa2.X).Equal(fc.Val(fa.X)) {
							if fa2.X.Type().Underlying().(*types.Pointer).Elem().Underlying().(*types.Struct).Field(fa2.Field).Name() == other {
								found = true
							}
						}
					}
				}
				if !found {
					paired = false
				}
			})
		}
		if nOut == 0 && nOld == 0 && len(builtSites) > 0 {
			// every node's two lists are built by appends in the same blocks, one each
			same := true
			n := 0
			for _, byField := range builtSites {
				o, e := byField["out"], byField["oldEdges"]
				if len(o) == 0 || len(o) != len(e) {
					same = false
				}
				for blk, k := range o {
					n++
					if k != 1 || e[blk] != 1 {
						same = false
					}
				}
			}
			if same && n > 0 {
				r.OK("C-pair lock-step", fname+"/out+oldEdges", b.pos(fn), "the two lists stored into a node are built by appends made in the same blocks, one each")
			} else {
				r.Fail("C-pair lock-step", fname+"/out+oldEdges", b.pos(fn), "out and oldEdges are not appended in lock-step (EdgeMap would translate wrongly)")
			}
			continue
		}
		if paired && nOut == 1 && nOld == 1 {
			r.OK("C-pair lock-step", fname+"/out+oldEdges", b.pos(fn), "every path that appends a new edge also appends its old edge index, on the same node")
		} else {
			r.Fail("C-pair lock-step", fname+"/out+oldEdges", b.pos(fn), "out and oldEdges are not appended in lock-step (EdgeMap would translate wrongly)")
		}
		a.CheckNoMutation(r, "A-1 no-mutation", fn, nil)
	}
	if d := os.Getenv("GMSA_DEBUG_CONDS"); d != "" {
		if f := a.W.Fn(d); f != nil {
			debugConds(X, f)
		}
	}
	if d := os.Getenv("GMSA_DEBUG_APPENDS"); d != "" {
		if f := a.W.Fn(d); f != nil {
			debugAppends(X, f)
		}
	}
	// what is appended in SubgraphRemove / SubgraphKeep
	if fn := b.Fn(rB, "graph.SubgraphRemove"); fn != nil {
		b.guard(rB, "graph.SubgraphRemove/edge", func() {
			fc := X.FCFor(fn)
			for _, c := range fc.CallsTo("builtin:append") {
				vals := fc.AppendedValues(c)
				if len(vals) != 1 {
					continue
				}
				base := fc.Val(c.Call.Args[0]).String()
				if strings.Contains(base, "listSubgraphNode.oldEdges") {
					// the old edge index appended is the loop index j of oldOut
					if at := vals[0]; len(fc.loopPhis(at)) == 1 {
						r.OK(rB, "graph.SubgraphRemove/oldEdges-value", a.W.InstrPos(c), "appends the index of the kept edge in the old adjacency list")
					} else {
						r.Fail(rB, "graph.SubgraphRemove/oldEdges-value", a.W.InstrPos(c), "oldEdges does not receive the old edge index")
					}
				}
				if strings.Contains(base, "listSubgraphNode.out") {
					if at := vals[0].SingleAtom(); at != nil && at.Name == "lookup" {
						r.OK(rB, "graph.SubgraphRemove/out-value", a.W.InstrPos(c), "appends oldToNew[target]")
					} else {
						r.Fail(rB, "graph.SubgraphRemove/out-value", a.W.InstrPos(c), "the new edge target is not oldToNew[old target]")
					}
				}
			}
		})
	}
	// removal lookups use underlying-graph identifiers
	if fn := b.Fn(rB, "graph.SubgraphRemove"); fn != nil {
		b.guard(rB, "graph.SubgraphRemove/lookups", func() {
			fc := X.FCFor(fn)
			env := X.EnvFor(fn, "g", "nodes", "edges")
			okEdge, okNode := false, false
			fc.Ctx.Instrs(func(in ssa.Instruction) {
				lk, ok := in.(*ssa.Lookup)
				if !ok || fc.Ctx.LoopOf(lk.Block()) == nil {
					return
				}
				key := fc.Val(lk.Index)
				if ka := key.SingleAtom(); ka != nil && ka.Name == "mk:Edge" {
					// Edge{N, j}: N must be the node whose adjacency list is being walked, j the position in it
					for _, c := range fc.CallsTo("invoke:Out") {
						out := fc.Val(c)
						N := fc.Val(c.Call.Args[0])
						if !ka.Args[0].Equal(N) {
							continue
						}
						// j indexes out: some element out[j] is read in this loop
						fc.Ctx.Instrs(func(in2 ssa.Instruction) {
							if u, ok := in2.(*ssa.UnOp); ok {
								if ea := fc.Val(u).SingleAtom(); ea != nil && ea.Name == "idx" && ea.Args[0].Equal(out) && ea.Args[1].Equal(ka.Args[1]) {
									okEdge = true
								}
							}
						})
					}
				} else if ea := key.SingleAtom(); ea != nil && ea.Name == "idx" {
					if oa := ea.Args[0].SingleAtom(); oa != nil && oa.Name == "call:Out" {
						okNode = true // rmNodes[oldOut[j]] / oldToNew[oldOut[j]]
					}
				}
			})
			_ = env
			if okEdge {
				r.OK(rB, "graph.SubgraphRemove/edge-lookup", b.pos(fn), "removed edges are looked up as Edge{old node id, position in its old adjacency list}")
			} else {
				r.Fail(rB, "graph.SubgraphRemove/edge-lookup", b.pos(fn), "the removed-edge lookup is not keyed by the underlying node id whose adjacency list is walked and the position in it")
			}
			if okNode {
				r.OK(rB, "graph.SubgraphRemove/target-lookup", b.pos(fn), "edge targets are looked up by their underlying id")
			} else {
				r.Fail(rB, "graph.SubgraphRemove/target-lookup", b.pos(fn), "edge targets are not looked up by their underlying id")
			}
		})
	}
	// SubgraphRemove yields exactly the requested subgraph: every node of g is gone through and
	// kept exactly when it is not in the removal set; every kept node's every out-edge is gone
	// through and kept exactly when neither its target nor the edge itself is removed; the sets
	// hold every element of `nodes` / `edges`; a kept node is numbered by its position.
	if fn := b.Fn(rB, "graph.SubgraphRemove"); fn != nil {
		b.guard(rB, "graph.SubgraphRemove/exactly", func() {
			fc := X.FCFor(fn)
			env := X.EnvFor(fn, "g", "nodes", "edges")
			name := "graph.SubgraphRemove"
			// the three maps, by what they are filled with
			var rmNodes, rmEdges, oldToNew *RF
			var o2nUpd *ssa.MapUpdate
			nMapUpd := 0
			fc.Ctx.Instrs(func(in ssa.Instruction) {
				mu, ok := in.(*ssa.MapUpdate)
				if !ok {
					return
				}
				nMapUpd++
				key := fc.Val(mu.Key)
				where := a.W.InstrPos(mu)
				if ka := key.SingleAtom(); ka != nil && ka.Name == "idx" && ka.Args[0].Equal(env.Vars["nodes"].RF) {
					rmNodes = fc.Val(mu.Map)
					b.FullScan("C-scan coverage", name+"/removed-nodes-collected", where, fc, ka.Args[1], env.MustParse("len(nodes)"))
				} else if ka != nil && ka.Name == "idx" && ka.Args[0].Equal(env.Vars["edges"].RF) {
					rmEdges = fc.Val(mu.Map)
					b.FullScan("C-scan coverage", name+"/removed-edges-collected", where, fc, ka.Args[1], env.MustParse("len(edges)"))
				} else {
					oldToNew, o2nUpd = fc.Val(mu.Map), mu
				}
			})
			if rmNodes == nil || rmEdges == nil || oldToNew == nil {
				if nMapUpd < 3 {
					// part of the construction lives in helpers with their own loops: this rule
					// is stated on the one-function shape only (the looser rules above still apply)
					return
				}
				r.Undecided(rB, name+"/exactly", b.pos(fn), "anchor: the removal sets and the old→new numbering are not three maps filled from nodes, edges and the kept nodes")
				return
			}
			nNode, nOut, nOld := 0, 0, 0
			for _, site := range loopAppendSites(X, fc) {
				c := site.C
				vals := site.FC.AppendedValues(c)
				if len(vals) != 1 {
					continue
				}
				where := a.W.InstrPos(c)
				base := site.FC.Val(c.Call.Args[0])
				when := site.When
				e := X.EnvFor(fn, "g", "nodes", "edges")
				e.Set("rmNodes", rmNodes, nil)
				e.Set("rmEdges", rmEdges, nil)
				e.Set("oldToNew", oldToNew, nil)
				if va := vals[0].SingleAtom(); va != nil && va.Name == "mk:listSubgraphNode" {
					nNode++
					K := va.Args[1]
					b.FullScan("C-scan coverage", name+"/every-node", where, fc, K, env.MustParse("g.NumNodes()"))
					b.EqRF(rB, name+"/node-kept-when", where, when, S.Not(S.MakeFn("lookupok", rmNodes, K)), "a node is kept exactly when it is not in the removal set")
					if bi, _ := recurrenceOrNil(fc, base); bi == nil {
						r.Fail(rB, name+"/starts-empty", where, "the list of kept nodes is not carried round the node loop")
					} else {
						b.EqRF(rB, name+"/starts-empty", where, S.MakeFn("len", bi), S.Int(0), "the list of kept nodes starts empty")
					}
					if o2nUpd != nil {
						b.EqRF(rB, name+"/numbering/key", a.W.InstrPos(o2nUpd), fc.Val(o2nUpd.Key), K, "the numbering is recorded under the node's old id")
						b.EqRF(rB, name+"/numbering/value", a.W.InstrPos(o2nUpd), fc.Val(o2nUpd.Value), S.MakeFn("len", base), "the new id is the node's position in the list of kept nodes")
						b.EqRF(rB, name+"/numbering/when", a.W.InstrPos(o2nUpd), fc.ReachCondFrom(loopBodyEntry(fc, o2nUpd.Block()), o2nUpd.Block()), when, "recorded exactly when the node is kept")
					}
					continue
				}
				ba := base.SingleAtom()
				if ba == nil || !strings.HasPrefix(ba.Name, "fld:listSubgraphNode.") {
					continue
				}
				el := unref(ba.Args[0]).SingleAtom()
				if el == nil || (el.Name != "idx" && el.Name != "&idx") {
					r.Fail(rB, name+"/edge-kept", where, "the edge list appended to is not that of an element of the kept-node list")
					continue
				}
				I := el.Args[1]
				N := S.MakeFn("fld:listSubgraphNode.oldNode", S.MakeFn("idx", el.Args[0], el.Args[1]))
				outN := S.MakeFn("call:Out", env.Vars["g"].RF, N)
				// J: the position in the old adjacency list
				var J *RF
				for _, ia := range FindFn(when, "idx") {
					if ia.Args[0].Equal(outN) {
						J = ia.Args[1]
					}
				}
				if J == nil {
					r.Fail(rB, name+"/edge-kept", where, "the condition for keeping an edge does not look at the old adjacency list of the kept node: "+clip(when.String(), 160))
					continue
				}
				tgt := S.MakeFn("idx", outN, J)
				want := S.And(S.Not(S.MakeFn("lookupok", rmNodes, tgt)), S.Not(S.MakeFn("lookupok", rmEdges, S.MakeFn("mk:Edge", N, J))))
				switch ba.Name {
				case "fld:listSubgraphNode.out":
					nOut++
					b.FullScan("C-scan coverage", name+"/every-kept-node", where, fc, I, S.MakeFn("len", el.Args[0]))
					b.FullScan("C-scan coverage", name+"/every-out-edge", where, fc, J, S.MakeFn("len", outN))
					b.EqRF(rB, name+"/edge-kept-when", where, when, want, "an edge is kept exactly when neither its target nor the edge itself is removed")
					b.EqRF(rB, name+"/edge-target", where, vals[0], S.MakeFn("lookup", oldToNew, tgt), "the new target is the old target's new id")
				case "fld:listSubgraphNode.oldEdges":
					nOld++
					b.EqRF(rB, name+"/old-edge-when", where, when, want, "the old edge index is recorded exactly when the edge is kept")
					b.EqRF(rB, name+"/old-edge-index", where, vals[0], J, "the old edge index is the position in the old adjacency list")
				}
			}
			if nOut == 0 && nOld == 0 && nNode <= 1 {
				// the edge lists are built elsewhere (locals stored into the node, a helper with its
				// own loop): not the shape this rule is stated on
			} else if nNode != 1 || nOut != 1 || nOld != 1 {
				r.Fail(rB, name+"/exactly", b.pos(fn), fmt.Sprintf("expected one append of a kept node, one of a new target and one of an old edge index, found %d/%d/%d", nNode, nOut, nOld))
			}
		})
	}
	// SubgraphKeep: subgraph node i is nodes[i] — the numbering records i under nodes[i] for every
	// i, node i's oldNode is nodes[i] for every i; every requested edge is gone through and
	// appended (always) to the list of the new node its source maps to.
	if fn := b.Fn(rB, "graph.SubgraphKeep"); fn != nil {
		b.guard(rB, "graph.SubgraphKeep/exactly", func() {
			fc := X.FCFor(fn)
			env := X.EnvFor(fn, "g", "nodes", "edges")
			name := "graph.SubgraphKeep"
			var oldToNew *RF
			var numBody *ssa.BasicBlock
			nUpd := 0
			fc.Ctx.Instrs(func(in ssa.Instruction) {
				mu, ok := in.(*ssa.MapUpdate)
				if !ok {
					return
				}
				nUpd++
				where := a.W.InstrPos(mu)
				key := fc.Val(mu.Key)
				ka := key.SingleAtom()
				if ka == nil || ka.Name != "idx" || !ka.Args[0].Equal(env.Vars["nodes"].RF) {
					r.Fail(rB, name+"/numbering/key", where, "the numbering is not recorded under an element of nodes: "+clip(key.String(), 100))
					return
				}
				oldToNew = fc.Val(mu.Map)
				numBody = loopBodyEntry(fc, mu.Block())
				b.EqRF(rB, name+"/numbering/value", where, fc.Val(mu.Value), ka.Args[1], "subgraph node i is nodes[i]: oldToNew[nodes[i]] ≡ i")
				b.FullScan("C-scan coverage", name+"/numbering/every-node", where, fc, ka.Args[1], env.MustParse("len(nodes)"))
			})
			if nUpd != 1 || oldToNew == nil {
				r.Fail(rB, name+"/numbering", b.pos(fn), fmt.Sprintf("expected one map update recording the numbering, found %d", nUpd))
				return
			}
			// the requests rejected: exactly a node outside g or one named twice
			func() {
				rejected := S.False()
				var K *RF
				np := 0
				fc.Ctx.Instrs(func(in ssa.Instruction) {
					pn, ok := in.(*ssa.Panic)
					if !ok || numBody == nil || !fc.Ctx.Dominates(numBody, pn.Block()) {
						return
					}
					np++
					rejected = S.Or(rejected, fc.ReachCondFrom(numBody, pn.Block()))
				})
				for _, at := range FindFn(rejected, "idx") {
					if at.Args[0].Equal(env.Vars["nodes"].RF) {
						K = S.atomRF(at.ID)
					}
				}
				if np == 0 {
					return // no validation: nothing is rejected
				}
				if K == nil {
					r.Fail(rB, name+"/rejects", b.pos(fn), "a request is rejected for a reason that does not look at the requested node: "+clip(rejected.String(), 160))
					return
				}
				want := S.Or(S.Or(S.Cmp("<", K, S.Int(0)), S.Cmp("<=", env.MustParse("g.NumNodes()"), K)), S.MakeFn("lookupok", oldToNew, K))
				b.EqRF(rB, name+"/rejects", b.pos(fn), rejected, want, "a request is rejected exactly when a node is outside g or named twice")
			}()
			// newNodes[i].oldNode = nodes[i]
			nOld := 0
			fc.Ctx.Instrs(func(in ssa.Instruction) {
				st, ok := in.(*ssa.Store)
				if !ok {
					return
				}
				fa, ok := st.Addr.(*ssa.FieldAddr)
				if !ok || X.typeName(fa.X.Type()) != "listSubgraphNode" || fc.Ctx.LoopOf(st.Block()) == nil {
					return
				}
				ia, ok := fa.X.(*ssa.IndexAddr)
				if !ok {
					return
				}
				fld := derefT(fa.X.Type()).Underlying().(*types.Struct).Field(fa.Field).Name()
				if fld != "oldNode" {
					return
				}
				nOld++
				where := a.W.InstrPos(st)
				i := fc.Val(ia.Index)
				b.EqRF(rB, name+"/oldNode", where, fc.Val(st.Val), S.MakeFn("idx", env.Vars["nodes"].RF, i), "newNodes[i].oldNode ≡ nodes[i]")
				b.FullScan("C-scan coverage", name+"/oldNode/every-node", where, fc, i, env.MustParse("len(nodes)"))
				b.EqRF(rB, name+"/len(newNodes)", where, S.MakeFn("len", fc.Val(ia.X)), env.MustParse("len(nodes)"), "one new node per requested node")
			})
			if nOld != 1 {
				r.Fail(rB, name+"/oldNode", b.pos(fn), fmt.Sprintf("expected one store of newNodes[i].oldNode in a loop, found %d", nOld))
			}
			for _, site := range loopAppendSites(X, fc) {
				c := site.C
				base := site.FC.Val(c.Call.Args[0]).SingleAtom()
				if base == nil || !strings.HasPrefix(base.Name, "fld:listSubgraphNode.") {
					continue
				}
				where := a.W.InstrPos(c)
				when := site.When
				var oe *RF
				for _, at := range FindFn(S.atomRF(base.ID), "idx") {
					if at.Args[0].Equal(env.Vars["edges"].RF) {
						oe = S.atomRF(at.ID)
					}
				}
				if oe == nil {
					r.Fail(rB, name+"/edge-source", where, "the list appended to is not chosen by an element of edges")
					continue
				}
				tag := strings.TrimPrefix(base.Name, "fld:listSubgraphNode.")
				b.EqRF(rB, name+"/"+tag+"/always", where, when, S.True(), "every requested edge is appended")
				el := unref(base.Args[0]).SingleAtom()
				if el != nil && (el.Name == "idx" || el.Name == "&idx") {
					b.EqRF(rB, name+"/"+tag+"/source", where, el.Args[1], S.MakeFn("lookup", oldToNew, S.MakeFn("fld:Edge.Node", oe)), "appended to the new node the edge's source maps to")
				} else {
					r.Fail(rB, name+"/"+tag+"/source", where, "the list appended to is not that of a new node: "+clip(base.Args[0].String(), 200))
				}
				b.FullScan("C-scan coverage", name+"/"+tag+"/every-edge", where, fc, oe.SingleAtom().Args[1], env.MustParse("len(edges)"))
			}
		})
	}
	if fn := b.Fn(rB, "graph.SubgraphKeep"); fn != nil {
		b.guard(rB, "graph.SubgraphKeep/edge", func() {
			fc := X.FCFor(fn)
			env := X.EnvFor(fn, "g", "nodes", "edges")
			for _, c := range fc.CallsTo("builtin:append") {
				vals := fc.AppendedValues(c)
				if len(vals) != 1 {
					continue
				}
				base := fc.Val(c.Call.Args[0]).String()
				e := X.EnvFor(fn, "g", "nodes", "edges")
				// the kept edge: the element of `edges` being processed
				ed := FindFn(vals[0], "idx")
				var oe *RF
				for _, at := range ed {
					if at.Args[0].Equal(env.Vars["edges"].RF) {
						oe = X.S.atomRF(at.ID)
					}
				}
				if oe == nil {
					continue
				}
				e.Set("oe", oe, a.W.Lib["graph"].Members["Edge"].Type())
				if strings.Contains(base, "listSubgraphNode.oldEdges") {
					b.Eq(rB, "graph.SubgraphKeep/oldEdges-value", a.W.InstrPos(c), vals[0], e, "oe.Edge")
				}
				if strings.Contains(base, "listSubgraphNode.out") {
					lk := vals[0].SingleAtom()
					if lk != nil && lk.Name == "lookup" {
						b.Eq(rB, "graph.SubgraphKeep/out-value", a.W.InstrPos(c), lk.Args[1], e, "g.Out(oe.Node)[oe.Edge]")
					} else {
						r.Fail(rB, "graph.SubgraphKeep/out-value", a.W.InstrPos(c), "new edge target is not oldToNew[g.Out(edge.Node)[edge.Edge]]")
					}
				}
			}
		})
	}
	// MakeBiGraph: preds[j] = append(preds[j], i) for j in g.Out(i)
	if fn := b.Fn(rB, "graph.MakeBiGraph"); fn != nil {
		b.guard(rB, "graph.MakeBiGraph", func() {
			fc := X.FCFor(fn)
			ok := false
			for _, c := range fc.CallsTo("builtin:append") {
				vals := fc.AppendedValues(c)
				dst := fc.Val(c.Call.Args[0]).SingleAtom()
				if len(vals) != 1 || dst == nil || dst.Name != "idx" {
					continue
				}
				j := dst.Args[1].SingleAtom()
				if j == nil || j.Name != "idx" {
					continue
				}
				out := j.Args[0].SingleAtom()
				if out != nil && out.Name == "call:Out" && out.Args[1].Equal(vals[0]) {
					// stored back at preds[j]
					for _, ref := range *c.Referrers() {
						if st, isS := ref.(*ssa.Store); isS {
							if ia, isI := st.Addr.(*ssa.IndexAddr); isI && fc.Val(ia.Index).Equal(dst.Args[1]) && fc.Val(ia.X).Equal(dst.Args[0]) {
								ok = true
							}
						}
					}
				}
			}
			if ok {
				r.OK(rB, "graph.MakeBiGraph/transpose", b.pos(fn), "preds[j] = append(preds[j], i) for each j in g.Out(i)")
			} else {
				r.Fail(rB, "graph.MakeBiGraph/transpose", b.pos(fn), "In is not built as the transpose of Out")
			}
		})
		a.CheckNoMutation(r, "A-1 no-mutation", fn, nil)
	}
	// simplified / SCCGraph accessors
	b.Formula(rB, "graph/graphalg.(*simplified).Out", "graph/graphalg.(*simplified).Out", []string{"g", "n"}, nil, 0, "slice(g.edges, g.indexes[n], g.indexes[n+1], _)", nil)
	b.Formula(rB, "graph/graphalg.(*simplified).OutWeight", "graph/graphalg.(*simplified).OutWeight", []string{"g", "n", "e"}, nil, 0, "slice(g.weights, g.indexes[n], g.indexes[n+1], _)[e]", nil)
	b.Formula(rB, "graph/graphalg.(*simplified).NumNodes", "graph/graphalg.(*simplified).NumNodes", []string{"g"}, nil, 0, "len(g.indexes)-1", nil)
	b.Formula(rB, "graph/graphalg.(*SCCGraph).Subnodes", "graph/graphalg.(*SCCGraph).Subnodes", []string{"g", "cid"}, nil, 0, "slice(g.subnodes, g.subnodeIndexes[cid], g.subnodeIndexes[cid+1], _)", nil)
	b.Formula(rB, "graph/graphalg.(*SCCGraph).NumNodes", "graph/graphalg.(*SCCGraph).NumNodes", []string{"g"}, nil, 0, "len(g.subnodeIndexes)-1", nil)
	b.Formula(rB, "graph/graphalg.(*SCCGraph).Out", "graph/graphalg.(*SCCGraph).Out", []string{"g", "cid"}, nil, 0, "ite(g.out==nil, nil, slice(g.out, g.outIndexes[cid], g.outIndexes[cid+1], _))", nil)
	// an element read through a slice expression loses the slice's upper bound in the value
	// (w[lo:hi][e] is w[lo+e] whenever it does not panic): the bounds of the slice expression
	// itself are compared too — `hi` is what keeps e inside this node's edges
	if fn := b.Fn(rB, "graph/graphalg.(*simplified).OutWeight"); fn != nil {
		b.guard(rB, "graph/graphalg.(*simplified).OutWeight/bounds", func() {
			fc := X.FCFor(fn)
			env := X.EnvFor(fn, "g", "n", "e")
			n := 0
			fc.Ctx.Instrs(func(in ssa.Instruction) {
				sl, ok := in.(*ssa.Slice)
				if !ok {
					return
				}
				n++
				where := a.W.InstrPos(sl)
				b.Eq(rB, "graph/graphalg.(*simplified).OutWeight/bounds/base", where, fc.Val(sl.X), env, "g.weights")
				if sl.Low == nil || sl.High == nil {
					r.Fail(rB, "graph/graphalg.(*simplified).OutWeight/bounds", where, "the slice of this node's weights has an open end")
					return
				}
				b.Eq(rB, "graph/graphalg.(*simplified).OutWeight/bounds/low", where, fc.Val(sl.Low), env, "g.indexes[n]")
				b.Eq(rB, "graph/graphalg.(*simplified).OutWeight/bounds/high", where, fc.Val(sl.High), env, "g.indexes[n+1]")
			})
			if n > 1 {
				r.Fail(rB, "graph/graphalg.(*simplified).OutWeight/bounds", b.pos(fn), fmt.Sprintf("expected one slice expression selecting this node's weights, found %d", n))
			}
		})
	}
	// SimplifyMulti
	if fn := b.Fn(rB, "graph/graphalg.SimplifyMulti"); fn != nil {
		b.guard(rB, "graph/graphalg.SimplifyMulti", func() {
			fc := X.FCFor(fn)
			// merge: weights[idx] += w ; else append both
			merge, appE, appW := false, false, false
			var appBlock *ssa.BasicBlock
			fc.Ctx.Instrs(func(in ssa.Instruction) {
				switch v := in.(type) {
				case *ssa.Store:
					if ia, ok := v.Addr.(*ssa.IndexAddr); ok && isFloatType(v.Val.Type()) {
						val := fc.Val(v.Val)
						old := S.MakeFn("idx", fc.Val(ia.X), fc.Val(ia.Index))
						if w := val.Sub(old).SingleAtom(); w != nil && w.Name == "call:OutWeight" {
							if lk := fc.Val(ia.Index).SingleAtom(); lk != nil && (lk.Name == "lookup" || strings.HasPrefix(lk.Name, "lookup")) {
								merge = true
							}
						}
					}
				case *ssa.Call:
					if bi, ok := v.Call.Value.(*ssa.Builtin); ok && bi.Name() == "append" {
						vals := fc.AppendedValues(v)
						if len(vals) == 1 {
							if isFloatType(v.Type().Underlying().(*types.Slice).Elem()) {
								if w := vals[0].SingleAtom(); w != nil && w.Name == "call:OutWeight" {
									appW = true
									if appBlock == nil {
										appBlock = v.Block()
									} else if appBlock != v.Block() {
										appE = false
									}
								}
							} else {
								appE = true
								if appBlock == nil {
									appBlock = v.Block()
								}
							}
						}
					}
				}
			})
			if merge && appE && appW {
				r.OK(rB, "graph/graphalg.SimplifyMulti/merge-or-append", b.pos(fn), "a repeated target adds its weight to the existing edge; a new target appends edge and weight together")
			} else {
				r.Fail(rB, "graph/graphalg.SimplifyMulti/merge-or-append", b.pos(fn), "parallel edges are not merged by summing weights / new edges not appended with their weight")
			}
			propC18simplifyMap(a, r, b, fn, fc)
			// indexes[n+1] = len(edges)
			okIdx := false
			fc.Ctx.Instrs(func(in ssa.Instruction) {
				if st, ok := in.(*ssa.Store); ok {
					if ia, ok := st.Addr.(*ssa.IndexAddr); ok && isIntType(st.Val.Type()) {
						if at := fc.Val(st.Val).SingleAtom(); at != nil && at.Name == "len" {
							ph := fc.loopPhis(fc.Val(ia.Index))
							if len(ph) == 1 && fc.Val(ia.Index).Sub(ph[0]).Equal(S.Int(2)) || len(ph) == 1 && fc.Val(ia.Index).Sub(ph[0]).Equal(S.Int(1)) {
								okIdx = true
							}
						}
					}
				}
			})
			// exactly: for the node n whose adjacency list is walked, indexes[n+1] receives the
			// number of edges emitted so far once n's list is done, in every iteration; n runs over
			// every node; indexes has one more entry than there are nodes
			func() {
				outs := fc.CallsTo("invoke:Out")
				if len(outs) != 1 {
					okIdx = false
					return
				}
				N := fc.Val(outs[0].Call.Args[0])
				// the weighted view: g itself when it is weighted, unit weights otherwise
				gwv := fc.Val(outs[0].Call.Value)
				{
					g0 := X.ParamRF(fn, 0)
					want := S.Ite(S.MakeFn("typeassert:graph.Weighted#1", g0), S.MakeFn("typeassert:graph.Weighted#0", g0), S.MakeFn("mk:WeightedUnit", g0))
					b.EqRF(rB, "graph/graphalg.SimplifyMulti/weights-of", a.W.InstrPos(outs[0]), gwv, want, "edges and weights are read from g itself when it is graph.Weighted, from WeightedUnit{g} otherwise")
				}
				var edgesBase *RF
				for _, c := range fc.CallsTo("builtin:append") {
					if isIntType(c.Type().Underlying().(*types.Slice).Elem()) && fc.Ctx.LoopOf(c.Block()) != nil {
						edgesBase = fc.Val(c.Call.Args[0])
					}
				}
				n := 0
				fc.Ctx.Instrs(func(in ssa.Instruction) {
					st, ok := in.(*ssa.Store)
					if !ok {
						return
					}
					ia, ok := st.Addr.(*ssa.IndexAddr)
					if !ok || !isIntType(st.Val.Type()) {
						return
					}
					at := fc.Val(st.Val).SingleAtom()
					if at == nil || at.Name != "len" {
						return
					}
					n++
					where := a.W.InstrPos(st)
					cn := "graph/graphalg.SimplifyMulti/indexes"
					b.EqRF(rB, cn+"/slot", where, fc.Val(ia.Index), N.Add(S.Int(1)), "the slot written is n+1 for the node n whose edges were just emitted")
					if edgesBase == nil || !at.Args[0].Equal(edgesBase) {
						r.Fail(rB, cn+"/value", where, "the value is not the length of the edge list after this node's edges: "+clip(at.Args[0].String(), 100))
					} else {
						r.OK(rB, cn+"/value", where, "the value is the length of the edge list once the node's edges are emitted")
					}
					idxs := fc.Val(ia.X)
					nn := S.MakeFn("call:NumNodes", fc.Val(outs[0].Call.Value))
					b.EqRF(rB, cn+"/len", where, S.MakeFn("len", idxs), nn.Add(S.Int(1)), "indexes has NumNodes()+1 entries")
					b.FullScan("C-scan coverage", cn+"/every-node", where, fc, N, nn)
					lp := fc.Ctx.LoopOf(st.Block())
					every := lp != nil && len(lp.Latch) > 0
					if lp != nil {
						for _, lt := range lp.Latch {
							if !fc.Ctx.Dominates(st.Block(), lt) {
								every = false
							}
						}
						if il := fc.Ctx.LoopOf(outs[0].Block()); il != nil && il.Header != lp.Header && il.Body[st.Block().Index] {
							every = false
						}
					}
					if every {
						r.OK(rB, cn+"/every-iteration", where, "written in every iteration of the node loop, after the node's edges")
					} else {
						r.Fail(rB, cn+"/every-iteration", where, "indexes[n+1] is not written once per node after the node's edges")
					}
				})
				if n != 1 {
					okIdx = false
				}
			}()
			if okIdx {
				r.OK(rB, "graph/graphalg.SimplifyMulti/indexes", b.pos(fn), "indexes[n+1] = len(edges) after node n")
			} else {
				r.Fail(rB, "graph/graphalg.SimplifyMulti/indexes", b.pos(fn), "indexes[n+1] is not set to len(edges)")
			}
		})
		a.CheckNoMutation(r, "A-1 no-mutation", fn, nil)
	}
	for _, n := range []string{"graph/graphalg.PreOrder", "graph/graphalg.PostOrder", "graph/graphalg.(Euler).Visit", "graph/graphalg.SCC", "graph.Equal", "graph/graphout.(Dot).Fprint"} {
		if fn := b.Fn("A-1 no-mutation", n); fn != nil {
			a.CheckNoMutation(r, "A-1 no-mutation", fn, nil)
		}
	}
}

// appendSites: the blocks (by index) holding the append calls through which
// the slice value v is built, following phis and the extended slice of each
// append, with the number of appends per block.
func appendSites(v ssa.Value) map[int]int {
	out := map[int]int{}
	seen := map[ssa.Value]bool{}
	var walk func(v ssa.Value)
	walk = func(v ssa.Value) {
		if v == nil || seen[v] {
			return
		}
		seen[v] = true
		switch t := v.(type) {
		case *ssa.Phi:
			for _, e := range t.Edges {
				walk(e)
			}
		case *ssa.Call:
			if bi, ok := t.Call.Value.(*ssa.Builtin); ok && bi.Name() == "append" && len(t.Call.Args) > 0 {
				out[t.Block().Index]++
				walk(t.Call.Args[0])
			}
		}
	}
	walk(v)
	return out
}

// propC18simplifyMap: the discipline of SimplifyMulti's target → edge-index
// map, each clause a necessary condition of "parallel edges of ONE node are
// merged, summing their weights":
//
//	key       the map is asked about the target of the edge being visited, gw.Out(n)[i]
//	merge     the weight is added to an existing edge exactly when the map has the
//	          target, at the index the map gives, and a new edge is appended
//	          exactly otherwise (no further condition on either side)
//	record    a new edge records len(edges) — the index it is about to get — under its target
//	weight    merged and appended weights are gw.OutWeight(n, i) of that same edge
//	per-node  the map is emptied (deleted key by key, cleared, or made afresh)
//	          at the start of every node, before its edges are gone through
func propC18simplifyMap(a *Analysis, r *Registry, b *B, fn *ssa.Function, fc *FC) {
	const rule = "B-C18 formula"
	S := b.X.S
	name := "graph/graphalg.SimplifyMulti"
	var lk *ssa.Lookup
	nlk := 0
	fc.Ctx.Instrs(func(in ssa.Instruction) {
		if l, ok := in.(*ssa.Lookup); ok {
			if _, isMap := l.X.Type().Underlying().(*types.Map); isMap {
				lk = l
				nlk++
			}
		}
	})
	if nlk != 1 || !lk.CommaOk {
		r.Fail(rule, name+"/map/key", b.pos(fn), "expected one `idx, ok := edgeMap[target]` lookup")
		return
	}
	inner := fc.Ctx.LoopOf(lk.Block())
	var outer *Loop
	for _, l := range fc.Ctx.Loops() {
		if inner != nil && l != inner && l.Body[inner.Header.Index] && (outer == nil || len(l.Body) < len(outer.Body)) && l.Header != inner.Header {
			outer = l
		}
	}
	if inner == nil || outer == nil {
		r.Fail(rule, name+"/map/key", a.W.InstrPos(lk), "the lookup is not inside a loop over edges inside a loop over nodes")
		return
	}
	// key: Out(n)[i]
	key := fc.Val(lk.Index)
	ka := key.SingleAtom()
	var nRF, iRF *RF
	if ka != nil && ka.Name == "idx" {
		if oa := ka.Args[0].SingleAtom(); oa != nil && oa.Name == "call:Out" && len(oa.Args) == 2 {
			nRF, iRF = oa.Args[1], ka.Args[1]
		}
	}
	isCounterOf := func(v *RF, l *Loop) bool {
		for _, ph := range fc.loopPhis(v) {
			if pa := ph.SingleAtom(); pa != nil && b.X.phiOf[pa.ID] != nil && b.X.phiOf[pa.ID].Block() == l.Header {
				if c, ok := v.Sub(ph).IsConst(); ok && c.IsInt() {
					return true
				}
			}
		}
		return false
	}
	if nRF == nil || !isCounterOf(nRF, outer) || !isCounterOf(iRF, inner) {
		r.Fail(rule, name+"/map/key", a.W.InstrPos(lk), "the map is not asked about the target gw.Out(n)[i] of the edge being visited: key is "+clip(key.String(), 120))
		return
	}
	r.OK(rule, name+"/map/key", a.W.InstrPos(lk), "the lookup key is gw.Out(n)[i], n and i the two loop counters")
	// the merge store, the appends, the map update
	var mergeSt *ssa.Store
	var appE, appW *ssa.Call
	var upd *ssa.MapUpdate
	nUpd := 0
	fc.Ctx.Instrs(func(in ssa.Instruction) {
		if !inner.Body[in.Block().Index] {
			return
		}
		switch v := in.(type) {
		case *ssa.Store:
			if ia, ok := v.Addr.(*ssa.IndexAddr); ok && isFloatType(v.Val.Type()) {
				if _, isSl := ia.X.Type().Underlying().(*types.Slice); isSl {
					mergeSt = v
				}
			}
		case *ssa.Call:
			if bi, ok := v.Call.Value.(*ssa.Builtin); ok && bi.Name() == "append" {
				if isFloatType(v.Type().Underlying().(*types.Slice).Elem()) {
					appW = v
				} else {
					appE = v
				}
			}
		case *ssa.MapUpdate:
			if v.Map == lk.X {
				upd = v
				nUpd++
			}
		}
	})
	if mergeSt == nil || appE == nil || appW == nil || upd == nil || nUpd != 1 {
		r.Fail(rule, name+"/map/merge", a.W.InstrPos(lk), "expected one weight update, one append to each of edges and weights, and one map update per edge")
		return
	}
	var start *ssa.BasicBlock
	for _, sc := range fc.Ctx.LiveSuccs(inner.Header) {
		if inner.Body[sc.Index] && fc.Ctx.Dominates(sc, lk.Block()) {
			start = sc
		}
	}
	if start == nil {
		start = lk.Block()
	}
	found := S.MakeFn("lookupok", fc.Val(lk.X), key)
	at := S.MakeFn("lookup", fc.Val(lk.X), key)
	// "the map has the target": the lookup succeeds — or, when the map is kept
	// across nodes instead of being emptied, succeeds with an index at or after
	// the node's first edge (len(edges) on entry to the edge loop; indices
	// recorded for earlier nodes are below it because edges only grows)
	stale := false
	haveWhat := "the map has the target"
	func() {
		defer func() { recover() }()
		cm := fc.ReachCondFrom(start, mergeSt.Block())
		if cm.Equal(found) || b.X.EquivByCases(cm, found, 0) {
			return
		}
		ei, _ := fc.Recurrence(fc.Val(appE.Call.Args[0]))
		cur := S.And(found, S.Not(S.Cmp("<", at, S.MakeFn("len", ei))))
		if cm.Equal(cur) || b.X.EquivByCases(cm, cur, 0) {
			found, stale = cur, true
			haveWhat = "the map has the target at an index not before the node's first edge"
		}
	}()
	b.guard(rule, name+"/map/merge", func() {
		cm := fc.ReachCondFrom(start, mergeSt.Block())
		ok1 := b.EqRF(rule, name+"/map/merge", a.W.InstrPos(mergeSt), cm, found, "the weight is added to an existing edge exactly when "+haveWhat)
		if ok1 {
			ia := mergeSt.Addr.(*ssa.IndexAddr)
			b.EqRF(rule, name+"/map/merge-index", a.W.InstrPos(mergeSt), fc.Val(ia.Index), at, "at the index the map gives")
			w := fc.Val(mergeSt.Val).Sub(S.MakeFn("idx", fc.Val(ia.X), fc.Val(ia.Index)))
			b.EqRF(rule, name+"/map/merge-weight", a.W.InstrPos(mergeSt), w, S.MakeFn("call:OutWeight", ka.Args[0].SingleAtom().Args[0], nRF, iRF), "the weight added is gw.OutWeight(n, i)")
		}
	})
	b.guard(rule, name+"/map/append", func() {
		for _, c := range []*ssa.Call{appE, appW, nil} {
			var blk *ssa.BasicBlock
			var pos ssa.Instruction
			if c != nil {
				blk, pos = c.Block(), c
			} else {
				blk, pos = upd.Block(), upd
			}
			what, tag := "a new edge is appended", "/edges"
			if c == appW {
				what, tag = "a new weight is appended", "/weights"
			}
			if c == nil {
				what, tag = "the map records the target", "/record"
			}
			if !b.EqRF(rule, name+"/map/append"+tag, a.W.InstrPos(pos), fc.ReachCondFrom(start, blk), S.Not(found), what+" exactly unless "+haveWhat) {
				return
			}
		}
		vals := fc.AppendedValues(appE)
		if len(vals) != 1 || !vals[0].Equal(key) {
			r.Fail(rule, name+"/map/append-target", a.W.InstrPos(appE), "the edge appended is not the target looked up")
		} else {
			r.OK(rule, name+"/map/append-target", a.W.InstrPos(appE), "the edge appended is the target looked up")
		}
		wv := fc.AppendedValues(appW)
		if len(wv) == 1 {
			b.EqRF(rule, name+"/map/append-weight", a.W.InstrPos(appW), wv[0], S.MakeFn("call:OutWeight", ka.Args[0].SingleAtom().Args[0], nRF, iRF), "with weight gw.OutWeight(n, i)")
		} else {
			r.Fail(rule, name+"/map/append-weight", a.W.InstrPos(appW), "not one weight per new edge")
		}
		b.EqRF(rule, name+"/map/record-key", a.W.InstrPos(upd), fc.Val(upd.Key), key, "recorded under the target")
		b.EqRF(rule, name+"/map/record-index", a.W.InstrPos(upd), fc.Val(upd.Value), S.MakeFn("len", fc.Val(appE.Call.Args[0])), "the recorded index is len(edges) before the append: the index the new edge gets")
	})
	// per node: the map is emptied before the node's edges are gone through
	emptied := ""
	if mm, ok := lk.X.(*ssa.MakeMap); ok && outer.Body[mm.Block().Index] && !inner.Body[mm.Block().Index] && fc.Ctx.Dominates(mm.Block(), inner.Header) {
		emptied = "a fresh map is made for every node"
	}
	fc.Ctx.Instrs(func(in ssa.Instruction) {
		c, ok := in.(*ssa.Call)
		if !ok || emptied != "" {
			return
		}
		bi, isB := c.Call.Value.(*ssa.Builtin)
		if !isB || len(c.Call.Args) == 0 || c.Call.Args[0] != lk.X {
			return
		}
		blk := c.Block()
		if !outer.Body[blk.Index] || inner.Body[blk.Index] {
			return
		}
		switch bi.Name() {
		case "clear":
			if fc.Ctx.Dominates(blk, inner.Header) {
				emptied = "clear(map) at the start of every node"
			}
		case "delete":
			// for k := range m { delete(m, k) }: the deleting loop's header dominates the
			// edge loop, the delete is unconditional in it, the key is the range key
			dl := fc.Ctx.LoopOf(blk)
			if dl == nil || dl == outer || !fc.Ctx.Dominates(dl.Header, inner.Header) {
				return
			}
			ex, ok := c.Call.Args[1].(*ssa.Extract)
			if !ok || ex.Index != 1 {
				return
			}
			nx, ok := ex.Tuple.(*ssa.Next)
			if !ok {
				return
			}
			rg, ok := nx.Iter.(*ssa.Range)
			if !ok || rg.X != lk.X || nx.Block() != dl.Header {
				return
			}
			// unconditional: the delete's block is the only body block reached from the header
			for _, sc := range fc.Ctx.LiveSuccs(dl.Header) {
				if dl.Body[sc.Index] && sc != blk {
					return
				}
			}
			emptied = "every key is deleted at the start of every node"
		}
	})
	if emptied == "" && stale {
		emptied = "entries of earlier nodes are recognised by their index (below the node's first edge) and treated as absent"
	}
	if emptied != "" {
		r.OK(rule, name+"/map/per-node", b.pos(fn), emptied)
	} else {
		r.Fail(rule, name+"/map/per-node", b.pos(fn), "the target → edge-index map is not emptied at the start of every node: an edge of a later node would be merged into an earlier node's edge to the same target")
	}
}

// debugAppends prints, for every append inside a loop of fn, what is appended, to what, and the
// condition (from the start of the iteration) under which it happens (GMSA_DEBUG_APPENDS=<fn>).
func debugAppends(X *Extractor, fn *ssa.Function) {
	fc := X.FCFor(fn)
	for _, c := range fc.CallsTo("builtin:append") {
		if fc.Ctx.LoopOf(c.Block()) == nil {
			continue
		}
		func() {
			defer func() { recover() }()
			fmt.Fprintf(os.Stderr, "APPEND %s\n  base=%s\n", X.W.InstrPos(c), fc.Val(c.Call.Args[0]))
			for _, v := range fc.AppendedValues(c) {
				fmt.Fprintf(os.Stderr, "  val=%s\n", v)
			}
			fmt.Fprintf(os.Stderr, "  when=%s\n", fc.ReachCondFrom(loopBodyEntry(fc, c.Block()), c.Block()))
		}()
	}
	fc.Ctx.Instrs(func(in ssa.Instruction) {
		if mu, ok := in.(*ssa.MapUpdate); ok {
			fmt.Fprintf(os.Stderr, "MAPUPDATE %s map=%s key=%s val=%s\n", X.W.InstrPos(mu), fc.Val(mu.Map), fc.Val(mu.Key), fc.Val(mu.Value))
		}
	})
}

// appSite: an append executed once per iteration of a loop of fc — written in the loop itself, or
// in a loop-free module helper called there (`src.addEdge(dst, which)`), whose parameters are then
// bound to the call's arguments; When is the condition, from the start of the iteration, under
// which it executes.
type appSite struct {
	FC   *FC
	C    *ssa.Call
	When *RF
}

func loopAppendSites(X *Extractor, fc *FC) []appSite {
	S := X.S
	var out []appSite
	fc.Ctx.Instrs(func(in ssa.Instruction) {
		c, ok := in.(*ssa.Call)
		if !ok || fc.Ctx.LoopOf(c.Block()) == nil {
			return
		}
		if bi, isB := c.Call.Value.(*ssa.Builtin); isB {
			if bi.Name() == "append" {
				out = append(out, appSite{fc, c, fc.ReachCondFrom(loopBodyEntry(fc, c.Block()), c.Block())})
			}
			return
		}
		f := c.Common().StaticCallee()
		if f == nil || f.Blocks == nil || !X.W.IsLibFunc(f) || len(c.Common().Args) != len(f.Params) {
			return
		}
		bind := map[*ssa.Parameter]*RF{}
		args := make([]*RF, len(f.Params))
		for i, p := range f.Params {
			args[i] = fc.Val(c.Common().Args[i])
			bind[p] = args[i]
		}
		sub := X.newFC(f, bind, nil)
		sub.bindArgs = args
		if len(sub.Ctx.Loops()) > 0 {
			return
		}
		var outer *RF
		func() {
			defer func() { recover() }()
			outer = fc.ReachCondFrom(loopBodyEntry(fc, c.Block()), c.Block())
		}()
		if outer == nil {
			return
		}
		for _, ac := range sub.CallsTo("builtin:append") {
			out = append(out, appSite{sub, ac, S.And(outer, sub.ReachCond(ac.Block()))})
		}
	})
	return out
}

// unref strips deref(ref(x)) / ref / deref wrappers (a node reached through a pointer to it).
func unref(r *RF) *RF {
	for {
		at := r.SingleAtom()
		if at != nil && (at.Name == "ref" || at.Name == "deref") && len(at.Args) == 1 {
			r = at.Args[0]
			continue
		}
		return r
	}
}

// debugConds prints every branch condition and store of fn as extracted values (GMSA_DEBUG_CONDS=<fn>).
func debugConds(X *Extractor, fn *ssa.Function) {
	fc := X.FCFor(fn)
	fc.Ctx.Instrs(func(in ssa.Instruction) {
		defer func() { recover() }()
		switch v := in.(type) {
		case *ssa.If:
			fmt.Fprintf(os.Stderr, "IF %s b%d: %s\n", X.W.InstrPos(v), v.Block().Index, clip(fc.Val(v.Cond).String(), 300))
		case *ssa.Store:
			fmt.Fprintf(os.Stderr, "STORE %s b%d: addr=%s val=%s\n", X.W.InstrPos(v), v.Block().Index, clip(fc.Val(v.Addr).String(), 200), clip(fc.Val(v.Val).String(), 200))
		}
	})
}
