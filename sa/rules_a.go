package main

// Rules A-1 … A-5 on top of the effect summaries (DESIGN.md §4).

import (
	"fmt"
	"go/constant"
	"go/token"
	"go/types"
	"sort"
	"strings"

	"golang.org/x/tools/go/ssa"
)

type allowEntry struct {
	param  int      // parameter index (receiver = 0)
	tags   []string // allowed tags at depth 0; "*" = any
	deep   bool     // writes to memory reached through the parameter allowed
	reason string
}

// globally allowed write tag: the documented lazy fill of a KDE's bandwidth,
// wherever it surfaces (InvCDF(kde), Rand(kde), …).
var globalAllowedTags = map[string]string{
	"stats.KDE.Bandwidth": "documented: a KDE's lazily filled Bandwidth",
}

var allowA1 = map[string][]allowEntry{
	"stats.(*Sample).Sort":               {{0, []string{"stats.Sample.Sorted"}, true, "documented in-place operation Sample.Sort"}},
	"graph/graphalg.Reverse":             {{0, []string{"*"}, false, "documented in-place operation Reverse"}},
	"scale.(*Linear).Nice":               {{0, []string{"scale.Linear.Min", "scale.Linear.Max"}, false, "documented in-place operation Nice"}},
	"scale.(*Log).Nice":                  {{0, []string{"scale.Log.Min", "scale.Log.Max"}, false, "documented in-place operation Nice"}},
	"scale.(*Linear).SetClamp":           {{0, []string{"scale.Linear.Clamp"}, false, "documented in-place operation SetClamp"}},
	"scale.(*Log).SetClamp":              {{0, []string{"scale.Log.Clamp"}, false, "documented in-place operation SetClamp"}},
	"stats.(*LinearHist).Add":            {{0, []string{"stats.LinearHist.low", "stats.LinearHist.high"}, true, "documented in-place operation Add (counters)"}},
	"stats.(*LogHist).Add":               {{0, []string{"stats.LogHist.low", "stats.LogHist.high"}, true, "documented in-place operation Add (counters)"}},
	"stats.(*StreamStats).Add":           {{0, []string{"*"}, false, "documented in-place operation Add"}},
	"stats.(*StreamStats).Combine":       {{0, []string{"*"}, false, "documented in-place operation Combine (receiver only, not o)"}},
	"graph/graphalg.(*NodeMarks).Mark":   {{0, []string{"graph/graphalg.NodeMarks.marks"}, true, "documented in-place operation Mark"}},
	"graph/graphalg.(*NodeMarks).Unmark": {{0, []string{"graph/graphalg.NodeMarks.marks"}, true, "documented in-place operation Unmark"}},
	"graph/graphout.(Dot).Fprint":        {{1, []string{"*"}, true, "output sink: the io.Writer"}},
	"stats.(*sampleSorter).Swap":         {{0, []string{}, true, "sort.Interface protocol of a private sorter: Swap exchanges elements of the wrapped slices; the functions that build the sorter are judged on what they wrap"}},
	"fit.(*pairSlice).Swap":              {{0, []string{}, true, "sort.Interface protocol of a private sorter (see above)"}},
}

// allowed writes to package-level state outside init
var allowGlobalWrite = map[string]string{
	"graph/graphout.(Dot).Print|os.Stdout": "output sink os.Stdout",
}

func isInitFunc(fn *ssa.Function) bool {
	n := fn.Name()
	return fn.Synthetic == "package initializer" || n == "init" || strings.HasPrefix(n, "init#")
}

// Entries returns the A-1 entry points: exported functions and methods of the
// library packages plus every closure reachable through their results.
func (a *Analysis) Entries() []*ssa.Function {
	seen := map[*ssa.Function]bool{}
	var out []*ssa.Function
	var addClos func(fn *ssa.Function)
	addClos = func(fn *ssa.Function) {
		s := a.Eff.Summary(fn)
		if s == nil {
			return
		}
		for c := range s.RetClos {
			if !seen[c] {
				seen[c] = true
				out = append(out, c)
				addClos(c)
			}
		}
	}
	for _, fn := range a.W.FuncList {
		if a.W.isExportedEntry(fn) && !seen[fn] {
			seen[fn] = true
			out = append(out, fn)
			addClos(fn)
		}
	}
	sort.Slice(out, func(i, j int) bool { return a.W.FuncName(out[i]) < a.W.FuncName(out[j]) })
	return out
}

func paramLabel(fn *ssa.Function, i int) string {
	if i < len(fn.Params) {
		p := fn.Params[i]
		if fn.Signature.Recv() != nil && i == 0 {
			return "recv:" + p.Name()
		}
		return fmt.Sprintf("arg%d:%s", i, p.Name())
	}
	return fmt.Sprintf("freevar%d", i-len(fn.Params))
}

// CheckNoMutation registers one A-1 obligation per pointer-like parameter of
// fn under property/rule; only parameters in `only` (nil = all).
func (a *Analysis) CheckNoMutation(r *Registry, rule string, fn *ssa.Function, only map[int]bool) int {
	name := a.W.FuncName(fn)
	sum := a.Eff.Summary(fn)
	if sum == nil {
		r.Undecided(rule, name, "", "no effect summary")
		return 0
	}
	n := 0
	for i, p := range fn.Params {
		if !ptrLike(p.Type()) || (only != nil && !only[i]) {
			continue
		}
		if isRandPtr(p.Type()) {
			continue // a *rand.Rand is a mutable generator handle: drawing from it advances it by design
		}
		n++
		construct := name + "/" + paramLabel(fn, i)
		var bad []string
		var keys []WKey
		for k := range sum.Writes {
			keys = append(keys, k)
		}
		sort.Slice(keys, func(x, y int) bool {
			return keys[x].Tag+objStr(a.W, keys[x].O) < keys[y].Tag+objStr(a.W, keys[y].O)
		})
		where := ""
		for _, k := range keys {
			if k.O.K != KParam || k.O.Idx != i {
				continue
			}
			if _, ok := globalAllowedTags[k.Tag]; ok {
				continue
			}
			allowed := false
			for _, al := range allowA1[name] {
				if al.param != i {
					continue
				}
				if k.O.Deep {
					allowed = allowed || al.deep
				} else {
					for _, t := range al.tags {
						if t == "*" || t == k.Tag {
							allowed = true
						}
					}
				}
			}
			if !allowed {
				wr := sum.Writes[k]
				d := "reached memory"
				if !k.O.Deep {
					d = "directly designated memory"
				}
				bad = append(bad, fmt.Sprintf("writes %s of %s (%s) at %s; path: %s", d, paramLabel(fn, i), k.Tag, wr.Origin, wr.Via))
				if where == "" {
					where = wr.Origin
				}
			}
		}
		if len(bad) > 0 {
			r.Fail(rule, construct, where, strings.Join(bad, " | "))
		} else {
			r.OK(rule, construct, a.W.Pos(fn.Pos()), "no write to memory designated by or reached from this parameter outside the allow-list")
		}
	}
	// writes to unknown external memory
	for k, wr := range sum.Writes {
		if k.O.K == KExt {
			r.Fail(rule, name+"/ext", wr.Origin, "writes memory obtained from unknown code ("+k.Tag+") at "+wr.Origin+"; path: "+wr.Via)
		}
	}
	return n
}

// CheckNoGlobalState: rule A-2.
func (a *Analysis) CheckNoGlobalState(r *Registry, rule string) {
	type hit struct{ fn, origin, via string }
	byGlobal := map[string][]hit{}
	for _, fn := range a.W.FuncList {
		if isInitFunc(fn) {
			continue
		}
		s := a.Eff.Summary(fn)
		for k, wr := range s.Writes {
			if k.O.K != KGlobal {
				continue
			}
			g := strings.ReplaceAll(k.O.G.String(), a.W.ModPath+"/", "")
			if _, ok := allowGlobalWrite[a.W.FuncName(fn)+"|"+g]; ok {
				continue
			}
			// a callee that is itself allowed (Fprint reached from Print) is judged at the allowed caller
			byGlobal[g] = append(byGlobal[g], hit{a.W.FuncName(fn), wr.Origin, wr.Via})
		}
	}
	n := 0
	var rels []string
	for rel := range a.W.Lib {
		rels = append(rels, rel)
	}
	sort.Strings(rels)
	for _, rel := range rels {
		p := a.W.Lib[rel]
		var names []string
		for n := range p.Members {
			names = append(names, n)
		}
		sort.Strings(names)
		for _, nm := range names {
			g, ok := p.Members[nm].(*ssa.Global)
			if !ok || strings.HasPrefix(nm, "init$") {
				continue
			}
			n++
			key := strings.ReplaceAll(g.String(), a.W.ModPath+"/", "")
			if hs := byGlobal[key]; len(hs) > 0 {
				sort.Slice(hs, func(i, j int) bool { return hs[i].fn < hs[j].fn })
				r.Fail(rule, "global:"+key, hs[0].origin, fmt.Sprintf("package-level variable written outside init by %s at %s (path: %s); %d writer(s)", hs[0].fn, hs[0].origin, hs[0].via, len(hs)))
				delete(byGlobal, key)
			} else {
				r.OK(rule, "global:"+key, a.W.Pos(g.Pos()), "never written outside init")
			}
		}
	}
	var rest []string
	for g := range byGlobal {
		rest = append(rest, g)
	}
	sort.Strings(rest)
	for _, g := range rest {
		hs := byGlobal[g]
		r.Fail(rule, "global:"+g, hs[0].origin, fmt.Sprintf("foreign package-level state written by %s at %s", hs[0].fn, hs[0].origin))
	}
	r.Count("package_level_variables", n)
}

// CheckFresh: rule A-3 — result idx of fn is fresh memory sharing nothing
// with parameters, globals or unknown memory.
func (a *Analysis) CheckFresh(r *Registry, rule, fnName string, idx int) {
	fn := a.W.Fn(fnName)
	construct := fmt.Sprintf("%s/result%d", fnName, idx)
	if fn == nil {
		r.Undecided(rule, construct, "", "anchor function not found")
		return
	}
	s := a.Eff.Summary(fn)
	if idx >= len(s.Returns) {
		r.Undecided(rule, construct, "", "no such result")
		return
	}
	seen := ObjSet{}
	var bad []string
	var visit func(o Obj)
	visit = func(o Obj) {
		if !seen.add(o) {
			return
		}
		if o.K != KFresh {
			bad = append(bad, objStr(a.W, o))
			return
		}
		for c := range s.FreshC[Obj{K: KFresh, T: o.T}] {
			visit(c)
		}
	}
	for o := range s.Returns[idx] {
		visit(o)
	}
	if len(s.Returns[idx]) == 0 && ptrLike(fn.Signature.Results().At(idx).Type()) {
		// nil-only results are trivially fresh
	}
	if len(bad) > 0 {
		sort.Strings(bad)
		r.Fail(rule, construct, a.W.Pos(fn.Pos()), "result may share storage with "+strings.Join(bad, ","))
	} else {
		r.OK(rule, construct, a.W.Pos(fn.Pos()), "result and everything reachable from it is allocated by the call")
	}
}

var forbiddenPkgs = map[string]bool{"time": true, "os": true, "runtime": true, "reflect": true, "unsafe": true,
	"sync": true, "sync/atomic": true, "os/exec": true, "net": true, "io/ioutil": true, "crypto/rand": true, "math/rand/v2": true}

// CheckNondet: rule A-4, one obligation per library function.
func (a *Analysis) CheckNondet(r *Registry, rule string) {
	for _, fn := range a.W.FuncList {
		name := a.W.FuncName(fn)
		ctx := a.Eff.st[fn].ctx
		if fn.Synthetic == "package initializer" {
			continue // only calls the initialisers of imported packages and stores initial values (A-2 covers those)
		}
		var bad []string
		where := ""
		note := func(in ssa.Instruction, msg string) {
			bad = append(bad, msg+" at "+a.W.InstrPos(in))
			if where == "" {
				where = a.W.InstrPos(in)
			}
		}
		ctx.Instrs(func(in ssa.Instruction) {
			switch in := in.(type) {
			case *ssa.Go:
				note(in, "go statement")
			case *ssa.Select, *ssa.Send, *ssa.MakeChan:
				note(in, "channel operation")
			case *ssa.UnOp:
				if in.Op == token.ARROW {
					note(in, "channel receive")
				}
				if g, ok := in.X.(*ssa.Global); ok && in.Op == token.MUL && g.Pkg != nil && forbiddenPkgs[g.Pkg.Pkg.Path()] {
					if !(g.Pkg.Pkg.Path() == "os" && g.Name() == "Stdout" && name == "graph/graphout.(Dot).Print") {
						note(in, "reads "+g.String())
					}
				}
			case ssa.CallInstruction:
				c := in.Common()
				f := c.StaticCallee()
				if f == nil || f.Pkg == nil {
					if f != nil && f.Object() != nil && f.Object().Pkg() != nil && forbiddenPkgs[f.Object().Pkg().Path()] {
						note(in, "calls "+f.String())
					}
					return
				}
				pp := f.Pkg.Pkg.Path()
				if forbiddenPkgs[pp] {
					note(in, "calls "+f.String())
				}
				if pp == "math/rand" && f.Signature.Recv() == nil {
					// global source: only under r == nil for a *rand.Rand parameter r
					ok := false
					for _, fact := range ctx.Facts(in.Block()) {
						if b, isb := fact.Cond.(*ssa.BinOp); isb && b.Op == token.EQL && fact.Val {
							if p, isp := b.X.(*ssa.Parameter); isp && isNilConst(b.Y) && isRandPtr(p.Type()) {
								ok = true
							}
						}
					}
					if !ok {
						note(in, "global math/rand source used without a dominating `r == nil` test ("+f.String()+")")
					}
				}
			}
		})
		if len(bad) > 0 {
			r.Fail(rule, name, where, strings.Join(bad, "; "))
		} else {
			r.OK(rule, name, a.W.Pos(fn.Pos()), "no goroutine, channel, time/os/runtime/reflect/unsafe/sync use; global rand only under r==nil")
		}
	}
}

func isRandPtr(t types.Type) bool {
	p, ok := t.(*types.Pointer)
	if !ok {
		return false
	}
	n, ok := p.Elem().(*types.Named)
	return ok && n.Obj().Pkg() != nil && n.Obj().Pkg().Path() == "math/rand" && n.Obj().Name() == "Rand"
}

// CheckMapRanges: rule A-5, one obligation per range-over-map loop.
func (a *Analysis) CheckMapRanges(r *Registry, rule string) int {
	count := 0
	for _, fn := range a.W.FuncList {
		st := a.Eff.st[fn]
		ctx := st.ctx
		perFn := 0
		ctx.Instrs(func(in ssa.Instruction) {
			rg, ok := in.(*ssa.Range)
			if !ok {
				return
			}
			if _, isMap := rg.X.Type().Underlying().(*types.Map); !isMap {
				return
			}
			perFn++
			count++
			construct := fmt.Sprintf("%s/maprange#%d", a.W.FuncName(fn), perFn)
			if msg := a.mapRangeOK(st, rg); msg != "" {
				r.Fail(rule, construct, a.W.InstrPos(rg), msg)
			} else {
				r.OK(rule, construct, a.W.InstrPos(rg), "no loop-carried value, only keyed/idempotent map effects, no early exit, reads from provably different maps")
			}
		})
	}
	return count
}

func stripLoad(v ssa.Value) ssa.Value { return v }

// mapElemOf: v is `*(&A[i])` for a slice A: returns A and i.
func mapElemOf(v ssa.Value) (ssa.Value, ssa.Value, bool) {
	u, ok := v.(*ssa.UnOp)
	if !ok || u.Op != token.MUL {
		return nil, nil, false
	}
	ia, ok := u.X.(*ssa.IndexAddr)
	if !ok {
		return nil, nil, false
	}
	return ia.X, ia.Index, true
}

// constOffset: a = b + c for a non-zero constant c (either direction).
func constOffset(a, b ssa.Value) bool {
	off := func(x, y ssa.Value) bool {
		bo, ok := x.(*ssa.BinOp)
		if !ok || (bo.Op != token.ADD && bo.Op != token.SUB) {
			return false
		}
		c, ok := bo.Y.(*ssa.Const)
		if !ok || c.Value == nil || c.Value.Kind() != constant.Int {
			return false
		}
		if v, _ := constant.Int64Val(c.Value); v == 0 {
			return false
		}
		return bo.X == y
	}
	return off(a, b) || off(b, a)
}

func (a *Analysis) mapRangeOK(st *fstate, rg *ssa.Range) string {
	ctx := st.ctx
	// find the Next and its loop
	var next *ssa.Next
	for _, ref := range *rg.Referrers() {
		if n, ok := ref.(*ssa.Next); ok {
			next = n
		}
	}
	if next == nil {
		return "range without next"
	}
	loop := ctx.LoopOf(next.Block())
	if loop == nil || loop.Header != next.Block() {
		return "cannot identify the range loop"
	}
	for _, in := range loop.Header.Instrs {
		if _, ok := in.(*ssa.Phi); ok {
			return "loop-carried value (phi) in the range loop header: the result may depend on iteration order"
		}
	}
	var key ssa.Value
	for _, ref := range *next.Referrers() {
		if e, ok := ref.(*ssa.Extract); ok && e.Index == 1 {
			key = e
		}
	}
	// the range key itself, or a load of a local that only ever holds the range key
	isKey := func(v ssa.Value) bool {
		if v == key {
			return true
		}
		u, ok := v.(*ssa.UnOp)
		if !ok || u.Op != token.MUL {
			return false
		}
		al, ok := u.X.(*ssa.Alloc)
		if !ok {
			return false
		}
		stores := 0
		for _, ref := range *al.Referrers() {
			switch ref := ref.(type) {
			case *ssa.Store:
				if ref.Addr != al || ref.Val != key {
					return false
				}
				stores++
			case *ssa.UnOp:
			case *ssa.FieldAddr:
				for _, r2 := range *ref.Referrers() {
					if l, ok := r2.(*ssa.UnOp); !ok || l.Op != token.MUL {
						return false
					}
				}
			case *ssa.DebugRef:
			default:
				return false
			}
		}
		return stores == 1
	}
	// the map ranged over
	ranged := rg.X
	sameMap := func(x, y ssa.Value) bool {
		if x == y {
			return true
		}
		ax, ix, ok1 := mapElemOf(x)
		ay, iy, ok2 := mapElemOf(y)
		return ok1 && ok2 && ax == ay && sameVal(ix, iy)
	}
	// distinct: elements of the same slice, all of whose stored elements are
	// fresh maps, at indices differing by a non-zero constant
	distinct := func(x, y ssa.Value) bool {
		ax, ix, ok1 := mapElemOf(x)
		ay, iy, ok2 := mapElemOf(y)
		if !ok1 || !ok2 || ax != ay || !constOffset(ix, iy) {
			return false
		}
		// every store into an element of ax stores a MakeMap
		okAll := true
		seenStore := false
		for _, b := range st.fn.Blocks {
			for _, in := range b.Instrs {
				if s, ok := in.(*ssa.Store); ok {
					if ia, ok := s.Addr.(*ssa.IndexAddr); ok && ia.X == ax {
						seenStore = true
						if _, ok := s.Val.(*ssa.MakeMap); !ok {
							okAll = false
						}
					}
				}
			}
		}
		_, isMake := ax.(*ssa.MakeSlice)
		return okAll && seenStore && isMake
	}
	var written []ssa.Value
	var msgs []string
	for _, b := range st.fn.Blocks {
		if !loop.Body[b.Index] || !ctx.Reach[b.Index] {
			continue
		}
		// exits: only from the header (exhaustion) or to panic blocks
		for _, s := range ctx.LiveSuccs(b) {
			if !loop.Body[s.Index] && b != loop.Header {
				if _, isPanic := s.Instrs[len(s.Instrs)-1].(*ssa.Panic); !isPanic {
					msgs = append(msgs, "early exit from the range loop at "+a.W.InstrPos(b.Instrs[len(b.Instrs)-1]))
				}
			}
		}
		for _, in := range b.Instrs {
			switch in := in.(type) {
			case *ssa.Return:
				msgs = append(msgs, "return inside the range loop at "+a.W.InstrPos(in))
			case *ssa.MapUpdate:
				_, isConst := in.Value.(*ssa.Const)
				if !(isKey(in.Key) && sameMap(in.Map, ranged)) && !isConst {
					msgs = append(msgs, "map update that is neither keyed by the range key nor an idempotent constant insert at "+a.W.InstrPos(in))
				}
				written = append(written, in.Map)
			case *ssa.Store:
				for o := range st.P(in.Addr) {
					if o.K != KFresh {
						msgs = append(msgs, "store to non-local memory inside the range loop at "+a.W.InstrPos(in))
						continue
					}
					if site, ok := o.Site.(ssa.Instruction); ok && (site.Block() == nil || !loop.Body[site.Block().Index]) {
						msgs = append(msgs, "store to memory allocated outside the loop body at "+a.W.InstrPos(in))
					}
				}
			case *ssa.Call:
				c := in.Common()
				if bi, ok := c.Value.(*ssa.Builtin); ok {
					switch bi.Name() {
					case "delete":
						if !(isKey(c.Args[1]) && sameMap(c.Args[0], ranged)) {
							msgs = append(msgs, "delete of a key other than the range key at "+a.W.InstrPos(in))
						}
					case "append", "copy", "clear":
						msgs = append(msgs, bi.Name()+" inside the range loop at "+a.W.InstrPos(in))
					}
					continue
				}
				f := c.StaticCallee()
				if f == nil {
					msgs = append(msgs, "dynamic call inside the range loop at "+a.W.InstrPos(in))
					continue
				}
				if a.Eff.analyzable(f) {
					cs := a.Eff.Summary(f)
					if cs == nil || len(cs.Writes) > 0 || len(cs.Nondet) > 0 {
						msgs = append(msgs, "call with effects inside the range loop: "+a.W.FuncName(f)+" at "+a.W.InstrPos(in))
					}
				} else {
					n := f.String()
					sp, ok := externTable[n]
					if !(strings.HasPrefix(n, "math.") || (ok && len(sp.writes) == 0 && sp.nondet == "")) {
						msgs = append(msgs, "external call with effects inside the range loop: "+n+" at "+a.W.InstrPos(in))
					}
				}
			}
		}
	}
	// the ranged map may only be written at the range key; other written maps must differ from it
	for _, wm := range written {
		if !sameMap(wm, ranged) && !distinct(wm, ranged) {
			msgs = append(msgs, "cannot prove the map written in the loop differs from the map being ranged over")
		}
	}
	// reads
	for _, b := range st.fn.Blocks {
		if !loop.Body[b.Index] || !ctx.Reach[b.Index] {
			continue
		}
		for _, in := range b.Instrs {
			lk, ok := in.(*ssa.Lookup)
			if !ok {
				continue
			}
			if _, isMap := lk.X.Type().Underlying().(*types.Map); !isMap {
				continue
			}
			for _, wm := range written {
				if sameMap(lk.X, wm) {
					if isKey(lk.Index) {
						continue
					}
					msgs = append(msgs, "reads a map that the loop also writes, at a key other than the range key, at "+a.W.InstrPos(in))
				} else if !distinct(lk.X, wm) {
					msgs = append(msgs, "cannot prove the map read at "+a.W.InstrPos(in)+" differs from the map written in the loop")
				}
			}
		}
	}
	sort.Strings(msgs)
	return strings.Join(uniq(msgs), "; ")
}

// sameVal: identical SSA value, equal constants, or len() of the same value.
func sameVal(x, y ssa.Value) bool {
	if x == y || sameValueOrLen(x, y) {
		return true
	}
	cx, ok1 := x.(*ssa.Const)
	cy, ok2 := y.(*ssa.Const)
	if ok1 && ok2 && cx.Value != nil && cy.Value != nil && types.Identical(cx.Type(), cy.Type()) {
		return constant.Compare(cx.Value, token.EQL, cy.Value)
	}
	return false
}

func uniq(xs []string) []string {
	var out []string
	for i, x := range xs {
		if i == 0 || x != xs[i-1] {
			out = append(out, x)
		}
	}
	return out
}
