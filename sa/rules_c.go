package main

// Engine C — control-shape rules that are not tied to one property.

import (
	"fmt"
	"go/constant"
	"go/types"
	"sort"
	"strings"

	"golang.org/x/tools/go/ssa"
)

// constsOfType: declared package-level constants of the named type.
func (b *B) constsOfType(pkg *ssa.Package, typeName string) map[string]*RF {
	out := map[string]*RF{}
	for name, m := range pkg.Members {
		nc, ok := m.(*ssa.NamedConst)
		if !ok {
			continue
		}
		if n, ok := nc.Type().(*types.Named); !ok || n.Obj().Name() != typeName {
			continue
		}
		if nc.Value.Value.Kind() == constant.Int {
			r, _ := newRatFromString(nc.Value.Value.ExactString())
			out[name] = b.X.S.Const(r)
		}
	}
	return out
}

// SwitchExhaustive: every declared constant of the named type of parameter
// idx is compared (==) with that parameter somewhere in fn, or the function
// has a panicking default.
func (b *B) SwitchExhaustive(rule string, fn *ssa.Function, idx int, _ []string) {
	name := b.A.W.FuncName(fn)
	construct := fmt.Sprintf("%s/switch(arg%d)", name, idx)
	b.guard(rule, construct, func() {
		fc := b.X.FCFor(fn)
		b.switchExhaustiveOn(rule, construct, fc, fc.Val(fn.Params[idx]), fn.Params[idx].Type())
	})
}

func (b *B) switchExhaustiveOn(rule, construct string, fc *FC, v *RF, t types.Type) {
	n, ok := t.(*types.Named)
	if !ok {
		b.R.Undecided(rule, construct, "", "switch operand is not of a named type")
		return
	}
	pkg := b.A.W.Prog.Package(n.Obj().Pkg())
	consts := b.constsOfType(pkg, n.Obj().Name())
	if len(consts) == 0 {
		b.R.Undecided(rule, construct, "", "no declared constants of type "+n.Obj().Name())
		return
	}
	seen := map[string]bool{}
	hasPanicDefault := false
	// the dispatch may be delegated to a helper that receives the operand
	for _, sfc := range fc.BoundCallees(2) {
		fc := sfc
		fc.Ctx.Instrs(func(in ssa.Instruction) {
			ifi, ok := in.(*ssa.If)
			if !ok {
				return
			}
			c := fc.Val(ifi.Cond)
			for cn, cv := range consts {
				other := -1 // successor taken when v is not this constant
				if c.Equal(b.X.S.Cmp("==", v, cv)) {
					other = 1
				} else if c.Equal(b.X.S.Cmp("!=", v, cv)) {
					other = 0
				}
				if other >= 0 {
					seen[cn] = true
					// the not-this-constant edge of the last case leading to a panic = default panics
					ob := ifi.Block().Succs[other]
					if _, isPanic := ob.Instrs[len(ob.Instrs)-1].(*ssa.Panic); isPanic {
						hasPanicDefault = true
					}
				}
			}
		})
	}
	var missing []string
	for cn := range consts {
		if !seen[cn] {
			missing = append(missing, cn)
		}
	}
	sort.Strings(missing)
	if len(missing) == 0 || hasPanicDefault {
		b.R.OK(rule, construct, b.pos(fc.Fn), fmt.Sprintf("all %d declared constants of %s handled (panicking default: %v)", len(consts), n.Obj().Name(), hasPanicDefault))
	} else {
		b.R.Fail(rule, construct, b.pos(fc.Fn), "declared constants without a case and no panicking default: "+strings.Join(missing, ","))
	}
}

// pathCountRange: minimum and maximum number of instructions satisfying pred
// along any entry→return path of an acyclic function (panicking paths are
// ignored). ok=false when the function has loops.
func (fc *FC) pathCountRange(pred func(in ssa.Instruction) bool) (min, max int, ok bool) {
	if len(fc.Ctx.Loops()) > 0 {
		return 0, 0, false
	}
	type mm struct{ lo, hi int }
	memo := map[int]*mm{}
	var walk func(b *ssa.BasicBlock) *mm
	walk = func(b *ssa.BasicBlock) *mm {
		if r, ok := memo[b.Index]; ok {
			return r
		}
		n := 0
		for _, in := range b.Instrs {
			if pred(in) {
				n++
			}
		}
		var res *mm
		switch b.Instrs[len(b.Instrs)-1].(type) {
		case *ssa.Return:
			res = &mm{n, n}
		case *ssa.Panic:
			res = nil
		default:
			for _, s := range fc.Ctx.LiveSuccs(b) {
				r := walk(s)
				if r == nil {
					continue
				}
				if res == nil {
					res = &mm{r.lo + n, r.hi + n}
				} else {
					if r.lo+n < res.lo {
						res.lo = r.lo + n
					}
					if r.hi+n > res.hi {
						res.hi = r.hi + n
					}
				}
			}
		}
		memo[b.Index] = res
		return res
	}
	r := walk(fc.Fn.Blocks[0])
	if r == nil {
		return 0, 0, false
	}
	return r.lo, r.hi, true
}

// isIncrement: `*a = *a + 1` (same address, compared by normal form: go/ssa
// does no CSE, so the two address computations are distinct values).
func (fc *FC) isIncrement(in ssa.Instruction) bool {
	st, ok := in.(*ssa.Store)
	if !ok {
		return false
	}
	// value-based for slice elements: xs[i] = xs[i] + 1 in any spelling (x++, x += 1, x = 1 + x)
	if ia, isIA := st.Addr.(*ssa.IndexAddr); isIA {
		cur := fc.X.S.MakeFn("idx", fc.Val(ia.X), fc.Val(ia.Index))
		return fc.Val(st.Val).Equal(cur.Add(fc.X.S.Int(1)))
	}
	bo, ok := st.Val.(*ssa.BinOp)
	if !ok || bo.Op.String() != "+" {
		return false
	}
	ld, ok := bo.X.(*ssa.UnOp)
	if !ok || (ld.X != st.Addr && !fc.Val(ld.X).Equal(fc.Val(st.Addr))) {
		return false
	}
	c, ok := bo.Y.(*ssa.Const)
	return ok && c.Value != nil && c.Value.ExactString() == "1"
}

// implementorsOf lists the named types of the module (T or *T) implementing iface.
func (b *B) implementorsOf(iface *types.Interface) []types.Type {
	var out []types.Type
	for _, t := range b.A.W.namedTypes {
		if types.Implements(t, iface) {
			out = append(out, t)
		} else if types.Implements(types.NewPointer(t), iface) {
			out = append(out, types.NewPointer(t))
		}
	}
	sort.Slice(out, func(i, j int) bool { return out[i].String() < out[j].String() })
	return out
}

func (b *B) methodOf(t types.Type, name string) *ssa.Function {
	ms := b.A.W.Prog.MethodSets.MethodSet(t)
	for i := 0; i < ms.Len(); i++ {
		if ms.At(i).Obj().Name() == name {
			fn := b.A.W.Prog.MethodValue(ms.At(i))
			if fn != nil && fn.Synthetic != "" {
				if obj, ok := ms.At(i).Obj().(*types.Func); ok {
					if d := b.A.W.Prog.FuncValue(obj); d != nil {
						return d
					}
				}
			}
			return fn
		}
	}
	return nil
}

// staticCallees: module functions statically called from fn (transitively).
func (b *B) staticCallees(fn *ssa.Function) []*ssa.Function {
	seen := map[*ssa.Function]bool{fn: true}
	out := []*ssa.Function{fn}
	for i := 0; i < len(out); i++ {
		for _, blk := range out[i].Blocks {
			for _, in := range blk.Instrs {
				if c, ok := in.(ssa.CallInstruction); ok {
					if f := c.Common().StaticCallee(); f != nil && b.A.W.NameOf[f] != "" && !seen[f] {
						seen[f] = true
						out = append(out, f)
					}
				}
			}
		}
	}
	return out
}
