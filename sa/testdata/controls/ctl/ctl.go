// Package ctl holds deliberately violating (Bad*) and conforming (OK*)
// functions: positive controls for the gmsa rules. It is analysed on every
// run; a Bad* function that is not flagged, or an OK* function that is,
// means the checker itself is broken.
package ctl

import (
	"math"
	"math/rand"
	"sort"
	"strings"
)

// ---- engine A ----

func BadSortsArg(xs []float64) float64 { sort.Float64s(xs); return xs[0] }

func OKSortsCopy(xs []float64) float64 {
	ys := append([]float64(nil), xs...)
	sort.Float64s(ys)
	return ys[0]
}

func BadAppendSpare(xs, ys []float64) []float64 { return append(xs, ys...) }

var cache = map[int]float64{}

func BadCached(n int) float64 {
	if v, ok := cache[n]; ok {
		return v
	}
	cache[n] = float64(n)
	return cache[n]
}

func BadNotFresh(xs []float64) []float64 { return xs[:1] }

func OKFresh(xs []float64) []float64 {
	out := make([]float64, len(xs))
	copy(out, xs)
	return out
}

func BadGlobalRand() float64 { return rand.Float64() }

func OKRand(r *rand.Rand) float64 {
	if r == nil {
		return rand.Float64()
	}
	return r.Float64()
}

func BadGoroutine(xs []float64) {
	go func() { _ = xs }()
}

func BadMapOrder(m map[int]int) []int {
	var out []int
	for k := range m {
		out = append(out, k)
	}
	return out
}

func OKMapClear(m map[int]int) {
	for k := range m {
		delete(m, k)
	}
}

type pair struct{ xs, ws []float64 }

func (p *pair) Len() int           { return len(p.xs) }
func (p *pair) Less(i, j int) bool { return p.xs[i] < p.xs[j] }
func (p *pair) Swap(i, j int)      { p.xs[i], p.xs[j] = p.xs[j], p.xs[i] }

type pairOK struct{ xs, ws []float64 }

func (p *pairOK) Swap(i, j int) {
	p.xs[i], p.xs[j] = p.xs[j], p.xs[i]
	p.ws[i], p.ws[j] = p.ws[j], p.ws[i]
}

// ---- engine D ----

func BadBin(x float64) int { return int(x * 3) }
func OKBin(x float64) int  { return int(math.Floor(x * 3)) }
func BadDiv(a, n int) int  { return (a - n*n) / 2 }
func OKDiv(xs []int) int   { return (len(xs) + 1) / 2 }

// ---- engine B ----

func BadWelch(v1, n1, v2, n2 float64) float64 { return math.Sqrt(v1/n1 + v2/n1) }
func OKWelch(v1, n1, v2, n2 float64) float64 {
	se2 := v2/n2 + v1/n1
	return math.Sqrt(se2)
}

func BadMean(xs []float64) float64 {
	m := 0.0
	for i, x := range xs {
		m += (x - m) / float64(i)
	}
	return m
}

func OKMean(xs []float64) float64 {
	m := 0.0
	for i, x := range xs {
		d := x - m
		m = m + d/float64(1+i)
	}
	return m
}

type acc struct {
	Count    uint
	Min, Max float64
}

func (a *acc) BadMerge(o *acc) {
	a.Count += o.Count
	if o.Min < a.Min {
		a.Min = o.Min
	}
}

// ---- engine C ----

type hist struct {
	low, high uint
	bins      []uint
}

func (h *hist) BadAdd(b int) {
	if b < 0 {
		h.low++
	} else if b >= len(h.bins) {
		h.high++
		h.low++
	} else {
		h.bins[b]++
	}
}

func (h *hist) OKAdd(b int) {
	if b < 0 {
		h.low++
	} else if b >= len(h.bins) {
		h.high++
	} else {
		h.bins[b]++
	}
}

func quote(s string) string { return "\"" + s + "\"" }

func BadEmit(buf *strings.Builder, name string) { buf.WriteString(name) }
