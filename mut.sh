#!/bin/bash
# usage: mut.sh <prop> <file-rel> <python-regex-or-literal old> <new>   (literal replace, first occurrence)
# copies /repo to a scratch dir, applies the edit, checks it compiles, runs gmsa on it, removes the copy.
set -u
prop=$1; file=$2; old=$3; new=$4
d=$(mktemp -d /tmp/gmsa-mut.XXXXXX)
rsync -a --exclude .git /repo/ $d/
python3 - "$d/$file" "$old" "$new" <<'PY'
import sys
p,old,new=sys.argv[1:4]
s=open(p).read()
if old not in s: print("MUT: pattern not found"); sys.exit(3)
open(p,'w').write(s.replace(old,new,1))
PY
[ $? -eq 3 ] && { rm -rf $d; exit 3; }
export GOFLAGS=-mod=mod GOPROXY=off GOSUMDB=off GOTOOLCHAIN=local
mkdir -p /tmp/gmsa-mut-verif; cp /verif/known_findings.json /tmp/gmsa-mut-verif/
(cd $d && go build ./... 2>&1 | head -5)
/verif/bin/gmsa check $prop --repo $d --verif /tmp/gmsa-mut-verif --no-controls 2>&1 | grep -E "FAILED|UNDECIDED|^gmsa:" | cut -c1-400
rm -rf $d /tmp/gmsa-mut-verif/evidence /tmp/gmsa-mut-verif/replay
