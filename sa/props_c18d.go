package main

import (
	"fmt"
	"go/constant"
	"go/token"
	"os"
	"strings"

	"golang.org/x/tools/go/ssa"
)

// propC18equal: graph.Equal compares adjacency lists as multisets. Structural
// necessary conditions, each of which a wrong Equal breaks:
//
//	count     false at once when the graphs differ in the number of nodes (and only then, before the nodes are gone through)
//	nodes     every node 0 … NumNodes-1 is examined
//	length    false when Out(i) of the two graphs differ in length
//	sorted    the lists are compared element by element AFTER sorting copies of both: the two
//	          sort.Ints calls get buf[:len(e1)] and buf[len(e1):] of one buffer built as
//	          append(append(buf[:0], e1...), e2...), the comparison loop runs over exactly these
//	          two slices, over every index, and a mismatch returns false
//	complete  the next node is reached only over the exhausted exit of a complete element-wise
//	          comparison (the sorted one, or an optional one on the unsorted lists) — no other
//	          path leads on
//	true      true is returned only once the node loop is exhausted
//
// (that the inputs are not sorted in place is engine A's obligation on Equal).
func propC18equal(a *Analysis, r *Registry, b *B) {
	const rule = "B-C18 formula"
	name := "graph.Equal"
	fn := b.Fn(rule, name)
	if fn == nil {
		return
	}
	X := b.X
	S := X.S
	b.guard(rule, name, func() {
		fc := X.FCFor(fn)
		env := X.EnvFor(fn, "g1", "g2")
		ctx := fc.Ctx
		loops := ctx.Loops()
		var outer *Loop
		for _, l := range loops {
			if outer == nil || len(l.Body) > len(outer.Body) {
				outer = l
			}
		}
		if outer == nil {
			r.Fail(rule, name+"/nodes", b.pos(fn), "no loop over the nodes")
			return
		}
		isConstBool := func(v ssa.Value, want bool) bool {
			c, ok := v.(*ssa.Const)
			return ok && c.Value != nil && c.Value.Kind() == constant.Bool && constant.BoolVal(c.Value) == want
		}
		// the node counter: the header phi that Out is called with
		var outs []*ssa.Call
		ctx.Instrs(func(in ssa.Instruction) {
			if c, ok := in.(*ssa.Call); ok && c.Call.IsInvoke() && c.Call.Method.Name() == "Out" && outer.Body[c.Block().Index] {
				outs = append(outs, c)
			}
		})
		if len(outs) != 2 || !fc.Val(outs[0].Call.Args[0]).Equal(fc.Val(outs[1].Call.Args[0])) {
			r.Fail(rule, name+"/nodes", b.pos(fn), "expected g1.Out(i) and g2.Out(i) for one node i per iteration")
			return
		}
		var e1, e2 *RF
		for _, c := range outs {
			if fc.Val(c.Call.Value).Equal(env.Vars["g1"].RF) {
				e1 = fc.Val(c)
			} else if fc.Val(c.Call.Value).Equal(env.Vars["g2"].RF) {
				e2 = fc.Val(c)
			}
		}
		if e1 == nil || e2 == nil {
			r.Fail(rule, name+"/nodes", b.pos(fn), "the two lists are not taken from g1 and g2")
			return
		}
		i := fc.Val(outs[0].Call.Args[0])
		n1, n2 := env.MustParse("g1.NumNodes()"), env.MustParse("g2.NumNodes()")
		b.AnyOf(func() {
			b.FullScan("C-scan coverage", name+"/nodes", b.pos(fn), fc, i, n1)
		}, func() {
			b.FullScan("C-scan coverage", name+"/nodes", b.pos(fn), fc, i, n2)
		})
		// returns
		var retTrue, retFalse []*ssa.Return
		for _, rt := range ctx.Returns() {
			switch {
			case isConstBool(rt.Results[0], true):
				retTrue = append(retTrue, rt)
			case isConstBool(rt.Results[0], false):
				retFalse = append(retFalse, rt)
			default:
				r.Fail(rule, name+"/true", a.W.InstrPos(rt), "a result that is neither the constant true nor false")
				return
			}
		}
		// count
		okCount := false
		for _, rt := range retFalse {
			if ctx.LoopOf(rt.Block()) == nil && !ctx.Dominates(outer.Header, rt.Block()) {
				func() {
					defer func() { recover() }()
					if c := fc.ReachCond(rt.Block()); c.Equal(S.Cmp("!=", n1, n2)) || c.Equal(S.Cmp("!=", n2, n1)) {
						okCount = true
					}
				}()
			}
		}
		if okCount {
			r.OK(rule, name+"/count", b.pos(fn), "false at once when the numbers of nodes differ")
		} else {
			r.Fail(rule, name+"/count", b.pos(fn), "no `return false` taken exactly when g1.NumNodes() != g2.NumNodes() before the nodes are gone through")
		}
		// body entry of the node loop
		var entry *ssa.BasicBlock
		for _, sc := range ctx.LiveSuccs(outer.Header) {
			if outer.Body[sc.Index] {
				entry = sc
			}
		}
		if entry == nil {
			r.Fail(rule, name+"/length", b.pos(fn), "node loop without a body")
			return
		}
		// length
		okLen := false
		lenNe := S.Cmp("!=", S.MakeFn("len", e1), S.MakeFn("len", e2))
		for _, rt := range retFalse {
			for _, p := range ctx.LivePreds(rt.Block()) {
				if lp := ctx.LoopOf(p); !outer.Body[p.Index] || lp == nil || lp.Header != outer.Header {
					continue
				}
				func() {
					defer func() { recover() }()
					c := S.And(fc.ReachCondFrom(entry, p), fc.edgeCond(p, rt.Block()))
					if os.Getenv("GMSA_DEBUG_SWEEP") != "" {
						fmt.Fprintln(os.Stderr, "EQUAL length cand:", c, "want", lenNe)
					}
					if c.Equal(lenNe) || X.EquivByCases(c, lenNe, 0) {
						okLen = true
					}
				}()
			}
		}
		if okLen {
			r.OK(rule, name+"/length", b.pos(fn), "false when the two lists of a node differ in length")
		} else {
			r.Fail(rule, name+"/length", b.pos(fn), "no `return false` taken exactly when len(g1.Out(i)) != len(g2.Out(i))")
		}
		// element-wise comparison loops
		type cmpLoop struct {
			l             *Loop
			x, y          *RF
			exhausted     [2]*ssa.BasicBlock // edge from → to
			mismatch      [][2]*ssa.BasicBlock
			mismatchFalse bool // every mismatch exit returns false directly
		}
		var cmps []cmpLoop
		for _, l := range loops {
			if l == outer || !outer.Body[l.Header.Index] {
				continue
			}
			var cl *cmpLoop
			for bi := range l.Body {
				blk := fn.Blocks[bi]
				ifi, ok := blk.Instrs[len(blk.Instrs)-1].(*ssa.If)
				if !ok {
					continue
				}
				bo, ok := ifi.Cond.(*ssa.BinOp)
				if !ok || (bo.Op != token.NEQ && bo.Op != token.EQL) {
					continue
				}
				// the two elements compared: loads of X[k] and Y[k] (read off the instructions: the
				// normal form folds the offset of a sub-slice into the index)
				elem := func(v ssa.Value) (*RF, *RF) {
					ld, ok := v.(*ssa.UnOp)
					if !ok || ld.Op != token.MUL {
						return nil, nil
					}
					ia, ok := ld.X.(*ssa.IndexAddr)
					if !ok {
						return nil, nil
					}
					return fc.Val(ia.X), fc.Val(ia.Index)
				}
				xb, xi := elem(bo.X)
				yb, yi := elem(bo.Y)
				if xb == nil || yb == nil || !xi.Equal(yi) {
					continue
				}
				type pair struct{ Args [2]*RF }
				xa, ya := pair{[2]*RF{xb, xi}}, pair{[2]*RF{yb, yi}}
				ne := 0 // successor index taken on mismatch
				if bo.Op == token.EQL {
					ne = 1
				}
				if l.Body[blk.Succs[ne].Index] {
					continue // a mismatch does not leave the loop
				}
				I := xa.Args[1]
				construct := name + "/compare@" + a.W.InstrPos(ifi)
				full := false
				b.earlyExitsOK = true // (a comparison loop is left early on a mismatch: that exit is examined below)
				b.AnyOf(func() {
					full = b.FullScan("C-scan coverage", construct, a.W.InstrPos(ifi), fc, I, S.MakeFn("len", xa.Args[0]))
				}, func() {
					full = b.FullScan("C-scan coverage", construct, a.W.InstrPos(ifi), fc, I, S.MakeFn("len", ya.Args[0]))
				})
				b.earlyExitsOK = false
				if !full {
					continue
				}
				c := cmpLoop{l: l, x: xa.Args[0], y: ya.Args[0], mismatchFalse: true}
				c.mismatch = append(c.mismatch, [2]*ssa.BasicBlock{blk, blk.Succs[ne]})
				if rt, isRet := blk.Succs[ne].Instrs[len(blk.Succs[ne].Instrs)-1].(*ssa.Return); !isRet || !isConstBool(rt.Results[0], false) || len(blk.Succs[ne].Instrs) != 1 {
					c.mismatchFalse = false
				}
				for _, sc := range ctx.LiveSuccs(l.Header) {
					if !l.Body[sc.Index] {
						c.exhausted = [2]*ssa.BasicBlock{l.Header, sc}
					}
				}
				cl = &c
			}
			if cl != nil && cl.exhausted[0] != nil {
				cmps = append(cmps, *cl)
			}
		}
		// sorted: the two sort.Ints arguments and the loop comparing them
		var sorts []*ssa.Call
		ctx.Instrs(func(in ssa.Instruction) {
			if c, ok := in.(*ssa.Call); ok && c.Call.StaticCallee() != nil && canonCallee(c.Call.StaticCallee().String()) == "sort.Ints" {
				sorts = append(sorts, c)
			}
		})
		var sortedCmp *cmpLoop
		okSorted := false
		why := "expected two sort.Ints calls on the two halves of one buffer holding copies of both lists"
		if len(sorts) == 2 {
			A, B := fc.Val(sorts[0].Call.Args[0]), fc.Val(sorts[1].Call.Args[0])
			aa, ba := A.SingleAtom(), B.SingleAtom()
			blank := func(v *RF) bool {
				at := v.SingleAtom()
				return at != nil && at.Kind == "var" && at.Name == "_"
			}
			if aa != nil && ba != nil && aa.Name == "slice" && ba.Name == "slice" && aa.Args[0].Equal(ba.Args[0]) {
				buf := aa.Args[0]
				// buf = append(append(fresh[:0], e1...), e2...)
				okBuf := false
				if o := buf.SingleAtom(); o != nil && o.Name == "builtin:append" && len(o.Args) == 2 && o.Args[1].Equal(e2) {
					if in := o.Args[0].SingleAtom(); in != nil {
						switch {
						case in.Name == "copyof" && in.Args[0].Equal(e1):
							okBuf = true
						case in.Name == "builtin:append" && len(in.Args) == 2 && in.Args[1].Equal(e1):
							if z := in.Args[0].SingleAtom(); z != nil && z.Name == "slice" && !FindAtomIn(z.Args[0], e1, e2) {
								if hi, isC := z.Args[2].IsConst(); isC && hi.Sign() == 0 {
									okBuf = true
								}
							}
						}
					}
				}
				l1 := S.MakeFn("len", e1)
				okHalves := (blank(aa.Args[1]) || aa.Args[1].Equal(S.Int(0))) && aa.Args[2].Equal(l1) && ba.Args[1].Equal(l1) && blank(ba.Args[2])
				switch {
				case !okBuf:
					why = "the buffer sorted is not append(append(buf[:0], e1...), e2...): " + clip(buf.String(), 160)
				case !okHalves:
					why = "the two sorted slices are not buf[:len(e1)] and buf[len(e1):]"
				default:
					for k := range cmps {
						c := &cmps[k]
						if (c.x.Equal(A) && c.y.Equal(B)) || (c.x.Equal(B) && c.y.Equal(A)) {
							// the comparison follows both sorts
							if ctx.Dominates(sorts[0].Block(), c.l.Header) && ctx.Dominates(sorts[1].Block(), c.l.Header) {
								sortedCmp = c
							}
						}
					}
					switch {
					case sortedCmp == nil:
						why = "no complete element-wise comparison of the two sorted slices after both sorts"
					case !sortedCmp.mismatchFalse:
						why = "a mismatch between the sorted lists does not return false"
					default:
						okSorted = true
					}
				}
			}
		}
		if okSorted {
			r.OK(rule, name+"/sorted", b.pos(fn), "sorted copies of both lists are compared element by element; a mismatch returns false")
		} else {
			r.Fail(rule, name+"/sorted", b.pos(fn), why)
		}
		// complete: the node loop goes on only over the exhausted exit of a complete comparison of the
		// two lists (sorted, or the unsorted ones as a shortcut)
		okEdges := map[[2]*ssa.BasicBlock]bool{}
		for k := range cmps {
			c := &cmps[k]
			onLists := (c.x.Equal(e1) && c.y.Equal(e2)) || (c.x.Equal(e2) && c.y.Equal(e1))
			if onLists || (sortedCmp != nil && c == sortedCmp) {
				okEdges[c.exhausted] = true
			}
		}
		// what is known after leaving a comparison loop over its mismatch exit: the exit's own
		// condition (the index was still in range, the elements differed)
		exitFact := map[[2]*ssa.BasicBlock]*RF{}
		for k := range cmps {
			func() {
				defer func() { recover() }()
				for _, ee := range fc.ExitEdges(cmps[k].l.Header) {
					if ee.From != cmps[k].l.Header {
						exitFact[[2]*ssa.BasicBlock{ee.From, ee.To}] = ee.Cond
					}
				}
			}()
		}
		type st struct {
			pred, blk *ssa.BasicBlock
			nf        int
		}
		seen := map[st]bool{}
		leak := ""
		var facts []Assumption
		var walk func(pred, blk *ssa.BasicBlock)
		walk = func(pred, blk *ssa.BasicBlock) {
			if leak != "" || seen[st{pred, blk, len(facts)}] {
				return
			}
			seen[st{pred, blk, len(facts)}] = true
			if blk == outer.Header {
				leak = "a way to the next node without a complete comparison (through " + a.W.Pos(pred.Instrs[len(pred.Instrs)-1].Pos()) + ")"
				return
			}
			if !outer.Body[blk.Index] {
				return
			}
			succs := ctx.LiveSuccs(blk)
			// a branch on a flag merged in this very block is resolved by the edge taken
			if ifi, ok := blk.Instrs[len(blk.Instrs)-1].(*ssa.If); ok && pred != nil {
				if ph, isPhi := ifi.Cond.(*ssa.Phi); isPhi && ph.Block() == blk {
					for k, pb := range blk.Preds {
						if pb == pred {
							if isConstBool(ph.Edges[k], true) {
								succs = []*ssa.BasicBlock{blk.Succs[0]}
							} else if isConstBool(ph.Edges[k], false) {
								succs = []*ssa.BasicBlock{blk.Succs[1]}
							}
						}
					}
				}
			}
			// a branch decided by what is known from the mismatch exit taken (`if same == len(e1)`
			// after a prefix-length loop)
			if ifi, ok := blk.Instrs[len(blk.Instrs)-1].(*ssa.If); ok && len(facts) > 0 && len(succs) == 2 {
				func() {
					defer func() { recover() }()
					switch X.EvalCond(fc.Val(ifi.Cond), facts) {
					case True:
						succs = []*ssa.BasicBlock{blk.Succs[0]}
					case False:
						succs = []*ssa.BasicBlock{blk.Succs[1]}
					}
				}()
			}
			for _, sc := range succs {
				if okEdges[[2]*ssa.BasicBlock{blk, sc}] {
					continue
				}
				if f := exitFact[[2]*ssa.BasicBlock{blk, sc}]; f != nil {
					facts = append(facts, Assumption{Cond: f, True: true})
					walk(blk, sc)
					facts = facts[:len(facts)-1]
					continue
				}
				walk(blk, sc)
			}
		}
		walk(nil, entry)
		if leak == "" {
			r.OK(rule, name+"/complete", b.pos(fn), "the next node is reached only after a complete element-wise comparison found no mismatch")
		} else {
			r.Fail(rule, name+"/complete", b.pos(fn), leak)
		}
		// true
		okTrue := len(retTrue) > 0
		for _, rt := range retTrue {
			fromHeader := false
			for _, p := range ctx.LivePreds(rt.Block()) {
				if p == outer.Header {
					fromHeader = true
				} else {
					okTrue = false
				}
			}
			if !fromHeader || outer.Body[rt.Block().Index] {
				okTrue = false
			}
		}
		if okTrue {
			r.OK(rule, name+"/true", b.pos(fn), "true only once every node has been examined")
		} else {
			r.Fail(rule, name+"/true", b.pos(fn), "true can be returned before every node has been examined")
		}
		_ = strings.TrimSpace
	})
}

// FindAtomIn: does v mention (at any depth) one of the given values?
func FindAtomIn(v *RF, vals ...*RF) bool {
	for _, w := range vals {
		if v.Equal(w) {
			return true
		}
		if wa := w.SingleAtom(); wa != nil && len(FindAtomID(v, wa.ID)) > 0 {
			return true
		}
	}
	return false
}
