package main

import (
	"golang.org/x/tools/go/ssa"
)

func init() {
	propFuncs["C11"] = propC11
	propInfos["C11"] = &PropInfo{
		Level:   "other",
		Explain: "Structural necessary conditions decided statically (DESIGN.md §5 C11): result plumbing (N=n, Quantile=q on every path; c>=1 gives {Confidence 1, LoOrder 0, HiOrder n+1}); the final clamps LoOrder=max(l,0), HiOrder=min(r,n+1); method selection by n <= quantileCIApproxThreshold; exact branch as a system of recurrences matched by role: start bucket ceil((n+1)q)-1 (0 for q==0), accum=PMF(x), [l,r)=[x,x+1), neighbours lp=PMF(l-1), rp=PMF(r), loop condition accum<c && (lp>0||rp>0), left step taken when lp>=rp (left bias) re-reading PMF(l-2), right step re-reading PMF(r+1), Ambiguous=(lp==rp) of the step, Confidence=accum; normal branch: alpha=(1-c)/2, l1=InvCDF(alpha), r1=2Mu-l1, outward rounding to half-integers, band mass by CDF differences, the left-biased trim condition, the full-range fix-up; SampleCI: no mutation of the sample, Quantile of the sorted data, -inf/+inf for orders 0 and n+1, else x[order-1]; D-floor on every conversion.",
		Assume:  []string{"A4 reals"},
		Undec:   []string{"Confidence >= c, LoOrder < HiOrder, containment of the mode, minimality, nesting — statements about accumulated binomial masses"},
	}
}

func propC11(a *Analysis, r *Registry) {
	b := NewB(a, r)
	X := b.X
	S := X.S
	// the quantile of the normal approximation is kept as an application (its own formula is decided under C05)
	X.NoInline["stats.(NormalDist).InvCDF"] = true
	const rB = "B-C11 formula"
	fn := b.Fn(rB, "stats.QuantileCI")
	if fn != nil {
		name := "stats.QuantileCI"
		env := X.EnvFor(fn, "n", "q", "c")
		b.guard(rB, name+"/c>=1", func() {
			fc := X.Under(fn, X.AssumeCond(env.MustParse("1<=c"), true))
			b.EqUnder(rB, name+"/c>=1", b.pos(fn), fc, fc.RetVal(0), env, "QuantileCIResult(q, n, 1, 0, n+1, false)")
		})
		// final return on the other paths
		b.guard(rB, name+"/clamps", func() {
			fc := X.Under(fn, X.AssumeCond(env.MustParse("1<=c"), false))
			rv := fc.RetVal(0).SingleAtom()
			if rv == nil || rv.Name != "mk:QuantileCIResult" {
				anchorFail("result is not a QuantileCIResult built in the function")
			}
			b.Eq(rB, name+"/result.Quantile", b.pos(fn), rv.Args[0], env, "q")
			b.Eq(rB, name+"/result.N", b.pos(fn), rv.Args[1], env, "n")
			for _, cl := range []struct {
				idx        int
				field, low string
			}{{3, "LoOrder", "lo"}, {4, "HiOrder", "hi"}} {
				e2 := X.EnvFor(fn, "n", "q", "c")
				bound := map[string]string{"LoOrder": "0", "HiOrder": "n+1"}[cl.field]
				inner := clampInner(rv.Args[cl.idx], e2.MustParse(bound))
				if inner == nil {
					r.Fail("D-bound clamp", name+"/"+cl.field, b.pos(fn), cl.field+" is not clamped at "+bound+": "+clip(rv.Args[cl.idx].String(), 200))
					continue
				}
				if cl.field == "LoOrder" {
					e2.Set("L", inner, nil)
					b.Eq("D-bound clamp", name+"/LoOrder", b.pos(fn), rv.Args[cl.idx], e2, "ite(L<0, 0, L)")
				} else {
					e2.Set("R", inner, nil)
					b.Eq("D-bound clamp", name+"/HiOrder", b.pos(fn), rv.Args[cl.idx], e2, "ite(n+1<R, n+1, R)")
				}
			}
		})
		b.guard("C-decision method-selection", name, func() {
			fc := X.FCFor(fn)
			ifs := fc.IfsMentioning("global:stats.quantileCIApproxThreshold")
			if len(ifs) != 1 {
				r.Fail("C-decision method-selection", name, b.pos(fn), "expected exactly one test against quantileCIApproxThreshold")
				return
			}
			b.Eq("C-decision method-selection", name, a.W.InstrPos(ifs[0]), fc.Val(ifs[0].Cond), env, "n<=stats.quantileCIApproxThreshold")
		})
		// exact branch
		b.guard(rB, name+"/exact", func() {
			fc := X.Under(fn, X.AssumeCond(env.MustParse("1<=c"), false), X.AssumeCond(env.MustParse("n<=stats.quantileCIApproxThreshold"), true))
			rv := fc.RetVal(0).SingleAtom()
			if rv == nil || rv.Name != "mk:QuantileCIResult" {
				anchorFail("result")
			}
			conf := rv.Args[2]
			env.Let("samp", "BinomialDist(n, q)")
			env.Let("x", "ite(q==0, 0, int(ceil((n+1)*q)-1))")
			left := "rp<=lp"
			vars := b.LoopSystem(rB, name+"/exact/recurrences", b.pos(fn), fc, conf, env, []recSpec{
				{"accum", "samp.PMF(x)", "ite(" + left + ", accum+lp, accum+rp)"},
				{"l", "x", "ite(" + left + ", l-1, l)"},
				{"r", "x+1", "ite(" + left + ", r, r+1)"},
				{"lp", "samp.PMF(x-1)", "ite(" + left + ", samp.PMF(l-1-1), lp)"},
				{"rp", "samp.PMF(x+1)", "ite(" + left + ", rp, samp.PMF(r+1))"},
			})
			if vars == nil {
				return
			}
			for k, v := range vars {
				env.Set(k, v, nil)
			}
			b.EqRF(rB, name+"/exact/Confidence", b.pos(fn), conf, vars["accum"], "Confidence is the accumulated mass")
			aat := vars["accum"].SingleAtom()
			hdr, lfc := X.phiOf[aat.ID].Block(), X.phiFC[aat.ID] // the loop may live in a helper
			// loop condition: reach condition of the body from the header
			var body *ssa.BasicBlock
			lfc.Ctx.Instrs(func(in ssa.Instruction) {
				if ifi, ok := in.(*ssa.If); ok && lfc.Ctx.LoopOf(ifi.Block()) != nil {
					if c := lfc.Val(ifi.Cond); c.Equal(env.MustParse(left)) || c.Equal(S.Not(env.MustParse(left))) {
						body = ifi.Block()
					}
				}
			})
			if body == nil {
				r.Fail(rB, name+"/exact/left-bias", b.pos(fn), "no branch on lp >= rp (left bias) in the loop")
			} else {
				r.OK(rB, name+"/exact/left-bias", b.pos(fn), "the left neighbour is taken when lp >= rp")
				b.Eq(rB, name+"/exact/loop-condition", b.pos(fn), lfc.ReachCondFrom(hdr, body), env, "accum<c && (0<lp || 0<rp)")
			}
			// l, r reach the clamps
			lo, hi := clampInner(rv.Args[3], env.MustParse("0")), clampInner(rv.Args[4], env.MustParse("n+1"))
			if lo != nil && hi != nil {
				b.EqRF(rB, name+"/exact/LoOrder-source", b.pos(fn), lo, vars["l"], "LoOrder comes from l")
				b.EqRF(rB, name+"/exact/HiOrder-source", b.pos(fn), hi, vars["r"], "HiOrder comes from r")
			}
			// Ambiguous: carried by the same loop (a field of the result or a variable of a helper)
			b.guard(rB, name+"/exact/Ambiguous", func() {
				ai, an := fc.Recurrence(rv.Args[5])
				b.Eq(rB, name+"/exact/Ambiguous-init", b.pos(fn), ai, env, "samp.PMF(x+1)==samp.PMF(x)")
				b.Eq(rB, name+"/exact/Ambiguous-step", b.pos(fn), an, env, "lp==rp")
			})
		})
		// normal branch
		b.guard(rB, name+"/normal", func() {
			fc := X.Under(fn, X.AssumeCond(env.MustParse("1<=c"), false), X.AssumeCond(env.MustParse("n<=stats.quantileCIApproxThreshold"), false))
			rv := fc.RetVal(0).SingleAtom()
			if rv == nil || rv.Name != "mk:QuantileCIResult" {
				anchorFail("result")
			}
			e := X.EnvFor(fn, "n", "q", "c")
			e.Let("norm", "BinomialDist(n, q).NormalApprox()")
			e.Let("l1", "norm.InvCDF((1-c)/2)")
			e.Let("r1", "2*norm.Mu-l1")
			e.Let("l", "int(floor(floor(l1-0.5)+0.5))+1")
			e.Let("r", "int(floor(ceil(r1-0.5)+0.5))+1")
			e.Let("full", "norm.CDF(r-0.5)-norm.CDF(l-0.5)")
			e.Let("aB", "norm.CDF(r-1-0.5)-norm.CDF(l-0.5)")
			e.Let("take", "c<=aB && aB<full")
			e.Let("r2", "ite(take, r-1, r)")
			e.Let("all", "l<=0 && n+1<=r2")
			b.Eq(rB, name+"/normal/Confidence", b.pos(fn), rv.Args[2], e, "ite(all, 1, ite(take, aB, full))")
			b.Eq(rB, name+"/normal/Ambiguous", b.pos(fn), rv.Args[5], e, "ite(all, false, ite(take, true, false))")
			b.Eq(rB, name+"/normal/LoOrder", b.pos(fn), rv.Args[3], e, "ite(l<0, 0, l)")
			b.Eq(rB, name+"/normal/HiOrder", b.pos(fn), rv.Args[4], e, "ite(n+1<r2, n+1, r2)")
		})
		b.CheckDFloor("D-floor", "stats.QuantileCI", "stats.QuantileCI$1")
	}
	// SampleCI
	if sf := b.Fn(rB, "stats.(QuantileCIResult).SampleCI"); sf != nil {
		name := "stats.(QuantileCIResult).SampleCI"
		a.CheckNoMutation(r, "A-1 no-mutation", sf, nil)
		for _, sorted := range []bool{true, false} {
			sorted := sorted
			regime := map[bool]string{true: "sorted", false: "unsorted"}[sorted]
			b.guard(rB, name+"/"+regime, func() {
				env := X.EnvFor(sf, "ci", "s")
				sv := S.False()
				env.Let("D", "deref(s.Copy().Sort())")
				if sorted {
					sv = S.True()
					env.Let("D", "s")
				}
				fc := X.Under(sf, X.AssumeEq(env.MustParse("s.Sorted"), sv))
				b.Eq(rB, name+"/"+regime+"/q", b.pos(sf), fc.RetVal(0), env, "D.Quantile(ci.Quantile)")
				b.Eq(rB, name+"/"+regime+"/lo", b.pos(sf), fc.RetVal(1), env, "ite(ci.LoOrder<1, inf(-1), D.Xs[ci.LoOrder-1])")
				b.Eq(rB, name+"/"+regime+"/hi", b.pos(sf), fc.RetVal(2), env, "ite(len(D.Xs)<=ci.HiOrder-1, inf(1), D.Xs[ci.HiOrder-1])")
			})
		}
		b.guard("C-guard panics", name, func() {
			fc := X.FCFor(sf)
			env := X.EnvFor(sf, "ci", "s")
			acc := S.False()
			n := 0
			fc.Ctx.Instrs(func(in ssa.Instruction) {
				if p, ok := in.(*ssa.Panic); ok {
					n++
					acc = S.Or(acc, fc.ReachCond(p.Block()))
				}
			})
			if n != 2 {
				r.Fail("C-guard panics", name, b.pos(sf), "expected the two documented panics (weighted sample, size mismatch)")
				return
			}
			b.Eq("C-guard panics", name, b.pos(sf), acc, env, "s.Weights!=nil || len(s.Xs)!=ci.N")
		})
	}
}

// clampInner: v is a two-way gating function one of whose branches is the
// bound; the other branch (the value being clamped) is returned.
func clampInner(v, bound *RF) *RF {
	at := v.SingleAtom()
	if at == nil || at.Name != "ite" || len(at.Args) != 3 {
		return nil
	}
	switch {
	case at.Args[1].Equal(bound):
		return at.Args[2]
	case at.Args[2].Equal(bound):
		return at.Args[1]
	}
	return nil
}
