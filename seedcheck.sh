#!/bin/bash
# usage: seedcheck.sh <outdir containing patch.diff demo_test.go meta.json> <prop> [more props...]
# Confirms a seeded change in a scratch copy of /repo (builds, suite passes, demo fails with / passes without) and runs the checks on it.
set -u
out=$(realpath $1); shift
export GOFLAGS=-mod=mod GOPROXY=off GOSUMDB=off GOTOOLCHAIN=local
pkg=$(python3 -c "import json;print(json.load(open('$out/meta.json'))['package_dir'])")
d=$(mktemp -d /tmp/seed.XXXXXX)
rsync -a --exclude .git /repo/ $d/
cp $out/demo_test.go $d/$pkg/zz_seed_demo_test.go
clean=$(cd $d && go test -vet=off -count=1 -run 'TestSeeded' ./$pkg 2>&1 | tail -1)
(cd $d && git init -q . 2>/dev/null; git apply --whitespace=nowarn $out/patch.diff 2>&1 | head -3)
build=$(cd $d && go build ./... 2>&1 | head -3)
demo=$(cd $d && go test -vet=off -count=1 -run 'TestSeeded' ./$pkg 2>&1 | tail -1)
rm $d/$pkg/zz_seed_demo_test.go
suite=$(cd $d && go test -vet=off -count=1 ./... 2>&1 | grep -v "no test files" | grep -v "^ok" | head -3)
echo "clean-demo: $clean | build: ${build:-ok} | demo-with-patch: $demo | suite: ${suite:-all ok}"
mkdir -p /tmp/gmsa-mut-verif; cp /verif/known_findings.json /tmp/gmsa-mut-verif/
for p in "$@"; do
  /verif/bin/gmsa check $p --repo $d --verif /tmp/gmsa-mut-verif --no-controls 2>&1 | grep -E "FAILED|UNDECIDED|^gmsa:" | awk '/^gmsa:/{print; next} {n++; if (n<=2) print substr($0,1,200)}' 
done
rm -rf $d /tmp/gmsa-mut-verif/evidence /tmp/gmsa-mut-verif/replay
