package main

import (
	"strings"

	"golang.org/x/tools/go/ssa"
)

// makeUmemo: coefficient recurrence, sibling agreement of the two passes,
// base case and step terms.
func propC02umemo(a *Analysis, r *Registry, b *B) {
	propC02bounds(a, r, b)
	X := b.X
	S := X.S
	const rB = "B-C02 makeUmemo"
	fn := b.Fn(rB, "stats.makeUmemo")
	if fn == nil {
		return
	}
	name := "stats.makeUmemo"
	fc := X.FCFor(fn)
	env := X.EnvFor(fn, "twoU", "n1", "t")
	// coefficient slice a: the []int makeslice of length len(t)+1
	var aSl, ASl *RF
	b.guard(rB, name+"/a", func() {
		// (the coefficients may be built by a helper)
		for _, sfc := range fc.BoundCallees(1) {
			sfc := sfc
			sfc.Ctx.Instrs(func(in ssa.Instruction) {
				if ms, ok := in.(*ssa.MakeSlice); ok {
					v := sfc.Val(ms)
					if strings.Contains(ms.Type().String(), "map") {
						if ASl == nil {
							ASl = v
						}
					} else if aSl == nil {
						aSl = v
					}
				}
			})
		}
		if aSl == nil || ASl == nil {
			anchorFail("coefficient slice / memo table not found")
		}
		env.Set("a", aSl, nil)
		env.Set("A", ASl, nil)
		b.Eq(rB, name+"/len(a)", b.pos(fn), aSl.SingleAtom().Args[0], env, "len(t)+1")
		b.Eq(rB, name+"/len(A)", b.pos(fn), ASl.SingleAtom().Args[0], env, "len(t)+1")
		n := 0
		top := fc
		for _, fc := range top.BoundCallees(1) {
			fc := fc
			fc.Ctx.Instrs(func(in ssa.Instruction) {
				st, ok := in.(*ssa.Store)
				if !ok {
					return
				}
				ia, ok := st.Addr.(*ssa.IndexAddr)
				if !ok || !fc.Val(ia.X).Equal(aSl) {
					return
				}
				n++
				k := fc.Val(ia.Index)
				e2 := X.EnvFor(fn, "twoU", "n1", "t")
				e2.Set("a", aSl, nil)
				e2.Set("k", k, nil)
				if c, isC := k.IsConst(); isC {
					if c.RatString() != "1" {
						r.Fail(rB, name+"/a[const]", a.W.InstrPos(st), "unexpected constant index "+c.RatString())
						return
					}
					b.Eq(rB, name+"/a[1]", a.W.InstrPos(st), fc.Val(st.Val), e2, "t[0]")
					return
				}
				b.Eq(rB, name+"/a[k]", a.W.InstrPos(st), fc.Val(st.Val), e2, "a[k-1]+t[k-2]+t[k-1]")
				b.FullScan("C-scan coverage", name+"/a[k]/every-k", a.W.InstrPos(st), fc, k.Sub(S.Int(2)), e2.MustParse("len(t)-1"))
			})
		}
		if n != 2 {
			r.Fail(rB, name+"/a", b.pos(fn), "expected the two stores a[1]=t[0] and a[k]=a[k-1]+t[k-2]+t[k-1]")
		}
	})
	if aSl == nil {
		return
	}
	// one transition (key, rk) -> (n1', twoU') checked against the stated form
	type trans struct {
		where          string
		mapIdx         *RF // index into A of the map accessed with the derived key
		n1p, twoUp     *RF
		keyN1, keyTwoU *RF
		rk             *RF
	}
	analyse := func(construct, where string, mapRF, keyRF *RF) *trans {
		mat := mapRF.SingleAtom()
		kat := keyRF.SingleAtom()
		if mat == nil || mat.Name != "idx" || !mat.Args[0].Equal(ASl) || kat == nil || kat.Name != "mk:ukey" {
			r.Fail(rB, construct, where, "memo access is not A[·][ukey{…}]: "+clip(mapRF.String(), 100)+" / "+clip(keyRF.String(), 200))
			return nil
		}
		t := &trans{where: where, mapIdx: mat.Args[1], n1p: kat.Args[0], twoUp: kat.Args[1]}
		kn := FindFn(t.n1p, "fld:ukey.n1")
		if len(kn) != 1 {
			r.Fail(rB, construct, where, "derived n1 does not come from one memo key: "+clip(t.n1p.String(), 200))
			return nil
		}
		t.keyN1 = S.atomRF(kn[0].ID)
		t.keyTwoU = X.fieldOf(kn[0].Args[0], a.W.Lib["stats"].Members["ukey"].Type(), 1)
		t.rk = t.keyN1.Sub(t.n1p)
		if at := t.rk.SingleAtom(); at == nil || !strings.HasPrefix(at.Name, "phi:") {
			r.Fail(rB, construct, where, "n1' is not key.n1 - rk for a loop variable rk: "+clip(t.n1p.String(), 200))
			return nil
		}
		e := X.EnvFor(fn, "twoU", "n1", "t")
		e.Set("a", aSl, nil)
		e.Set("kn1", t.keyN1, nil)
		e.Set("ktwoU", t.keyTwoU, nil)
		e.Set("rk", t.rk, nil)
		e.Set("KK", t.mapIdx.Add(S.Int(1)), nil)
		b.Eq(rB, construct+"/twoU'", where, t.twoUp, e, "ktwoU-rk*(a[KK]-2*kn1+rk)")
		// rk range
		ri, rn := fc.Recurrence(t.rk)
		b.Eq(rB, construct+"/rk-step", where, rn, e, "rk+1")
		lo := ri.SingleAtom()
		if lo == nil || lo.Name != "ite" {
			r.Fail(rB, construct+"/rk-low", where, "rk does not start at max(0, key.n1 - tsum): "+clip(ri.String(), 200))
		} else {
			ts := t.keyN1.Sub(lo.Args[2])
			e.Set("TS", ts, nil)
			b.Eq(rB, construct+"/rk-low", where, ri, e, "maxint(0, kn1-TS)")
			// TS relates to a loop-carried running sum
			carried := false
			for _, ph := range fc.loopPhis(ts) {
				_, pn := fc.Recurrence(ph)
				if pn.Equal(ts) {
					carried = true
				}
			}
			if carried {
				r.OK(rB, construct+"/tsum-carried", where, "the running sum used for rkLow is the one carried to the next rank")
			} else {
				r.Fail(rB, construct+"/tsum-carried", where, "rkLow does not use a loop-carried running sum: "+clip(ts.String(), 200))
			}
		}
		// the key whose sub-problems are derived comes from the table one rank up: A[KK]
		if ra := FindFn(t.keyN1, "range"); len(ra) == 1 {
			if ia := ra[0].Args[0].SingleAtom(); ia != nil && ia.Name == "idx" && ia.Args[0].Equal(ASl) {
				b.EqRF(rB, construct+"/source-table", where, ia.Args[1], t.mapIdx.Add(S.Int(1)), "the keys gone through are those of the table one rank above the one accessed with the derived key")
			} else {
				r.Fail(rB, construct+"/source-table", where, "the keys gone through do not come from a table of A")
			}
		}
		// every rank from the second up to the last is gone through, in either direction:
		// kh = KK-1 (the number of ranks the sub-problem covers) runs over 2 … len(t)-1
		kh := t.mapIdx
		b.FullScan("C-scan coverage", construct+"/every-rank", where, fc, kh.Sub(S.Int(2)), e.MustParse("len(t)-2"))
		// the running sum used for rkLow is Σ t[0:kh] — by induction over the pass: its value in
		// the first iteration, and its change from one iteration to the next
		if lo != nil && lo.Name == "ite" {
			ts := t.keyN1.Sub(lo.Args[2])
			khPhis := fc.loopPhis(kh)
			if len(khPhis) != 1 || khPhis[0].SingleAtom() == nil {
				r.Fail(rB, construct+"/tsum", where, "the rank counter of the pass is not one loop counter")
			} else {
				kp := khPhis[0]
				ki, kn := recurrenceOrNil(fc, kp)
				sub0, sub1 := map[AtomID]*RF{}, map[AtomID]*RF{}
				okRec := ki != nil
				if okRec {
					sub0[kp.SingleAtom().ID], sub1[kp.SingleAtom().ID] = ki, kn
				}
				for _, ph := range fc.loopPhis(ts) {
					if ph.Equal(kp) || ph.SingleAtom() == nil {
						continue
					}
					pi, pn := recurrenceOrNil(fc, ph)
					if pi == nil {
						okRec = false
						continue
					}
					sub0[ph.SingleAtom().ID], sub1[ph.SingleAtom().ID] = pi, pn
				}
				if !okRec {
					r.Fail(rB, construct+"/tsum", where, "the running sum or the rank counter has no recurrence")
				} else {
					e.Set("kh", kh, nil)
					first, khFirst := ts.Subst(sub0), kh.Subst(sub0)
					next, khNext := ts.Subst(sub1), kh.Subst(sub1)
					e.Set("kh0", khFirst, nil)
					switch {
					case khNext.Equal(kh.Sub(S.Int(1))):
						b.EqRF(rB, construct+"/tsum/first", where, first, e.MustParse("sumint(t)-t[len(t)-1]"), "in the first iteration (kh = len(t)-1) the running sum is Σt − t[len(t)-1] = Σ t[0:kh]")
						b.EqRF(rB, construct+"/tsum/step", where, next, ts.Sub(e.MustParse("t[kh-1]")), "going down one rank removes t[kh-1]: Σ t[0:kh-1] = Σ t[0:kh] − t[kh-1]")
						b.EqRF(rB, construct+"/tsum/first-rank", where, khFirst, e.MustParse("len(t)-1"), "the pass starts at the last rank")
					case khNext.Equal(kh.Add(S.Int(1))):
						b.EqRF(rB, construct+"/tsum/first", where, first, e.MustParse("t[0]+t[1]"), "in the first iteration (kh = 2) the running sum is t[0]+t[1] = Σ t[0:kh]")
						b.EqRF(rB, construct+"/tsum/step", where, next, ts.Add(e.MustParse("t[kh]")), "going up one rank adds t[kh]: Σ t[0:kh+1] = Σ t[0:kh] + t[kh]")
						b.EqRF(rB, construct+"/tsum/first-rank", where, khFirst, S.Int(2), "the pass starts at the second rank")
					default:
						r.Fail(rB, construct+"/tsum", where, "the rank counter does not move by one per iteration")
					}
				}
			}
		}
		ph := X.phiOf[t.rk.SingleAtom().ID]
		if ifi, ok := ph.Block().Instrs[len(ph.Block().Instrs)-1].(*ssa.If); ok {
			b.Eq(rB, construct+"/rk-high", where, fc.Val(ifi.Cond), e, "rk<=minint(kn1, t[KK-1])")
		} else {
			r.Fail(rB, construct+"/rk-high", where, "rk loop has no bound test")
		}
		return t
	}
	var top, bot *trans
	var baseUpd, stepUpd *ssa.MapUpdate
	b.guard(rB, name+"/passes", func() {
		fc.Ctx.Instrs(func(in ssa.Instruction) {
			switch v := in.(type) {
			case *ssa.MapUpdate:
				if c, isC := fc.Val(v.Value).IsConst(); isC && c.Sign() == 0 {
					if kat := fc.Val(v.Key).SingleAtom(); kat != nil && kat.Name == "mk:ukey" && len(FindFn(kat.Args[0], "fld:ukey.n1")) == 1 {
						top = analyse(name+"/top-down", a.W.InstrPos(v), fc.Val(v.Map), fc.Val(v.Key))
						// a derived key is recorded exactly when its twoU' is attainable for n1' over
						// the first kh ranks (a key dropped at the boundary reads as 0 later)
						if top != nil {
							e := X.EnvFor(fn, "twoU", "n1", "t")
							e.Set("a", aSl, nil)
							e.Set("n1p", top.n1p, nil)
							e.Set("twoUp", top.twoUp, nil)
							e.Set("kh", top.mapIdx, nil)
							when := fc.ReachCondFrom(loopBodyEntry(fc, v.Block()), v.Block())
							b.Eq(rB, name+"/top-down/recorded-when", a.W.InstrPos(v), when, e, "twoUmin(n1p, slice(t, _, kh, _), a)<=twoUp && twoUp<=twoUmax(n1p, slice(t, _, kh, _), a)")
						}
					}
					return
				}
				mi := fc.Val(v.Map).SingleAtom()
				if mi != nil && mi.Name == "idx" {
					if c, isC := mi.Args[1].IsConst(); isC && c.Cmp(S.Int(2).N.terms[""].coef) == 0 {
						baseUpd = v
					} else {
						stepUpd = v
					}
				}
			case *ssa.Lookup:
				if v.CommaOk {
					if _, isMap := v.X.Type().Underlying().(interface{ Key() interface{} }); !isMap {
					}
					bot = analyse(name+"/bottom-up", a.W.InstrPos(v), fc.Val(v.X), fc.Val(v.Index))
				}
			}
		})
		if top == nil || bot == nil {
			r.Fail(rB, name+"/siblings", b.pos(fn), "top-down key discovery and/or bottom-up fill not found")
			return
		}
		r.OK(rB, name+"/siblings", b.pos(fn), "both passes derive (n1', twoU') and the rk range by the same stated formulas (K' = index of the accessed table + 1)")
	})
	// base case
	if baseUpd != nil {
		b.guard(rB, name+"/base", func() {
			where := a.W.InstrPos(baseUpd)
			kv := fc.Val(baseUpd.Key)
			e := X.EnvFor(fn, "twoU", "n1", "t")
			e.Set("key", kv, a.W.Lib["stats"].Members["ukey"].Type())
			asum := fc.Val(baseUpd.Value)
			if len(fc.loopPhis(asum)) == 0 {
				// the base case computed by a helper with an early exit: its gated result
				asum = X.ExpandCalls(asum)
			}
			e.Let("bound", "key.twoU-key.n1*(t[0]-key.n1)")
			vars := b.LoopSystem(rB, name+"/base/sum", where, fc, asum, e, []recSpec{
				{"Asum", "0", "Asum+mathx.Choose(t[0], key.n1-r2)*mathx.Choose(t[1], r2)"},
				{"r2", "maxint(0, key.n1-t[0])", "r2+1"},
			})
			if vars != nil {
				e.Set("r2", vars["r2"], nil)
				ph := X.phiOf[vars["r2"].SingleAtom().ID]
				pfc := X.phiFC[vars["r2"].SingleAtom().ID]
				if ifi, ok := ph.Block().Instrs[len(ph.Block().Instrs)-1].(*ssa.If); ok {
					// (compared under what is known at the loop: a helper may have left early for bound < 0)
					b.EqAt(rB, name+"/base/r2High", a.W.InstrPos(ifi), pfc, ifi, pfc.Val(ifi.Cond), e.MustParse("r2<=ite(0<=bound, idiv(bound, t[0]+t[1]), -1)"), "r2 runs up to floor(bound/(t0+t1)), and not at all for bound < 0")
				} else {
					r.Fail(rB, name+"/base/r2High", where, "no bound on r2")
				}
			}
		})
	} else {
		r.Fail(rB, name+"/base", b.pos(fn), "K=2 base-case store A[2][key] not found")
	}
	if stepUpd != nil && bot != nil {
		b.guard(rB, name+"/step", func() {
			where := a.W.InstrPos(stepUpd)
			e := X.EnvFor(fn, "twoU", "n1", "t")
			e.Set("a", aSl, nil)
			e.Set("A", ASl, nil)
			e.Set("rk", bot.rk, nil)
			e.Set("n1p", bot.n1p, nil)
			e.Set("twoUp", bot.twoUp, nil)
			e.Set("k", bot.mapIdx.Add(S.Int(1)), nil)
			asum := fc.Val(stepUpd.Value)
			ai, an := fc.Recurrence(asum)
			b.EqRF(rB, name+"/step/sum-from-zero", where, ai, S.Int(0), "the count of a key is accumulated from 0")
			// stored under the key it was computed for, taken from the table being filled
			kv := fc.Val(stepUpd.Key)
			if ra := FindFn(kv, "range"); len(ra) == 1 {
				b.EqRF(rB, name+"/step/stored-under", where, ra[0].Args[0], S.MakeFn("idx", ASl, bot.mapIdx.Add(S.Int(1))), "the count is stored under the key gone through, a key of A[k]")
			} else {
				r.Fail(rB, name+"/step/stored-under", where, "the count is not stored under the key being gone through: "+clip(kv.String(), 120))
			}
			lo := bot.rk
			_ = lo
			// TS of the bottom pass
			ri, _ := fc.Recurrence(bot.rk)
			if at := ri.SingleAtom(); at != nil && at.Name == "ite" {
				e.Set("TS", bot.keyN1.Sub(at.Args[2]), nil)
			}
			e.Set("Asum", asum, nil)
			b.Eq(rB, name+"/step/term", where, an, e,
				"Asum+ite(!lookupok(A[k-1], ukey(n1p,twoUp)) && twoUmax(n1p, slice(t,_,k-1,_), a)<twoUp, mathx.Choose(TS, n1p), lookup(A[k-1], ukey(n1p,twoUp)))*mathx.Choose(t[k-1], rk)")
			b.Eq(rB, name+"/step/stored-at", where, fc.Val(stepUpd.Map), e, "A[k]")
		})
	}
	if stepUpd == nil && bot != nil {
		r.Fail(rB, name+"/step", b.pos(fn), "the bottom-up pass never stores the accumulated count into A[k]: every count above the base case stays 0")
	}
	// the tables exist before they are used: A[K] seeded with the key asked for, A[k] made in the
	// top-down pass
	b.guard(rB, name+"/tables", func() {
		seeded, made := false, false
		fc.Ctx.Instrs(func(in ssa.Instruction) {
			st, ok := in.(*ssa.Store)
			if !ok {
				return
			}
			at := fc.Val(st.Addr).SingleAtom()
			if at == nil || at.Name != "&idx" || !at.Args[0].Equal(ASl) {
				return
			}
			if at.Args[1].Equal(env.MustParse("len(t)")) {
				seeded = true
			}
			if top != nil && at.Args[1].Equal(top.mapIdx) {
				made = true
			}
		})
		nSeedKey := 0
		fc.Ctx.Instrs(func(in ssa.Instruction) {
			if mu, ok := in.(*ssa.MapUpdate); ok && fc.Ctx.LoopOf(mu.Block()) == nil {
				if ka := fc.Val(mu.Key).SingleAtom(); ka != nil && ka.Name == "mk:ukey" && ka.Args[0].Equal(env.MustParse("n1")) && ka.Args[1].Equal(env.MustParse("twoU")) {
					nSeedKey++
				}
			}
		})
		if seeded && nSeedKey == 1 {
			r.OK(rB, name+"/tables/seed", b.pos(fn), "A[K] is created holding the key {n1, twoU} that was asked for")
		} else {
			r.Fail(rB, name+"/tables/seed", b.pos(fn), "A[len(t)] is not created holding exactly the key {n1, twoU} asked for: the recurrence has nothing to start from")
		}
		if top == nil || made {
			r.OK(rB, name+"/tables/made", b.pos(fn), "the top-down pass creates A[k] before recording keys in it")
		} else {
			r.Fail(rB, name+"/tables/made", b.pos(fn), "the top-down pass records keys in a table A[k] it never creates")
		}
	})
	b.guard(rB, name+"/returns", func() {
		b.EqRF(rB, name+"/returns", b.pos(fn), fc.RetVal(0), ASl, "returns the memo table")
	})
}

// propC02bounds: the attainable range of 2U used to size makeUmemo's tables —
// twoUmin fills the tie groups from the first one (k = 1 … K), twoUmax from
// the last one (k = K … 1), each taking min(n1 left, t[k-1]) items with
// coefficient a[k], starting from -n1²; sumint is the plain sum.
func propC02bounds(a *Analysis, r *Registry, b *B) {
	X, S := b.X, b.X.S
	const rB = "B-C02 makeUmemo"
	for _, up := range []bool{true, false} {
		up := up
		fname := map[bool]string{true: "stats.twoUmin", false: "stats.twoUmax"}[up]
		fn := b.Fn(rB, fname)
		if fn == nil {
			continue
		}
		b.guard(rB, fname, func() {
			fc := X.FCFor(fn)
			env := X.EnvFor(fn, "n1", "t", "a")
			rv := fc.RetVal(0)
			take := "ite(n1k<t[k-1], n1k, t[k-1])"
			kInit, kNext := "1", "k+1"
			if !up {
				kInit, kNext = "len(t)", "k-1"
			}
			vars := b.LoopSystem(rB, fname+"/recurrences", b.pos(fn), fc, rv, env, []recSpec{
				{"k", kInit, kNext},
				{"n1k", "n1", "n1k-" + take},
				{"twoU", "-n1*n1", "twoU+" + take + "*a[k]"},
			})
			if vars == nil {
				return
			}
			b.EqRF(rB, fname+"/result", b.pos(fn), rv, vars["twoU"], "returns the accumulated bound")
			b.FullScan("C-scan coverage", fname+"/all-groups", b.pos(fn), fc, vars["k"].Sub(S.Int(1)), S.MakeFn("len", env.Vars["t"].RF))
		})
	}
	if fn := b.Fn(rB, "stats.sumint"); fn != nil {
		b.guard(rB, "stats.sumint", func() {
			fc := X.FCFor(fn)
			env := X.EnvFor(fn, "xs")
			rv := fc.RetVal(0)
			x, i := fc.elemOf(rv, env.MustParse("xs"))
			env.Set("x", x, nil)
			vars := b.LoopSystem(rB, "stats.sumint/recurrence", b.pos(fn), fc, rv, env, []recSpec{{"sum", "0", "sum+x"}})
			if vars != nil {
				b.EqRF(rB, "stats.sumint/result", b.pos(fn), rv, vars["sum"], "returns the sum")
				b.FullScan("C-scan coverage", "stats.sumint/all", b.pos(fn), fc, i, S.MakeFn("len", env.Vars["xs"].RF))
			}
		})
	}
}
