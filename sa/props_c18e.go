package main

import (
	"fmt"
	"go/types"
	"math/big"
	"strings"

	"golang.org/x/tools/go/ssa"
)

// propC18scc: Tarjan's algorithm as the source presents it (Sedgewick's form with pre and low
// merged), clause by clause on the extracted conditions, stores and loop-carried values of SCC
// and its recursive closure. What is decided is conformance of each step to the stated form —
// not that the steps together compute the strongly connected components (that is the
// algorithm's own proof and stays undecided).
func propC18scc(a *Analysis, r *Registry, b *B) {
	X := b.X
	S := X.S
	const rB = "B-C18 scc"
	outer := b.Fn(rB, "graph/graphalg.SCC")
	fn := b.Fn(rB, "graph/graphalg.SCC$1")
	if outer == nil || fn == nil {
		return
	}
	name := "graph/graphalg.SCC"
	b.guard(rB, name+"/connect", func() {
		fc := X.FCFor(fn)
		ofc := X.FCFor(outer)
		nid := X.ParamRF(fn, 0)
		g := X.ParamRF(outer, 0)
		flags := X.ParamRF(outer, 1)
		maxU := S.Const(ratFromUint64(^uint64(0)))
		if maxIntOf(a) == "2147483647" {
			maxU = S.Const(ratFromUint64(uint64(^uint32(0)))) // 32-bit uint (the GOARCH=386 pass)
		}
		type ifRec struct {
			in *ssa.If
			c  *RF
		}
		type stRec struct {
			st        *ssa.Store
			addr, val *RF
		}
		collect := func(fc *FC) ([]ifRec, []stRec) {
			var ifs []ifRec
			var sts []stRec
			fc.Ctx.Instrs(func(in ssa.Instruction) {
				defer func() { recover() }()
				switch v := in.(type) {
				case *ssa.If:
					ifs = append(ifs, ifRec{v, fc.Val(v.Cond)})
				case *ssa.Store:
					sts = append(sts, stRec{v, fc.Val(v.Addr), fc.Val(v.Val)})
				}
			})
			return ifs, sts
		}
		ifs, sts := collect(fc)
		oifs, osts := collect(ofc)
		where := b.pos(fn)
		pinnedShape := false // the pop-from-the-top shape of the pinned tree (set below)

		// --- flags: SCCEdges implies SCCSubnodeComponent, and every later test reads the flags so completed
		edgesBit, compBit := int64(2), int64(1)
		if c := a.W.Lib["graph/graphalg"]; c != nil {
			if m, ok := c.Members["SCCEdges"].(*ssa.NamedConst); ok {
				edgesBit = m.Value.Int64()
			}
			if m, ok := c.Members["SCCSubnodeComponent"].(*ssa.NamedConst); ok {
				compBit = m.Value.Int64()
			}
		}
		bit := func(v *RF, k int64) []*RF {
			// the forms the extractor gives `v&k != 0`
			alts := []*RF{S.Cmp("!=", S.Int(0), S.MakeFn("and", v, S.Int(k)))}
			if k == 1 {
				alts = append(alts, S.Cmp("!=", S.Int(0), S.MakeFn("imod", v, S.Int(2))))
			}
			return alts
		}
		eff := S.Ite(S.Cmp("==", S.Int(0), S.MakeFn("and", flags, S.Int(edgesBit))), flags, S.MakeFn("or", flags, S.Int(compBit)))
		isBit := func(c *RF, v *RF, k int64) bool {
			for _, alt := range bit(v, k) {
				if c.Equal(alt) {
					return true
				}
			}
			return false
		}
		// (a test of the bit in either polarity: `flags&F == 0 → return` guards the same block)
		isBitTest := func(c *RF, v *RF, k int64) bool {
			return isBit(c, v, k) || isBit(S.Not(c), v, k)
		}
		nFlag, badFlag := 0, ""
		for _, set := range [][]ifRec{ifs, oifs} {
			for _, f := range set {
				if len(FindAtomID(f.c, flags.SingleAtom().ID)) == 0 {
					continue
				}
				nFlag++
				switch {
				case isBit(f.c, flags, edgesBit) && f.in.Parent() == outer:
					// the completion test itself (before the flags are completed)
				case isBit(f.c, eff, edgesBit), isBit(f.c, eff, compBit):
				case (isBitTest(f.c, eff, edgesBit) || isBitTest(f.c, eff, compBit)) && func() bool {
					// the negated test as a guard clause: `if flags&F == 0 { return }`
					tb := f.in.Block().Succs[0]
					_, isRet := tb.Instrs[len(tb.Instrs)-1].(*ssa.Return)
					return isRet && len(tb.Instrs) <= 2
				}():
				default:
					if !strings.Contains(f.c.String(), "land(") && !strings.Contains(f.c.String(), "lor(") {
						badFlag = a.W.InstrPos(f.in) + ": " + clip(f.c.String(), 160)
					}
				}
			}
		}
		if badFlag != "" || nFlag < 4 {
			r.Fail(rB, name+"/flags", where, fmt.Sprintf("a flag test is not a bit test of the flags completed by `SCCEdges implies SCCSubnodeComponent` (%d tests seen): %s", nFlag, badFlag))
		} else {
			r.OK(rB, name+"/flags", where, fmt.Sprintf("SCCEdges implies SCCSubnodeComponent; all %d flag tests are bit tests of the completed flags", nFlag))
		}

		// --- the low slice and the shared cells
		var low *RF
		for _, s := range sts {
			if at := s.addr.SingleAtom(); at != nil && at.Name == "&idx" && at.Args[1].Equal(nid) && strings.HasPrefix(s.val.String(), "fv:") {
				low = at.Args[0]
				idxCell := s.val
				// numbering: low[nid] = index; index = index+1, both before anything else can run
				okInc := false
				for _, s2 := range sts {
					if strings.HasPrefix(s2.addr.String(), "fvptr:") && s2.val.Equal(idxCell.Add(S.Int(1))) && s2.st.Block() == fn.Blocks[0] {
						okInc = true
					}
				}
				if s.st.Block() == fn.Blocks[0] && okInc {
					r.OK(rB, name+"/connect/numbering", a.W.InstrPos(s.st), "on entry low[nid] takes the next index and the index advances by one")
				} else {
					r.Fail(rB, name+"/connect/numbering", a.W.InstrPos(s.st), "low[nid] = index; index++ is not done on entry")
				}
			}
		}
		if low == nil {
			r.Fail(rB, name+"/connect/numbering", where, "no store low[nid] = index on entry")
			return
		}
		lowAt := func(i *RF) *RF { return S.MakeFn("idx", low, i) }
		// index starts above 0 (0 means "not visited")
		func() {
			var mc *ssa.MakeClosure
			ofc.Ctx.Instrs(func(in ssa.Instruction) {
				if m, ok := in.(*ssa.MakeClosure); ok && m.Fn == ssa.Value(fn) {
					mc = m
				}
			})
			if mc == nil {
				return
			}
			for i, fv := range fn.FreeVars {
				if fv.Name() != "index" || i >= len(mc.Bindings) {
					continue
				}
				n, okv := 0, false
				for _, s := range osts {
					if s.st.Addr == mc.Bindings[i] {
						n++
						if c, isC := s.val.IsConst(); isC && c.Sign() > 0 {
							okv = true
						}
					}
				}
				if n == 1 && okv {
					r.OK(rB, name+"/index-starts-positive", b.pos(outer), "the first index is positive: 0 stays free to mean `not visited`")
				} else {
					r.Fail(rB, name+"/index-starts-positive", b.pos(outer), "the index counter is not initialised once to a positive constant (low == 0 means `not visited`)")
				}
			}
		}()

		// the node is pushed on entry
		pushed := false
		for _, s := range sts {
			if s.st.Block() == fn.Blocks[0] && strings.HasPrefix(s.addr.String(), "fvptr:") && strings.HasPrefix(s.val.String(), "builtin:append(fv:") {
				pushed = true
			}
		}
		if pushed {
			r.OK(rB, name+"/connect/push", where, "the node is pushed on the stack on entry")
		} else {
			r.Fail(rB, name+"/connect/push", where, "the node is not pushed on the stack on entry")
		}
		// what exists only under a flag is written only under that flag: subnodeComponent under
		// SCCSubnodeComponent, out and outIndexes under SCCEdges (in connect and in the driver)
		nGuarded := map[string]int{}
		defer func() {
			// each of them is written at all: in connect and in the driver (make / final sentinel)
			for _, set := range [][]stRec{sts, osts} {
				for _, s := range set {
					// (the start index of every component in connect, the final sentinel in the driver)
					if strings.Contains(s.val.String(), "builtin:append(fld:SCCGraph.subnodeIndexes(") || strings.HasPrefix(s.addr.String(), "&fld:SCCGraph.1(") {
						nGuarded["subnodeIndexes"]++
					}
				}
			}
			for what, floor := range map[string]int{"subnodeComponent": 2, "out": 2, "outIndexes": 2, "subnodeIndexes": 2} {
				if nGuarded[what] >= floor {
					r.OK(rB, name+"/flag-guards/"+what+"/present", where, fmt.Sprintf("%d writes under the flag", nGuarded[what]))
				} else if pinnedShape {
					r.Fail(rB, name+"/flag-guards/"+what+"/present", where, fmt.Sprintf("expected at least %d writes of sccs.%s under its flag (in connect and in the driver), found %d", floor, what, nGuarded[what]))
				}
			}
		}()
		for _, set := range []struct {
			fc  *FC
			sts []stRec
		}{{fc, sts}, {ofc, osts}} {
			for _, s := range set.sts {
				as := s.addr.String()
				need, what := int64(0), ""
				switch {
				case strings.HasPrefix(as, "&fld:SCCGraph.2(") || strings.HasPrefix(as, "&idx(fld:SCCGraph.subnodeComponent("):
					need, what = compBit, "subnodeComponent"
				case strings.HasPrefix(as, "&fld:SCCGraph.3(") || strings.HasPrefix(as, "&idx(fld:SCCGraph.out("):
					need, what = edgesBit, "out"
				case strings.HasPrefix(as, "&fld:SCCGraph.4("):
					need, what = edgesBit, "outIndexes"
				}
				if need == 0 {
					continue
				}
				ok := false
				for _, alt := range bit(eff, need) {
					if set.fc.HoldsAt(s.st.Block(), alt) {
						ok = true
					}
				}
				if need == compBit {
					// (SCCEdges implies SCCSubnodeComponent)
					for _, alt := range bit(eff, edgesBit) {
						if set.fc.HoldsAt(s.st.Block(), alt) {
							ok = true
						}
					}
				}
				nGuarded[what]++
				if ok {
					r.OK(rB, fmt.Sprintf("%s/flag-guards/%s#%d", name, what, nGuarded[what]), a.W.InstrPos(s.st), "written only under its flag")
				} else {
					r.Fail(rB, name+"/flag-guards/"+what, a.W.InstrPos(s.st), "sccs."+what+" is written without its flag being known set (it exists only under that flag)")
				}
			}
		}
		// --- successor loop: every successor, min = least low seen
		var oid, minV *RF
		for _, f := range ifs {
			if at := f.c.SingleAtom(); at != nil && at.Name == "cmp==" && at.Args[0].Equal(S.Int(0)) {
				if ia := at.Args[1].SingleAtom(); ia != nil && ia.Name == "idx" && ia.Args[0].Equal(low) && !ia.Args[1].Equal(nid) {
					oid = ia.Args[1]
				}
			}
		}
		if oid == nil {
			r.Fail(rB, name+"/connect/successors", where, "no test low[oid] == 0 on a successor")
			return
		}
		if oa := oid.SingleAtom(); oa != nil && oa.Name == "idx" {
			b.EqRF(rB, name+"/connect/successors/of", where, oa.Args[0], S.MakeFn("call:Out", g, nid), "the successors gone through are g.Out(nid)")
			b.FullScan("C-scan coverage", name+"/connect/successors/all", where, fc, oa.Args[1], S.MakeFn("len", oa.Args[0]))
		}
		for _, f := range ifs {
			if at := f.c.SingleAtom(); at != nil && at.Name == "cmp<" && at.Args[0].Equal(lowAt(oid)) {
				minV = at.Args[1]
			}
		}
		if minV == nil {
			// (min kept with the builtin: no branch — the value carried round the successor loop
			// that starts at the node's index)
			if oa := oid.SingleAtom(); oa != nil && oa.Name == "idx" {
				for _, ph := range fc.loopPhis(oa.Args[1]) {
					pa := ph.SingleAtom()
					if pa == nil || X.phiOf[pa.ID] == nil {
						continue
					}
					for _, in := range X.phiOf[pa.ID].Block().Instrs {
						hp, ok := in.(*ssa.Phi)
						if !ok {
							break
						}
						if hi, _ := recurrenceOrNil(fc, fc.Val(hp)); hi != nil && strings.HasPrefix(hi.String(), "fv:") {
							minV = fc.Val(hp)
						}
					}
				}
			}
		}
		if minV == nil {
			r.Fail(rB, name+"/connect/min", where, "no test low[oid] < min")
			return
		}
		mi, mn := recurrenceOrNil(fc, minV)
		if mi == nil {
			r.Fail(rB, name+"/connect/min", where, "min is not carried round the successor loop")
		} else {
			if strings.HasPrefix(mi.String(), "fv:") {
				r.OK(rB, name+"/connect/min-init", where, "min starts at the node's own index")
			} else {
				r.Fail(rB, name+"/connect/min-init", where, "min does not start at the node's own index: "+clip(mi.String(), 100))
			}
			b.EqRF(rB, name+"/connect/min-step", where, mn, S.Ite(S.Cmp("<", lowAt(oid), minV), lowAt(oid), minV), "min becomes low[oid] exactly when that is smaller")
		}
		// --- root test: min < low[nid] → low[nid] = min and return
		rootOK := false
		for _, f := range ifs {
			if f.c.Equal(S.Cmp("<", minV, lowAt(nid))) {
				tb := f.in.Block().Succs[0]
				for _, s := range sts {
					if s.st.Block() == tb && s.addr.Equal(S.MakeFn("&idx", low, nid)) && s.val.Equal(minV) {
						if _, isRet := tb.Instrs[len(tb.Instrs)-1].(*ssa.Return); isRet {
							rootOK = true
						}
					}
				}
			}
		}
		if rootOK {
			r.OK(rB, name+"/connect/not-a-root", where, "when min < low[nid] the node is not a root: low[nid] = min and return")
		} else {
			r.Fail(rB, name+"/connect/not-a-root", where, "no `if min < low[nid] { low[nid] = min; return }` after the successors")
		}

		// --- popping the component
		var popI *RF
		var stackV *RF
		for _, s := range sts {
			if at := s.addr.SingleAtom(); at != nil && at.Name == "&idx" && at.Args[0].Equal(low) && s.val.Equal(maxU) {
				if ia := at.Args[1].SingleAtom(); ia != nil && ia.Name == "idx" {
					stackV, popI = ia.Args[0], ia.Args[1]
					when := fc.ReachCondFrom(loopBodyEntry(fc, s.st.Block()), s.st.Block())
					b.EqRF(rB, name+"/connect/pop/marks-processed", a.W.InstrPos(s.st), when, S.True(), "every popped node gets low = ^uint(0) (processed; never below any min)")
				}
			}
		}
		if popI == nil {
			r.Fail(rB, name+"/connect/pop", where, "no store low[stack[i]] = ^uint(0) in a pop loop")
			return
		}
		pi, pn := recurrenceOrNil(fc, popI)
		pinnedPop := pi != nil && pi.Equal(S.MakeFn("len", stackV).Sub(S.Int(1)))
		if !pinnedPop {
			pi = nil
		}
		pinnedShape = pinnedPop
		// a pop that walks the stack itself downward must start at its top
		if !pinnedPop && strings.HasPrefix(stackV.String(), "fv:") {
			if qi, qn := recurrenceOrNil(fc, popI); qi != nil && qn.Equal(popI.Sub(S.Int(1))) {
				r.Fail(rB, name+"/connect/pop/from-top", where, "the pop loop walks the stack downward but does not start at its top: it starts at "+clip(qi.String(), 80))
			}
		}
		if pi == nil {
			// the component is marked by another kind of loop (e.g. forward over stack[base:] after
			// the root's position was searched): the clauses below are stated on the pop-from-the-top
			// shape only
		} else {
			b.EqRF(rB, name+"/connect/pop/from-top", where, pi, S.MakeFn("len", stackV).Sub(S.Int(1)), "popping starts at the top of the stack")
			b.EqRF(rB, name+"/connect/pop/step", where, pn, popI.Sub(S.Int(1)), "and goes down one node at a time")
			if pa := popI.SingleAtom(); pa != nil && X.phiOf[pa.ID] != nil {
				if _, guard, _, msg := b.loopGuard(fc, X.phiOf[pa.ID].Block()); msg == "" {
					b.EqRF(rB, name+"/connect/pop/while", where, guard, S.Cmp("<=", S.Int(0), popI), "down to and including the bottom of the stack")
				}
			}
		}
		stopOK := false
		for _, f := range ifs {
			if f.c.Equal(S.Cmp("==", S.MakeFn("idx", stackV, popI), nid)) || f.c.Equal(S.Cmp("==", nid, S.MakeFn("idx", stackV, popI))) {
				lp := fc.Ctx.LoopOf(f.in.Block())
				if lp != nil && !lp.Body[f.in.Block().Succs[0].Index] {
					stopOK = true
				}
			}
		}
		if stopOK {
			r.OK(rB, name+"/connect/pop/until-root", where, "popping stops at the root itself (stack[i] == nid), which is included")
		} else if pinnedPop {
			r.Fail(rB, name+"/connect/pop/until-root", where, "the pop loop is not left exactly when stack[i] == nid")
		}
		// component id and the three records
		sccsP := ""
		var cidOK, idxOK, subOK, cutOK bool
		for _, s := range sts {
			as, vs := s.addr.String(), s.val.String()
			if at := s.addr.SingleAtom(); at != nil && at.Name == "&idx" {
				if ba := at.Args[0].SingleAtom(); ba != nil && ba.Name == "fld:SCCGraph.subnodeComponent" && at.Args[1].Equal(S.MakeFn("idx", stackV, popI)) {
					sccsP = ba.Args[0].String()
					if s.val.Equal(S.MakeFn("len", S.MakeFn("fld:SCCGraph.subnodeIndexes", ba.Args[0]))) {
						for _, alt := range bit(eff, compBit) {
							if fc.HoldsAt(s.st.Block(), alt) {
								cidOK = true
							}
						}
					}
				}
			}
			if strings.Contains(vs, "builtin:append(fld:SCCGraph.subnodeIndexes(") {
				idxOK = true
			}
			if strings.Contains(vs, "builtin:append(fld:SCCGraph.subnodes(") && s.val.SingleAtom() != nil && len(s.val.SingleAtom().Args) == 2 {
				if s.val.SingleAtom().Args[1].Equal(S.MakeFn("slice", stackV, popI, S.Var("_", false), S.Var("_", false))) || strings.HasPrefix(s.val.SingleAtom().Args[1].String(), "slice("+stackV.String()+", "+popI.String()+",") {
					subOK = true
				}
			}
			if strings.HasPrefix(as, "fvptr:") && strings.HasPrefix(vs, "slice("+stackV.String()+", _, "+popI.String()+",") {
				cutOK = true
			}
		}
		_ = sccsP
		for _, c := range []struct {
			ok       bool
			tag, msg string
		}{
			{cidOK, "component-id", "under SCCSubnodeComponent every popped node is given the id len(subnodeIndexes) — the number of components recorded so far"},
			{idxOK, "records-start", "the component's start index is appended to subnodeIndexes"},
			{subOK, "records-nodes", "the popped nodes stack[i:] are appended to subnodes"},
			{cutOK, "cuts-stack", "the stack is cut back to stack[:i]"},
		} {
			if c.ok {
				r.OK(rB, name+"/connect/pop/"+c.tag, where, c.msg)
			} else if pinnedPop {
				// (with the pop-from-the-top loop present, its companions must be there too; in any
				// other shape these clauses are not stated)
				r.Fail(rB, name+"/connect/pop/"+c.tag, where, "not found: "+c.msg)
			}
		}
		// index values recorded in subnodeIndexes: len(subnodes) at that moment
		for _, s := range sts {
			if strings.Contains(s.addr.String(), "alloc:") && s.val.Equal(S.MakeFn("len", S.MakeFn("fld:SCCGraph.subnodes", S.Var("x", false)))) {
				_ = s
			}
		}

		// --- out-edges: pushed for successors already in another component
		pushOK := false
		for _, f := range ifs {
			if f.c.Equal(S.Cmp("==", maxU, lowAt(oid))) || f.c.Equal(S.Cmp("==", lowAt(oid), maxU)) {
				for _, s := range sts {
					if va := s.val.SingleAtom(); va != nil && va.Name == "mk:outEdge" && len(va.Args) == 2 {
						if ca := va.Args[0].SingleAtom(); ca != nil && ca.Name == "idx" && ca.Args[1].Equal(oid) && strings.HasPrefix(ca.Args[0].String(), "fld:SCCGraph.subnodeComponent(") {
							when := fc.ReachCondFrom(loopBodyEntry(fc, s.st.Block()), s.st.Block())
							want1 := S.And(bit(eff, edgesBit)[0], S.Cmp("==", maxU, lowAt(oid)))
							if when.Equal(want1) || X.EquivByCases(when, want1, 0) {
								pushOK = true
							}
						}
					}
				}
			}
		}
		if pushOK {
			r.OK(rB, name+"/connect/out-edge-push", where, "an out-edge {component of oid, stack height on entry} is pushed exactly under SCCEdges for a successor already in a finished component")
		} else {
			r.Fail(rB, name+"/connect/out-edge-push", where, "out-edges are not pushed exactly for successors with low == ^uint(0) under SCCEdges, carrying the successor's component id")
		}
		// collecting: from the top of `out` down while the edge belongs to this component
		for _, f := range ifs {
			if len(FindFn(f.c, "fld:outEdge.stackLen")) == 0 {
				continue
			}
			okForm := false
			for _, cj := range conjuncts(f.c) {
				core, neg := cj, false
				if na := cj.SingleAtom(); na != nil && na.Name == "not" {
					core, neg = na.Args[0], true
				}
				if at := core.SingleAtom(); at != nil {
					sl := at.Args[0].SingleAtom()
					// stops at `stackLen < len(stack)`; equivalently goes on while `len(stack) <= stackLen`
					if at.Name == "cmp<" && !neg && sl != nil && sl.Name == "fld:outEdge.stackLen" && strings.HasPrefix(at.Args[1].String(), "len(") {
						okForm = true
					}
					if at.Name == "cmp<" && neg && sl != nil && sl.Name == "fld:outEdge.stackLen" && strings.HasPrefix(at.Args[1].String(), "len(") {
						okForm = true // written as the loop's continue condition !(stackLen < len)
					}
					if at.Name == "cmp<=" && !neg && strings.HasPrefix(at.Args[0].String(), "len(") {
						if s2 := at.Args[1].SingleAtom(); s2 != nil && s2.Name == "fld:outEdge.stackLen" {
							okForm = true // `out[k].stackLen >= len(stack)` as a continue condition
						}
					}
				}
			}
			if !okForm {
				r.Fail(rB, name+"/connect/collect/boundary", a.W.InstrPos(f.in), "an out-edge belongs to the component being closed exactly when it was pushed at or above the cut stack height (stackLen >= len(stack)); the test here is "+clip(f.c.String(), 160))
			}
		}
		var colJ, outV *RF
		for _, f := range ifs {
			if at := f.c.SingleAtom(); at != nil && at.Name == "cmp<" {
				if fa := at.Args[0].SingleAtom(); fa != nil && fa.Name == "fld:outEdge.stackLen" {
					if ia := fa.Args[0].SingleAtom(); ia != nil && ia.Name == "idx" {
						outV, colJ = ia.Args[0], ia.Args[1]
						lp := fc.Ctx.LoopOf(f.in.Block())
						if lp != nil && !lp.Body[f.in.Block().Succs[0].Index] && strings.HasPrefix(at.Args[1].String(), "len(") {
							r.OK(rB, name+"/connect/collect/until-older", a.W.InstrPos(f.in), "collection stops at the first out-edge pushed below the (cut) stack height")
						} else {
							r.Fail(rB, name+"/connect/collect/until-older", a.W.InstrPos(f.in), "the collection loop is not left when out[i].stackLen < len(stack)")
						}
					}
				}
			}
		}
		if colJ != nil {
			ji, jn := recurrenceOrNil(fc, colJ)
			if ji == nil {
				r.Fail(rB, name+"/connect/collect/index", where, "the collection position is not a loop counter")
			} else {
				b.EqRF(rB, name+"/connect/collect/from-top", where, ji, S.MakeFn("len", outV).Sub(S.Int(1)), "collection starts at the top of the out-edge stack")
				b.EqRF(rB, name+"/connect/collect/step", where, jn, colJ.Sub(S.Int(1)), "and goes down one edge at a time")
				if ca := colJ.SingleAtom(); ca == nil || X.phiOf[ca.ID] == nil {
				} else if _, guard, _, msg := b.loopGuard(fc, X.phiOf[ca.ID].Block()); msg == "" {
					// (the first test of the body may share the loop's exit and so appear in the guard)
					if ga := guard.SingleAtom(); ga != nil && ga.Name == "land" {
						for _, cj := range ga.Args {
							if cj.Equal(S.Cmp("<=", S.Int(0), colJ)) {
								guard = cj
							}
						}
					}
					b.EqRF(rB, name+"/connect/collect/while", where, guard, S.Cmp("<=", S.Int(0), colJ), "down to and including the bottom of the out-edge stack")
				}
			}
			appOK, cutOut := false, false
			for _, s := range sts {
				if s.val.Equal(S.MakeFn("fld:outEdge.cid", S.MakeFn("idx", outV, colJ))) {
					appOK = true
				}
				if strings.HasPrefix(s.addr.String(), "fvptr:") && strings.HasPrefix(s.val.String(), "slice("+outV.String()+", _, 1 + "+colJ.String()+",") {
					cutOut = true
				}
			}
			if appOK && cutOut {
				r.OK(rB, name+"/connect/collect/moves", where, "each collected edge's component id is appended to sccs.out and the out-edge stack is cut to out[:i+1]")
			} else {
				r.Fail(rB, name+"/connect/collect/moves", where, "collected edges are not appended by cid and removed from the out-edge stack (out = out[:i+1])")
			}
		} else if pinnedPop {
			anyTest := false
			for _, f := range ifs {
				if len(FindFn(f.c, "fld:outEdge.stackLen")) > 0 {
					anyTest = true
				}
			}
			if !anyTest {
				r.Fail(rB, name+"/connect/collect", where, "no collection loop over the out-edge stack (no test of an out-edge's stackLen against the stack height)")
			}
		}
		// dedup: keep out[j] when it is the first or differs from the last kept
		var di, dj, outS *RF
		for _, s := range sts {
			if at := s.addr.SingleAtom(); at != nil && at.Name == "&idx" && strings.HasPrefix(at.Args[0].String(), "fld:SCCGraph.out(") {
				if va := s.val.SingleAtom(); va != nil && va.Name == "idx" && va.Args[0].Equal(at.Args[0]) {
					outS, di, dj = at.Args[0], at.Args[1], va.Args[1]
					when := fc.ReachCondFrom(loopBodyEntry(fc, s.st.Block()), s.st.Block())
					ii, in := recurrenceOrNil(fc, di)
					ji, jn := recurrenceOrNil(fc, dj)
					if ii == nil || ji == nil {
						r.Fail(rB, name+"/connect/dedup", a.W.InstrPos(s.st), "the dedup positions are not loop counters")
						continue
					}
					ne := S.Cmp("!=", S.MakeFn("idx", outS, di.Sub(S.Int(1))), S.MakeFn("idx", outS, dj))
					keep := S.Or(S.Cmp("==", ii, di), ne)
					keep2 := S.Or(S.Cmp("<=", di, ii), ne) // (the write position never falls below the start)
					if when.Equal(keep) || X.EquivByCases(when, keep, 0) || when.Equal(keep2) || X.EquivByCases(when, keep2, 0) {
						r.OK(rB, name+"/connect/dedup/keep-when", a.W.InstrPos(s.st), "an id is kept exactly when it is the first of this component or differs from the last one kept")
					} else {
						r.Fail(rB, name+"/connect/dedup/keep-when", a.W.InstrPos(s.st), "an id is kept when "+clip(when.String(), 160)+", not exactly when it is the first or differs from the last kept")
					}
					b.EqRF(rB, name+"/connect/dedup/write-step", a.W.InstrPos(s.st), in, S.Ite(when, di.Add(S.Int(1)), di), "the write position advances exactly when an id is kept")
					b.EqRF(rB, name+"/connect/dedup/read-step", a.W.InstrPos(s.st), jn, dj.Add(S.Int(1)), "the read position advances by one")
					b.EqRF(rB, name+"/connect/dedup/same-start", a.W.InstrPos(s.st), ji, ii, "both positions start at this component's first out-edge")
					if da := dj.SingleAtom(); da == nil || X.phiOf[da.ID] == nil {
					} else if _, guard, _, msg := b.loopGuard(fc, X.phiOf[da.ID].Block()); msg == "" {
						b.EqRF(rB, name+"/connect/dedup/while", a.W.InstrPos(s.st), guard, S.Cmp("<", dj, S.MakeFn("len", outS)), "every collected id is read")
					}
				}
			}
		}
		if di == nil && pinnedPop {
			anyStore := false
			for _, s := range sts {
				if as := s.addr.String(); strings.HasPrefix(as, "&idx(") && strings.Contains(as, "fld:SCCGraph.out(") {
					anyStore = true
				}
			}
			if !anyStore {
				r.Fail(rB, name+"/connect/dedup", where, "no compaction of the component's out-edge ids (no store into an element of sccs.out)")
			}
		}
		if di != nil {
			sorted, trunc := false, false
			for _, c := range fc.CallsTo("sort.Ints") {
				if strings.HasPrefix(fc.Val(c.Call.Args[0]).String(), "slice("+outS.String()+",") {
					sorted = true
				}
			}
			for _, s := range sts {
				if strings.HasPrefix(s.val.String(), "slice("+outS.String()+", _, "+di.String()+",") {
					trunc = true
				}
			}
			if sorted && trunc {
				r.OK(rB, name+"/connect/dedup/sorted-and-cut", where, "the component's ids are sorted before the compaction and sccs.out is cut to the ids kept")
			} else {
				r.Fail(rB, name+"/connect/dedup/sorted-and-cut", where, "the component's ids are not sorted before, or sccs.out not cut after, the compaction")
			}
		}

		// --- the driver: every node, connect exactly when not yet visited
		var drvN *RF
		for _, f := range oifs {
			if at := f.c.SingleAtom(); at != nil && (at.Name == "cmp==" || at.Name == "cmp!=") && at.Args[0].Equal(S.Int(0)) {
				if ia := at.Args[1].SingleAtom(); ia != nil && ia.Name == "idx" && ia.Args[0].Equal(low) {
					drvN = ia.Args[1]
				}
			}
		}
		if drvN != nil {
			// connect(nid) is reached exactly for nodes not yet visited
			okCall := false
			ofc.Ctx.Instrs(func(in ssa.Instruction) {
				c, ok := in.(*ssa.Call)
				if !ok || ofc.Ctx.LoopOf(c.Block()) == nil || c.Call.StaticCallee() != nil {
					return
				}
				if _, isB := c.Call.Value.(*ssa.Builtin); isB || len(c.Call.Args) != 1 || !ofc.Val(c.Call.Args[0]).Equal(drvN) {
					return
				}
				if ofc.HoldsAt(c.Block(), S.Cmp("==", S.Int(0), lowAt(drvN))) {
					okCall = true
				}
			})
			if okCall {
				r.OK(rB, name+"/driver/when", b.pos(outer), "connect(nid) is called exactly for nodes with low[nid] == 0")
			} else {
				r.Fail(rB, name+"/driver/when", b.pos(outer), "connect(nid) is not called exactly when low[nid] == 0")
			}
		}
		if drvN == nil {
			r.Fail(rB, name+"/driver", b.pos(outer), "no test low[nid] == 0 before connect(nid)")
		} else {
			b.FullScan("C-scan coverage", name+"/driver/all-nodes", b.pos(outer), ofc, drvN, S.MakeFn("call:NumNodes", g))
		}
	})
}

func ratFromUint64(u uint64) *big.Rat {
	return new(big.Rat).SetInt(new(big.Int).SetUint64(u))
}

// fprintfArgs: the format string and the values handed to a fmt.Fprintf call (through the
// variadic array go/ssa builds), or nil.
func fprintfArgs(fc *FC, c *ssa.Call) (string, []ssa.Value) {
	if len(c.Call.Args) < 2 {
		return "", nil
	}
	f, ok := c.Call.Args[1].(*ssa.Const)
	if !ok || f.Value == nil {
		return "", nil
	}
	format := strings.Trim(f.Value.ExactString(), "\"")
	if len(c.Call.Args) < 3 {
		return format, nil
	}
	sl, ok := c.Call.Args[2].(*ssa.Slice)
	if !ok {
		return format, nil
	}
	al, ok := sl.X.(*ssa.Alloc)
	if !ok {
		return format, nil
	}
	vals := map[int64]ssa.Value{}
	for _, ref := range *al.Referrers() {
		ia, ok := ref.(*ssa.IndexAddr)
		if !ok {
			continue
		}
		k, ok := ia.Index.(*ssa.Const)
		if !ok {
			continue
		}
		for _, r2 := range *ia.Referrers() {
			if st, ok := r2.(*ssa.Store); ok {
				v := st.Val
				if mi, ok := v.(*ssa.MakeInterface); ok {
					v = mi.X
				}
				vals[k.Int64()] = v
			}
		}
	}
	var out []ssa.Value
	for i := int64(0); i < int64(len(vals)); i++ {
		out = append(out, vals[i])
	}
	return format, out
}

// propC18dot (and Sprint = Fprint into a builder): Dot.Fprint names every node and every edge once — the node line is written for
// i = 0 … NumNodes()-1, the edge line for every position of g.Out(i) with that node and that
// target; a write error (and nothing else) ends the output early; the default label is used
// exactly when none is configured.
func propC18dot(a *Analysis, r *Registry, b *B) {
	X := b.X
	S := X.S
	const rB = "B-C18 dot"
	fn := b.Fn(rB, "graph/graphout.(Dot).Fprint")
	if fn == nil {
		return
	}
	name := "graph/graphout.(Dot).Fprint"
	if sp := b.Fn(rB, "graph/graphout.(Dot).Sprint"); sp != nil {
		b.guard(rB, "graph/graphout.(Dot).Sprint", func() {
			sfc := X.FCFor(sp)
			calls := sfc.CallsTo("graph/graphout.(Dot).Fprint")
			if len(calls) == 1 && sfc.ReachCond(calls[0].Block()).Equal(S.True()) && sfc.Val(calls[0].Call.Args[0]).Equal(X.ParamRF(sp, 0)) && sfc.Val(calls[0].Call.Args[2]).Equal(X.ParamRF(sp, 1)) {
				r.OK(rB, "graph/graphout.(Dot).Sprint", b.pos(sp), "Sprint is d.Fprint(g) into a buffer")
			} else {
				r.Fail(rB, "graph/graphout.(Dot).Sprint", b.pos(sp), "Sprint does not call d.Fprint on the same d and g unconditionally")
			}
		})
	}
	b.guard(rB, name, func() {
		fc := X.FCFor(fn)
		g := X.ParamRF(fn, 2)
		nNode, nEdge := 0, 0
		for _, c := range fc.CallsTo("fmt.Fprintf") {
			format, vals := fprintfArgs(fc, c)
			where := a.W.InstrPos(c)
			switch {
			case strings.Contains(format, "->") && len(vals) >= 2:
				nEdge++
				i, tgt := fc.Val(vals[0]), fc.Val(vals[1])
				ta := tgt.SingleAtom()
				if ta == nil || ta.Name != "idx" {
					r.Fail(rB, name+"/edge-line/target", where, "the target written is not an element of g.Out(i): "+clip(tgt.String(), 120))
					continue
				}
				b.EqRF(rB, name+"/edge-line/of", where, ta.Args[0], S.MakeFn("call:Out", g, i), "the edges written for node i are g.Out(i)")
				b.FullScan("C-scan coverage", name+"/edge-line/every-edge", where, fc, ta.Args[1], S.MakeFn("len", ta.Args[0]))
				b.FullScan("C-scan coverage", name+"/edge-line/every-node", where, fc, i, S.MakeFn("call:NumNodes", g))
			case strings.HasPrefix(format, "n%d") && len(vals) >= 1:
				nNode++
				i := fc.Val(vals[0])
				b.FullScan("C-scan coverage", name+"/node-line/every-node", where, fc, i, S.MakeFn("call:NumNodes", g))
				// written in every iteration: its block dominates every way back to the loop's head
				// of the outermost loop it is in
				var lp *Loop
				for _, l := range fc.Ctx.Loops() {
					if l.Body[c.Block().Index] && (lp == nil || len(l.Body) > len(lp.Body)) {
						lp = l
					}
				}
				every := lp != nil && len(lp.Latch) > 0
				if lp != nil {
					for _, lt := range lp.Latch {
						if !fc.Ctx.Dominates(c.Block(), lt) {
							every = false
						}
					}
				}
				if every {
					r.OK(rB, name+"/node-line/always", where, "the node line is written in every iteration")
				} else {
					r.Fail(rB, name+"/node-line/always", where, "an iteration over the nodes can complete without writing the node's line")
				}
			}
		}
		if nNode != 1 || nEdge != 1 {
			r.Fail(rB, name+"/lines", b.pos(fn), fmt.Sprintf("expected one node line and one edge line, found %d/%d", nNode, nEdge))
		}
		// the default label: appended exactly when the node's own attributes have none, and
		// computed by the configured label function, or defaultLabel when there is none
		for _, c := range fc.CallsTo("builtin:append") {
			vals := fc.AppendedValues(c)
			if len(vals) != 1 {
				continue
			}
			va := vals[0].SingleAtom()
			if va == nil || va.Name != "mk:DotAttr" || len(va.Args) != 2 {
				continue
			}
			where := a.W.InstrPos(c)
			env := X.EnvFor(fn, "d", "w", "g")
			lf := va.Args[1].SingleAtom()
			if lf != nil && lf.Name == "ite" && len(lf.Args) == 3 && lf.Args[0].Equal(env.MustParse("d.Label==nil")) {
				// (defaultLabel written out where it is called)
				ea := lf.Args[2].SingleAtom()
				if ea != nil && ea.Name == "apply" && ea.Args[0].Equal(env.MustParse("d.Label")) && len(FindAtomID(lf.Args[1], env.MustParse("d.Label").SingleAtom().ID)) == 0 {
					r.OK(rB, name+"/default-label/function", where, "the label is d.Label(i), or defaultLabel(i) when d.Label is nil")
				} else {
					r.Fail(rB, name+"/default-label/function", where, "the label is not d.Label(i) with defaultLabel(i) for a nil d.Label: "+clip(va.Args[1].String(), 160))
				}
			} else if lf == nil || lf.Name != "apply" {
				r.Fail(rB, name+"/default-label/value", where, "the label appended is not the result of the label function: "+clip(va.Args[1].String(), 120))
			} else {
				b.EqRF(rB, name+"/default-label/function", where, lf.Args[0], S.Ite(env.MustParse("d.Label==nil"), S.Var("global:graph/graphout.defaultLabel", false), env.MustParse("d.Label")), "the label function is d.Label, or defaultLabel when that is nil")
			}
			neg := false
			for _, f := range fc.Ctx.Facts(c.Block()) {
				if f.Val {
					continue
				}
				switch cv := f.Cond.(type) {
				case *ssa.Phi:
					if bt, ok := cv.Type().Underlying().(*types.Basic); ok && bt.Kind() == types.Bool {
						neg = true
					}
				case *ssa.Call:
					// a membership helper: slices.ContainsFunc(attrs, isLabel) or one of the module's own
					neg = true
				}
			}
			if neg {
				r.OK(rB, name+"/default-label/when", where, "appended only when no attribute of the node was found to be a label")
			} else {
				r.Fail(rB, name+"/default-label/when", where, "the default label is not appended under `no label among the node's attributes`")
			}
		}
		// an optional callback (a func-typed field of d) is called only under `!= nil`
		fc.Ctx.Instrs(func(in ssa.Instruction) {
			c, ok := in.(*ssa.Call)
			if !ok || c.Call.IsInvoke() || c.Call.StaticCallee() != nil {
				return
			}
			if _, isB := c.Call.Value.(*ssa.Builtin); isB {
				return
			}
			cv := fc.Val(c.Call.Value)
			ca := cv.SingleAtom()
			if ca == nil || !strings.HasPrefix(ca.Name, "fld:Dot.") {
				return
			}
			if fc.HoldsAt(c.Block(), S.Cmp("!=", cv, S.Var("nil", false))) {
				r.OK("C-guard nil", name+"/"+strings.TrimPrefix(ca.Name, "fld:Dot."), a.W.InstrPos(c), "the optional callback is called only when it is set")
			} else {
				r.Fail("C-guard nil", name+"/"+strings.TrimPrefix(ca.Name, "fld:Dot."), a.W.InstrPos(c), "the optional callback "+ca.Name+" is called without being known non-nil")
			}
		})
		// the output is closed: a final write of "}" on the way out
		closed := false
		for _, c := range fc.CallsTo("fmt.Fprintf") {
			if format, _ := fprintfArgs(fc, c); strings.HasPrefix(format, "}") && fc.Ctx.LoopOf(c.Block()) == nil {
				closed = true
			}
		}
		if closed {
			r.OK(rB, name+"/closes", b.pos(fn), "the closing brace is written after the last node")
		} else {
			r.Fail(rB, name+"/closes", b.pos(fn), "no final write of the closing brace")
		}
		// early returns: exactly on a write error
		nRet, bad := 0, ""
		fc.Ctx.Instrs(func(in ssa.Instruction) {
			iff, ok := in.(*ssa.If)
			if !ok {
				return
			}
			c := fc.Val(iff.Cond)
			if len(FindFn(c, "fmt.Fprintf#1")) == 0 {
				return
			}
			nRet++
			ca := c.SingleAtom()
			tb := iff.Block().Succs[0]
			_, isRet := tb.Instrs[len(tb.Instrs)-1].(*ssa.Return)
			if ca == nil || ca.Name != "cmp!=" || !isRet {
				bad = a.W.InstrPos(iff) + ": " + clip(c.String(), 120)
			}
		})
		if bad != "" || nRet < 3 {
			r.Fail(rB, name+"/stops-on-error-only", b.pos(fn), fmt.Sprintf("a test of a write's error is not `err != nil → return` (%d seen): %s", nRet, bad))
		} else {
			r.OK(rB, name+"/stops-on-error-only", b.pos(fn), fmt.Sprintf("all %d tests of a write's error return exactly when it is non-nil", nRet))
		}
	})
}

// conjuncts: the arguments of a conjunction, or the condition itself.
func conjuncts(c *RF) []*RF {
	if at := c.SingleAtom(); at != nil && at.Name == "land" {
		return at.Args
	}
	return []*RF{c}
}
