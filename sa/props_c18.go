package main

import (
	"go/types"
	"strings"

	"golang.org/x/tools/go/ssa"
)

func init() {
	propFuncs["C18"] = propC18
	propInfos["C18"] = &PropInfo{
		Level:   "other",
		Explain: "Structural necessary conditions decided statically (DESIGN.md §5 C18): NodeMarks word/bit agreement — Test, Mark, Unmark address word i/32 with mask 1<<(i%32) (|=, &^=, &), Next scans from word i/32 shifted by i%32 and returns i+tz / 32*bi+tz (the inverse of that addressing); capacity — grow(i) replaces marks by a slice of length k with k doubling from 1 WHILE k < i/32+1 (so k >= i/32+1 at exit) after copying the old words, and Mark indexes only after that; C-order on the DFS closures (PreOrder, PostOrder, Euler.Visit) and SCC's connect: the node is marked before any recursive call, recursion only under 'not yet visited' for that successor, PreOrder appends before / PostOrder after the successor loop, Enter dominates and Exit follows the loop each under its own nil test; C-taint in graphout: every string reaching the output is a constant, a DotString or formatAttrs result, a numeric operand, a DotLiteral, or an attribute name; index-map plumbing: NodeMap/EdgeMap formulas, lock-step appends of out/oldEdges in both subgraph constructors, MakeBiGraph's transpose insertion, SimplifyMulti's target→edge-index map discipline (the map is asked about gw.Out(n)[i]; the weight gw.OutWeight(n,i) is added at the index the map gives exactly when the map has the target, otherwise the target and that weight are appended and len(edges) — the index about to be taken — is recorded under the target; the map is emptied at the start of every node, or entries of earlier nodes are recognised by an index below the node's first edge) and index bounds, Out/OutWeight and SCCGraph accessors slicing the same bounds; graph.Equal — false at once when the node counts differ, every node examined, false when a node's two lists differ in length, sorted copies (the two halves of one buffer append(append(buf[:0], e1...), e2...)) compared element by element with a mismatch returning false, the next node reached only over the exhausted exit of a complete comparison, true only once the node loop is exhausted; one-formula accessors (IntGraph.NumNodes/Out, WeightedUnit.OutWeight, bigraph.In, listSubgraph.Underlying); C-quote on DotString: the result is one quote + the loop's output + one quote, the loop visits every byte once in order, and on every path through the loop body, for every one of the 256 byte values that can take it, the bytes emitted are read back by the dot language as exactly that byte (raw for anything but quote and backslash, backslash-n for newline, backslash + the byte for quote, backslash and the record delimiters) — an exhaustive finite decision, so unescape(DotString(s)) = s for every s. Added after the mutation sweep (DESIGN §13): SCC's conformance to Tarjan's algorithm clause by clause (numbering, successors, min, root test, pop with the processed mark, component records, out-edge push/collect/dedup, driver, flag completion); exactness of SubgraphRemove/SubgraphKeep (every node/edge gone through, kept exactly when requested, numbering, rejection); SimplifyMulti's indexes and weighted view; OutWeight's slice bounds; Dot.Fprint writes every node and edge line, stops only on a write error, calls optional callbacks only when set.",
		Assume:  []string{"A2", "node ids are non-negative"},
		Undec:   []string{"that traversals/SCC/subgraphs equal their graph-theoretic definitions", "reverse topological numbering", "that sort.Ints sorts (trusted library), on which Equal's multiset comparison rests"},
	}
}

func propC18(a *Analysis, r *Registry) {
	b := NewB(a, r)
	X := b.X
	S := X.S
	const rB = "B-C18 formula"
	// ---- NodeMarks ----
	b.Formula(rB, "graph/graphalg.(NodeMarks).Test", "graph/graphalg.(NodeMarks).Test", []string{"m", "i"}, nil, 0,
		"ite(i<0 || len(m.marks)<=idiv(i,32), false, and(m.marks[idiv(i,32)], shl(1, imod(i,32)))!=0)", nil)
	bitop := func(fname, op string) {
		fn := b.Fn(rB, fname)
		if fn == nil {
			return
		}
		b.guard(rB, fname, func() {
			fc := X.FCFor(fn)
			env := X.EnvFor(fn, "m", "i")
			n := 0
			fc.Ctx.Instrs(func(in ssa.Instruction) {
				st, ok := in.(*ssa.Store)
				if !ok {
					return
				}
				ia, ok := st.Addr.(*ssa.IndexAddr)
				if !ok {
					return
				}
				n++
				e := X.EnvFor(fn, "m", "i")
				e.Set("W", fc.Val(ia.X), nil)
				b.Eq(rB, fname+"/word", a.W.InstrPos(st), fc.Val(ia.Index), e, "idiv(i,32)")
				b.Eq(rB, fname+"/update", a.W.InstrPos(st), fc.Val(st.Val), e, op+"(W[idiv(i,32)], shl(1, imod(i,32)))")
			})
			if n != 1 {
				r.Fail(rB, fname+"/update", b.pos(fn), "expected exactly one word update")
			}
			_ = env
		})
	}
	bitop("graph/graphalg.(*NodeMarks).Mark", "or")
	bitop("graph/graphalg.(*NodeMarks).Unmark", "andnot")
	if fn := b.Fn(rB, "graph/graphalg.(*NodeMarks).Unmark"); fn != nil {
		b.guard("D-bound capacity", "graph/graphalg.(*NodeMarks).Unmark", func() {
			fc := X.FCFor(fn)
			env := X.EnvFor(fn, "m", "i")
			fc.Ctx.Instrs(func(in ssa.Instruction) {
				if st, ok := in.(*ssa.Store); ok {
					if _, isIA := st.Addr.(*ssa.IndexAddr); isIA {
						b.Eq("D-bound capacity", "graph/graphalg.(*NodeMarks).Unmark/in-range", a.W.InstrPos(st), fc.ReachCond(st.Block()), env, "!(len(m.marks)<=idiv(i,32))")
					}
				}
			})
		})
	}
	if fn := b.Fn("D-bound capacity", "graph/graphalg.(*NodeMarks).grow"); fn != nil {
		name := "graph/graphalg.(*NodeMarks).grow"
		b.guard("D-bound capacity", name, func() {
			fc := X.FCFor(fn)
			env := X.EnvFor(fn, "m", "i")
			nm := fc.FieldAtExit(0, "marks")
			at := nm.SingleAtom()
			if at == nil || !strings.HasPrefix(at.Name, "makeslice:") {
				r.Fail("D-bound capacity", name+"/new-slice", b.pos(fn), "grow does not install a freshly made slice")
				return
			}
			k := at.Args[0]
			env.Set("k", k, nil)
			if len(fc.loopPhis(k)) == 0 {
				// no doubling loop: the capacity in closed form. 1 << bits.Len(m) is the least power
				// of two above m (2^bitlen(m) > m for every m >= 0), so with m = i/32 it is >= i/32+1
				closed := S.Ite(env.MustParse("1<idiv(i,32)+1"), S.MakeFn("shl", S.Int(1), S.MakeFn("math/bits.Len", env.MustParse("idiv(i,32)"))), S.Int(1))
				if k.Equal(closed) || X.EquivByCases(k, closed, 0) {
					r.OK("D-bound capacity", name+"/exit-implies-capacity", b.pos(fn), "capacity 1<<bits.Len(i/32) (1 when i/32 = 0): a power of two >= i/32+1")
				} else {
					r.Fail("D-bound capacity", name+"/exit-implies-capacity", b.pos(fn), "the new capacity "+clip(k.String(), 160)+" is neither doubled up to i/32+1 nor 1<<bits.Len(i/32): marks[i/32] can be out of range after grow")
				}
				cp := fc.CallsTo("builtin:copy")
				if len(cp) == 1 && fc.Val(cp[0].Call.Args[0]).Equal(nm) && fc.Val(cp[0].Call.Args[1]).Equal(env.MustParse("m.marks")) {
					r.OK("D-bound capacity", name+"/copies-old", a.W.InstrPos(cp[0]), "copy(new, m.marks) before installing")
				} else {
					r.Fail("D-bound capacity", name+"/copies-old", b.pos(fn), "old marks are not copied into the new slice")
				}
				return
			}
			ki, kn := fc.Recurrence(k)
			b.Eq("D-bound capacity", name+"/k-init", b.pos(fn), ki, env, "1")
			b.Eq("D-bound capacity", name+"/k-step", b.pos(fn), kn, env, "shl(k,1)")
			hdr := X.phiOf[k.SingleAtom().ID].Block()
			// the loop is left only once the capacity suffices: no exit can be taken while
			// k < i/32+1 (however the test is placed), so afterwards len(marks) = k >= i/32+1
			want := env.MustParse("k<idiv(i,32)+1")
			exits := fc.ExitEdges(hdr)
			bad := ""
			for _, ee := range exits {
				if !X.SimplifyUnder(want, []Assumption{{Cond: ee.Cond, True: true}}).Equal(S.False()) {
					bad = ee.Cond.String()
				}
			}
			where := a.W.InstrPos(hdr.Instrs[len(hdr.Instrs)-1])
			if len(exits) > 0 && bad == "" {
				r.OK("D-bound capacity", name+"/exit-implies-capacity", where, "doubles while k < i/32+1: at exit len(marks) = k >= i/32+1")
			} else {
				r.Fail("D-bound capacity", name+"/exit-implies-capacity", where, "the doubling loop can be left when "+clip(bad, 120)+"; its exit does not give k >= i/32+1, so marks[i/32] can be out of range after grow (e.g. Mark(1024) on a fresh set)")
			}
			// old words copied
			cp := fc.CallsTo("builtin:copy")
			if len(cp) == 1 && fc.Val(cp[0].Call.Args[0]).Equal(nm) && fc.Val(cp[0].Call.Args[1]).Equal(env.MustParse("m.marks")) {
				r.OK("D-bound capacity", name+"/copies-old", a.W.InstrPos(cp[0]), "copy(new, m.marks) before installing")
			} else {
				r.Fail("D-bound capacity", name+"/copies-old", b.pos(fn), "old marks are not copied into the new slice")
			}
		})
	}
	if fn := b.Fn("D-bound capacity", "graph/graphalg.(*NodeMarks).Mark"); fn != nil {
		name := "graph/graphalg.(*NodeMarks).Mark"
		b.guard("D-bound capacity", name, func() {
			fc := X.FCFor(fn)
			env := X.EnvFor(fn, "m", "i")
			g := fc.TheCallTo("graph/graphalg.(*NodeMarks).grow")
			b.Eq("D-bound capacity", name+"/grow-when", a.W.InstrPos(g), fc.ReachCond(g.Block()), env, "len(m.marks)<=idiv(i,32)")
			b.Eq("D-bound capacity", name+"/grow-arg", a.W.InstrPos(g), fc.Val(g.Call.Args[1]), env, "i")
		})
	}
	if fn := b.Fn(rB, "graph/graphalg.(NodeMarks).Next"); fn != nil {
		name := "graph/graphalg.(NodeMarks).Next"
		b.guard(rB, name, func() {
			_ = X.FCFor(fn)
			env := X.EnvFor(fn, "m", "i")
			env.Let("j", "ite(i+1<0, 0, i+1)")
			env.Let("b0", "shr(m.marks[idiv(j,32)], imod(j,32))")
			separate := func() {
				// decided by cases on the function's (gated) result, however the branches are nested:
				// beyond the last word → -1; a bit left in the starting word → j+tz32(b0)
				beyond := env.MustParse("len(m.marks)<=idiv(j,32)")
				bit := env.MustParse("b0!=0")
				fc1 := X.Under(fn, X.AssumeCond(beyond, true))
				b.EqUnder(rB, name+"/returns -1", b.pos(fn), fc1, fc1.RetVal(0), env, "-1")
				fc2 := X.Under(fn, X.AssumeCond(beyond, false), X.AssumeCond(bit, true))
				b.EqUnder(rB, name+"/returns j+tz32(b0)", b.pos(fn), fc2, fc2.RetVal(0), env, "j+tz32(b0)")
				// otherwise the remaining words are searched for the first non-zero one: in Next
				// itself, or in a helper whose result Next returns
				fc3 := X.Under(fn, X.AssumeCond(beyond, false), X.AssumeCond(bit, false))
				found := false
				for _, sfc := range fc3.BoundCallees(1) {
					loops := sfc.Ctx.Loops()
					if len(loops) != 1 {
						continue
					}
					found = true
					marks := env.MustParse("m.marks")
					b.FirstHitScan(rB, name+"/word-scan", b.pos(sfc.Fn), sfc, loops[0].Header, FirstHit{
						Base:  marks,
						First: sfc.Sub(env.MustParse("idiv(j,32)+1")),
						N:     S.MakeFn("len", marks),
						Hit:   func(e *RF) *RF { return S.Cmp("!=", S.MakeFn("idx", marks, e), S.Int(0)) },
						Val: func(e *RF) *RF {
							return S.Int(32).Mul(e).Add(S.MakeFn("math/bits.TrailingZeros32", S.MakeFn("idx", marks, e)))
						},
						Miss: S.Int(-1),
					})
					// every result in this case comes out of that search
					if sfc == fc3 {
						for _, rt := range fc3.Ctx.Returns() {
							if !fc3.Ctx.Dominates(loops[0].Header, rt.Block()) {
								r.Fail(rB, name+"/word-scan", a.W.InstrPos(rt), "a result for the remaining words that does not come from the word search")
							}
						}
					}
					break
				}
				if !found {
					r.Fail(rB, name+"/word-scan", b.pos(fn), "no search loop over the remaining words")
				}
			}
			// the starting word handled as the first iteration of the scan itself: a shift that is
			// i%32 for the first word and 0 afterwards. Decided as the same three cases: the first
			// iteration (every loop-carried quantity at its start) gives the "beyond" and "bit in the
			// starting word" cases, the iterations after it are the plain search from j/32+1
			merged := func() {
				fc := X.FCFor(fn)
				loops := fc.Ctx.Loops()
				if len(loops) != 1 {
					r.Fail(rB, name+"/word-scan", b.pos(fn), "no single scan loop")
					return
				}
				hdr := loops[0].Header
				marks := env.MustParse("m.marks")
				beyond := env.MustParse("len(m.marks)<=idiv(j,32)")
				bit := env.MustParse("b0!=0")
				first := map[AtomID]*RF{}
				aux := map[AtomID]*RF{}
				for _, in := range hdr.Instrs {
					ph, ok := in.(*ssa.Phi)
					if !ok {
						break
					}
					q := fc.Val(ph)
					qa := q.SingleAtom()
					if qa == nil || X.phiOf[qa.ID] != ph {
						continue
					}
					qi, qn := recurrenceOrNil(fc, q)
					if qi == nil {
						r.Fail(rB, name+"/word-scan", b.pos(fn), "a loop-carried value without a recurrence")
						return
					}
					first[qa.ID] = qi
					if len(fc.loopPhis(qn)) == 0 && !hasAtomPrefix(qn, "memphi") {
						aux[qa.ID] = qn // the same value in every iteration after the first
					}
				}
				euclid := func(v *RF) *RF {
					return v.Rewrite(func(at *Atom, args []*RF) *RF {
						if at.Name == "imod" && len(args) == 2 {
							return args[0].Sub(args[1].Mul(S.MakeFn("idiv", args[0], args[1])))
						}
						return nil
					})
				}
				// the first iteration
				miss, hit := S.False(), S.False()
				for _, ee := range fc.ExitEdges(hdr) {
					v := fc.gatedReturns(ee.To, 0, nil)
					if v == nil {
						r.Undecided(rB, name+"/first-word", b.pos(fn), "the value returned after leaving the loop is not computable")
						return
					}
					if S.isBottom(v) {
						continue
					}
					v = fc.resolveExitPhis(loops[0], ee.To, fc.resolveAlongEdge(ee.From, ee.To, v))
					c1, v1 := ee.Cond.Subst(first), v.Subst(first)
					if v1.Equal(S.Int(-1)) {
						miss = S.Or(miss, c1)
					} else {
						hit = S.Or(hit, c1)
						b.EqRF(rB, name+"/returns j+tz32(b0)", b.pos(fn), euclid(v1), euclid(env.MustParse("j+tz32(b0)")), "a bit left in the starting word gives j + tz32(b0)")
					}
				}
				b.Eq(rB, name+"/returns -1", b.pos(fn), miss, env, "len(m.marks)<=idiv(j,32)")
				b.EqRF(rB, name+"/first-word/when", b.pos(fn), hit, S.And(S.Not(beyond), bit), "the starting word answers exactly when it is in range and has a bit at or above j%32")
				// the iterations after the first
				b.FirstHitScan(rB, name+"/word-scan", b.pos(fn), fc, hdr, FirstHit{
					Base:  marks,
					First: env.MustParse("idiv(j,32)+1"),
					N:     S.MakeFn("len", marks),
					Hit:   func(e *RF) *RF { return S.Cmp("!=", S.MakeFn("idx", marks, e), S.Int(0)) },
					Val: func(e *RF) *RF {
						return S.Int(32).Mul(e).Add(S.MakeFn("math/bits.TrailingZeros32", S.MakeFn("idx", marks, e)))
					},
					Miss:   S.Int(-1),
					Peeled: true,
					Aux:    aux,
				})
			}
			// the word under examination carried by the loop ("pipelined"): w starts as the shifted
			// starting word with base j; while w == 0 the next word is fetched — -1 once there is none
			// — with base 32*k; the result is base + tz32(w) of the first non-zero w
			pipelined := func() {
				beyond := env.MustParse("len(m.marks)<=idiv(j,32)")
				fc1 := X.Under(fn, X.AssumeCond(beyond, true))
				b.EqUnder(rB, name+"/returns -1", b.pos(fn), fc1, fc1.RetVal(0), env, "-1")
				fc := X.Under(fn, X.AssumeCond(beyond, false))
				loops := fc.Ctx.Loops()
				if len(loops) != 1 {
					anchorFail("no single scan loop")
				}
				hdr := loops[0].Header
				// the result returned after the loop
				var after *ssa.Return
				for _, rt := range fc.Ctx.Returns() {
					if !loops[0].Body[rt.Block().Index] && fc.Ctx.Dominates(hdr, rt.Block()) {
						for _, p := range fc.Ctx.LivePreds(rt.Block()) {
							if p == hdr {
								after = rt
							}
						}
					}
				}
				if after == nil {
					anchorFail("no result returned when the scan loop's condition fails")
				}
				rv := fc.Sub(fc.Val(after.Results[0]))
				e := X.EnvFor(fn, "m", "i")
				for _, nm := range []string{"j", "b0"} {
					e.Vars[nm] = env.Vars[nm]
				}
				vars := b.LoopSystem(rB, name+"/word-scan", b.pos(fn), fc, rv, e, []recSpec{
					{"w", "b0", "m.marks[k+1]"}, {"base", "j", "32*(k+1)"}, {"k", "idiv(j,32)", "k+1"}})
				if vars == nil {
					return
				}
				for k, v := range vars {
					e.Set(k, v, nil)
				}
				b.Eq(rB, name+"/word-scan/result", a.W.InstrPos(after), rv, e, "base+tz32(w)")
				_, gc, _, msg := b.loopGuard(fc, hdr)
				if msg != "" {
					r.Fail(rB, name+"/word-scan/while", b.pos(fn), msg)
					return
				}
				b.Eq(rB, name+"/word-scan/while", b.pos(fn), gc, e, "w==0")
				// every other way out of the loop returns -1, exactly when the words are exhausted
				for _, ee := range fc.ExitEdges(hdr) {
					if ee.From == hdr {
						continue
					}
					rt, isRet := ee.To.Instrs[len(ee.To.Instrs)-1].(*ssa.Return)
					if !isRet || len(ee.To.Instrs) != 1 || !fc.Val(rt.Results[0]).Equal(S.Int(-1)) {
						r.Fail(rB, name+"/word-scan/exhausted", b.pos(fn), "a way out of the scan that does not return -1")
						return
					}
					b.Eq(rB, name+"/word-scan/exhausted", a.W.InstrPos(rt), ee.Cond, e, "w==0 && len(m.marks)<=k+1")
				}
			}
			b.AnyOf(separate, merged, pipelined)
		})
	}
	b.CheckDFloor("D-floor", "graph/graphalg.(NodeMarks).Test", "graph/graphalg.(*NodeMarks).Mark", "graph/graphalg.(*NodeMarks).Unmark", "graph/graphalg.(*NodeMarks).grow", "graph/graphalg.(NodeMarks).Next")

	// ---- DFS ordering ----
	dfs := func(fname string, appendBefore, appendAfter bool) {
		fn := b.Fn("C-order", fname)
		if fn == nil {
			return
		}
		// the traversal is started: the enclosing function calls the closure on its root, on every path
		if parent := a.W.Fn(strings.TrimSuffix(fname, "$1")); parent != nil && strings.HasSuffix(fname, "$1") {
			b.guard("C-order", fname+"/started-at-root", func() {
				pfc := X.FCFor(parent)
				var root *RF
				for i, p := range parent.Params {
					if p.Name() == "root" {
						root = X.ParamRF(parent, i)
					}
				}
				started := false
				pfc.Ctx.Instrs(func(in ssa.Instruction) {
					c, ok := in.(*ssa.Call)
					if !ok || c.Call.IsInvoke() || c.Call.StaticCallee() != nil || len(c.Call.Args) != 1 {
						return
					}
					if _, isB := c.Call.Value.(*ssa.Builtin); isB {
						return
					}
					if root != nil && pfc.Val(c.Call.Args[0]).Equal(root) && pfc.ReachCond(c.Block()).Equal(S.True()) {
						started = true
					}
				})
				if started {
					r.OK("C-order", fname+"/started-at-root", b.pos(parent), "the traversal closure is called on root, unconditionally")
				} else {
					r.Fail("C-order", fname+"/started-at-root", b.pos(parent), "the enclosing function does not call the traversal closure on its root on every path: nothing is visited")
				}
			})
		}
		b.guard("C-order", fname, func() {
			fc := X.FCFor(fn)
			mark := fc.TheCallTo("graph/graphalg.(*NodeMarks).Mark")
			if !fc.Val(mark.Call.Args[1]).Equal(X.ParamRF(fn, 0)) {
				r.Fail("C-order", fname+"/marks-self", a.W.InstrPos(mark), "the node marked is not the node being visited")
			}
			// the recursive call: through the captured variable
			var rec *ssa.Call
			fc.Ctx.Instrs(func(in ssa.Instruction) {
				if c, ok := in.(*ssa.Call); ok && c.Call.StaticCallee() == nil && !c.Call.IsInvoke() {
					if _, isB := c.Call.Value.(*ssa.Builtin); !isB && len(c.Call.Args) == 1 && fc.Ctx.LoopOf(c.Block()) != nil {
						rec = c
					}
				}
			})
			if rec == nil {
				r.Fail("C-order", fname+"/recursion", b.pos(fn), "no recursive visit of successors")
				return
			}
			succ := fc.Val(rec.Call.Args[0])
			if sa := succ.SingleAtom(); sa == nil || sa.Name != "idx" || !strings.HasPrefix(sa.Args[0].String(), "call:Out(") {
				r.Fail("C-order", fname+"/recursion", a.W.InstrPos(rec), "the recursive call is not on an element of g.Out(n): "+clip(succ.String(), 120))
			} else if oa := sa.Args[0].SingleAtom(); oa == nil || len(oa.Args) < 2 || !oa.Args[1].Equal(X.ParamRF(fn, 0)) {
				r.Fail("C-order", fname+"/recursion", a.W.InstrPos(rec), "successors are not those of the node being visited")
			} else {
				// every successor is looked at: the loop over g.Out(n) runs to the end and is not left
				// from inside an iteration (a `break` at an already-visited successor drops the rest)
				b.FullScan("C-scan coverage", fname+"/every-successor", a.W.InstrPos(rec), fc, sa.Args[1], S.MakeFn("len", sa.Args[0]))
			}
			if fc.Ctx.Dominates(mark.Block(), rec.Block()) && mark.Block() != rec.Block() {
				r.OK("C-order", fname+"/mark-before-recurse", a.W.InstrPos(mark), "Mark(n) dominates every recursive call")
			} else {
				r.Fail("C-order", fname+"/mark-before-recurse", a.W.InstrPos(rec), "a recursive call is not preceded by Mark(n) on every path (cycles would recurse forever)")
			}
			guarded := false
			for _, tc := range fc.CallsTo("graph/graphalg.(NodeMarks).Test") {
				if !fc.Val(tc.Call.Args[1]).Equal(succ) {
					continue
				}
				for _, f := range fc.Ctx.Facts(rec.Block()) {
					if !f.Val && f.Cond == ssa.Value(tc) {
						guarded = true
					}
				}
			}
			if !guarded {
				// or the visit itself starts by returning for a node already visited: everything it
				// does (marking, appending, recursing) is under !visited.Test(n) for its own node
				for _, tc := range fc.CallsTo("graph/graphalg.(NodeMarks).Test") {
					if !fc.Val(tc.Call.Args[1]).Equal(X.ParamRF(fn, 0)) {
						continue
					}
					for _, f := range fc.Ctx.Facts(mark.Block()) {
						if !f.Val && f.Cond == ssa.Value(tc) && fc.Ctx.Dominates(mark.Block(), rec.Block()) {
							guarded = true
						}
					}
				}
			}
			if guarded {
				r.OK("C-order", fname+"/recurse-only-unvisited", a.W.InstrPos(rec), "recursion only under !visited.Test(succ) for that successor")
			} else {
				r.Fail("C-order", fname+"/recurse-only-unvisited", a.W.InstrPos(rec), "the recursive call is not guarded by !visited.Test(succ) for the same successor")
			}
			loop := fc.Ctx.LoopOf(rec.Block())
			if appendBefore || appendAfter {
				var app *ssa.Call
				for _, c := range fc.CallsTo("builtin:append") {
					app = c
				}
				if app == nil {
					r.Fail("C-order", fname+"/append", b.pos(fn), "the node is never appended to the order")
					return
				}
				vals := fc.AppendedValues(app)
				if len(vals) != 1 || !vals[0].Equal(X.ParamRF(fn, 0)) {
					r.Fail("C-order", fname+"/append", a.W.InstrPos(app), "what is appended is not the visited node")
				}
				inLoop := loop.Body[app.Block().Index]
				before := fc.Ctx.Dominates(app.Block(), loop.Header) && !inLoop
				after := fc.Ctx.Dominates(loop.Header, app.Block()) && !inLoop
				if appendBefore && before || appendAfter && after {
					r.OK("C-order", fname+"/append-position", a.W.InstrPos(app), map[bool]string{true: "appended before", false: "appended after"}[appendBefore]+" the successor loop")
				} else {
					r.Fail("C-order", fname+"/append-position", a.W.InstrPos(app), "the node is appended on the wrong side of the successor loop")
				}
			}
		})
	}
	dfs("graph/graphalg.PreOrder$1", true, false)
	dfs("graph/graphalg.PostOrder$1", false, true)
	dfs("graph/graphalg.(Euler).Visit$1", false, false)
	if fn := b.Fn("C-order", "graph/graphalg.(Euler).Visit$1"); fn != nil {
		b.guard("C-order", "Euler/enter-exit", func() {
			fc := X.FCFor(fn)
			var loopHdr *ssa.BasicBlock
			for _, l := range fc.Ctx.Loops() {
				loopHdr = l.Header
			}
			var calls []*ssa.Call
			fc.Ctx.Instrs(func(in ssa.Instruction) {
				if c, ok := in.(*ssa.Call); ok && c.Call.StaticCallee() == nil && !c.Call.IsInvoke() && len(c.Call.Args) == 1 && fc.Ctx.LoopOf(c.Block()) == nil {
					if _, isB := c.Call.Value.(*ssa.Builtin); !isB {
						calls = append(calls, c)
					}
				}
			})
			okE, okX := false, false
			for _, c := range calls {
				fv := fc.Val(c.Call.Value).String()
				nilGuard := false
				for _, f := range fc.Ctx.Facts(c.Block()) {
					if cond := fc.Val(f.Cond).SingleAtom(); cond != nil && cond.Name == "cmp!=" && f.Val && (cond.Args[0].Equal(fc.Val(c.Call.Value)) || cond.Args[1].Equal(fc.Val(c.Call.Value))) {
						nilGuard = true
					}
				}
				argOK := fc.Val(c.Call.Args[0]).Equal(X.ParamRF(fn, 0))
				if strings.Contains(fv, "Euler.Enter") && nilGuard && argOK && loopHdr != nil && fc.Ctx.Dominates(c.Block().Succs[0], loopHdr) {
					okE = true
				}
				if strings.Contains(fv, "Euler.Exit") && nilGuard && argOK && loopHdr != nil && fc.Ctx.Dominates(loopHdr, c.Block()) {
					okX = true
				}
			}
			if okE && okX {
				r.OK("C-order", "Euler/enter-exit", b.pos(fn), "Enter(n) precedes and Exit(n) follows the successor loop, each under its own nil test")
			} else {
				r.Fail("C-order", "Euler/enter-exit", b.pos(fn), "Enter/Exit are not properly nested around the successor loop")
			}
		})
	}
	// SCC connect: marked (low[nid] = index) before recursion; recursion only when low[oid]==0
	if fn := b.Fn("C-order", "graph/graphalg.SCC$1"); fn != nil {
		b.guard("C-order", "graph/graphalg.SCC$1", func() {
			fc := X.FCFor(fn)
			var rec *ssa.Call
			fc.Ctx.Instrs(func(in ssa.Instruction) {
				if c, ok := in.(*ssa.Call); ok && c.Call.StaticCallee() == nil && !c.Call.IsInvoke() && len(c.Call.Args) == 1 && fc.Ctx.LoopOf(c.Block()) != nil {
					if _, isB := c.Call.Value.(*ssa.Builtin); !isB {
						rec = c
					}
				}
			})
			if rec == nil {
				r.Fail("C-order", "graph/graphalg.SCC$1/recursion", b.pos(fn), "no recursive connect")
				return
			}
			oid := fc.Val(rec.Call.Args[0])
			guarded := false
			for _, f := range fc.Ctx.Facts(rec.Block()) {
				c := fc.Val(f.Cond).SingleAtom()
				if f.Val && c != nil && c.Name == "cmp==" {
					for k := 0; k < 2; k++ {
						if z, isC := c.Args[k].IsConst(); isC && z.Sign() == 0 {
							if la := c.Args[1-k].SingleAtom(); la != nil && la.Name == "idx" && la.Args[1].Equal(oid) {
								guarded = true
							}
						}
					}
				}
			}
			// low[nid] = index store dominates
			marked := false
			fc.Ctx.Instrs(func(in ssa.Instruction) {
				if st, ok := in.(*ssa.Store); ok {
					if ia, ok := st.Addr.(*ssa.IndexAddr); ok && fc.Val(ia.Index).Equal(X.ParamRF(fn, 0)) && fc.Ctx.Dominates(st.Block(), rec.Block()) && st.Block().Index == 0 {
						marked = true
					}
				}
			})
			if guarded && marked {
				r.OK("C-order", "graph/graphalg.SCC$1/recursion", a.W.InstrPos(rec), "low[nid] is set on entry; connect(oid) only when low[oid]==0")
			} else {
				r.Fail("C-order", "graph/graphalg.SCC$1/recursion", a.W.InstrPos(rec), "connect recursion not guarded by low[oid]==0 or node not numbered on entry")
			}
		})
	}
	propC18rest(a, r, b)
	propC18scc(a, r, b)
	propC18dot(a, r, b)
	propC18quote(a, r, b)
	sweepC18(a, r, b)
	propC18equal(a, r, b)
}

// taintOK: is the string-valued v safe to write to the dot output?
// numericCaseGuard: blk is entered only through ok-edges of comma-ok type
// assertions of v to non-string basic types (a `case int, uint, float64:` arm).
func numericCaseGuard(v ssa.Value, blk *ssa.BasicBlock) bool {
	if blk == nil || len(blk.Preds) == 0 {
		return false
	}
	src := func(x ssa.Value) ssa.Value {
		if u, ok := x.(*ssa.UnOp); ok {
			return u.X
		}
		return x
	}
	for _, p := range blk.Preds {
		ifi, ok := p.Instrs[len(p.Instrs)-1].(*ssa.If)
		if !ok || p.Succs[0] != blk {
			return false
		}
		ex, ok := ifi.Cond.(*ssa.Extract)
		if !ok || ex.Index != 1 {
			return false
		}
		ta, ok := ex.Tuple.(*ssa.TypeAssert)
		if !ok {
			return false
		}
		bt, ok := ta.AssertedType.Underlying().(*types.Basic)
		if !ok || bt.Info()&types.IsNumeric == 0 {
			return false
		}
		// same interface value (loads of the same address count as the same value here)
		a, b := src(ta.X), src(v)
		if a != b {
			fa, ok1 := a.(*ssa.FieldAddr)
			fb, ok2 := b.(*ssa.FieldAddr)
			if !(ok1 && ok2 && fa.X == fb.X && fa.Field == fb.Field) && ta.X != v {
				return false
			}
		}
	}
	return true
}

var taintBlock *ssa.BasicBlock

func taintOK(w *World, v ssa.Value, depth int) (bool, string) {
	if depth > 6 {
		return false, "too deep"
	}
	if _, isIface := v.Type().Underlying().(*types.Interface); isIface && depth == 0 {
		if numericCaseGuard(v, taintBlock) {
			return true, ""
		}
	}
	if bt, ok := v.Type().Underlying().(*types.Basic); ok && bt.Info()&types.IsString == 0 {
		return true, "" // numeric operand
	}
	switch x := v.(type) {
	case *ssa.Const:
		return true, ""
	case *ssa.MakeInterface:
		return taintOK(w, x.X, depth+1)
	case *ssa.Call:
		if f := x.Call.StaticCallee(); f != nil {
			n := w.FuncName(f)
			if n == "graph/graphout.DotString" || n == "graph/graphout.formatAttrs" {
				return true, ""
			}
			return false, "result of " + n
		}
		return false, "result of a dynamic call (e.g. the user's Label function)"
	case *ssa.ChangeType:
		if n, ok := x.X.Type().(*types.Named); ok && n.Obj().Name() == "DotLiteral" {
			return true, ""
		}
		return taintOK(w, x.X, depth+1)
	case *ssa.Convert:
		if n, ok := x.X.Type().(*types.Named); ok && n.Obj().Name() == "DotLiteral" {
			return true, ""
		}
		return taintOK(w, x.X, depth+1)
	case *ssa.Phi:
		for _, e := range x.Edges {
			if ok, why := taintOK(w, e, depth+1); !ok {
				return false, why
			}
		}
		return true, ""
	case *ssa.UnOp:
		if fa, ok := x.X.(*ssa.FieldAddr); ok {
			st := fa.X.Type().Underlying().(*types.Pointer).Elem()
			if n, ok := st.(*types.Named); ok && n.Obj().Name() == "DotAttr" && st.Underlying().(*types.Struct).Field(fa.Field).Name() == "Name" {
				return true, ""
			}
			return false, "field " + st.Underlying().(*types.Struct).Field(fa.Field).Name() + " written raw"
		}
	case *ssa.Field:
		st := x.X.Type()
		if n, ok := st.(*types.Named); ok && n.Obj().Name() == "DotAttr" && st.Underlying().(*types.Struct).Field(x.Field).Name() == "Name" {
			return true, ""
		}
	case *ssa.TypeAssert:
		if n, ok := x.AssertedType.(*types.Named); ok && n.Obj().Name() == "DotLiteral" {
			return true, ""
		}
		return false, "dynamic value of type " + x.AssertedType.String()
	case *ssa.Extract:
		if ta, ok := x.Tuple.(*ssa.TypeAssert); ok {
			if n, ok := ta.AssertedType.(*types.Named); ok && n.Obj().Name() == "DotLiteral" {
				return true, ""
			}
			if bt, ok := ta.AssertedType.Underlying().(*types.Basic); ok && bt.Info()&types.IsString == 0 {
				return true, ""
			}
			return false, "raw " + ta.AssertedType.String()
		}
	}
	return false, "unclassified string value " + v.String()
}
