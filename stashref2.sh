#!/bin/bash
# usage: stashref2.sh RDxx <offset> check1 [check2…]  — copy round-N refactorings as Cxx-(k+offset)
r=$1; off=$2; shift; shift
id=C${r:2}
for k in 1 2 3; do d=/tmp/wt/$r-out/ref$k; [ -f $d/patch.diff ] || continue; n=$((k+off)); mkdir -p /verif/refactors/$id-$n; cp $d/patch.diff $d/meta.json /verif/refactors/$id-$n/; [ -f $d/equiv_test.go ] && cp $d/equiv_test.go /verif/refactors/$id-$n/
python3 - "$id-$n" "$@" <<'EOF'
import json,sys
d='/verif/refactors/'+sys.argv[1]; j=json.load(open(d+'/meta.json')); j['checks']=sys.argv[2:]; j['kind']='behaviour-preserving refactoring (sub-agent produced, rounds 3-6: loop/control-flow/data-flow restructurings; equivalence test included); the named checks must stay silent'
json.dump(j,open(d+'/meta.json','w'),indent=1)
EOF
done
