package main

import (
	"fmt"
	"go/types"
	"os"
	"sort"
	"strings"

	"golang.org/x/tools/go/ssa"
)

func init() {
	propFuncs["C01"] = func(a *Analysis, r *Registry) { propMWU(a, r, "C01") }
	propFuncs["C03"] = func(a *Analysis, r *Registry) { propMWU(a, r, "C03") }
	propInfos["C01"] = &PropInfo{
		Level:   "other",
		Explain: "Structural necessary conditions decided statically (DESIGN.md §5 C01): engine B on MannWhitneyUTest — the rank pass as a system of recurrences matched by role (mid-rank (first+last)/2, R1 += rank*nx1, tie entry last-first+1, hasTies), U1 = R1 - n1(n1+1)/2, U2 = n1 n2 - U1; labeledMerge's copy loops write value and label at the same output index with label 1 for x1 and 2 for x2; in the exact branch the distribution object is UDist{n1,n2,T} of this call and P is CDF(U1) for Less, 1-CDF(U1-c) with 0<c<=Step for Greater (the only offsets for which the complement is Pr[U'>=U] on a lattice of spacing Step), min(1, 2 min(lower, upper)) for Differs; the alternative switch is exhaustive; the all-equal guard precedes the tails. Added after the mutation sweep (DESIGN §13): labeledMerge's merge discipline (input counters advance exactly when their element is copied, output counter every iteration, loops run exactly while their inputs have elements, the smaller head is taken, both inputs drained; three-loop and one-loop shapes) and the rank loop's condition.",
		Assume:  []string{"A4 reals", "sort.Float64s sorts ascending", "UDist.CDF is the exact distribution function (structural part under C02)"},
		Undec:   []string{"that UDist.CDF returns the exact permutation probability (see C02)", "behaviour of the sort", "floating-point rounding of U for very large ranks"},
	}
	propInfos["C03"] = &PropInfo{
		Level:   "other",
		Explain: "Structural necessary conditions decided statically (DESIGN.md §5 C03): engine A — MannWhitneyUTest writes neither argument slice (the defensive copies are what discharges it); the ErrSampleSize guard reach condition is n1==0||n2==0 and precedes everything; ErrSamplesEqual is returned under len(T)==1 (exact) and sigma==0 (approximate) and their negations dominate the success return; the method-selection condition is (!hasTies && n1<=E && n2<=E) || (hasTies && n1<=TE && n2<=TE) over the two package variables, which are read nowhere else and never written; the normal approximation formulas (mean, tie-corrected variance, continuity correction per alternative, tails) and tieCorrection's recurrence; result fields N1, N2, U, AltHypothesis carry len(x1), len(x2), U1, alt.",
		Assume:  []string{"A4 reals", "A2"},
		Undec:   []string{"0<=P<=1", "invariance under reordering and monotone maps", "the swap law for the exact two-sided P (see the C01 finding)", "'exactly when' for ErrSamplesEqual (len(T)==1 <=> all equal is a value-level fact about the loop)"},
	}
}

func propMWU(a *Analysis, r *Registry, which string) {
	b := NewB(a, r)
	X := b.X
	S := X.S
	X.NoInline["stats.labeledMerge"] = true // its results are named by the call: merged, labels
	X.NoInline["stats.(UDist).CDF"] = true  // the exact distribution function is named by its call (its clauses are C02's)
	fn := b.Fn("anchor", "stats.MannWhitneyUTest")
	if fn == nil {
		return
	}
	name := "stats.MannWhitneyUTest"
	fc0 := X.FCFor(fn)
	env := X.EnvFor(fn, "x1", "x2", "alt")
	env.Let("n1", "len(x1)")
	env.Let("n2", "len(x2)")

	// shared anchors: U (the value stored to the result's U field) and its loop system.
	// The rank pass may live in this function or in a helper it delegates to
	// (whose loop-carried values are then bound to the actual arguments): rfc is
	// the context the rank loop lives in.
	var U, R1 *RF
	var rfc *FC
	var rph *ssa.Phi
	vars := map[string]*RF{}
	b.guard("anchor", name+"/rank-pass", func() {
		U = fc0.LitField("MannWhitneyUTestResult", "U")
		R1 = U.Add(env.MustParse("n1*(n1+1)/2"))
		at := R1.SingleAtom()
		if at != nil {
			rph, rfc = X.phiOf[at.ID], X.phiFC[at.ID]
		}
		if rph == nil || rfc == nil {
			msg := "U is not R1 - n1(n1+1)/2 for a loop-accumulated rank sum R1: U = " + clip(U.String(), 300)
			if which == "C01" {
				r.Fail("B-C01 rank-pass", name+"/U1", b.pos(fn), msg)
			} else {
				r.Undecided("anchor", name+"/rank-pass", b.pos(fn), msg+" (decided under C01; the clauses of C03 built on it cannot be located)")
			}
			R1 = nil
		}
	})
	if U == nil || R1 == nil {
		if U == nil && len(r.Obs) == 0 {
			r.Undecided("anchor", name+"/rank-pass", b.pos(fn), "the U statistic of the result could not be located")
		}
		return
	}
	// the merged/labels slices
	var merged, labels *RF
	b.guard("anchor", name+"/merge", func() {
		cfc := fc0
		cs := fc0.CallsTo("stats.labeledMerge")
		if len(cs) != 1 && rfc != fc0 {
			cfc = rfc
			cs = rfc.CallsTo("stats.labeledMerge")
		}
		if len(cs) != 1 {
			anchorFail("expected exactly one call to stats.labeledMerge in MannWhitneyUTest or its rank-pass helper, found %d", len(cs))
		}
		c := cs[0]
		merged = S.MakeFn("stats.labeledMerge#0", cfc.Val(c.Call.Args[0]), cfc.Val(c.Call.Args[1]))
		labels = S.MakeFn("stats.labeledMerge#1", cfc.Val(c.Call.Args[0]), cfc.Val(c.Call.Args[1]))
	})
	if merged == nil {
		return
	}
	env.Set("merged", merged, nil)
	env.Set("labels", labels, nil)
	b.guard("B-C01 rank-pass", name+"/recurrences", func() {
		got := b.LoopSystem("B-"+which+" rank-pass", name+"/recurrences", b.pos(fn), fc0, R1, env, []recSpec{
			{"R1", "0", "ite(nx!=0, R1+(iI+iO+1)/2*nx, R1)"},
			{"iO", "0", "iI"},
			{"iI", "iO", "iI+1"},
			{"nx", "0", "ite(labels[iI]==1, nx+1, nx)"},
		})
		for k, v := range got {
			vars[k] = v
			env.Set(k, v, nil)
		}
	})
	if len(vars) == 0 {
		return
	}
	// T and hasTies: the slice- and bool-typed values carried by the same outer loop
	var T, hasTies *RF
	b.guard("anchor", name+"/T", func() {
		for _, in := range rph.Block().Instrs {
			p, ok := in.(*ssa.Phi)
			if !ok {
				break
			}
			switch t := p.Type().Underlying().(type) {
			case *types.Slice:
				T = rfc.Val(p)
			case *types.Basic:
				if t.Kind() == types.Bool {
					hasTies = rfc.Val(p)
				}
			}
		}
		if T == nil || hasTies == nil {
			anchorFail("tie vector / hasTies are not carried by the rank loop")
		}
		n := 0
		for _, c := range rfc.CallsTo("builtin:append") {
			if !rfc.Val(c.Call.Args[0]).Equal(T) {
				continue
			}
			n++
			vals := rfc.AppendedValues(c)
			if len(vals) != 1 {
				r.Fail("B-"+which+" rank-pass", name+"/tie-entry", a.W.InstrPos(c), "expected one value appended to the tie vector per rank")
			} else {
				b.Eq("B-"+which+" rank-pass", name+"/tie-entry", a.W.InstrPos(c), vals[0], env, "iI-(iO+1)+1")
			}
		}
		if n != 1 {
			r.Fail("B-"+which+" rank-pass", name+"/tie-entry", b.pos(fn), "expected exactly one append to the tie vector in the rank loop, found "+itoa(n))
		}
	})
	if T == nil || hasTies == nil {
		return
	}
	env.Set("T", T, nil)
	env.Set("hasTies", hasTies, nil)
	env.Set("U1", U, nil)

	// the exact-branch selector and assumptions for each regime
	exactAssume := func(exact bool, extra ...Assumption) []Assumption {
		as := []Assumption{X.AssumeEq(hasTies, S.False())}
		as = append(as, X.AssumeCond(env.MustParse("n1<=stats.MannWhitneyExactLimit"), exact))
		if exact {
			as = append(as, X.AssumeCond(env.MustParse("n2<=stats.MannWhitneyExactLimit"), true))
		}
		return append(as, extra...)
	}
	alts := []struct{ name, val string }{{"LocationLess", "-1"}, {"LocationGreater", "1"}, {"LocationDiffers", "0"}}

	b.guard("B-"+which+" rank-pass", name+"/hasTies", func() {
		hi, hn := fc0.Recurrence(hasTies)
		b.EqRF("B-"+which+" rank-pass", name+"/hasTies-init", b.pos(fn), hi, S.False(), "hasTies starts false")
		b.Eq("B-"+which+" rank-pass", name+"/hasTies-step", b.pos(fn), hn, env, "ite(iO+1<iI, true, hasTies)")
	})
	if which == "C01" {
		const rB = "B-C01 formula"
		b.guard("B-C01 rank-pass", name+"/tie-loop-condition", func() {
			iat := vars["iI"].SingleAtom()
			ph, pfc := X.phiOf[iat.ID], X.phiFC[iat.ID]
			// inner loop: continues while i < len(merged) && merged[i] == v1 (v1 = merged[iO])
			l := pfc.Ctx.LoopOf(ph.Block())
			var body *ssa.BasicBlock
			for bi := range l.Body {
				blk := pfc.Fn.Blocks[bi]
				for _, in := range blk.Instrs {
					if st, ok := in.(*ssa.If); ok {
						if c := pfc.Val(st.Cond); c.Equal(env.MustParse("labels[iI]==1")) {
							body = blk
						}
					}
				}
			}
			if body == nil {
				anchorFail("tie-group loop body not found")
			}
			b.Eq("B-C01 rank-pass", name+"/tie-loop-condition", b.pos(fn), pfc.ReachCondFrom(ph.Block(), body), env, "iI<len(merged) && merged[iI]==merged[iO]")
		})
		// labeledMerge is given SORTED data (it merges, it does not sort): each of its two arguments
		// is handed to a sort of float64s (sort.Float64s / slices.Sort) on a way that dominates the
		// merge — and is a copy, not the caller's slice (engine A decides the no-mutation part)
		b.guard(rB, name+"/merge-inputs-sorted", func() {
			var mc *ssa.Call
			var mfc *FC
			for _, sfc := range fc0.BoundCallees(1) {
				for _, c := range sfc.CallsTo("stats.labeledMerge") {
					mc, mfc = c, sfc
				}
			}
			if mc == nil {
				anchorFail("no call of labeledMerge")
			}
			for k := 0; k < 2; k++ {
				arg := mfc.Val(mc.Call.Args[k])
				sorted := false
				for _, sc := range mfc.CallsTo("sort.Float64s") {
					if mfc.Val(sc.Call.Args[0]).Equal(arg) && mfc.Ctx.Dominates(sc.Block(), mc.Block()) {
						sorted = true
					}
				}
				// … or through the interface: sort.Sort(sort.Float64Slice(s))
				for _, sc := range mfc.CallsTo("sort.Sort") {
					sv := sc.Call.Args[0]
					if mi, ok := sv.(*ssa.MakeInterface); ok {
						sv = mi.X
					}
					if ct, ok := sv.(*ssa.ChangeType); ok && ct.Type().String() == "sort.Float64Slice" {
						sv = ct.X
					} else {
						continue
					}
					if mfc.Val(sv).Equal(arg) && mfc.Ctx.Dominates(sc.Block(), mc.Block()) {
						sorted = true
					}
				}
				// … or it is what a helper of the module returns after sorting it (sortedCopy(x))
				if hc, isCall := mc.Call.Args[k].(*ssa.Call); isCall && !sorted {
					if hf := hc.Call.StaticCallee(); hf != nil && hf.Blocks != nil && a.W.IsLibFunc(hf) && hf.Signature.Results().Len() == 1 {
						hfc := X.FCFor(hf)
						rets := hfc.Ctx.Returns()
						all := len(rets) > 0
						for _, rt := range rets {
							okr := false
							for _, sc := range hfc.CallsTo("sort.Float64s") {
								if hfc.Val(sc.Call.Args[0]).Equal(hfc.Val(rt.Results[0])) && hfc.Ctx.Dominates(sc.Block(), rt.Block()) {
									okr = true
								}
							}
							// (an already sorted input may be handed back as it is)
							if !okr && hfc.HoldsAt(rt.Block(), S.MakeFn("sort.Float64sAreSorted", hfc.Val(rt.Results[0]))) {
								okr = true
							}
							if !okr {
								all = false
							}
						}
						sorted = all
					}
				}
				tag := name + "/merge-inputs-sorted/x" + itoa(k+1)
				if os.Getenv("GMSA_DEBUG_C01") != "" {
					fmt.Fprintf(os.Stderr, "C01 arg%d=%s\n", k+1, clip(arg.String(), 200))
				}
				if sorted {
					r.OK(rB, tag, a.W.InstrPos(mc), "sorted before the merge")
				} else {
					r.Fail(rB, tag, a.W.InstrPos(mc), "argument "+itoa(k+1)+" of labeledMerge is not sorted on every way to the merge: the ranks are those of an unsorted sequence")
				}
			}
		})
		// the rank pass goes on exactly while samples are left (a pass that stops early, or never
		// starts, leaves ranks unassigned: R1 too small)
		b.guard("B-C01 rank-pass", name+"/rank-loop-condition", func() {
			oat := vars["iO"].SingleAtom()
			if oat == nil || X.phiOf[oat.ID] == nil {
				anchorFail("the rank loop's position is not a loop-carried value")
			}
			ph, pfc := X.phiOf[oat.ID], X.phiFC[oat.ID]
			l, guard, gblocks, msg := b.loopGuard(pfc, ph.Block())
			if msg != "" {
				r.Fail("B-C01 rank-pass", name+"/rank-loop-condition", b.pos(fn), msg)
				return
			}
			b.Eq("B-C01 rank-pass", name+"/rank-loop-condition", b.pos(fn), guard, env, "iO<len(merged)")
			if m := b.leftEarly(pfc, l, gblocks); m != "" {
				r.Fail("B-C01 rank-pass", name+"/rank-loop-exits", b.pos(fn), m)
			}
		})
		b.guard(rB, name+"/U2", func() {
			want := env.MustParse("fmin(U1, n1*n2-U1)")
			for _, c := range fc0.CallsTo("math.Min") {
				if fc0.Val(c).Equal(want) {
					r.OK(rB, name+"/Usmall", a.W.InstrPos(c), "Usmall ≡ min(U1, n1*n2-U1)")
					return
				}
			}
			r.Fail(rB, name+"/Usmall", b.pos(fn), "no min(U1, n1*n2-U1) is computed")
		})
		// exact branch
		var step *RF
		if sf := b.Fn(rB, "stats.(UDist).Step"); sf != nil {
			b.guard(rB, "stats.(UDist).Step", func() { step = X.FCFor(sf).RetVal(0) })
		}
		for _, al := range alts {
			al := al
			construct := name + "/exact/" + al.name
			b.guard(rB, construct, func() {
				fc := X.Under(fn, exactAssume(true,
					X.AssumeEq(env.Vars["alt"].RF, env.MustParse(al.val)),
					X.AssumeCond(env.MustParse("len(T)==1"), false))...)
				P := fc.Sub(fc.LitField("MannWhitneyUTestResult", "P"))
				env.Let("D", "UDist(n1, n2, T)")
				switch al.name {
				case "LocationLess":
					b.Eq(rB, construct, b.pos(fn), P, env, "D.CDF(U1)")
				case "LocationGreater":
					// P = 1 - D.CDF(U1 - c), 0 < c <= Step
					cdfs := FindFn(P, "call:CDF")
					if len(cdfs) != 1 {
						r.Fail(rB, construct, b.pos(fn), "P is not 1 - CDF(·): "+clip(P.String(), 200))
						return
					}
					env.Set("F", S.atomRF(cdfs[0].ID), nil)
					if !b.Eq(rB, construct+"/shape", b.pos(fn), P, env, "1-F") {
						return
					}
					b.Eq(rB, construct+"/dist", b.pos(fn), cdfs[0].Args[0], env, "D")
					c := U.Sub(cdfs[0].Args[1])
					cv, ok := c.IsConst()
					sv, ok2 := step.IsConst()
					switch {
					case step == nil || !ok2:
						r.Undecided(rB, construct+"/offset", b.pos(fn), "UDist.Step is not a constant")
					case !ok:
						r.Fail(rB, construct+"/offset", b.pos(fn), "upper tail is not 1-CDF(U-c) for a constant c: U - arg = "+clip(c.String(), 200))
					case cv.Sign() > 0 && cv.Cmp(sv) <= 0:
						r.OK(rB, construct+"/offset", b.pos(fn), "upper tail 1-CDF(U-c) with c="+cv.RatString()+" in (0, Step="+sv.RatString()+"]: exactly Pr[U'>=U] on the lattice")
					default:
						r.Fail(rB, construct+"/offset", b.pos(fn), "upper tail is 1-CDF(U-"+cv.RatString()+") but the distribution's lattice spacing is Step="+sv.RatString()+": with ties the mass at U-1/2 is wrongly included in Pr[U'>=U] (needs 0<c<=Step)")
					}
				case "LocationDiffers":
					cdfs := FindFn(P, "call:CDF")
					ok := false
					if len(cdfs) == 2 {
						for k := 0; k < 2; k++ {
							lo, up := cdfs[k], cdfs[1-k]
							c := U.Sub(up.Args[1])
							cv, isC := c.IsConst()
							sv, isS := step.IsConst()
							if !lo.Args[1].Equal(U) || !isC || !isS || cv.Sign() <= 0 || cv.Cmp(sv) > 0 {
								continue
							}
							env.Set("Flo", S.atomRF(lo.ID), nil)
							env.Set("Fup", S.atomRF(up.ID), nil)
							if P.Equal(env.MustParse("fmin(1, 2*fmin(Flo, 1-Fup))")) {
								ok = true
							}
						}
					}
					if ok {
						r.OK(rB, construct, b.pos(fn), "P ≡ min(1, 2*min(CDF(U1), 1-CDF(U1-c))), 0<c<=Step")
					} else {
						// the recorded finding is this exact formula; anything else is a new violation
						c2 := construct
						if kf := env.MustParse("ite(U1==n1*n2-U1, 1, 2*D.CDF(fmin(U1, n1*n2-U1)))"); P.Equal(kf) || X.EquivByCases(P, kf, 0) {
							c2 += "[code: U1==U2 ? 1 : 2*CDF(min(U1,U2))]"
						}
						r.Fail(rB, c2, b.pos(fn), "two-sided exact P is not min(1, 2*min(Pr[U'<=U], Pr[U'>=U])): code computes "+clip(P.String(), 400))
					}
				}
			})
		}
		b.guard("C-exhaustive", name+"/switch(alt)/exact", func() {
			fc := X.Under(fn, exactAssume(true)...)
			b.switchExhaustiveOn("C-exhaustive", name+"/switch(alt)/exact", fc, env.Vars["alt"].RF, fn.Params[2].Type())
		})
		// labeledMerge
		if lm := b.Fn(rB, "stats.labeledMerge"); lm != nil {
			b.guard(rB, "stats.labeledMerge", func() {
				fc := X.FCFor(lm)
				menv := X.EnvFor(lm, "x1", "x2")
				mr := fc.Ctx.Returns()
				if len(mr) != 1 {
					anchorFail("labeledMerge: returns")
				}
				mslice, lslice := fc.Val(mr[0].Results[0]), fc.Val(mr[0].Results[1])
				for _, sl := range []*RF{mslice, lslice} {
					at := sl.SingleAtom()
					if at == nil || !strings.HasPrefix(at.Name, "makeslice:") {
						r.Fail(rB, "stats.labeledMerge/fresh", b.pos(lm), "results are not freshly made slices")
						return
					}
					b.Eq(rB, "stats.labeledMerge/len", b.pos(lm), at.Args[0], menv, "len(x1)+len(x2)")
				}
				pairs := 0
				seenLab := map[string]bool{}
				fc.Ctx.Instrs(func(in ssa.Instruction) {
					st, ok := in.(*ssa.Store)
					if !ok {
						return
					}
					ia, ok := st.Addr.(*ssa.IndexAddr)
					if !ok || !fc.Val(ia.X).Equal(mslice) {
						return
					}
					// value must be x_k[idx]; sibling label store in the same block at the same output index
					v := fc.Val(st.Val).SingleAtom()
					if v == nil || v.Name != "idx" {
						r.Fail(rB, "stats.labeledMerge/copy", a.W.InstrPos(st), "merged[o] is not assigned an element of an input")
						return
					}
					want := ""
					switch {
					case v.Args[0].Equal(menv.Vars["x1"].RF):
						want = "1"
					case v.Args[0].Equal(menv.Vars["x2"].RF):
						want = "2"
					default:
						r.Fail(rB, "stats.labeledMerge/copy", a.W.InstrPos(st), "merged[o] is not assigned an element of x1 or x2")
						return
					}
					found := false
					seenLab[want] = true
					for _, in2 := range st.Block().Instrs {
						st2, ok := in2.(*ssa.Store)
						if !ok {
							continue
						}
						ia2, ok := st2.Addr.(*ssa.IndexAddr)
						if !ok || !fc.Val(ia2.X).Equal(lslice) {
							continue
						}
						found = true
						pairs++
						okIdx := fc.Val(ia2.Index).Equal(fc.Val(ia.Index))
						okLab := fc.Val(st2.Val).Equal(menv.MustParse(want))
						if okIdx && okLab {
							r.OK(rB, "stats.labeledMerge/pair#"+itoa(pairs), a.W.InstrPos(st), "value from x"+want+" and label "+want+" written at the same output index")
						} else {
							r.Fail(rB, "stats.labeledMerge/pair#"+itoa(pairs), a.W.InstrPos(st), "label/value mismatch: value from x"+want+", label "+fc.Val(st2.Val).String()+", same index: "+map[bool]string{true: "yes", false: "no"}[okIdx])
						}
					}
					if !found {
						r.Fail(rB, "stats.labeledMerge/copy", a.W.InstrPos(st), "no label written alongside the value")
					}
				})
				r.Floor(rB, "labeledMerge value/label pairs", pairs, 2)
				// the merge itself: every copy reads its input at a counter that starts at 0 and
				// advances exactly when that copy is made, writes at an output counter that starts
				// at 0 and advances in every iteration; a loop runs exactly while every input it
				// may read from still has elements; where both inputs are read the smaller head is
				// taken (x1's on `<` or `<=`); each input has a loop that drains what is left of it
				type mcopy struct {
					st      *ssa.Store
					k       int
					I, O    *RF
					when    *RF
					loop    *Loop
					lenK    *RF
					elemRef *RF
				}
				var copies []mcopy
				fc.Ctx.Instrs(func(in ssa.Instruction) {
					st, ok := in.(*ssa.Store)
					if !ok {
						return
					}
					ia, ok := st.Addr.(*ssa.IndexAddr)
					if !ok || !fc.Val(ia.X).Equal(mslice) {
						return
					}
					v := fc.Val(st.Val).SingleAtom()
					if v == nil || v.Name != "idx" {
						return
					}
					k := 0
					switch {
					case v.Args[0].Equal(menv.Vars["x1"].RF):
						k = 1
					case v.Args[0].Equal(menv.Vars["x2"].RF):
						k = 2
					default:
						return
					}
					lp := fc.Ctx.LoopOf(st.Block())
					if lp == nil {
						r.Fail(rB, "stats.labeledMerge/merge", a.W.InstrPos(st), "a copy into merged outside any loop")
						return
					}
					copies = append(copies, mcopy{st, k, v.Args[1], fc.Val(ia.Index), fc.ReachCondFrom(loopBodyEntry(fc, st.Block()), st.Block()), lp, S.MakeFn("len", v.Args[0]), S.atomRF(v.ID)})
				})
				startsAtZero := func(v *RF) bool {
					for depth := 0; depth < 6; depth++ {
						if c, isC := v.IsConst(); isC {
							return c.Sign() == 0
						}
						vi, _ := recurrenceOrNil(fc, v)
						if vi == nil {
							// the merge of a finished loop's exits stands for that loop's counter
							if va := v.SingleAtom(); va != nil && X.phiOf[va.ID] != nil {
								vals, _ := fc.Ctx.PhiLiveEdges(X.phiOf[va.ID])
								if len(vals) == 1 {
									v = fc.Val(vals[0])
									continue
								}
							}
							return false
						}
						v = vi
					}
					return false
				}
				drained := map[int]bool{}
				oneLoop := map[int]bool{}
				// (conditions within an iteration: with the loop's own guard taken as given — the
				// start of the body may lie inside a short-circuit guard)
				for n := range copies {
					if _, g, _, msg := b.loopGuard(fc, copies[n].loop.Header); msg == "" && g != nil {
						copies[n].when = X.SimplifyUnder(copies[n].when, []Assumption{{Cond: g, True: true}})
						if ga := g.SingleAtom(); ga != nil && ga.Name == "land" {
							var as []Assumption
							for _, cj := range ga.Args {
								as = append(as, Assumption{Cond: cj, True: true})
							}
							copies[n].when = X.SimplifyUnder(copies[n].when, as)
						}
					}
				}
				for n, c := range copies {
					cn := "stats.labeledMerge/merge#" + itoa(n+1)
					where := a.W.InstrPos(c.st)
					// one loop over the output positions, taking x1's head when x2 is exhausted or
					// x1 still has elements and its head is the smaller (or the mirror image): the
					// counters satisfy i+j = o throughout, so the loop's guard o < len(x1)+len(x2) and
					// the exhaustion test make every read in range
					if oneLoop[c.loop.Header.Index] {
						continue
					}
					if single := func() bool {
						var o *mcopy
						for j := range copies {
							if copies[j].loop.Header == c.loop.Header && copies[j].st != c.st {
								if o != nil {
									return false
								}
								o = &copies[j]
							}
						}
						if o == nil {
							return false
						}
						_, guard, _, msg := b.loopGuard(fc, c.loop.Header)
						if msg != "" || !(guard.Equal(S.Cmp("<", c.O, c.lenK.Add(o.lenK))) || X.EquivByCases(guard, S.Cmp("<", c.O, c.lenK.Add(o.lenK)), 0)) {
							return false
						}
						if !c.O.Equal(o.O) || !startsAtZero(c.I) || !startsAtZero(o.I) {
							return false
						}
						_, in := recurrenceOrNil(fc, c.I)
						_, jn := recurrenceOrNil(fc, o.I)
						if in == nil || jn == nil {
							return false
						}
						if c.O.Equal(c.I.Add(o.I)) {
							// the output position is written as i+j: exactly one of the two advances, by one
							if d := in.Add(jn).Sub(c.I.Add(o.I)); !(d.Equal(S.Int(1)) || X.EquivByCases(d, S.Int(1), 0)) {
								return false
							}
						} else {
							// i+j = o is kept: the three counters' next values
							_, on := recurrenceOrNil(fc, c.O)
							if on == nil || !startsAtZero(c.O) {
								return false
							}
							if d := in.Add(jn).Sub(on); !(d.Equal(c.I.Add(o.I).Sub(c.O)) || X.EquivByCases(d, c.I.Add(o.I).Sub(c.O), 0)) {
								return false
							}
							if !(on.Equal(c.O.Add(S.Int(1)))) {
								return false
							}
						}
						// within the guard (o < len1+len2, so with i+j = o not both inputs are exhausted)
						inv := []Assumption{{Cond: S.Or(S.Cmp("<", c.I, c.lenK), S.Cmp("<", o.I, o.lenK)), True: true}}
						okWhen := false
						cc := c
						for _, p := range [][2]*mcopy{{&cc, o}, {o, &cc}} {
							f, g := p[0], p[1]
							for _, cmp := range []string{"<", "<="} {
								w := S.Or(S.Cmp("<=", g.lenK, g.I), S.And(S.Cmp("<", f.I, f.lenK), S.Cmp(cmp, f.elemRef, g.elemRef)))
								if (f.when.Equal(w) || X.EquivByCasesUnder(f.when, w, inv)) && (g.when.Equal(S.Not(w)) || X.EquivByCasesUnder(g.when, S.Not(w), inv)) {
									okWhen = true
								}
							}
						}
						return okWhen
					}(); single {
						oneLoop[c.loop.Header.Index] = true
						drained[1], drained[2] = true, true
						r.OK(rB, cn+"/one-loop", where, "one loop over the output positions (i+j = o): a head is taken from one input when the other is exhausted or its head is the smaller")
						continue
					}
					_, in := recurrenceOrNil(fc, c.I)
					_, on := recurrenceOrNil(fc, c.O)
					// (the output position may be written as the sum of the two input positions)
					sumPos := false
					for _, o := range copies {
						if o.loop.Header == c.loop.Header && o.st != c.st && c.O.Equal(c.I.Add(o.I)) {
							sumPos = true
						}
					}
					if in == nil || (on == nil && !sumPos) {
						r.Fail(rB, cn, where, "the input or output position of a copy is not a counter carried round its loop")
						continue
					}
					b.EqRF(rB, cn+"/input-advances", where, in, S.Ite(c.when, c.I.Add(S.Int(1)), c.I), "the input counter advances exactly when its element is copied")
					if sumPos {
						r.OK(rB, cn+"/output-advances", where, "the output position is the sum of the two input positions, exactly one of which advances")
					} else {
						b.EqRF(rB, cn+"/output-advances", where, on, c.O.Add(S.Int(1)), "the output counter advances in every iteration")
					}
					if startsAtZero(c.I) && (sumPos || startsAtZero(c.O)) {
						r.OK(rB, cn+"/from-zero", where, "input and output counters start at 0")
					} else {
						r.Fail(rB, cn+"/from-zero", where, "an input or output counter does not start at 0: elements are skipped or slots left unset")
					}
					// the loop's guard: every input read in this loop has an element left, and nothing more
					want := S.True()
					var others []mcopy
					for _, o := range copies {
						if o.loop.Header == c.loop.Header {
							want = S.And(want, S.Cmp("<", o.I, o.lenK))
							if o.st != c.st {
								others = append(others, o)
							}
						}
					}
					_, guard, _, msg := b.loopGuard(fc, c.loop.Header)
					if msg != "" {
						r.Fail(rB, cn+"/while", where, msg)
					} else {
						b.EqRF(rB, cn+"/while", where, guard, want, "the loop runs exactly while every input it reads has an element left")
					}
					switch len(others) {
					case 0:
						b.EqRF(rB, cn+"/drains", where, c.when, S.True(), "a loop over one input copies an element in every iteration")
						drained[c.k] = true
					case 1:
						o := others[0]
						lt, le := S.Cmp("<", c.elemRef, o.elemRef), S.Cmp("<=", c.elemRef, o.elemRef)
						gt, ge := S.Not(S.Cmp("<=", c.elemRef, o.elemRef)), S.Not(S.Cmp("<", c.elemRef, o.elemRef))
						_, _ = gt, ge
						okc := false
						for _, w := range []*RF{lt, le, S.Not(S.Cmp("<", o.elemRef, c.elemRef)), S.Not(S.Cmp("<=", o.elemRef, c.elemRef))} {
							if c.when.Equal(w) || X.EquivByCases(c.when, w, 0) {
								okc = true
							}
						}
						if okc {
							r.OK(rB, cn+"/smaller-head", where, "where both inputs are read, this one's head is taken when it is the smaller")
						} else {
							r.Fail(rB, cn+"/smaller-head", where, "where both inputs are read, this input's head is taken when "+clip(c.when.String(), 160)+", not when it is the smaller: merged is not sorted")
						}
					default:
						r.Fail(rB, cn, where, "more than two copies in one loop")
					}
				}
				// (what is left of an input may be moved by the builtin: copy(merged[o:], xk[ik:]))
				for _, cc := range fc.CallsTo("builtin:copy") {
					dst, src := fc.Val(cc.Call.Args[0]).SingleAtom(), fc.Val(cc.Call.Args[1]).SingleAtom()
					if dst == nil || src == nil || dst.Name != "slice" || src.Name != "slice" || !dst.Args[0].Equal(mslice) {
						continue
					}
					for k, xk := range map[int]*RF{1: menv.Vars["x1"].RF, 2: menv.Vars["x2"].RF} {
						if src.Args[0].Equal(xk) && len(fc.loopPhis(src.Args[1])) > 0 {
							drained[k] = true
						}
					}
				}
				if len(copies) > 0 {
					if drained[1] && drained[2] {
						r.OK(rB, "stats.labeledMerge/merge/drains-both", b.pos(lm), "each input has a loop that copies what is left of it")
					} else {
						r.Fail(rB, "stats.labeledMerge/merge/drains-both", b.pos(lm), "an input has no loop that copies what is left of it once the other is exhausted")
					}
				}
				if !seenLab["1"] || !seenLab["2"] {
					r.Fail(rB, "stats.labeledMerge/copy", b.pos(lm), "merged is not filled from both x1 (label 1) and x2 (label 2)")
				}
			})
		}
		return
	}

	// ---- C03 ----
	const rB = "B-C03 formula"
	a.CheckNoMutation(r, "A-1 no-mutation", fn, nil)
	b.ErrGuard("C-guard error-returns", fc0, env, "ErrSampleSize", "n1==0 || n2==0")
	mu := "(n1*n2/2)"
	sigma := "sqrt(n1*n2*((n1+n2+1)-tieCorrection(T)/((n1+n2)*(n1+n2-1)))/12)"
	const sel = "(!hasTies && n1<=stats.MannWhitneyExactLimit && n2<=stats.MannWhitneyExactLimit) || (hasTies && n1<=stats.MannWhitneyTiesExactLimit && n2<=stats.MannWhitneyTiesExactLimit)"
	// the error result as one gated value: which error, under which condition, in which order
	b.guard("C-guard error-returns", name+"/error-result", func() {
		E := fc0.RetVal(1)
		b.Eq("C-guard error-returns", name+"/error-result", b.pos(fn), E, env,
			"ite(n1==0 || n2==0, stats.ErrSampleSize, ite("+sel+", ite(len(T)==1, stats.ErrSamplesEqual, nil), ite("+sigma+"==0, stats.ErrSamplesEqual, nil)))")
	})
	// the sentinel errors are assigned nowhere (they are compared against nil above)
	for _, g := range []string{"ErrSampleSize", "ErrSamplesEqual"} {
		var writers []string
		for _, f := range a.W.FuncList {
			if f.Name() == "init" {
				continue
			}
			for _, blk := range f.Blocks {
				for _, in := range blk.Instrs {
					if st, ok := in.(*ssa.Store); ok {
						if gl, ok := st.Addr.(*ssa.Global); ok && gl.Name() == g && gl.Pkg == fn.Pkg {
							writers = append(writers, a.W.FuncName(f))
						}
					}
				}
			}
		}
		if len(writers) == 0 {
			r.OK("C-guard error-returns", "writes of "+g, "", "assigned only by the package initialiser")
		} else {
			r.Fail("C-guard error-returns", "writes of "+g, "", "reassigned by "+strings.Join(writers, ","))
		}
	}
	// method selection: the reach condition of the exact branch (where the UDist is
	// built), over the loop-free region that leads to it, given non-empty samples
	b.guard("C-decision method-selection", name, func() {
		fcm := X.Under(fn, X.AssumeCond(env.MustParse("n1==0"), false), X.AssumeCond(env.MustParse("n2==0"), false))
		blk := fcm.blockOfLit("UDist")
		start := fcm.Ctx.LoopFreeRegionStart(blk)
		got := fcm.Sub(fcm.ReachCondFrom(start, blk))
		w1, w2 := env.MustParse(sel), env.MustParse("("+sel+") && len(T)!=1")
		if got.Equal(w1) || got.Equal(w2) || X.EquivByCases(got, w1, 0) || X.EquivByCases(got, w2, 0) {
			r.OK("C-decision method-selection", name, b.pos(fn), "exact branch taken ≡ "+sel+" (and the tie vector has more than one entry)")
		} else {
			r.Fail("C-decision method-selection", name, b.pos(fn), "exact branch is taken under "+clip(got.String(), 500)+" ; stated: "+sel)
		}
	})
	// the two limits are read only here
	for _, g := range []string{"MannWhitneyExactLimit", "MannWhitneyTiesExactLimit"} {
		readers := map[string]bool{}
		accepted := map[string]bool{}
		for _, f := range a.W.FuncList {
			for _, blk := range f.Blocks {
				for _, in := range blk.Instrs {
					if u, ok := in.(*ssa.UnOp); ok {
						if gl, ok := u.X.(*ssa.Global); ok && gl.Name() == g {
							readers[a.W.FuncName(f)] = true
						}
					}
				}
			}
		}
		delete(readers, name)
		// a helper all of whose callers are MannWhitneyUTest (or such helpers) is part of it
		for changed := true; changed; {
			changed = false
			for rn := range readers {
				f := a.W.Fn(rn)
				if f == nil {
					continue
				}
				node := a.W.CG.Nodes[f]
				okAll := node != nil && len(node.In) > 0
				if node != nil {
					for _, e := range node.In {
						cn := a.W.FuncName(e.Caller.Func)
						if cn != name && !accepted[cn] {
							okAll = false
						}
					}
				}
				if okAll {
					accepted[rn] = true
					delete(readers, rn)
					changed = true
				}
			}
		}
		if len(readers) == 0 {
			r.OK("C-decision method-selection", "reads of "+g, "", "read only by MannWhitneyUTest (and helpers called only from it)")
		} else {
			var rs []string
			for k := range readers {
				rs = append(rs, k)
			}
			sort.Strings(rs)
			r.Fail("C-decision method-selection", "reads of "+g, "", "also read by "+strings.Join(rs, ","))
		}
	}
	// normal approximation
	specs := map[string]string{
		"LocationLess":    "stats.StdNormal.CDF((U1-" + mu + "+0.5)/" + sigma + ")",
		"LocationGreater": "1-stats.StdNormal.CDF((U1-" + mu + "-0.5)/" + sigma + ")",
		"LocationDiffers": "2*fmin(stats.StdNormal.CDF((U1-" + mu + "-mathx.Sign(U1-" + mu + ")*0.5)/" + sigma + "), 1-stats.StdNormal.CDF((U1-" + mu + "-mathx.Sign(U1-" + mu + ")*0.5)/" + sigma + "))",
	}
	for _, al := range alts {
		al := al
		construct := name + "/normal-approx/" + al.name
		b.guard(rB, construct, func() {
			as := exactAssume(false, X.AssumeEq(env.Vars["alt"].RF, env.MustParse(al.val)),
				X.AssumeCond(env.MustParse(sigma+"==0"), false))
			fc := X.Under(fn, as...)
			b.EqUnder(rB, construct, b.pos(fn), fc, fc.LitField("MannWhitneyUTestResult", "P"), env, specs[al.name])
		})
	}
	b.guard("C-exhaustive", name+"/switch(alt)/approx", func() {
		fc := X.Under(fn, exactAssume(false)...)
		b.switchExhaustiveOn("C-exhaustive", name+"/switch(alt)/approx", fc, env.Vars["alt"].RF, fn.Params[2].Type())
	})
	if tc := b.Fn(rB, "stats.tieCorrection"); tc != nil {
		b.guard(rB, "stats.tieCorrection", func() {
			fc := X.FCFor(tc)
			tenv := X.EnvFor(tc, "ties")
			rv := fc.RetVal(0)
			idxs := FindFn(fc.loopNext(rv), "idx")
			if len(idxs) != 1 {
				anchorFail("tieCorrection: expected one element read per iteration")
			}
			tenv.Set("tie", S.atomRF(idxs[0].ID), nil)
			// (LoopSystem lets an integer counter play a role offset by one: the result must be the
			// role itself, or an accumulator started at 1 would pass as `t` = accumulator − 1)
			if vars := b.LoopSystem(rB, "stats.tieCorrection/recurrence", b.pos(tc), fc, rv, tenv, []recSpec{{"t", "0", "t+tie*tie*tie-tie"}}); vars != nil {
				b.EqRF(rB, "stats.tieCorrection/result", b.pos(tc), rv, vars["t"], "returns the accumulated sum")
				b.FullScan("C-scan coverage", "stats.tieCorrection/every-rank", b.pos(tc), fc, idxs[0].Args[1], S.MakeFn("len", idxs[0].Args[0]))
			}
			b.EqRF(rB, "stats.tieCorrection/source", b.pos(tc), idxs[0].Args[0], tenv.Vars["ties"].RF, "iterates over the tie vector")
		})
	}
	for _, f := range [][2]string{{"N1", "n1"}, {"N2", "n2"}, {"AltHypothesis", "alt"}} {
		f := f
		b.guard(rB, name+"/result."+f[0], func() {
			b.Eq(rB, name+"/result."+f[0], b.pos(fn), fc0.LitField("MannWhitneyUTestResult", f[0]), env, f[1])
		})
	}
	if R1 != nil {
		r.OK(rB, name+"/result.U", b.pos(fn), "U ≡ R1 - n1(n1+1)/2 with R1 the accumulated rank sum (recurrences under C01)")
	}
}

// loopNext: back-edge value of the (single) loop-carried atom r denotes.
func (fc *FC) loopNext(r *RF) *RF {
	_, nx := fc.Recurrence(r)
	return nx
}
