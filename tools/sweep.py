#!/usr/bin/env python3
"""Mutation sweep (development aid, not a registered check): every single-token mutant of the
library (bin/mutgen) is applied to a scratch copy and the quick checks of the properties anchored
in that file are run on it (static analysis only: nothing is executed). A mutant no check notices
is either equivalent or a hole in the obligations; survivors are listed per function for triage.
usage: sweep.py <outfile.jsonl> [file-substring] [--jobs N]"""
import json, os, subprocess, sys, tempfile, shutil, multiprocessing
out = sys.argv[1]; filt = sys.argv[2] if len(sys.argv) > 2 and not sys.argv[2].startswith('--') else ''
jobs = int(sys.argv[sys.argv.index('--jobs')+1]) if '--jobs' in sys.argv else 10
GMSA = os.environ.get('GMSA_BIN', '/verif/bin/gmsa')
props = [json.loads(l) for l in open('/verif/properties.jsonl')]
byfile = {}
for p in props:
    for f in p['anchors']['files']:
        byfile.setdefault(f, []).append(p['id'])
# properties that import another one's obligations see its files too (cheap ones first)
extra = {'stats/udist.go': ['C02', 'C01'], 'mathx/choose.go': ['C08', 'C06'], 'stats/alg.go': ['C12', 'C07', 'C11', 'C02', 'C06'], 'vec/vec.go': ['C09', 'C17']}
def propsfor(f):
    ps = list(byfile.get(f, []))
    for q in extra.get(f, []):
        if q not in ps: ps.append(q)
    if 'C20' in ps: ps.remove('C20'); ps.append('C20')
    return ps or ['C20']
def run(m):
    d = tempfile.mkdtemp(prefix='sw.', dir='/tmp'); v = tempfile.mkdtemp(prefix='swv.', dir='/tmp')
    try:
        subprocess.run(['rsync', '-a', '--exclude', '.git', '/repo/', d + '/'], check=True)
        p = d + '/' + m['file']; s = open(p, 'rb').read()
        s = s[:m['off']] + m['new'].encode() + s[m['off'] + m['len']:]
        open(p, 'wb').write(s)
        shutil.copy('/verif/known_findings.json', v)
        m['status'] = 'survived'; m['tried'] = []
        for pr in propsfor(m['file']):
            try:
                r = subprocess.run([GMSA, 'check', pr, '--repo', d, '--verif', v, '--no-controls'], capture_output=True, text=True, timeout=600)
            except subprocess.TimeoutExpired:
                m['status'] = 'timeout'; m['by'] = pr; break
            o = r.stdout + r.stderr
            if 'rule=load ' in o:
                m['status'] = 'nocompile'; break
            m['tried'].append(pr)
            if r.returncode != 0:
                m['status'] = 'killed'; m['by'] = pr
                for l in o.splitlines():
                    if 'FAILED' in l or 'UNDECIDED' in l:
                        m['first'] = l.strip()[:200]; break
                break
    finally:
        shutil.rmtree(d, ignore_errors=True); shutil.rmtree(v, ignore_errors=True)
    return m
if __name__ == '__main__':
    ms = [json.loads(l) for l in subprocess.run(['/verif/bin/mutgen', '/repo'], capture_output=True, text=True).stdout.splitlines()]
    ms = [m for m in ms if filt in m['file']]
    kinds = os.environ.get('SWEEP_KINDS')  # comma-separated prefixes of mutant kinds to keep (with MUTGEN_B=1: 'cond,delete,float+1')
    if kinds:
        ms = [m for m in ms if any(m['kind'].startswith(k) for k in kinds.split(','))]
    ms = [m for m in ms if not m['file'].endswith('_string.go')]
    src = {}
    for m in ms:
        if m['file'] not in src: src[m['file']] = open('/repo/' + m['file']).read().splitlines()
        m['text'] = src[m['file']][m['line'] - 1].strip()[:160]
    with multiprocessing.Pool(jobs) as pool, open(out, 'w') as fo:
        n = 0
        for m in pool.imap_unordered(run, ms):
            fo.write(json.dumps(m) + '\n'); fo.flush(); n += 1
            if n % 50 == 0: print(n, '/', len(ms), file=sys.stderr, flush=True)
