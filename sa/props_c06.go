package main

import (
	"go/types"
	"math/big"
)

func init() {
	propFuncs["C06"] = propC06
	propInfos["C06"] = &PropInfo{
		Level:   "other",
		Explain: "Structural necessary conditions decided statically (DESIGN.md §5 C06): D-floor — PMF/CDF of both distributions convert math.Floor(k) (a non-integer k is treated as floor(k), also for negative k); engine B — support decision lists (0 outside / 0 below, 1 from the top), binomial PMF = Choose(N,k)P^k(1-P)^(N-k), CDF = BetaInc(1-P, N-k, k+1), Mean, Variance, NormalApprox, Bounds; hypergeometric support max(0,Draws+K-N)..min(Draws,K), pmf by log-binomials, the tail flip (k' = K-k-1, Draws' = N-Draws, 1-p), CDF = pmf(k)*sum(k), the term ratio recurrence and loop bound of sum, Mean, Variance, Bounds; Step() = 1 and both types implement DiscreteDist. Added after the mutation sweep: the truncation test of the hypergeometric sum (goes on exactly while eps < ak/sum).",
		Assume:  []string{"A4 reals", "preconditions: N, K, Draws >= 0"},
		Undec:   []string{"1e-10 agreement with exact rationals (accuracy of BetaInc, Lchoose, the truncated series)", "that the closed-form moments equal the first two moments of the computed PMF"},
	}
}

func propC06(a *Analysis, r *Registry) {
	b := NewB(a, r)
	X := b.X
	// functions whose own formula is an obligation elsewhere (C08, imported) stay opaque here
	for _, f := range []string{"mathx.Lchoose", "mathx.Choose", "mathx.BetaInc"} {
		X.NoInline[f] = true
	}
	const rB = "B-C06 formula"
	ki := [][2]string{{"ki", "int(floor(k))"}}
	b.Formula(rB, "stats.(BinomialDist).PMF", "stats.(BinomialDist).PMF", []string{"d", "k"}, ki, 0,
		"ite(ki<0 || d.N<ki, 0, mathx.Choose(d.N,ki)*pow(d.P,ki)*pow(1-d.P,d.N-ki))", nil)
	b.Formula(rB, "stats.(BinomialDist).CDF", "stats.(BinomialDist).CDF", []string{"d", "k"}, ki, 0,
		"ite(ki<0, 0, ite(d.N<=ki, 1, mathx.BetaInc(1-d.P, d.N-ki, floor(k)+1)))", nil)
	b.Formula(rB, "stats.(BinomialDist).Bounds/lo", "stats.(BinomialDist).Bounds", []string{"d"}, nil, 0, "0", nil)
	b.Formula(rB, "stats.(BinomialDist).Bounds/hi", "stats.(BinomialDist).Bounds", []string{"d"}, nil, 1, "d.N", nil)
	b.Formula(rB, "stats.(BinomialDist).Step", "stats.(BinomialDist).Step", []string{"d"}, nil, 0, "1", nil)
	b.Formula(rB, "stats.(BinomialDist).Mean", "stats.(BinomialDist).Mean", []string{"d"}, nil, 0, "d.N*d.P", nil)
	b.Formula(rB, "stats.(BinomialDist).Variance", "stats.(BinomialDist).Variance", []string{"d"}, nil, 0, "d.N*d.P*(1-d.P)", nil)
	b.Formula(rB, "stats.(BinomialDist).NormalApprox", "stats.(BinomialDist).NormalApprox", []string{"d"}, nil, 0, "NormalDist(d.N*d.P, sqrt(d.N*d.P*(1-d.P)))", nil)

	lh := [][2]string{{"ki", "int(floor(k))"}, {"l", "maxint(0, d.Draws+d.K-d.N)"}, {"h", "minint(d.Draws, d.K)"}}
	b.Formula(rB, "stats.(HypergeometicDist).bounds/lo", "stats.(HypergeometicDist).bounds", []string{"d"}, lh[1:], 0, "l", nil)
	b.Formula(rB, "stats.(HypergeometicDist).bounds/hi", "stats.(HypergeometicDist).bounds", []string{"d"}, lh[1:], 1, "h", nil)
	b.Formula(rB, "stats.(HypergeometicDist).Bounds/lo", "stats.(HypergeometicDist).Bounds", []string{"d"}, lh[1:], 0, "l", nil)
	b.Formula(rB, "stats.(HypergeometicDist).Bounds/hi", "stats.(HypergeometicDist).Bounds", []string{"d"}, lh[1:], 1, "h", nil)
	b.Formula(rB, "stats.(HypergeometicDist).Step", "stats.(HypergeometicDist).Step", []string{"d"}, nil, 0, "1", nil)
	b.Formula(rB, "stats.(HypergeometicDist).pmf", "stats.(HypergeometicDist).pmf", []string{"d", "k"}, nil, 0,
		"exp(mathx.Lchoose(d.K,k)+mathx.Lchoose(d.N-d.K,d.Draws-k)-mathx.Lchoose(d.N,d.Draws))", nil)
	b.Formula(rB, "stats.(HypergeometicDist).PMF", "stats.(HypergeometicDist).PMF", []string{"d", "k"}, lh, 0,
		"ite(ki<l || h<ki, 0, d.pmf(ki))", nil)
	b.Formula(rB, "stats.(HypergeometicDist).CDF", "stats.(HypergeometicDist).CDF", []string{"d", "k"},
		append(lh, [2]string{"flip", "idiv(d.Draws+1, d.N+1)*(d.K+1) < ki"},
			[2]string{"D2", "HypergeometicDist(d.N, d.K, ite(flip, d.N-d.Draws, d.Draws))"},
			[2]string{"k2", "ite(flip, d.K-ki-1, ki)"},
			[2]string{"p", "D2.pmf(k2)*D2.sum(k2)"}), 0,
		"ite(ki<l, 0, ite(h<=ki, 1, ite(flip, 1-p, p)))", nil)
	b.Formula(rB, "stats.(HypergeometicDist).Mean", "stats.(HypergeometicDist).Mean", []string{"d"}, nil, 0, "d.Draws*d.K/d.N", nil)
	b.Formula(rB, "stats.(HypergeometicDist).Variance", "stats.(HypergeometicDist).Variance", []string{"d"}, nil, 0,
		"d.Draws*d.K*(d.N-d.K)*(d.N-d.Draws)/(d.N*d.N*(d.N-1))", nil)
	if fn := b.Fn(rB, "stats.(HypergeometicDist).sum"); fn != nil {
		b.guard(rB, "stats.(HypergeometicDist).sum", func() {
			fc := X.FCFor(fn)
			env := X.EnvFor(fn, "d", "k")
			rv := fc.RetVal(0)
			ratio := "ak*(1+k-dk)/(d.Draws-k+dk)*(d.N-d.K-d.Draws+k+1-dk)/(d.K-k+dk)"
			vars := b.LoopSystem(rB, "stats.(HypergeometicDist).sum/term-ratio", b.pos(fn), fc, rv, env, []recSpec{
				{"dk", "1", "dk+1"}, {"ak", "1", ratio}, {"sum", "1", "sum+" + ratio},
			})
			if vars != nil {
				for k, v := range vars {
					env.Set(k, v, nil)
				}
				b.EqRF(rB, "stats.(HypergeometicDist).sum/result", b.pos(fn), rv, vars["sum"], "returns the accumulated sum")
				// loop bound dk <= k-L: however the loop is written, another iteration is run only
				// while dk <= k-L, and any further condition for going on (the truncation of
				// negligible terms) does not involve dk
				// (the counter role may be played by a loop counter offset by one)
				dkPhis := fc.loopPhis(vars["dk"])
				if len(dkPhis) != 1 || dkPhis[0].SingleAtom() == nil || X.phiOf[dkPhis[0].SingleAtom().ID] == nil {
					r.Fail(rB, "stats.(HypergeometicDist).sum/bound", b.pos(fn), "the term counter is not driven by one loop counter")
					return
				}
				dkAtom := dkPhis[0].SingleAtom()
				ph := X.phiOf[dkAtom.ID]
				cont := fc.ContinueCond(ph.Block())
				bound := env.MustParse("dk<=k-maxint(0, d.Draws+d.K-d.N)")
				past := X.SimplifyUnder(cont, []Assumption{{Cond: bound, True: false}})
				within := X.SimplifyUnder(cont, []Assumption{{Cond: bound, True: true}})
				switch {
				case !past.Equal(X.S.False()):
					r.Fail(rB, "stats.(HypergeometicDist).sum/bound", b.pos(fn), "the loop can go on past dk <= k-L: continues while "+clip(cont.String(), 300))
				case len(FindAtomID(within, dkAtom.ID)) > 0:
					r.Fail(rB, "stats.(HypergeometicDist).sum/bound", b.pos(fn), "the loop stops on a further condition on dk besides dk <= k-L: "+clip(within.String(), 300))
				default:
					r.OK(rB, "stats.(HypergeometicDist).sum/bound", b.pos(fn), "another term is added only while dk <= k-L (besides the truncation of negligible terms)")
				}
				// the truncation itself: within the bound the loop goes on exactly while the last
				// term is still non-negligible relative to the sum — eps < ak/sum (or eps·sum < ak)
				// for a small positive constant eps; the reverse test stops after the first term
				truncOK := within.Equal(X.S.True())
				if wa := within.SingleAtom(); wa != nil && (wa.Name == "cmp<" || wa.Name == "cmp<=") {
					lo, hi := wa.Args[0], wa.Args[1]
					small := func(r *RF) bool {
						c, isC := r.IsConst()
						return isC && c.Sign() > 0 && c.Cmp(big.NewRat(1, 1000000000)) <= 0
					}
					rel := vars["ak"].Div(vars["sum"])
					if small(lo) && (hi.Equal(rel) || X.EquivByCases(hi, rel, 0)) {
						truncOK = true
					}
					if !truncOK {
						// eps·sum < ak
						for _, eps := range []string{"1e-14", "1e-15", "1e-16", "1e-13", "1e-12"} {
							if hi.Equal(vars["ak"]) && lo.Equal(env.MustParse(eps+"*sum")) {
								truncOK = true
							}
						}
					}
				}
				if truncOK {
					r.OK(rB, "stats.(HypergeometicDist).sum/truncation", b.pos(fn), "within the bound the loop goes on exactly while the last term is non-negligible (eps < ak/sum)")
				} else {
					r.Fail(rB, "stats.(HypergeometicDist).sum/truncation", b.pos(fn), "within the bound the loop goes on while "+clip(within.String(), 200)+", not while the last term is non-negligible relative to the sum: terms that matter are dropped")
				}
			}
		})
	}
	// the integer helpers the bounds are written with (pinned on their own: the specs call them too)
	for _, h := range [][2]string{{"stats.maxint", "ite(a<b, b, a)"}, {"stats.minint", "ite(a<b, a, b)"}} {
		b.Formula(rB, h[0], h[0], []string{"a", "b"}, nil, 0, h[1], nil)
	}
	b.CheckDFloor("D-floor", "stats.(BinomialDist).PMF", "stats.(BinomialDist).CDF", "stats.(HypergeometicDist).PMF", "stats.(HypergeometicDist).CDF")
	// both implement DiscreteDist
	if dd, ok := a.W.Lib["stats"].Members["DiscreteDist"]; ok {
		iface := dd.Type().Underlying().(*types.Interface)
		for _, tn := range []string{"BinomialDist", "HypergeometicDist"} {
			m, ok := a.W.Lib["stats"].Members[tn]
			if !ok {
				r.Undecided("C-signature", tn, "", "type not found")
				continue
			}
			if types.Implements(m.Type(), iface) {
				r.OK("C-signature", tn+" implements DiscreteDist", "", "PMF, CDF, Step, Bounds have the signatures the interface dispatches on")
			} else {
				r.Fail("C-signature", tn+" implements DiscreteDist", "", "method set no longer satisfies stats.DiscreteDist")
			}
		}
	}
}
