package main

import (
	"fmt"
	"go/token"
	"go/types"
	"sort"
	"strings"

	"golang.org/x/tools/go/ssa"
)

func init() {
	propFuncs["C19"] = propC19
	propInfos["C19"] = &PropInfo{
		Level:   "other",
		Explain: "Structural necessary conditions decided statically — NOT that the results equal the definition of dominance (that is a fixed point over the paths of an input graph and stays undecided). Decided: IDom follows the Cooper–Harvey–Kennedy iteration the source cites: post-order numbering poNum[po[i]] = i of PostOrder(g, root), reverse post-order processing, all entries start at the -1 sentinel, the root is its own idom during the iteration and is reset to -1 afterwards (pairing), the iteration repeats while something changed, per node the new idom is the first PROCESSED predecessor (idom[p] != -1) intersected with the other processed predecessors, idom[b] is updated exactly when it differs and that sets changed; intersect advances the finger with the smaller post-order number through idom until the fingers meet; DomFrontier goes through the predecessors of b exactly when b is a join (>= 2 predecessors) that is reachable or the root, starts a walk from exactly the predecessors that are reachable or the root (both directions: reach condition ≡ !(len(g.In(b))<2) && !(idom[b]==-1 && b!=root), resp. !(idom[pred]==-1 && pred!=root)), walks runner = pred, runner = idom[runner] while runner != idom[b], adding b to df[runner] once; sentinel discipline (sibling agreement with IDom, which skips predecessors whose idom is -1): between taking a predecessor from g.In(b) and indexing with the walk variable the -1 sentinel must be tested (on the predecessor, or in the walk's condition) — otherwise an unreachable predecessor of a reachable join indexes with -1; Reverse exchanges xs[i] and xs[len-1-i] for i from 0 while i < len-1-i and returns xs (IDom's reverse post-order is Reverse(PostOrder)); DomTree.In(n) = idom[n:n+1]; Dom inverts idom: counts children per parent skipping -1, carves capacity-limited child slices from one backing array, appends each node to its parent's list; engine A: none of them writes its inputs. Added after seed round 8 and the mutation sweep: every node and predecessor gone through without early exit, a further walk conjunct holds at every walk's start, scan polarity and coverage, other stores into df only put empty sets where there is none, Dom's carving offsets and capacities as a running sum.",
		Assume:  []string{"A2", "node ids are non-negative"},
		Undec:   []string{"that IDom/Dom/DomFrontier equal the definitions of dominance on every graph (the fixed point itself)", "termination on irreducible graphs"},
	}
}

func propC19(a *Analysis, r *Registry) {
	b := NewB(a, r)
	X := b.X
	S := X.S
	const rB = "B-C19 CHK"
	sweepC19(a, r, b)

	// the dominator tree's accessors read the tables Dom fills
	defer func() {
		b := NewB(a, r)
		b.Formula(rB, "graph/graphalg.(*DomTree).IDom", "graph/graphalg.(*DomTree).IDom", []string{"t", "n"}, nil, 0, "t.idom[n]", nil)
		b.Formula(rB, "graph/graphalg.(*DomTree).NumNodes", "graph/graphalg.(*DomTree).NumNodes", []string{"t"}, nil, 0, "len(t.idom)", nil)
		b.Formula(rB, "graph/graphalg.(*DomTree).Out", "graph/graphalg.(*DomTree).Out", []string{"t", "n"}, nil, 0, "t.children[n]", nil)
	}()
	pkg := "graph/graphalg."
	if fn := b.Fn(rB, pkg+"IDom"); fn != nil {
		name := pkg + "IDom"
		a.CheckNoMutation(r, "A-1 no-mutation", fn, nil)
		b.guard(rB, name, func() {
			fc := X.FCFor(fn)
			env := X.EnvFor(fn, "g", "root")
			rv := fc.RetVal(0)
			if at := rv.SingleAtom(); at == nil || !strings.HasPrefix(at.Name, "makeslice:") {
				r.Fail(rB, name+"/result", b.pos(fn), "IDom does not return a freshly made slice")
				return
			}
			env.Set("idom", rv, nil)
			b.Eq(rB, name+"/len(idom)", b.pos(fn), rv.SingleAtom().Args[0], env, "g.NumNodes()")
			po := fc.Val(fc.TheCallTo(pkg + "PostOrder"))
			env.Set("po", po, nil)
			b.Eq(rB, name+"/post-order-of", b.pos(fn), po, env, "PostOrder(g, root)")
			// stores into idom and poNum
			var poNum *RF
			nInit, nRootSelf, nRootReset, nUpdate := 0, 0, 0, 0
			var updStore, resetStore *ssa.Store
			// (the post-order numbering may be filled by a helper)
			for _, sfc := range fc.BoundCallees(1)[1:] {
				sfc := sfc
				sfc.Ctx.Instrs(func(in ssa.Instruction) {
					st, ok := in.(*ssa.Store)
					if !ok {
						return
					}
					ia, ok := st.Addr.(*ssa.IndexAddr)
					if !ok {
						return
					}
					idx, val := sfc.Val(ia.Index), sfc.Val(st.Val)
					if ea := idx.SingleAtom(); ea != nil && ea.Name == "idx" && ea.Args[0].Equal(po) {
						poNum = sfc.Val(ia.X)
						if val.Equal(ea.Args[1]) {
							r.OK(rB, name+"/poNum", a.W.InstrPos(st), "poNum[po[i]] = i")
						} else {
							r.Fail(rB, name+"/poNum", a.W.InstrPos(st), "post-order numbers are not the positions in the post-order")
						}
					}
				})
			}
			fc.Ctx.Instrs(func(in ssa.Instruction) {
				st, ok := in.(*ssa.Store)
				if !ok {
					return
				}
				ia, ok := st.Addr.(*ssa.IndexAddr)
				if !ok {
					return
				}
				base, idx, val := fc.Val(ia.X), fc.Val(ia.Index), fc.Val(st.Val)
				if !base.Equal(rv) {
					// poNum[po[i]] = i
					if ea := idx.SingleAtom(); ea != nil && ea.Name == "idx" && ea.Args[0].Equal(po) {
						poNum = base
						if val.Equal(ea.Args[1]) {
							r.OK(rB, name+"/poNum", a.W.InstrPos(st), "poNum[po[i]] = i")
						} else {
							r.Fail(rB, name+"/poNum", a.W.InstrPos(st), "post-order numbers are not the positions in the post-order")
						}
					}
					return
				}
				switch {
				case val.Equal(S.Int(-1)) && fc.Ctx.LoopOf(st.Block()) != nil && !idx.Equal(env.Vars["root"].RF):
					nInit++
				case idx.Equal(env.Vars["root"].RF) && val.Equal(env.Vars["root"].RF):
					nRootSelf++
				case idx.Equal(env.Vars["root"].RF) && val.Equal(S.Int(-1)):
					nRootReset++
					resetStore = st
				default:
					nUpdate++
					updStore = st
				}
			})
			if nInit == 1 && nRootSelf == 1 && nRootReset == 1 && nUpdate == 1 {
				r.OK(rB, name+"/sentinel-protocol", b.pos(fn), "all entries start at -1; idom[root]=root for the iteration; idom[root]=-1 afterwards; one update site")
			} else {
				r.Fail(rB, name+"/sentinel-protocol", b.pos(fn), "expected: init loop storing -1, idom[root]=root, one update, idom[root]=-1 at the end")
				return
			}
			// the reset happens after the iteration on the way to the return
			rets := fc.Ctx.Returns()
			if len(rets) == 1 && fc.Ctx.Dominates(resetStore.Block(), rets[0].Block()) && fc.Ctx.LoopOf(resetStore.Block()) == nil {
				r.OK("C-pair", name+"/root-reset", a.W.InstrPos(resetStore), "the root's self-loop is cleared on every path to the return")
			} else {
				r.Fail("C-pair", name+"/root-reset", b.pos(fn), "idom[root] = -1 does not dominate the return")
			}
			if poNum == nil {
				r.Fail(rB, name+"/poNum", b.pos(fn), "no post-order numbering")
				return
			}
			// poNum is indexed by node, not by post-order position: a table has a slot for every node
			if at := poNum.SingleAtom(); at != nil && strings.HasPrefix(at.Name, "makeslice:") && len(at.Args) >= 1 {
				b.Eq(rB, name+"/len(poNum)", b.pos(fn), at.Args[0], env, "g.NumNodes()")
			}
			env.Set("poNum", poNum, nil)
			// the update: idom[b] = newIdom under idom[b] != newIdom
			ia := updStore.Addr.(*ssa.IndexAddr)
			bnode := fc.Val(ia.Index)
			nw := fc.Val(updStore.Val)
			env.Set("b", bnode, nil)
			env.Set("nw", nw, nil)
			// every node, in reverse post-order: an ascending scan of Reverse(po), or a descending
			// scan of po itself
			if ba := bnode.SingleAtom(); ba == nil || ba.Name != "idx" {
				r.Fail(rB, name+"/reverse-post-order", a.W.InstrPos(updStore), "nodes are not processed in reverse post-order: "+clip(bnode.String(), 120))
			} else if strings.Contains(ba.Args[0].String(), "Reverse") {
				b.Eq(rB, name+"/reverse-post-order", a.W.InstrPos(updStore), ba.Args[0], env, "Reverse(po)")
				if _, en := fc.Recurrence(ba.Args[1]); en.Sub(ba.Args[1]).Equal(S.Int(1)) {
					// (the first element of the reverse post-order is the root, which is skipped anyway)
					b.FullScanSeeded("C-scan coverage", name+"/reverse-post-order/all-nodes", a.W.InstrPos(updStore), fc, ba.Args[1], S.MakeFn("len", ba.Args[0]))
				} else {
					r.Fail(rB, name+"/reverse-post-order/all-nodes", a.W.InstrPos(updStore), "Reverse(po) is not walked from its first element to its last")
				}
			} else if ba.Args[0].Equal(po) {
				if _, en := fc.Recurrence(ba.Args[1]); en.Sub(ba.Args[1]).Equal(S.Int(-1)) {
					r.OK(rB, name+"/reverse-post-order", a.W.InstrPos(updStore), "the post-order is walked from its last element to its first")
					b.FullScanSeeded("C-scan coverage", name+"/reverse-post-order/all-nodes", a.W.InstrPos(updStore), fc, ba.Args[1], S.MakeFn("len", po))
				} else {
					r.Fail(rB, name+"/reverse-post-order", a.W.InstrPos(updStore), "the post-order is walked forwards: nodes are not processed in reverse post-order")
				}
			} else {
				r.Fail(rB, name+"/reverse-post-order", a.W.InstrPos(updStore), "nodes are not processed in reverse post-order: "+clip(bnode.String(), 120))
			}
			guard := false
			for _, f := range fc.Ctx.Facts(updStore.Block()) {
				if f.Val && fc.Val(f.Cond).Equal(env.MustParse("idom[b]!=nw")) {
					guard = true
				}
			}
			if guard {
				r.OK(rB, name+"/update-when-different", a.W.InstrPos(updStore), "idom[b] is replaced exactly when it differs from the new value")
			} else {
				r.Fail(rB, name+"/update-when-different", a.W.InstrPos(updStore), "the update of idom[b] is not guarded by idom[b] != newIdom")
			}
			// newIdom recurrence over the predecessors
			ni, nn := fc.Recurrence(nw)
			pe := FindFn(nn, "idx")
			var p *RF
			for _, at := range pe {
				if strings.HasPrefix(at.Args[0].String(), "call:In(") {
					p = S.atomRF(at.ID)
					b.Eq(rB, name+"/predecessors-of-b", a.W.InstrPos(updStore), at.Args[0], env, "g.In(b)")
				}
			}
			if p == nil {
				r.Fail(rB, name+"/newIdom", a.W.InstrPos(updStore), "the new idom is not built from the predecessors g.In(b)")
				return
			}
			env.Set("p", p, nil)
			b.Eq(rB, name+"/newIdom-init", a.W.InstrPos(updStore), ni, env, "-1")
			b.Eq(rB, name+"/newIdom-step", a.W.InstrPos(updStore), nn, env, "ite(idom[p]==-1, nw, ite(nw==-1, p, intersect(idom, poNum, p, nw)))")
			// changed: cleared per sweep, set on update, and the sweeps repeat exactly while it was set
			b.AnyOf(func() {
				// changed := true; for changed { changed = false; sweep }
				var chOuter *RF
				for _, l := range fc.Ctx.Loops() {
					if ifi, ok := l.Header.Instrs[len(l.Header.Instrs)-1].(*ssa.If); ok {
						if c := fc.Val(ifi.Cond); c.SingleAtom() != nil && strings.HasPrefix(c.SingleAtom().Name, "phi:") && !S.atoms[c.SingleAtom().ID].Int {
							chOuter = c
						}
					}
				}
				if chOuter == nil {
					r.Fail(rB, name+"/iterate-while-changed", b.pos(fn), "no `for changed` loop")
					return
				}
				ci, cn := fc.Recurrence(chOuter)
				b.EqRF(rB, name+"/changed-init", b.pos(fn), ci, S.True(), "the first sweep always runs")
				if ca := cn.SingleAtom(); ca != nil && strings.HasPrefix(ca.Name, "phi:") {
					i2, n2 := fc.Recurrence(cn)
					env.Set("ch", cn, nil)
					b.EqRF(rB, name+"/changed-cleared-per-sweep", b.pos(fn), i2, S.False(), "changed is cleared at the start of each sweep")
					b.Eq(rB, name+"/changed-set-on-update", b.pos(fn), n2, env, "ite(b==root, ch, ite(idom[b]!=nw, true, ch))")
				} else {
					r.Fail(rB, name+"/changed", b.pos(fn), "changed is not carried through the sweep: "+clip(cn.String(), 160))
				}
			}, func() {
				// for { changed := false; sweep; if !changed { break } }
				var ch *RF
				var sweep *Loop
				for _, l := range fc.Ctx.Loops() {
					for _, in := range l.Header.Instrs {
						p, ok := in.(*ssa.Phi)
						if !ok {
							break
						}
						if bt, isB := p.Type().Underlying().(*types.Basic); isB && bt.Kind() == types.Bool {
							v := fc.Val(p)
							if i2, _ := fc.Recurrence(v); i2.Equal(S.False()) {
								ch, sweep = v, l
							}
						}
					}
				}
				if ch == nil {
					r.Fail(rB, name+"/iterate-while-changed", b.pos(fn), "no per-sweep `changed` flag starting at false")
					return
				}
				_, n2 := fc.Recurrence(ch)
				env.Set("ch", ch, nil)
				r.OK(rB, name+"/changed-cleared-per-sweep", b.pos(fn), "changed starts at false in every sweep")
				b.Eq(rB, name+"/changed-set-on-update", b.pos(fn), n2, env, "ite(b==root, ch, ite(idom[b]!=nw, true, ch))")
				// the enclosing loop is left exactly when the sweep ended with changed == false
				var outer *Loop
				for _, l := range fc.Ctx.Loops() {
					if l.Header != sweep.Header && l.Body[sweep.Header.Index] {
						outer = l
					}
				}
				if outer == nil {
					r.Fail(rB, name+"/iterate-while-changed", b.pos(fn), "the sweep is not repeated")
					return
				}
				okExit, exits := false, 0
				for bi := range outer.Body {
					blk := fn.Blocks[bi]
					for k, sc := range blk.Succs {
						if outer.Body[sc.Index] || !fc.Ctx.EdgeLive(blk, k) {
							continue
						}
						exits++
						if ifi, isIf := blk.Instrs[len(blk.Instrs)-1].(*ssa.If); isIf {
							c := fc.Val(ifi.Cond)
							if k == 1 && c.Equal(ch) || k == 0 && c.Equal(S.Not(ch)) {
								okExit = true
							}
						}
					}
				}
				if okExit && exits == 1 {
					r.OK(rB, name+"/changed-init", b.pos(fn), "the first sweep always runs (do-while form)")
					r.OK(rB, name+"/iterate-while-changed", b.pos(fn), "the sweeps stop exactly when one ends with changed == false")
				} else {
					r.Fail(rB, name+"/iterate-while-changed", b.pos(fn), "the sweep loop is not left exactly when a sweep ends with changed == false")
				}
			})
		})
	}
	if fn := b.Fn(rB, pkg+"intersect"); fn != nil {
		name := pkg + "intersect"
		b.guard(rB, name, func() {
			fc := X.FCFor(fn)
			env := X.EnvFor(fn, "idom", "poNum", "b1", "b2")
			rv := fc.RetVal(0)
			phs := fc.loopPhis(rv)
			// inner loops: each advances one finger x := idom[x] while poNum[x] < poNum[y]
			n := 0
			for _, l := range fc.Ctx.Loops() {
				ifi, ok := l.Header.Instrs[len(l.Header.Instrs)-1].(*ssa.If)
				if !ok {
					continue
				}
				c := fc.Val(ifi.Cond).SingleAtom()
				if c == nil || c.Name != "cmp<" {
					continue
				}
				lx, ly := c.Args[0].SingleAtom(), c.Args[1].SingleAtom()
				if lx == nil || ly == nil || lx.Name != "idx" || ly.Name != "idx" || !lx.Args[0].Equal(env.Vars["poNum"].RF) || !ly.Args[0].Equal(env.Vars["poNum"].RF) {
					continue
				}
				x := lx.Args[1]
				if _, isPhi := X.phiOf[x.SingleAtom().ID]; !isPhi || X.phiOf[x.SingleAtom().ID].Block() != l.Header {
					r.Fail(rB, name+"/advance", a.W.InstrPos(ifi), "the loop on poNum[x] < poNum[y] does not carry x")
					continue
				}
				_, xn := fc.Recurrence(x)
				e := X.EnvFor(fn, "idom", "poNum", "b1", "b2")
				e.Set("x", x, nil)
				n++
				b.Eq(rB, name+"/advance#"+itoa(n), a.W.InstrPos(ifi), xn, e, "idom[x]")
			}
			if n != 2 && len(fc.Ctx.Loops()) == 1 {
				// one loop moving, per iteration, the finger with the smaller post-order number one step
				// (the same step sequence as the two inner loops)
				mark := len(r.Obs)
				vars := b.LoopSystem(rB, name+"/two-fingers", b.pos(fn), fc, rv, env, []recSpec{
					{"x", "b1", "ite(poNum[x]<poNum[y], idom[x], x)"},
					{"y", "b2", "ite(poNum[x]<poNum[y], y, ite(poNum[y]<poNum[x], idom[y], y))"},
				})
				if vars == nil {
					r.Obs = r.Obs[:mark]
					vars = b.LoopSystem(rB, name+"/two-fingers", b.pos(fn), fc, rv, env, []recSpec{
						{"x", "b1", "ite(poNum[y]<poNum[x], x, ite(poNum[x]<poNum[y], idom[x], x))"},
						{"y", "b2", "ite(poNum[y]<poNum[x], idom[y], y)"},
					})
				}
				if vars != nil {
					hdr := X.phiOf[vars["x"].SingleAtom().ID].Block()
					e := X.EnvFor(fn, "idom", "poNum", "b1", "b2")
					e.Set("x", vars["x"], nil)
					e.Set("y", vars["y"], nil)
					_, gc, _, msg := b.loopGuard(fc, hdr)
					if msg == "" {
						b.Eq(rB, name+"/until-equal", b.pos(fn), gc, e, "x!=y")
					} else {
						r.Fail(rB, name+"/until-equal", b.pos(fn), msg)
					}
					if rv.Equal(vars["x"]) || rv.Equal(vars["y"]) {
						r.OK(rB, name+"/result", b.pos(fn), "returns the meeting point")
					} else {
						r.Fail(rB, name+"/result", b.pos(fn), "does not return one of the fingers")
					}
				}
				return
			}
			if n != 2 {
				r.Fail(rB, name+"/two-fingers", b.pos(fn), "expected two inner loops, each advancing the finger with the smaller post-order number")
			} else {
				r.OK(rB, name+"/two-fingers", b.pos(fn), "each finger climbs idom while its post-order number is the smaller one")
			}
			_ = phs
			// outer loop runs while the fingers differ, result is the meeting point
			okOuter := false
			for _, l := range fc.Ctx.Loops() {
				if ifi, ok := l.Header.Instrs[len(l.Header.Instrs)-1].(*ssa.If); ok {
					if c := fc.Val(ifi.Cond).SingleAtom(); c != nil && c.Name == "cmp!=" {
						if c.Args[0].Equal(rv) || c.Args[1].Equal(rv) {
							okOuter = true
						}
					}
				}
			}
			if !okOuter {
				// the test may sit anywhere in the iteration (`for { if b1 == b2 { return b2 } … }`):
				// the outer loop has one way out, taken exactly when the fingers are equal, and
				// the result is one of them
				func() {
					defer func() { recover() }()
					var outer *Loop
					for _, l := range fc.Ctx.Loops() {
						if outer == nil || len(l.Body) > len(outer.Body) {
							outer = l
						}
					}
					if outer == nil {
						return
					}
					exits := fc.ExitEdges(outer.Header)
					if len(exits) != 1 {
						return
					}
					c := exits[0].Cond.SingleAtom()
					if c == nil || c.Name != "cmp==" {
						return
					}
					v := fc.resolveAlongEdge(exits[0].From, exits[0].To, rv)
					isFinger := func(q *RF) bool {
						qa := q.SingleAtom()
						return qa != nil && X.phiOf[qa.ID] != nil && X.phiOf[qa.ID].Block() == outer.Header
					}
					if isFinger(c.Args[0]) && isFinger(c.Args[1]) && (v.Equal(c.Args[0]) || v.Equal(c.Args[1])) {
						okOuter = true
					}
				}()
			}
			if okOuter {
				r.OK(rB, name+"/until-equal", b.pos(fn), "loops while b1 != b2 and returns the meeting point")
			} else {
				r.Fail(rB, name+"/until-equal", b.pos(fn), "intersect does not loop until the fingers meet")
			}
		})
	}
	if fn := b.Fn(rB, pkg+"DomFrontier"); fn != nil {
		name := pkg + "DomFrontier"
		a.CheckNoMutation(r, "A-1 no-mutation", fn, nil)
		b.guard(rB, name, func() {
			fc := X.FCFor(fn)
			env := X.EnvFor(fn, "g", "root", "idomArg")
			// the append df[runner] = append(df[runner], b)
			var app *ssa.Call
			for _, c := range fc.CallsTo("builtin:append") {
				if fc.Ctx.LoopOf(c.Block()) != nil {
					app = c
				}
			}
			if app == nil {
				anchorFail("no frontier insertion")
			}
			dst := fc.Val(app.Call.Args[0]).SingleAtom()
			vals := fc.AppendedValues(app)
			if dst == nil || dst.Name != "idx" || len(vals) != 1 {
				anchorFail("frontier insertion is not df[runner] = append(df[runner], b)")
			}
			runner, bnode := dst.Args[1], vals[0]
			env.Set("runner", runner, nil)
			env.Set("b", bnode, nil)
			idom := S.Ite(env.MustParse("idomArg==nil"), env.MustParse("IDom(g, root)"), env.Vars["idomArg"].RF)
			env.Set("idom", idom, nil)
			ri, rn := fc.Recurrence(runner)
			pa := ri.SingleAtom()
			if pa == nil || pa.Name != "idx" || !strings.HasPrefix(pa.Args[0].String(), "call:In(") {
				r.Fail(rB, name+"/runner-start", a.W.InstrPos(app), "the walk does not start at a predecessor of b")
				return
			}
			env.Set("pred", ri, nil)
			b.Eq(rB, name+"/preds-of-b", a.W.InstrPos(app), pa.Args[0], env, "g.In(b)")
			b.EqUnder(rB, name+"/runner-step", a.W.InstrPos(app), fc, rn, env, "idom[runner]")
			hdr := X.phiOf[runner.SingleAtom().ID].Block()
			var body *ssa.BasicBlock = app.Block()
			cont := fc.ReachCondFrom(hdr, loopBodyEntry(fc, body))
			_ = cont
			ifi, ok := hdr.Instrs[len(hdr.Instrs)-1].(*ssa.If)
			if !ok {
				r.Fail(rB, name+"/walk-until-idom(b)", b.pos(fn), "the walk has no stop condition")
				return
			}
			wc := fc.Val(ifi.Cond)
			// (the whole condition of a short-circuit chain `for runner != bdom && !seen`)
			if _, gc, _, gmsg := b.loopGuard(fc, hdr); gmsg == "" && gc != nil && !b.rotated {
				wc = gc
			}
			stop := env.MustParse("runner!=idom[b]")
			if wc.Equal(stop) || X.EquivByCases(wc, stop, 0) {
				r.OK(rB, name+"/walk-until-idom(b)", a.W.InstrPos(ifi), "the walk continues while runner != idom[b]")
			} else if at := wc.SingleAtom(); at != nil && at.Name == "land" {
				// a conjunction that includes the stop test (e.g. with a sentinel test) is accepted
				has := false
				extraBad := ""
				for _, c := range at.Args {
					if c.Equal(stop) || X.EquivByCases(c, stop, 0) {
						has = true
						continue
					}
					// a further conjunct over a value carried round the walk (a "this runner already
					// has b, so do all above it" flag) must hold when a walk starts: every
					// predecessor's walk begins afresh. A flag carried over from the previous
					// predecessor's walk cuts later walks short and loses frontier members.
					for _, ph := range fc.loopPhis(c) {
						pa := ph.SingleAtom()
						if pa == nil || ph.Equal(runner) || X.phiOf[pa.ID] == nil || X.phiOf[pa.ID].Block() != hdr {
							continue
						}
						pi, _ := recurrenceOrNil(fc, ph)
						if pi == nil {
							extraBad = "the walk condition's extra conjunct " + clip(c.String(), 80) + " reads a loop-carried value without a recurrence"
						} else if at0 := c.Subst(map[AtomID]*RF{pa.ID: pi}); !at0.Equal(S.True()) {
							extraBad = "the walk condition's extra conjunct " + clip(c.String(), 80) + " is not known to hold when a predecessor's walk starts (it is " + clip(at0.String(), 80) + " there): a walk may be cut short by an earlier predecessor's walk"
						}
					}
				}
				if has && extraBad != "" {
					r.Fail(rB, name+"/walk-until-idom(b)", a.W.InstrPos(ifi), extraBad)
				} else if has {
					r.OK(rB, name+"/walk-until-idom(b)", a.W.InstrPos(ifi), "the walk continues while runner != idom[b] (and a further condition)")
				} else {
					r.Fail(rB, name+"/walk-until-idom(b)", a.W.InstrPos(ifi), "walk condition is "+clip(wc.String(), 160))
				}
			} else {
				r.Fail(rB, name+"/walk-until-idom(b)", a.W.InstrPos(ifi), "walk condition is "+clip(wc.String(), 160))
			}
			// joins only
			joins := fc.RefutedAt(app.Block(), env.MustParse("len(g.In(b))<2"))
			if joins {
				r.OK(rB, name+"/joins-only", a.W.InstrPos(app), "only nodes with at least two predecessors contribute")
			} else {
				r.Fail(rB, name+"/joins-only", a.W.InstrPos(app), "frontier insertion is not restricted to joins (len(preds) >= 2)")
			}
			// which joins and which predecessors are walked (both directions): the
			// predecessors of b are gone through exactly when b is a join that is
			// reachable or the root, and the walk starts from exactly the predecessors
			// that are reachable or the root
			func() {
				var enclosing []*Loop
				for _, l := range fc.Ctx.Loops() {
					if l.Body[hdr.Index] {
						enclosing = append(enclosing, l)
					}
				}
				sort.Slice(enclosing, func(i, j int) bool { return len(enclosing[i].Body) < len(enclosing[j].Body) })
				if len(enclosing) != 3 {
					r.Fail("C-decision", name+"/joins-walked", b.pos(fn), fmt.Sprintf("expected the walk inside a loop over predecessors inside a loop over nodes, found nesting depth %d", len(enclosing)))
					return
				}
				entryCond := func(outer, inner *Loop) *RF {
					var start *ssa.BasicBlock
					for _, sc := range fc.Ctx.LiveSuccs(outer.Header) {
						if outer.Body[sc.Index] && fc.Ctx.Dominates(sc, inner.Header) {
							start = sc
						}
					}
					if start == nil {
						anchorFail("no body entry")
					}
					acc := S.False()
					for _, p := range fc.Ctx.LivePreds(inner.Header) {
						if inner.Body[p.Index] {
							continue
						}
						acc = S.Or(acc, S.And(fc.ReachCondFrom(start, p), fc.edgeCond(p, inner.Header)))
					}
					return acc
				}
				b.guard("C-decision", name+"/joins-walked", func() {
					got := entryCond(enclosing[2], enclosing[1])
					b.EqUnder("C-decision", name+"/joins-walked", b.pos(fn), fc, got, env, "!(len(g.In(b))<2) && !(idom[b]==-1 && b!=root)")
				})
				b.guard("C-decision", name+"/preds-walked", func() {
					got := entryCond(enclosing[1], enclosing[0])
					b.EqUnder("C-decision", name+"/preds-walked", b.pos(fn), fc, got, env, "!(idom[pred]==-1 && pred!=root)")
				})
			}()
			// every node and every predecessor is gone through: the loop over the nodes visits
			// 0..n-1 (n the number of nodes, however it is obtained) and the loop over g.In(b)
			// every predecessor, and neither is left from inside an iteration (a `break` where
			// `continue` was meant stops at the first node that is not a join)
			b.guard("C-scan coverage", name+"/all-nodes", func() {
				where := a.W.InstrPos(app)
				b.AnyOf(
					func() { b.FullScan("C-scan coverage", name+"/all-nodes", where, fc, bnode, env.MustParse("len(idom)")) },
					func() {
						b.FullScan("C-scan coverage", name+"/all-nodes", where, fc, bnode, env.MustParse("g.NumNodes()"))
					},
					func() {
						b.FullScan("C-scan coverage", name+"/all-nodes", where, fc, bnode, S.MakeFn("len", dst.Args[0]))
					},
				)
				b.FullScan("C-scan coverage", name+"/all-preds", where, fc, pa.Args[1], S.MakeFn("len", pa.Args[0]))
			})
			// the only other stores into df put an empty set where there is none (nil), or
			// initialise df before the walk: a store that replaces a computed set loses it
			b.guard(rB, name+"/sets-kept", func() {
				dfv := dst.Args[0]
				var outer *Loop
				for _, l := range fc.Ctx.Loops() {
					if l.Body[hdr.Index] && (outer == nil || len(l.Body) > len(outer.Body)) {
						outer = l
					}
				}
				nOther, bad := 0, ""
				fc.Ctx.Instrs(func(in ssa.Instruction) {
					st, ok := in.(*ssa.Store)
					if !ok {
						return
					}
					ia, ok := st.Addr.(*ssa.IndexAddr)
					if !ok || !fc.Val(ia.X).Equal(dfv) {
						return
					}
					if st.Val == ssa.Value(app) {
						return
					}
					nOther++
					v := fc.Val(st.Val)
					if ln := S.MakeFn("len", v); !ln.Equal(S.Int(0)) {
						bad = "a store into df at " + a.W.InstrPos(st) + " puts a set that is not empty: " + clip(v.String(), 80)
						return
					}
					cur := S.MakeFn("idx", dfv, fc.Val(ia.Index))
					isNil := S.Cmp("==", cur, S.Var("nil", false))
					sh := st.Block()
					if lp := fc.Ctx.LoopOf(sh); lp != nil {
						sh = lp.Header
					}
					before := outer != nil && !outer.Body[st.Block().Index] && fc.Ctx.Dominates(sh, outer.Header)
					if !before && !fc.HoldsAt(st.Block(), isNil) {
						bad = "a store into df at " + a.W.InstrPos(st) + " is neither before the walk nor guarded by df[i] == nil: it can replace a computed frontier set by the empty set"
					}
				})
				if bad != "" {
					r.Fail(rB, name+"/sets-kept", b.pos(fn), bad)
				} else {
					r.OK(rB, name+"/sets-kept", b.pos(fn), fmt.Sprintf("the %d other store(s) into df put an empty set where there is none", nOther))
				}
			})
			// inserted once: a membership scan precedes the insertion
			scan := false
			scanBad := ""
			fc.Ctx.Instrs(func(in ssa.Instruction) {
				var cv ssa.Value
				if ifi2, ok := in.(*ssa.If); ok {
					cv = ifi2.Cond
				} else if bo, ok := in.(*ssa.BinOp); ok && (bo.Op == token.EQL || bo.Op == token.NEQ) {
					cv = bo // (the comparison may feed a found-flag instead of a branch)
				}
				if cv != nil {
					c := fc.Val(cv).SingleAtom()
					negated := false
					if c != nil && c.Name == "cmp!=" {
						c = S.Not(S.atomRF(c.ID)).SingleAtom()
						negated = true
					}
					if c != nil && c.Name == "cmp==" {
						for k := 0; k < 2; k++ {
							if c.Args[k].Equal(bnode) {
								if ea := c.Args[1-k].SingleAtom(); ea != nil && ea.Name == "idx" && ea.Args[0].Equal(fc.Val(app.Call.Args[0])) {
									scan = true
									if ifi2, isIf := in.(*ssa.If); isIf {
										// the way taken when an element equals b must not lead to the insertion
										// (within this step of the walk), and the scan must look at every element
										eq := ifi2.Block().Succs[0]
										if negated {
											eq = ifi2.Block().Succs[1]
										}
										// (a branch on a flag merged in the same block follows the value the flag
										// has on the edge the path came in by: `present = true; break` … `if !present`)
										type edge struct{ from, to int }
										seen := map[edge]bool{}
										var reach func(from, bl *ssa.BasicBlock) bool
										reach = func(from, bl *ssa.BasicBlock) bool {
											if bl == app.Block() {
												return true
											}
											if bl == hdr || seen[edge{from.Index, bl.Index}] {
												return false
											}
											seen[edge{from.Index, bl.Index}] = true
											succs := fc.Ctx.LiveSuccs(bl)
											if bi, isIf := bl.Instrs[len(bl.Instrs)-1].(*ssa.If); isIf && len(bl.Succs) == 2 {
												cv, neg := bi.Cond, false
												if u, isU := cv.(*ssa.UnOp); isU && u.Op == token.NOT {
													cv, neg = u.X, true
												}
												if ph, isPhi := cv.(*ssa.Phi); isPhi && ph.Block() == bl {
													for k, pb := range bl.Preds {
														if pb == from {
															if cst, isC := ph.Edges[k].(*ssa.Const); isC && cst.Value != nil {
																t := cst.Value.String() == "true"
																if neg {
																	t = !t
																}
																if t {
																	succs = []*ssa.BasicBlock{bl.Succs[0]}
																} else {
																	succs = []*ssa.BasicBlock{bl.Succs[1]}
																}
															}
														}
													}
												}
											}
											for _, sc := range succs {
												if reach(bl, sc) {
													return true
												}
											}
											return false
										}
										if reach(ifi2.Block(), eq) {
											scanBad = "when an element of df[runner] equals b the insertion is still reached (and when it differs the scan stops): b is missing from, or repeated in, the set"
										}
										saved := b.earlyExitsOK
										b.earlyExitsOK = true
										if !b.FullScan("C-scan coverage", name+"/inserted-once/scan", a.W.InstrPos(ifi2), fc, ea.Args[1], S.MakeFn("len", ea.Args[0])) {
											scanBad = "the membership scan does not look at every element of df[runner]"
										}
										b.earlyExitsOK = saved
									}
								}
							}
						}
					}
				}
			})
			if !scan {
				// or: the insertion is guarded by !contains(df[runner], b) for a helper that scans its
				// first argument for its second and reports whether it found it
				for _, f := range fc.Ctx.Facts(app.Block()) {
					c := fc.Val(f.Cond)
					neg := !f.Val
					for {
						ca := c.SingleAtom()
						if ca != nil && ca.Name == "not" {
							c, neg = ca.Args[0], !neg
							continue
						}
						break
					}
					ca := c.SingleAtom()
					if ca == nil || !neg || len(ca.Args) != 2 || !ca.Args[0].Equal(fc.Val(app.Call.Args[0])) || !ca.Args[1].Equal(bnode) {
						continue
					}
					if hf := a.W.Fn(ca.Name); hf != nil && isMembershipScan(X, hf) {
						scan = true
					}
					// (package slices' own membership test)
					if strings.HasPrefix(ca.Name, "slices.Contains[") {
						scan = true
					}
				}
			}
			if scan && scanBad != "" {
				r.Fail(rB, name+"/inserted-once", a.W.InstrPos(app), scanBad)
			} else if scan {
				r.OK(rB, name+"/inserted-once", a.W.InstrPos(app), "df[runner] is scanned for b before b is appended")
			} else {
				r.Fail(rB, name+"/inserted-once", a.W.InstrPos(app), "b can be appended to df[runner] more than once")
			}
			// sentinel discipline
			sentinel := false
			why := ""
			fc.Ctx.Instrs(func(in ssa.Instruction) {
				ifi2, ok := in.(*ssa.If)
				if !ok || ifi2.Block() == hdr || !fc.Ctx.Dominates(ifi2.Block(), hdr) {
					return
				}
				c := fc.Val(ifi2.Cond)
				mentionsPred, mentionsSentinel := false, false
				for _, at := range c.Atoms(true) {
					if at.ID == ri.SingleAtom().ID {
						mentionsPred = true
					}
				}
				for _, ca := range c.Atoms(true) {
					if isCmpName(ca.Name) {
						for k, sd := range ca.Args {
							if sd.Equal(S.Int(-1)) {
								// the other side must be about the predecessor (idom[pred])
								for _, oa := range ca.Args[1-k].Atoms(true) {
									if oa.ID == ri.SingleAtom().ID {
										mentionsSentinel = true
									}
								}
								if ca.Args[1-k].Equal(ri) {
									mentionsSentinel = true
								}
							}
						}
					}
				}
				if mentionsPred && mentionsSentinel {
					sentinel = true
					why = "a test of the -1 sentinel on the predecessor dominates the walk"
				}
			})
			if !sentinel {
				if at := wc.SingleAtom(); at != nil && at.Name == "land" {
					for _, c := range at.Args {
						if c.Equal(env.MustParse("runner!=-1")) || c.Equal(env.MustParse("0<=runner")) || c.Equal(env.MustParse("-1<runner")) {
							sentinel = true
							why = "the walk's condition tests the sentinel"
						}
					}
				}
			}
			if sentinel {
				r.OK("C-guard sentinel", name+"/unreachable-predecessor", a.W.InstrPos(ifi), why)
			} else {
				r.Fail("C-guard sentinel", name+"/unreachable-predecessor", a.W.InstrPos(ifi), "a predecessor taken from g.In(b) starts the idom walk without any test of the -1 sentinel (IDom skips predecessors with idom[p] == -1; DomFrontier does not): an unreachable predecessor of a reachable join makes runner = idom[pred] = -1 and df[-1] panics")
			}
		})
	}
	if fn := b.Fn(rB, pkg+"Dom"); fn != nil {
		name := pkg + "Dom"
		a.CheckNoMutation(r, "A-1 no-mutation", fn, nil)
		b.guard(rB, name, func() {
			fc := X.FCFor(fn)
			env := X.EnvFor(fn, "idom")
			nCount, nAppend := 0, 0
			// (the counting pass may be done by a helper)
			for _, sfc := range fc.BoundCallees(1) {
				sfc := sfc
				sfc.Ctx.Instrs(func(in ssa.Instruction) {
					switch v := in.(type) {
					case *ssa.Store:
						if sfc.isIncrement(v) {
							ia := v.Addr.(*ssa.IndexAddr)
							par := sfc.Val(ia.Index)
							ok := sfc.RefutedAt(v.Block(), S.Cmp("==", par, S.Int(-1)))
							if pa := par.SingleAtom(); ok && pa != nil && pa.Name == "idx" && pa.Args[0].Equal(env.Vars["idom"].RF) {
								nCount++
							}
						}
					case *ssa.Call:
						if bi, isB := v.Call.Value.(*ssa.Builtin); isB && bi.Name() == "append" {
							dst := sfc.Val(v.Call.Args[0]).SingleAtom()
							vals := sfc.AppendedValues(v)
							if dst != nil && dst.Name == "idx" && len(vals) == 1 {
								par := dst.Args[1].SingleAtom()
								if par != nil && par.Name == "idx" && par.Args[0].Equal(env.Vars["idom"].RF) && par.Args[1].Equal(vals[0]) {
									if sfc.RefutedAt(v.Block(), S.Cmp("==", dst.Args[1], S.Int(-1))) {
										nAppend++
									}
								}
							}
						}
					}
				})
			}
			// carving: children[i] = cspace[used : used : used+cspace[i]] for every i, with used the
			// running sum of the counts from 0 — each list gets exactly the room counted for it,
			// one after the other (a wrong offset or capacity makes lists overlap, or the slice
			// expression panic)
			nCarve := 0
			for _, sfc := range fc.BoundCallees(1) {
				sfc := sfc
				sfc.Ctx.Instrs(func(in ssa.Instruction) {
					st, ok := in.(*ssa.Store)
					if !ok {
						return
					}
					ia, ok := st.Addr.(*ssa.IndexAddr)
					if !ok || sfc.Ctx.LoopOf(st.Block()) == nil {
						return
					}
					v := sfc.Val(st.Val).SingleAtom()
					if v == nil || v.Name != "slice" || len(v.Args) != 4 {
						return
					}
					nCarve++
					where := a.W.InstrPos(st)
					i := sfc.Val(ia.Index)
					space, lo, hi, mx := v.Args[0], v.Args[1], v.Args[2], v.Args[3]
					cnt := S.MakeFn("idx", space, i)
					e := X.EnvFor(fn, "idom")
					e.Set("used", lo, nil)
					e.Set("cnt", cnt, nil)
					b.EqRF(rB, name+"/carve/empty", where, hi, lo, "each child list starts empty (high bound ≡ low bound)")
					b.EqRF(rB, name+"/carve/capacity", where, mx, e.MustParse("used+cnt"), "its capacity is the number of children counted for it: max ≡ used + cspace[i]")
					ui, un := recurrenceOrNil(sfc, lo)
					if ei, en := recurrenceOrNil(sfc, mx); ui == nil && ei != nil {
						// handed out from the back: the end of node i's room is carried (end' = end − cspace[i]),
						// starting at the total, which must be the number of nodes that have a parent
						b.EqRF(rB, name+"/carve/offset-step", where, en, lo, "the previous list ends where this one's room starts: end' ≡ end − cspace[i]")
						b.FullScan("C-scan coverage", name+"/carve/all-nodes", where, sfc, i, S.MakeFn("len", space))
						b.EqRF(rB, name+"/carve/len(cspace)", where, S.MakeFn("len", space), e.MustParse("len(idom)"), "the backing array has room for every node: len ≡ len(idom)")
						ti, tn := recurrenceOrNil(sfc, ei)
						stepOK := false
						if ti != nil {
							if ta := tn.SingleAtom(); ta != nil && ta.Name == "ite" {
								// counted exactly under the test that skips the -1 sentinel
								c := ta.Args[0]
								skip := S.False()
								if ia := FindFn(c, "idx"); len(ia) == 1 {
									skip = S.Cmp("==", S.atomRF(ia[0].ID), S.Int(-1))
								}
								if (c.Equal(S.Not(skip)) && ta.Args[1].Equal(ei.Add(S.Int(1))) && ta.Args[2].Equal(ei)) || (c.Equal(skip) && ta.Args[2].Equal(ei.Add(S.Int(1))) && ta.Args[1].Equal(ei)) {
									if ia := FindFn(c, "idx"); len(ia) == 1 && ia[0].Args[0].Equal(env.Vars["idom"].RF) {
										stepOK = true
									}
								}
							}
						}
						if ti == nil || !ti.Equal(S.Int(0)) || !stepOK {
							r.Fail(rB, name+"/carve/offset-init", where, "the last list does not end at a count of the nodes that have a parent: "+clip(ei.String(), 100))
						} else {
							r.OK(rB, name+"/carve/offset-init", where, "the last list ends at the number of counted children (a counter stepped with the counts)")
						}
						return
					}
					if ui == nil {
						r.Fail(rB, name+"/carve/offset", where, "the offset is not a running sum carried round the loop: "+clip(lo.String(), 100))
					} else {
						b.EqRF(rB, name+"/carve/offset-init", where, ui, S.Int(0), "the first list starts at 0")
						b.EqRF(rB, name+"/carve/offset-step", where, un, e.MustParse("used+cnt"), "the next list starts where this one's room ends: used' ≡ used + cspace[i]")
					}
					b.FullScan("C-scan coverage", name+"/carve/all-nodes", where, sfc, i, S.MakeFn("len", space))
					b.EqRF(rB, name+"/carve/len(cspace)", where, S.MakeFn("len", space), e.MustParse("len(idom)"), "the backing array has room for every node: len ≡ len(idom)")
				})
			}
			if nCarve != 1 {
				r.Fail(rB, name+"/carve", b.pos(fn), fmt.Sprintf("expected one store of a three-index slice of the backing array into children[i], found %d", nCarve))
			}
			if nCount == 1 && nAppend == 1 {
				r.OK(rB, name+"/inverts-idom", b.pos(fn), "children are counted per parent and each node is appended to children[idom[node]], both skipping the -1 sentinel")
			} else {
				r.Fail(rB, name+"/inverts-idom", b.pos(fn), "Dom does not invert idom (count per parent, then append node to its parent's list, skipping -1)")
			}
		})
	}
	b.CheckDFloor("D-floor")
}

// isMembershipScan: f(xs, v) loops over xs, returns true when an element
// equals v and false otherwise.
func isMembershipScan(X *Extractor, f *ssa.Function) bool {
	if len(f.Params) != 2 || f.Signature.Results().Len() != 1 {
		return false
	}
	fc := X.FCFor(f)
	xs, v := X.ParamRF(f, 0), X.ParamRF(f, 1)
	foundTrue, foundFalse, other := false, false, false
	for _, rt := range fc.Ctx.Returns() {
		val := fc.Val(rt.Results[0])
		switch {
		case val.Equal(X.S.True()):
			// reached from a comparison xs[i] == v
			for _, fct := range fc.Ctx.Facts(rt.Block()) {
				c := fc.Val(fct.Cond).SingleAtom()
				if fct.Val && c != nil && c.Name == "cmp==" {
					for k := 0; k < 2; k++ {
						if c.Args[k].Equal(v) {
							if ea := c.Args[1-k].SingleAtom(); ea != nil && ea.Name == "idx" && ea.Args[0].Equal(xs) {
								foundTrue = true
							}
						}
					}
				}
			}
		case val.Equal(X.S.False()):
			foundFalse = true
		default:
			other = true
		}
	}
	return foundTrue && foundFalse && !other && len(fc.Ctx.Loops()) == 1
}
