package main

// Engine B, part 4: the specification side. A small expression language
// whose terms are built with exactly the same constructors as the extractor
// uses (so helpers are inlined identically on both sides).

import (
	"fmt"
	"go/constant"
	"go/types"
	"math/big"
	"strings"
	"unicode"

	"golang.org/x/tools/go/ssa"
)

type SVal struct {
	RF *RF
	T  types.Type
}

type SpecEnv struct {
	X    *Extractor
	Pkg  *ssa.Package
	Vars map[string]SVal
}

func (x *Extractor) NewEnv(pkg *ssa.Package) *SpecEnv {
	return &SpecEnv{X: x, Pkg: pkg, Vars: map[string]SVal{}}
}

// EnvFor binds $0,$1,… (and the given names, positionally) to fn's parameters.
func (x *Extractor) EnvFor(fn *ssa.Function, names ...string) *SpecEnv {
	e := x.NewEnv(fn.Pkg)
	if fn.Pkg == nil && fn.Parent() != nil {
		e.Pkg = fn.Parent().Pkg
	}
	for i, p := range fn.Params {
		v := SVal{x.ParamRF(fn, i), p.Type()}
		e.Vars[fmt.Sprintf("$%d", i)] = v
		if i < len(names) && names[i] != "" && names[i] != "_" {
			e.Vars[names[i]] = v
		}
	}
	return e
}

func (e *SpecEnv) Set(name string, rf *RF, t types.Type) { e.Vars[name] = SVal{rf, t} }

// Let parses src and binds it to name.
func (e *SpecEnv) Let(name, src string) error {
	v, err := e.Parse(src)
	if err != nil {
		return fmt.Errorf("let %s: %v", name, err)
	}
	e.Vars[name] = v
	return nil
}

func newRatFromString(s string) (*big.Rat, bool) {
	r := new(big.Rat)
	_, ok := r.SetString(s)
	return r, ok
}

// ---- lexer ----

type tok struct {
	k string // "num", "id", "op", "eof"
	s string
}

func lex(src string) ([]tok, error) {
	var out []tok
	i := 0
	for i < len(src) {
		c := rune(src[i])
		switch {
		case unicode.IsSpace(c):
			i++
		case unicode.IsDigit(c) || (c == '.' && i+1 < len(src) && unicode.IsDigit(rune(src[i+1]))):
			j := i
			for j < len(src) && (unicode.IsDigit(rune(src[j])) || src[j] == '.') {
				j++
			}
			if j < len(src) && (src[j] == 'e' || src[j] == 'E') {
				k := j + 1
				if k < len(src) && (src[k] == '+' || src[k] == '-') {
					k++
				}
				if k < len(src) && unicode.IsDigit(rune(src[k])) {
					for k < len(src) && unicode.IsDigit(rune(src[k])) {
						k++
					}
					j = k
				}
			}
			out = append(out, tok{"num", src[i:j]})
			i = j
		case unicode.IsLetter(c) || c == '_' || c == '$':
			j := i + 1
			for j < len(src) && (unicode.IsLetter(rune(src[j])) || unicode.IsDigit(rune(src[j])) || src[j] == '_') {
				j++
			}
			out = append(out, tok{"id", src[i:j]})
			i = j
		default:
			two := ""
			if i+1 < len(src) {
				two = src[i : i+2]
			}
			switch two {
			case "<=", ">=", "==", "!=", "&&", "||":
				out = append(out, tok{"op", two})
				i += 2
				continue
			}
			if strings.ContainsRune("+-*/^()[],.<>!{}#", c) {
				out = append(out, tok{"op", string(c)})
				i++
				continue
			}
			return nil, fmt.Errorf("unexpected character %q in spec %q", c, src)
		}
	}
	out = append(out, tok{"eof", ""})
	return out, nil
}

type parser struct {
	e    *SpecEnv
	toks []tok
	pos  int
	src  string
}

func (e *SpecEnv) Parse(src string) (v SVal, err error) {
	toks, err := lex(src)
	if err != nil {
		return SVal{}, err
	}
	p := &parser{e: e, toks: toks, src: src}
	defer func() {
		if r := recover(); r != nil {
			if pe, ok := r.(specErr); ok {
				err = fmt.Errorf("spec %q: %s", src, string(pe))
				return
			}
			panic(r)
		}
	}()
	v = p.or()
	if p.peek().k != "eof" {
		p.fail("unexpected %q", p.peek().s)
	}
	return v, nil
}

// MustParse panics (caught by the obligation helper) on error.
func (e *SpecEnv) MustParse(src string) *RF {
	v, err := e.Parse(src)
	if err != nil {
		panic(specErr(err.Error()))
	}
	return v.RF
}

type specErr string

func (p *parser) fail(f string, a ...interface{}) { panic(specErr(fmt.Sprintf(f, a...))) }
func (p *parser) peek() tok                       { return p.toks[p.pos] }
func (p *parser) next() tok                       { t := p.toks[p.pos]; p.pos++; return t }
func (p *parser) isOp(s string) bool              { t := p.peek(); return t.k == "op" && t.s == s }
func (p *parser) expect(s string) {
	if !p.isOp(s) {
		p.fail("expected %q, found %q", s, p.peek().s)
	}
	p.pos++
}

func (p *parser) or() SVal {
	l := p.and()
	for p.isOp("||") {
		p.pos++
		r := p.and()
		l = SVal{p.e.X.S.Or(l.RF, r.RF), types.Typ[types.Bool]}
	}
	return l
}
func (p *parser) and() SVal {
	l := p.cmp()
	for p.isOp("&&") {
		p.pos++
		r := p.cmp()
		l = SVal{p.e.X.S.And(l.RF, r.RF), types.Typ[types.Bool]}
	}
	return l
}
func (p *parser) cmp() SVal {
	l := p.sum()
	for _, op := range []string{"<=", ">=", "==", "!=", "<", ">"} {
		if p.isOp(op) {
			p.pos++
			r := p.sum()
			return SVal{p.e.X.S.Cmp(op, l.RF, r.RF), types.Typ[types.Bool]}
		}
	}
	return l
}
func (p *parser) sum() SVal {
	l := p.prod()
	for p.isOp("+") || p.isOp("-") {
		op := p.next().s
		r := p.prod()
		if op == "+" {
			l = SVal{l.RF.Add(r.RF), arithType(l.T, r.T)}
		} else {
			l = SVal{l.RF.Sub(r.RF), arithType(l.T, r.T)}
		}
	}
	return l
}
func arithType(a, b types.Type) types.Type {
	if a != nil && b != nil && types.Identical(a, b) {
		return a
	}
	return nil
}
func (p *parser) prod() SVal {
	l := p.unary()
	for p.isOp("*") || p.isOp("/") {
		op := p.next().s
		r := p.unary()
		if op == "*" {
			l = SVal{l.RF.Mul(r.RF), arithType(l.T, r.T)}
		} else {
			l = SVal{l.RF.Div(r.RF), nil}
		}
	}
	return l
}
func (p *parser) unary() SVal {
	if p.isOp("-") {
		p.pos++
		v := p.unary()
		return SVal{v.RF.Neg(), v.T}
	}
	if p.isOp("!") {
		p.pos++
		v := p.unary()
		return SVal{p.e.X.S.Not(v.RF), v.T}
	}
	return p.pow()
}
func (p *parser) pow() SVal {
	b := p.postfix()
	if p.isOp("^") {
		p.pos++
		ex := p.unary()
		if c, ok := ex.RF.IsConst(); ok && c.IsInt() && c.Num().IsInt64() {
			return SVal{b.RF.Pow(int(c.Num().Int64())), nil}
		}
		return SVal{p.e.X.S.MakeFn("math.Pow", b.RF, ex.RF), nil}
	}
	return b
}

func derefT(t types.Type) types.Type {
	if t == nil {
		return nil
	}
	if pt, ok := t.Underlying().(*types.Pointer); ok {
		return pt.Elem()
	}
	return t
}

func (p *parser) args() []SVal {
	var out []SVal
	p.expect("(")
	for !p.isOp(")") {
		out = append(out, p.or())
		if p.isOp(",") {
			p.pos++
		}
	}
	p.expect(")")
	return out
}

func rfs(vs []SVal) []*RF {
	out := make([]*RF, len(vs))
	for i, v := range vs {
		out[i] = v.RF
	}
	return out
}

func (p *parser) postfix() SVal {
	v := p.primary()
	x := p.e.X
	for {
		switch {
		case p.isOp("."):
			p.pos++
			name := p.next()
			if name.k != "id" {
				p.fail("expected identifier after '.'")
			}
			if p.isOp("(") {
				as := p.args()
				v = p.method(v, name.s, as)
				continue
			}
			st := derefT(v.T)
			if st == nil {
				p.fail("field %s of a value of unknown type", name.s)
			}
			str, ok := st.Underlying().(*types.Struct)
			if !ok {
				p.fail("field %s of non-struct %s", name.s, st)
			}
			found := false
			for i := 0; i < str.NumFields(); i++ {
				if str.Field(i).Name() == name.s {
					v = SVal{x.fieldOf(v.RF, st, i), str.Field(i).Type()}
					found = true
				}
			}
			if !found {
				p.fail("no field %s in %s", name.s, st)
			}
		case p.isOp("["):
			p.pos++
			i := p.or()
			p.expect("]")
			var et types.Type
			if v.T != nil {
				switch u := v.T.Underlying().(type) {
				case *types.Slice:
					et = u.Elem()
				case *types.Array:
					et = u.Elem()
				case *types.Map:
					et = u.Elem()
				}
			}
			name := "idx"
			if v.T != nil {
				if _, ok := v.T.Underlying().(*types.Map); ok {
					name = "lookup"
				}
			}
			v = SVal{x.S.MakeFn(name, v.RF, i.RF), et}
		case p.isOp("#"):
			p.pos++
			n := p.next()
			at := v.RF.SingleAtom()
			if n.k != "num" || at == nil || at.Kind != "fn" {
				p.fail("#n applies to a call result")
			}
			if at.Name == "tuple" {
				k := int(n.s[0] - '0')
				if k >= len(at.Args) {
					p.fail("no component %s", n.s)
				}
				v = SVal{at.Args[k], nil}
			} else {
				v = SVal{x.S.MakeFn(at.Name+"#"+n.s, at.Args...), nil}
			}
		case p.isOp("("):
			as := p.args()
			v = SVal{x.S.MakeFn("apply", append([]*RF{v.RF}, rfs(as)...)...), nil}
		default:
			return v
		}
	}
}

func (p *parser) method(recv SVal, name string, as []SVal) SVal {
	x := p.e.X
	all := append([]*RF{recv.RF}, rfs(as)...)
	if recv.T != nil {
		if _, isIface := recv.T.Underlying().(*types.Interface); !isIface {
			for _, tt := range []types.Type{recv.T, types.NewPointer(recv.T)} {
				ms := x.W.Prog.MethodSets.MethodSet(tt)
				for i := 0; i < ms.Len(); i++ {
					sel := ms.At(i)
					if sel.Obj().Name() != name {
						continue
					}
					fn := x.W.Prog.MethodValue(sel)
					if fn == nil {
						continue
					}
					var rt types.Type
					if fn.Signature.Results().Len() == 1 {
						rt = fn.Signature.Results().At(0).Type()
					}
					// synthesized wrappers (promoted/pointer) delegate; use the declared method when possible
					if fn.Synthetic != "" {
						if obj, ok := sel.Obj().(*types.Func); ok {
							if decl := x.W.Prog.FuncValue(obj); decl != nil {
								fn = decl
							}
						}
					}
					if _, recvPtr := fn.Params[0].Type().Underlying().(*types.Pointer); recvPtr {
						if _, isPtr := recv.T.Underlying().(*types.Pointer); !isPtr {
							all = append([]*RF{x.S.MakeFn("ref", recv.RF)}, all[1:]...)
						}
					}
					return SVal{x.CallFn(fn, all), rt}
				}
			}
			p.fail("type %s has no method %s", recv.T, name)
		} else {
			it := recv.T.Underlying().(*types.Interface)
			for i := 0; i < it.NumMethods(); i++ {
				if m := it.Method(i); m.Name() == name {
					sig := m.Type().(*types.Signature)
					var rt types.Type
					if sig.Results().Len() == 1 {
						rt = sig.Results().At(0).Type()
					}
					return SVal{x.Invoke(name, all...), rt}
				}
			}
			p.fail("interface %s has no method %s", recv.T, name)
		}
	}
	return SVal{x.Invoke(name, all...), nil}
}

var rawFns = map[string]bool{"ref": true, "addr": true, "idx": true, "lookup": true, "slice": true, "apply": true, "tuple": true, "deref": true,
	"toint": true, "idiv": true, "imod": true, "shl": true, "shr": true, "and": true, "or": true, "andnot": true,
	"range": true, "lookupok": true}

func (p *parser) primary() SVal {
	x, s := p.e.X, p.e.X.S
	t := p.next()
	switch t.k {
	case "num":
		r, ok := newRatFromString(t.s)
		if !ok {
			p.fail("bad number %q", t.s)
		}
		return SVal{s.Const(r), nil}
	case "op":
		if t.s == "(" {
			v := p.or()
			p.expect(")")
			return v
		}
		p.fail("unexpected %q", t.s)
	case "id":
		name := t.s
		if p.isOp("(") {
			if v, ok := p.e.Vars[name]; ok {
				return v // a bound function value: applied by the postfix rule
			}
			return p.funcall(name, nil)
		}
		if v, ok := p.e.Vars[name]; ok {
			return v
		}
		switch name {
		case "true":
			return SVal{s.True(), types.Typ[types.Bool]}
		case "false":
			return SVal{s.False(), types.Typ[types.Bool]}
		case "nil":
			return SVal{s.Var("nil", false), nil}
		case "_":
			return SVal{s.Var("_", false), nil}
		}
		// package qualifier?
		if p.isOp(".") {
			if pkg := p.findPkg(name); pkg != nil {
				p.pos++
				id := p.next()
				if p.isOp("(") {
					return p.funcall(id.s, pkg)
				}
				return p.pkgMember(pkg, id.s)
			}
		}
		if p.e.Pkg != nil {
			if _, ok := p.e.Pkg.Members[name]; ok {
				return p.pkgMember(p.e.Pkg, name)
			}
		}
		p.fail("unbound identifier %q", name)
	}
	p.fail("unexpected end")
	_ = x
	return SVal{}
}

func (p *parser) findPkg(name string) *ssa.Package {
	for rel, pk := range p.e.X.W.Lib {
		if rel == name || strings.HasSuffix(rel, "/"+name) {
			return pk
		}
	}
	return nil
}

func (p *parser) pkgMember(pkg *ssa.Package, name string) SVal {
	x, s := p.e.X, p.e.X.S
	m, ok := pkg.Members[name]
	if !ok {
		p.fail("package %s has no member %s", pkg.Pkg.Name(), name)
	}
	switch m := m.(type) {
	case *ssa.Global:
		t := m.Type().Underlying().(*types.Pointer).Elem()
		return SVal{s.Var("global:"+x.W.relPkg(pkg.Pkg)+"."+name, isIntType(t)), t}
	case *ssa.NamedConst:
		c := m.Value
		var rf *RF
		switch c.Value.Kind() {
		case constant.Int:
			r, _ := newRatFromString(c.Value.ExactString())
			rf = s.Const(r)
		case constant.Float:
			f, _ := constant.Float64Val(c.Value)
			rf = s.Float(f)
		default:
			p.fail("constant %s of unsupported kind", name)
		}
		return SVal{rf, c.Type()}
	case *ssa.Function:
		return SVal{s.Var("func:"+x.W.FuncName(m), false), m.Type()}
	}
	p.fail("member %s is not a value", name)
	return SVal{}
}

func (p *parser) funcall(name string, pkg *ssa.Package) SVal {
	x, s := p.e.X, p.e.X.S
	as := p.args()
	ar := rfs(as)
	if pkg == nil {
		switch name {
		case "ite":
			if len(ar) != 3 {
				p.fail("ite needs 3 arguments")
			}
			return SVal{s.Ite(ar[0], ar[1], ar[2]), as[1].T}
		case "len", "cap":
			return SVal{s.MakeFn(name, ar[0]), types.Typ[types.Int]}
		case "not":
			return SVal{s.Not(ar[0]), types.Typ[types.Bool]}
		case "int", "float64", "float", "uint":
			if name == "int" || name == "uint" {
				return SVal{s.MakeFn("toint", ar[0]), types.Typ[types.Int]}
			}
			return SVal{ar[0], types.Typ[types.Float64]}
		}
		if a, ok := fnAliases[name]; ok {
			return SVal{s.MakeFn(a, ar...), types.Typ[types.Float64]}
		}
		if name == "deref" && len(as) == 1 {
			var et types.Type
			if as[0].T != nil {
				if pt, ok := as[0].T.Underlying().(*types.Pointer); ok {
					et = pt.Elem()
				}
			}
			return SVal{s.MakeFn("deref", ar[0]), et}
		}
		if rawFns[name] {
			if name == "addr" {
				name = "&idx"
			}
			return SVal{s.MakeFn(name, ar...), nil}
		}
		pkg = p.e.Pkg
	}
	if pkg == nil {
		p.fail("unknown function %s", name)
	}
	m, ok := pkg.Members[name]
	if !ok {
		p.fail("package %s has no member %s", pkg.Pkg.Name(), name)
	}
	switch m := m.(type) {
	case *ssa.Function:
		var rt types.Type
		if m.Signature.Results().Len() == 1 {
			rt = m.Signature.Results().At(0).Type()
		}
		return SVal{x.CallFn(m, ar), rt}
	case *ssa.Type:
		// struct constructor T(f0, f1, …) in field order
		t := m.Type()
		st, ok := t.Underlying().(*types.Struct)
		if !ok {
			if len(ar) == 1 {
				return SVal{ar[0], t} // conversion
			}
			p.fail("%s is not a struct type", name)
		}
		if len(ar) != st.NumFields() {
			p.fail("%s has %d fields, %d given", name, st.NumFields(), len(ar))
		}
		return SVal{x.mkStruct(t, ar), t}
	}
	p.fail("%s is not callable", name)
	return SVal{}
}
