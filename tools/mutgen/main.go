// mutgen lists single-token mutants of the non-test Go files under a directory
// as JSON lines {file, off, len, new, line, kind, fn}. Used by sweep.py to look
// for code no obligation covers (a mutant the checks do not notice).
package main

import (
	"encoding/json"
	"fmt"
	"go/ast"
	"go/parser"
	"go/token"
	"os"
	"path/filepath"
	"strconv"
	"strings"
)

type M struct {
	File string `json:"file"`
	Off  int    `json:"off"`
	Len  int    `json:"len"`
	New  string `json:"new"`
	Line int    `json:"line"`
	Kind string `json:"kind"`
	Fn   string `json:"fn"`
}

var swaps = map[token.Token][]string{
	token.LSS: {"<=", ">"}, token.LEQ: {"<"}, token.GTR: {">=", "<"}, token.GEQ: {">"},
	token.EQL: {"!="}, token.NEQ: {"=="},
	token.ADD: {"-"}, token.SUB: {"+"}, token.MUL: {"/"}, token.QUO: {"*"}, token.REM: {"/"},
	token.LAND: {"||"}, token.LOR: {"&&"},
	token.SHL: {">>"}, token.SHR: {"<<"}, token.AND: {"|"}, token.OR: {"&"},
}
var asg = map[token.Token]string{token.ADD_ASSIGN: "-=", token.SUB_ASSIGN: "+=", token.MUL_ASSIGN: "/=", token.QUO_ASSIGN: "*="}

func main() {
	root := os.Args[1]
	enc := json.NewEncoder(os.Stdout)
	filepath.Walk(root, func(p string, info os.FileInfo, err error) error {
		if err != nil || info.IsDir() || !strings.HasSuffix(p, ".go") || strings.HasSuffix(p, "_test.go") || strings.Contains(p, "/.git/") || strings.Contains(p, "/cmd/") || strings.Contains(p, "/internal/") {
			return nil
		}
		fset := token.NewFileSet()
		f, err := parser.ParseFile(fset, p, nil, 0)
		if err != nil {
			fmt.Fprintln(os.Stderr, err)
			return nil
		}
		rel, _ := filepath.Rel(root, p)
		for _, d := range f.Decls {
			fd, ok := d.(*ast.FuncDecl)
			if !ok || fd.Body == nil {
				continue
			}
			name := fd.Name.Name
			if fd.Recv != nil && len(fd.Recv.List) == 1 {
				t := fd.Recv.List[0].Type
				if st, ok := t.(*ast.StarExpr); ok {
					t = st.X
				}
				if id, ok := t.(*ast.Ident); ok {
					name = id.Name + "." + name
				}
			}
			emit := func(pos token.Pos, n int, nw, kind string) {
				enc.Encode(M{rel, fset.Position(pos).Offset, n, nw, fset.Position(pos).Line, kind, name})
			}
			ast.Inspect(fd.Body, func(n ast.Node) bool {
				switch x := n.(type) {
				case *ast.BinaryExpr:
					for _, nw := range swaps[x.Op] {
						emit(x.OpPos, len(x.Op.String()), nw, "binop "+x.Op.String()+"→"+nw)
					}
				case *ast.IncDecStmt:
					if x.Tok == token.INC {
						emit(x.TokPos, 2, "--", "incdec")
					} else {
						emit(x.TokPos, 2, "++", "incdec")
					}
				case *ast.AssignStmt:
					if nw, ok := asg[x.Tok]; ok {
						emit(x.TokPos, len(x.Tok.String()), nw, "opassign "+x.Tok.String()+"→"+nw)
					}
					if os.Getenv("MUTGEN_B") != "" && x.Tok != token.DEFINE {
						emit(x.Pos(), int(x.End()-x.Pos()), "", "delete assignment")
					}
				case *ast.UnaryExpr:
					if x.Op == token.NOT || x.Op == token.SUB {
						emit(x.OpPos, 1, "", "drop unary "+x.Op.String())
					}
				case *ast.BasicLit:
					switch x.Kind {
					case token.INT:
						if v, err := strconv.ParseInt(x.Value, 0, 64); err == nil {
							emit(x.ValuePos, len(x.Value), strconv.FormatInt(v+1, 10), "int+1")
							if v > 0 {
								emit(x.ValuePos, len(x.Value), strconv.FormatInt(v-1, 10), "int-1")
							}
						}
					case token.FLOAT:
						emit(x.ValuePos, len(x.Value), "(2*"+x.Value+")", "float*2")
						if os.Getenv("MUTGEN_B") != "" {
							emit(x.ValuePos, len(x.Value), "(1+"+x.Value+")", "float+1")
						}
					}
				case *ast.IfStmt:
					if os.Getenv("MUTGEN_B") != "" {
						emit(x.Cond.Pos(), int(x.Cond.End()-x.Cond.Pos()), "true", "cond→true")
						emit(x.Cond.Pos(), int(x.Cond.End()-x.Cond.Pos()), "false", "cond→false")
					}
				case *ast.ExprStmt:
					if os.Getenv("MUTGEN_B") != "" {
						if _, isCall := x.X.(*ast.CallExpr); isCall {
							emit(x.Pos(), int(x.End()-x.Pos()), "", "delete call stmt")
						}
					}
				case *ast.BranchStmt:
					if x.Tok == token.BREAK && x.Label == nil {
						emit(x.TokPos, 5, "continue", "break→continue")
					} else if x.Tok == token.CONTINUE && x.Label == nil {
						emit(x.TokPos, 8, "break", "continue→break")
					}
				}
				return true
			})
		}
		return nil
	})
}
