package main

import (
	"go/types"
	"strings"

	"golang.org/x/tools/go/ssa"
)

// propC09copy: Sample.Copy returns a Sample whose Xs is an element-for-element
// copy of s.Xs (same length), whose Weights is nil exactly when s.Weights is
// nil and otherwise an element-for-element copy of it, and whose Sorted flag is
// s.Sorted. (That the copies share no memory with the receiver is engine A's
// fresh-result obligation.) Quantile, IQR, SampleCI and the KDE rely on it: the
// data they work on when the sample is not marked sorted is *s.Copy().Sort().
func propC09copy(a *Analysis, r *Registry, b *B) {
	const rule = "B-C09 formula"
	name := "stats.(Sample).Copy"
	fn := b.Fn(rule, name)
	if fn == nil {
		return
	}
	X := b.X
	S := X.S
	b.guard(rule, name, func() {
		fc := X.FCFor(fn)
		env := X.EnvFor(fn, "s")
		rets := fc.Ctx.Returns()
		if len(rets) != 1 {
			anchorFail("expected one return")
		}
		al, ok := rets[0].Results[0].(*ssa.Alloc)
		if !ok {
			anchorFail("the result is not a Sample allocated here")
		}
		stT := al.Type().Underlying().(*types.Pointer).Elem()
		st, ok := stT.Underlying().(*types.Struct)
		if !ok {
			anchorFail("the result is not a struct")
		}
		field := func(nm string) *RF {
			for i := 0; i < st.NumFields(); i++ {
				if st.Field(i).Name() == nm {
					return fc.Sub(fc.cellValue(cellKey{al, i}, stT, rets[0]))
				}
			}
			anchorFail("no field %s", nm)
			return nil
		}
		// isCopy: v is a fresh slice holding src's elements: make+copy, append to an
		// empty slice, or make + a loop storing src[i] at i for every i
		isCopy := func(construct string, v, src *RF) {
			at := v.SingleAtom()
			if at != nil && at.Name == "copyof" && at.Args[0].Equal(src) {
				r.OK(rule, construct, b.pos(fn), "a fresh slice of the same length filled by copy")
				return
			}
			if at == nil || !strings.HasPrefix(at.Name, "makeslice:") {
				r.Fail(rule, construct, b.pos(fn), "not a fresh copy of the receiver's slice: "+clip(v.String(), 160))
				return
			}
			if !b.EqRF(rule, construct+"/len", b.pos(fn), at.Args[0], S.MakeFn("len", src), "the copy has the length of the original") {
				return
			}
			// filled by copy(dst, src) with dst read back from where the fresh slice was put
			// (`dup.Xs = make(…); copy(dup.Xs, s.Xs)`): the copy follows the make in its block,
			// or lies on every path to the return
			var ms *ssa.MakeSlice
			fc.Ctx.Instrs(func(in ssa.Instruction) {
				if m, ok := in.(*ssa.MakeSlice); ok && fc.Val(m).Equal(v) {
					ms = m
				}
			})
			copied := false
			fc.Ctx.Instrs(func(in ssa.Instruction) {
				c, ok := in.(*ssa.Call)
				if !ok || ms == nil {
					return
				}
				if bi, isB := c.Call.Value.(*ssa.Builtin); !isB || bi.Name() != "copy" {
					return
				}
				if !fc.Val(c.Call.Args[0]).Equal(v) || !fc.Val(c.Call.Args[1]).Equal(src) {
					return
				}
				if c.Block() == ms.Block() || fc.Ctx.Dominates(c.Block(), rets[0].Block()) {
					copied = true
				}
			})
			if copied {
				r.OK(rule, construct, b.pos(fn), "a fresh slice of the same length filled by copy")
				return
			}
			var st *ssa.Store
			n := 0
			fc.Ctx.Instrs(func(in ssa.Instruction) {
				if s2, ok := in.(*ssa.Store); ok {
					if ia, ok := s2.Addr.(*ssa.IndexAddr); ok && fc.Val(ia.X).Equal(v) {
						st = s2
						n++
					}
				}
			})
			if n != 1 {
				r.Fail(rule, construct, b.pos(fn), "the fresh slice is not filled by one element store (or copy)")
				return
			}
			I := fc.Val(st.Addr.(*ssa.IndexAddr).Index)
			if !fc.Val(st.Val).Equal(S.MakeFn("idx", src, I)) {
				r.Fail(rule, construct, a.W.InstrPos(st), "element i of the copy is not element i of the original: "+clip(fc.Val(st.Val).String(), 120))
				return
			}
			if b.FullScan("C-scan coverage", construct+"/all", a.W.InstrPos(st), fc, I, S.MakeFn("len", src)) {
				r.OK(rule, construct, a.W.InstrPos(st), "a fresh slice of the same length filled element by element")
			}
		}
		isCopy(name+"/Xs", field("Xs"), env.MustParse("s.Xs"))
		w := field("Weights")
		srcW := env.MustParse("s.Weights")
		isNil := env.MustParse("s.Weights==nil")
		wa := w.SingleAtom()
		// slices.Clone keeps nil nil and copies anything else: exactly the nil-or-copy wanted
		viaClone := false
		if wa != nil && wa.Name == "copyof" && wa.Args[0].Equal(srcW) {
			fc.Ctx.Instrs(func(in ssa.Instruction) {
				if c, ok := in.(*ssa.Call); ok && c.Call.StaticCallee() != nil && strings.HasPrefix(c.Call.StaticCallee().String(), "slices.Clone[") && fc.Val(c).Equal(w) {
					viaClone = true
				}
			})
		}
		if viaClone {
			r.OK(rule, name+"/Weights", b.pos(fn), "slices.Clone of the receiver's weights: nil stays nil, anything else is copied")
		} else if wa == nil || wa.Name != "ite" {
			r.Fail(rule, name+"/Weights", b.pos(fn), "Weights is not nil-or-copy by whether the receiver has weights: "+clip(w.String(), 160))
		} else {
			c, whenNil, whenSet := wa.Args[0], wa.Args[1], wa.Args[2]
			if c.Equal(S.Not(isNil)) {
				whenNil, whenSet = whenSet, whenNil
				c = isNil
			}
			if !c.Equal(isNil) {
				r.Fail(rule, name+"/Weights", b.pos(fn), "the weights are copied under "+clip(c.String(), 100)+", not under s.Weights != nil")
			} else if na := whenNil.SingleAtom(); na == nil || !(na.Name == "nil" || strings.HasPrefix(na.Name, "nil")) {
				r.Fail(rule, name+"/Weights", b.pos(fn), "an unweighted sample does not stay unweighted: "+clip(whenNil.String(), 100))
			} else {
				isCopy(name+"/Weights", whenSet, srcW)
			}
		}
		b.EqRF(rule, name+"/Sorted", b.pos(fn), field("Sorted"), env.MustParse("s.Sorted"), "the Sorted flag is kept")
	})
}
