package main

import (
	"strings"

	"golang.org/x/tools/go/ssa"
)

func init() {
	propFuncs["C10"] = propC10
	propInfos["C10"] = &PropInfo{
		Level:   "other",
		Explain: "Structural necessary conditions decided statically (DESIGN.md §5 C10): engine A — Quantile and IQR never write the receiver's Xs/Weights (the Copy() before Sort() is what discharges it); engine B — under Weights==nil the value returned is the Hyndman–Fan type 8 formula: NaN for an empty sample, Bounds() ends for q<=0 / q>=1, position n=1/3+q(N+1/3), (k,frac)=Modf(n), Xs[0] for k<=0, Xs[N-1] for k>=N, else Xs[k-1]+frac(Xs[k]-Xs[k-1]) — decided both for a sample marked Sorted (data = receiver) and not (data = *s.Copy().Sort()); the weighted branch's cumulative scan (target=Weight()*q, target-=w, first i with target<0); IQR = Q(0.75)-Q(0.25) on the same data; D-floor/D-bound on the interpolation indices.",
		Assume:  []string{"A4 reals", "sort.Float64s / sort.Sort sort ascending"},
		Undec:   []string{"monotonicity in q", "independence from input order (follows from sortedness, which is not proved)", "behaviour for NaN data"},
	}
}

const r8 = "ite(len(D.Xs)==0, nan(), ite(q<=0, S.Bounds()#0, ite(1<=q, S.Bounds()#1, " +
	"ite(int(modf0(1/3+q*(len(D.Xs)+1/3)))<=0, D.Xs[0], ite(len(D.Xs)<=int(modf0(1/3+q*(len(D.Xs)+1/3))), D.Xs[len(D.Xs)-1], " +
	"D.Xs[int(modf0(1/3+q*(len(D.Xs)+1/3)))-1]+modf1(1/3+q*(len(D.Xs)+1/3))*(D.Xs[int(modf0(1/3+q*(len(D.Xs)+1/3)))]-D.Xs[int(modf0(1/3+q*(len(D.Xs)+1/3)))-1]))))))"

func propC10(a *Analysis, r *Registry) {
	b := NewB(a, r)
	X := b.X
	const rB = "B-C10 formula"
	if fn := b.Fn(rB, "stats.(Sample).Quantile"); fn != nil {
		name := "stats.(Sample).Quantile"
		a.CheckNoMutation(r, "A-1 no-mutation", fn, nil)
		b.CheckDFloor("D-floor", name)
		for _, sorted := range []bool{true, false} {
			sorted := sorted
			regime := map[bool]string{true: "sorted", false: "unsorted"}[sorted]
			b.guard(rB, name+"/R8/"+regime, func() {
				env := X.EnvFor(fn, "s", "q")
				env.Let("S", "s")
				sv := X.S.False()
				if sorted {
					sv = X.S.True()
					env.Let("D", "s")
				} else {
					env.Let("D", "deref(s.Copy().Sort())")
				}
				fc := X.Under(fn,
					X.AssumeEq(env.MustParse("s.Sorted"), sv),
					X.AssumeEq(env.MustParse("D.Weights"), env.MustParse("nil")))
				// under the unsorted regime the emptiness test is made on the receiver
				sp := r8
				if !sorted {
					sp = strings.Replace(sp, "ite(len(D.Xs)==0, nan()", "ite(len(s.Xs)==0, nan()", 1)
				}
				b.EqUnder(rB, name+"/R8/"+regime, b.pos(fn), fc, fc.RetVal(0), env, sp)
			})
		}
		// interpolation indices within bounds
		b.guard("D-bound", name+"/interpolation-indices", func() {
			n := 0
			bad := ""
			var seenIdx []*RF
			// the interpolation may sit in Quantile or in a helper it hands the sorted data to
			for _, fc := range X.FCFor(fn).BoundCallees(2) {
				fc := fc
				fc.Ctx.Instrs(func(in ssa.Instruction) {
					ia, ok := in.(*ssa.IndexAddr)
					if !ok {
						return
					}
					idx := fc.Val(ia.Index)
					if len(FindFn(idx, "math.Modf#0")) == 0 {
						return
					}
					dup := false
					for _, d := range seenIdx {
						if d.Equal(idx) {
							dup = true
						}
					}
					if !dup {
						seenIdx = append(seenIdx, idx)
						n++
					}
					g := fc.SignerAt(ia)
					ln := X.S.MakeFn("len", fc.Val(ia.X))
					if !g.NonNeg(idx) || !g.Pos(ln.Sub(idx)) {
						bad += " index " + clip(idx.String(), 80) + " at " + a.W.InstrPos(ia) + " not provably within [0,len)"
					}
				})
			}
			if n < 2 {
				r.Undecided("D-bound", name+"/interpolation-indices", b.pos(fn), "expected the two interpolation indices k-1 and k")
			} else if bad != "" {
				r.Fail("D-bound", name+"/interpolation-indices", b.pos(fn), bad)
			} else {
				r.OK("D-bound", name+"/interpolation-indices", b.pos(fn), "0 <= k-1 and k < len(Xs) at the interpolation")
			}
		})
		// weighted branch
		b.guard(rB, name+"/weighted", func() {
			env := X.EnvFor(fn, "s", "q")
			fc := X.Under(fn, X.AssumeEq(env.MustParse("s.Sorted"), X.S.True()),
				X.AssumeCond(env.MustParse("s.Weights==nil"), false))
			// the scan may sit in Quantile or in a helper it delegates the weighted case to
			// the alternatives of the result: one per return, and — when the returned element's index
			// is merged at the loop's exits (idx = i; break) — one per incoming edge of that merge
			type alt struct {
				val *RF
				blk *ssa.BasicBlock
				pos string
				// the branch taken out of blk on the way to the merge, if blk ends in one
				edgeCond *RF
			}
			var inLoop, last *alt
			cands := append([]*FC{fc}, fc.TailCallees()...)
			for _, c := range cands {
				inLoop, last = nil, nil
				var alts []*alt
				for _, rt := range c.Ctx.Returns() {
					v := c.Val(rt.Results[0])
					expanded := false
					if at := v.SingleAtom(); at != nil && at.Name == "idx" {
						if pa := at.Args[1].SingleAtom(); pa != nil {
							if ph, ok := X.phiOf[pa.ID]; ok && ph.Parent() == c.Fn {
								vals, preds := c.Ctx.PhiLiveEdges(ph)
								header := false
								for _, pr := range preds {
									if c.Ctx.Dominates(ph.Block(), pr) {
										header = true
									}
								}
								if !header {
									for k, pv := range vals {
										alts = append(alts, &alt{X.S.MakeFn("idx", at.Args[0], c.Val(pv)), preds[k], a.W.InstrPos(rt), c.edgeCond(preds[k], ph.Block())})
									}
									expanded = true
								}
							}
						}
					}
					if !expanded {
						alts = append(alts, &alt{v, rt.Block(), a.W.InstrPos(rt), nil})
					}
				}
				for _, al := range alts {
					at := al.val.SingleAtom()
					if at == nil || at.Name != "idx" {
						continue
					}
					if al.edgeCond != nil {
						if hasAtomPrefix(al.val, "phi:") {
							inLoop = al
						} else {
							last = al
						}
					} else if c.Ctx.LoopOf(al.blk) != nil || len(c.Ctx.Facts(al.blk)) > 0 && hasAtomPrefix(al.val, "phi:") {
						inLoop = al
					} else {
						last = al
					}
				}
				if inLoop != nil && last != nil {
					fc = c
					break
				}
			}
			if inLoop == nil || last == nil {
				var vs []string
				for _, rt := range fc.Ctx.Returns() {
					vs = append(vs, clip(fc.Val(rt.Results[0]).String(), 120))
				}
				anchorFail("weighted scan: returns not found in %s (loops %d): %s", a.W.FuncName(fc.Fn), len(fc.Ctx.Loops()), strings.Join(vs, " | "))
			}
			rv := inLoop.val.SingleAtom()
			if rv == nil || rv.Name != "idx" {
				anchorFail("weighted scan does not return an element")
			}
			i := rv.Args[1]
			env.Set("i", i, nil)
			b.Eq(rB, name+"/weighted/returns", inLoop.pos, inLoop.val, env, "s.Xs[i]")
			// the guard of that return: target' < 0
			var tnext *RF
			for _, f := range fc.Ctx.Facts(inLoop.blk) {
				c := fc.Val(f.Cond).SingleAtom()
				if f.Val && c != nil && c.Name == "cmp<" {
					if z, ok := c.Args[1].IsConst(); ok && z.Sign() == 0 {
						tnext = c.Args[0]
					}
				}
			}
			if inLoop.edgeCond != nil {
				if c := inLoop.edgeCond.SingleAtom(); c != nil && c.Name == "cmp<" {
					if z, ok := c.Args[1].IsConst(); ok && z.Sign() == 0 {
						tnext = c.Args[0]
					}
				}
			}
			if tnext == nil {
				r.Fail(rB, name+"/weighted/guard", inLoop.pos, "the element is not returned under `target < 0`")
				return
			}
			env.Set("w", env.MustParse("s.Weights[i]"), nil)
			target := tnext.Add(env.Vars["w"].RF)
			ti, tn := fc.Recurrence(target)
			env.Set("target", target, nil)
			b.EqUnder(rB, name+"/weighted/target-init", b.pos(fn), fc, ti, env, "s.Weight()*q")
			b.EqRF(rB, name+"/weighted/target-step", b.pos(fn), tn, tnext, "target -= Weights[i], tested after the subtraction")
			b.Eq(rB, name+"/weighted/fallthrough", last.pos, last.val, env, "s.Xs[len(s.Xs)-1]")
		})
	}
	if fn := b.Fn(rB, "stats.(Sample).IQR"); fn != nil {
		name := "stats.(Sample).IQR"
		a.CheckNoMutation(r, "A-1 no-mutation", fn, nil)
		for _, sorted := range []bool{true, false} {
			sorted := sorted
			regime := map[bool]string{true: "sorted", false: "unsorted"}[sorted]
			b.guard(rB, name+"/"+regime, func() {
				env := X.EnvFor(fn, "s")
				sv := X.S.False()
				env.Let("D", "deref(s.Copy().Sort())")
				if sorted {
					sv = X.S.True()
					env.Let("D", "s")
				}
				fc := X.Under(fn, X.AssumeEq(env.MustParse("s.Sorted"), sv))
				b.EqUnder(rB, name+"/"+regime, b.pos(fn), fc, fc.RetVal(0), env, "D.Quantile(0.75)-D.Quantile(0.25)")
			})
		}
	}
}
