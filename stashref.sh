#!/bin/bash
# usage: stashref.sh RCxx check1 [check2…]  — copy a sub-agent's refactorings into /verif/refactors
r=$1; shift
for k in 1 2 3; do d=/tmp/wt/$r-out/ref$k; [ -f $d/patch.diff ] || continue; id=${r#R}; mkdir -p /verif/refactors/$id-$k; cp $d/patch.diff $d/meta.json /verif/refactors/$id-$k/; [ -f $d/equiv_test.go ] && cp $d/equiv_test.go /verif/refactors/$id-$k/
python3 - "$id-$k" "$@" <<'EOF'
import json,sys
d='/verif/refactors/'+sys.argv[1]; j=json.load(open(d+'/meta.json')); j['checks']=sys.argv[2:]; j['kind']='behaviour-preserving refactoring (sub-agent produced; equivalence test included); the named checks must stay silent'
json.dump(j,open(d+'/meta.json','w'),indent=1)
EOF
done
