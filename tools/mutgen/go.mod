module mutgen

go 1.21
