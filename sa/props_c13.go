package main

func init() {
	propFuncs["C13"] = propC13
	propInfos["C13"] = &PropInfo{
		Level:   "other",
		Explain: "Structural necessary conditions decided statically (DESIGN.md §5 C13): for (*StreamStats).Add and .Combine engine B resolves, for EVERY field of the receiver, the value it holds when the method returns (through reaching stores and gating functions) and compares it with the online update / Chan et al. pairwise-merge formula in terms of the values on entry; Combine is decided in three regimes — both non-empty, argument empty (receiver must be unchanged), receiver empty (zero value; result must equal the argument) — which is exactly where an unguarded Min/Max merge is wrong. Derived statistics (Weight, Mean, Variance, StdDev, RMS) are compared with their definitions; engine A shows Combine never writes its argument. Decides formulas over the reals, not rounding.",
		Assume:  []string{"A4 reals; uint->float64 conversions of counts exact", "A6 receiver and argument of Combine do not alias", "an empty StreamStats is the zero value (documented: 'should be initialized to its zero value')"},
		Undec:   []string{"agreement with batch statistics to within rounding", "histories longer than one step (follow by induction from the per-step formulas, not checked mechanically)"},
	}
}

func propC13(a *Analysis, r *Registry) {
	b := NewB(a, r)
	X := b.X
	const rB = "B-C13 field-at-exit"
	if fn := b.Fn(rB, "stats.(*StreamStats).Add"); fn != nil {
		name := "stats.(*StreamStats).Add"
		fields := structFieldsOf(fn, 0)
		specs := map[string]string{
			"Count": "s.Count+1", "Total": "s.Total+x",
			"mean":          "s.mean+(x-s.mean)/(s.Count+1)",
			"meanOfSquares": "s.meanOfSquares+(x*x-s.meanOfSquares)/(s.Count+1)",
			"vM2":           "s.vM2+(x-s.mean)*(x-(s.mean+(x-s.mean)/(s.Count+1)))",
			"Min":           "ite(s.Count==0, x, ite(x<s.Min, x, s.Min))",
			"Max":           "ite(s.Count==0, x, ite(s.Max<x, x, s.Max))",
		}
		for _, f := range fields {
			f := f
			b.guard(rB, name+"/"+f, func() {
				sp, ok := specs[f]
				if !ok {
					r.Undecided(rB, name+"/"+f, b.pos(fn), "field without a stated update formula (new field?)")
					return
				}
				fc := X.FCFor(fn)
				env := X.EnvFor(fn, "s", "x")
				b.Eq(rB, name+"/"+f, b.pos(fn), fc.FieldAtExit(0, f), env, sp)
			})
		}
		r.Floor(rB, "fields of StreamStats checked in Add", len(fields), 7)
		a.CheckNoMutation(r, "A-1 no-mutation", fn, map[int]bool{})
	}
	if fn := b.Fn(rB, "stats.(*StreamStats).Combine"); fn != nil {
		name := "stats.(*StreamStats).Combine"
		fields := structFieldsOf(fn, 0)
		both := map[string]string{
			"Count": "s.Count+o.Count", "Total": "s.Total+o.Total",
			"mean":          "s.mean+(o.mean-s.mean)*o.Count/(s.Count+o.Count)",
			"meanOfSquares": "s.meanOfSquares+(o.meanOfSquares-s.meanOfSquares)*o.Count/(s.Count+o.Count)",
			"vM2":           "s.vM2+o.vM2+(o.mean-s.mean)^2*s.Count*o.Count/(s.Count+o.Count)",
			"Min":           "ite(o.Min<s.Min, o.Min, s.Min)",
			"Max":           "ite(s.Max<o.Max, o.Max, s.Max)",
		}
		env := X.EnvFor(fn, "s", "o")
		zero := X.S.Int(0)
		for _, f := range fields {
			f := f
			// regime 1: both non-empty
			b.guard(rB, name+"/both-nonempty/"+f, func() {
				sp, ok := both[f]
				if !ok {
					r.Undecided(rB, name+"/both-nonempty/"+f, b.pos(fn), "field without a stated merge formula (new field?)")
					return
				}
				fc := X.Under(fn,
					X.AssumeCond(env.MustParse("s.Count==0"), false),
					X.AssumeCond(env.MustParse("o.Count==0"), false))
				b.Eq(rB, name+"/both-nonempty/"+f, b.pos(fn), fc.FieldAtExit(0, f), env, sp)
			})
			// regime 2: argument empty → receiver unchanged
			b.guard(rB, name+"/arg-empty/"+f, func() {
				var as []Assumption
				for _, g := range fields {
					as = append(as, X.AssumeEq(env.MustParse("o."+g), zero))
				}
				as = append(as, X.AssumeCond(env.MustParse("s.Count==0"), false))
				fc := X.Under(fn, as...)
				b.Eq(rB, name+"/arg-empty/"+f, b.pos(fn), fc.FieldAtExit(0, f), env, "s."+f)
			})
			// regime 3: receiver empty (zero value) → equals the argument
			b.guard(rB, name+"/recv-empty/"+f, func() {
				var as []Assumption
				for _, g := range fields {
					as = append(as, X.AssumeEq(env.MustParse("s."+g), zero))
				}
				as = append(as, X.AssumeCond(env.MustParse("o.Count==0"), false))
				fc := X.Under(fn, as...)
				b.Eq(rB, name+"/recv-empty/"+f, b.pos(fn), fc.FieldAtExit(0, f), env, "o."+f)
			})
		}
		r.Floor(rB, "fields of StreamStats checked in Combine", len(fields), 7)
		a.CheckNoMutation(r, "A-1 no-mutation", fn, map[int]bool{1: true})
	}
	derived := [][2]string{
		{"stats.(*StreamStats).Weight", "s.Count"}, {"stats.(*StreamStats).Mean", "s.mean"},
		{"stats.(*StreamStats).Variance", "s.vM2/(s.Count-1)"}, {"stats.(*StreamStats).StdDev", "sqrt(s.vM2/(s.Count-1))"},
		{"stats.(*StreamStats).RMS", "sqrt(s.meanOfSquares)"},
	}
	for _, d := range derived {
		d := d
		if fn := b.Fn("B-C13 derived", d[0]); fn != nil {
			b.guard("B-C13 derived", d[0], func() {
				b.Eq("B-C13 derived", d[0], b.pos(fn), X.FCFor(fn).RetVal(0), X.EnvFor(fn, "s"), d[1])
			})
		}
	}
}
