package main

import (
	"fmt"
	"go/types"
	"os"
	"strings"

	"golang.org/x/tools/go/ssa"
)

func init() {
	propFuncs["C02"] = propC02
	propInfos["C02"] = &PropInfo{
		Level:   "other",
		Explain: "Structural necessary conditions decided statically (DESIGN.md §5 C02): decision lists of PMF/CDF (0 below zero, 1 from N1*N2 upward, 0 above the support); tied branch: CDF = A(⌊2U⌋)/Choose(N1+N2,N1), PMF = (A(⌊2U⌋)-A(⌊2U⌋-1))/Choose(N1+N2,N1) with A(j) = makeUmemo(j,N1,T)[len T][ukey{N1,j}] (the same j passed and looked up); untied branch: PMF = p(⌊U⌋)[⌊U⌋], CDF's flip condition, flipped index N1N2-Ui-1 and 1-Σ (mirror identity), Σ as a recurrence over p(Ui)[:Ui+1]; the Mann–Whitney recurrence out[U] = (n·lp[U-m] + m·rp[U])/(n+m) in UDist.p with lp=memo[n-1], rp = memo[n] or memo[m-1]; in makeUmemo the coefficient recurrence a[k], sibling agreement of the top-down key discovery and the bottom-up fill on (n1', twoU', rk range), the K=2 base case term and its floor-divided bound, the step term with the saturation value; D-floor on every int conversion/division; Step()=0.5, Bounds()=(0,N1·N2); order independence of the three map ranges is decided under C20 (A-5). Added after the mutation sweep (DESIGN §13): hasTies as a first-hit scan for t > 1; table sizes of p; in makeUmemo every rank gone through in all passes, the running sum equal to the prefix sum by induction, the attainable-range filter, the source table of the keys; tied PMF/CDF panic only on a missing entry.",
		Assume:  []string{"A4 reals", "preconditions: N1,N2 >= 0, tie counts >= 0"},
		Undec:   []string{"that the recurrences count subsets correctly (the combinatorial values)", "monotonicity and sum-to-one of the computed floats", "mirror symmetry between (N1,N2,T) and (N2,N1,T)"},
	}
}

func propC02(a *Analysis, r *Registry) {
	b := NewB(a, r)
	X := b.X
	X.NoInline["stats.(UDist).p"] = true // the table is named by its call; its own recurrence is decided below
	S := X.S
	const rB = "B-C02 formula"
	const rC = "C-decision support"
	isConstRet := func(v string) func(rt *ssa.Return) bool {
		return func(rt *ssa.Return) bool {
			c, ok := rt.Results[0].(*ssa.Const)
			return ok && c.Value != nil && c.Value.ExactString() == v
		}
	}
	A := func(j string) string {
		return "makeUmemo(" + j + ", d.N1, d.T)[len(d.T)][ukey(d.N1, " + j + ")]"
	}
	// the integer helpers the formulas above are written with (the specs call them too, so they
	// must be pinned on their own: a `maxint` that returned the minimum would change code and
	// spec together)
	for _, h := range [][2]string{{"stats.maxint", "ite(a<b, b, a)"}, {"stats.minint", "ite(a<b, a, b)"}} {
		b.Formula(rB, h[0], h[0], []string{"a", "b"}, nil, 0, h[1], nil)
	}
	if fn := b.Fn(rB, "stats.sumint"); fn != nil {
		b.guard(rB, "stats.sumint", func() {
			fc := X.FCFor(fn)
			env := X.EnvFor(fn, "xs")
			rv := fc.RetVal(0)
			x, xi := fc.elemOf(rv, env.MustParse("xs"))
			if x == nil {
				anchorFail("sumint does not read the elements of xs")
			}
			env.Set("x", x, nil)
			if vars := b.LoopSystem(rB, "stats.sumint/recurrence", b.pos(fn), fc, rv, env, []recSpec{{"sum", "0", "sum+x"}}); vars != nil {
				b.EqRF(rB, "stats.sumint/result", b.pos(fn), rv, vars["sum"], "returns the accumulated sum")
				b.FullScan("C-scan coverage", "stats.sumint/every-element", b.pos(fn), fc, xi, env.MustParse("len(xs)"))
			}
		})
	}
	// the tied branches panic only when the memo table lacks the entry asked for (an internal
	// assertion): with every lookup succeeding no panic is reachable
	for _, mn := range []string{"PMF", "CDF"} {
		mn := mn
		if fn := b.Fn(rC, "stats.(UDist)."+mn); fn != nil {
			b.guard(rC, "stats.(UDist)."+mn+"/panics-only-on-missing-entry", func() {
				fc := X.FCFor(fn)
				n := 0
				fc.Ctx.Instrs(func(in ssa.Instruction) {
					pn, ok := in.(*ssa.Panic)
					if !ok {
						return
					}
					n++
					c := fc.ReachCond(pn.Block())
					var as []Assumption
					for _, at := range FindFn(c, "lookupok") {
						as = append(as, X.AssumeEq(S.atomRF(at.ID), S.True()))
					}
					if len(as) > 0 && X.SimplifyUnder(c, as).Equal(S.False()) {
						r.OK(rC, "stats.(UDist)."+mn+"/panics-only-on-missing-entry", a.W.InstrPos(pn), "unreachable when the table has the entries looked up")
					} else {
						r.Fail(rC, "stats.(UDist)."+mn+"/panics-only-on-missing-entry", a.W.InstrPos(pn), "a panic is reachable although every table lookup succeeds: "+clip(c.String(), 200))
					}
				})
			})
		}
	}
	// hasTies selects between the two algorithms: true exactly when some rank holds more than one
	// sample (treating tied data as untied gives the wrong distribution)
	if fn := b.Fn(rB, "stats.(UDist).hasTies"); fn != nil {
		b.guard(rB, "stats.(UDist).hasTies", func() {
			fc := X.FCFor(fn)
			env := X.EnvFor(fn, "d")
			T := env.MustParse("d.T")
			loops := fc.Ctx.Loops()
			cn := "stats.(UDist).hasTies"
			if len(loops) == 0 {
				// delegated to package slices: ContainsFunc(d.T, func(t) bool { return t > 1 })
				rv := fc.RetVal(0).SingleAtom()
				if rv != nil && strings.HasPrefix(rv.Name, "slices.ContainsFunc[") && len(rv.Args) == 2 && rv.Args[0].Equal(T) {
					if cl := rv.Args[1].SingleAtom(); cl != nil {
						var cf *ssa.Function
						if X.cloFn[cl.ID] != nil {
							cf = X.cloFn[cl.ID].Fn.(*ssa.Function)
						} else if strings.HasPrefix(cl.Name, "func:") {
							cf = a.W.Fn(strings.TrimPrefix(cl.Name, "func:"))
						}
						if cf != nil && len(cf.Params) == 1 {
							b.EqRF(rB, cn, b.pos(fn), X.FCFor(cf).RetVal(0), S.Cmp("<", S.Int(1), X.ParamRF(cf, 0)), "slices.ContainsFunc(d.T, t > 1)")
							return
						}
					}
				}
				anchorFail("hasTies: no scan loop and not slices.ContainsFunc over d.T: %s", clip(fc.RetVal(0).String(), 200))
			}
			if len(loops) != 1 {
				anchorFail("hasTies: expected one scan loop, found %d", len(loops))
			}
			b.AnyOf(func() {
				b.FirstHitScan(rB, cn, b.pos(fn), fc, loops[0].Header, FirstHit{
					Base:  T,
					First: S.Int(0),
					N:     S.MakeFn("len", T),
					Hit:   func(e *RF) *RF { return S.Cmp("<", S.Int(1), S.MakeFn("idx", T, e)) },
					Val:   func(e *RF) *RF { return S.True() },
					Miss:  S.False(),
				})
			}, func() {
				// the same search from the last rank down
				b.FirstHitScan(rB, cn, b.pos(fn), fc, loops[0].Header, FirstHit{
					Base:  T,
					First: S.MakeFn("len", T).Sub(S.Int(1)),
					N:     S.MakeFn("len", T),
					Down:  true,
					Low:   S.Int(0),
					Hit:   func(e *RF) *RF { return S.Cmp("<", S.Int(1), S.MakeFn("idx", T, e)) },
					Val:   func(e *RF) *RF { return S.True() },
					Miss:  S.False(),
				})
			}, func() {
				// the answer carried in a flag that also stops the scan:
				// for i := 0; i < len(T) && !tied; i++ { tied = T[i] > 1 }
				_, guard, _, msg := b.loopGuard(fc, loops[0].Header)
				if msg != "" {
					anchorFail("hasTies: %s", msg)
				}
				var flag, idx *RF
				for _, in := range loops[0].Header.Instrs {
					ph, ok := in.(*ssa.Phi)
					if !ok {
						break
					}
					if bt, ok := ph.Type().Underlying().(*types.Basic); ok && bt.Kind() == types.Bool {
						flag = fc.Val(ph)
					} else if isIntType(ph.Type()) {
						idx = fc.Val(ph)
					}
				}
				if flag == nil || idx == nil {
					anchorFail("hasTies: no flag/counter pair")
				}
				fi, fnx := fc.Recurrence(flag)
				ii, inx := fc.Recurrence(idx)
				b.EqRF(rB, cn+"/flag-init", b.pos(fn), fi, S.False(), "no tie seen at the start")
				b.EqRF(rB, cn+"/flag-step", b.pos(fn), fnx, S.Cmp("<", S.Int(1), S.MakeFn("idx", T, idx)), "the flag is whether the rank just examined holds more than one sample")
				b.EqRF(rB, cn+"/index-init", b.pos(fn), ii, S.Int(0), "from the first rank")
				b.EqRF(rB, cn+"/index-step", b.pos(fn), inx, idx.Add(S.Int(1)), "one rank at a time")
				// (loopGuard reads a flag that ends the loop once set at its unset value)
				if !guard.Equal(S.Cmp("<", idx, S.MakeFn("len", T))) {
					b.EqRF(rB, cn+"/while", b.pos(fn), guard, S.And(S.Cmp("<", idx, S.MakeFn("len", T)), S.Not(flag)), "goes on while ranks are left and no tie has been seen")
				} else {
					r.OK(rB, cn+"/while", b.pos(fn), "goes on while ranks are left (and the flag is unset)")
				}
				b.EqRF(rB, cn+"/result", b.pos(fn), fc.RetVal(0), flag, "returns the flag")
			})
		})
	}
	if fn := b.Fn(rB, "stats.(UDist).PMF"); fn != nil {
		name := "stats.(UDist).PMF"
		b.guard(rC, name, func() {
			fc := X.FCFor(fn)
			env := X.EnvFor(fn, "d", "U")
			z, n := fc.ReturnCond(isConstRet("0"))
			if n < 1 {
				r.Fail(rC, name+"/returns-0", b.pos(fn), "expected a guarded `return 0`")
			} else {
				b.Eq(rC, name+"/returns-0", b.pos(fn), z, env, "U<0 || 0.5+d.N1*d.N2<=U")
			}
		})
		b.guard(rB, name+"/tied", func() {
			env := X.EnvFor(fn, "d", "U")
			fc := X.Under(fn, X.AssumeEq(env.MustParse("d.hasTies()"), S.True()), X.AssumeCond(env.MustParse("U<0 || 0.5+d.N1*d.N2<=U"), false),
				X.AssumeCond(env.MustParse("U<0"), false), X.AssumeCond(env.MustParse("0.5+d.N1*d.N2<=U"), false))
			b.EqUnder(rB, name+"/tied", b.pos(fn), fc, fc.RetVal(0), env, "("+A("int(2*U)")+"-"+A("(int(2*U)-1)")+")/mathx.Choose(d.N1+d.N2, d.N1)")
		})
		b.guard(rB, name+"/untied", func() {
			env := X.EnvFor(fn, "d", "U")
			fc := X.Under(fn, X.AssumeEq(env.MustParse("d.hasTies()"), S.False()),
				X.AssumeCond(env.MustParse("U<0"), false), X.AssumeCond(env.MustParse("0.5+d.N1*d.N2<=U"), false))
			b.EqUnder(rB, name+"/untied", b.pos(fn), fc, fc.RetVal(0), env, "d.p(int(floor(U)))[int(floor(U))]")
		})
	}
	if fn := b.Fn(rB, "stats.(UDist).CDF"); fn != nil {
		name := "stats.(UDist).CDF"
		b.guard(rC, name, func() {
			fc := X.FCFor(fn)
			env := X.EnvFor(fn, "d", "U")
			z, n0 := fc.ReturnCond(isConstRet("0"))
			o, n1 := fc.ReturnCond(isConstRet("1"))
			if n0 != 1 || n1 != 1 {
				r.Fail(rC, name, b.pos(fn), "expected one `return 0` and one `return 1`")
				return
			}
			b.Eq(rC, name+"/returns-0", b.pos(fn), z, env, "U<0")
			b.Eq(rC, name+"/returns-1", b.pos(fn), o, env, "!(U<0) && d.N1*d.N2<=U")
		})
		b.guard(rB, name+"/tied", func() {
			env := X.EnvFor(fn, "d", "U")
			fc := X.Under(fn, X.AssumeEq(env.MustParse("d.hasTies()"), S.True()),
				X.AssumeCond(env.MustParse("U<0"), false), X.AssumeCond(env.MustParse("d.N1*d.N2<=U"), false))
			b.EqUnder(rB, name+"/tied", b.pos(fn), fc, fc.RetVal(0), env, A("int(2*U)")+"/mathx.Choose(d.N1+d.N2, d.N1)")
		})
		b.guard(rB, name+"/untied", func() {
			env := X.EnvFor(fn, "d", "U")
			fc := X.Under(fn, X.AssumeEq(env.MustParse("d.hasTies()"), S.False()),
				X.AssumeCond(env.MustParse("U<0"), false), X.AssumeCond(env.MustParse("d.N1*d.N2<=U"), false))
			env.Let("Ui", "int(floor(U))")
			env.Let("flip", "idiv(d.N1*d.N2+1, 2)<=Ui")
			env.Let("Uj", "ite(flip, d.N1*d.N2-Ui-1, Ui)")
			b.AnyOf(func() {
				// one summation over d.p(Uj)[:Uj+1] with Uj chosen by the symmetry flip
				var ret *ssa.Return
				for _, rt := range fc.Ctx.Returns() {
					if _, isC := rt.Results[0].(*ssa.Const); !isC {
						ret = rt
					}
				}
				if ret == nil {
					anchorFail("no summation return")
				}
				// (one return of the flipped-or-plain sum, or one return per case: the gated value)
				rv := fc.Sub(fc.RetVal(0))
				phis := fc.loopPhis(rv)
				var p *RF
				for _, ph := range phis {
					if !S.atoms[ph.SingleAtom().ID].Int {
						p = ph
					}
				}
				if p == nil {
					anchorFail("no accumulated sum")
				}
				env.Set("p", p, nil)
				b.Eq(rB, name+"/untied/result", a.W.InstrPos(ret), rv, env, "ite(flip, 1-p, p)")
				pi, pn := fc.Recurrence(p)
				el := FindFn(pn, "idx")
				if len(el) != 1 {
					anchorFail("the sum does not add one element per iteration")
				}
				env.Set("e", S.atomRF(el[0].ID), nil)
				b.EqRF(rB, name+"/untied/sum-init", b.pos(fn), pi, S.Int(0), "sum starts at 0")
				b.EqUnder(rB, name+"/untied/sum-step", b.pos(fn), fc, pn, env, "p+e")
				// the elements summed are d.p(Uj)[0..Uj]: a scan of the prefix slice, or an index
				// loop over 0..Uj on the whole result
				base, idx := el[0].Args[0], el[0].Args[1]
				if sl := base.SingleAtom(); sl != nil && sl.Name == "slice" {
					b.EqUnder(rB, name+"/untied/summed-range", b.pos(fn), fc, base, env, "slice(d.p(Uj), _, Uj+1, _)")
					b.FullScan("C-scan coverage", name+"/untied/summed-all", b.pos(fn), fc, idx, S.MakeFn("len", base))
				} else {
					b.EqUnder(rB, name+"/untied/summed-range", b.pos(fn), fc, base, env, "d.p(Uj)")
					b.FullScan("C-scan coverage", name+"/untied/summed-all", b.pos(fn), fc, idx, fc.Sub(env.MustParse("Uj+1")))
				}
			}, func() {
				// a summing helper S(k) = sum of d.p(k)[0..k] called at the flipped or the plain point:
				// result = flip ? 1 - S(N1*N2-Ui-1) : S(Ui)
				rv := fc.Sub(fc.RetVal(0))
				var sums []*Atom
				for _, at := range rv.Atoms(true) {
					if strings.HasPrefix(at.Name, "phi:") && len(at.Args) == 2 && at.Args[0].Equal(env.Vars["d"].RF) {
						sums = append(sums, at)
					}
				}
				if len(sums) == 0 || len(sums) > 2 {
					r.Fail(rB, name+"/untied/result", b.pos(fn), "the result is not built from a summing helper: "+clip(rv.String(), 200))
					return
				}
				e := X.EnvFor(fn, "d", "U")
				for _, nm := range []string{"Ui", "flip", "Uj"} {
					e.Vars[nm] = env.Vars[nm]
				}
				mk := func(k *RF) *RF { return S.MakeFn(sums[0].Name, env.Vars["d"].RF, k) }
				e.Set("Sflip", mk(e.MustParse("d.N1*d.N2-Ui-1")), nil)
				e.Set("Splain", mk(e.MustParse("Ui")), nil)
				b.Eq(rB, name+"/untied/result", b.pos(fn), rv, e, "ite(flip, 1-Sflip, Splain)")
				// the helper itself, at a generic point k: S(k) = sum_{i=0..k} d.p(k)[i]
				for _, at := range sums {
					pfc := X.phiFC[at.ID]
					if pfc == nil {
						r.Fail(rB, name+"/untied/sum-step", b.pos(fn), "the summing helper has no loop")
						continue
					}
					p := S.atomRF(at.ID)
					k := at.Args[1]
					pi, pn := pfc.Recurrence(p)
					el := FindFn(pn, "idx")
					if len(el) != 1 {
						r.Fail(rB, name+"/untied/sum-step", b.pos(pfc.Fn), "the sum does not add one element per iteration")
						continue
					}
					e2 := X.EnvFor(fn, "d", "U")
					e2.Set("p", p, nil)
					e2.Set("e", S.atomRF(el[0].ID), nil)
					e2.Set("k", k, nil)
					b.EqRF(rB, name+"/untied/sum-init", b.pos(pfc.Fn), pi, S.Int(0), "sum starts at 0")
					b.Eq(rB, name+"/untied/sum-step", b.pos(pfc.Fn), pn, e2, "p+e")
					b.Eq(rB, name+"/untied/summed-range", b.pos(pfc.Fn), el[0].Args[0], e2, "d.p(k)")
					b.FullScan("C-scan coverage", name+"/untied/summed-indices", b.pos(pfc.Fn), pfc, el[0].Args[1], e2.MustParse("k+1"))
				}
			})
		})
	}
	b.Formula(rB, "stats.(UDist).Step", "stats.(UDist).Step", []string{"d"}, nil, 0, "0.5", nil)
	b.Formula(rB, "stats.(UDist).Bounds/lo", "stats.(UDist).Bounds", []string{"d"}, nil, 0, "0", nil)
	b.Formula(rB, "stats.(UDist).Bounds/hi", "stats.(UDist).Bounds", []string{"d"}, nil, 1, "d.N1*d.N2", nil)

	// UDist.p: the Mann–Whitney recurrence
	if fn := b.Fn(rB, "stats.(UDist).p"); fn != nil {
		name := "stats.(UDist).p"
		b.guard(rB, name, func() {
			fc := X.FCFor(fn)
			env := X.EnvFor(fn, "d", "U")
			var memo *RF
			rets := fc.Ctx.Returns()
			if len(rets) != 1 {
				anchorFail("returns")
			}
			rv := fc.Val(rets[0].Results[0]).SingleAtom()
			if rv == nil || rv.Name != "idx" {
				anchorFail("p does not return a row of the table")
			}
			memo = rv.Args[0]
			env.Set("memo", memo, nil)
			env.Let("N", "ite(d.N2<d.N1, d.N2, d.N1)")
			env.Let("M", "ite(d.N2<d.N1, d.N1, d.N2)")
			b.Eq(rB, name+"/returns", a.W.InstrPos(rets[0]), fc.Val(rets[0].Results[0]), env, "memo[N]")
			// the table has a row for every n = 0..N and every row a slot for every U' = 0..U
			if ma := memo.SingleAtom(); ma != nil && strings.HasPrefix(ma.Name, "makeslice:") {
				b.Eq(rB, name+"/table/rows", b.pos(fn), ma.Args[0], env, "N+1")
				nRows := 0
				fc.Ctx.Instrs(func(in ssa.Instruction) {
					st, ok := in.(*ssa.Store)
					if !ok {
						return
					}
					ia, ok := st.Addr.(*ssa.IndexAddr)
					if !ok || !fc.Val(ia.X).Equal(memo) {
						return
					}
					nRows++
					if ra := fc.Val(st.Val).SingleAtom(); ra != nil && strings.HasPrefix(ra.Name, "makeslice:") {
						b.Eq(rB, name+"/table/row-length", a.W.InstrPos(st), ra.Args[0], env, "U+1")
						b.FullScan("C-scan coverage", name+"/table/every-row", a.W.InstrPos(st), fc, fc.Val(ia.Index), S.MakeFn("len", memo))
					} else {
						r.Fail(rB, name+"/table/row-length", a.W.InstrPos(st), "a row of the table is not a fresh slice")
					}
				})
				if nRows != 1 {
					r.Fail(rB, name+"/table/rows", b.pos(fn), fmt.Sprintf("expected one store that makes the rows of the table, found %d", nRows))
				}
			}
			nrec := 0
			top := fc
			// (the cell update may be made by a helper handed the rows; it may also be split over
			// several loops, e.g. one for U1 < m where the left term vanishes and one for U1 >= m:
			// every store must be the recurrence under what is known where it stands)
			type recStore struct {
				fc *FC
				st *ssa.Store
				ia *ssa.IndexAddr
				n  *RF
			}
			var stores []recStore
			nBase := 0
			for _, fc := range top.BoundCallees(1) {
				fc := fc
				fc.Ctx.Instrs(func(in ssa.Instruction) {
					st, ok := in.(*ssa.Store)
					if !ok {
						return
					}
					ia, ok := st.Addr.(*ssa.IndexAddr)
					if !ok || !isFloatType(st.Val.Type()) {
						return
					}
					row := fc.Val(ia.X).SingleAtom()
					if row == nil || row.Name != "idx" || !row.Args[0].Equal(memo) {
						return
					}
					if c, isC := fc.Val(st.Val).IsConst(); isC {
						// memo[0][0] = 1
						e2 := X.EnvFor(fn, "d", "U")
						e2.Set("memo", memo, nil)
						if c.Cmp(S.Int(1).N.terms[""].coef) == 0 {
							nBase++
							b.Eq(rB, name+"/base p_{0,m}(0)=1", a.W.InstrPos(st), fc.Val(ia), e2, "addr(memo[0], 0)")
						}
						return
					}
					stores = append(stores, recStore{fc, st, ia, row.Args[1]})
				})
			}
			if nBase == 0 {
				r.Fail(rB, name+"/base p_{0,m}(0)=1", b.pos(fn), "the base entry p_{0,m}(0) = 1 is never stored")
			}
			// m from the lp index of a store that has the left term: lp[U1-m] with lp = memo[n-1]
			var m *RF
			for _, rs := range stores {
				env.Set("n", rs.n, nil)
				U1 := rs.fc.Val(rs.ia.Index)
				for _, at := range FindFn(rs.fc.Val(rs.st.Val), "idx") {
					if at.Args[0].Equal(env.MustParse("memo[n-1]")) {
						if mm := rs.fc.CanonIV(U1.Sub(at.Args[1]), U1); len(rs.fc.loopPhis(mm)) == 0 || m == nil {
							m = U1.Sub(at.Args[1])
						}
					}
				}
			}
			for _, rs := range stores {
				nrec++
				fc, st := rs.fc, rs.st
				U1 := fc.Val(rs.ia.Index)
				env.Set("n", rs.n, nil)
				env.Set("U1", U1, nil)
				v := fc.Val(st.Val)
				if m == nil {
					r.Fail(rB, name+"/recurrence", a.W.InstrPos(st), "no term lp[U-m] with lp = memo[n-1] in the update: "+clip(v.String(), 300))
					continue
				}
				env.Set("m", m, nil)
				want := env.MustParse("(ite(0<=U1-m, n*memo[n-1][U1-m], 0) + m*ite(n<=m-1, memo[n], memo[m-1])[U1])/(n+m)")
				if len(stores) == 1 {
					b.Eq(rB, name+"/recurrence", a.W.InstrPos(st), v, env,
						"(ite(0<=U1-m, n*memo[n-1][U1-m], 0) + m*ite(n<=m-1, memo[n], memo[m-1])[U1])/(n+m)")
					// every U1 = 0 … min(U, n*m) is filled (in either direction)
					b.FullScan("C-scan coverage", name+"/recurrence/all-U1", a.W.InstrPos(st), fc, U1, env.MustParse("ite(U<n*m, U, n*m)+1"))
					continue
				}
				// several stores: each under the branch facts at the store and what the loop it
				// stands in guarantees about U1-m (its sign, by induction over the loop)
				g := fc.SignerAt(st)
				var as []Assumption
				d := U1.Sub(m)
				if g.NonNeg(d) {
					as = append(as, Assumption{Cond: S.Cmp("<=", S.Int(0), d), True: true})
				} else if g.Pos(d.Neg()) {
					as = append(as, Assumption{Cond: S.Cmp("<=", S.Int(0), d), True: false})
				}
				gv, wv := fc.atSite(st, X.SimplifyUnder(v, as), X.SimplifyUnder(want, as))
				if os.Getenv("GMSA_DEBUG_C02") != "" {
					fmt.Fprintf(os.Stderr, "C02 store %s: d=%s as=%d\n  gv=%s\n  wv=%s\n", a.W.InstrPos(st), d, len(as), gv, wv)
					for _, sa := range fc.SiteAssumptions(st) {
						if sa.Cond != nil {
							fmt.Fprintf(os.Stderr, "   fact %v: %s\n", sa.True, clip(sa.Cond.String(), 200))
						}
					}
				}
				if gv.Equal(wv) || X.EquivByCasesUnder(gv, wv, append(fc.SiteAssumptions(st), as...)) {
					r.OK(rB, name+"/recurrence", a.W.InstrPos(st), "≡ the recurrence, for the values of U1 this store is reached with")
				} else {
					r.Fail(rB, name+"/recurrence", a.W.InstrPos(st), "code computes "+clip(gv.String(), 400)+" ; the recurrence gives "+clip(wv.String(), 400))
				}
			}
			if nrec == 0 {
				r.Fail(rB, name+"/recurrence", b.pos(fn), "expected a recurrence store into the table")
			}
			// the table is filled for m = 0 … max(N1,N2) and, for each m, the rows n = 1 … min(N, m)
			if m != nil && len(stores) > 0 {
				counter := func(tag string, v *RF, init, bound string) {
					var pa *Atom
					for _, at := range v.Atoms(false) {
						if ph, ok := X.phiOf[at.ID]; ok && X.phiFC[at.ID].isHeaderPhi(ph) {
							pa = at
						}
					}
					if pa == nil {
						r.Fail(rB, name+"/"+tag, b.pos(fn), "not driven by a loop counter: "+clip(v.String(), 100))
						return
					}
					pfc := X.phiFC[pa.ID]
					hdr := X.phiOf[pa.ID].Block()
					vi, vn := pfc.Recurrence(v)
					e2 := X.EnvFor(fn, "d", "U")
					for _, nm := range []string{"N", "M"} {
						e2.Vars[nm] = env.Vars[nm]
					}
					e2.Set("m", m, nil)
					e2.Set("n", stores[0].n, nil)
					okI := false
					for _, iv := range strings.Split(init, " | ") {
						if vi.Equal(e2.MustParse(iv)) {
							okI = true
						}
					}
					if okI {
						r.OK(rB, name+"/"+tag+"/first", b.pos(fn), "starts at "+init)
					} else {
						r.Fail(rB, name+"/"+tag+"/first", b.pos(fn), "starts at "+clip(vi.String(), 80)+", not at "+init)
					}
					b.EqRF(rB, name+"/"+tag+"/step", b.pos(fn), vn, v.Add(S.Int(1)), "advances by one")
					_, gc, _, msg := b.loopGuard(pfc, hdr)
					if msg != "" {
						r.Fail(rB, name+"/"+tag+"/last", b.pos(fn), msg)
						return
					}
					// (a bound by a minimum may be written as the minimum or as both bounds)
					okB := false
					for _, bd := range strings.Split(bound, " | ") {
						w := e2.MustParse(bd)
						if gc.Equal(w) || S.BoolEquiv(gc, w) || X.EquivByCases(gc, w, 0) {
							okB = true
						}
					}
					if okB {
						r.OK(rB, name+"/"+tag+"/last", b.pos(fn), "runs while "+bound)
					} else {
						r.Fail(rB, name+"/"+tag+"/last", b.pos(fn), "the loop runs while "+clip(gc.String(), 300)+", not while "+bound)
					}
				}
				// (the m = 0 column only sets p_{0,0}(0) = 1 — no row n >= 1 fits — so the loop may
				// start at 1 when that entry is set beforehand; the base-store obligation covers it)
				counter("columns m", m, "0 | 1", "m<=M")
				counter("rows n", stores[0].n, "1", "n<=ite(m<N, m, N) | n<=N && n<=m")
			}
		})
	}
	b.CheckDFloor("D-floor", "stats.(UDist).PMF", "stats.(UDist).CDF", "stats.makeUmemo")
	propC02umemo(a, r, b)
}

func init() { _ = strings.TrimSpace }
