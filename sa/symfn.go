package main

// Engine B, part 2: smart constructors (rewrite rules) on top of the normal
// form: integer powers, exp/log cancellation, integrality-aware conversions,
// conditions, if-then-else.

import (
	"go/types"
	"math/big"
	"sort"
	"strings"
)

// integer-valued function atoms
var intFns = map[string]bool{"math.Floor": true, "math.Ceil": true, "math.Trunc": true, "math.Round": true,
	"len": true, "cap": true, "idiv": true, "imod": true, "toint": true, "math.Modf#0": true,
	"math/bits.TrailingZeros32": true, "shl": true, "shr": true, "and": true, "or": true, "andnot": true, "xor": true}

// noteStruct records the field names of a struct type (for the eta rule on mk:T).
func (s *Sym) noteStruct(tn string, t types.Type) {
	if s.structFields == nil {
		s.structFields = map[string][]string{}
	}
	if _, ok := s.structFields[tn]; ok {
		return
	}
	st, ok := t.Underlying().(*types.Struct)
	if !ok {
		return
	}
	names := make([]string, st.NumFields())
	for i := range names {
		names[i] = st.Field(i).Name()
	}
	s.structFields[tn] = names
}

func (s *Sym) atomIntegral(at *Atom) bool {
	if at.Int {
		return true
	}
	if at.Kind == "fn" && intFns[at.Name] {
		return true
	}
	if at.Kind == "fn" && at.Name == "ite" && len(at.Args) == 3 {
		return s.Integral(at.Args[1]) && s.Integral(at.Args[2])
	}
	if at.Kind == "fn" && (at.Name == "maxint" || at.Name == "minint") {
		return true
	}
	return false
}

// Integral: syntactically integer-valued (integer coefficients over
// integer-valued atoms, denominator 1).
func (s *Sym) Integral(a *RF) bool {
	if c, ok := a.D.isConst(); !ok || c.Cmp(big.NewRat(1, 1)) != 0 {
		return false
	}
	for _, t := range a.N.sortedTerms() {
		if !t.coef.IsInt() {
			return false
		}
		for i, v := range t.vars {
			if t.exps[i] < 0 || !s.atomIntegral(s.atoms[v]) {
				return false
			}
		}
	}
	return true
}

// MakeFn builds name(args) applying the rewrite rules.
func (s *Sym) MakeFn(name string, args ...*RF) *RF {
	workUnits += 4
	switch name {
	case "math.Pow":
		if len(args) == 2 {
			if c, ok := args[1].IsConst(); ok && c.IsInt() && c.Num().IsInt64() {
				k := c.Num().Int64()
				if k >= -24 && k <= 24 {
					return args[0].Pow(int(k))
				}
			}
		}
	case "math.Exp", "math.Log":
		inv := "math.Log"
		if name == "math.Log" {
			inv = "math.Exp"
		}
		// the argument may be an unreduced fraction equal to a single log/exp atom
		for _, at := range args[0].Atoms(false) {
			if at.Name == inv && args[0].Equal(s.atomRF(at.ID)) {
				return at.Args[0]
			}
		}
	case "toint":
		if s.Integral(args[0]) {
			return args[0]
		}
	case "math.Floor", "math.Ceil", "math.Trunc":
		if s.Integral(args[0]) {
			return args[0]
		}
	case "ite":
		if args[1].Equal(args[2]) {
			return args[1]
		}
		if c := args[0].SingleAtom(); c != nil && c.Name == "true" {
			return args[1]
		} else if c != nil && c.Name == "false" {
			return args[2]
		}
		// boolean-valued: ite(c,true,false)=c ; ite(c,false,true)=!c
		if t, f := args[1].SingleAtom(), args[2].SingleAtom(); t != nil && f != nil {
			if t.Name == "true" && f.Name == "false" {
				return args[0]
			}
			if t.Name == "false" && f.Name == "true" {
				return s.Not(args[0])
			}
		}
		// one branch a boolean literal (so the whole is boolean):
		// ite(c,true,d)=c||d ; ite(c,false,d)=!c&&d ; ite(c,d,true)=!c||d ; ite(c,d,false)=c&&d
		if t := args[1].SingleAtom(); t != nil && t.Name == "true" {
			return s.Or(args[0], args[2])
		} else if t != nil && t.Name == "false" {
			return s.And(s.Not(args[0]), args[2])
		}
		if f := args[2].SingleAtom(); f != nil && f.Name == "true" {
			return s.Or(s.Not(args[0]), args[1])
		} else if f != nil && f.Name == "false" {
			return s.And(args[0], args[1])
		}
		// && / || shapes: ite(c1, ite(c2,A,B), B) = ite(c1&&c2, A, B) ; ite(c1, A, ite(c2,A,B)) = ite(c1||c2, A, B)
		if in := args[1].SingleAtom(); in != nil && in.Name == "ite" && in.Args[2].Equal(args[2]) {
			return s.MakeFn("ite", s.And(args[0], in.Args[0]), in.Args[1], args[2])
		}
		if in := args[2].SingleAtom(); in != nil && in.Name == "ite" && in.Args[1].Equal(args[1]) {
			return s.MakeFn("ite", s.Or(args[0], in.Args[0]), args[1], in.Args[2])
		}
		// ite(c1, A, ite(c2, B, A)) = ite(!c1 && c2, B, A) ; ite(c1, ite(c2, A, B), A) = ite(c1 && !c2, B, A)
		if in := args[2].SingleAtom(); in != nil && in.Name == "ite" && in.Args[2].Equal(args[1]) {
			return s.MakeFn("ite", s.And(s.Not(args[0]), in.Args[0]), in.Args[1], args[1])
		}
		if in := args[1].SingleAtom(); in != nil && in.Name == "ite" && in.Args[1].Equal(args[2]) {
			return s.MakeFn("ite", s.And(args[0], s.Not(in.Args[0])), in.Args[2], args[2])
		}
		// ite(!c,a,b) = ite(c,b,a) ; ite(a!=b, x, y) = ite(a==b, y, x)
		if c := args[0].SingleAtom(); c != nil && c.Name == "not" {
			return s.MakeFn("ite", c.Args[0], args[2], args[1])
		} else if c != nil && c.Name == "cmp!=" {
			return s.MakeFn("ite", s.MakeFn("cmp==", c.Args...), args[2], args[1])
		}
	case "slice":
		// x[:] denotes the same sequence as x
		if len(args) == 4 {
			blank := true
			for _, a := range args[1:] {
				if at := a.SingleAtom(); at == nil || at.Kind != "var" || at.Name != "_" {
					blank = false
				}
			}
			if blank {
				return args[0]
			}
		}
	case "idx":
		// an element of a sub-slice is the element of the sliced value at the shifted index:
		// x[lo:hi][o] = x[lo+o]
		if len(args) == 2 {
			if sl := args[0].SingleAtom(); sl != nil && sl.Name == "slice" && len(sl.Args) == 4 {
				lo := sl.Args[1]
				if la := lo.SingleAtom(); la != nil && la.Kind == "var" && la.Name == "_" {
					return s.MakeFn("idx", sl.Args[0], args[1])
				}
				return s.MakeFn("idx", sl.Args[0], lo.Add(args[1]))
			}
		}
	case "len":
		if len(args) == 1 {
			// len(x[lo:hi]) = hi - lo (hi defaults to len(x), lo to 0)
			if sl := args[0].SingleAtom(); sl != nil && sl.Name == "slice" && len(sl.Args) == 4 {
				isBlank := func(r *RF) bool {
					a := r.SingleAtom()
					return a != nil && a.Kind == "var" && a.Name == "_"
				}
				hi := sl.Args[2]
				if isBlank(hi) {
					hi = s.MakeFn("len", sl.Args[0])
				}
				if isBlank(sl.Args[1]) {
					return hi
				}
				return hi.Sub(sl.Args[1])
			}
			if at := args[0].SingleAtom(); at != nil && at.Name == "copyof" {
				return s.MakeFn("len", at.Args[0])
			}
			if at := args[0].SingleAtom(); at != nil && strings.HasPrefix(at.Name, "makeslice:") && len(at.Args) == 1 {
				return at.Args[0]
			}
			// Sample.Copy and Sample.Sort keep the number of values and of weights
			// (Copy: same-length copies — decided under C09/C10; Sort: a permutation in place)
			if at := args[0].SingleAtom(); at != nil && (at.Name == "fld:Sample.Xs" || at.Name == "fld:Sample.Weights") && len(at.Args) == 1 {
				if da := at.Args[0].SingleAtom(); da != nil && da.Name == "deref" && len(da.Args) == 1 {
					if ca := da.Args[0].SingleAtom(); ca != nil && len(ca.Args) == 1 {
						switch ca.Name {
						case "call:Sort": // (*Sample).Sort returns its receiver
							return s.MakeFn("len", s.MakeFn(at.Name, s.MakeFn("deref", ca.Args[0])))
						case "call:Copy": // (Sample).Copy: value receiver
							return s.MakeFn("len", s.MakeFn(at.Name, ca.Args[0]))
						}
					}
				}
			}
			// len([]byte(s)) = len(s): the conversion copies the bytes of the string
			if at := args[0].SingleAtom(); at != nil && at.Name == "conv:[]byte" && len(at.Args) == 1 {
				return s.MakeFn("len", at.Args[0])
			}
		}
	case "builtin:min", "builtin:max":
		// the Go 1.21 builtins on integers are the choice between their arguments (on floats
		// they differ from a `<` choice for NaN and signed zeros, and stay opaque)
		if len(args) >= 2 {
			allInt := true
			for _, a := range args {
				if !s.Integral(a) {
					allInt = false
				}
			}
			if allInt {
				acc := args[0]
				for _, a := range args[1:] {
					if name == "builtin:min" {
						acc = s.Ite(s.Cmp("<", a, acc), a, acc)
					} else {
						acc = s.Ite(s.Cmp("<", acc, a), a, acc)
					}
				}
				return acc
			}
		}
	case "builtin:append":
		// append([]T(nil), xs...) is a fresh copy of xs (the same thing as make+copy)
		if len(args) == 2 {
			if n := args[0].SingleAtom(); n != nil && n.Name == "nil" {
				return s.Fn("copyof", args[1])
			}
			// likewise append(make([]T, 0, n), xs...)
			if n := args[0].SingleAtom(); n != nil && strings.HasPrefix(n.Name, "makeslice:") && len(n.Args) == 1 {
				if z, ok := n.Args[0].IsConst(); ok && z.Sign() == 0 {
					return s.Fn("copyof", args[1])
				}
			}
		}
	case "shr":
		// x >> 0 is x
		if len(args) == 2 {
			if c, ok := args[1].IsConst(); ok && c.Sign() == 0 {
				return args[0]
			}
		}
	case "shl":
		// x << c for a constant c is x * 2^c (same wrap-around semantics)
		if len(args) == 2 {
			if c, ok := args[1].IsConst(); ok && c.IsInt() && c.Sign() >= 0 && c.Num().IsInt64() && c.Num().Int64() <= 62 && s.Integral(args[0]) {
				return args[0].Mul(s.Const(new(big.Rat).SetInt(new(big.Int).Lsh(big.NewInt(1), uint(c.Num().Int64())))))
			}
		}
	case "not":
		return s.Not(args[0])
	default:
		// slices.Clone(x) is a fresh copy of x (package slices, Go 1.21)
		if strings.HasPrefix(name, "slices.Clone[") && len(args) == 1 {
			return s.Fn("copyof", args[0])
		}
		// slices.Clip(x) is x with its capacity cut to its length: the same elements
		if strings.HasPrefix(name, "slices.Clip[") && len(args) == 1 {
			return args[0]
		}
		// a struct rebuilt from all the projections of one value is that value
		if strings.HasPrefix(name, "mk:") && len(args) > 0 {
			tn := name[3:]
			if names, ok := s.structFields[tn]; ok && len(names) == len(args) {
				var v *RF
				all := true
				for i, a := range args {
					at := a.SingleAtom()
					if at == nil || at.Name != "fld:"+tn+"."+names[i] || len(at.Args) != 1 || (v != nil && !v.Equal(at.Args[0])) {
						all = false
						break
					}
					v = at.Args[0]
				}
				if all && v != nil {
					return v
				}
			}
		}
	case "land", "lor":
		return s.nary(name, args)
	case "cmp==", "cmp!=", "cmp<", "cmp<=":
		// parity written with a mask: x&1 is 0 or 1 as x%2 is 0 or ±1
		if len(args) == 2 && (name == "cmp==" || name == "cmp!=") {
			for k := 0; k < 2; k++ {
				c, isC := args[k].IsConst()
				ma := args[1-k].SingleAtom()
				if !isC || !c.IsInt() || ma == nil || ma.Name != "and" || len(ma.Args) != 2 || !args[1-k].Equal(s.atomRF(ma.ID)) {
					continue
				}
				var x *RF
				for j := 0; j < 2; j++ {
					if o, ok := ma.Args[j].IsConst(); ok && o.Cmp(big.NewRat(1, 1)) == 0 {
						x = ma.Args[1-j]
					}
				}
				if x == nil || !s.Integral(x) {
					continue
				}
				m := s.MakeFn("imod", x, s.Int(2))
				zero := c.Sign() == 0
				one := c.Cmp(big.NewRat(1, 1)) == 0
				switch {
				case zero && name == "cmp==", one && name == "cmp!=":
					return s.MakeFn("cmp==", s.Int(0), m)
				case zero && name == "cmp!=", one && name == "cmp==":
					return s.MakeFn("cmp!=", s.Int(0), m)
				}
			}
		}
		// a length is a non-negative integer: 0 < len(x) is len(x) != 0,
		// len(x) <= 0 is len(x) == 0, 0 <= len(x) holds and len(x) < 0 does not
		if len(args) == 2 && (name == "cmp<" || name == "cmp<=") {
			isLen := func(r *RF) bool {
				at := r.SingleAtom()
				return at != nil && at.Name == "len" && len(at.Args) == 1 && r.Equal(s.atomRF(at.ID))
			}
			isZero := func(r *RF) bool { c, ok := r.IsConst(); return ok && c.Sign() == 0 }
			switch {
			case isZero(args[0]) && isLen(args[1]):
				if name == "cmp<" {
					return s.MakeFn("cmp!=", args[0], args[1])
				}
				return s.True()
			case isLen(args[0]) && isZero(args[1]):
				if name == "cmp<=" {
					return s.MakeFn("cmp==", args[1], args[0])
				}
				return s.False()
			}
		}
		// a comparison whose two sides differ by a constant is decided (reals, A4)
		if len(args) == 2 {
			if c, ok := args[0].Sub(args[1]).IsConst(); ok {
				sg := c.Sign()
				var t bool
				switch name {
				case "cmp==":
					t = sg == 0
				case "cmp!=":
					t = sg != 0
				case "cmp<":
					t = sg < 0
				default:
					t = sg <= 0
				}
				if t {
					return s.True()
				}
				return s.False()
			}
		}
		// commutative: canonical argument order (by rendering)
		if (name == "cmp==" || name == "cmp!=") && len(args) == 2 && args[0].String() > args[1].String() {
			args = []*RF{args[1], args[0]}
		}
	}
	return s.Fn(name, args...)
}

// Cmp builds the condition l op r. ">" and ">=" are stored as swapped "<", "<=".
func (s *Sym) Cmp(op string, l, r *RF) *RF {
	switch op {
	case ">":
		return s.MakeFn("cmp<", r, l)
	case ">=":
		return s.MakeFn("cmp<=", r, l)
	}
	return s.MakeFn("cmp"+op, l, r)
}

// Not pushes negation through and/or (De Morgan); comparisons keep an
// explicit not (a < b and b <= a differ on NaN).
func (s *Sym) Not(c *RF) *RF {
	if at := c.SingleAtom(); at != nil {
		switch at.Name {
		case "not":
			return at.Args[0]
		case "true":
			return s.False()
		case "false":
			return s.True()
		case "land", "lor":
			neg := make([]*RF, len(at.Args))
			for i, a := range at.Args {
				neg[i] = s.Not(a)
			}
			if at.Name == "land" {
				return s.nary("lor", neg)
			}
			return s.nary("land", neg)
		case "cmp==":
			return s.MakeFn("cmp!=", at.Args...)
		case "cmp!=":
			return s.MakeFn("cmp==", at.Args...)
		}
	}
	return s.Fn("not", c)
}
func (s *Sym) And(a, b *RF) *RF { return s.nary("land", []*RF{a, b}) }
func (s *Sym) Or(a, b *RF) *RF  { return s.nary("lor", []*RF{a, b}) }

// nary builds a flattened, sorted, duplicate-free conjunction/disjunction.
func (s *Sym) nary(name string, args []*RF) *RF {
	ident, annih := "true", "false"
	if name == "lor" {
		ident, annih = "false", "true"
	}
	var flat []*RF
	var add func(a *RF)
	add = func(a *RF) {
		if at := a.SingleAtom(); at != nil {
			if at.Name == name {
				for _, x := range at.Args {
					add(x)
				}
				return
			}
			if at.Name == ident {
				return
			}
		}
		for _, f := range flat {
			if f.Equal(a) {
				return
			}
		}
		flat = append(flat, a)
	}
	for _, a := range args {
		add(a)
	}
	for _, f := range flat {
		if at := f.SingleAtom(); at != nil && at.Name == annih {
			return f
		}
	}
	// parity: x%2 == 1 || x%2 == -1  is  x%2 != 0 (Go's % yields -1, 0 or 1 for modulus 2);
	// dually  x%2 != 1 && x%2 != -1  is  x%2 == 0
	{
		eq, res := "cmp==", "cmp!="
		if name == "land" {
			eq, res = "cmp!=", "cmp=="
		}
		for i := 0; i < len(flat); i++ {
			ai := flat[i].SingleAtom()
			if ai == nil || ai.Name != eq {
				continue
			}
			mi, ci := parityOperand(ai)
			if mi == nil {
				continue
			}
			for j := i + 1; j < len(flat); j++ {
				aj := flat[j].SingleAtom()
				if aj == nil || aj.Name != eq {
					continue
				}
				mj, cj := parityOperand(aj)
				if mj != nil && mj.Equal(mi) && ci == -cj {
					merged := s.MakeFn(res, mi, s.Int(0))
					rest := append(append([]*RF{}, flat[:i]...), flat[i+1:j]...)
					rest = append(rest, flat[j+1:]...)
					return s.nary(name, append(rest, merged))
				}
			}
		}
	}
	// complementary pair: a ∨ ¬a = true ; a ∧ ¬a = false
	for i, f := range flat {
		nf := s.Not(f)
		for j, g := range flat {
			if i != j && nf.Equal(g) {
				return s.Var(annih, false)
			}
		}
	}
	// absorption: a ∨ (¬a ∧ b) = a ∨ b ; a ∧ (¬a ∨ b) = a ∧ b
	dual := "land"
	if name == "land" {
		dual = "lor"
	}
	changed := false
	for i, f := range flat {
		at := f.SingleAtom()
		if at == nil || at.Name != dual {
			continue
		}
		var keep []*RF
		for _, y := range at.Args {
			drop := false
			for j, a := range flat {
				if j != i && s.Not(a).Equal(y) {
					drop = true
				}
			}
			if !drop {
				keep = append(keep, y)
			}
		}
		if len(keep) != len(at.Args) {
			flat[i] = s.nary(dual, keep)
			changed = true
		}
	}
	if changed {
		return s.nary(name, flat)
	}
	if len(flat) == 0 {
		return s.Var(ident, false)
	}
	if len(flat) == 1 {
		return flat[0]
	}
	sort.Slice(flat, func(i, j int) bool { return flat[i].String() < flat[j].String() })
	return s.Fn(name, flat...)
}
func (s *Sym) Ite(c, a, b *RF) *RF { return s.MakeFn("ite", c, a, b) }
func (s *Sym) True() *RF           { return s.Var("true", false) }
func (s *Sym) False() *RF          { return s.Var("false", false) }
func (s *Sym) Bottom() *RF         { return s.Var("⊥panic", false) }

func (s *Sym) isBottom(a *RF) bool {
	at := a.SingleAtom()
	return at != nil && at.Name == "⊥panic"
}

// spec-side aliases for external functions
var fnAliases = map[string]string{
	"sqrt": "math.Sqrt", "exp": "math.Exp", "log": "math.Log", "floor": "math.Floor", "ceil": "math.Ceil",
	"abs": "math.Abs", "pow": "math.Pow", "erfc": "math.Erfc", "fmin": "math.Min", "fmax": "math.Max",
	"isinf": "math.IsInf", "isnan": "math.IsNaN", "inf": "math.Inf", "nan": "math.NaN", "trunc": "math.Trunc",
	"lgamma": "math.Lgamma#0", "modf0": "math.Modf#0", "modf1": "math.Modf#1", "tz32": "math/bits.TrailingZeros32",
}

func isCmpName(n string) bool { return strings.HasPrefix(n, "cmp") }

// BoolEquiv: propositional equivalence of two boolean normal forms, treating
// every atomic condition as an independent variable (exact for the boolean
// structure; conservative w.r.t. relations between the atomic conditions).
func (s *Sym) BoolEquiv(a, b *RF) bool {
	leaves := map[AtomID]int{}
	var order []AtomID
	var collect func(r *RF) bool
	collect = func(r *RF) bool {
		at := r.SingleAtom()
		if at == nil {
			return false
		}
		switch at.Name {
		case "land", "lor", "not":
			for _, x := range at.Args {
				if !collect(x) {
					return false
				}
			}
			return true
		case "true", "false":
			return true
		}
		if _, ok := leaves[at.ID]; !ok {
			leaves[at.ID] = len(order)
			order = append(order, at.ID)
		}
		return true
	}
	if !collect(a) || !collect(b) || len(order) > 16 {
		return false
	}
	// cmp!= is the negation of cmp== on the same arguments: share a variable
	neg := map[AtomID]AtomID{}
	for _, id := range order {
		at := s.atoms[id]
		if at.Name == "cmp!=" {
			eq := s.MakeFn("cmp==", at.Args...).SingleAtom()
			if _, ok := leaves[eq.ID]; ok {
				neg[id] = eq.ID
			}
		}
	}
	var eval func(r *RF, m uint) bool
	eval = func(r *RF, m uint) bool {
		at := r.SingleAtom()
		switch at.Name {
		case "true":
			return true
		case "false":
			return false
		case "not":
			return !eval(at.Args[0], m)
		case "land":
			for _, x := range at.Args {
				if !eval(x, m) {
					return false
				}
			}
			return true
		case "lor":
			for _, x := range at.Args {
				if eval(x, m) {
					return true
				}
			}
			return false
		}
		if e, ok := neg[at.ID]; ok {
			return m&(1<<uint(leaves[e])) == 0
		}
		return m&(1<<uint(leaves[at.ID])) != 0
	}
	for m := uint(0); m < 1<<uint(len(order)); m++ {
		if eval(a, m) != eval(b, m) {
			return false
		}
	}
	return true
}

// parityOperand: for a comparison of imod(x,2) with +1 or -1, the imod term and the constant.
func parityOperand(at *Atom) (*RF, int) {
	if len(at.Args) != 2 {
		return nil, 0
	}
	for k := 0; k < 2; k++ {
		m := at.Args[k].SingleAtom()
		c, isC := at.Args[1-k].IsConst()
		if m == nil || m.Name != "imod" || len(m.Args) != 2 || !isC || !c.IsInt() {
			continue
		}
		if two, ok := m.Args[1].IsConst(); !ok || two.Cmp(big.NewRat(2, 1)) != 0 {
			continue
		}
		switch c.Num().Int64() {
		case 1:
			return at.Args[k], 1
		case -1:
			return at.Args[k], -1
		}
	}
	return nil, 0
}
