#!/bin/bash
# every stored behaviour-preserving refactoring must leave the named checks silent
cd /verif
for d in /verif/refactors/${1:-*}; do
  ps=$(python3 -c "import json;print(' '.join(json.load(open('$d/meta.json')).get('checks',[])))")
  echo "== $d [$ps]"
  ./refcheck.sh $d $ps 2>&1 | grep -v "conda\|violations=0\|^build: ok | suite+equiv: all ok" | cut -c1-${W:-260}
done
