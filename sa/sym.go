package main

// Engine B, part 1: normal form. Rational functions (quotients of
// multivariate polynomials with big.Rat coefficients) over interned atoms.
// Function applications, conditions and if-then-else are atoms whose
// arguments are themselves normal forms, interned up to algebraic equality.

import (
	"fmt"
	"math/big"
	"os"
	"sort"
	"strconv"
	"strings"
)

type AtomID int

type Atom struct {
	ID       AtomID
	Kind     string // "var", "fn", "cond", "ite"
	Name     string
	Args     []*RF
	Int      bool // known integer-valued
	Unsigned bool
}

type term struct {
	vars []AtomID // sorted, with repetition folded into exps
	exps []int
	coef *big.Rat
}

type Poly struct {
	terms map[string]*term
}

type RF struct {
	N, D *Poly
	S    *Sym
}

type Sym struct {
	structFields map[string][]string // struct type name -> field names (eta rule)
	atoms        []*Atom
	byKey        map[string]AtomID   // var atoms
	fnTab        map[string][]AtomID // fn name -> candidates
	Tol          float64
}

func NewSym() *Sym {
	return &Sym{byKey: map[string]AtomID{}, fnTab: map[string][]AtomID{}, Tol: 1e-13}
}

func monoKey(vars []AtomID, exps []int) string {
	var b strings.Builder
	for i, v := range vars {
		fmt.Fprintf(&b, "%d^%d.", v, exps[i])
	}
	return b.String()
}

func newPoly() *Poly { return &Poly{terms: map[string]*term{}} }

func (p *Poly) addTerm(vars []AtomID, exps []int, c *big.Rat) {
	workUnits++
	if c.Sign() == 0 {
		return
	}
	k := monoKey(vars, exps)
	if t, ok := p.terms[k]; ok {
		t.coef = new(big.Rat).Add(t.coef, c)
		if t.coef.Sign() == 0 {
			delete(p.terms, k)
		}
		return
	}
	p.terms[k] = &term{vars: append([]AtomID{}, vars...), exps: append([]int{}, exps...), coef: new(big.Rat).Set(c)}
}

func polyConst(c *big.Rat) *Poly {
	p := newPoly()
	p.addTerm(nil, nil, c)
	return p
}

func (p *Poly) isZero() bool { return len(p.terms) == 0 }

// sortedTerms: the terms in a fixed order (by monomial key). Every place
// where the order in which terms are looked at can influence a decision — the
// first term that qualifies is taken, a step budget runs out part-way — goes
// through this, so that a verdict never depends on Go's randomised map
// iteration order.
func (p *Poly) sortedTerms() []*term {
	keys := make([]string, 0, len(p.terms))
	for k := range p.terms {
		keys = append(keys, k)
	}
	sort.Strings(keys)
	if termOrder != 0 {
		// debugging aid (GMSA_TERM_ORDER): other fixed orders, to look for decisions that
		// depend on the order at all
		if termOrder == 1 {
			for i, j := 0, len(keys)-1; i < j; i, j = i+1, j-1 {
				keys[i], keys[j] = keys[j], keys[i]
			}
		} else {
			h := func(k string) uint32 {
				x := uint32(2166136261) ^ uint32(termOrder)*2654435761
				for i := 0; i < len(k); i++ {
					x = (x ^ uint32(k[i])) * 16777619
				}
				return x
			}
			sort.SliceStable(keys, func(i, j int) bool { return h(keys[i]) < h(keys[j]) })
		}
	}
	out := make([]*term, len(keys))
	for i, k := range keys {
		out[i] = p.terms[k]
	}
	return out
}

var termOrder = func() int { n, _ := strconv.Atoi(os.Getenv("GMSA_TERM_ORDER")); return n }()

// workUnits: a deterministic clock (polynomial terms processed). The bounded
// searches of the analyser are limited in these units, not in wall-clock time,
// so that a verdict never depends on the load of the machine.
var workUnits int64

func (p *Poly) add(q *Poly, sign int) *Poly {
	r := newPoly()
	for _, t := range p.terms {
		r.addTerm(t.vars, t.exps, t.coef)
	}
	for _, t := range q.terms {
		c := t.coef
		if sign < 0 {
			c = new(big.Rat).Neg(c)
		}
		r.addTerm(t.vars, t.exps, c)
	}
	return r
}

func mulMono(a, b *term) ([]AtomID, []int) {
	var vars []AtomID
	var exps []int
	i, j := 0, 0
	for i < len(a.vars) || j < len(b.vars) {
		switch {
		case j >= len(b.vars) || (i < len(a.vars) && a.vars[i] < b.vars[j]):
			if a.exps[i] != 0 {
				vars = append(vars, a.vars[i])
				exps = append(exps, a.exps[i])
			}
			i++
		case i >= len(a.vars) || b.vars[j] < a.vars[i]:
			if b.exps[j] != 0 {
				vars = append(vars, b.vars[j])
				exps = append(exps, b.exps[j])
			}
			j++
		default:
			if e := a.exps[i] + b.exps[j]; e != 0 {
				vars = append(vars, a.vars[i])
				exps = append(exps, e)
			}
			i++
			j++
		}
	}
	return vars, exps
}

func (p *Poly) mul(q *Poly) *Poly {
	r := newPoly()
	for _, a := range p.terms {
		for _, b := range q.terms {
			v, e := mulMono(a, b)
			r.addTerm(v, e, new(big.Rat).Mul(a.coef, b.coef))
		}
	}
	return r
}

func (p *Poly) isConst() (*big.Rat, bool) {
	if len(p.terms) == 0 {
		return new(big.Rat), true
	}
	if len(p.terms) == 1 {
		if t, ok := p.terms[""]; ok {
			return t.coef, true
		}
	}
	return nil, false
}

func (p *Poly) maxAbs() *big.Rat {
	m := new(big.Rat)
	for _, t := range p.terms {
		a := new(big.Rat).Abs(t.coef)
		if a.Cmp(m) > 0 {
			m = a
		}
	}
	return m
}

// ---- RF ----

func (s *Sym) fromPoly(n, d *Poly) *RF { return (&RF{N: n, D: d, S: s}).simplify() }

func (s *Sym) Const(c *big.Rat) *RF {
	return &RF{N: polyConst(c), D: polyConst(big.NewRat(1, 1)), S: s}
}
func (s *Sym) Int(i int64) *RF { return s.Const(big.NewRat(i, 1)) }
func (s *Sym) Float(f float64) *RF {
	r := new(big.Rat)
	if r.SetFloat64(f) == nil {
		return s.Var(fmt.Sprintf("float:%v", f), false)
	}
	return s.Const(r)
}

func (s *Sym) atomRF(id AtomID) *RF {
	p := newPoly()
	p.addTerm([]AtomID{id}, []int{1}, big.NewRat(1, 1))
	return &RF{N: p, D: polyConst(big.NewRat(1, 1)), S: s}
}

// Var returns the atom with the given key.
func (s *Sym) Var(key string, isInt bool) *RF {
	if id, ok := s.byKey[key]; ok {
		return s.atomRF(id)
	}
	id := AtomID(len(s.atoms))
	s.atoms = append(s.atoms, &Atom{ID: id, Kind: "var", Name: key, Int: isInt})
	s.byKey[key] = id
	return s.atomRF(id)
}

// Fn returns the application atom name(args...), interned up to equality of
// the arguments.
func (s *Sym) Fn(name string, args ...*RF) *RF {
	for _, id := range s.fnTab[name] {
		a := s.atoms[id]
		if len(a.Args) != len(args) {
			continue
		}
		same := true
		for i := range args {
			if !a.Args[i].Equal(args[i]) {
				same = false
				break
			}
		}
		if same {
			return s.atomRF(id)
		}
	}
	id := AtomID(len(s.atoms))
	s.atoms = append(s.atoms, &Atom{ID: id, Kind: "fn", Name: name, Args: args})
	s.fnTab[name] = append(s.fnTab[name], id)
	return s.atomRF(id)
}

func (a *RF) Add(b *RF) *RF {
	if a.D.eq(b.D) {
		return a.S.fromPoly(a.N.add(b.N, 1), a.D)
	}
	return a.S.fromPoly(a.N.mul(b.D).add(b.N.mul(a.D), 1), a.D.mul(b.D))
}
func (a *RF) Sub(b *RF) *RF {
	if a.D.eq(b.D) {
		return a.S.fromPoly(a.N.add(b.N, -1), a.D)
	}
	return a.S.fromPoly(a.N.mul(b.D).add(b.N.mul(a.D), -1), a.D.mul(b.D))
}
func (a *RF) Mul(b *RF) *RF { return a.S.fromPoly(a.N.mul(b.N), a.D.mul(b.D)) }
func (a *RF) Div(b *RF) *RF { return a.S.fromPoly(a.N.mul(b.D), a.D.mul(b.N)) }
func (a *RF) Neg() *RF      { return a.S.fromPoly(newPoly().add(a.N, -1), a.D) }

func (a *RF) Pow(k int) *RF {
	if k < 0 {
		return a.S.Int(1).Div(a.Pow(-k))
	}
	r := a.S.Int(1)
	for i := 0; i < k; i++ {
		r = r.Mul(a)
	}
	return r
}

func (p *Poly) eq(q *Poly) bool {
	if len(p.terms) != len(q.terms) {
		return false
	}
	for k, t := range p.terms {
		u, ok := q.terms[k]
		if !ok || t.coef.Cmp(u.coef) != 0 {
			return false
		}
	}
	return true
}

// simplify: normalise a constant denominator to 1, cancel common monomial
// factors and a zero numerator.
func (a *RF) simplify() *RF {
	if a.N.isZero() {
		a.D = polyConst(big.NewRat(1, 1))
		return a
	}
	if c, ok := a.D.isConst(); ok && c.Sign() != 0 {
		inv := new(big.Rat).Inv(c)
		n := newPoly()
		for _, t := range a.N.terms {
			n.addTerm(t.vars, t.exps, new(big.Rat).Mul(t.coef, inv))
		}
		a.N, a.D = n, polyConst(big.NewRat(1, 1))
		return a
	}
	// single-term denominator: divide through
	if len(a.D.terms) == 1 {
		var dt *term
		for _, t := range a.D.terms {
			dt = t
		}
		// cancel the minimum exponent of each denominator variable present in all numerator terms
		inv := &term{vars: dt.vars, exps: make([]int, len(dt.exps)), coef: new(big.Rat).Inv(dt.coef)}
		for i, v := range dt.vars {
			minE := dt.exps[i]
			for _, t := range a.N.terms {
				e := 0
				for j, tv := range t.vars {
					if tv == v {
						e = t.exps[j]
					}
				}
				if e < minE {
					minE = e
				}
			}
			if minE < 0 {
				minE = 0
			}
			inv.exps[i] = -minE
		}
		n := newPoly()
		for _, t := range a.N.terms {
			v, e := mulMono(t, inv)
			n.addTerm(v, e, new(big.Rat).Mul(t.coef, inv.coef))
		}
		d := newPoly()
		v, e := mulMono(dt, &term{vars: inv.vars, exps: inv.exps})
		d.addTerm(v, e, big.NewRat(1, 1))
		a.N, a.D = n, d
	}
	return a
}

// Equal: a == b as rational functions, by cross multiplication, with
// coefficients compared to a relative tolerance (typed float constants are
// rounded to float64 by go/types; a moved constant differs in the last bits).
func (a *RF) Equal(b *RF) bool {
	if a == b {
		return true
	}
	var l, r *Poly
	if a.D.eq(b.D) {
		l, r = a.N, b.N
	} else {
		l, r = a.N.mul(b.D), b.N.mul(a.D)
	}
	return polyApproxEq(l, r, a.S.Tol)
}

func polyApproxEq(l, r *Poly, tol float64) bool {
	scale := l.maxAbs()
	if m := r.maxAbs(); m.Cmp(scale) > 0 {
		scale = m
	}
	if scale.Sign() == 0 {
		return true
	}
	tolR := new(big.Rat)
	tolR.SetFloat64(tol)
	// a term present on one side only (or differing beyond its own relative tolerance) is still
	// accepted as rounding residue of cancelling float literals when it is within a few ulps of the
	// largest coefficient — NOT within Tol of it: a genuine small constant (a convergence
	// tolerance such as 3e-14 next to coefficients of order 1) must stay distinguishable from 0
	zeroTh := new(big.Rat).Mul(scale, big.NewRat(2, 1000000000000000))
	keys := map[string]bool{}
	for k := range l.terms {
		keys[k] = true
	}
	for k := range r.terms {
		keys[k] = true
	}
	for k := range keys {
		x, y := new(big.Rat), new(big.Rat)
		if t, ok := l.terms[k]; ok {
			x = t.coef
		}
		if t, ok := r.terms[k]; ok {
			y = t.coef
		}
		diff := new(big.Rat).Sub(x, y)
		diff.Abs(diff)
		if diff.Sign() == 0 {
			continue
		}
		// two different integers are different: rounding of float literals never produces one
		// (found by the mutation sweep: ^uint(0) and ^uint(1) compared equal to 2e-15 relative)
		if x.IsInt() && y.IsInt() {
			return false
		}
		m := new(big.Rat).Abs(x)
		if ay := new(big.Rat).Abs(y); ay.Cmp(m) > 0 {
			m = ay
		}
		if diff.Cmp(new(big.Rat).Mul(m, tolR)) <= 0 {
			continue
		}
		if diff.Cmp(zeroTh) <= 0 {
			continue
		}
		return false
	}
	return true
}

func (a *RF) IsConst() (*big.Rat, bool) {
	if c, ok := a.D.isConst(); ok && c.Sign() != 0 {
		if n, ok := a.N.isConst(); ok {
			return new(big.Rat).Quo(n, c), true
		}
		return nil, false
	}
	// numerator a constant multiple of the (non-constant) denominator: the sums and differences
	// of two fractions over the same denominator end up here (y + (1 - y) with y = p/q)
	if len(a.N.terms) == len(a.D.terms) && len(a.D.terms) > 0 {
		var ratio *big.Rat
		for k, dt := range a.D.terms {
			nt, ok := a.N.terms[k]
			if !ok || dt.coef.Sign() == 0 {
				return nil, false
			}
			q := new(big.Rat).Quo(nt.coef, dt.coef)
			if ratio == nil {
				ratio = q
			} else if ratio.Cmp(q) != 0 {
				return nil, false
			}
		}
		return ratio, true
	}
	return nil, false
}

// SingleAtom: a is exactly one atom (coefficient 1).
func (a *RF) SingleAtom() *Atom {
	if c, ok := a.D.isConst(); !ok || c.Cmp(big.NewRat(1, 1)) != 0 {
		return nil
	}
	if len(a.N.terms) != 1 {
		return nil
	}
	for _, t := range a.N.terms {
		if len(t.vars) == 1 && t.exps[0] == 1 && t.coef.Cmp(big.NewRat(1, 1)) == 0 {
			return a.S.atoms[t.vars[0]]
		}
	}
	return nil
}

// Atoms lists the atoms occurring in a (recursively through arguments when deep).
func (a *RF) Atoms(deep bool) []*Atom {
	seen := map[AtomID]bool{}
	var out []*Atom
	var walk func(r *RF)
	walk = func(r *RF) {
		for _, p := range []*Poly{r.N, r.D} {
			for _, t := range p.terms {
				for _, v := range t.vars {
					if !seen[v] {
						seen[v] = true
						at := r.S.atoms[v]
						out = append(out, at)
						if deep {
							for _, x := range at.Args {
								walk(x)
							}
						}
					}
				}
			}
		}
	}
	walk(a)
	sort.Slice(out, func(i, j int) bool { return out[i].ID < out[j].ID })
	return out
}

// Subst replaces atoms by expressions (applied recursively inside arguments).
func (a *RF) Subst(m map[AtomID]*RF) *RF {
	s := a.S
	memo := map[AtomID]*RF{}
	var atomVal func(id AtomID) *RF
	var rf func(r *RF) *RF
	atomVal = func(id AtomID) *RF {
		if v, ok := memo[id]; ok {
			return v
		}
		var res *RF
		if v, ok := m[id]; ok {
			res = v
		} else {
			at := s.atoms[id]
			if len(at.Args) == 0 {
				res = s.atomRF(id)
			} else {
				args := make([]*RF, len(at.Args))
				changed := false
				for i, x := range at.Args {
					args[i] = rf(x)
					if args[i] != x {
						changed = true
					}
				}
				if changed {
					res = s.MakeFn(at.Name, args...)
					s.inheritFlags(res, at)
					s.inheritFlags(res, at)
				} else {
					res = s.atomRF(id)
				}
			}
		}
		memo[id] = res
		return res
	}
	poly := func(p *Poly) *RF {
		acc := s.Int(0)
		for _, t := range p.sortedTerms() {
			x := s.Const(t.coef)
			for i, v := range t.vars {
				x = x.Mul(atomVal(v).Pow(t.exps[i]))
			}
			acc = acc.Add(x)
		}
		return acc
	}
	rf = func(r *RF) *RF {
		touched := false
		for _, at := range r.Atoms(true) {
			if _, ok := m[at.ID]; ok {
				touched = true
				break
			}
		}
		if !touched {
			return r
		}
		return poly(r.N).Div(poly(r.D))
	}
	return rf(a)
}

func (s *Sym) AtomByID(id AtomID) *Atom { return s.atoms[id] }

// String renders a for reports.
func (a *RF) String() string {
	ps := func(p *Poly) string {
		if len(p.terms) == 0 {
			return "0"
		}
		var keys []string
		for k := range p.terms {
			keys = append(keys, k)
		}
		sort.Strings(keys)
		var parts []string
		for _, k := range keys {
			t := p.terms[k]
			var f []string
			one := t.coef.Cmp(big.NewRat(1, 1)) == 0
			if !one || len(t.vars) == 0 {
				f = append(f, ratStr(t.coef))
			}
			for i, v := range t.vars {
				n := a.S.atomStr(v)
				if t.exps[i] != 1 {
					n += fmt.Sprintf("^%d", t.exps[i])
				}
				f = append(f, n)
			}
			parts = append(parts, strings.Join(f, "*"))
		}
		return strings.Join(parts, " + ")
	}
	if c, ok := a.D.isConst(); ok && c.Cmp(big.NewRat(1, 1)) == 0 {
		return ps(a.N)
	}
	return "(" + ps(a.N) + ")/(" + ps(a.D) + ")"
}

func ratStr(r *big.Rat) string {
	if r.IsInt() {
		return r.Num().String()
	}
	f, _ := r.Float64()
	if r.Denom().BitLen() < 20 {
		return r.String()
	}
	return fmt.Sprintf("%.17g", f)
}

func (s *Sym) atomStr(id AtomID) string {
	at := s.atoms[id]
	if len(at.Args) == 0 {
		return at.Name
	}
	var xs []string
	for _, x := range at.Args {
		xs = append(xs, x.String())
	}
	return at.Name + "(" + strings.Join(xs, ", ") + ")"
}

// Rewrite rebuilds a bottom-up; f receives each atom with its rebuilt
// arguments and returns its replacement (nil = rebuild with MakeFn / keep).
func (a *RF) Rewrite(f func(at *Atom, args []*RF) *RF) *RF {
	s := a.S
	memo := map[AtomID]*RF{}
	var rf func(r *RF) *RF
	atomVal := func(id AtomID) *RF {
		if v, ok := memo[id]; ok {
			return v
		}
		at := s.atoms[id]
		args := make([]*RF, len(at.Args))
		changed := false
		for i, x := range at.Args {
			args[i] = rf(x)
			if args[i] != x {
				changed = true
			}
		}
		res := f(at, args)
		if res == nil {
			if changed {
				res = s.MakeFn(at.Name, args...)
				s.inheritFlags(res, at)
			} else {
				res = s.atomRF(id)
			}
		}
		memo[id] = res
		return res
	}
	poly := func(p *Poly) (*RF, bool) {
		acc := s.Int(0)
		changed := false
		for _, t := range p.sortedTerms() {
			x := s.Const(t.coef)
			for i, v := range t.vars {
				av := atomVal(v)
				if at := av.SingleAtom(); at == nil || at.ID != v {
					changed = true
				}
				x = x.Mul(av.Pow(t.exps[i]))
			}
			acc = acc.Add(x)
		}
		return acc, changed
	}
	rf = func(r *RF) *RF {
		n, c1 := poly(r.N)
		d, c2 := poly(r.D)
		if !c1 && !c2 {
			return r
		}
		return n.Div(d)
	}
	return rf(a)
}

// Deriv: derivative of a with respect to atom id, treating every other atom
// (including function applications that do not mention id) as constant.
// ok=false when id occurs inside a function application.
func (a *RF) Deriv(id AtomID) (*RF, bool) {
	s := a.S
	for _, at := range a.Atoms(false) {
		if at.ID == id {
			continue
		}
		for _, sub := range at.Args {
			for _, in := range sub.Atoms(true) {
				if in.ID == id {
					return nil, false
				}
			}
		}
	}
	dp := func(p *Poly) *RF {
		acc := s.Int(0)
		for _, t := range p.sortedTerms() {
			for i, v := range t.vars {
				if v != id {
					continue
				}
				// d/dx c*x^e*rest = c*e*x^(e-1)*rest
				x := s.Const(new(big.Rat).Mul(t.coef, big.NewRat(int64(t.exps[i]), 1)))
				for j, w := range t.vars {
					e := t.exps[j]
					if j == i {
						e--
					}
					if e != 0 {
						x = x.Mul(s.atomRF(w).Pow(e))
					}
				}
				acc = acc.Add(x)
			}
		}
		return acc
	}
	n := &RF{N: a.N, D: polyConst(big.NewRat(1, 1)), S: s}
	d := &RF{N: a.D, D: polyConst(big.NewRat(1, 1)), S: s}
	dn, dd := dp(a.N), dp(a.D)
	return dn.Mul(d).Sub(n.Mul(dd)).Div(d.Mul(d)), true
}

// LinearIn: decomposes a = Σ c_k * atom_k + rest over the atoms named `name`
// (each occurring to the first power, not in denominators, not nested).
func (a *RF) LinearIn(name string) (terms map[AtomID]*big.Rat, rest *RF, ok bool) {
	s := a.S
	if c, isC := a.D.isConst(); !isC || c.Cmp(big.NewRat(1, 1)) != 0 {
		return nil, nil, false
	}
	terms = map[AtomID]*big.Rat{}
	restP := newPoly()
	for _, t := range a.N.sortedTerms() {
		var hit []int
		for i, v := range t.vars {
			if s.atoms[v].Name == name {
				hit = append(hit, i)
			}
		}
		switch {
		case len(hit) == 0:
			restP.addTerm(t.vars, t.exps, t.coef)
		case len(hit) == 1 && len(t.vars) == 1 && t.exps[0] == 1:
			id := t.vars[0]
			if old, ok := terms[id]; ok {
				terms[id] = new(big.Rat).Add(old, t.coef)
			} else {
				terms[id] = new(big.Rat).Set(t.coef)
			}
		default:
			return nil, nil, false
		}
	}
	return terms, &RF{N: restP, D: polyConst(big.NewRat(1, 1)), S: s}, true
}

func bigOne() *big.Rat { return big.NewRat(1, 1) }

// inheritFlags: an application rebuilt with rewritten arguments keeps the
// integer-valuedness of the original (it stands for the same function).
func (s *Sym) inheritFlags(res *RF, from *Atom) {
	if !from.Int {
		return
	}
	if ra := res.SingleAtom(); ra != nil && ra.Name == from.Name {
		ra.Int = true
		if from.Unsigned {
			ra.Unsigned = true
		}
	}
}

// Coeffs: the coefficients of the numerator's and denominator's terms.
func (a *RF) Coeffs() []*big.Rat {
	var out []*big.Rat
	for _, t := range a.N.sortedTerms() {
		out = append(out, t.coef)
	}
	for _, t := range a.D.sortedTerms() {
		out = append(out, t.coef)
	}
	return out
}
