package main

import (
	"fmt"
	"go/constant"
	"go/token"
	"go/types"
	"sort"
	"strings"

	"golang.org/x/tools/go/ssa"
)

// C-quote: the writer's table of graphout.DotString against the reader's table
// of the dot language, for every byte value on every path through the loop
// body (a finite, exhaustive static decision: 256 byte values x the paths).
//
// The function must (1) start the result with one `"` and end it with one `"`,
// (2) visit every byte of its argument once, in order, and (3) on every path
// through one iteration emit, for every byte value b that can take that path, a
// byte sequence that the dot reader turns back into exactly b:
//
//	[x]       -> x    for x other than `"` and `\`
//	[\, n]    -> newline
//	[\, y]    -> y    for y in  " \ { } < > | space
//
// Anything else (a raw quote or backslash, an escape with another meaning to
// dot such as \l \r \N \G, two bytes for one, none at all) is a violation.
// Because a raw byte is never `\`, the reader's left-to-right parse of the
// concatenation is the concatenation of the per-byte parses, so per-byte
// agreement plus the full scan plus the framing quotes gives unescape(quote(s))
// = s for every string.
func propC18quote(a *Analysis, r *Registry, b *B) {
	const rule = "C-quote"
	name := "graph/graphout.DotString"
	fn := b.Fn(rule, name)
	if fn == nil {
		return
	}
	b.guard(rule, name, func() {
		q := &quoteAn{a: a, r: r, b: b, fn: fn, name: name, rule: rule}
		q.run()
	})
}

// qitem: one emitted byte: a constant, or the byte being visited.
type qitem struct {
	elem bool
	k    byte
}

func (it qitem) String() string {
	if it.elem {
		return "s[i]"
	}
	return fmt.Sprintf("%q", rune(it.k))
}

type byteSet [4]uint64

func (s *byteSet) has(b int) bool { return s[b>>6]&(1<<(uint(b)&63)) != 0 }
func (s *byteSet) add(b int)      { s[b>>6] |= 1 << (uint(b) & 63) }
func (s byteSet) and(t byteSet) (o byteSet) {
	for i := range s {
		o[i] = s[i] & t[i]
	}
	return
}
func (s byteSet) minus(t byteSet) (o byteSet) {
	for i := range s {
		o[i] = s[i] &^ t[i]
	}
	return
}
func (s byteSet) empty() bool { return s[0]|s[1]|s[2]|s[3] == 0 }
func fullByteSet() (o byteSet) {
	for i := range o {
		o[i] = ^uint64(0)
	}
	return
}

// dotUnescape: what the dot reader makes of the bytes emitted for one input
// byte; ok=false when it is not a single byte.
func dotUnescape(seq []byte) (byte, bool) {
	switch len(seq) {
	case 1:
		if seq[0] != '"' && seq[0] != '\\' {
			return seq[0], true
		}
	case 2:
		if seq[0] == '\\' {
			switch seq[1] {
			case 'n':
				return '\n', true
			case '"', '\\', '{', '}', '<', '>', '|', ' ':
				return seq[1], true
			}
		}
	}
	return 0, false
}

type quoteAn struct {
	a          *Analysis
	r          *Registry
	b          *B
	fn         *ssa.Function
	name, rule string
	s          ssa.Value // the string parameter
	idx        ssa.Value // the loop counter all element reads use
	builder    *ssa.Alloc
}

func (q *quoteAn) fail(at ssa.Instruction, construct, msg string) {
	where := q.b.pos(q.fn)
	if at != nil {
		where = q.a.W.InstrPos(at)
	}
	q.r.Fail(q.rule, q.name+"/"+construct, where, msg)
}

// isElem: v is the byte being visited: s[i] or []byte(s)[i] for the one counter i.
func (q *quoteAn) isElem(v ssa.Value) bool {
	var x, idx ssa.Value
	switch e := v.(type) {
	case *ssa.Lookup:
		x, idx = e.X, e.Index
	case *ssa.Index:
		x, idx = e.X, e.Index
	case *ssa.UnOp:
		ia, ok := e.X.(*ssa.IndexAddr)
		if e.Op != token.MUL || !ok {
			return false
		}
		cv, ok := ia.X.(*ssa.Convert)
		if !ok {
			return false
		}
		x, idx = cv.X, ia.Index
	default:
		return false
	}
	if x != q.s {
		return false
	}
	if q.idx == nil {
		q.idx = idx
	}
	return idx == q.idx
}

func constByte(v ssa.Value) (byte, bool) {
	c, ok := v.(*ssa.Const)
	if !ok || c.Value == nil || c.Value.Kind() != constant.Int {
		return 0, false
	}
	n, exact := constant.Int64Val(c.Value)
	if !exact || n < 0 || n > 255 {
		return 0, false
	}
	return byte(n), true
}

func (q *quoteAn) item(v ssa.Value) (qitem, bool) {
	if k, ok := constByte(v); ok {
		return qitem{k: k}, true
	}
	if cv, ok := v.(*ssa.Convert); ok { // rune(s[i]), byte(c)
		if bt, isB := cv.X.Type().Underlying().(*types.Basic); isB && bt.Info()&types.IsInteger != 0 {
			v = cv.X
		}
	}
	if q.isElem(v) {
		return qitem{elem: true}, true
	}
	return qitem{}, false
}

// sliceItems: the elements of a `[]byte{...}` literal or variadic argument
// pack (an array allocation stored through constant indices, then sliced), or
// of a constant string spread.
func (q *quoteAn) sliceItems(v ssa.Value) ([]qitem, bool) {
	switch e := v.(type) {
	case *ssa.Const:
		if e.Value != nil && e.Value.Kind() == constant.String {
			var out []qitem
			for _, c := range []byte(constant.StringVal(e.Value)) {
				out = append(out, qitem{k: c})
			}
			return out, true
		}
		if e.Value == nil {
			return nil, true
		}
	case *ssa.Convert:
		return q.sliceItems(e.X)
	case *ssa.Slice:
		al, ok := e.X.(*ssa.Alloc)
		if !ok || e.Low != nil || e.High != nil {
			return nil, false
		}
		at, ok := al.Type().Underlying().(*types.Pointer).Elem().Underlying().(*types.Array)
		if !ok {
			return nil, false
		}
		out := make([]qitem, at.Len())
		set := make([]bool, at.Len())
		for _, ref := range *al.Referrers() {
			switch u := ref.(type) {
			case *ssa.Slice:
			case *ssa.IndexAddr:
				c, ok := u.Index.(*ssa.Const)
				if !ok {
					return nil, false
				}
				i, _ := constant.Int64Val(c.Value)
				for _, r2 := range *u.Referrers() {
					st, ok := r2.(*ssa.Store)
					if !ok || st.Addr != u || set[i] {
						return nil, false
					}
					it, ok := q.item(st.Val)
					if !ok {
						return nil, false
					}
					out[i], set[i] = it, true
				}
			default:
				return nil, false
			}
		}
		for _, ok := range set {
			if !ok {
				return nil, false
			}
		}
		return out, true
	case *ssa.MakeSlice:
		k, ok := constByte(e.Len)
		if !ok || k > 8 {
			return nil, false
		}
		// make([]byte, k, …) with its k elements set by constant-index stores in the
		// block that makes it (an element never stored is the zero byte)
		out := make([]qitem, k)
		stored := make([]bool, k)
		for _, ref := range *e.Referrers() {
			ia, ok := ref.(*ssa.IndexAddr)
			if !ok {
				continue
			}
			c, ok := ia.Index.(*ssa.Const)
			if !ok {
				return nil, false
			}
			i, _ := constant.Int64Val(c.Value)
			for _, r2 := range *ia.Referrers() {
				st, ok := r2.(*ssa.Store)
				if !ok {
					continue // a read
				}
				it, ok := q.item(st.Val)
				if !ok || it.elem || i < 0 || i >= int64(k) || st.Block() != e.Block() || stored[i] {
					return nil, false
				}
				out[i], stored[i] = it, true
			}
		}
		return out, true
	}
	return nil, false
}

// chain: v as `base` followed by appended items; base nil = a fresh buffer.
// Phis are left to the caller (resolved along a path).
func (q *quoteAn) chain(v ssa.Value) (base ssa.Value, items []qitem, ok bool) {
	switch e := v.(type) {
	case *ssa.Phi:
		return e, nil, true
	case *ssa.Call:
		if bi, isB := e.Call.Value.(*ssa.Builtin); isB && bi.Name() == "append" && len(e.Call.Args) == 2 {
			base, items, ok = q.chain(e.Call.Args[0])
			if !ok {
				return nil, nil, false
			}
			more, ok2 := q.sliceItems(e.Call.Args[1])
			if !ok2 {
				return nil, nil, false
			}
			return base, append(append([]qitem{}, items...), more...), true
		}
		return nil, nil, false
	}
	if its, ok := q.sliceItems(v); ok {
		return nil, its, true
	}
	return nil, nil, false
}

// condSet: the byte values for which the branch condition holds; known=false
// when the condition does not test the visited byte in a recognised way;
// dep=true when it nevertheless depends on it.
func (q *quoteAn) condSet(c ssa.Value) (set byteSet, known bool, dep bool) {
	switch e := c.(type) {
	case *ssa.UnOp:
		if e.Op == token.NOT {
			s, k, d := q.condSet(e.X)
			if k {
				return fullByteSet().minus(s), true, d
			}
			return s, k, d
		}
	case *ssa.BinOp:
		x, y, op := e.X, e.Y, e.Op
		if _, isC := constByte(x); isC {
			x, y = y, x
			switch op {
			case token.LSS:
				op = token.GTR
			case token.LEQ:
				op = token.GEQ
			case token.GTR:
				op = token.LSS
			case token.GEQ:
				op = token.LEQ
			}
		}
		// strings.IndexByte(K, s[i]) compared with 0 or -1
		if call, isCall := x.(*ssa.Call); isCall {
			if mem, ok := q.memberSet(call); ok {
				if yc, isC := y.(*ssa.Const); isC && yc.Value != nil && yc.Value.Kind() == constant.Int {
					n, _ := constant.Int64Val(yc.Value)
					switch {
					case op == token.GEQ && n == 0, op == token.NEQ && n == -1, op == token.GTR && n == -1:
						return mem, true, true
					case op == token.LSS && n == 0, op == token.EQL && n == -1:
						return fullByteSet().minus(mem), true, true
					}
				}
				return set, false, true
			}
		}
		xv := x
		if cv, ok := xv.(*ssa.Convert); ok {
			xv = cv.X
		}
		if q.isElem(xv) {
			yc, isC := y.(*ssa.Const)
			if !isC || yc.Value == nil || yc.Value.Kind() != constant.Int {
				return set, false, true
			}
			n, _ := constant.Int64Val(yc.Value)
			for v := 0; v < 256; v++ {
				var t bool
				switch op {
				case token.EQL:
					t = int64(v) == n
				case token.NEQ:
					t = int64(v) != n
				case token.LSS:
					t = int64(v) < n
				case token.LEQ:
					t = int64(v) <= n
				case token.GTR:
					t = int64(v) > n
				case token.GEQ:
					t = int64(v) >= n
				default:
					return set, false, true
				}
				if t {
					set.add(v)
				}
			}
			return set, true, true
		}
	case *ssa.Call:
		// strings.ContainsRune(K, rune(s[i])), bytes.Contains-like membership
		if f := e.Call.StaticCallee(); f != nil && (f.String() == "strings.ContainsRune" || f.String() == "strings.ContainsAny") && len(e.Call.Args) == 2 {
			if kc, isC := e.Call.Args[0].(*ssa.Const); isC && kc.Value != nil && kc.Value.Kind() == constant.String && f.String() == "strings.ContainsRune" {
				arg := e.Call.Args[1]
				if cv, ok := arg.(*ssa.Convert); ok {
					arg = cv.X
				}
				if q.isElem(arg) {
					for _, c := range constant.StringVal(kc.Value) {
						if c < 128 {
							set.add(int(c))
						}
					}
					return set, true, true
				}
			}
		}
	}
	return set, false, q.dependsOnElem(c, 0)
}

// memberSet: strings.IndexByte(K, s[i]) / bytes.IndexByte([]byte(K), s[i]) for constant K.
func (q *quoteAn) memberSet(call *ssa.Call) (set byteSet, ok bool) {
	f := call.Call.StaticCallee()
	if f == nil || len(call.Call.Args) != 2 || (f.String() != "strings.IndexByte" && f.String() != "bytes.IndexByte") {
		return set, false
	}
	its, ok := q.sliceItems(call.Call.Args[0])
	if !ok || !q.isElem(call.Call.Args[1]) {
		return set, false
	}
	for _, it := range its {
		if it.elem {
			return set, false
		}
		set.add(int(it.k))
	}
	return set, true
}

func (q *quoteAn) dependsOnElem(v ssa.Value, depth int) bool {
	return q.depends(v, depth, map[ssa.Value]bool{})
}

func (q *quoteAn) depends(v ssa.Value, depth int, seen map[ssa.Value]bool) bool {
	if q.isElem(v) {
		return true
	}
	if seen[v] {
		return false
	}
	seen[v] = true
	if depth > 8 {
		return true // too deep to tell: treated as dependent (fail closed)
	}
	in, ok := v.(ssa.Instruction)
	if !ok {
		return false
	}
	for _, op := range in.Operands(nil) {
		if *op != nil && q.depends(*op, depth+1, seen) {
			return true
		}
	}
	return false
}

type qpath struct {
	blocks []*ssa.BasicBlock
	set    byteSet
}

// paths: every way through one iteration, from the header back to it, with the
// byte values that can take it.
func (q *quoteAn) paths(l *Loop, ctx *Ctx) ([]qpath, string) {
	var out []qpath
	var msg string
	var walk func(blk *ssa.BasicBlock, p qpath)
	walk = func(blk *ssa.BasicBlock, p qpath) {
		if msg != "" {
			return
		}
		if len(out) > 4096 || len(p.blocks) > 256 {
			msg = "too many paths through the loop body"
			return
		}
		p.blocks = append(append([]*ssa.BasicBlock{}, p.blocks...), blk)
		var succs []*ssa.BasicBlock
		var sets []byteSet
		if iff, ok := blk.Instrs[len(blk.Instrs)-1].(*ssa.If); ok {
			set, known, dep := q.condSet(iff.Cond)
			switch {
			case known:
				sets = []byteSet{p.set.and(set), p.set.minus(set)}
			case dep:
				msg = "a test of the visited byte is not a comparison with constants: " + iff.Cond.String() + " (" + q.a.W.InstrPos(iff) + ")"
				return
			default:
				sets = []byteSet{p.set, p.set}
			}
			succs = blk.Succs
		} else {
			succs = blk.Succs
			for range succs {
				sets = append(sets, p.set)
			}
		}
		for i, s := range succs {
			if !ctx.EdgeLive(blk, i) || sets[i].empty() {
				continue
			}
			if s == l.Header {
				out = append(out, qpath{blocks: append(append([]*ssa.BasicBlock{}, p.blocks...), s), set: sets[i]})
				continue
			}
			if !l.Body[s.Index] {
				continue // leaves the loop: the scan rule decides whether that is allowed
			}
			np := p
			np.set = sets[i]
			walk(s, np)
		}
	}
	walk(l.Header, qpath{set: fullByteSet()})
	return out, msg
}

// alongPath: the buffer value v at the end of the path, as the items appended
// to the header's buffer phi during the iteration.
func (q *quoteAn) alongPath(v ssa.Value, p qpath, hdr *ssa.Phi) ([]qitem, string) {
	pos := map[*ssa.BasicBlock]int{}
	for i, blk := range p.blocks[:len(p.blocks)-1] {
		pos[blk] = i
	}
	var items []qitem
	// the value flowing along the last edge (latch -> header)
	cur := v
	at := len(p.blocks) - 1 // cur is read on entry to p.blocks[at]
	for steps := 0; steps < 1000; steps++ {
		if cur == hdr {
			return items, ""
		}
		if ph, ok := cur.(*ssa.Phi); ok {
			j, on := pos[ph.Block()]
			if !on || j == 0 || j > at {
				return nil, "the buffer is a merge outside the iteration's path"
			}
			pred := p.blocks[j-1]
			found := false
			for k, pb := range ph.Block().Preds {
				if pb == pred {
					cur, found = ph.Edges[k], true
					break
				}
			}
			if !found {
				return nil, "unresolvable merge of the buffer"
			}
			at = j
			continue
		}
		base, its, ok := q.chain(cur)
		if !ok {
			return nil, "the buffer is not built by appending constants and the visited byte: " + cur.String()
		}
		if in, isIn := cur.(ssa.Instruction); isIn {
			if _, on := pos[in.Block()]; !on {
				return nil, "the appended value is computed off the iteration's path"
			}
		}
		items = append(append([]qitem{}, its...), items...)
		if base == nil {
			return nil, "the buffer is restarted inside the loop: what was written before is lost"
		}
		cur = base
	}
	return nil, "buffer chain too long"
}

// builderEvents: items written to the builder by the instructions of blk, in order.
func (q *quoteAn) builderEvents(blk *ssa.BasicBlock) ([]qitem, string) {
	var out []qitem
	for _, in := range blk.Instrs {
		c, ok := in.(*ssa.Call)
		if !ok || len(c.Call.Args) == 0 || c.Call.Args[0] != q.builder {
			continue
		}
		f := c.Call.StaticCallee()
		if f == nil {
			return nil, "dynamic call on the builder"
		}
		switch f.Name() {
		case "WriteByte", "WriteRune":
			it, ok := q.item(c.Call.Args[1])
			if !ok || (!it.elem && it.k >= 128 && f.Name() == "WriteRune") {
				return nil, "written value is neither a constant nor the visited byte: " + c.String()
			}
			if it.elem && f.Name() == "WriteRune" {
				return nil, "the visited byte is written as a rune (bytes >= 0x80 become two bytes)"
			}
			out = append(out, it)
		case "WriteString", "Write":
			its, ok := q.sliceItems(c.Call.Args[1])
			if !ok {
				return nil, "written value is not constant: " + c.String()
			}
			out = append(out, its...)
		case "Grow", "Len", "Cap", "String", "Bytes":
		default:
			return nil, "unexpected builder method " + f.Name()
		}
	}
	return out, ""
}

func itemsString(its []qitem) string {
	var s []string
	for _, it := range its {
		s = append(s, it.String())
	}
	return "[" + strings.Join(s, " ") + "]"
}

func (q *quoteAn) run() {
	fn := q.fn
	X := q.b.X
	if len(fn.Params) != 1 {
		q.fail(nil, "shape", "expected one string parameter")
		return
	}
	q.s = fn.Params[0]
	fc := X.FCFor(fn)
	ctx := fc.Ctx
	loops := ctx.Loops()
	if len(loops) != 1 {
		q.fail(nil, "shape", fmt.Sprintf("expected one loop over the bytes of the argument, found %d", len(loops)))
		return
	}
	l := loops[0]
	rets := ctx.Returns()
	if len(rets) != 1 {
		q.fail(nil, "shape", fmt.Sprintf("expected one return, found %d", len(rets)))
		return
	}
	ret := rets[0]
	// --- the sink: a byte slice grown by append and converted, or a strings.Builder/bytes.Buffer
	var before, after []qitem
	type pathItems struct {
		p   qpath
		its []qitem
	}
	var per []pathItems
	paths, msg := q.paths(l, ctx)
	if msg != "" {
		q.fail(nil, "per-byte", msg)
		return
	}
	if len(paths) == 0 {
		q.fail(nil, "per-byte", "no path through the loop body")
		return
	}
	rv := ret.Results[0]
	if cv, ok := rv.(*ssa.Convert); ok {
		// string(buf)
		base, its, ok := q.chain(cv.X)
		hdr, isPhi := base.(*ssa.Phi)
		if !ok || !isPhi || hdr.Block() != l.Header {
			q.fail(ret, "framing", "the returned string is not the loop's buffer followed by appended constants")
			return
		}
		after = its
		var latchVals []ssa.Value
		seenEntry := false
		for k, pb := range hdr.Block().Preds {
			if l.Body[pb.Index] {
				latchVals = append(latchVals, hdr.Edges[k])
				continue
			}
			b0, its0, ok0 := q.chain(hdr.Edges[k])
			if !ok0 || b0 != nil || seenEntry {
				q.fail(ret, "framing", "the buffer does not start as a fresh literal")
				return
			}
			before, seenEntry = its0, true
		}
		for _, p := range paths {
			latch := p.blocks[len(p.blocks)-2]
			var v ssa.Value
			for k, pb := range hdr.Block().Preds {
				if pb == latch {
					v = hdr.Edges[k]
				}
			}
			its, msg := q.alongPath(v, p, hdr)
			if msg != "" {
				q.fail(nil, "per-byte", msg)
				return
			}
			per = append(per, pathItems{p, its})
		}
	} else if call, ok := rv.(*ssa.Call); ok && call.Call.StaticCallee() != nil && call.Call.StaticCallee().Name() == "String" && len(call.Call.Args) == 1 {
		al, ok := call.Call.Args[0].(*ssa.Alloc)
		if !ok {
			q.fail(ret, "framing", "the returned string does not come from a local builder")
			return
		}
		q.builder = al
		for _, ref := range *al.Referrers() {
			if c, ok := ref.(*ssa.Call); ok && len(c.Call.Args) > 0 && c.Call.Args[0] == al && c.Call.StaticCallee() != nil {
				continue
			}
			if _, ok := ref.(*ssa.DebugRef); ok {
				continue
			}
			q.fail(nil, "framing", "the builder escapes the recognised write calls: "+ref.String())
			return
		}
		for _, blk := range fn.Blocks {
			if !ctx.Reach[blk.Index] || l.Body[blk.Index] {
				continue
			}
			evs, msg := q.builderEvents(blk)
			if msg != "" {
				q.fail(nil, "framing", msg)
				return
			}
			if len(evs) == 0 {
				continue
			}
			switch {
			case ctx.Dominates(blk, l.Header):
				before = append(before, evs...)
			case ctx.Dominates(blk, ret.Block()):
				// (on every path to the return and not before the loop: after it — the exit block of
				// a bottom-tested loop is not dominated by the loop's header)
				after = append(after, evs...)
			default:
				q.fail(nil, "framing", "a write outside the loop is not on every path")
				return
			}
		}
		for _, p := range paths {
			var its []qitem
			for _, blk := range p.blocks[:len(p.blocks)-1] {
				evs, msg := q.builderEvents(blk)
				if msg != "" {
					q.fail(nil, "per-byte", msg)
					return
				}
				its = append(its, evs...)
			}
			per = append(per, pathItems{p, its})
		}
	} else {
		q.fail(ret, "framing", "the result is neither string(buffer) nor builder.String()")
		return
	}
	// --- (1) framing
	quote := func(its []qitem) bool { return len(its) == 1 && !its[0].elem && its[0].k == '"' }
	if quote(before) && quote(after) {
		q.r.OK(q.rule, q.name+"/framing", q.b.pos(fn), "the result is `\"` + the loop's output + `\"`")
	} else {
		q.fail(ret, "framing", "the result is "+itemsString(before)+" + the loop's output + "+itemsString(after)+", not framed by one `\"` on each side")
	}
	// --- (3) per byte, per path
	bad := 0
	covered := byteSet{}
	classes := map[string]int{}
	for _, pi := range per {
		for v := 0; v < 256; v++ {
			if !pi.p.set.has(v) {
				continue
			}
			covered.add(v)
			var seq []byte
			for _, it := range pi.its {
				if it.elem {
					seq = append(seq, byte(v))
				} else {
					seq = append(seq, it.k)
				}
			}
			got, ok := dotUnescape(seq)
			if ok && got == byte(v) {
				classes[itemsString(pi.its)]++
				continue
			}
			bad++
			if bad <= 3 {
				what := "which dot does not read back as that byte"
				if len(seq) == 0 {
					what = "the byte is dropped"
				}
				q.fail(nil, fmt.Sprintf("per-byte/%q", rune(v)), fmt.Sprintf("for the byte %q the loop emits %s: %s", rune(v), itemsString(pi.its), what))
			}
		}
	}
	for v := 0; v < 256; v++ {
		if !covered.has(v) {
			bad++
			q.fail(nil, fmt.Sprintf("per-byte/%q", rune(v)), fmt.Sprintf("no path through the loop body handles the byte %q", rune(v)))
			break
		}
	}
	if bad == 0 {
		var cl []string
		for k, n := range classes {
			cl = append(cl, fmt.Sprintf("%s x%d", k, n))
		}
		sort.Strings(cl)
		q.r.OK(q.rule, q.name+"/per-byte", q.b.pos(fn), fmt.Sprintf("all 256 byte values on %d paths read back as themselves: %s", len(per), strings.Join(cl, ", ")))
	}
	// --- (2) every byte visited once, in order
	if q.idx == nil {
		q.fail(nil, "scan", "the visited byte is never read")
		return
	}
	S := X.S
	q.b.FullScan("C-scan coverage", q.name+"/scan", q.b.pos(fn), fc, fc.Val(q.idx), S.MakeFn("len", fc.Val(q.s)))
}
