package main

// Engine A — effects and ownership. Summary-based, interprocedural,
// field-insensitive points-to over a small object abstraction; decides which
// caller-visible memory every library function may write and where returned
// memory comes from. See DESIGN.md §4 "Engine A".

import (
	"fmt"
	"go/token"
	"go/types"
	"sort"
	"strings"

	"golang.org/x/tools/go/ssa"
)

type ObjKind uint8

const (
	KParam ObjKind = iota
	KGlobal
	KFresh
	KExt
)

// Obj is an abstract memory object. KParam: memory designated by parameter
// Idx (parameters, then free variables); Deep=false is P^0, Deep=true P^+.
// KGlobal likewise for a package-level variable. KFresh: allocated at Site in
// the function under analysis; Site==nil is "fresh memory allocated by a
// callee" at summary level. KExt: memory returned by unknown code.
type Obj struct {
	K    ObjKind
	Idx  int
	Deep bool
	G    *ssa.Global
	Site ssa.Instruction
	T    string // KFresh: type key of the allocation (keeps unrelated fresh memory apart)
}

var extObj = Obj{K: KExt}

type ObjSet map[Obj]struct{}

func (s ObjSet) add(o Obj) bool {
	if _, ok := s[o]; ok {
		return false
	}
	s[o] = struct{}{}
	return true
}
func (s ObjSet) addAll(t ObjSet) bool {
	ch := false
	for o := range t {
		if s.add(o) {
			ch = true
		}
	}
	return ch
}
func (s ObjSet) clone() ObjSet {
	r := make(ObjSet, len(s))
	for o := range s {
		r[o] = struct{}{}
	}
	return r
}
func setOf(os ...Obj) ObjSet {
	r := ObjSet{}
	for _, o := range os {
		r[o] = struct{}{}
	}
	return r
}

type WKey struct {
	O   Obj
	Tag string
}
type WriteRec struct {
	Origin string // "file:line what" of the instruction that writes
	Via    string // call chain (outermost first)
}

type Summary struct {
	Writes   map[WKey]*WriteRec
	Returns  []ObjSet
	FreshC   map[Obj]ObjSet // contents of callee-fresh memory, per type key
	Stores   map[Obj]ObjSet // caller-visible target -> pointer-like data stored into it
	RetClos  map[*ssa.Function]bool
	Nondet   map[string]string // kind -> origin (global rand, etc.)
	Problems map[string]bool
}

func newSummary(nres int) *Summary {
	s := &Summary{Writes: map[WKey]*WriteRec{}, FreshC: map[Obj]ObjSet{}, Stores: map[Obj]ObjSet{},
		RetClos: map[*ssa.Function]bool{}, Nondet: map[string]string{}, Problems: map[string]bool{}}
	s.Returns = make([]ObjSet, nres)
	for i := range s.Returns {
		s.Returns[i] = ObjSet{}
	}
	return s
}

// ---------------------------------------------------------------------

type Effects struct {
	W     *World
	st    map[*ssa.Function]*fstate
	work  []*ssa.Function
	inq   map[*ssa.Function]bool
	deps  map[*ssa.Function]map[*ssa.Function]bool // callee -> callers
	Stats struct {
		Funcs, Instrs, Stores, Calls, CallsStatic, CallsInvoke, CallsClosure, CallsBuiltin, CallsExtern int
		ExternUsed                                                                                      map[string]int
		InstrKinds                                                                                      map[string]int
	}
}

type fstate struct {
	e      *Effects
	fn     *ssa.Function
	ctx    *Ctx
	pts    map[ssa.Value]ObjSet
	tup    map[ssa.Value][]ObjSet
	heap   map[Obj]ObjSet
	out    map[int]map[Obj]ObjSet
	fi     map[Obj]bool // cells treated flow-insensitively
	cloFn  map[Obj]*ssa.Function
	cloBnd map[Obj][]ssa.Value
	sum    *Summary
	ch     bool
	direct map[WKey]bool // writes performed by an instruction of this function itself
}

func NewEffects(w *World) *Effects {
	e := &Effects{W: w, st: map[*ssa.Function]*fstate{}, inq: map[*ssa.Function]bool{}, deps: map[*ssa.Function]map[*ssa.Function]bool{}}
	e.Stats.ExternUsed = map[string]int{}
	e.Stats.InstrKinds = map[string]int{}
	return e
}

func (e *Effects) analyzable(fn *ssa.Function) bool {
	if fn == nil || fn.Blocks == nil {
		return false
	}
	if e.W.ModFuncs[fn] {
		return true
	}
	// synthetic wrappers / bound-method closures / instantiations for module objects
	if fn.Synthetic != "" {
		if o := fn.Object(); o != nil && o.Pkg() != nil && strings.HasPrefix(o.Pkg().Path(), e.W.ModPath) {
			return true
		}
		if p := fn.Parent(); p != nil {
			return e.analyzable(p)
		}
	}
	if p := fn.Parent(); p != nil {
		return e.analyzable(p)
	}
	return false
}

func (e *Effects) state(fn *ssa.Function) *fstate {
	if s, ok := e.st[fn]; ok {
		return s
	}
	nres := fn.Signature.Results().Len()
	s := &fstate{e: e, fn: fn, ctx: NewCtx(e.W, fn, nil), pts: map[ssa.Value]ObjSet{}, tup: map[ssa.Value][]ObjSet{},
		heap: map[Obj]ObjSet{}, out: map[int]map[Obj]ObjSet{}, fi: map[Obj]bool{}, cloFn: map[Obj]*ssa.Function{},
		cloBnd: map[Obj][]ssa.Value{}, sum: newSummary(nres), direct: map[WKey]bool{}}
	e.st[fn] = s
	e.enqueue(fn)
	return s
}

func (e *Effects) enqueue(fn *ssa.Function) {
	if !e.inq[fn] {
		e.inq[fn] = true
		e.work = append(e.work, fn)
	}
}

func (e *Effects) Summary(fn *ssa.Function) *Summary {
	if s, ok := e.st[fn]; ok {
		return s.sum
	}
	return nil
}

// Run analyses every library function (and, on demand, what they call) to a
// global fixed point.
func (e *Effects) Run() {
	for _, fn := range e.W.FuncList {
		e.state(fn)
	}
	iter := 0
	for len(e.work) > 0 {
		fn := e.work[0]
		e.work = e.work[1:]
		e.inq[fn] = false
		s := e.st[fn]
		if s.analyze() {
			for c := range e.deps[fn] {
				e.enqueue(c)
			}
		}
		iter++
		if iter > 200000 {
			s.problem("global fixed point did not converge")
			break
		}
	}
	// statistics (one pass)
	for _, fn := range e.W.FuncList {
		e.Stats.Funcs++
		s := e.st[fn]
		s.ctx.Instrs(func(in ssa.Instruction) {
			e.Stats.Instrs++
			e.Stats.InstrKinds[strings.TrimPrefix(fmt.Sprintf("%T", in), "*ssa.")]++
			switch in := in.(type) {
			case *ssa.Store:
				e.Stats.Stores++
			case ssa.CallInstruction:
				e.Stats.Calls++
				c := in.Common()
				switch {
				case c.IsInvoke():
					e.Stats.CallsInvoke++
				case c.StaticCallee() != nil:
					if e.analyzable(c.StaticCallee()) {
						e.Stats.CallsStatic++
					} else {
						e.Stats.CallsExtern++
					}
				default:
					if _, ok := c.Value.(*ssa.Builtin); ok {
						e.Stats.CallsBuiltin++
					} else {
						e.Stats.CallsClosure++
					}
				}
			}
		})
	}
}

func (s *fstate) problem(msg string) {
	full := s.e.W.FuncName(s.fn) + ": " + msg
	if !s.sum.Problems[full] {
		s.sum.Problems[full] = true
		s.ch = true
	}
}

func ptrLike(t types.Type) bool {
	switch u := t.Underlying().(type) {
	case *types.Pointer, *types.Slice, *types.Map, *types.Chan, *types.Signature, *types.Interface:
		return true
	case *types.Struct:
		for i := 0; i < u.NumFields(); i++ {
			if ptrLike(u.Field(i).Type()) {
				return true
			}
		}
	case *types.Array:
		return ptrLike(u.Elem())
	case *types.Tuple:
		for i := 0; i < u.Len(); i++ {
			if ptrLike(u.At(i).Type()) {
				return true
			}
		}
	case *types.Basic:
		return u.Kind() == types.UnsafePointer
	}
	return false
}

func isCell(o Obj) bool {
	if o.K != KFresh || o.Site == nil {
		return false
	}
	_, ok := o.Site.(*ssa.Alloc)
	return ok
}

func (s *fstate) P(v ssa.Value) ObjSet {
	switch v := v.(type) {
	case *ssa.Const:
		return ObjSet{}
	case *ssa.Global:
		return setOf(Obj{K: KGlobal, G: v})
	case *ssa.Function:
		return ObjSet{}
	case *ssa.Parameter:
		for i, p := range s.fn.Params {
			if p == v {
				if ptrLike(v.Type()) {
					return setOf(Obj{K: KParam, Idx: i})
				}
				return ObjSet{}
			}
		}
	case *ssa.FreeVar:
		for i, p := range s.fn.FreeVars {
			if p == v {
				return setOf(Obj{K: KParam, Idx: len(s.fn.Params) + i})
			}
		}
	case *ssa.Builtin:
		return ObjSet{}
	}
	if r, ok := s.pts[v]; ok {
		return r
	}
	return ObjSet{}
}

func (s *fstate) setP(v ssa.Value, add ObjSet) {
	cur, ok := s.pts[v]
	if !ok {
		cur = ObjSet{}
		s.pts[v] = cur
	}
	if cur.addAll(add) {
		s.ch = true
	}
}

func (s *fstate) heapAdd(o Obj, add ObjSet) {
	if len(add) == 0 {
		return
	}
	cur, ok := s.heap[o]
	if !ok {
		cur = ObjSet{}
		s.heap[o] = cur
	}
	if cur.addAll(add) {
		s.ch = true
	}
}

// contents of object o at a program point with cell state cs (cs==nil:
// flow-insensitive).
func (s *fstate) contents(o Obj, cs map[Obj]ObjSet) ObjSet {
	r := ObjSet{}
	switch o.K {
	case KParam:
		if t := s.paramType(o.Idx); o.Deep || t == nil || deepPtr(t) {
			r.add(Obj{K: KParam, Idx: o.Idx, Deep: true})
		}
		r.addAll(s.heap[o])
	case KGlobal:
		if o.Deep || deepPtr(o.G.Type().Underlying().(*types.Pointer).Elem()) || true {
			r.add(Obj{K: KGlobal, G: o.G, Deep: true})
		}
		r.addAll(s.heap[o])
	case KExt:
		r.add(extObj)
	case KFresh:
		if isCell(o) && cs != nil && !s.fi[o] {
			r.addAll(cs[o])
		} else {
			r.addAll(s.heap[o])
		}
	}
	return r
}

// typeKind: a coarse kind of a pointer-like static type ("" when unknown or an interface).
func typeKind(t types.Type) string {
	switch u := t.Underlying().(type) {
	case *types.Pointer:
		return "ptr:" + types.TypeString(u.Elem(), nil)
	case *types.Slice:
		// (the element type is part of the kind: the backing array of a []int is
		// never what a load of type [][]int yields)
		return "slice:" + types.TypeString(u.Elem(), nil)
	case *types.Map:
		return "map:" + types.TypeString(u.Key(), nil) + ":" + types.TypeString(u.Elem(), nil)
	case *types.Chan:
		return "chan"
	case *types.Signature:
		return "func"
	}
	return ""
}

// typeFilter drops from a loaded points-to set the parameter objects whose
// own static type cannot be the type of the loaded value.
func (s *fstate) typeFilter(set ObjSet, loadType types.Type) ObjSet {
	lk := typeKind(loadType)
	if lk == "" { // interface, struct with pointers, …: no filtering
		return set
	}
	// a type assertion to a type of this kind could have turned an interface
	// parameter into such a value: then nothing is filtered
	for _, blk := range s.fn.Blocks {
		for _, in := range blk.Instrs {
			if ta, ok := in.(*ssa.TypeAssert); ok && typeKind(ta.AssertedType) == lk {
				return set
			}
			if ct, ok := in.(*ssa.ChangeInterface); ok {
				_ = ct
			}
		}
	}
	var out ObjSet
	for o := range set {
		drop := false
		if o.K == KParam && !o.Deep && o.Idx < len(s.fn.Params) {
			pt := s.fn.Params[o.Idx].Type()
			if _, isIface := pt.Underlying().(*types.Interface); isIface {
				drop = true // an interface value is never the result of a non-interface load
			} else if pk := typeKind(pt); pk != "" && pk != lk {
				drop = true
			}
		}
		if drop {
			if out == nil {
				out = ObjSet{}
				for o2 := range set {
					out[o2] = struct{}{}
				}
			}
			delete(out, o)
		}
	}
	if out == nil {
		return set
	}
	return out
}

func (s *fstate) contentsSet(set ObjSet, cs map[Obj]ObjSet) ObjSet {
	r := ObjSet{}
	for o := range set {
		r.addAll(s.contents(o, cs))
	}
	return r
}

// reachPlus: everything reachable from set by one or more loads.
func (s *fstate) reachPlus(set ObjSet, cs map[Obj]ObjSet) ObjSet {
	res := ObjSet{}
	var work []Obj
	for o := range set {
		work = append(work, o)
	}
	seen := ObjSet{}
	for len(work) > 0 {
		o := work[len(work)-1]
		work = work[:len(work)-1]
		if !seen.add(o) {
			continue
		}
		for c := range s.contents(o, cs) {
			res.add(c)
			work = append(work, c)
		}
	}
	return res
}

func (s *fstate) reachStar(set ObjSet, cs map[Obj]ObjSet) ObjSet {
	r := set.clone()
	r.addAll(s.reachPlus(set, cs))
	return r
}

func (s *fstate) addWrite(o Obj, tag, origin, via string, direct bool) {
	k := WKey{o, tag}
	if direct {
		s.direct[k] = true
	}
	if _, ok := s.sum.Writes[k]; ok {
		return
	}
	if o.K == KFresh {
		return // local memory: not an externally visible effect
	}
	s.sum.Writes[k] = &WriteRec{Origin: origin, Via: via}
	s.ch = true
}

// weak/strong update of the pointer-like contents of target objects
func (s *fstate) storeInto(targets ObjSet, val ObjSet, cs map[Obj]ObjSet, strongCell *Obj) {
	for o := range targets {
		if isCell(o) {
			s.heapAdd(o, val) // everStored
			if s.fi[o] || cs == nil {
				continue
			}
			if strongCell != nil && *strongCell == o && len(targets) == 1 {
				cs[o] = val.clone()
			} else {
				c, ok := cs[o]
				if !ok {
					c = ObjSet{}
					cs[o] = c
				}
				c.addAll(val)
			}
			continue
		}
		s.heapAdd(o, val)
		if o.K != KFresh && len(val) > 0 {
			cur, ok := s.sum.Stores[o]
			if !ok {
				cur = ObjSet{}
				s.sum.Stores[o] = cur
			}
			for v := range val {
				if cur.add(s.toSummaryObj(v)) {
					s.ch = true
				}
				if v.K == KFresh {
					s.recordFresh(setOf(v))
				}
			}
		}
	}
}

func (s *fstate) toSummaryObj(o Obj) Obj {
	if o.K == KFresh {
		return Obj{K: KFresh, T: o.T}
	}
	return o
}

// recordFresh adds to the summary the contents of every fresh object
// reachable from set.
func (s *fstate) recordFresh(set ObjSet) {
	for x := range s.reachStar(set, nil) {
		if x.K != KFresh {
			continue
		}
		if cf, ok := s.cloFn[x]; ok && !s.sum.RetClos[cf] {
			s.sum.RetClos[cf] = true
			s.ch = true
		}
		k := s.toSummaryObj(x)
		cur, ok := s.sum.FreshC[k]
		if !ok {
			cur = ObjSet{}
			s.sum.FreshC[k] = cur
			s.ch = true
		}
		for c := range s.contents(x, nil) {
			if cur.add(s.toSummaryObj(c)) {
				s.ch = true
			}
		}
	}
}

func typeKey(t types.Type) string {
	return types.TypeString(t, func(p *types.Package) string { return p.Name() })
}

func (s *fstate) fresh(site ssa.Instruction, t types.Type) Obj {
	return Obj{K: KFresh, Site: site, T: typeKey(t)}
}

// deepPtr: does the memory designated by a value of type t itself hold pointers?
func deepPtr(t types.Type) bool {
	switch u := t.Underlying().(type) {
	case *types.Pointer:
		return ptrLike(u.Elem())
	case *types.Slice:
		return ptrLike(u.Elem())
	case *types.Map:
		return ptrLike(u.Key()) || ptrLike(u.Elem())
	case *types.Struct:
		for i := 0; i < u.NumFields(); i++ {
			if deepPtr(u.Field(i).Type()) {
				return true
			}
		}
		return false
	case *types.Array:
		return deepPtr(u.Elem())
	case *types.Basic:
		return false
	}
	return true // interface, func, chan: unknown layout
}

func (s *fstate) paramType(idx int) types.Type {
	if idx < len(s.fn.Params) {
		return s.fn.Params[idx].Type()
	}
	if i := idx - len(s.fn.Params); i < len(s.fn.FreeVars) {
		return s.fn.FreeVars[i].Type()
	}
	return nil
}

func addrTag(w *World, a ssa.Value) string {
	switch a := a.(type) {
	case *ssa.FieldAddr:
		t := a.X.Type().Underlying().(*types.Pointer).Elem()
		st := t.Underlying().(*types.Struct)
		name := "struct"
		if n, ok := t.(*types.Named); ok {
			name = w.relPkg(n.Obj().Pkg()) + "." + n.Obj().Name()
		}
		return name + "." + st.Field(a.Field).Name()
	case *ssa.IndexAddr:
		return "[*]"
	}
	return "*"
}

// analyze runs the intra-procedural fixed point; reports whether the summary
// changed.
func (s *fstate) analyze() bool {
	before := s.sumSize()
	fn := s.fn
	order := s.ctx.rpo()
	for round := 0; ; round++ {
		s.ch = false
		for _, b := range order {
			cs := map[Obj]ObjSet{}
			for _, p := range s.ctx.LivePreds(b) {
				for o, set := range s.out[p.Index] {
					c, ok := cs[o]
					if !ok {
						c = ObjSet{}
						cs[o] = c
					}
					c.addAll(set)
				}
			}
			for _, in := range b.Instrs {
				s.transfer(in, cs)
			}
			// compare with previous out
			prev := s.out[b.Index]
			if !cellStateEq(prev, cs) {
				s.out[b.Index] = cs
				s.ch = true
			}
		}
		if !s.ch {
			break
		}
		if round > 500 {
			s.problem("intra-procedural fixed point did not converge")
			break
		}
	}
	_ = fn
	return s.sumSize() != before
}

func cellStateEq(a, b map[Obj]ObjSet) bool {
	if a == nil {
		return false
	}
	if len(a) != len(b) {
		return false
	}
	for o, x := range a {
		y, ok := b[o]
		if !ok || len(x) != len(y) {
			return false
		}
		for e := range x {
			if _, ok := y[e]; !ok {
				return false
			}
		}
	}
	return true
}

func (s *fstate) sumSize() int {
	n := len(s.sum.Writes) + len(s.sum.RetClos)
	for _, r := range s.sum.FreshC {
		n += 1 + len(r)
	}
	n += +len(s.sum.Nondet) + len(s.sum.Problems)
	for _, r := range s.sum.Returns {
		n += len(r)
	}
	for _, r := range s.sum.Stores {
		n += 1 + len(r)
	}
	return n
}

func (s *fstate) where(in ssa.Instruction) string { return s.e.W.InstrPos(in) }

func (s *fstate) transfer(in ssa.Instruction, cs map[Obj]ObjSet) {
	switch in := in.(type) {
	case *ssa.Alloc:
		o := s.fresh(in, in.Type())
		s.setP(in, setOf(o))
		if !s.fi[o] {
			cs[o] = ObjSet{}
		}
	case *ssa.MakeSlice, *ssa.MakeMap:
		s.setP(in.(ssa.Value), setOf(s.fresh(in, in.(ssa.Value).Type())))
	case *ssa.MakeClosure:
		o := s.fresh(in, in.Type())
		o.T = "closure " + in.Fn.Name()
		s.setP(in, setOf(o))
		cfn := in.Fn.(*ssa.Function)
		s.cloFn[o] = cfn
		s.cloBnd[o] = in.Bindings
		var fv []ObjSet
		for _, b := range in.Bindings {
			p := s.P(b)
			s.heapAdd(o, p)
			fv = append(fv, p)
		}
		s.applyClosureAtCreation(in, cfn, fv, cs)
	case *ssa.Store:
		targets := s.P(in.Addr)
		tag := addrTag(s.e.W, in.Addr)
		for o := range targets {
			s.addWrite(o, tag, s.where(in)+" store", "", true)
		}
		if ptrLike(in.Val.Type()) {
			var strong *Obj
			if a, ok := in.Addr.(*ssa.Alloc); ok {
				o := s.fresh(a, a.Type())
				strong = &o
			}
			s.storeInto(targets, s.P(in.Val), cs, strong)
		}
	case *ssa.MapUpdate:
		targets := s.P(in.Map)
		for o := range targets {
			s.addWrite(o, "[map]", s.where(in)+" map update", "", true)
		}
		v := ObjSet{}
		if ptrLike(in.Key.Type()) {
			v.addAll(s.P(in.Key))
		}
		if ptrLike(in.Value.Type()) {
			v.addAll(s.P(in.Value))
		}
		s.storeInto(targets, v, cs, nil)
	case *ssa.UnOp:
		if in.Op == token.MUL {
			if ptrLike(in.Type()) {
				// contents are kept per object, not per field: a loaded value cannot be an
				// object whose static type is of a different kind than the load's type
				// (a [][]int field of a struct that also holds an interface parameter)
				s.setP(in, s.typeFilter(s.contentsSet(s.P(in.X), cs), in.Type()))
			}
		} else if in.Op == token.ARROW {
			s.problem("channel receive at " + s.where(in))
		}
	case *ssa.FieldAddr:
		s.setP(in, s.P(in.X))
	case *ssa.Field:
		if ptrLike(in.Type()) {
			s.setP(in, s.P(in.X))
		}
	case *ssa.IndexAddr:
		s.setP(in, s.P(in.X))
	case *ssa.Index:
		if ptrLike(in.Type()) {
			// array value: inner pointers; (string/typeparam not pointer-like)
			s.setP(in, s.P(in.X))
		}
	case *ssa.Lookup:
		var r ObjSet
		if _, isMap := in.X.Type().Underlying().(*types.Map); isMap {
			r = s.contentsSet(s.P(in.X), cs)
		} else {
			r = ObjSet{}
		}
		if in.CommaOk {
			s.setTup(in, []ObjSet{r, {}})
		} else if ptrLike(in.Type()) {
			s.setP(in, r)
		}
	case *ssa.Slice:
		s.setP(in, s.P(in.X))
	case *ssa.Phi:
		vals, _ := s.ctx.PhiLiveEdges(in)
		if ptrLike(in.Type()) {
			for _, v := range vals {
				s.setP(in, s.P(v))
			}
		}
	case *ssa.MakeInterface:
		if ptrLike(in.X.Type()) {
			s.setP(in, s.P(in.X))
		}
	case *ssa.TypeAssert:
		if in.CommaOk {
			s.setTup(in, []ObjSet{s.P(in.X), {}})
		} else if ptrLike(in.Type()) {
			s.setP(in, s.P(in.X))
		}
	case *ssa.ChangeType, *ssa.ChangeInterface:
		v := in.(ssa.Value)
		var x ssa.Value
		if c, ok := in.(*ssa.ChangeType); ok {
			x = c.X
		} else {
			x = in.(*ssa.ChangeInterface).X
		}
		if ptrLike(v.Type()) {
			s.setP(v, s.P(x))
		}
	case *ssa.Convert:
		if ptrLike(in.Type()) {
			if _, isSlice := in.Type().Underlying().(*types.Slice); isSlice {
				if b, ok := in.X.Type().Underlying().(*types.Basic); ok && b.Info()&types.IsString != 0 {
					s.setP(in, setOf(s.fresh(in, in.Type())))
					break
				}
			}
			s.setP(in, s.P(in.X))
		}
	case *ssa.Extract:
		if ptrLike(in.Type()) {
			if t, ok := s.tup[in.Tuple]; ok && in.Index < len(t) {
				s.setP(in, t[in.Index])
			}
		}
	case *ssa.Range:
		s.setP(in, s.P(in.X))
	case *ssa.Next:
		c := ObjSet{}
		if !in.IsString {
			c = s.contentsSet(s.P(in.Iter), cs)
		}
		s.setTup(in, []ObjSet{{}, c, c})
	case *ssa.Return:
		for i, r := range in.Results {
			if !ptrLike(r.Type()) {
				continue
			}
			p := s.P(r)
			for o := range p {
				if s.sum.Returns[i].add(s.toSummaryObj(o)) {
					s.ch = true
				}
			}
			s.recordFresh(p)
		}
	case *ssa.Call:
		s.call(in, cs)
	case *ssa.Go, *ssa.Defer, *ssa.Send, *ssa.Select, *ssa.MakeChan, *ssa.RunDefers:
		s.problem(fmt.Sprintf("unsupported instruction %T at %s", in, s.where(in)))
	case *ssa.BinOp, *ssa.If, *ssa.Jump, *ssa.Panic, *ssa.DebugRef:
	default:
		s.problem(fmt.Sprintf("unknown instruction kind %T at %s", in, s.where(in)))
	}
}

func (s *fstate) setTup(v ssa.Value, t []ObjSet) {
	cur, ok := s.tup[v]
	if !ok {
		cur = make([]ObjSet, len(t))
		for i := range cur {
			cur[i] = ObjSet{}
		}
		s.tup[v] = cur
	}
	for i := range t {
		if i < len(cur) && cur[i].addAll(t[i]) {
			s.ch = true
		}
	}
}

func (s *fstate) setResult(call *ssa.Call, res []ObjSet) {
	sig := call.Call.Signature()
	n := sig.Results().Len()
	if n == 0 {
		return
	}
	if n == 1 {
		if ptrLike(call.Type()) && len(res) > 0 {
			s.setP(call, res[0])
		}
		return
	}
	s.setTup(call, res)
}

// applySummary maps a callee summary into this function at call site `at`.
// args: points-to of parameters followed by free variables (nil entries =
// unknown → Ext). fvKnown=false: effects on free variables are skipped
// (they were attributed where the closure was created).
func (s *fstate) applySummary(at ssa.Instruction, callee *ssa.Function, cal *Summary, args []ObjSet, cs map[Obj]ObjSet, np int, fvKnown bool, calleeName string) []ObjSet {
	mapObj := func(o Obj) (ObjSet, bool) {
		switch o.K {
		case KParam:
			if o.Idx >= np && !fvKnown {
				return setOf(extObj), false
			}
			var base ObjSet
			if o.Idx < len(args) && args[o.Idx] != nil {
				base = args[o.Idx]
			} else {
				base = setOf(extObj)
			}
			if !o.Deep {
				return base, true
			}
			return s.reachPlus(base, cs), true
		case KFresh:
			return setOf(Obj{K: KFresh, Site: at, T: o.T}), true
		}
		return setOf(o), true
	}
	mapSet := func(set ObjSet) ObjSet {
		r := ObjSet{}
		for o := range set {
			m, _ := mapObj(o)
			r.addAll(m)
		}
		return r
	}
	for k, wr := range cal.Writes {
		m, ok := mapObj(k.O)
		if !ok {
			continue
		}
		via := calleeName
		if wr.Via != "" {
			via += " > " + wr.Via
		}
		for o := range m {
			s.addWrite(o, k.Tag, wr.Origin, s.where(at)+" "+via, false)
		}
	}
	for tgt, src := range cal.Stores {
		m, ok := mapObj(tgt)
		if !ok {
			continue
		}
		s.storeInto(m, mapSet(src), cs, nil)
		// a closure storing into a captured cell makes that cell flow-insensitive
	}
	for fo, cont := range cal.FreshC {
		s.heapAdd(Obj{K: KFresh, Site: at, T: fo.T}, mapSet(cont))
	}
	for k, o := range cal.Nondet {
		if _, ok := s.sum.Nondet[k]; !ok {
			s.sum.Nondet[k] = o
			s.ch = true
		}
	}
	for p := range cal.Problems {
		if !s.sum.Problems[p] {
			s.sum.Problems[p] = true
			s.ch = true
		}
	}
	res := make([]ObjSet, len(cal.Returns))
	for i, r := range cal.Returns {
		res[i] = mapSet(r)
	}
	return res
}

func (s *fstate) dep(callee *ssa.Function) *Summary {
	cs := s.e.state(callee)
	d := s.e.deps[callee]
	if d == nil {
		d = map[*ssa.Function]bool{}
		s.e.deps[callee] = d
	}
	d[s.fn] = true
	return cs.sum
}

// applyClosureAtCreation attributes the closure's effects on its free
// variables to the creating function (the closure may be called any number
// of times later, by the library or by the user).
func (s *fstate) applyClosureAtCreation(at *ssa.MakeClosure, cfn *ssa.Function, fv []ObjSet, cs map[Obj]ObjSet) {
	if !s.e.analyzable(cfn) {
		s.problem("closure without body: " + cfn.String())
		return
	}
	cal := s.dep(cfn)
	np := len(cfn.Params)
	// cells written by the closure become flow-insensitive
	for k := range cal.Writes {
		if k.O.K == KParam && k.O.Idx >= np && !k.O.Deep {
			if i := k.O.Idx - np; i < len(fv) {
				for o := range fv[i] {
					if isCell(o) && !s.fi[o] {
						s.fi[o] = true
						s.heapAdd(o, cs[o])
						s.ch = true
					}
				}
			}
		}
	}
	args := make([]ObjSet, np+len(fv))
	for i := 0; i < np; i++ {
		args[i] = ObjSet{} // own parameters unknown here: effects on them are judged at call sites / as entry
	}
	copy(args[np:], fv)
	// only free-variable effects: filter a copy of the summary
	f := &Summary{Writes: map[WKey]*WriteRec{}, Stores: map[Obj]ObjSet{}, FreshC: cal.FreshC, Nondet: cal.Nondet, Problems: cal.Problems, RetClos: cal.RetClos}
	for k, v := range cal.Writes {
		if k.O.K != KParam || k.O.Idx >= np {
			f.Writes[k] = v
		}
	}
	for k, v := range cal.Stores {
		if k.K != KParam || k.Idx >= np {
			f.Stores[k] = v
		}
	}
	s.applySummary(at, cfn, f, args, nil, np, true, s.e.W.FuncName(cfn)+"(closure)")
}

func (s *fstate) call(in *ssa.Call, cs map[Obj]ObjSet) {
	c := in.Common()
	w := s.e.W
	argsOf := func(vals []ssa.Value) []ObjSet {
		r := make([]ObjSet, len(vals))
		for i, v := range vals {
			if ptrLike(v.Type()) {
				r[i] = s.P(v)
			} else {
				r[i] = ObjSet{}
			}
		}
		return r
	}
	nres := c.Signature().Results().Len()
	union := func(acc, add []ObjSet) []ObjSet {
		if acc == nil {
			acc = make([]ObjSet, nres)
			for i := range acc {
				acc[i] = ObjSet{}
			}
		}
		for i := range add {
			if i < len(acc) {
				acc[i].addAll(add[i])
			}
		}
		return acc
	}
	if c.IsInvoke() {
		recv := s.P(c.Value)
		args := append([]ObjSet{recv}, argsOf(c.Args)...)
		var res []ObjSet
		callees := map[*ssa.Function]bool{}
		if iface, ok := c.Value.Type().Underlying().(*types.Interface); ok {
			for _, f := range w.Implementors(iface, c.Method.Name()) {
				callees[f] = true
			}
		}
		if n := w.CG.Nodes[s.fn]; n != nil {
			for _, e := range n.Out {
				if e.Site == in && e.Callee != nil {
					callees[e.Callee.Func] = true
				}
			}
		}
		for _, f := range sortedFuncs(callees) {
			if s.e.analyzable(f) {
				r := s.applySummary(in, f, s.dep(f), args, cs, len(f.Params), true, w.FuncName(f))
				res = union(res, r)
			} else if f.Blocks == nil || !w.ModFuncs[f] {
				// implementation outside the module (VTA): treat through the extern table when known
				if r, ok := s.extern(in, f, args, cs); ok {
					res = union(res, r)
				}
			}
		}
		// unknown implementation: pure; results lie within the receiver's memory
		unk := make([]ObjSet, nres)
		rs := s.reachStar(recv, cs)
		for i := range unk {
			unk[i] = rs
		}
		res = union(res, unk)
		s.setResult(in, res)
		return
	}
	if b, ok := c.Value.(*ssa.Builtin); ok {
		s.builtin(in, b, cs)
		return
	}
	if f := c.StaticCallee(); f != nil {
		args := argsOf(c.Args)
		if _, isClo := c.Value.(*ssa.MakeClosure); isClo {
			// immediately-invoked closure
			mc := c.Value.(*ssa.MakeClosure)
			for _, b := range mc.Bindings {
				args = append(args, s.P(b))
			}
		}
		if s.e.analyzable(f) {
			r := s.applySummary(in, f, s.dep(f), args, cs, len(f.Params), true, w.FuncName(f))
			s.setResult(in, r)
			return
		}
		if f.Synthetic == "package initializer" {
			return // initialisers of imported packages: outside the analysed API surface
		}
		r, ok := s.extern(in, f, args, cs)
		if !ok {
			s.problem(fmt.Sprintf("no summary for external callee %s at %s", f.String(), s.where(in)))
			r = make([]ObjSet, nres)
			for i := range r {
				r[i] = setOf(extObj)
			}
		}
		s.setResult(in, r)
		return
	}
	// call through a function value
	args := argsOf(c.Args)
	var res []ObjSet
	callees := map[*ssa.Function][]ObjSet{} // fn -> free var args (nil = unknown)
	unknown := false
	for o := range s.P(c.Value) {
		if f, ok := s.cloFn[o]; ok {
			var fv []ObjSet
			for _, b := range s.cloBnd[o] {
				fv = append(fv, s.P(b))
			}
			callees[f] = fv
		} else {
			unknown = true
		}
	}
	if len(s.P(c.Value)) == 0 {
		unknown = true
	}
	if n := w.CG.Nodes[s.fn]; n != nil {
		for _, e := range n.Out {
			if e.Site == in && e.Callee != nil {
				if _, ok := callees[e.Callee.Func]; !ok {
					callees[e.Callee.Func] = nil
				}
			}
		}
	}
	keys := map[*ssa.Function]bool{}
	for f := range callees {
		keys[f] = true
	}
	for _, f := range sortedFuncs(keys) {
		fv := callees[f]
		if !s.e.analyzable(f) {
			if r, ok := s.extern(in, f, args, cs); ok {
				res = union(res, r)
			} else {
				unknown = true
			}
			continue
		}
		np := len(f.Params)
		all := append(append([]ObjSet{}, args...), fv...)
		known := fv != nil || len(f.FreeVars) == 0
		if !known && f == s.fn {
			// self-recursion through a captured variable: same closure instance
			for i := range f.FreeVars {
				all = append(all, setOf(Obj{K: KParam, Idx: np + i}))
			}
			known = true
		}
		r := s.applySummary(in, f, s.dep(f), all, cs, np, known, w.FuncName(f))
		res = union(res, r)
	}
	if unknown {
		// user-supplied callee: assumed not to write what it is handed (A2); results unknown memory
		u := make([]ObjSet, nres)
		for i := range u {
			u[i] = setOf(extObj)
		}
		res = union(res, u)
	}
	s.setResult(in, res)
}

func sortedFuncs(m map[*ssa.Function]bool) []*ssa.Function {
	var out []*ssa.Function
	for f := range m {
		out = append(out, f)
	}
	sort.Slice(out, func(i, j int) bool { return out[i].String() < out[j].String() })
	return out
}

func isNilConst(v ssa.Value) bool {
	c, ok := v.(*ssa.Const)
	return ok && c.Value == nil
}

// sameLen: a and b are the same value or both len() of the same value.
func sameValueOrLen(a, b ssa.Value) bool {
	if a == b {
		return true
	}
	la, ok1 := a.(*ssa.Call)
	lb, ok2 := b.(*ssa.Call)
	if ok1 && ok2 {
		ba, ok3 := la.Call.Value.(*ssa.Builtin)
		bb, ok4 := lb.Call.Value.(*ssa.Builtin)
		if ok3 && ok4 && ba.Name() == "len" && bb.Name() == "len" && la.Call.Args[0] == lb.Call.Args[0] {
			return true
		}
	}
	return false
}

// appendCannotWriteInPlace: s is nil, or a three-index slice expression whose
// capacity equals its length (high == max).
func appendCannotWriteInPlace(v ssa.Value) bool {
	if isNilConst(v) {
		return true
	}
	if sl, ok := v.(*ssa.Slice); ok && sl.Max != nil && sl.High != nil && sameValueOrLen(sl.High, sl.Max) {
		return true
	}
	if ct, ok := v.(*ssa.ChangeType); ok {
		return appendCannotWriteInPlace(ct.X)
	}
	return false
}

func (s *fstate) builtin(in *ssa.Call, b *ssa.Builtin, cs map[Obj]ObjSet) {
	args := in.Call.Args
	switch b.Name() {
	case "append":
		base := s.P(args[0])
		fresh := s.fresh(in, in.Type())
		res := base.clone()
		res.add(fresh)
		if !appendCannotWriteInPlace(args[0]) {
			for o := range base {
				s.addWrite(o, "[append]", s.where(in)+" append (spare capacity)", "", true)
			}
		}
		elemPtr := false
		if st, ok := in.Type().Underlying().(*types.Slice); ok {
			elemPtr = ptrLike(st.Elem())
		}
		if elemPtr {
			s.heapAdd(fresh, s.contentsSet(base, cs))
		}
		if len(args) > 1 && elemPtr {
			if _, isSlice := args[1].Type().Underlying().(*types.Slice); isSlice {
				el := s.contentsSet(s.P(args[1]), cs)
				s.storeInto(res, el, cs, nil)
			}
		}
		s.setP(in, res)
	case "copy":
		dst := s.P(args[0])
		for o := range dst {
			s.addWrite(o, "[copy]", s.where(in)+" copy", "", true)
		}
		if st, isSlice := args[1].Type().Underlying().(*types.Slice); isSlice && ptrLike(st.Elem()) {
			s.storeInto(dst, s.contentsSet(s.P(args[1]), cs), cs, nil)
		}
	case "delete":
		for o := range s.P(args[0]) {
			s.addWrite(o, "[map]", s.where(in)+" delete", "", true)
		}
	case "clear":
		for o := range s.P(args[0]) {
			s.addWrite(o, "[clear]", s.where(in)+" clear", "", true)
		}
	case "len", "cap", "min", "max", "real", "imag", "complex", "print", "println", "panic":
	case "ssa:wrapnilchk":
		s.setP(in, s.P(args[0]))
	default:
		s.problem("unsupported builtin " + b.Name() + " at " + s.where(in))
	}
}

// ---- external summaries (closed table) ----

type externSpec struct {
	writes    []int // argument indices whose reachable memory is written
	aliasRet  []int // arguments whose memory the (fresh) result aliases
	retRecv   bool  // result is a view of argument 0 (aliases it)
	nondet    string
	callsArgs bool
}

var externTable = map[string]externSpec{
	"sort.Float64s": {writes: []int{0}}, "sort.Ints": {writes: []int{0}},
	"sort.Sort": {writes: []int{0}}, "sort.Stable": {writes: []int{0}},
	"sort.Search": {}, "sort.Float64sAreSorted": {}, "sort.SearchFloat64s": {}, "sort.SearchInts": {},
	"errors.New": {}, "strings.Join": {},
	"fmt.Sprintf": {}, "fmt.Sprint": {}, "fmt.Sprintln": {}, "fmt.Errorf": {},
	"fmt.Fprintf": {writes: []int{0}}, "fmt.Fprint": {writes: []int{0}}, "fmt.Fprintln": {writes: []int{0}},
	"fmt.Printf": {nondet: "stdout"}, "fmt.Println": {nondet: "stdout"}, "fmt.Print": {nondet: "stdout"},
	"(*strings.Builder).WriteString": {writes: []int{0}}, "(*strings.Builder).WriteByte": {writes: []int{0}},
	"(*strings.Builder).WriteRune": {writes: []int{0}}, "(*strings.Builder).Write": {writes: []int{0}},
	"(*strings.Builder).String": {}, "(*strings.Builder).Len": {},
	"(*math/rand.Rand).Float64": {writes: []int{0}}, "(*math/rand.Rand).NormFloat64": {writes: []int{0}},
	"(*math/rand.Rand).Intn": {writes: []int{0}}, "(*math/rand.Rand).Int": {writes: []int{0}},
	"math/rand.Float64": {nondet: "global-rand"}, "math/rand.NormFloat64": {nondet: "global-rand"},
	"math/rand.Intn": {nondet: "global-rand"}, "math/rand.Int": {nondet: "global-rand"},
	"gonum.org/v1/gonum/mat.NewDense":               {aliasRet: []int{2}},
	"gonum.org/v1/gonum/mat.NewVecDense":            {aliasRet: []int{1}},
	"gonum.org/v1/gonum/mat.DenseCopyOf":            {},
	"(*gonum.org/v1/gonum/mat.Dense).T":             {retRecv: true},
	"(*gonum.org/v1/gonum/mat.Dense).RowView":       {retRecv: true},
	"(*gonum.org/v1/gonum/mat.Dense).Mul":           {writes: []int{0}},
	"(*gonum.org/v1/gonum/mat.VecDense).MulVec":     {writes: []int{0}},
	"(*gonum.org/v1/gonum/mat.VecDense).MulElemVec": {writes: []int{0}},
	"(*gonum.org/v1/gonum/mat.VecDense).SolveVec":   {writes: []int{0}},
	"(*gonum.org/v1/gonum/mat.Dense).Solve":         {writes: []int{0}},
}

func externName(f *ssa.Function) string {
	return f.String()
}

func (s *fstate) extern(in *ssa.Call, f *ssa.Function, args []ObjSet, cs map[Obj]ObjSet) ([]ObjSet, bool) {
	name := externName(f)
	nres := f.Signature.Results().Len()
	spec, ok := externTable[name]
	if !ok {
		if strings.HasPrefix(name, "math.") || strings.HasPrefix(name, "math/bits.") {
			spec, ok = externSpec{}, true
		}
	}
	if !ok && strings.HasPrefix(name, "slices.") {
		// package slices (generic: the name carries the type arguments)
		base := name
		if i := strings.Index(base, "["); i >= 0 {
			base = base[:i]
		}
		switch base {
		case "slices.Sort", "slices.Reverse":
			spec, ok = externSpec{writes: []int{0}}, true
		case "slices.Contains", "slices.Index", "slices.Max", "slices.Min", "slices.Equal", "slices.IsSorted", "slices.BinarySearch":
			spec, ok = externSpec{}, true
		case "slices.IndexFunc", "slices.ContainsFunc":
			spec, ok = externSpec{callsArgs: true}, true
		case "slices.Clip":
			spec, ok = externSpec{retRecv: true}, true
		case "slices.Clone":
			// a fresh backing array; its elements are copies of the argument's (what they point
			// to, if anything, is shared)
			spec, ok = externSpec{}, true
			if len(in.Call.Args) == 1 {
				if st, isS := in.Call.Args[0].Type().Underlying().(*types.Slice); isS && ptrLike(st.Elem()) {
					spec = externSpec{aliasRet: []int{0}}
				}
			}
		}
	}
	if !ok && name == "sort.IsSorted" && len(in.Call.Args) == 1 {
		// read-only when the argument is one of package sort's own slice adapters (their Len and
		// Less only read); for any other implementation the callee's methods are not summarised
		if mi, isMI := in.Call.Args[0].(*ssa.MakeInterface); isMI {
			if nt, isN := mi.X.Type().(*types.Named); isN && nt.Obj().Pkg() != nil && nt.Obj().Pkg().Path() == "sort" {
				switch nt.Obj().Name() {
				case "Float64Slice", "IntSlice", "StringSlice":
					spec, ok = externSpec{}, true
				}
			}
		}
	}
	if !ok {
		return nil, false
	}
	s.e.Stats.ExternUsed[name]++
	fresh := Obj{K: KFresh, Site: in, T: "extern " + name}
	for _, i := range spec.writes {
		if i < len(args) {
			for o := range s.reachStar(args[i], cs) {
				s.addWrite(o, "[*]", s.where(in)+" "+name, "", true)
			}
		}
	}
	for _, i := range spec.aliasRet {
		if i < len(args) {
			s.heapAdd(fresh, args[i])
		}
	}
	if spec.retRecv && len(args) > 0 {
		s.heapAdd(fresh, s.reachStar(args[0], cs))
	}
	if spec.nondet != "" {
		k := spec.nondet
		if _, ok := s.sum.Nondet[k+"@"+s.where(in)]; !ok {
			s.sum.Nondet[k+"@"+s.where(in)] = s.e.W.FuncName(s.fn)
			s.ch = true
		}
	}
	res := make([]ObjSet, nres)
	for i := range res {
		res[i] = setOf(fresh)
	}
	return res, true
}
