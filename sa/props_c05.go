package main

import (
	"go/types"
	"strings"

	"golang.org/x/tools/go/ssa"
)

func init() {
	propFuncs["C05"] = propC05
	propInfos["C05"] = &PropInfo{
		Level:   "other",
		Explain: "Structural necessary conditions decided statically (DESIGN.md §5 C05) — the formulas, not their accuracy: NormalDist.PDF = exp(-(x-Mu)^2/(2 Sigma^2))/(sqrt(2pi) Sigma) with the constant within tolerance of 1/sqrt(2pi), CDF = erfc(-(x-Mu)/(Sigma sqrt2))/2, Mean, Variance, Bounds = Mu -/+ 3 Sigma, Rand = N*Sigma+Mu with N drawn from the supplied source; InvCDF: argument decision list (NaN outside [0,1], -inf at 0, +inf at 1), region selection by plow/1-plow, the three rational approximations equal Acklam's published polynomials as polynomials (Horner vs expanded form irrelevant), one Halley refinement step, scaling by Sigma and Mu; sibling agreement pdfEach[i] = PDF(xs[i]), cdfEach[i] = CDF(xs[i]) on both the general and the standard-normal fast path, and for DeltaDist; DeltaDist step function and quantile; the signatures stats.InvCDF / stats.Rand dispatch on. TDist formulas are decided under C04.",
		Assume:  []string{"A4 reals"},
		Undec:   []string{"monotonicity, limits, 1e-9 agreement with a reference", "integral of PDF = difference of CDF for the normal and t (needs d/dx erfc and of the incomplete beta)"},
	}
}

func propC05(a *Analysis, r *Registry) {
	b := NewB(a, r)
	X := b.X
	S := X.S
	const rB = "B-C05 formula"
	pdf := "exp(-(x-n.Mu)*(x-n.Mu)/(2*n.Sigma*n.Sigma))*0.3989422804014327/n.Sigma"
	cdf := "erfc(-(x-n.Mu)/(n.Sigma*1.4142135623730951))/2"
	b.Formula(rB, "stats.(NormalDist).PDF", "stats.(NormalDist).PDF", []string{"n", "x"}, nil, 0, pdf, nil)
	b.Formula(rB, "stats.(NormalDist).CDF", "stats.(NormalDist).CDF", []string{"n", "x"}, nil, 0, cdf, nil)
	b.Formula(rB, "stats.(NormalDist).Mean", "stats.(NormalDist).Mean", []string{"n"}, nil, 0, "n.Mu", nil)
	b.Formula(rB, "stats.(NormalDist).Variance", "stats.(NormalDist).Variance", []string{"n"}, nil, 0, "n.Sigma*n.Sigma", nil)
	b.Formula(rB, "stats.(NormalDist).Bounds/lo", "stats.(NormalDist).Bounds", []string{"n"}, nil, 0, "n.Mu-3*n.Sigma", nil)
	b.Formula(rB, "stats.(NormalDist).Bounds/hi", "stats.(NormalDist).Bounds", []string{"n"}, nil, 1, "n.Mu+3*n.Sigma", nil)
	// the constant
	if c, ok := a.W.Lib["stats"].Members["invSqrt2Pi"].(*ssa.NamedConst); ok {
		env := X.NewEnv(a.W.Lib["stats"])
		v := env.MustParse("stats.invSqrt2Pi")
		w := env.MustParse("1/sqrt(2*3.141592653589793)")
		_ = w
		exact := S.Float(0.3989422804014326779399460599343818684758586311649)
		if v.Equal(exact) {
			r.OK(rB, "stats.invSqrt2Pi", a.W.Pos(c.Pos()), "constant equals 1/sqrt(2*pi) to float64 precision")
		} else {
			r.Fail(rB, "stats.invSqrt2Pi", a.W.Pos(c.Pos()), "constant differs from 1/sqrt(2*pi): "+v.String())
		}
	} else {
		r.Undecided(rB, "stats.invSqrt2Pi", "", "constant not found")
	}
	// Rand
	if fn := b.Fn(rB, "stats.(NormalDist).Rand"); fn != nil {
		for _, nilSrc := range []bool{true, false} {
			nilSrc := nilSrc
			name := "stats.(NormalDist).Rand/" + map[bool]string{true: "r==nil", false: "r!=nil"}[nilSrc]
			b.guard(rB, name, func() {
				env := X.EnvFor(fn, "n", "r")
				fc := X.Under(fn, X.AssumeCond(env.MustParse("r==nil"), nilSrc))
				sp := "r.NormFloat64()*n.Sigma+n.Mu"
				if nilSrc {
					sp = "rawcall_NormFloat64()*n.Sigma+n.Mu"
				}
				rv := fc.Sub(fc.RetVal(0))
				if nilSrc {
					at := FindFn(rv, "math/rand.NormFloat64")
					if len(at) != 1 {
						r.Fail(rB, name, b.pos(fn), "with a nil source the draw is not rand.NormFloat64(): "+clip(rv.String(), 200))
						return
					}
					env.Set("N", S.atomRF(at[0].ID), nil)
					b.Eq(rB, name, b.pos(fn), rv, env, "N*n.Sigma+n.Mu")
					return
				}
				_ = sp
				at := FindFn(rv, "call:NormFloat64")
				if len(at) != 1 || !at[0].Args[0].Equal(env.Vars["r"].RF) {
					r.Fail(rB, name, b.pos(fn), "the draw does not come from the supplied source: "+clip(rv.String(), 200))
					return
				}
				env.Set("N", S.atomRF(at[0].ID), nil)
				b.Eq(rB, name, b.pos(fn), rv, env, "N*n.Sigma+n.Mu")
			})
		}
	}
	// InvCDF (Acklam)
	horner := func(cs []string, v string) string {
		s := cs[0]
		for _, c := range cs[1:] {
			s = "(" + s + ")*" + v + "+" + c
		}
		return "(" + s + ")"
	}
	A := []string{"-3.969683028665376e+01", "2.209460984245205e+02", "-2.759285104469687e+02", "1.383577518672690e+02", "-3.066479806614716e+01", "2.506628277459239e+00"}
	B := []string{"-5.447609879822406e+01", "1.615858368580409e+02", "-1.556989798598866e+02", "6.680131188771972e+01", "-1.328068155288572e+01", "1"}
	C := []string{"-7.784894002430293e-03", "-3.223964580411365e-01", "-2.400758277161838e+00", "-2.549732539343734e+00", "4.374664141464968e+00", "2.938163982698783e+00"}
	D := []string{"7.784695709041462e-03", "3.224671290700398e-01", "2.445134137142996e+00", "3.754408661907416e+00", "1"}
	tail := func(q string) string { return horner(C, q) + "/" + horner(D, q) }
	lets := [][2]string{
		{"ql", "sqrt(-2*log(p))"}, {"qu", "sqrt(-2*log(1-p))"}, {"qc", "p-0.5"},
		{"x0", "ite(p<0.02425, " + tail("ql") + ", ite(1-0.02425<p, -" + tail("qu") + ", " + horner(A, "(qc*qc)") + "*qc/" + horner(B, "(qc*qc)") + "))"},
		{"e", "0.5*erfc(-x0/1.4142135623730951)-p"},
		{"u", "e*sqrt(2*3.141592653589793)*exp(x0*x0/2)"},
		{"x1", "x0-u/(1+x0*u/2)"},
	}
	b.Formula(rB, "stats.(NormalDist).InvCDF", "stats.(NormalDist).InvCDF", []string{"n", "p"}, lets, 0,
		"ite(p<0 || 1<p, stats.nan, ite(p==0, -stats.inf, ite(p==1, stats.inf, x1*n.Sigma+n.Mu)))", nil)

	// pdfEach / cdfEach siblings
	sibling := func(typ, each, singleName string, regimes map[string]func(env *SpecEnv) []Assumption) {
		fe, fs := b.Fn(rB, "stats.("+typ+")."+each), b.Fn(rB, "stats.("+typ+")."+singleName)
		if fe == nil || fs == nil {
			return
		}
		for rn, mk := range regimes {
			rn, mk := rn, mk
			construct := "stats.(" + typ + ")." + each + "[i]≡" + singleName + "(xs[i])/" + rn
			b.guard("B-C05 siblings", construct, func() {
				env := X.EnvFor(fe, "d", "xs")
				var as []Assumption
				if mk != nil {
					as = mk(env)
				}
				fc := X.Under(fe, as...)
				if len(as) == 0 {
					fc = X.FCFor(fe)
				}
				sfc := X.FCFor(fs)
				singleRV := sfc.RetVal(0)
				// how each element of the returned slice is defined (indexed stores on any
				// branch, in this method or a helper it fills the slice with; or appends)
				defs, why := fc.ElementDefs(fc.RetVal(0))
				if len(defs) == 0 {
					r.Fail("B-C05 siblings", construct, b.pos(fe), "no per-element definition of the result on this path: "+why)
					return
				}
				for _, df := range defs {
					elem := S.MakeFn("idx", env.Vars["xs"].RF, df.Index)
					want := singleRV.Subst(map[AtomID]*RF{
						X.ParamRF(fs, 0).SingleAtom().ID: X.ParamRF(fe, 0),
						X.ParamRF(fs, 1).SingleAtom().ID: elem,
					})
					want = X.SimplifyUnder(want, as)
					got := fc.Sub(df.Value)
					b.EqRF("B-C05 siblings", construct, df.Where, got, want, each+"[i] equals "+singleName+"(xs[i])")
				}
			})
		}
	}
	general := func(env *SpecEnv) []Assumption {
		return []Assumption{X.AssumeCond(env.MustParse("d.Mu==0 && d.Sigma==1"), false), X.AssumeCond(env.MustParse("d.Mu==0"), false)}
	}
	std := func(env *SpecEnv) []Assumption {
		return []Assumption{X.AssumeEq(env.MustParse("d.Mu"), S.Int(0)), X.AssumeEq(env.MustParse("d.Sigma"), S.Int(1))}
	}
	sibling("NormalDist", "pdfEach", "PDF", map[string]func(env *SpecEnv) []Assumption{"general": general, "standard-normal": std})
	sibling("NormalDist", "cdfEach", "CDF", map[string]func(env *SpecEnv) []Assumption{"all": nil})
	sibling("DeltaDist", "pdfEach", "PDF", map[string]func(env *SpecEnv) []Assumption{"all": nil})
	sibling("DeltaDist", "cdfEach", "CDF", map[string]func(env *SpecEnv) []Assumption{"all": nil})
	// Student-t (the same formula obligations as under C04: this property quantifies over TDist as well)
	b.TDistCDF(rB)
	b.Formula(rB, "stats.(TDist).PDF", "stats.(TDist).PDF", []string{"t", "x"}, nil, 0,
		"exp(lgamma((t.V+1)/2)-lgamma(t.V/2))/sqrt(t.V*3.141592653589793)*pow(1+x*x/t.V, -(t.V+1)/2)", nil)
	// DeltaDist
	b.Formula(rB, "stats.(DeltaDist).CDF", "stats.(DeltaDist).CDF", []string{"d", "x"}, nil, 0, "ite(d.T<=x, 1, 0)", nil)
	b.Formula(rB, "stats.(DeltaDist).PDF", "stats.(DeltaDist).PDF", []string{"d", "x"}, nil, 0, "ite(x==d.T, stats.inf, 0)", nil)
	b.Formula(rB, "stats.(DeltaDist).InvCDF", "stats.(DeltaDist).InvCDF", []string{"d", "y"}, nil, 0, "ite(y<0 || 1<y, stats.nan, d.T)", nil)
	// signatures the generic InvCDF / Rand dispatch on
	sigs := []struct{ typ, method, sig string }{
		{"NormalDist", "InvCDF", "func(float64) float64"}, {"DeltaDist", "InvCDF", "func(float64) float64"},
		{"NormalDist", "Rand", "func(*rand.Rand) float64"},
	}
	for _, sg := range sigs {
		m := a.W.Lib["stats"].Members[sg.typ]
		if m == nil {
			r.Undecided("C-signature", sg.typ, "", "type not found")
			continue
		}
		obj, _, _ := types.LookupFieldOrMethod(m.Type(), true, a.W.Lib["stats"].Pkg, sg.method)
		f, ok := obj.(*types.Func)
		if !ok {
			r.Fail("C-signature", sg.typ+"."+sg.method, "", "method missing: the generic dispatch silently falls back to the numeric path")
			continue
		}
		got := types.TypeString(f.Type().(*types.Signature), func(p *types.Package) string { return p.Name() })
		got = strings.ReplaceAll(got, "func(p float64) (x float64)", "func(float64) float64")
		norm := func(s string) string {
			s = strings.ReplaceAll(s, "(x float64)", "float64")
			for _, nm := range []string{"p ", "y ", "r ", "x "} {
				s = strings.ReplaceAll(s, "("+nm, "(")
			}
			return s
		}
		if norm(got) == sg.sig {
			r.OK("C-signature", sg.typ+"."+sg.method, a.W.Pos(f.Pos()), "signature "+sg.sig+" matches the interface the generic function dispatches on")
		} else {
			r.Fail("C-signature", sg.typ+"."+sg.method, a.W.Pos(f.Pos()), "signature is "+got+", dispatch needs "+sg.sig)
		}
	}
}

// loopBodyEntry: the header of the innermost loop containing blk (or the entry block).
func loopBodyEntry(fc *FC, blk *ssa.BasicBlock) *ssa.BasicBlock {
	if l := fc.Ctx.LoopOf(blk); l != nil {
		for _, sc := range fc.Ctx.LiveSuccs(l.Header) {
			if l.Body[sc.Index] && fc.Ctx.Dominates(sc, blk) {
				return sc
			}
		}
		return l.Header
	}
	return fc.Fn.Blocks[0]
}
