package main

import (
	"fmt"
	"math/big"
	"os"
	"strings"

	"golang.org/x/tools/go/ssa"
)

func init() {
	propFuncs["C12"] = propC12
	propInfos["C12"] = &PropInfo{
		Level:   "other",
		Explain: "Structural necessary conditions decided statically (DESIGN.md §5 C12): engine A — PDF, CDF, Bounds write the receiver's Bandwidth and nothing else, normalizedXs returns fresh memory; the lazy default (Bandwidth==0 → BandwidthScott(Sample), else unchanged); the kernel switch is exhaustive with a panicking default and builds epanechnikovKernel{h}, NormalDist{0,h}, DeltaDist{0}; boundary decision lists of PDF and CDF; the weighted kernel average y(x) = Sum(w·K(x-Xs))/Weight with pdfEach in PDF and cdfEach in CDF (sibling agreement); PDF is the derivative of CDF image by image: for each boundary branch the kernel evaluation points are extracted as affine forms a·x+b with their signs and {(arg, s)}_CDF differentiated ↦ {(arg, s·a)} must equal {(arg, s)}_PDF (including the two image series of the doubly-bounded case with d=2(Max-Min), w=2(x-Min)); Epanechnikov pdf/cdf formulas and d/dx cdf = pdf by polynomial differentiation; BandwidthSilverman/Scott formulas; Bounds' bisection targets 0.005/0.995 on the same bracket, 10% margins and clipping. Added after the mutation sweep: CDF's constant term per boundary branch (0; 1 for the upper-bound-only reflection) and Bounds' bracket expansion (low end down while 0.005 < CDF, high end up while CDF < 0.995, by the current width).",
		Assume:  []string{"A4 reals", "A2"},
		Undec:   []string{"non-negativity/monotonicity of the computed values", "total mass 1 (convergence of series)", "the 98% content of Bounds", "termination of the bracket expansion"},
	}
}

type image struct {
	arg  *RF
	coef *big.Rat
}

// images decomposes v = Σ c_k·apply(y, arg_k) + rest.
func images(v *RF) ([]image, *RF, bool) {
	terms, rest, ok := v.LinearIn("apply")
	if !ok {
		return nil, nil, false
	}
	var out []image
	for id, c := range terms {
		at := v.S.atoms[id]
		if len(at.Args) != 2 {
			return nil, nil, false
		}
		out = append(out, image{at.Args[1], c})
	}
	return out, rest, true
}

func matchImages(got, want []image) string {
	used := make([]bool, len(got))
	for _, w := range want {
		found := false
		for i, g := range got {
			if !used[i] && g.arg.Equal(w.arg) && g.coef.Cmp(w.coef) == 0 {
				used[i] = true
				found = true
				break
			}
		}
		if !found {
			return fmt.Sprintf("the derivative of CDF needs the term %s·y(%s), which PDF does not have", w.coef.RatString(), clip(w.arg.String(), 200))
		}
	}
	for i, g := range got {
		if !used[i] {
			return fmt.Sprintf("PDF has the extra term %s·y(%s)", g.coef.RatString(), clip(g.arg.String(), 200))
		}
	}
	return ""
}

func propC12(a *Analysis, r *Registry) {
	b := NewB(a, r)
	X := b.X
	S := X.S
	const rB = "B-C12 formula"
	X.NoInline["stats.series"] = true
	X.BenignWriteTags["stats.KDE.Bandwidth"] = true // the idempotent lazy fill; every reader goes through prepare()
	X.NoInline["stats.(*KDE).PDF$1"] = true
	X.NoInline["stats.(*KDE).CDF$1"] = true
	// bisect (the root finder behind Bounds): decision list before the loop, the bracket
	// recurrences, and the two ways out of the loop — |f(mid)| <= tolerance gives (mid, true);
	// otherwise a bracket that cannot shrink (mid equal to an end) gives (mid, false)
	if fn := b.Fn(rB, "stats.bisect"); fn != nil {
		name := "stats.bisect"
		b.guard(rB, name, func() {
			fc := X.FCFor(fn)
			env := X.EnvFor(fn, "f", "low0", "high0", "tol")
			band := func(v string) string { return "(-tol<=" + v + " && " + v + "<=tol)" }
			// before the loop
			c1 := env.MustParse(band("f(low0)"))
			c2 := env.MustParse(band("f(high0)"))
			fcA := X.Under(fn, X.AssumeCond(c1, true))
			b.EqUnder(rB, name+"/root-at-low", b.pos(fn), fcA, fcA.RetVal(0), env, "low0")
			b.EqRF(rB, name+"/root-at-low/ok", b.pos(fn), fcA.Sub(fcA.RetVal(1)), S.True(), "reports a root")
			fcB := X.Under(fn, X.AssumeCond(c1, false), X.AssumeCond(c2, true))
			b.EqUnder(rB, name+"/root-at-high", b.pos(fn), fcB, fcB.RetVal(0), env, "high0")
			b.EqRF(rB, name+"/root-at-high/ok", b.pos(fn), fcB.Sub(fcB.RetVal(1)), S.True(), "reports a root")
			loops := fc.Ctx.Loops()
			if len(loops) != 1 {
				r.Fail(rB, name+"/loop", b.pos(fn), "expected one bisection loop")
				return
			}
			// with neither end a root nothing is returned before the loop, and an interval whose
			// ends have the same sign is rejected (panic) rather than bisected
			func() {
				neither := []Assumption{{Cond: c1, True: false}, {Cond: c2, True: false}}
				early := ""
				for _, rt := range fc.Ctx.Returns() {
					if loops[0].Body[rt.Block().Index] || fc.Ctx.Dominates(loops[0].Header, rt.Block()) {
						continue
					}
					rc := fc.ReachCond(rt.Block())
					if X.EvalCond(rc, neither) != False {
						early = a.W.InstrPos(rt)
					}
				}
				if early == "" {
					r.OK(rB, name+"/no-early-result", b.pos(fn), "with neither end within the tolerance no result is returned before the bisection")
				} else {
					r.Fail(rB, name+"/no-early-result", early, "a result can be returned before the bisection although neither end is within the tolerance")
				}
				sameSign := env.MustParse("mathx.Sign(f(low0))==mathx.Sign(f(high0))")
				nPanic := 0
				fc.Ctx.Instrs(func(in ssa.Instruction) {
					pn, ok := in.(*ssa.Panic)
					if !ok || loops[0].Body[pn.Block().Index] || fc.Ctx.Dominates(loops[0].Header, pn.Block()) {
						return
					}
					nPanic++
					rc := fc.ReachCond(pn.Block())
					same := append(append([]Assumption{}, neither...), Assumption{Cond: sameSign, True: true})
					diff := append(append([]Assumption{}, neither...), Assumption{Cond: sameSign, True: false})
					want := S.And(S.And(S.Not(c1), S.Not(c2)), sameSign)
					if (X.EvalCond(rc, same) == True && X.EvalCond(rc, diff) == False) || rc.Equal(want) || X.EquivByCases(rc, want, 0) {
						r.OK(rB, name+"/unbracketed-panics", a.W.InstrPos(pn), "with neither end a root: panic exactly when the ends have the same sign")
					} else {
						r.Fail(rB, name+"/unbracketed-panics", a.W.InstrPos(pn), "the interval is not rejected exactly when its ends have the same sign: panics when "+clip(rc.String(), 200))
					}
				})
				if nPanic == 0 {
					r.Fail(rB, name+"/unbracketed-panics", b.pos(fn), "no rejection of an interval that does not bracket a root")
				}
			}()
			_ = loops[0].Header
			type out struct{ cond, val *RF }
			byOK := map[bool]*out{}
			outcomes, msg := b.LoopOutcomes(fc, loops[0])
			if msg != "" {
				r.Undecided(rB, name+"/exits", b.pos(fn), msg)
				return
			}
			var split []LoopOutcome
			for _, o := range outcomes {
				split = append(split, b.SplitOutcome(o, 1)...)
			}
			for _, o := range split {
				at := o.Val.SingleAtom()
				if at == nil || at.Name != "tuple" || len(at.Args) != 2 || !(at.Args[1].Equal(S.True()) || at.Args[1].Equal(S.False())) {
					r.Fail(rB, name+"/exits", b.pos(fn), "the loop is left with a result that is not (x, true) or (x, false): "+clip(o.Val.String(), 200))
					return
				}
				ok := at.Args[1].Equal(S.True())
				if cur := byOK[ok]; cur == nil {
					byOK[ok] = &out{o.Cond, at.Args[0]}
				} else {
					if !cur.val.Equal(at.Args[0]) {
						r.Fail(rB, name+"/exits", b.pos(fn), "two ways out with the same verdict return different points")
						return
					}
					cur.cond = S.Or(cur.cond, o.Cond)
				}
			}
			if byOK[true] == nil || byOK[false] == nil {
				r.Fail(rB, name+"/exits", b.pos(fn), "the loop needs a converged exit (x, true) and a stuck-bracket exit (x, false)")
				return
			}
			mid := "((high+low)/2)"
			same := "mathx.Sign(f(" + mid + "))==mathx.Sign(flow)"
			var vars map[string]*RF
			b.AnyOf(func() {
				vars = b.LoopSystem(rB, name+"/recurrences", b.pos(fn), fc, byOK[true].val, env, []recSpec{
					{"low", "low0", "ite(" + same + ", " + mid + ", low)"},
					{"high", "high0", "ite(" + same + ", high, " + mid + ")"},
					{"flow", "f(low0)", "ite(" + same + ", f(" + mid + "), flow)"},
				})
			}, func() {
				same0 := "mathx.Sign(f(" + mid + "))==mathx.Sign(f(low0))"
				vars = b.LoopSystem(rB, name+"/recurrences", b.pos(fn), fc, byOK[true].val, env, []recSpec{
					{"low", "low0", "ite(" + same0 + ", " + mid + ", low)"},
					{"high", "high0", "ite(" + same0 + ", high, " + mid + ")"},
				})
			})
			if vars == nil {
				return
			}
			for k, v := range vars {
				env.Set(k, v, nil)
			}
			b.Eq(rB, name+"/converged/point", b.pos(fn), byOK[true].val, env, mid)
			b.Eq(rB, name+"/converged/when", b.pos(fn), byOK[true].cond, env, band("f("+mid+")"))
			b.Eq(rB, name+"/stuck/point", b.pos(fn), byOK[false].val, env, mid)
			b.Eq(rB, name+"/stuck/when", b.pos(fn), byOK[false].cond, env, "!"+band("f("+mid+")")+" && ("+mid+"==high || "+mid+"==low)")
		})
	}
	for _, n := range []string{"stats.(*KDE).PDF", "stats.(*KDE).CDF", "stats.(*KDE).Bounds"} {
		if fn := b.Fn("A-1 no-mutation", n); fn != nil {
			a.CheckNoMutation(r, "A-1 no-mutation", fn, nil)
		}
	}
	a.CheckFresh(r, "A-3 fresh-result", "stats.(*KDE).normalizedXs", 0)
	// prepare
	if fn := b.Fn(rB, "stats.(*KDE).prepare"); fn != nil {
		name := "stats.(*KDE).prepare"
		b.guard(rB, name, func() {
			fc := X.FCFor(fn)
			env := X.EnvFor(fn, "k")
			env.Let("h", "ite(k.Bandwidth==0, BandwidthScott(k.Sample), k.Bandwidth)")
			b.Eq(rB, name+"/lazy-bandwidth", b.pos(fn), fc.FieldAtExit(0, "Bandwidth"), env, "h")
			// (compared for the three declared kernels: any other value panics — the exhaustiveness
			// obligation below — so in which order the cases are tested does not matter)
			kspec := "ite(k.Kernel==stats.EpanechnikovKernel, epanechnikovKernel(h), ite(k.Kernel==stats.GaussianKernel, NormalDist(0,h), DeltaDist(0)))"
			if got, want := fc.RetVal(0), env.MustParse(kspec); got.Equal(want) || X.EquivByCases(got, want, 0) {
				r.OK(rB, name+"/kernel", b.pos(fn), "≡ "+kspec)
			} else {
				declared := env.MustParse("k.Kernel==stats.EpanechnikovKernel || k.Kernel==stats.GaussianKernel || k.Kernel==stats.DeltaKernel")
				okAll := true
				for _, kn := range []string{"stats.EpanechnikovKernel", "stats.GaussianKernel", "stats.DeltaKernel"} {
					as := []Assumption{X.AssumeEq(env.MustParse("k.Kernel"), env.MustParse(kn))}
					g, w := X.SimplifyUnder(got, as), X.SimplifyUnder(want, as)
					if !(g.Equal(w) || X.EquivByCases(g, w, 0)) {
						okAll = false
					}
				}
				_ = declared
				if okAll {
					r.OK(rB, name+"/kernel", b.pos(fn), "≡ "+kspec+" for each declared kernel")
				} else {
					b.Eq(rB, name+"/kernel", b.pos(fn), got, env, kspec)
				}
			}
			b.Eq(rB, name+"/bc", b.pos(fn), fc.RetVal(1), env, "k.BoundaryMin!=0 || k.BoundaryMax!=0")
			if kv, err := env.Parse("k.Kernel"); err == nil {
				b.switchExhaustiveOn("C-exhaustive", name+"/switch(Kernel)", fc, kv.RF, kv.T)
			}
		})
	}
	// y(x): the weighted kernel average, and normalizedXs
	for _, m := range [][2]string{{"PDF", "pdfEach"}, {"CDF", "cdfEach"}} {
		m := m
		fn := b.Fn(rB, "stats.(*KDE)."+m[0]+"$1")
		parent := a.W.Fn("stats.(*KDE)." + m[0])
		if fn == nil || parent == nil {
			continue
		}
		b.guard(rB, "stats.(*KDE)."+m[0]+"/kernel-average", func() {
			env := X.EnvFor(fn, "x")
			env.Set("kde", X.ParamRF(parent, 0), parent.Params[0].Type())
			env.Let("kernel", "kde.prepare()#0")
			pfc := X.FCFor(parent)
			call := pfc.TheCallTo("stats.(*KDE).prepare")
			_ = call
			// kernel is an interface value: method calls are invokes
			env.Set("ys", X.Invoke(m[1], env.Vars["kernel"].RF, env.MustParse("kde.normalizedXs(x)")), nil)
			env.Let("wys", "Sample(ys, kde.Sample.Weights, false)")
			b.Eq(rB, "stats.(*KDE)."+m[0]+"/kernel-average", b.pos(fn), X.FCFor(fn).RetVal(0), env, "wys.Sum()/wys.Weight()")
		})
	}
	if fn := b.Fn(rB, "stats.(*KDE).normalizedXs"); fn != nil {
		b.guard(rB, "stats.(*KDE).normalizedXs", func() {
			fc := X.FCFor(fn)
			env := X.EnvFor(fn, "kde", "x")
			n := 0
			fc.Ctx.Instrs(func(in ssa.Instruction) {
				st, ok := in.(*ssa.Store)
				if !ok {
					return
				}
				ia, ok := st.Addr.(*ssa.IndexAddr)
				if !ok {
					return
				}
				n++
				env.Set("i", fc.Val(ia.Index), nil)
				b.Eq(rB, "stats.(*KDE).normalizedXs/element", a.W.InstrPos(st), fc.Val(st.Val), env, "x-kde.Sample.Xs[i]")
				if at := fc.Val(ia.X).SingleAtom(); at != nil && strings.HasPrefix(at.Name, "makeslice:") {
					b.Eq(rB, "stats.(*KDE).normalizedXs/len", a.W.InstrPos(st), at.Args[0], env, "len(kde.Sample.Xs)")
				}
			})
			if n != 1 {
				r.Fail(rB, "stats.(*KDE).normalizedXs/element", b.pos(fn), "expected one element store")
			}
		})
	}
	// boundary decision lists
	constRet := func(v string) func(rt *ssa.Return) bool {
		return func(rt *ssa.Return) bool {
			c, ok := rt.Results[0].(*ssa.Const)
			return ok && c.Value != nil && c.Value.ExactString() == v
		}
	}
	if fn := b.Fn("C-decision boundary", "stats.(*KDE).PDF"); fn != nil {
		b.guard("C-decision boundary", "stats.(*KDE).PDF", func() {
			fc := X.FCFor(fn)
			env := X.EnvFor(fn, "kde", "x")
			env.Let("bc", "kde.prepare()#1")
			z, n := fc.ReturnCond(constRet("0"))
			if n < 1 {
				r.Fail("C-decision boundary", "stats.(*KDE).PDF/returns-0", b.pos(fn), "expected a `return 0` outside the support")
				return
			}
			b.Eq("C-decision boundary", "stats.(*KDE).PDF/returns-0", b.pos(fn), z, env, "bc && (x<kde.BoundaryMin || kde.BoundaryMax<=x)")
		})
	}
	if fn := b.Fn("C-decision boundary", "stats.(*KDE).CDF"); fn != nil {
		b.guard("C-decision boundary", "stats.(*KDE).CDF", func() {
			fc := X.FCFor(fn)
			env := X.EnvFor(fn, "kde", "x")
			env.Let("bc", "kde.prepare()#1")
			z, n0 := fc.ReturnCond(constRet("0"))
			o, n1 := fc.ReturnCond(constRet("1"))
			if n0 < 1 || n1 < 1 {
				r.Fail("C-decision boundary", "stats.(*KDE).CDF", b.pos(fn), "expected `return 0` below and `return 1` above the support")
				return
			}
			b.Eq("C-decision boundary", "stats.(*KDE).CDF/returns-0", b.pos(fn), z, env, "bc && x<kde.BoundaryMin")
			b.Eq("C-decision boundary", "stats.(*KDE).CDF/returns-1", b.pos(fn), o, env, "bc && !(x<kde.BoundaryMin) && kde.BoundaryMax<=x")
		})
	}
	// PDF = d/dx CDF, image by image
	pdfFn, cdfFn := b.Fn("B-C12 derivative", "stats.(*KDE).PDF"), b.Fn("B-C12 derivative", "stats.(*KDE).CDF")
	if pdfFn != nil && cdfFn != nil {
		branches := []struct {
			name string
			mk   func(env *SpecEnv) []Assumption
		}{
			{"unbounded", func(env *SpecEnv) []Assumption {
				return []Assumption{X.AssumeEq(env.MustParse("kde.prepare()#1"), S.False())}
			}},
			{"lower-bound-only", func(env *SpecEnv) []Assumption {
				return []Assumption{X.AssumeEq(env.MustParse("kde.prepare()#1"), S.True()), X.AssumeEq(env.MustParse("kde.BoundaryMethod"), S.Int(0)),
					X.AssumeCond(env.MustParse("x<kde.BoundaryMin"), false), X.AssumeCond(env.MustParse("kde.BoundaryMax<=x"), false),
					X.AssumeEq(env.MustParse("isinf(kde.BoundaryMax, 1)"), S.True())}
			}},
			{"upper-bound-only", func(env *SpecEnv) []Assumption {
				return []Assumption{X.AssumeEq(env.MustParse("kde.prepare()#1"), S.True()), X.AssumeEq(env.MustParse("kde.BoundaryMethod"), S.Int(0)),
					X.AssumeCond(env.MustParse("x<kde.BoundaryMin"), false), X.AssumeCond(env.MustParse("kde.BoundaryMax<=x"), false),
					X.AssumeEq(env.MustParse("isinf(kde.BoundaryMax, 1)"), S.False()), X.AssumeEq(env.MustParse("isinf(kde.BoundaryMin, -1)"), S.True())}
			}},
			{"both-bounds", func(env *SpecEnv) []Assumption {
				return []Assumption{X.AssumeEq(env.MustParse("kde.prepare()#1"), S.True()), X.AssumeEq(env.MustParse("kde.BoundaryMethod"), S.Int(0)),
					X.AssumeCond(env.MustParse("x<kde.BoundaryMin"), false), X.AssumeCond(env.MustParse("kde.BoundaryMax<=x"), false),
					X.AssumeEq(env.MustParse("isinf(kde.BoundaryMax, 1)"), S.False()), X.AssumeEq(env.MustParse("isinf(kde.BoundaryMin, -1)"), S.False())}
			}},
		}
		common := S.Var("series-index", true)
		// collect images of method fn under a branch, with x and kde renamed to the PDF's atoms
		collect := func(fn *ssa.Function, mk func(env *SpecEnv) []Assumption) ([]image, *RF) {
			env := X.EnvFor(fn, "kde", "x")
			fc := X.Under(fn, mk(env)...)
			rv := fc.Sub(fc.RetVal(0))
			rename := map[AtomID]*RF{X.ParamRF(fn, 0).SingleAtom().ID: X.ParamRF(pdfFn, 0), X.ParamRF(fn, 1).SingleAtom().ID: X.ParamRF(pdfFn, 1)}
			// series(closure) atoms: replace by the closure's own images
			total := S.Int(0)
			terms, rest, ok := rv.LinearIn("stats.series")
			if !ok {
				anchorFail("%s: result is not a linear combination of image terms: %s", a.W.FuncName(fn), clip(rv.String(), 300))
			}
			total = total.Add(rest)
			for id, c := range terms {
				cl := S.atoms[id].Args[0].SingleAtom()
				mc, okc := X.cloFn[cl.ID]
				if !okc {
					anchorFail("series is not given a closure")
				}
				cf := mc.Fn.(*ssa.Function)
				cfc := X.FCFor(cf)
				cv := cfc.RetVal(0).Subst(map[AtomID]*RF{X.ParamRF(cf, 0).SingleAtom().ID: common})
				total = total.Add(S.Const(c).Mul(cv))
			}
			total = total.Subst(rename)
			im, rst, ok := images(total)
			if !ok {
				anchorFail("%s: not a linear combination of y(·) terms: %s", a.W.FuncName(fn), clip(total.String(), 300))
			}
			return im, rst
		}
		xid := X.ParamRF(pdfFn, 1).SingleAtom().ID
		for _, br := range branches {
			br := br
			construct := "PDF=dCDF/dx/" + br.name
			b.guard("B-C12 derivative", construct, func() {
				pim, prest := collect(pdfFn, br.mk)
				cim, crest := collect(cdfFn, br.mk)
				if _, isC := crest.IsConst(); !isC {
					r.Fail("B-C12 derivative", construct, b.pos(cdfFn), "CDF has a non-constant term outside the kernel images: "+clip(crest.String(), 200))
					return
				}
				if c, isC := prest.IsConst(); !isC || c.Sign() != 0 {
					r.Fail("B-C12 derivative", construct, b.pos(pdfFn), "PDF has a term outside the kernel images: "+clip(prest.String(), 200))
					return
				}
				// the derivative does not see CDF's constant of integration: it is fixed by the value
				// at an end of the support — the images cancel in pairs at x = BoundaryMin (giving 0)
				// and at x = BoundaryMax (giving the constant, which must be 1)
				wantC := int64(0)
				if br.name == "upper-bound-only" {
					wantC = 1
				}
				if cc, _ := crest.IsConst(); cc.Cmp(big.NewRat(wantC, 1)) != 0 {
					r.Fail("B-C12 derivative", construct+"/constant", b.pos(cdfFn), fmt.Sprintf("CDF's constant term is %s, not %d: the distribution function does not run from 0 to 1 over the support", cc.RatString(), wantC))
				} else {
					r.OK("B-C12 derivative", construct+"/constant", b.pos(cdfFn), fmt.Sprintf("CDF's constant term is %d", wantC))
				}
				var want []image
				for _, im := range cim {
					d, ok := im.arg.Deriv(xid)
					if !ok {
						r.Undecided("B-C12 derivative", construct, b.pos(cdfFn), "evaluation point is not a polynomial in x")
						return
					}
					dc, isC := d.IsConst()
					if !isC {
						r.Fail("B-C12 derivative", construct, b.pos(cdfFn), "evaluation point is not affine in x: "+clip(im.arg.String(), 200))
						return
					}
					want = append(want, image{im.arg, new(big.Rat).Mul(im.coef, dc)})
				}
				if msg := matchImages(pim, want); msg != "" {
					r.Fail("B-C12 derivative", construct, b.pos(pdfFn), msg)
				} else {
					r.OK("B-C12 derivative", construct, b.pos(pdfFn), fmt.Sprintf("%d kernel images: PDF terms equal the x-derivatives of the CDF terms", len(want)))
				}
				r.Count("kde_images_"+br.name, len(want))
			})
		}
		b.guard("C-exhaustive", "stats.(*KDE).PDF/switch(BoundaryMethod)", func() {
			for _, fn := range []*ssa.Function{pdfFn, cdfFn} {
				fc := X.FCFor(fn)
				env := X.EnvFor(fn, "kde", "x")
				if kv, err := env.Parse("kde.BoundaryMethod"); err == nil {
					b.switchExhaustiveOn("C-exhaustive", a.W.FuncName(fn)+"/switch(BoundaryMethod)", fc, kv.RF, kv.T)
				}
			}
		})
	}
	// Epanechnikov
	if pf, cf := b.Fn(rB, "stats.(epanechnikovKernel).pdfEach"), b.Fn(rB, "stats.(epanechnikovKernel).cdfEach"); pf != nil && cf != nil {
		elem := func(fn *ssa.Function) (*RF, *RF) {
			fc := X.FCFor(fn)
			env := X.EnvFor(fn, "d", "xs")
			total := S.Int(0)
			var xi *RF
			fc.Ctx.Instrs(func(in ssa.Instruction) {
				st, ok := in.(*ssa.Store)
				if !ok {
					return
				}
				ia, ok := st.Addr.(*ssa.IndexAddr)
				if !ok || !isFloatType(st.Val.Type()) {
					return
				}
				xi = S.MakeFn("idx", env.Vars["xs"].RF, fc.Val(ia.Index))
				rc := fc.ReachCondFrom(loopBodyEntry(fc, st.Block()), st.Block())
				total = S.Ite(rc, fc.Val(st.Val), total)
			})
			if xi == nil {
				anchorFail("no element store")
			}
			return total, xi
		}
		b.guard(rB, "epanechnikov", func() {
			pv, px := elem(pf)
			cv, cx := elem(cf)
			pe := X.EnvFor(pf, "d", "xs")
			pe.Set("x", px, nil)
			ce := X.EnvFor(cf, "d", "xs")
			ce.Set("x", cx, nil)
			b.Eq(rB, "stats.(epanechnikovKernel).pdfEach", b.pos(pf), pv, pe, "ite(-d.h<x && x<d.h, 0.75/d.h*(1-x*x/(d.h*d.h)), 0)")
			b.Eq(rB, "stats.(epanechnikovKernel).cdfEach", b.pos(cf), cv, ce, "ite(d.h<x, 1, ite(-d.h<x, 0.25*(2+3*(x/d.h)-(x/d.h)*(x/d.h)*(x/d.h)), 0))")
			// derivative inside the support
			inside := ce.MustParse("0.25*(2+3*(x/d.h)-(x/d.h)*(x/d.h)*(x/d.h))")
			cin := X.SimplifyUnder(cv, []Assumption{{Cond: ce.MustParse("d.h<x"), True: false}, {Cond: ce.MustParse("-d.h<x"), True: true}})
			if !cin.Equal(inside) {
				r.Fail("B-C12 derivative", "epanechnikov/d cdf = pdf", b.pos(cf), "cannot isolate the in-support branch of cdfEach")
				return
			}
			d, ok := cin.Deriv(cx.SingleAtom().ID)
			if !ok {
				r.Undecided("B-C12 derivative", "epanechnikov/d cdf = pdf", b.pos(cf), "cdf is not polynomial in x")
				return
			}
			pin := X.SimplifyUnder(pv, []Assumption{{Cond: pe.MustParse("-d.h<x && x<d.h"), True: true}, {Cond: pe.MustParse("-d.h<x"), True: true}, {Cond: pe.MustParse("x<d.h"), True: true}})
			pin = pin.Subst(map[AtomID]*RF{px.SingleAtom().ID: cx, X.ParamRF(pf, 0).SingleAtom().ID: X.ParamRF(cf, 0)})
			b.EqRF("B-C12 derivative", "epanechnikov/d cdf = pdf", b.pos(pf), pin, d, "inside the support d/dx cdf(x) ≡ pdf(x)")
		})
	}
	// series: the unbounded sum f(0)+f(1)+… until adding a term no longer changes it
	if fn := b.Fn(rB, "stats.series"); fn != nil {
		b.guard(rB, "stats.series", func() {
			fc := X.FCFor(fn)
			env := X.EnvFor(fn, "f")
			rv := fc.RetVal(0)
			if at := rv.SingleAtom(); at != nil && X.phiOf[at.ID] != nil {
				// while form: y, yp, n carried; runs while y != yp
				from := rv
				ph := X.phiOf[at.ID]
				if ifi, ok := ph.Block().Instrs[len(ph.Block().Instrs)-1].(*ssa.If); ok {
					from = S.MakeFn("tuple", rv, fc.Val(ifi.Cond))
				}
				vars := b.LoopSystem(rB, "stats.series/recurrences", b.pos(fn), fc, from, env, []recSpec{{"y", "0", "y+f(n)"}, {"yp", "1", "y"}, {"n", "0", "n+1"}})
				if vars == nil {
					return
				}
				for k, v := range vars {
					env.Set(k, v, nil)
				}
				b.EqRF(rB, "stats.series/result", b.pos(fn), rv, vars["y"], "returns the accumulated sum")
				hdr := X.phiOf[vars["y"].SingleAtom().ID].Block()
				var body *ssa.BasicBlock
				fc.Ctx.Instrs(func(in ssa.Instruction) {
					if c, ok := in.(*ssa.Call); ok && c.Call.StaticCallee() == nil && !c.Call.IsInvoke() {
						if _, isB := c.Call.Value.(*ssa.Builtin); !isB {
							body = c.Block()
						}
					}
				})
				if body == nil {
					r.Fail(rB, "stats.series/runs-until-converged", b.pos(fn), "the loop does not evaluate f")
				} else {
					b.Eq(rB, "stats.series/runs-until-converged", b.pos(fn), fc.ReachCondFrom(hdr, body), env, "y!=yp")
				}
			} else {
				// do-while form: y, n carried; returns y+f(n) as soon as it equals y
				vars := b.LoopSystem(rB, "stats.series/recurrences", b.pos(fn), fc, rv, env, []recSpec{{"y", "0", "y+f(n)"}, {"n", "0", "n+1"}})
				if vars == nil {
					return
				}
				for k, v := range vars {
					env.Set(k, v, nil)
				}
				b.Eq(rB, "stats.series/result", b.pos(fn), rv, env, "y+f(n)")
				hdr := X.phiOf[vars["y"].SingleAtom().ID].Block()
				rets := fc.Ctx.Returns()
				if len(rets) == 1 {
					b.Eq(rB, "stats.series/runs-until-converged", b.pos(fn), fc.ReachCondFrom(hdr, rets[0].Block()), env, "y+f(n)==y")
				}
			}
			if len(fc.Ctx.Returns()) != 1 {
				r.Fail(rB, "stats.series/single-exit", b.pos(fn), "the sum can be cut short by another exit")
			}
		})
	}
	// bandwidth rules
	b.Formula(rB, "stats.BandwidthSilverman", "stats.BandwidthSilverman", []string{"data"}, nil, 0, "1.06*data.StdDev()*pow(data.Weight(), -0.2)", nil)
	b.Formula(rB, "stats.BandwidthScott", "stats.BandwidthScott", []string{"data"},
		[][2]string{{"iqr", "data.Quantile(0.75)-data.Quantile(0.25)"}, {"hs", "1.06*pow(data.Weight(), -0.2)"}, {"sd", "data.StdDev()"}}, 0,
		"ite(sd<iqr/1.349, hs*sd, hs*(iqr/1.349))", nil)
	// Bounds
	if fn := b.Fn(rB, "stats.(*KDE).Bounds"); fn != nil {
		name := "stats.(*KDE).Bounds"
		b.guard(rB, name, func() {
			fc := X.FCFor(fn)
			env := X.EnvFor(fn, "kde")
			// the two bisections, wherever they are made (here or in a helper): the
			// distinct bisect results the returned values are built from
			r0, r1 := fc.RetVal(0), fc.RetVal(1)
			var bis []*Atom
			seenB := map[AtomID]bool{}
			for _, rv := range []*RF{r0, r1} {
				for _, at := range FindFn(rv, "stats.bisect#0") {
					if !seenB[at.ID] {
						seenB[at.ID] = true
						bis = append(bis, at)
					}
				}
			}
			if len(bis) != 2 {
				r.Fail(rB, name+"/bisections", b.pos(fn), "expected two bisections (low and high quantile), found "+itoa(len(bis))+": low = "+clip(r0.String(), 400))
				return
			}
			targets := []string{"0.005", "0.995"}
			var byTarget [2]*Atom
			for _, at := range bis {
				cl := at.Args[0].SingleAtom()
				var cfc *FC
				if cl != nil {
					cfc = X.ClosureFC(cl.ID)
				}
				if cfc == nil {
					r.Fail(rB, name+"/bisect-target", b.pos(fn), "bisect is not given a closure")
					continue
				}
				cenv := X.EnvFor(cfc.Fn, "x")
				cenv.Set("kde", X.ParamRF(fn, 0), fn.Params[0].Type())
				body := cfc.RetVal(0)
				matched := false
				for i, tg := range targets {
					want := cenv.MustParse("kde.CDF(x)-" + tg)
					if body.Equal(want) || X.EquivByCases(body, want, 0) {
						if byTarget[i] == nil {
							byTarget[i] = at
							matched = true
							r.OK(rB, name+"/bisect-target#"+itoa(i), b.pos(cfc.Fn), "bisects kde.CDF(x)-"+tg)
						}
					}
				}
				if !matched {
					r.Fail(rB, name+"/bisect-target", b.pos(cfc.Fn), "bisection target is neither CDF(x)-0.005 nor CDF(x)-0.995: "+clip(body.String(), 200))
				}
			}
			if byTarget[0] == nil || byTarget[1] == nil {
				r.Fail(rB, name+"/bisections", b.pos(fn), "need one bisection for the 0.5% and one for the 99.5% quantile")
				return
			}
			for k := 1; k <= 3; k++ {
				b.EqRF(rB, name+"/same-bracket#"+itoa(k), b.pos(fn), byTarget[1].Args[k], byTarget[0].Args[k], "both bisections use the same bracket and tolerance")
			}
			// the bracket expansion (when written in Bounds itself): an end is moved away from the
			// other by the current width exactly while the CDF there is still inside the target —
			// the low end while 0.005 < CDF(low), then the high end while CDF(high) < 0.995; the
			// bracket handed to the bisections is what the two loops leave
			func() {
				brLo, brHi := byTarget[0].Args[1], byTarget[0].Args[2]
				nDown, nUp := 0, 0
				for _, l := range fc.Ctx.Loops() {
					_, guard, _, msg := b.loopGuard(fc, l.Header)
					if msg != "" {
						continue
					}
					ga := guard.SingleAtom()
					if os.Getenv("GMSA_DEBUG_C12") != "" {
						fmt.Fprintf(os.Stderr, "C12 loop guard=%s\n", clip(guard.String(), 300))
					}
					if ga == nil || ga.Name != "cmp<" {
						continue
					}
					var xs []*RF
					for _, in := range l.Header.Instrs {
						ph, ok := in.(*ssa.Phi)
						if !ok {
							break
						}
						if isFloatType(ph.Type()) {
							// (a value merged at the header but not changed by the loop is not carried)
							if _, pn := recurrenceOrNil(fc, fc.Val(ph)); pn != nil && !pn.Equal(fc.Val(ph)) {
								xs = append(xs, fc.Val(ph))
							}
						}
					}
					if os.Getenv("GMSA_DEBUG_C12") != "" {
						fmt.Fprintf(os.Stderr, "C12 carried floats: %d\n", len(xs))
						for _, x := range xs {
							xi, xn := recurrenceOrNil(fc, x)
							fmt.Fprintf(os.Stderr, "  %s init=%v next=%v\n", x, xi, xn)
						}
					}
					if len(xs) != 1 {
						continue
					}
					x := xs[0]
					xi, xn := recurrenceOrNil(fc, x)
					if xi == nil {
						continue
					}
					lwhere := a.W.InstrPos(l.Header.Instrs[len(l.Header.Instrs)-1])
					e3 := X.EnvFor(fn, "kde")
					e3.Set("xx", x, nil)
					cdfx := e3.MustParse("kde.CDF(xx)")
					other := x.Add(x).Sub(xn)
					inv := len(fc.loopPhis(other)) == 0 || func() bool {
						for _, ph := range fc.loopPhis(other) {
							if pa := ph.SingleAtom(); pa != nil && X.phiOf[pa.ID] != nil && X.phiOf[pa.ID].Block() == l.Header {
								return false
							}
						}
						return true
					}()
					// the starting bracket: the sample's bounds, moved apart by a positive constant when
					// they coincide
					startOK := func(k int, outward int) bool {
						ia := xi.SingleAtom()
						bk := e3.MustParse(fmt.Sprintf("kde.Sample.Bounds()#%d", k))
						if ia == nil || ia.Name != "ite" || !ia.Args[2].Equal(bk) {
							return false
						}
						eq := e3.MustParse("kde.Sample.Bounds()#0==kde.Sample.Bounds()#1")
						if !ia.Args[0].Equal(eq) && !ia.Args[0].Equal(e3.MustParse("kde.Sample.Bounds()#1==kde.Sample.Bounds()#0")) {
							return false
						}
						c, isC := ia.Args[1].Sub(bk).IsConst()
						return isC && c.Sign() == outward
					}
					switch {
					case ga.Args[1].Equal(cdfx) && constIs(ga.Args[0], 0.005):
						if startOK(0, -1) {
							r.OK(rB, name+"/expansion/low/start", lwhere, "the low end starts at the sample's minimum (moved down by a constant when the sample is one point)")
						} else {
							r.Fail(rB, name+"/expansion/low/start", lwhere, "the low end does not start at the sample's minimum / is not moved down for a one-point sample: "+clip(xi.String(), 160))
						}
						nDown++
						cn := name + "/expansion/low"
						if inv {
							r.OK(rB, cn+"/step", lwhere, "while 0.005 < CDF(low): low moves down by the current width (low' = 2·low − high)")
						} else {
							r.Fail(rB, cn+"/step", lwhere, "the low end does not move away from the high end by the current width: low' = "+clip(xn.String(), 120))
						}
						if ba := brLo.SingleAtom(); ba != nil && X.phiOf[ba.ID] != nil {
							b.EqRF(rB, cn+"/bracket", lwhere, brLo, x, "the low end the loop leaves is the bracket's low end")
						}
					case ga.Args[0].Equal(cdfx) && constIs(ga.Args[1], 0.995):
						nUp++
						if startOK(1, 1) {
							r.OK(rB, name+"/expansion/high/start", lwhere, "the high end starts at the sample's maximum (moved up by a constant when the sample is one point)")
						} else {
							r.Fail(rB, name+"/expansion/high/start", lwhere, "the high end does not start at the sample's maximum / is not moved up for a one-point sample: "+clip(xi.String(), 160))
						}
						cn := name + "/expansion/high"
						if inv {
							r.OK(rB, cn+"/step", lwhere, "while CDF(high) < 0.995: high moves up by the current width (high' = 2·high − low)")
						} else {
							r.Fail(rB, cn+"/step", lwhere, "the high end does not move away from the low end by the current width: high' = "+clip(xn.String(), 120))
						}
						if ba := brLo.SingleAtom(); ba != nil && X.phiOf[ba.ID] != nil {
							b.EqRF(rB, cn+"/other-end", lwhere, other, brLo, "the width is measured from the bracket's low end")
						}
						if ba := brHi.SingleAtom(); ba != nil && X.phiOf[ba.ID] != nil {
							b.EqRF(rB, cn+"/bracket", lwhere, brHi, x, "the high end the loop leaves is the bracket's high end")
						}
					}
				}
				if nDown+nUp > 0 && (nDown != 1 || nUp != 1) {
					r.Fail(rB, name+"/expansion", b.pos(fn), fmt.Sprintf("expected one loop lowering the low end and one raising the high end, found %d/%d", nDown, nUp))
				}
			}()
			env.Set("lo", S.atomRF(byTarget[0].ID), nil)
			env.Set("hi", S.atomRF(byTarget[1].ID), nil)
			env.Let("bc", "kde.prepare()#1")
			b.Eq(rB, name+"/low", b.pos(fn), fc.RetVal(0), env, "ite(bc, fmax(lo-0.1*(hi-lo), kde.BoundaryMin), lo-0.1*(hi-lo))")
			b.Eq(rB, name+"/high", b.pos(fn), fc.RetVal(1), env, "ite(bc, fmin(hi+0.1*(hi-lo), kde.BoundaryMax), hi+0.1*(hi-lo))")
		})
	}
}

func argsOf(fc *FC, c *ssa.Call) []*RF {
	var out []*RF
	for _, a := range c.Call.Args {
		out = append(out, fc.Val(a))
	}
	return out
}

// constIs: r is a constant whose nearest float64 is f.
func constIs(r *RF, f float64) bool {
	c, ok := r.IsConst()
	if !ok {
		return false
	}
	v, _ := c.Float64()
	return v == f
}
