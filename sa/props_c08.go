package main

import (
	"math"
	"math/big"

	"golang.org/x/tools/go/ssa"
)

func init() {
	propFuncs["C08"] = propC08
	propInfos["C08"] = &PropInfo{
		Level:   "other",
		Explain: "Structural necessary conditions decided statically (DESIGN.md §5 C08): engine B compares, with the formulas of the sources the code cites (Numerical Recipes), Beta, BetaInc (argument guard, prefactor, branch x<(a+1)/(a+b+2), symmetry transform), the modified-Lentz recurrences of betacf (both half-steps, as a system of recurrences matched by role), GammaInc/GammaIncComp (identical guard and branch; per branch the two results sum to 1 symbolically), the series and continued-fraction recurrences, Choose/Lchoose (special cases by reach condition, small-case product recurrence, factorial table recurrence in init, large case exp(lchoose)), Sign; every loop in these functions has a constant iteration bound whose exhaustion panics (decided on the loop's conditions: counter, exhaustion test, no back edge once exhausted, exhausted ⇒ panic); the value of each iterative evaluation is returned exactly under its convergence test (|factor−1| < eps for the continued fractions, |del| < |sum|·eps for the series, eps the small positive constant the code uses), from inside the converging iteration or after the loop through a flag.",
		Assume:  []string{"A4 reals"},
		Undec:   []string{"1e-9 accuracy", "convergence within 200 iterations", "monotonicity in x"},
	}
}

func propC08(a *Analysis, r *Registry) {
	b := NewB(a, r)
	X := b.X
	S := X.S
	const rB = "B-C08 formula"
	tiny := X.S.Float(math.SmallestNonzeroFloat64)
	rz := func(e string) string { return "ite(abs(" + e + ")<tiny, tiny, " + e + ")" }

	// resultAndConvergence: the value returned by an iterative evaluation and the test under which it
	// is returned. Returned from inside the converging iteration, the value is that iteration's
	// updated one (specMid) and the test is the branch leading to the return; with the test carried
	// out of the loop in a flag and the value returned after the loop, it is the one the last
	// iteration left (specExit) and the test is the condition setting the flag. The tolerance is
	// whatever small positive constant the code uses (eps).
	resultAndConvergence := func(construct string, fc *FC, ret *ssa.Return, rv, carried *RF, env *SpecEnv, specMid, specExit, conv string) {
		phase := b.ReturnPhase(fc, ret, carried)
		at := carried.SingleAtom()
		var got *RF
		switch phase {
		case "mid":
			b.Eq(rB, construct+"/result", a.W.InstrPos(ret), rv, env, specMid)
			hdr := X.phiOf[at.ID].Block()
			_, gc, _, msg := b.loopGuard(fc, hdr)
			if msg != "" {
				r.Undecided(rB, construct+"/convergence-test", a.W.InstrPos(ret), msg)
				return
			}
			got = X.SimplifyUnder(fc.ReachCondFrom(hdr, ret.Block()), []Assumption{{Cond: gc, True: true}})
		case "exit":
			b.Eq(rB, construct+"/result", a.W.InstrPos(ret), rv, env, specExit)
			hdr := X.phiOf[at.ID].Block()
			var fl []latch
			for _, lf := range fc.latchFlags(hdr) {
				if !lf.dead {
					fl = append(fl, lf)
				}
			}
			if len(fl) != 1 {
				r.Undecided(rB, construct+"/convergence-test", a.W.InstrPos(ret), "the value is returned after the loop, but no single flag carries the convergence test out of it")
				return
			}
			got = fl[0].flip
		default:
			r.Undecided(rB, construct+"/result", a.W.InstrPos(ret), "the value is returned neither from inside an iteration nor only after the loop's guard fails")
			return
		}
		var eps *RF
		var walk func(v *RF)
		walk = func(v *RF) {
			if c, ok := v.IsConst(); ok {
				if c.Sign() > 0 && c.Cmp(big.NewRat(1, 1000000)) < 0 {
					eps = v
				}
				return
			}
			for _, t := range v.Atoms(false) {
				for _, ar := range t.Args {
					walk(ar)
				}
			}
			for _, c := range v.Coeffs() {
				if c.Sign() > 0 && c.Cmp(big.NewRat(1, 1000000)) < 0 {
					eps = X.S.Const(c)
				}
			}
		}
		walk(got)
		if eps == nil {
			r.Fail(rB, construct+"/convergence-test", a.W.InstrPos(ret), "no small positive tolerance in the test under which the value is returned: "+clip(got.String(), 200))
			return
		}
		e2 := *env
		e2.Vars = map[string]SVal{}
		for k, v := range env.Vars {
			e2.Vars[k] = v
		}
		e2.Set("eps", eps, nil)
		b.Eq(rB, construct+"/convergence-test", a.W.InstrPos(ret), got, &e2, conv)
	}

	b.Formula(rB, "mathx.Beta", "mathx.Beta", []string{"a", "b"}, nil, 0, "exp(lgamma(a)+lgamma(b)-lgamma(a+b))", nil)
	b.Formula(rB, "mathx.BetaInc", "mathx.BetaInc", []string{"x", "a", "b"},
		[][2]string{{"bt", "ite(0<x && x<1, exp(lgamma(a+b)-lgamma(a)-lgamma(b)+a*log(x)+b*log(1-x)), 0)"}}, 0,
		"ite(x<0 || 1<x, nan(), ite(x<(a+1)/(a+b+2), bt*betacf(x,a,b)/a, 1-bt*betacf(1-x,b,a)/b))", nil)
	b.Formula(rB, "mathx.Sign", "mathx.Sign", []string{"x"}, nil, 0, "ite(x==0, 0, ite(x<0, -1, ite(0<x, 1, mathx.nan)))", nil)
	b.Formula(rB, "mathx.Lchoose", "mathx.Lchoose", []string{"n", "k"}, nil, 0,
		"ite(k==0 || k==n, 0, ite(k<0 || n<k, nan(), lgamma(n+1)-lgamma(k+1)-lgamma(n-k+1)))", nil)

	// BetaInc: end points and the reflection identity, derived from the extracted formula
	if fn := b.Fn(rB, "mathx.BetaInc"); fn != nil {
		env := X.EnvFor(fn, "x", "a", "b")
		pos := []Assumption{X.AssumeCond(env.MustParse("0<a"), true), X.AssumeCond(env.MustParse("0<b"), true),
			X.AssumeCond(env.MustParse("a<=0"), false), X.AssumeCond(env.MustParse("b<=0"), false)}
		for _, ep := range []struct {
			at   string
			want int64
		}{{"0", 0}, {"1", 1}} {
			ep := ep
			b.guard("B-C08 derived", "mathx.BetaInc/at-"+ep.at, func() {
				as := append([]Assumption{X.AssumeEq(env.Vars["x"].RF, env.MustParse(ep.at))}, pos...)
				fc := X.Under(fn, as...)
				got := X.SimplifyUnder(fc.Sub(fc.RetVal(0)), as)
				// which branch is taken at the end point is a sign question: x < (a+1)/(a+b+2) at 0, not at 1
				thr := env.MustParse("(a+1)/(a+b+2)")
				g := X.FCFor(fn).SignerAt(fn.Blocks[0].Instrs[0])
				for _, a2 := range pos {
					c := a2.Cond
					if !a2.True {
						c = S.Not(c)
					}
					g.addFact(c)
				}
				var extra []Assumption
				if ep.at == "0" && g.Pos(thr) {
					extra = append(extra, Assumption{Cond: S.Cmp("<", S.Int(0), thr), True: true})
				}
				if ep.at == "1" && g.Pos(S.Int(1).Sub(thr)) {
					extra = append(extra, Assumption{Cond: S.Cmp("<", S.Int(1), thr), True: false})
				}
				got = X.SimplifyUnder(got, append(as, extra...))
				b.EqRF("B-C08 derived", "mathx.BetaInc/at-"+ep.at, b.pos(fn), got, S.Int(ep.want), "BetaInc("+ep.at+", a, b) = "+itoa(int(ep.want))+" for a, b > 0")
			})
		}
		// BetaInc(x,a,b) + BetaInc(1-x,b,a) = 1 on either side of the switch point x = (a+1)/(a+b+2)
		// (at the switch point itself both calls take the complement form: the identity then rests on
		// the two continued fractions being the same function, which is not a formula identity)
		for _, below := range []bool{true, false} {
			below := below
			side := map[bool]string{true: "below", false: "above"}[below]
			b.guard("B-C08 derived", "mathx.BetaInc/reflection/"+side, func() {
				in01 := []Assumption{X.AssumeCond(env.MustParse("x<0"), false), X.AssumeCond(env.MustParse("1<x"), false),
					X.AssumeCond(env.MustParse("0<x"), true), X.AssumeCond(env.MustParse("x<1"), true)}
				thr := env.MustParse("(a+1)/(a+b+2)")
				x := env.Vars["x"].RF
				var side1 []Assumption
				if below {
					side1 = []Assumption{{Cond: S.Cmp("<", x, thr), True: true}}
				} else {
					side1 = []Assumption{{Cond: S.Cmp("<", x, thr), True: false}, {Cond: S.Cmp("<", thr, x), True: true}}
				}
				fc := X.Under(fn, append(in01, side1...)...)
				p := X.SimplifyUnder(fc.Sub(fc.RetVal(0)), append(in01, side1...))
				// the reflected call: x := 1-x, a <-> b, evaluated on the other side of its own switch point
				full := X.FCFor(fn).RetVal(0)
				m := map[AtomID]*RF{
					env.Vars["x"].RF.SingleAtom().ID: S.Int(1).Sub(x),
					env.Vars["a"].RF.SingleAtom().ID: env.Vars["b"].RF,
					env.Vars["b"].RF.SingleAtom().ID: env.Vars["a"].RF,
				}
				q := full.Subst(m)
				thr2 := env.MustParse("(b+1)/(a+b+2)")
				var side2 []Assumption
				if below {
					// x < (a+1)/(a+b+2)  ⇔  (b+1)/(a+b+2) < 1-x
					side2 = []Assumption{{Cond: S.Cmp("<", S.Int(1).Sub(x), thr2), True: false}}
				} else {
					side2 = []Assumption{{Cond: S.Cmp("<", S.Int(1).Sub(x), thr2), True: true}}
				}
				refl := []Assumption{{Cond: S.Cmp("<", S.Int(1).Sub(x), S.Int(0)), True: false}, {Cond: S.Cmp("<", S.Int(1), S.Int(1).Sub(x)), True: false},
					{Cond: S.Cmp("<", S.Int(0), S.Int(1).Sub(x)), True: true}, {Cond: S.Cmp("<", S.Int(1).Sub(x), S.Int(1)), True: true}}
				q = X.SimplifyUnder(q, append(append(append([]Assumption{}, in01...), refl...), side2...))
				b.EqRF("B-C08 derived", "mathx.BetaInc/reflection/"+side, b.pos(fn), p.Add(q), S.Int(1), "BetaInc(x,a,b) + BetaInc(1-x,b,a) ≡ 1 "+side+" the switch point")
			})
		}
	}
	// betacf
	if fn := b.Fn(rB, "mathx.betacf"); fn != nil {
		b.guard(rB, "mathx.betacf", func() {
			fc := X.FCFor(fn)
			env := X.EnvFor(fn, "x", "a", "b")
			env.Set("tiny", tiny, nil)
			var ret *ssa.Return
			for _, rt := range fc.Ctx.Returns() {
				ret = rt
			}
			if ret == nil {
				anchorFail("no return")
			}
			rv := fc.Val(ret.Results[0])
			n1 := "m*(b-m)*x/((a+2*m-1)*(a+2*m))"
			n2 := "(-(a+m)*(a+b+m)*x/((a+2*m)*(a+2*m+1)))"
			d1 := "1/" + rz("1+"+n1+"*d")
			c1 := rz("1+" + n1 + "/c")
			d2 := "1/" + rz("1+"+n2+"*("+d1+")")
			c2 := rz("1+" + n2 + "/(" + c1 + ")")
			dinit := "1/" + rz("1-(a+b)*x/(a+1)")
			vars := b.LoopSystem(rB, "mathx.betacf/lentz-recurrences", b.pos(fn), fc, rv, env, []recSpec{
				{"m", "1", "m+1"},
				{"c", "1", c2},
				{"d", dinit, d2},
				{"h", dinit, "h*(" + d1 + ")*(" + c1 + ")*(" + d2 + ")*(" + c2 + ")"},
			})
			if vars != nil {
				for k, v := range vars {
					env.Set(k, v, nil)
				}
				resultAndConvergence("mathx.betacf", fc, ret, rv, vars["h"], env, "h*("+d1+")*("+c1+")*("+d2+")*("+c2+")", "h",
					"abs(("+d2+")*("+c2+")-1)<eps")
			}
		})
	}
	// incomplete gamma: siblings
	guardG := "a<=0 || x<0 || isnan(a) || isnan(x)"
	b.Formula(rB, "mathx.GammaInc", "mathx.GammaInc", []string{"a", "x"}, nil, 0,
		"ite("+guardG+", nan(), ite(x<a+1, gammaIncSeries(a,x), 1-gammaIncCF(a,x)))", nil)
	b.Formula(rB, "mathx.GammaIncComp", "mathx.GammaIncComp", []string{"a", "x"}, nil, 0,
		"ite("+guardG+", nan(), ite(x<a+1, 1-gammaIncSeries(a,x), gammaIncCF(a,x)))", nil)
	if f1, f2 := b.Fn(rB, "mathx.GammaInc"), b.Fn(rB, "mathx.GammaIncComp"); f1 != nil && f2 != nil {
		for _, br := range []bool{true, false} {
			br := br
			name := map[bool]string{true: "series-branch", false: "cf-branch"}[br]
			b.guard("B-C08 siblings", "GammaInc+GammaIncComp/"+name, func() {
				mk := func(fn *ssa.Function) *RF {
					env := X.EnvFor(fn, "a", "x")
					fc := X.Under(fn, X.AssumeCond(env.MustParse(guardG), false), X.AssumeCond(env.MustParse("x<a+1"), br))
					return fc.Sub(fc.RetVal(0))
				}
				p, q := mk(f1), mk(f2)
				q = q.Subst(map[AtomID]*RF{X.ParamRF(f2, 0).SingleAtom().ID: X.ParamRF(f1, 0), X.ParamRF(f2, 1).SingleAtom().ID: X.ParamRF(f1, 1)})
				b.EqRF("B-C08 siblings", "GammaInc+GammaIncComp/"+name, b.pos(f1), p.Add(q), X.S.Int(1), "GammaInc + GammaIncComp ≡ 1 on this branch")
			})
		}
	}
	pref := "exp(-x+a*log(x)-lgamma(a))"
	if fn := b.Fn(rB, "mathx.gammaIncSeries"); fn != nil {
		b.guard(rB, "mathx.gammaIncSeries", func() {
			fc := X.FCFor(fn)
			env := X.EnvFor(fn, "a", "x")
			var ret *ssa.Return
			for _, rt := range fc.Ctx.Returns() {
				if _, isC := rt.Results[0].(*ssa.Const); !isC {
					ret = rt
				}
			}
			if ret == nil {
				anchorFail("no series return")
			}
			rv := fc.Val(ret.Results[0])
			vars := b.LoopSystem(rB, "mathx.gammaIncSeries/recurrences", b.pos(fn), fc, rv, env, []recSpec{
				{"ap", "a", "ap+1"}, {"del", "1/a", "del*x/(ap+1)"}, {"sum", "1/a", "sum+del*x/(ap+1)"},
			})
			if vars != nil {
				for k, v := range vars {
					env.Set(k, v, nil)
				}
				resultAndConvergence("mathx.gammaIncSeries", fc, ret, rv, vars["sum"], env, "(sum+del*x/(ap+1))*"+pref, "sum*"+pref,
					"abs(del*x/(ap+1))<abs(sum+del*x/(ap+1))*eps")
			}
			got, n := fc.ReturnCond(func(rt *ssa.Return) bool {
				c, ok := rt.Results[0].(*ssa.Const)
				return ok && c.Value != nil && c.Value.ExactString() == "0"
			})
			if n == 1 {
				b.Eq(rB, "mathx.gammaIncSeries/x==0", b.pos(fn), got, env, "x==0")
			} else {
				r.Fail(rB, "mathx.gammaIncSeries/x==0", b.pos(fn), "expected one `return 0` guarded by x==0")
			}
		})
	}
	if fn := b.Fn(rB, "mathx.gammaIncCF"); fn != nil {
		b.guard(rB, "mathx.gammaIncCF", func() {
			fc := X.FCFor(fn)
			env := X.EnvFor(fn, "a", "x")
			env.Set("tiny", tiny, nil)
			env.Set("maxf", X.S.Float(math.MaxFloat64), nil)
			var ret *ssa.Return
			for _, rt := range fc.Ctx.Returns() {
				ret = rt
			}
			rv := fc.Val(ret.Results[0])
			an := "(-i*(i-a))"
			dd := "1/" + rz(an+"*d+bb+2")
			cc := rz("bb+2+" + an + "/c")
			vars := b.LoopSystem(rB, "mathx.gammaIncCF/recurrences", b.pos(fn), fc, rv, env, []recSpec{
				{"i", "1", "i+1"}, {"bb", "x+1-a", "bb+2"}, {"c", "maxf", cc}, {"d", "1/(x+1-a)", dd},
				{"h", "1/(x+1-a)", "h*(" + dd + ")*(" + cc + ")"},
			})
			if vars != nil {
				for k, v := range vars {
					env.Set(k, v, nil)
				}
				resultAndConvergence("mathx.gammaIncCF", fc, ret, rv, vars["h"], env, pref+"*h*("+dd+")*("+cc+")", pref+"*h",
					"abs(("+dd+")*("+cc+")-1)<eps")
			}
		})
	}
	// Choose
	if fn := b.Fn(rB, "mathx.Choose"); fn != nil {
		b.guard(rB, "mathx.Choose", func() {
			fc := X.FCFor(fn)
			env := X.EnvFor(fn, "n", "k")
			isConst := func(v string) func(rt *ssa.Return) bool {
				return func(rt *ssa.Return) bool {
					c, ok := rt.Results[0].(*ssa.Const)
					return ok && c.Value != nil && c.Value.ExactString() == v
				}
			}
			one, n1 := fc.ReturnCond(isConst("1"))
			zero, n0 := fc.ReturnCond(isConst("0"))
			if n1 < 1 || n0 < 1 {
				r.Fail(rB, "mathx.Choose/special-cases", b.pos(fn), "expected a `return 1` and a `return 0`")
			} else {
				b.Eq(rB, "mathx.Choose/returns-1", b.pos(fn), one, env, "k==0 || k==n")
				b.Eq(rB, "mathx.Choose/returns-0", b.pos(fn), zero, env, "!(k==0 || k==n) && (k<0 || n<k)")
			}
			var small, large *ssa.Return
			for _, rt := range fc.Ctx.Returns() {
				if _, isC := rt.Results[0].(*ssa.Const); isC {
					continue
				}
				if hasAtomPrefix(fc.Val(rt.Results[0]), "phi:") {
					small = rt
				} else {
					large = rt
				}
			}
			if small == nil || large == nil {
				anchorFail("small/large case returns not found")
			}
			b.Eq(rB, "mathx.Choose/large", a.W.InstrPos(large), fc.Val(large.Results[0]), env, "exp(lchoose(n,k))")
			lg, _ := fc.ReturnCond(func(rt *ssa.Return) bool { return rt == large })
			b.Eq(rB, "mathx.Choose/large-when", a.W.InstrPos(large), lg, env, "!(k==0 || k==n) && !(k<0 || n<k) && !(n<=20)")
			sv := fc.Val(small.Results[0])
			// the product of the k factors n-k+1 … n, taken in ascending or in descending order
			product := func(init, step, factor, bound string) func() {
				return func() {
					e := X.EnvFor(fn, "n", "k")
					vars := b.LoopSystem(rB, "mathx.Choose/small-product", a.W.InstrPos(small), fc, sv, e, []recSpec{
						{"numer", "1", "numer*" + factor}, {"n1", init, step},
					})
					if vars != nil {
						e.Set("numer", vars["numer"], nil)
						e.Set("n1", vars["n1"], nil)
						b.Eq(rB, "mathx.Choose/small-result", a.W.InstrPos(small), sv, e, "idiv(numer, mathx.smallFact[k])")
						nat := vars["n1"].SingleAtom()
						ph, pfc := X.phiOf[nat.ID], X.phiFC[nat.ID]
						if ifi, ok := ph.Block().Instrs[len(ph.Block().Instrs)-1].(*ssa.If); ok {
							b.Eq(rB, "mathx.Choose/small-bound", a.W.InstrPos(ifi), pfc.Val(ifi.Cond), e, bound)
						} else {
							r.Fail(rB, "mathx.Choose/small-bound", b.pos(fn), "the product loop has no bound test at its header")
						}
					}
				}
			}
			// however the loop counts: with every counter written as its value in iteration t
			// (start + t*step), the factor multiplied in is A + S*t (S = ±1) and the loop's guard
			// holds exactly for t = 0 … T-1; the product is that of the k factors n-k+1 … n when
			// T = k and the run A, A+S, … starts at n-k+1 going up or at n going down
			affine := func() {
				e := X.EnvFor(fn, "n", "k")
				phis := fc.loopPhis(sv)
				var numer *RF
				var F *RF
				for _, ph := range phis {
					pi, pn := fc.Recurrence(ph)
					if pi.Equal(S.Int(1)) {
						if q := pn.Div(ph); len(FindAtomID(q, ph.SingleAtom().ID)) == 0 {
							numer, F = ph, q
						}
					}
				}
				if numer == nil {
					r.Fail(rB, "mathx.Choose/small-product", a.W.InstrPos(small), "no running product starting at 1")
					return
				}
				e.Set("numer", numer, nil)
				b.Eq(rB, "mathx.Choose/small-result", a.W.InstrPos(small), sv, e, "idiv(numer, mathx.smallFact[k])")
				hdr := X.phiOf[numer.SingleAtom().ID].Block()
				pfc := X.phiFC[numer.SingleAtom().ID]
				t := S.Var("iter:t", true)
				sub := map[AtomID]*RF{}
				for _, in := range hdr.Instrs {
					ph, ok := in.(*ssa.Phi)
					if !ok {
						break
					}
					c := pfc.Val(ph)
					cat := c.SingleAtom()
					if cat == nil || X.phiOf[cat.ID] != ph || cat.ID == numer.SingleAtom().ID {
						continue
					}
					ci, cn := pfc.Recurrence(c)
					if d, isC := cn.Sub(c).IsConst(); isC {
						sub[cat.ID] = ci.Add(S.Const(d).Mul(t))
					}
				}
				Ft := F.Subst(sub)
				tid := t.SingleAtom().ID
				dF, okD := Ft.Deriv(tid)
				A := Ft.Subst(map[AtomID]*RF{tid: S.Int(0)})
				if !okD || !(dF.Equal(S.Int(1)) || dF.Equal(S.Int(-1))) {
					r.Fail(rB, "mathx.Choose/small-product", a.W.InstrPos(small), "the factor does not move by one per iteration: "+clip(Ft.String(), 120))
					return
				}
				_, guard, _, msg := b.loopGuard(pfc, hdr)
				if msg != "" {
					r.Fail(rB, "mathx.Choose/small-bound", a.W.InstrPos(small), msg)
					return
				}
				g := guard.Subst(sub)
				neg := false
				ga := g.SingleAtom()
				if ga != nil && ga.Name == "not" {
					neg = true
					ga = ga.Args[0].SingleAtom()
				}
				if ga == nil || (ga.Name != "cmp<" && ga.Name != "cmp<=") {
					r.Fail(rB, "mathx.Choose/small-bound", a.W.InstrPos(small), "the loop's guard is not one ordering test of its counters: "+clip(g.String(), 160))
					return
				}
				D := ga.Args[0].Sub(ga.Args[1])
				dD, okDD := D.Deriv(tid)
				D0 := D.Subst(map[AtomID]*RF{tid: S.Int(0)})
				var T *RF
				switch {
				case !okDD:
				case !neg && ga.Name == "cmp<" && dD.Equal(S.Int(1)): // D0+t < 0
					T = D0.Neg()
				case !neg && ga.Name == "cmp<=" && dD.Equal(S.Int(1)): // D0+t <= 0
					T = D0.Neg().Add(S.Int(1))
				case neg && ga.Name == "cmp<" && dD.Equal(S.Int(-1)): // D0-t >= 0
					T = D0.Add(S.Int(1))
				case neg && ga.Name == "cmp<=" && dD.Equal(S.Int(-1)): // D0-t > 0
					T = D0
				}
				if T == nil {
					r.Fail(rB, "mathx.Choose/small-bound", a.W.InstrPos(small), "the guard does not bound the number of iterations: "+clip(g.String(), 160))
					return
				}
				b.Eq(rB, "mathx.Choose/small-bound", a.W.InstrPos(small), T, e, "k")
				if dF.Equal(S.Int(1)) {
					b.Eq(rB, "mathx.Choose/small-product", a.W.InstrPos(small), A, e, "n-k+1")
				} else {
					b.Eq(rB, "mathx.Choose/small-product", a.W.InstrPos(small), A, e, "n")
				}
			}
			b.AnyOf(affine, product("n-(k-1)", "n1+1", "n1", "n1<=n"), product("n", "n1-1", "n1", "n-k<n1"), product("0", "n1+1", "(n-n1)", "n1<k"))
		})
	}
	if fn := b.Fn(rB, "mathx.init#1"); fn != nil {
		b.guard(rB, "mathx.init/smallFact", func() {
			fc := X.FCFor(fn)
			env := X.EnvFor(fn)
			n := 0
			fc.Ctx.Instrs(func(in ssa.Instruction) {
				st, ok := in.(*ssa.Store)
				if !ok {
					return
				}
				ia, ok := st.Addr.(*ssa.IndexAddr)
				if !ok {
					return
				}
				idx := fc.Val(ia.Index)
				if _, isC := idx.IsConst(); isC {
					b.Eq(rB, "mathx.init/smallFact[0]", a.W.InstrPos(st), fc.Val(st.Val), env, "1")
					return
				}
				n++
				// smallFact[n] = fact*n with fact carried
				v := fc.Val(st.Val)
				b.AnyOf(func() {
					vars := b.LoopSystem(rB, "mathx.init/smallFact-recurrence", a.W.InstrPos(st), fc, v, env, []recSpec{{"fact", "1", "fact*n"}, {"n", "1", "n+1"}})
					if vars != nil {
						env.Set("fact", vars["fact"], nil)
						env.Set("n", vars["n"], nil)
						b.Eq(rB, "mathx.init/smallFact[n]", a.W.InstrPos(st), v, env, "fact*n")
						b.EqRF(rB, "mathx.init/smallFact-index", a.W.InstrPos(st), idx, vars["n"], "the product fact*n is stored at index n")
					}
				}, func() {
					// the table built from its own previous entry: smallFact[n] = n*smallFact[n-1], n = 1,2,…
					e2 := X.EnvFor(fn)
					vars := b.LoopSystem(rB, "mathx.init/smallFact-recurrence", a.W.InstrPos(st), fc, idx, e2, []recSpec{{"n", "1", "n+1"}})
					if vars != nil {
						e2.Set("n", vars["n"], nil)
						b.EqRF(rB, "mathx.init/smallFact-index", a.W.InstrPos(st), idx, vars["n"], "entry n is stored at index n")
						b.Eq(rB, "mathx.init/smallFact[n]", a.W.InstrPos(st), v, e2, "n*mathx.smallFact[n-1]")
					}
				})
			})
			if n != 1 {
				r.Fail(rB, "mathx.init/smallFact", b.pos(fn), "expected one table-filling store")
			}
		})
	}
	// termination shape
	for _, fname := range []string{"mathx.betacf", "mathx.gammaIncSeries", "mathx.gammaIncCF"} {
		fn := b.Fn("C-termination", fname)
		if fn == nil {
			continue
		}
		fc := X.FCFor(fn)
		loops := fc.Ctx.Loops()
		ok := len(loops) == 1
		why := ""
		for _, l := range loops {
			bounded, w := b.BoundedOrPanics(fc, l)
			if !bounded {
				ok = false
			}
			why = w
		}
		if ok {
			r.OK("C-termination", fname, b.pos(fn), "single loop with a constant iteration bound whose exhaustion panics ("+why+")")
		} else {
			r.Fail("C-termination", fname, b.pos(fn), "loop without constant bound / panic on exhaustion: "+why)
		}
	}
	b.CheckDFloor("D-floor", "mathx.Choose")
}
