package main

// Thorough tier: (1) the same obligations under GOARCH=386; (2) the
// self-mutation catalogue (catalog/<prop>.json and seeded/<prop>-k/patch.diff):
// every mutant is applied to a scratch copy of the repository (never under
// /repo or /verif, removed afterwards), analysed in its own process, and must
// be flagged; every behaviour-preserving rewrite must stay silent.

import (
	"encoding/json"
	"fmt"
	"os"
	"os/exec"
	"path/filepath"
	"sort"
	"strings"
	"sync"
)

type catEntry struct {
	ID   string `json:"id"`
	Kind string `json:"kind"` // mutant | refactor
	File string `json:"file"`
	Old  string `json:"old"`
	New  string `json:"new"`
	diff string // seeded patch path
}

type catResult struct {
	ID, Kind, Outcome, Detail string
}

func copyTree(src, dst string) error {
	return filepath.Walk(src, func(p string, info os.FileInfo, err error) error {
		if err != nil {
			return err
		}
		rel, _ := filepath.Rel(src, p)
		if rel == ".git" || strings.HasPrefix(rel, ".git"+string(os.PathSeparator)) {
			if info.IsDir() {
				return filepath.SkipDir
			}
			return nil
		}
		if info.IsDir() {
			return os.MkdirAll(filepath.Join(dst, rel), 0o755)
		}
		b, err := os.ReadFile(p)
		if err != nil {
			return err
		}
		return os.WriteFile(filepath.Join(dst, rel), b, 0o644)
	})
}

func runThorough(a *Analysis, reg *Registry, ri *RunInfo, prop, repo, verif string) {
	exe, err := os.Executable()
	if err != nil {
		reg.Notes = append(reg.Notes, "thorough: cannot locate own executable: "+err.Error())
		return
	}
	// (1) GOARCH=386
	func() {
		tmpv, _ := os.MkdirTemp("", "gmsa-386-")
		defer os.RemoveAll(tmpv)
		if b, err := os.ReadFile(filepath.Join(verif, "known_findings.json")); err == nil {
			os.WriteFile(filepath.Join(tmpv, "known_findings.json"), b, 0o644)
		}
		cmd := exec.Command(exe, "check", prop, "--tier", "quick", "--repo", repo, "--verif", tmpv, "--no-controls")
		cmd.Env = append(os.Environ(), "GMSA_GOARCH=386")
		out, err := cmd.CombinedOutput()
		if err != nil {
			lines := strings.Split(strings.TrimSpace(string(out)), "\n")
			reg.Undecided("thorough GOARCH=386", prop, "", "the obligations do not all hold when the tree is analysed for GOARCH=386: "+clip(lines[0], 300))
		} else {
			reg.OK("thorough GOARCH=386", prop, "", "all obligations also discharged for GOARCH=386")
		}
	}()
	// (1b) order independence: the same obligations decided again with the terms of every
	// polynomial visited in three other fixed orders (Go's map iteration order is random;
	// wherever it can matter the analyser goes through Poly.sortedTerms — this is the test
	// that nothing is left that depends on it). A different verdict is an analyser defect.
	func() {
		sig := func(r *Registry) string {
			var out []string
			for _, o := range r.Obs {
				if o.st != Discharged && !strings.HasPrefix(o.Rule, "thorough ") {
					out = append(out, o.Rule+" "+o.Construct)
				}
			}
			sort.Strings(out)
			return strings.Join(out, " || ")
		}
		base := sig(reg)
		var diffs []string
		for k := 1; k <= 3; k++ {
			termOrder = k
			alt := NewRegistry(prop)
			func() {
				defer func() {
					if rec := recover(); rec != nil {
						alt.Undecided("analyser", "panic", "", fmt.Sprint(rec))
					}
				}()
				propFuncs[prop](a, alt)
				runDeps(prop, a, alt)
			}()
			if s := sig(alt); s != base {
				diffs = append(diffs, fmt.Sprintf("order %d: %s", k, clip(s, 300)))
			}
		}
		termOrder = 0
		if len(diffs) == 0 {
			reg.OK("thorough order-independence", prop, "", "the same verdict on every obligation with polynomial terms visited in 3 other orders")
		} else {
			fmt.Printf("SELFTEST-WARNING property=%s verdict depends on term order: %s\n", prop, strings.Join(diffs, "; "))
			reg.Notes = append(reg.Notes, "order-dependence: "+strings.Join(diffs, "; "))
		}
	}()
	// (2) catalogue
	var entries []catEntry
	if b, err := os.ReadFile(filepath.Join(verif, "catalog", prop+".json")); err == nil {
		json.Unmarshal(b, &entries)
	}
	seeds, _ := filepath.Glob(filepath.Join(verif, "seeded", prop+"-*", "patch.diff"))
	sort.Strings(seeds)
	for _, s := range seeds {
		// a seeded change is part of this property's self-test when its recorded detection names this property
		mb, _ := os.ReadFile(filepath.Join(filepath.Dir(s), "meta.json"))
		if !strings.Contains(string(mb), "\""+prop+":") {
			continue
		}
		entries = append(entries, catEntry{ID: "seed:" + filepath.Base(filepath.Dir(s)), Kind: "mutant", diff: s})
	}
	// stored behaviour-preserving refactorings (sub-agent produced, each with an
	// equivalence test): the checks they name must stay silent on them
	refs, _ := filepath.Glob(filepath.Join(verif, "refactors", "*", "patch.diff"))
	sort.Strings(refs)
	for _, s := range refs {
		mb, _ := os.ReadFile(filepath.Join(filepath.Dir(s), "meta.json"))
		var meta struct {
			Checks []string `json:"checks"`
		}
		json.Unmarshal(mb, &meta)
		for _, c := range meta.Checks {
			if c == prop {
				entries = append(entries, catEntry{ID: "refactoring:" + filepath.Base(filepath.Dir(s)), Kind: "refactor", diff: s})
			}
		}
	}
	if len(entries) == 0 {
		reg.Notes = append(reg.Notes, "thorough: no catalogue entries for "+prop)
		return
	}
	results := make([]catResult, len(entries))
	sem := make(chan struct{}, 8)
	var wg sync.WaitGroup
	for i, e := range entries {
		wg.Add(1)
		go func(i int, e catEntry) {
			defer wg.Done()
			sem <- struct{}{}
			defer func() { <-sem }()
			results[i] = runCatEntry(exe, prop, repo, verif, e)
		}(i, e)
	}
	wg.Wait()
	counts := map[string]int{}
	var missed, loud, bad []string
	for _, r := range results {
		counts[r.Kind+":"+r.Outcome]++
		switch {
		case r.Kind == "mutant" && r.Outcome == "silent":
			missed = append(missed, r.ID)
		case r.Kind == "refactor" && r.Outcome == "flagged":
			loud = append(loud, r.ID+" ("+r.Detail+")")
		case r.Outcome == "not-applicable" || r.Outcome == "does-not-compile":
			bad = append(bad, r.ID+": "+r.Outcome)
		}
	}
	ri.Extra["self_test"] = map[string]interface{}{
		"entries": len(entries), "outcomes": counts, "mutants_not_flagged": missed, "rewrites_flagged": loud, "unusable_entries": bad,
		"note": "mutants and seeded changes are applied to scratch copies under $TMPDIR, one analyser process each; a mutant must make the check exit 1, a behaviour-preserving rewrite must leave it at exit 0",
	}
	for k, v := range counts {
		reg.Count("selftest_"+k, v)
	}
	if len(missed) > 0 {
		fmt.Printf("SELFTEST-WARNING property=%s mutants not flagged: %s\n", prop, strings.Join(missed, ", "))
	}
	if len(loud) > 0 {
		fmt.Printf("SELFTEST-WARNING property=%s behaviour-preserving rewrites flagged: %s\n", prop, strings.Join(loud, ", "))
	}
}

func runCatEntry(exe, prop, repo, verif string, e catEntry) catResult {
	res := catResult{ID: e.ID, Kind: e.Kind}
	dir, err := os.MkdirTemp("", "gmsa-mut-")
	if err != nil {
		res.Outcome = "not-applicable"
		return res
	}
	defer os.RemoveAll(dir)
	scratch := filepath.Join(dir, "repo")
	tmpv := filepath.Join(dir, "verif")
	os.MkdirAll(tmpv, 0o755)
	if err := copyTree(repo, scratch); err != nil {
		res.Outcome, res.Detail = "not-applicable", err.Error()
		return res
	}
	if b, err := os.ReadFile(filepath.Join(verif, "known_findings.json")); err == nil {
		os.WriteFile(filepath.Join(tmpv, "known_findings.json"), b, 0o644)
	}
	if e.diff != "" {
		exec.Command("git", "-C", scratch, "init", "-q").Run()
		if out, err := exec.Command("git", "-C", scratch, "apply", "--whitespace=nowarn", e.diff).CombinedOutput(); err != nil {
			res.Outcome, res.Detail = "not-applicable", "patch does not apply: "+clip(string(out), 120)
			return res
		}
		os.RemoveAll(filepath.Join(scratch, ".git"))
	} else {
		p := filepath.Join(scratch, e.File)
		b, err := os.ReadFile(p)
		if err != nil || !strings.Contains(string(b), e.Old) {
			res.Outcome, res.Detail = "not-applicable", "pattern not found in "+e.File
			return res
		}
		os.WriteFile(p, []byte(strings.Replace(string(b), e.Old, e.New, 1)), 0o644)
	}
	cmd := exec.Command(exe, "check", prop, "--tier", "quick", "--repo", scratch, "--verif", tmpv, "--no-controls")
	out, err := cmd.CombinedOutput()
	so := string(out)
	switch {
	case err == nil:
		res.Outcome = "silent"
	case strings.Contains(so, "rule=load"):
		res.Outcome = "does-not-compile"
	default:
		res.Outcome = "flagged"
		for _, l := range strings.Split(so, "\n") {
			if strings.Contains(l, "FAILED") || strings.Contains(l, "UNDECIDED") {
				res.Detail = clip(strings.TrimSpace(l), 160)
				break
			}
		}
	}
	return res
}
