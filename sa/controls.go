package main

// Positive controls: a tiny module with one deliberately violating function
// per rule (Bad*) and conforming twins (OK*). Analysed with the same code
// paths on every run; a silent Bad* or a flagged OK* means the checker is
// broken (exit 2, not a VIOLATION of the repository).

import (
	"fmt"
	"os"
	"path/filepath"
	"sort"
	"strings"

	"golang.org/x/tools/go/ssa"
)

func runControlsCmd(verif string) int {
	if msg := runControls(verif, ""); msg != "" {
		fmt.Println("controls FAILED:", msg)
		return 2
	}
	fmt.Println("controls ok")
	return 0
}

func runControls(verif, prop string) string {
	dir := filepath.Join(verif, "sa", "testdata", "controls")
	w, err := Load(dir, []string{"ctl"}, 1)
	if err != nil {
		return "cannot load controls: " + err.Error()
	}
	if os.Getenv("GMSA_DEBUG") != "" {
		for _, f := range w.FuncList {
			fmt.Println("ctl func:", w.NameOf[f])
		}
	}
	a := &Analysis{W: w, Tier: "quick"}
	a.Eff = NewEffects(w)
	a.Eff.Run()
	reg := NewRegistry("CTL")
	b := NewB(a, reg)
	X := b.X
	want := map[string]Status{} // construct prefix -> expected status
	expect := func(construct string, st Status) { want[construct] = st }

	// engine A
	for _, n := range []string{"ctl.BadSortsArg", "ctl.OKSortsCopy", "ctl.BadAppendSpare"} {
		a.CheckNoMutation(reg, "A-1", w.Fn(n), nil)
	}
	expect("A-1|ctl.BadSortsArg/arg0:xs", Failed)
	expect("A-1|ctl.OKSortsCopy/arg0:xs", Discharged)
	expect("A-1|ctl.BadAppendSpare/arg0:xs", Failed)
	a.CheckNoGlobalState(reg, "A-2")
	expect("A-2|global:ctl.cache", Failed)
	a.CheckFresh(reg, "A-3", "ctl.BadNotFresh", 0)
	a.CheckFresh(reg, "A-3", "ctl.OKFresh", 0)
	expect("A-3|ctl.BadNotFresh/result0", Failed)
	expect("A-3|ctl.OKFresh/result0", Discharged)
	a.CheckNondet(reg, "A-4")
	expect("A-4|ctl.BadGlobalRand", Failed)
	expect("A-4|ctl.OKRand", Discharged)
	expect("A-4|ctl.BadGoroutine", Failed)
	a.CheckMapRanges(reg, "A-5")
	expect("A-5|ctl.BadMapOrder/maprange#1", Failed)
	expect("A-5|ctl.OKMapClear/maprange#1", Discharged)
	b.CheckSwap("C-swap", "ctl.(*pair).Swap")
	b.CheckSwap("C-swap", "ctl.(*pairOK).Swap")
	expect("C-swap|ctl.(*pair).Swap/ws", Failed)
	expect("C-swap|ctl.(*pairOK).Swap/ws", Discharged)
	// engine D
	b.CheckDFloor("D-floor", "ctl.BadBin", "ctl.OKBin", "ctl.BadDiv", "ctl.OKDiv")
	expect("D-floor|ctl.BadBin/float→int#1", Failed)
	expect("D-floor|ctl.OKBin/float→int#1", Discharged)
	expect("D-floor|ctl.BadDiv/int /#1", Failed)
	expect("D-floor|ctl.OKDiv/int /#1", Discharged)
	// engine B
	for _, n := range []string{"ctl.BadWelch", "ctl.OKWelch"} {
		b.Formula("B-formula", n, n, []string{"v1", "n1", "v2", "n2"}, nil, 0, "sqrt(v1/n1+v2/n2)", nil)
	}
	expect("B-formula|ctl.BadWelch", Failed)
	expect("B-formula|ctl.OKWelch", Discharged)
	for _, n := range []string{"ctl.BadMean", "ctl.OKMean"} {
		fn := w.Fn(n)
		b.guard("B-recurrence", n, func() {
			fc := X.FCFor(fn)
			env := X.EnvFor(fn, "xs")
			rv := fc.RetVal(0)
			x, i := fc.elemOf(rv, env.MustParse("xs"))
			env.Set("x", x, nil)
			env.Set("i", i, nil)
			b.LoopSystem("B-recurrence", n, "", fc, rv, env, []recSpec{{"m", "0", "m+(x-m)/(i+1)"}})
		})
	}
	expect("B-recurrence|ctl.BadMean", Failed)
	expect("B-recurrence|ctl.OKMean", Discharged)
	if fn := w.Fn("ctl.(*acc).BadMerge"); fn != nil {
		b.guard("B-field-at-exit", "ctl.(*acc).BadMerge", func() {
			env := X.EnvFor(fn, "a", "o")
			fc := X.Under(fn, X.AssumeEq(env.MustParse("o.Count"), X.S.Int(0)), X.AssumeEq(env.MustParse("o.Min"), X.S.Int(0)))
			b.Eq("B-field-at-exit", "ctl.(*acc).BadMerge", "", fc.FieldAtExit(0, "Min"), env, "a.Min")
		})
	}
	expect("B-field-at-exit|ctl.(*acc).BadMerge", Failed)
	// engine C
	for _, n := range []string{"ctl.(*hist).BadAdd", "ctl.(*hist).OKAdd"} {
		fn := w.Fn(n)
		fc := X.FCFor(fn)
		lo, hi, ok := fc.pathCountRange(fc.isIncrement)
		if ok && lo == 1 && hi == 1 {
			reg.OK("C-once", n, "", "")
		} else {
			reg.Fail("C-once", n, "", fmt.Sprint(lo, hi, ok))
		}
	}
	expect("C-once|ctl.(*hist).BadAdd", Failed)
	expect("C-once|ctl.(*hist).OKAdd", Discharged)
	if fn := w.Fn("ctl.BadEmit"); fn != nil {
		for _, blk := range fn.Blocks {
			for _, in := range blk.Instrs {
				if c, ok := in.(*ssa.Call); ok && c.Call.StaticCallee() != nil && c.Call.StaticCallee().Name() == "WriteString" {
					taintBlock = blk
					if ok, _ := taintOK(w, c.Call.Args[1], 0); ok {
						reg.OK("C-taint", "ctl.BadEmit", "", "")
					} else {
						reg.Fail("C-taint", "ctl.BadEmit", "", "")
					}
				}
			}
		}
	}
	expect("C-taint|ctl.BadEmit", Failed)

	got := map[string]Status{}
	for _, o := range reg.Obs {
		k := o.Rule + "|" + o.Construct
		if old, ok := got[k]; !ok || o.st > old {
			got[k] = o.st
		}
	}
	var bad []string
	for k, st := range want {
		g, ok := got[k]
		if !ok {
			// prefix match (constructs with suffixes)
			for gk, gs := range got {
				if strings.HasPrefix(gk, k) && (gs > g || !ok) {
					g, ok = gs, true
				}
			}
		}
		if !ok {
			bad = append(bad, k+": no obligation produced")
		} else if g != st {
			bad = append(bad, fmt.Sprintf("%s: expected %s, got %s", k, st, g))
		}
	}
	sort.Strings(bad)
	return strings.Join(bad, "; ")
}
