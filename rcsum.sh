#!/bin/bash
# usage: rcsum.sh <glob under refactors>  — one line per (refactoring, property) that is not silent
for d in /verif/refactors/$1; do
  ps=$(python3 -c "import json;print(' '.join(json.load(open('$d/meta.json'))['checks']))")
  for p in $ps; do
    out=$(W=${W:-170} /verif/rc2.sh $d $p 2>&1 | grep -v "violations=0")
    [ -n "$out" ] && echo "$(basename $d) $p: $(echo "$out" | grep -c 'FAILED\|UNDECIDED\|TIMEOUT') issue(s); first: $(echo "$out" | head -1 | sed 's/^ *//')"
  done
done
