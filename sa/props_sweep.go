package main

import (
	"fmt"
	"os"
	"strings"

	"golang.org/x/tools/go/ssa"
)

// Small functions that the properties name in passing and that had engine-A
// obligations only (found by listing, per library function, the rules of the
// obligations that mention it): their bodies are one formula each.

func sweepC18(a *Analysis, r *Registry, b *B) {
	const rB = "B-C18 formula"
	b.Formula(rB, "graph.(IntGraph).NumNodes", "graph.(IntGraph).NumNodes", []string{"g"}, nil, 0, "len(g)", nil)
	b.Formula(rB, "graph.(IntGraph).Out", "graph.(IntGraph).Out", []string{"g", "i"}, nil, 0, "g[i]", nil)
	b.Formula(rB, "graph.(WeightedUnit).OutWeight", "graph.(WeightedUnit).OutWeight", []string{"w", "i", "e"}, nil, 0, "1", nil)
	b.Formula(rB, "graph.(*bigraph).In", "graph.(*bigraph).In", []string{"b", "i"}, nil, 0, "b.preds[i]", nil)
	b.Formula(rB, "graph.(*listSubgraph).Underlying", "graph.(*listSubgraph).Underlying", []string{"g"}, nil, 0, "g.underlying", nil)
}

func sweepC19(a *Analysis, r *Registry, b *B) {
	const rB = "B-C19 CHK"
	b.Formula(rB, "graph/graphalg.(*DomTree).In", "graph/graphalg.(*DomTree).In", []string{"t", "n"}, nil, 0, "slice(t.idom, n, n+1, _)", nil)
	// Reverse(xs): in place, xs[i] <-> xs[len-1-i] for i < len-1-i, returns xs (IDom's reverse
	// post-order is Reverse(PostOrder(...)))
	name := "graph/graphalg.Reverse"
	fn := b.Fn(rB, name)
	if fn == nil {
		return
	}
	X := b.X
	S := X.S
	b.guard(rB, name, func() {
		fc := X.FCFor(fn)
		env := X.EnvFor(fn, "xs")
		b.Eq(rB, name+"/result", b.pos(fn), fc.RetVal(0), env, "xs")
		loops := fc.Ctx.Loops()
		if len(loops) == 0 {
			// delegated to package slices: slices.Reverse(xs), in place, on every path
			done := false
			fc.Ctx.Instrs(func(in ssa.Instruction) {
				if c, ok := in.(*ssa.Call); ok && c.Call.StaticCallee() != nil && strings.HasPrefix(c.Call.StaticCallee().String(), "slices.Reverse[") && len(c.Call.Args) == 1 {
					if fc.Val(c.Call.Args[0]).Equal(env.Vars["xs"].RF) && len(fc.Ctx.Returns()) == 1 && fc.Ctx.Dominates(c.Block(), fc.Ctx.Returns()[0].Block()) {
						done = true
					}
				}
			})
			if done {
				r.OK(rB, name+"/swap", b.pos(fn), "slices.Reverse(xs), in place, on every path")
				return
			}
		}
		if len(loops) != 1 {
			r.Fail(rB, name+"/swap", b.pos(fn), "expected one loop")
			return
		}
		var stores []*ssa.Store
		sfc0 := fc
		for _, sfc := range fc.BoundCallees(1) { // (the exchange may be a small helper handed xs)
			sfc := sfc
			sfc.Ctx.Instrs(func(in ssa.Instruction) {
				if st, ok := in.(*ssa.Store); ok {
					if ia, ok := st.Addr.(*ssa.IndexAddr); ok && sfc.Val(ia.X).Equal(env.Vars["xs"].RF) {
						stores = append(stores, st)
						sfc0 = sfc
					}
				}
			})
		}
		if len(stores) != 2 || stores[0].Parent() != stores[1].Parent() {
			r.Fail(rB, name+"/swap", b.pos(fn), "expected the two stores of a swap")
			return
		}
		i0 := sfc0.Val(stores[0].Addr.(*ssa.IndexAddr).Index)
		i1 := sfc0.Val(stores[1].Addr.(*ssa.IndexAddr).Index)
		xs := env.Vars["xs"].RF
		// each store writes the element read at the other index (both reads precede both stores:
		// the loaded values are SSA values computed before the first store)
		ok := sfc0.Val(stores[0].Val).Equal(S.MakeFn("idx", xs, i1)) && sfc0.Val(stores[1].Val).Equal(S.MakeFn("idx", xs, i0))
		for _, st := range stores {
			if ld, isLd := st.Val.(*ssa.UnOp); isLd {
				for _, st2 := range stores {
					if ld.Block() == st2.Block() {
						before := false
						for _, in := range ld.Block().Instrs {
							if in == ssa.Instruction(ld) {
								before = true
							}
							if in == ssa.Instruction(st2) && !before {
								ok = false // a read after a store sees the new value
							}
						}
					}
				}
			} else {
				ok = false
			}
		}
		if !ok {
			r.Fail(rB, name+"/swap", a.W.InstrPos(stores[0]), "the body does not exchange xs[i] and xs[j]")
			return
		}
		r.OK(rB, name+"/swap", a.W.InstrPos(stores[0]), "the body exchanges xs[i] and xs[j]")
		// the two indices mirror each other: i + j = len(xs)-1 throughout, i from 0 upwards, while i < j
		sum := i0.Add(i1)
		mirror := false
		var lo *RF
		for _, ph := range fc.loopPhis(sum) {
			_ = ph
		}
		var phs []*RF
		for _, ph := range append(fc.loopPhis(i0), fc.loopPhis(i1)...) {
			dup := false
			for _, o := range phs {
				if o.Equal(ph) {
					dup = true
				}
			}
			if !dup {
				phs = append(phs, ph)
			}
		}
		// L: the index that starts at 0 and goes up by one per iteration (whichever counter drives
		// it: an ascending i, or len-1-hi for a descending hi); H = len-1-L: the other one
		sub0, sub1 := map[AtomID]*RF{}, map[AtomID]*RF{}
		okRec := len(phs) > 0
		for _, ph := range phs {
			in, nx := recurrenceOrNil(fc, ph)
			if in == nil {
				okRec = false
				break
			}
			sub0[ph.SingleAtom().ID] = in
			sub1[ph.SingleAtom().ID] = nx
		}
		for _, e := range []*RF{i0, i1} {
			if okRec && e.Subst(sub0).Equal(S.Int(0)) && e.Subst(sub1).Sub(e).Equal(S.Int(1)) {
				lo = e
			}
		}
		if lo != nil && (sum.Equal(S.MakeFn("len", xs).Sub(S.Int(1))) || (sum.Subst(sub0).Equal(S.MakeFn("len", xs).Sub(S.Int(1))) && sum.Subst(sub1).Equal(sum))) {
			mirror = true
		}
		if !mirror {
			r.Fail(rB, name+"/mirror", b.pos(fn), "the two indices are not i (from 0 upwards) and len(xs)-1-i")
			return
		}
		r.OK(rB, name+"/mirror", b.pos(fn), "the indices are i (from 0, +1 per iteration) and len(xs)-1-i")
		hi := i0
		if lo.Equal(i0) {
			hi = i1
		}
		hdr := loops[0].Header
		_, gc, _, msg := b.loopGuard(fc, hdr)
		if msg != "" {
			r.Fail(rB, name+"/while", b.pos(fn), msg)
			return
		}
		// i < j, or equivalently i < len/2 (integer division) — stated as the first; the second
		// is decided through the division-free form
		want := S.Cmp("<", lo, hi.Subst(map[AtomID]*RF{}))
		if gc.Equal(want) || X.EquivByCases(gc, want, 0) {
			r.OK(rB, name+"/while", b.pos(fn), "the loop runs while i < j: every pair once, the middle element left alone")
		} else {
			r.Fail(rB, name+"/while", b.pos(fn), "the loop runs while "+clip(gc.String(), 120)+", not while i < len(xs)-1-i")
		}
	})
}

func sweepC16(a *Analysis, r *Registry, b *B) {
	const rB = "B-C16 formula"
	for _, t := range []string{"Linear", "Log"} {
		name := "scale.(*" + t + ").SetClamp"
		fn := b.Fn(rB, name)
		if fn == nil {
			continue
		}
		b.guard(rB, name, func() {
			fc := b.X.FCFor(fn)
			env := b.X.EnvFor(fn, "s", "clamp")
			b.Eq(rB, name, b.pos(fn), fc.FieldAtExit(0, "Clamp"), env, "clamp")
		})
	}
}

func sweepC17(a *Analysis, r *Registry, b *B) {
	b.Formula("B-C17 siblings", "scale.(*Log).CountTicks", "scale.(*Log).CountTicks", []string{"s", "level"}, nil, 0, "logTicker(s, false).CountTicks(level)", nil)
	b.Formula("B-C17 siblings", "scale.(*Log).TicksAtLevel", "scale.(*Log).TicksAtLevel", []string{"s", "level"}, nil, 0, "logTicker(s, false).TicksAtLevel(level)", nil)
}

// sweepC09: vec.Concat and vec.Vectorize satisfy their defining identities.
func sweepC09(a *Analysis, r *Registry, b *B) {
	const rB = "B-C09 formula"
	X := b.X
	S := X.S
	if fn := b.Fn(rB, "vec.Vectorize$1"); fn != nil {
		b.guard(rB, "vec.Vectorize", func() {
			ok := false
			for _, blk := range fn.Blocks {
				if rt, isRet := blk.Instrs[len(blk.Instrs)-1].(*ssa.Return); isRet && len(rt.Results) == 1 {
					if c, isCall := rt.Results[0].(*ssa.Call); isCall && c.Call.StaticCallee() != nil && a.W.FuncName(c.Call.StaticCallee()) == "vec.Map" && len(c.Call.Args) == 2 {
						_, isFV := c.Call.Args[0].(*ssa.FreeVar)
						if ld, isLd := c.Call.Args[0].(*ssa.UnOp); isLd { // the captured variable is read through its cell
							_, isFV = ld.X.(*ssa.FreeVar)
						}
						if isFV && len(fn.Params) == 1 && c.Call.Args[1] == ssa.Value(fn.Params[0]) && len(fn.Blocks) == 1 {
							ok = true
						}
					}
				}
			}
			// (the captured function: the enclosing Vectorize's parameter)
			isF := func(v *RF) bool {
				return strings.HasPrefix(v.String(), "fv:") || (fn.Parent() != nil && len(fn.Parent().Params) == 1 && v.Equal(X.ParamRF(fn.Parent(), 0)))
			}
			if !ok {
				// or Map written out: a fresh slice of len(xs) with element i = f(xs[i]) for every i
				// (a local holding the call's result is the same value in SSA)
				fc := X.FCFor(fn)
				for _, blk := range fn.Blocks {
					if rt, isRet := blk.Instrs[len(blk.Instrs)-1].(*ssa.Return); isRet && len(rt.Results) == 1 {
						if c, isCall := rt.Results[0].(*ssa.Call); isCall && c.Call.StaticCallee() != nil && a.W.FuncName(c.Call.StaticCallee()) == "vec.Map" {
							ok = fc.Val(c.Call.Args[1]).Equal(X.ParamRF(fn, 0)) && isF(fc.Val(c.Call.Args[0]))
						}
					}
				}
				if !ok {
					rv := fc.RetVal(0)
					xs := X.ParamRF(fn, 0)
					if ra := rv.SingleAtom(); ra != nil && strings.HasPrefix(ra.Name, "makeslice:") && ra.Args[0].Equal(S.MakeFn("len", xs)) {
						var st *ssa.Store
						n := 0
						fc.Ctx.Instrs(func(in ssa.Instruction) {
							if s2, isS := in.(*ssa.Store); isS {
								if ia, isI := s2.Addr.(*ssa.IndexAddr); isI && fc.Val(ia.X).Equal(rv) {
									st = s2
									n++
								}
							}
						})
						if os.Getenv("GMSA_DEBUG_SWEEP") != "" && n == 1 {
							fmt.Fprintln(os.Stderr, "VECTORIZE store val:", fc.Val(st.Val), "idx:", fc.Val(st.Addr.(*ssa.IndexAddr).Index))
						}
						if n == 1 {
							I := fc.Val(st.Addr.(*ssa.IndexAddr).Index)
							va := fc.Val(st.Val).SingleAtom()
							if va != nil && va.Name == "apply" && len(va.Args) == 2 && isF(va.Args[0]) && va.Args[1].Equal(S.MakeFn("idx", xs, I)) {
								ok = b.FullScan("C-scan coverage", "vec.Vectorize/all", a.W.InstrPos(st), fc, I, S.MakeFn("len", xs))
							}
						}
					}
				}
			}
			if ok {
				r.OK(rB, "vec.Vectorize", b.pos(fn), "Vectorize(f)(xs) = Map(f, xs)")
			} else {
				r.Fail(rB, "vec.Vectorize", b.pos(fn), "Vectorize(f)(xs) is neither the call Map(f, xs) nor a fresh slice of f(xs[i]) for every i")
			}
		})
	}
	name := "vec.Concat"
	fn := b.Fn(rB, name)
	if fn == nil {
		return
	}
	b.guard(rB, name, func() {
		fc := X.FCFor(fn)
		env := X.EnvFor(fn, "xss")
		xss := env.Vars["xss"].RF
		rv := fc.RetVal(0)
		// total: a loop-carried sum, 0 at first, + len(xss[i]) for every argument
		isTotal := func(tot *RF, what string) bool {
			ti, tn := recurrenceOrNil(fc, tot)
			if ti == nil {
				r.Fail(rB, name+"/total", b.pos(fn), what+" is not accumulated over the arguments: "+clip(tot.String(), 100))
				return false
			}
			els := FindFn(tn, "idx")
			if !ti.Equal(S.Int(0)) || len(els) != 1 || !els[0].Args[0].Equal(xss) || !tn.Equal(tot.Add(S.MakeFn("len", S.atomRF(els[0].ID)))) {
				r.Fail(rB, name+"/total", b.pos(fn), what+" does not start at 0 and grow by len(xss[i]): "+clip(tn.String(), 120))
				return false
			}
			if !b.FullScan("C-scan coverage", name+"/total/all", b.pos(fn), fc, els[0].Args[1], S.MakeFn("len", xss)) {
				return false
			}
			r.OK(rB, name+"/total", b.pos(fn), what+" = Σ len(xss[i])")
			return true
		}
		theCopy := func() (*ssa.Call, *Atom, *Atom) {
			var cp *ssa.Call
			n := 0
			fc.Ctx.Instrs(func(in ssa.Instruction) {
				if c, ok := in.(*ssa.Call); ok {
					if bi, isB := c.Call.Value.(*ssa.Builtin); isB && bi.Name() == "copy" {
						cp = c
						n++
					}
				}
			})
			if n != 1 {
				anchorFail("expected one copy per argument")
			}
			dst, src := fc.Val(cp.Call.Args[0]), fc.Val(cp.Call.Args[1])
			da, sa := dst.SingleAtom(), src.SingleAtom()
			if da == nil || da.Name != "slice" || !da.Args[0].Equal(rv) || sa == nil || sa.Name != "idx" || !sa.Args[0].Equal(xss) {
				anchorFail("not copy(out[…], xss[i])")
			}
			return cp, da, sa
		}
		blank := func(v *RF) bool {
			at := v.SingleAtom()
			return at != nil && at.Kind == "var" && at.Name == "_"
		}
		b.AnyOf(func() {
			// (1) out := make(total); copy(out[pos:], xss[i]) front to back, pos += the length copied
			ra := rv.SingleAtom()
			if ra == nil || !strings.HasPrefix(ra.Name, "makeslice:") {
				anchorFail("the result is not a slice made here")
			}
			if !isTotal(ra.Args[0], "len(result)") {
				return
			}
			cp, da, sa := theCopy()
			src := S.atomRF(sa.ID)
			pos := da.Args[1]
			pi, pn := recurrenceOrNil(fc, pos)
			if pi == nil || !pi.Equal(S.Int(0)) {
				r.Fail(rB, name+"/copies", a.W.InstrPos(cp), "the write position does not start at 0")
				return
			}
			adv := pn.Sub(pos)
			okAdv := adv.Equal(S.MakeFn("len", src))
			if !okAdv {
				if aa := adv.SingleAtom(); aa != nil && strings.Contains(aa.Name, "copy") {
					okAdv = true
					for _, arg := range aa.Args {
						if !arg.Equal(S.atomRF(da.ID)) && !arg.Equal(src) {
							okAdv = false
						}
					}
				}
			}
			if !okAdv {
				r.Fail(rB, name+"/copies", a.W.InstrPos(cp), "the write position is not advanced by the length copied: "+clip(adv.String(), 120))
				return
			}
			if !blank(da.Args[2]) && !da.Args[2].Equal(pos.Add(S.MakeFn("len", src))) {
				r.Fail(rB, name+"/copies", a.W.InstrPos(cp), "the destination window is cut short")
				return
			}
			if b.FullScan("C-scan coverage", name+"/copies/all", a.W.InstrPos(cp), fc, sa.Args[1], S.MakeFn("len", xss)) {
				r.OK(rB, name+"/copies", a.W.InstrPos(cp), "argument i is copied to out[len(xss[0])+…+len(xss[i-1]):], for every i")
			}
		}, func() {
			// (2) out := make([]float64, 0, …); out = append(out, xss[i]...) for every i in order
			oi, on := recurrenceOrNil(fc, rv)
			if oi == nil {
				anchorFail("the result is not grown in a loop")
			}
			ia := oi.SingleAtom()
			empty := ia != nil && ia.Name == "nil"
			if ia != nil && strings.HasPrefix(ia.Name, "makeslice:") {
				if z, ok := ia.Args[0].IsConst(); ok && z.Sign() == 0 {
					empty = true
				}
			}
			if !empty {
				r.Fail(rB, name+"/appends", b.pos(fn), "the result does not start as a fresh empty slice: "+clip(oi.String(), 100))
				return
			}
			na := on.SingleAtom()
			if na == nil || na.Name != "builtin:append" || len(na.Args) != 2 || !na.Args[0].Equal(rv) {
				r.Fail(rB, name+"/appends", b.pos(fn), "an iteration does not append one argument to the result: "+clip(on.String(), 120))
				return
			}
			sa := na.Args[1].SingleAtom()
			if sa == nil || sa.Name != "idx" || !sa.Args[0].Equal(xss) {
				r.Fail(rB, name+"/appends", b.pos(fn), "what is appended is not xss[i]")
				return
			}
			if b.FullScan("C-scan coverage", name+"/appends/all", b.pos(fn), fc, sa.Args[1], S.MakeFn("len", xss)) {
				r.OK(rB, name+"/appends", b.pos(fn), "the arguments are appended to a fresh slice one after the other")
			}
		}, func() {
			// (3) the mirror image of (1): filled from the back — end starts at len(out) = Σ len,
			// argument k (from the last down to the first) goes to out[end-len(xss[k]):end], end -= len(xss[k])
			ra := rv.SingleAtom()
			if ra == nil || !strings.HasPrefix(ra.Name, "makeslice:") {
				anchorFail("the result is not a slice made here")
			}
			cp, da, sa := theCopy()
			src := S.atomRF(sa.ID)
			end := da.Args[2]
			if blank(end) {
				anchorFail("no upper bound on the destination window")
			}
			ei, en := recurrenceOrNil(fc, end)
			if ei == nil {
				anchorFail("the window's end is not loop-carried")
			}
			// the made length and the initial end are the same accumulated total
			if !ra.Args[0].Equal(ei) {
				r.Fail(rB, name+"/copies", a.W.InstrPos(cp), "the fill does not start at the end of the result")
				return
			}
			if !isTotal(ei, "len(result)") {
				return
			}
			if !en.Equal(end.Sub(S.MakeFn("len", src))) || !da.Args[1].Equal(end.Sub(S.MakeFn("len", src))) {
				r.Fail(rB, name+"/copies", a.W.InstrPos(cp), "the window is not out[end-len(xss[k]):end] with end moved down by that length")
				return
			}
			if b.FullScan("C-scan coverage", name+"/copies/all", a.W.InstrPos(cp), fc, sa.Args[1], S.MakeFn("len", xss)) {
				r.OK(rB, name+"/copies", a.W.InstrPos(cp), "argument k is copied to the len(xss[k]) slots below those of the arguments after it, for every k")
			}
		})
	})
}
