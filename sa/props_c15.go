package main

import (
	"fmt"
	"go/types"
	"strings"

	"golang.org/x/tools/go/ssa"
)

func init() {
	propFuncs["C15"] = propC15
	propInfos["C15"] = &PropInfo{
		Level:   "other",
		Explain: "Structural necessary conditions decided statically (DESIGN.md §5 C15): engine A — LOESS (and the closure it returns), PolynomialRegression and LinearLeastSquares write none of xs, ys, weights; pairSlice.Swap exchanges both slices; monomial basis — every function stored at terms[e] fills termOut[i] with xs[i]^e (degree extracted from the stored element: constant 1, copy, a power, math.Pow with a symbolic exponent, and compared with the index it is stored at); the evaluator F as a pair of recurrences y += xp*c, xp *= x from y=coeffs[0], xp=x over coeffs[1:]; Coefficients is the slice returned by LinearLeastSquares(xs, ys, weights, terms...); the normal equations as a call sequence with data flow: XT laid out row i = xTVals[i*len(xs):(i+1)*len(xs)] filled by term i, X = XT.T(), XTW = XT or a copy whose every row is multiplied element-wise by the weight vector, lhs.Mul(XTW, X), rhs.MulVec(XTW, y) with y wrapping ys, B.SolveVec(lhs, rhs), result the backing slice of B; LOESS: q = min(ceil(span*n), n), window xs[n:n+q], ys[n:n+q] (same n), search predicate xs[i]+xs[i+q] >= 2x over len(xs)-q, d = max(x-closest[0], closest[q-1]-x), tricube weights, local PolynomialRegression evaluated at x; sorting only on copies. Added after the mutation sweep: every terms[k] is set — constants exactly when k <= degree, one loop over the remaining degrees storing in every iteration.",
		Assume:  []string{"A3 gonum mat conventions", "A4 reals", "A2"},
		Undec:   []string{"that the solved coefficients minimise the residual (linear algebra inside gonum)", "conditioning", "order independence of LOESS (follows from sorting, not proved)"},
	}
}

func propC15(a *Analysis, r *Registry) {
	b := NewB(a, r)
	X := b.X
	X.NoInline["fit.PolynomialRegression"] = true // LOESS names the local fit by its call
	S := X.S
	const rB = "B-C15 formula"
	for _, n := range []string{"fit.LOESS", "fit.LOESS$1", "fit.PolynomialRegression", "fit.LinearLeastSquares"} {
		if fn := b.Fn("A-1 no-mutation", n); fn != nil {
			a.CheckNoMutation(r, "A-1 no-mutation", fn, nil)
		}
	}
	b.CheckSwap("C-swap", "fit.(*pairSlice).Swap")
	// the order LOESS sorts its copies by: ascending x, over all the points
	b.Formula(rB, "fit.(*pairSlice).Less", "fit.(*pairSlice).Less", []string{"s", "i", "j"}, nil, 0, "s.xs[i]<s.xs[j]", nil)
	b.Formula(rB, "fit.(*pairSlice).Len", "fit.(*pairSlice).Len", []string{"s"}, nil, 0, "len(s.xs)", nil)

	// ---- monomial basis ----
	if fn := b.Fn(rB, "fit.PolynomialRegression"); fn != nil {
		name := "fit.PolynomialRegression"
		fc := X.FCFor(fn)
		env := X.EnvFor(fn, "xs", "ys", "weights", "degree")
		nterms := 0
		type termStore struct {
			fc  *FC
			st  *ssa.Store
			idx *RF
		}
		var termStores []termStore
		b.guard(rB, name+"/basis", func() {
			// the basis functions are stored here or by a helper that builds the slice; a stored value
			// may be a closure or the result of a factory that picks a closure by the degree
			for _, sfc := range fc.BoundCallees(1) {
				sfc := sfc
				sfc.Ctx.Instrs(func(in ssa.Instruction) {
					st, ok := in.(*ssa.Store)
					if !ok {
						return
					}
					ia, ok := st.Addr.(*ssa.IndexAddr)
					if !ok {
						return
					}
					if _, isFn := st.Val.Type().Underlying().(*types.Signature); !isFn {
						return
					}
					nterms++
					idx := sfc.Val(ia.Index)
					termStores = append(termStores, termStore{sfc, st, idx})
					construct := name + "/basis/terms[" + clip(idx.String(), 40) + "]"
					deg, msg := basisDegreeOf(X, sfc.Val(st.Val))
					if deg == nil {
						r.Fail(rB, construct, a.W.InstrPos(st), msg)
						return
					}
					if deg.Equal(idx) || X.EquivByCases(deg, idx, 0) || sfc.EqualAt(st, deg, idx) {
						r.OK(rB, construct, a.W.InstrPos(st), "fills termOut[i] with xs[i]^("+clip(deg.String(), 60)+") and is stored at terms["+clip(idx.String(), 60)+"]")
					} else {
						r.Fail(rB, construct, a.W.InstrPos(st), "the function stored at terms["+clip(idx.String(), 60)+"] computes the monomial of degree "+clip(deg.String(), 60)+": Coefficients[i] would not multiply x^i")
					}
				})
			}
			r.Floor(rB, "basis functions checked", nterms, 2)
			// every index 0..degree gets its function: constant indexes 0..d0-1 stored exactly when
			// they exist (k <= degree), and one loop storing at d = d0, d0+1, … while d < len(terms).
			// An unset entry is a nil function LinearLeastSquares would call.
			if len(termStores) > 0 {
				consts := map[int64]termStore{}
				var loops []termStore
				okShape := true
				for _, ts := range termStores {
					if c, isC := ts.idx.IsConst(); isC && c.IsInt() {
						consts[c.Num().Int64()] = ts
					} else if len(ts.fc.loopPhis(ts.idx)) > 0 {
						loops = append(loops, ts)
					} else {
						okShape = false
					}
				}
				cn := name + "/basis/all-set"
				// (several stores in one loop — a switch on the degree — count as one when together
				// they cover every iteration)
				sameLoop := len(loops) > 0
				for _, ts := range loops[min(1, len(loops)):] {
					if ts.fc != loops[0].fc || !ts.idx.Equal(loops[0].idx) {
						sameLoop = false
					}
				}
				if !okShape || !sameLoop {
					r.Fail(rB, cn, b.pos(fn), fmt.Sprintf("expected stores at constant indexes and one loop over the remaining degrees, found %d constant and %d loop stores", len(consts), len(loops)))
				} else {
					lp := loops[0]
					if pa := lp.fc.loopPhis(lp.idx); len(pa) == 1 && X.phiOf[pa[0].SingleAtom().ID] != nil {
						lh := X.phiOf[pa[0].SingleAtom().ID].Block()
						var body *ssa.BasicBlock
						if ll := lp.fc.Ctx.LoopOf(lp.st.Block()); ll != nil && ll.Header == lh {
							exits := false
							for _, sc := range lh.Succs {
								if ll.Body[sc.Index] {
									body = sc
								} else {
									exits = true
								}
							}
							if !exits {
								body = lh
							}
						}
						if body == nil {
							r.Fail(rB, cn+"/every-iteration", a.W.InstrPos(lp.st), "the store is not in the body of the loop over the degrees")
						} else {
							every := S.False()
							for _, ts := range loops {
								every = S.Or(every, lp.fc.ReachCondFrom(body, ts.st.Block()))
							}
							if every.Equal(S.True()) || X.EquivByCases(every, S.True(), 0) {
								r.OK(rB, cn+"/every-iteration", a.W.InstrPos(lp.st), "every iteration of the loop over the degrees stores a function")
							} else {
								r.Fail(rB, cn+"/every-iteration", a.W.InstrPos(lp.st), "an iteration of the loop over the degrees can pass without storing a function: "+clip(every.String(), 120))
							}
						}
					}
					ki, _ := recurrenceOrNil(lp.fc, lp.idx)
					d0, isC := int64(-1), false
					if ki != nil {
						if c, ok := ki.IsConst(); ok && c.IsInt() {
							d0, isC = c.Num().Int64(), true
						}
					}
					tl := S.MakeFn("len", lp.fc.Val(lp.st.Addr.(*ssa.IndexAddr).X))
					if !isC && ki != nil && ki.Equal(tl.Sub(S.Int(1))) {
						// from the highest degree down to a constant one
						for c := int64(0); c <= 4 && !isC; c++ {
							c := c
							mark := len(r.Obs)
							b.AnyOf(func() {
								b.FullScan("C-scan coverage", cn+"/loop", a.W.InstrPos(lp.st), lp.fc, lp.idx.Sub(S.Int(c)), tl.Sub(S.Int(c)))
							})
							if len(r.Obs) > mark && r.Obs[len(r.Obs)-1].st == Discharged {
								d0, isC = c, true
							} else {
								r.Obs = r.Obs[:mark]
							}
						}
						if !isC {
							r.Fail(rB, cn, a.W.InstrPos(lp.st), "the descending loop over the degrees does not stop at a constant degree")
						}
					} else if !isC {
						r.Fail(rB, cn, a.W.InstrPos(lp.st), "the loop over the degrees does not start at a constant degree")
					} else {
						b.FullScan("C-scan coverage", cn+"/loop", a.W.InstrPos(lp.st), lp.fc, lp.idx.Sub(S.Int(d0)), tl.Sub(S.Int(d0)))
					}
					if isC {
						for k := int64(0); k < d0; k++ {
							ts, have := consts[k]
							if !have {
								r.Fail(rB, fmt.Sprintf("%s/terms[%d]", cn, k), b.pos(fn), fmt.Sprintf("no function is stored at terms[%d] although the loop starts at degree %d", k, d0))
								continue
							}
							rc := ts.fc.ReachCond(ts.st.Block())
							want := env.MustParse(fmt.Sprintf("%d<=degree", k))
							if rc.Equal(S.True()) && k == 0 || rc.Equal(want) || X.EquivByCases(rc, want, 0) {
								r.OK(rB, fmt.Sprintf("%s/terms[%d]", cn, k), a.W.InstrPos(ts.st), fmt.Sprintf("terms[%d] is set exactly when it exists (%d <= degree)", k, k))
							} else {
								r.Fail(rB, fmt.Sprintf("%s/terms[%d]", cn, k), a.W.InstrPos(ts.st), fmt.Sprintf("terms[%d] is stored under %s, not exactly when %d <= degree: an entry is left nil or the store is out of range", k, clip(rc.String(), 100), k))
							}
						}
					}
				}
			}
			// len(terms) = degree+1
			if at := fc.Val(fc.TheCallTo("fit.LinearLeastSquares").Call.Args[3]).SingleAtom(); at != nil && strings.HasPrefix(at.Name, "makeslice:") {
				b.Eq(rB, name+"/len(terms)", b.pos(fn), at.Args[0], env, "degree+1")
			} else {
				r.Fail(rB, name+"/len(terms)", b.pos(fn), "terms is not a fresh slice handed to LinearLeastSquares")
			}
		})
		b.guard(rB, name+"/coefficients", func() {
			call := fc.TheCallTo("fit.LinearLeastSquares")
			for i, nm := range []string{"xs", "ys", "weights"} {
				b.Eq(rB, name+"/lls-arg-"+nm, a.W.InstrPos(call), fc.Val(call.Call.Args[i]), env, nm)
			}
			b.EqRF(rB, name+"/Coefficients", b.pos(fn), fc.LitField("PolynomialRegressionResult", "Coefficients"), fc.Val(call), "Coefficients is what LinearLeastSquares returned")
			fv := fc.LitField("PolynomialRegressionResult", "F")
			at := fv.SingleAtom()
			if at == nil || !strings.HasPrefix(at.Name, "closure:") {
				r.Fail(rB, name+"/F", b.pos(fn), "F is not the evaluator closure")
				return
			}
			efc := X.ClosureFC(at.ID)
			ef := efc.Fn
			rv := efc.RetVal(0)
			b.AnyOf(func() {
				// for _, c := range coeffs[1:]
				eenv := X.EnvFor(ef, "x")
				eenv.Set("coeffs", fc.Val(call), call.Type())
				c, _ := efc.elemOf(rv, eenv.MustParse("slice(coeffs, 1, _, _)"))
				eenv.Set("c", c, nil)
				b.LoopSystem(rB, name+"/F/recurrences", b.pos(ef), efc, rv, eenv, []recSpec{{"y", "coeffs[0]", "y+xp*c"}, {"xp", "x", "xp*x"}})
			}, func() {
				// for k := 1; k < len(coeffs); k++ { … coeffs[k] … }
				eenv := X.EnvFor(ef, "x")
				eenv.Set("coeffs", fc.Val(call), call.Type())
				c, ci := efc.elemOf(rv, eenv.MustParse("coeffs"))
				eenv.Set("c", c, nil)
				b.LoopSystem(rB, name+"/F/recurrences", b.pos(ef), efc, rv, eenv, []recSpec{{"y", "coeffs[0]", "y+xp*c"}, {"xp", "x", "xp*x"}})
				b.FullScan("C-scan coverage", name+"/F/visits coeffs[1:]", b.pos(ef), efc, ci.Sub(S.Int(1)), eenv.MustParse("len(coeffs)-1"))
			})
		})
	}

	// ---- normal equations ----
	if fn := b.Fn(rB, "fit.LinearLeastSquares"); fn != nil {
		name := "fit.LinearLeastSquares"
		b.guard(rB, name, func() {
			fc := X.FCFor(fn)
			env := X.EnvFor(fn, "xs", "ys", "weights", "terms")
			mat := "gonum.org/v1/gonum/mat."
			// the steps may be made in LinearLeastSquares itself or in helpers it
			// delegates to (building the design matrix, applying the weights): every
			// site is looked up in the function and its bound callees, and read in
			// the context it lives in
			type site struct {
				fc   *FC
				Call *ssa.CallCommon
				in   *ssa.Call
			}
			fcs := fc.BoundCallees(2)
			one := func(callee string) site {
				var found []site
				for _, sfc := range fcs {
					sfc := sfc
					sfc.Ctx.Instrs(func(in ssa.Instruction) {
						if c, ok := in.(*ssa.Call); ok {
							if f := c.Call.StaticCallee(); f != nil && strings.HasSuffix(f.String(), callee) {
								found = append(found, site{sfc, c.Common(), c})
							}
						}
					})
				}
				if len(found) != 1 {
					anchorFail("expected exactly one call to %s, found %d", callee, len(found))
				}
				return found[0]
			}
			// design matrix
			var xtv *RF
			for _, sfc := range fcs {
				sfc := sfc
				sfc.Ctx.Instrs(func(in ssa.Instruction) {
					if ms, ok := in.(*ssa.MakeSlice); ok && xtv == nil {
						if sfc.Val(ms.Len).Equal(env.MustParse("len(terms)*len(xs)")) {
							xtv = sfc.Val(ms)
						}
					}
				})
			}
			if xtv == nil {
				r.Fail(rB, name+"/xTVals", b.pos(fn), "no backing array of len(terms)*len(xs) for the design matrix")
				return
			}
			env.Set("xTVals", xtv, nil)
			XT := S.MakeFn(mat+"NewDense", env.MustParse("len(terms)"), env.MustParse("len(xs)"), xtv)
			// the term call
			var termCall *ssa.Call
			tfc := fc
			for _, sfc := range fcs {
				sfc := sfc
				sfc.Ctx.Instrs(func(in ssa.Instruction) {
					if c, ok := in.(*ssa.Call); ok && c.Call.StaticCallee() == nil && !c.Call.IsInvoke() {
						if _, isB := c.Call.Value.(*ssa.Builtin); !isB {
							termCall, tfc = c, sfc
						}
					}
				})
			}
			if termCall == nil {
				r.Fail(rB, name+"/term-call", b.pos(fn), "the basis functions are never called")
				return
			}
			tf := tfc.Val(termCall.Call.Value).SingleAtom()
			if tf == nil || tf.Name != "idx" || !tf.Args[0].Equal(env.Vars["terms"].RF) {
				r.Fail(rB, name+"/term-call", a.W.InstrPos(termCall), "the called function is not terms[i]")
				return
			}
			env.Set("i", tf.Args[1], nil)
			b.Eq(rB, name+"/term-call/xs", a.W.InstrPos(termCall), tfc.Val(termCall.Call.Args[0]), env, "xs")
			// (a running offset advanced by len(xs) per term is i*len(xs))
			b.Eq(rB, name+"/term-call/row", a.W.InstrPos(termCall), tfc.CanonIV(tfc.Val(termCall.Call.Args[1]), tf.Args[1]), env, "slice(xTVals, i*len(xs), i*len(xs)+len(xs), _)")
			b.FullScan(rB, name+"/term-call/all-terms", a.W.InstrPos(termCall), tfc, tf.Args[1], env.MustParse("len(terms)"))
			// XTW and the products
			mul, mulv, solve := one("mat.Dense).Mul"), one("mat.VecDense).MulVec"), one("mat.VecDense).SolveVec")
			copyXT := S.MakeFn(mat+"DenseCopyOf", XT)
			xtw := mul.fc.Val(mul.Call.Args[1])
			wantXTW := S.Ite(env.MustParse("weights==nil"), XT, copyXT)
			// second stated shape of the weighted matrix: a fresh backing array W of the
			// same size filled element by element, W[r*len(xs)+j] = xTVals[r*len(xs)+j] *
			// weights[j] for every row r and column j, wrapped as a len(terms) x len(xs) matrix
			nMEV := 0
			for _, sfc := range fcs {
				sfc.Ctx.Instrs(func(in ssa.Instruction) {
					if c, ok := in.(*ssa.Call); ok {
						if f := c.Call.StaticCallee(); f != nil && strings.HasSuffix(f.String(), "mat.VecDense).MulElemVec") {
							nMEV++
						}
					}
				})
			}
			var filled *RF
			if nMEV == 0 {
				if it := xtw.SingleAtom(); it != nil && it.Name == "ite" {
					if nd := it.Args[2].SingleAtom(); nd != nil && nd.Name == mat+"NewDense" && len(nd.Args) == 3 {
						if wa := nd.Args[2].SingleAtom(); wa != nil && strings.HasPrefix(wa.Name, "makeslice:") {
							filled = nd.Args[2]
							wantXTW = S.Ite(env.MustParse("weights==nil"), XT, S.MakeFn(mat+"NewDense", env.MustParse("len(terms)"), env.MustParse("len(xs)"), filled))
						}
					}
				}
			}
			b.EqRF(rB, name+"/XTW", a.W.InstrPos(mul.in), xtw, wantXTW, "XTW is XT when unweighted, else a weighted copy of XT")
			b.EqRF(rB, name+"/lhs=XTW·X", a.W.InstrPos(mul.in), mul.fc.Val(mul.Call.Args[2]), X.Invoke("T", XT), "lhs.Mul(XTW, XT.T())")
			b.EqRF(rB, name+"/rhs uses XTW", a.W.InstrPos(mulv.in), mulv.fc.Val(mulv.Call.Args[1]), xtw, "rhs.MulVec(XTW, ·) uses the same (weighted) matrix")
			b.EqAt(rB, name+"/rhs=XTW·y", a.W.InstrPos(mulv.in), mulv.fc, mulv.in, mulv.fc.Val(mulv.Call.Args[2]), S.MakeFn(mat+"NewVecDense", env.MustParse("len(ys)"), env.Vars["ys"].RF), "y wraps ys")
			b.EqRF(rB, name+"/solve-lhs", a.W.InstrPos(solve.in), solve.fc.Val(solve.Call.Args[1]), mul.fc.Val(mul.Call.Args[0]), "SolveVec uses the lhs that Mul filled")
			b.EqRF(rB, name+"/solve-rhs", a.W.InstrPos(solve.in), solve.fc.Val(solve.Call.Args[2]), mulv.fc.Val(mulv.Call.Args[0]), "SolveVec uses the rhs that MulVec filled")
			bv := solve.fc.Val(solve.Call.Args[0]).SingleAtom()
			rv := fc.RetVal(0)
			if bv != nil && bv.Name == mat+"NewVecDense" && bv.Args[1].Equal(rv) && strings.HasPrefix(rv.SingleAtom().Name, "makeslice:") {
				b.Eq(rB, name+"/result", b.pos(fn), rv.SingleAtom().Args[0], env, "len(terms)")
			} else {
				r.Fail(rB, name+"/result", b.pos(fn), "the returned slice is not the backing array of the solved vector")
			}
			if mul.fc == solve.fc && mulv.fc == solve.fc && !(fc.Ctx.Dominates(mul.in.Block(), solve.in.Block()) && fc.Ctx.Dominates(mulv.in.Block(), solve.in.Block())) {
				r.Fail("C-order", name+"/products-before-solve", b.pos(fn), "SolveVec is not preceded by both products on every path")
			} else {
				r.OK("C-order", name+"/products-before-solve", b.pos(fn), "Mul and MulVec dominate SolveVec")
			}
			// weighting loop
			if filled != nil {
				b.guard(rB, name+"/weights/elementwise", func() {
					b.EqRF(rB, name+"/weights/size", b.pos(fn), S.MakeFn("len", filled), env.MustParse("len(terms)*len(xs)"), "the weighted backing array has the size of xTVals")
					var st *ssa.Store
					var sfc0 *FC
					n := 0
					for _, sfc := range fcs {
						sfc := sfc
						sfc.Ctx.Instrs(func(in ssa.Instruction) {
							if v, ok := in.(*ssa.Store); ok {
								if ia, ok := v.Addr.(*ssa.IndexAddr); ok && sfc.Val(ia.X).Equal(filled) {
									st, sfc0 = v, sfc
									n++
								}
							}
						})
					}
					if n != 1 {
						r.Fail(rB, name+"/weights/elementwise", b.pos(fn), fmt.Sprintf("expected one store filling the weighted array, found %d", n))
						return
					}
					I := sfc0.Val(st.Addr.(*ssa.IndexAddr).Index)
					val := sfc0.Val(st.Val)
					var ex, ew *Atom
					for _, at := range FindFn(val, "idx") {
						switch {
						case at.Args[0].Equal(xtv):
							ex = at
						case at.Args[0].Equal(env.Vars["weights"].RF):
							ew = at
						}
					}
					if ex == nil || ew == nil || !val.Equal(S.atomRF(ex.ID).Mul(S.atomRF(ew.ID))) || !ex.Args[1].Equal(I) {
						r.Fail(rB, name+"/weights/elementwise", a.W.InstrPos(st), "the stored element is not xTVals[k]*weights[j] at the same position k: "+clip(val.String(), 160))
						return
					}
					J := ew.Args[1]
					R := I.Sub(J).Div(env.MustParse("len(xs)"))
					if R == nil || !S.Integral(R) {
						r.Fail(rB, name+"/weights/elementwise", a.W.InstrPos(st), "the position is not row*len(xs)+j with j the weight's index: "+clip(I.String(), 120))
						return
					}
					r.OK(rB, name+"/weights/elementwise", a.W.InstrPos(st), "W[r*len(xs)+j] = xTVals[r*len(xs)+j]*weights[j]")
					// every column (len(weights) = len(xs) past the length guard) and every row
					b.AnyOf(func() {
						b.FullScan(rB, name+"/weights/all-columns", a.W.InstrPos(st), sfc0, J, env.MustParse("len(weights)"))
					}, func() {
						b.FullScan(rB, name+"/weights/all-columns", a.W.InstrPos(st), sfc0, J, env.MustParse("len(xs)"))
					})
					b.FullScan(rB, name+"/weights/all-rows", a.W.InstrPos(st), sfc0, R, env.MustParse("len(terms)"))
				})
			} else {
				mev := one("mat.VecDense).MulElemVec")
				row := mev.fc.Val(mev.Call.Args[0])
				b.EqRF(rB, name+"/weights/in-place", a.W.InstrPos(mev.in), mev.fc.Val(mev.Call.Args[1]), row, "each row is multiplied in place")
				b.EqRF(rB, name+"/weights/vector", a.W.InstrPos(mev.in), mev.fc.Val(mev.Call.Args[2]), S.MakeFn(mat+"NewVecDense", env.MustParse("len(weights)"), env.Vars["weights"].RF), "by the weight vector")
				rvw := row.SingleAtom()
				if rvw == nil || rvw.Name != "call:RowView" || !rvw.Args[0].Equal(copyXT) {
					r.Fail(rB, name+"/weights/rows-of-copy", a.W.InstrPos(mev.in), "the rows weighted are not rows of the copy of XT: "+clip(row.String(), 200))
				} else {
					e2 := X.EnvFor(fn, "xs", "ys", "weights", "terms")
					e2.Set("row", rvw.Args[1], nil)
					// every row 0 … len(terms)-1 is weighted once (in either direction)
					b.FullScan(rB, name+"/weights/all-rows", a.W.InstrPos(mev.in), mev.fc, rvw.Args[1], e2.MustParse("len(terms)"))
				}
			}
			// guards
			acc := S.False()
			n := 0
			fc.Ctx.Instrs(func(in ssa.Instruction) {
				if p, ok := in.(*ssa.Panic); ok {
					func() {
						defer func() { recover() }()
						acc = S.Or(acc, fc.ReachCond(p.Block()))
						n++
					}()
				}
			})
			// (a guard may be a small helper that panics: reached when the helper is called and its
			// own condition holds, the parameters bound to the arguments of that call)
			for _, hfc := range fc.BoundCallees(1)[1:] {
				var sites []*ssa.Call
				fc.Ctx.Instrs(func(in ssa.Instruction) {
					if c, ok := in.(*ssa.Call); ok && c.Call.StaticCallee() == hfc.Fn {
						sites = append(sites, c)
					}
				})
				hfc := hfc
				hfc.Ctx.Instrs(func(in ssa.Instruction) {
					p, ok := in.(*ssa.Panic)
					if !ok {
						return
					}
					func() {
						defer func() { recover() }()
						// the context of this call site: BoundCallees gives one context per site, in order
						for _, c := range sites {
							same := true
							for i, a := range c.Call.Args {
								if i < len(hfc.bindArgs) && !fc.Sub(fc.Val(a)).Equal(hfc.bindArgs[i]) {
									same = false
								}
							}
							if same {
								acc = S.Or(acc, S.And(fc.ReachCond(c.Block()), hfc.Sub(hfc.ReachCond(p.Block()))))
								n++
								break
							}
						}
					}()
				})
			}
			if n == 2 {
				b.Eq("C-guard panics", name, b.pos(fn), acc, env, "len(xs)!=len(ys) || (weights!=nil && len(xs)!=len(weights))")
			} else {
				r.Fail("C-guard panics", name, b.pos(fn), "expected the two length-mismatch panics")
			}
		})
	}

	// ---- LOESS ----
	if fn := b.Fn(rB, "fit.LOESS"); fn != nil {
		name := "fit.LOESS"
		cl := a.W.Fn("fit.LOESS$1")
		b.guard(rB, name, func() {
			fc := X.FCFor(fn)
			env := X.EnvFor(fn, "xs", "ys", "degree", "span")
			// q
			if cl == nil {
				anchorFail("closure not found")
			}
			cfc := X.FCFor(cl)
			cenv := X.EnvFor(cl, "x")
			// captured variables as the closure sees them
			fvAtom := func(n string) *RF {
				for _, v := range cl.FreeVars {
					if v.Name() == n {
						for _, in := range cl.Blocks[0].Instrs {
							_ = in
						}
					}
				}
				return nil
			}
			_ = fvAtom
			rv := cfc.RetVal(0)
			at := rv.SingleAtom()
			if at == nil || at.Name != "apply" {
				r.Fail(rB, name+"/result", b.pos(cl), "the closure does not return pr.F(x): "+clip(rv.String(), 200))
				return
			}
			b.Eq(rB, name+"/evaluated-at-x", b.pos(cl), at.Args[1], cenv, "x")
			fa := at.Args[0].SingleAtom()
			if fa == nil || fa.Name != "fld:PolynomialRegressionResult.F" {
				r.Fail(rB, name+"/result", b.pos(cl), "not the F of a PolynomialRegression result")
				return
			}
			pr := fa.Args[0].SingleAtom()
			if pr == nil || pr.Name != "fit.PolynomialRegression" || len(pr.Args) != 4 {
				r.Fail(rB, name+"/local-fit", b.pos(cl), "the local fit is not a PolynomialRegression call: "+clip(fa.Args[0].String(), 200))
				return
			}
			closest, ywin, wts, deg := pr.Args[0], pr.Args[1], pr.Args[2], pr.Args[3]
			ca, ya := closest.SingleAtom(), ywin.SingleAtom()
			if ca == nil || ya == nil || ca.Name != "slice" || ya.Name != "slice" {
				r.Fail(rB, name+"/window", b.pos(cl), "the local fit is not given windows of xs and ys")
				return
			}
			XS, YS, n := ca.Args[0], ya.Args[0], ca.Args[1]
			cenv.Set("XS", XS, nil)
			cenv.Set("YS", YS, nil)
			cenv.Set("n", n, nil)
			// q as computed by the parent
			qv := ca.Args[2].Sub(n)
			cenv.Set("q", qv, nil)
			b.Eq(rB, name+"/window-xs", b.pos(cl), closest, cenv, "slice(XS, n, n+q, _)")
			b.Eq(rB, name+"/window-ys", b.pos(cl), ywin, cenv, "slice(YS, n, n+q, _)")
			pq := env.MustParse("ite(len(xs)<=int(ceil(span*len(xs))), len(xs), int(ceil(span*len(xs))))")
			if !qv.Equal(pq) && !X.EquivByCases(qv, pq, 0) {
				r.Fail(rB, name+"/q", b.pos(fn), "window size is not min(ceil(span*len(xs)), len(xs)): "+clip(qv.String(), 200))
			} else {
				r.OK(rB, name+"/q", b.pos(fn), "q ≡ min(ceil(span*n), n)")
			}
			// degree passed through
			b.EqRF(rB, name+"/degree", b.pos(cl), deg, X.ParamRF(fn, 2), "the local fit has the requested degree")
			// the captured xs/ys are the parameters or their sorted copies: XS must be the closure's view of LOESS's xs cell
			sorted := S.MakeFn("sort.Float64sAreSorted", X.ParamRF(fn, 0))
			for k, D := range []*RF{XS, YS} {
				cp := S.MakeFn("builtin:append", S.Var("nil", false), X.ParamRF(fn, k))
				want := S.Ite(sorted, X.ParamRF(fn, k), cp)
				nm := []string{"xs", "ys"}[k]
				if D.Equal(want) || X.EquivByCases(D, want, 0) {
					r.OK(rB, name+"/data-"+nm, b.pos(cl), "the window is taken from "+nm+" when sorted, else from its sorted copy")
				} else {
					r.Fail(rB, name+"/data-"+nm, b.pos(cl), "the window is not taken from "+nm+" or its sorted copy: "+clip(D.String(), 200))
				}
			}
			// n: binary search
			// the start of the window: a sort.Search over len(XS)-q positions with some predicate closure
			srs := FindFn(n, "sort.Search")
			if len(srs) != 1 || len(srs[0].Args) != 2 {
				r.Fail(rB, name+"/window-start", b.pos(cl), "the window start is not found by one sort.Search: "+clip(n.String(), 200))
				return
			}
			b.EqRF(rB, name+"/search-range", b.pos(cl), srs[0].Args[0], S.MakeFn("len", XS).Sub(qv), "the search ranges over the len(xs)-q window positions")
			cenv.Set("SR", S.atomRF(srs[0].ID), nil)
			b.Eq(rB, name+"/window-start", b.pos(cl), n, cenv, "ite(q<len(XS), SR, 0)")
			if pa := srs[0].Args[1].SingleAtom(); pa != nil && X.ClosureFC(pa.ID) != nil {
				pfc := X.ClosureFC(pa.ID)
				pe := X.EnvFor(pfc.Fn, "i")
				pe.Set("XS", XS, nil)
				pe.Set("q", qv, nil)
				pe.Set("x", X.ParamRF(cl, 0), nil)
				b.Eq(rB, name+"/search-predicate", b.pos(pfc.Fn), pfc.RetVal(0), pe, "x*2<=XS[i]+XS[i+q]")
			} else {
				r.Fail(rB, name+"/search-predicate", b.pos(cl), "sort.Search is not given a closure")
			}
			// tricube weights
			wa := wts.SingleAtom()
			if wa == nil || !strings.HasPrefix(wa.Name, "makeslice:") {
				r.Fail(rB, name+"/weights", b.pos(cl), "weights is not a fresh slice")
				return
			}
			b.EqRF(rB, name+"/len(weights)", b.pos(cl), wa.Args[0], qv, "one weight per window point")
			cenv.Set("closest", closest, nil)
			cenv.Let("d", "ite(x-closest[0]<closest[q-1]-x, closest[q-1]-x, x-closest[0])")
			nst := 0
			cfc.Ctx.Instrs(func(in ssa.Instruction) {
				st, ok := in.(*ssa.Store)
				if !ok {
					return
				}
				ia, ok := st.Addr.(*ssa.IndexAddr)
				if !ok || !cfc.Val(ia.X).Equal(wts) {
					return
				}
				nst++
				cenv.Set("i", cfc.Val(ia.Index), nil)
				b.Eq(rB, name+"/tricube", a.W.InstrPos(st), cfc.Val(st.Val), cenv, "(1-(abs(x-closest[i])/d)^3)^3")
			})
			if nst != 1 {
				r.Fail(rB, name+"/tricube", b.pos(cl), "expected one weight store")
			}
			// sorting on copies only: the sorter wraps fresh copies
			ok1, ok2 := false, false
			// (the sorter may be built in LOESS or in a helper that makes the copies)
			for _, sfc := range fc.BoundCallees(1) {
				sfc := sfc
				sfc.Ctx.Instrs(func(in ssa.Instruction) {
					st, ok := in.(*ssa.Store)
					if !ok {
						return
					}
					fa, ok := st.Addr.(*ssa.FieldAddr)
					if !ok || X.typeName(fa.X.Type()) != "pairSlice" {
						return
					}
					v := sfc.Val(st.Val).SingleAtom()
					if v != nil && v.Name == "copyof" {
						if fa.Field == 0 && v.Args[0].Equal(X.ParamRF(fn, 0)) {
							ok1 = true
						} else if fa.Field == 1 && v.Args[0].Equal(X.ParamRF(fn, 1)) {
							ok2 = true
						}
					}
				})
			}
			if ok1 && ok2 {
				r.OK(rB, name+"/sort-copies", b.pos(fn), "the sorter wraps append(nil, xs...) and append(nil, ys...)")
			} else {
				r.Fail(rB, name+"/sort-copies", b.pos(fn), "the pair sorter does not wrap fresh copies of xs and ys")
			}
			// guards
			acc := S.False()
			np := 0
			fc.Ctx.Instrs(func(in ssa.Instruction) {
				if p, ok := in.(*ssa.Panic); ok {
					acc = S.Or(acc, fc.ReachCond(p.Block()))
					np++
				}
			})
			if np == 2 {
				b.Eq("C-guard panics", name, b.pos(fn), acc, env, "degree<0 || span<=0")
			} else {
				r.Fail("C-guard panics", name, b.pos(fn), "expected the two argument panics")
			}
		})
		b.CheckDFloor("D-floor", "fit.LOESS")
	}
}

// basisDegree: the degree e such that cf fills termOut[i] with xs[i]^e.
// basisDegreeOf: the degree of the monomial a function value computes: a
// closure, or a choice among closures (a factory selecting by the degree).
func basisDegreeOf(X *Extractor, v *RF) (*RF, string) {
	at := v.SingleAtom()
	if at == nil {
		return nil, "stored basis function is not a function value: " + clip(v.String(), 120)
	}
	if at.Name == "ite" && len(at.Args) == 3 {
		d1, m1 := basisDegreeOf(X, at.Args[1])
		if d1 == nil {
			return nil, m1
		}
		d2, m2 := basisDegreeOf(X, at.Args[2])
		if d2 == nil {
			return nil, m2
		}
		return X.S.Ite(at.Args[0], d1, d2), ""
	}
	if cfc := X.ClosureFC(at.ID); cfc != nil {
		return basisDegree(X, cfc)
	}
	if strings.HasPrefix(at.Name, "func:") {
		if f := X.W.Fn(strings.TrimPrefix(at.Name, "func:")); f != nil {
			return basisDegree(X, X.FCFor(f))
		}
	}
	return nil, "stored basis function is not a closure of this package: " + clip(v.String(), 120)
}

func basisDegree(X *Extractor, fc *FC) (*RF, string) {
	cf := fc.Fn
	if len(cf.Params) != 2 {
		return nil, "basis function does not have the (xs, termOut) signature"
	}
	xs, out := X.ParamRF(cf, 0), X.ParamRF(cf, 1)
	var deg *RF
	msg := "basis function does not fill termOut"
	fc.Ctx.Instrs(func(in ssa.Instruction) {
		switch v := in.(type) {
		case *ssa.Call:
			if bi, ok := v.Call.Value.(*ssa.Builtin); ok && bi.Name() == "copy" {
				if fc.Val(v.Call.Args[0]).Equal(out) && fc.Val(v.Call.Args[1]).Equal(xs) {
					deg = X.S.Int(1)
				}
			}
		case *ssa.Store:
			ia, ok := v.Addr.(*ssa.IndexAddr)
			if !ok || !fc.Val(ia.X).Equal(out) {
				return
			}
			i := fc.Val(ia.Index)
			val := fc.Val(v.Val)
			x := X.S.MakeFn("idx", xs, i)
			if c, isC := val.IsConst(); isC {
				if c.Cmp(X.S.Int(1).N.terms[""].coef) == 0 {
					deg = X.S.Int(0)
				} else {
					msg = "constant basis function is not 1"
				}
				return
			}
			// x^k
			for k := 1; k <= 12; k++ {
				if val.Equal(x.Pow(k)) {
					deg = X.S.Int(int64(k))
					return
				}
			}
			if at := val.SingleAtom(); at != nil && at.Name == "math.Pow" && at.Args[0].Equal(x) {
				deg = at.Args[1]
				return
			}
			msg = "termOut[i] is not a power of xs[i] at the same index: " + clip(val.String(), 160)
		}
	})
	return deg, msg
}
