package main

func runThorough(a *Analysis, reg *Registry, ri *RunInfo, prop, repo, verif string) {}
