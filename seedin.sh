#!/bin/bash
# usage: seedin.sh <BDnn> <K> <prop> [more props]  — import sub-agent output /tmp/wt/<BDnn>-out/change<K> as the next seeded/<prop>-<n> and run seedcheck
src=/tmp/wt/$1-out/change$2; prop=$3; shift 2
n=1; while [ -e /verif/seeded/$prop-$n ]; do n=$((n+1)); done
dst=/verif/seeded/$prop-$n
mkdir -p $dst; cp $src/patch.diff $src/demo_test.go $src/meta.json $dst/

echo "== $dst"
/verif/seedcheck.sh $dst "$@" 2>&1 | grep -v conda | cut -c1-${W:-300}
