package main

import (
	"fmt"
	"go/types"
	"math/big"
	"os"
	"strings"

	"golang.org/x/tools/go/ssa"
)

func init() {
	propFuncs["C07"] = propC07
	propInfos["C07"] = &PropInfo{
		Level:   "other",
		Explain: "Structural necessary conditions decided statically (DESIGN.md §5 C07): C-dispatch — InvCDF (Rand) first asserts dist to an interface with exactly InvCDF(float64) float64 (Rand(*rand.Rand) float64) and on the ok edge returns the bound method of the asserted value and nothing else; the generic quantile closure's loop-free decision list (NaN outside [0,1]; at 0 the lower Bounds() end when CDF is exactly 0 there else -inf; at 1 the upper end / +inf); the bisection is called with the predicate x -> dist.CDF(x) < y for the same dist and y and the bracket found, and the closure returns RESULT 1 of bisectBool (the upper end: smallest x with CDF(x) >= y); early returns at infinite brackets; bisectBool's midpoint, update and termination tests as a system of recurrences; the generic Rand closure re-draws while y==0, draws from r unless r==nil, and returns InvCDF(dist)(y) for the same dist; engine A: dist is never written. Added after the mutation sweep (DESIGN §13): the bracket expansion — from 0 one end moves by a geometrically growing positive step, up while CDF(hi) < y, down while y <= CDF(lo), while finite, direction by CDF(0) < y, the other end following.",
		Assume:  []string{"A2 user CDFs are pure", "A4"},
		Undec:   []string{"that the bracket expansion finds a bracket for every CDF", "1e-9 accuracy, monotonicity in y", "distributional correctness of Rand"},
	}
}

func propC07(a *Analysis, r *Registry) {
	b := NewB(a, r)
	X := b.X
	X.BenignWriteTags["stats.KDE.Bandwidth"] = true // dist may be a KDE: its idempotent lazy bandwidth fill is not an effect of the quantile search
	S := X.S
	const rD = "C-dispatch"
	dispatch := func(fname, method, sig string) {
		fn := b.Fn(rD, fname)
		if fn == nil {
			return
		}
		b.guard(rD, fname, func() {
			fc := X.FCFor(fn)
			var ta *ssa.TypeAssert
			fc.Ctx.Instrs(func(in ssa.Instruction) {
				if t, ok := in.(*ssa.TypeAssert); ok && t.CommaOk && ta == nil {
					ta = t
				}
			})
			if ta == nil || !fc.Val(ta.X).Equal(X.ParamRF(fn, 0)) || ta.Block().Index != 0 {
				r.Fail(rD, fname+"/assert", b.pos(fn), "the first action is not a type assertion of dist")
				return
			}
			it, ok := ta.AssertedType.Underlying().(*types.Interface)
			if !ok || it.NumMethods() != 1 || it.Method(0).Name() != method {
				r.Fail(rD, fname+"/interface", a.W.InstrPos(ta), "asserted interface does not consist of exactly "+method)
				return
			}
			got := types.TypeString(it.Method(0).Type(), func(p *types.Package) string { return p.Name() })
			if got != sig {
				r.Fail(rD, fname+"/interface", a.W.InstrPos(ta), "asserted method has signature "+got+", want "+sig)
				return
			}
			r.OK(rD, fname+"/interface", a.W.InstrPos(ta), "asserts dist to interface{ "+method+" "+strings.TrimPrefix(sig, "func")+" }")
			// ok edge: the block reached when extract #1 is true
			var okBlk *ssa.BasicBlock
			ifi, isIf := ta.Block().Instrs[len(ta.Block().Instrs)-1].(*ssa.If)
			if isIf {
				if ex, isEx := ifi.Cond.(*ssa.Extract); isEx && ex.Tuple == ta && ex.Index == 1 {
					okBlk = ta.Block().Succs[0]
				}
			}
			if okBlk == nil {
				r.Fail(rD, fname+"/ok-edge", a.W.InstrPos(ta), "the assertion's ok result does not decide the first branch")
				return
			}
			good, n := false, 0
			for _, rt := range fc.Ctx.Returns() {
				if !fc.Ctx.Dominates(okBlk, rt.Block()) {
					continue
				}
				n++
				mc, isMC := rt.Results[0].(*ssa.MakeClosure)
				if !isMC {
					continue
				}
				cf := mc.Fn.(*ssa.Function)
				if cf.Synthetic == "" || !strings.Contains(cf.Synthetic, "bound method") || cf.Object() == nil || cf.Object().Name() != method || len(mc.Bindings) != 1 {
					continue
				}
				if ex, isEx := mc.Bindings[0].(*ssa.Extract); isEx && ex.Tuple == ta && ex.Index == 0 {
					good = true
				}
			}
			if good && n == 1 {
				r.OK(rD, fname+"/ok-edge", a.W.InstrPos(ta), "on the ok edge the bound method "+method+" of the asserted value is returned, and nothing else")
			} else {
				r.Fail(rD, fname+"/ok-edge", a.W.InstrPos(ta), "on the ok edge the function does not return exactly the asserted value's own "+method+" method")
			}
		})
	}
	dispatch("stats.InvCDF", "InvCDF", "func(float64) float64")
	dispatch("stats.Rand", "Rand", "func(*rand.Rand) float64")

	// generic quantile closure
	if fn := b.Fn("C-decision", "stats.InvCDF$1"); fn != nil {
		name := "stats.InvCDF$1"
		parent := a.W.Fn("stats.InvCDF")
		b.guard("C-decision", name, func() {
			env := X.EnvFor(fn, "y")
			env.Set("dist", X.ParamRF(parent, 0), parent.Params[0].Type())
			env.Let("l", "dist.Bounds()#0")
			env.Let("h", "dist.Bounds()#1")
			// each early case decided as: under the case's condition the closure returns the stated value
			// (wherever the return sits — in the closure or in a helper it delegates the end points to)
			type cs struct {
				val  string
				cond []struct {
					c string
					t bool
				}
			}
			T := func(c string) struct {
				c string
				t bool
			} {
				return struct {
					c string
					t bool
				}{c, true}
			}
			F := func(c string) struct {
				c string
				t bool
			} {
				return struct {
					c string
					t bool
				}{c, false}
			}
			type ct = struct {
				c string
				t bool
			}
			cases := []cs{
				{"stats.nan", []ct{T("y<0")}},
				{"stats.nan", []ct{F("y<0"), T("1<y")}},
				{"l", []ct{F("y<0"), F("1<y"), T("y==0"), T("dist.CDF(l)==0")}},
				{"-stats.inf", []ct{F("y<0"), F("1<y"), T("y==0"), F("dist.CDF(l)==0")}},
				{"h", []ct{F("y<0"), F("1<y"), F("y==0"), T("y==1"), T("dist.CDF(h)==1")}},
				{"stats.inf", []ct{F("y<0"), F("1<y"), F("y==0"), T("y==1"), F("dist.CDF(h)==1")}},
			}
			for _, c := range cases {
				var as []Assumption
				var desc []string
				for _, k := range c.cond {
					as = append(as, X.AssumeCond(env.MustParse(k.c), k.t))
					if k.t {
						desc = append(desc, k.c)
					} else {
						desc = append(desc, "!("+k.c+")")
					}
				}
				construct := name + "/returns " + c.val + " when " + strings.Join(desc, " && ")
				cfc := X.Under(fn, as...)
				rets := cfc.Ctx.Returns()
				if len(rets) != 1 {
					r.Fail("C-decision", construct, b.pos(fn), "under this condition "+itoa(len(rets))+" returns remain reachable (expected the one early return)")
					continue
				}
				b.EqUnder("C-decision", construct, b.pos(fn), cfc, cfc.Val(rets[0].Results[0]), env, c.val)
			}
		})
		b.guard("B-C07 bisection", name, func() {
			fc := X.FCFor(fn)
			env := X.EnvFor(fn, "y")
			env.Set("dist", X.ParamRF(parent, 0), parent.Params[0].Type())
			call := fc.TheCallTo("stats.bisectBool")
			where := a.W.InstrPos(call)
			// predicate
			mc, ok := call.Call.Args[0].(*ssa.MakeClosure)
			if !ok {
				r.Fail("B-C07 bisection", name+"/predicate", where, "bisectBool is not given a closure")
				return
			}
			pf := mc.Fn.(*ssa.Function)
			penv := X.EnvFor(pf, "x")
			penv.Set("dist", X.ParamRF(parent, 0), parent.Params[0].Type())
			penv.Set("y", X.ParamRF(fn, 0), nil)
			b.Eq("B-C07 bisection", name+"/predicate", b.pos(pf), X.FCFor(pf).RetVal(0), penv, "dist.CDF(x)<y")
			// final return = result 1 of that call
			var final *ssa.Return
			for _, rt := range fc.Ctx.Returns() {
				if ex, isEx := rt.Results[0].(*ssa.Extract); isEx && ex.Tuple == call {
					final = rt
					if ex.Index == 1 {
						r.OK("B-C07 bisection", name+"/returns-upper-end", a.W.InstrPos(rt), "returns result 1 of bisectBool (smallest x with CDF(x) >= y)")
					} else {
						r.Fail("B-C07 bisection", name+"/returns-upper-end", a.W.InstrPos(rt), "returns result "+itoa(ex.Index)+" of bisectBool: the lower end has CDF(x) < y")
					}
				}
			}
			if final == nil {
				r.Fail("B-C07 bisection", name+"/returns-upper-end", where, "the closure does not return a result of bisectBool")
			}
			// the bracket passed is the one the expansion produced, and infinite brackets return early
			lo, hi := fc.Val(call.Call.Args[1]), fc.Val(call.Call.Args[2])
			env.Set("loX", lo, nil)
			env.Set("hiX", hi, nil)
			nInf := 0
			for _, rt := range fc.Ctx.Returns() {
				v := fc.Val(rt.Results[0])
				for _, f := range fc.Ctx.Facts(rt.Block()) {
					if !f.Val {
						continue
					}
					c := fc.Val(f.Cond)
					// (under loX == -inf, returning loX and returning -inf are the same value)
					if (v.Equal(lo) || v.Equal(env.MustParse("-stats.inf"))) && c.Equal(env.MustParse("loX==-stats.inf")) {
						nInf++
					}
					if (v.Equal(hi) || v.Equal(env.MustParse("stats.inf"))) && c.Equal(env.MustParse("hiX==stats.inf")) {
						nInf++
					}
				}
			}
			// every return is an early decision, an infinite bracket end, or the bisection's upper end
			other := 0
			for _, rt := range fc.Ctx.Returns() {
				if ex, isEx := rt.Results[0].(*ssa.Extract); isEx && ex.Tuple == call {
					continue
				}
				v := fc.Val(rt.Results[0])
				if v.Equal(lo) || v.Equal(hi) {
					continue
				}
				// an end-point decision returns one of the five stated values (their conditions are decided above)
				// (a helper may return a choice between two of them: every leaf of the gated value must be one)
				var allowed []*RF
				for _, sv := range []string{"stats.nan", "dist.Bounds()#0", "-stats.inf", "dist.Bounds()#1", "stats.inf"} {
					allowed = append(allowed, env.MustParse(sv))
				}
				var leavesOK func(x *RF) bool
				leavesOK = func(x *RF) bool {
					if at := x.SingleAtom(); at != nil && at.Name == "ite" && len(at.Args) == 3 {
						return leavesOK(at.Args[1]) && leavesOK(at.Args[2])
					}
					for _, al := range allowed {
						if x.Equal(al) {
							return true
						}
					}
					return false
				}
				early := leavesOK(v)
				if !early {
					other++
					r.Fail("B-C07 bisection", name+"/other-return", a.W.InstrPos(rt), "a path returns a value that is neither an end-point decision, an infinite bracket end, nor result 1 of bisectBool: "+clip(v.String(), 160))
				}
			}
			if other == 0 {
				r.OK("B-C07 bisection", name+"/other-return", where, "every return past the end-point decisions is a bracket end at infinity or the bisection's upper end")
			}
			if nInf == 2 {
				r.OK("B-C07 bisection", name+"/infinite-brackets", where, "loX==-inf returns loX, hiX==+inf returns hiX, with the same loX/hiX that are handed to the bisection")
			} else {
				r.Fail("B-C07 bisection", name+"/infinite-brackets", where, "early returns for infinite brackets missing or on other variables than the bracket handed to bisectBool")
			}
			fromLoops := func(v *RF) bool {
				if hasAtomPrefix(v, "phi:") || hasAtomPrefix(v, "memphi") {
					return true
				}
				// or a result of a helper of this package that contains the expansion loops
				for _, hfc := range fc.BoundCallees(1)[1:] {
					if len(hfc.Ctx.Loops()) > 0 && hasAtomPrefix(v, a.W.FuncName(hfc.Fn)+"#") {
						return true
					}
				}
				return false
			}
			if !fromLoops(lo) || !fromLoops(hi) {
				r.Fail("B-C07 bisection", name+"/bracket", where, "the bracket handed to bisectBool is not the one produced by the expansion loops")
			}
			// the expansion itself (when it is written in the closure): starting from x = 0 one end
			// moves away by a step that grows geometrically, in the direction in which the target
			// lies — up while CDF(end) < y, down while y <= CDF(end) — until the target is passed
			// or the end is infinite, the other end following one step behind
			cdf0 := env.MustParse("dist.CDF(0)")
			yv := env.Vars["y"].RF
			nUp, nDown := 0, 0
			for _, l := range fc.Ctx.Loops() {
				if fc.Ctx.LoopOf(l.Header) != nil && fc.Ctx.LoopOf(l.Header).Header != l.Header {
					continue
				}
				_, guard, _, msg := b.loopGuard(fc, l.Header)
				if msg != "" {
					continue
				}
				lwhere := a.W.InstrPos(l.Header.Instrs[len(l.Header.Instrs)-1])
				var phis []*RF
				for _, in := range l.Header.Instrs {
					ph, ok := in.(*ssa.Phi)
					if !ok {
						break
					}
					if isFloatType(ph.Type()) {
						phis = append(phis, fc.Val(ph))
					}
				}
				// roles: the moving end X, its CDF value Y, the step D, by their recurrences
				var Xm, Ym, Dm *RF
				dir := 0
				for _, d := range phis {
					di, dn := recurrenceOrNil(fc, d)
					if di == nil {
						continue
					}
					c0, isC := di.IsConst()
					q := dn.Div(d)
					cq, isQ := q.IsConst()
					if !isC || c0.Sign() <= 0 || !isQ || cq.Cmp(big.NewRat(1, 1)) <= 0 {
						continue
					}
					for _, x := range phis {
						xi, xn := recurrenceOrNil(fc, x)
						if xi == nil || !xi.Equal(S.Int(0)) {
							continue
						}
						switch {
						case xn.Equal(x.Add(d)):
							Xm, Dm, dir = x, d, 1
						case xn.Equal(x.Sub(d)):
							Xm, Dm, dir = x, d, -1
						}
					}
				}
				if Xm == nil {
					continue
				}
				cn := name + "/expansion/" + map[int]string{1: "up", -1: "down"}[dir]
				if dir > 0 {
					nUp++
				} else {
					nDown++
				}
				_, xn := recurrenceOrNil(fc, Xm)
				for _, yq := range phis {
					yi, yn := recurrenceOrNil(fc, yq)
					if yi != nil && yi.Equal(cdf0) && yn.Equal(S.MakeFn("call:CDF", env.Vars["dist"].RF, xn)) {
						Ym = yq
					}
				}
				if Ym == nil {
					// bottom-tested: the end is moved first and the loop goes round again while the
					// CDF at the moved end has not passed the target (entered only on the side where
					// one step is always needed)
					cont := fc.ContinueCond(l.Header)
					cx := S.MakeFn("call:CDF", env.Vars["dist"].RF, xn)
					var w2 *RF
					if dir > 0 {
						w2 = S.And(S.Cmp("<", cx, yv), S.Cmp("!=", xn, env.MustParse("stats.inf")))
					} else {
						w2 = S.And(S.Cmp("<=", yv, cx), S.Cmp("!=", xn, env.MustParse("-stats.inf")))
					}
					if cont.Equal(w2) || X.EquivByCases(cont, w2, 0) {
						r.OK("B-C07 bisection", cn+"/while", lwhere, "moves the end, then goes round again exactly while the CDF there has not passed y and the end is finite")
					} else {
						r.Fail("B-C07 bisection", cn+"/cdf-of-end", lwhere, "no loop-carried value that starts at dist.CDF(0) and becomes dist.CDF of the moved end, and the loop is not the bottom-tested form either: continues while "+clip(cont.String(), 160))
						continue
					}
				} else {
					r.OK("B-C07 bisection", cn+"/cdf-of-end", lwhere, "the moving end starts at 0, moves by a positive step that grows geometrically, and its CDF value is carried with it")
					var want *RF
					if dir > 0 {
						want = S.And(S.Cmp("<", Ym, yv), S.Cmp("!=", Xm, env.MustParse("stats.inf")))
					} else {
						want = S.And(S.Cmp("<=", yv, Ym), S.Cmp("!=", Xm, env.MustParse("-stats.inf")))
					}
					b.EqRF("B-C07 bisection", cn+"/while", lwhere, guard, want, map[int]string{1: "expands upward exactly while CDF(hi) < y and hi is finite", -1: "expands downward exactly while y <= CDF(lo) and lo is finite"}[dir])
				}
				_ = Dm
				// the other end follows one step behind
				follows := false
				for _, o := range phis {
					if _, on := recurrenceOrNil(fc, o); on != nil && on.Equal(Xm) && !o.Equal(Xm) {
						follows = true
					}
				}
				if !follows {
					// (the trailing end may exist only past the loop: taken from the moving end's
					// value before its last move)
					trail := lo
					if dir < 0 {
						trail = hi
					}
					var dig func(v *RF, depth int) bool
					dig = func(v *RF, depth int) bool {
						if len(FindAtomID(v, Xm.SingleAtom().ID)) > 0 {
							return true
						}
						if depth > 4 {
							return false
						}
						for _, at := range v.Atoms(true) {
							if ph, ok := X.phiOf[at.ID]; ok {
								vals, _ := fc.Ctx.PhiLiveEdges(ph)
								for _, pv := range vals {
									if pr := fc.Val(pv); !pr.Equal(v) && dig(pr, depth+1) {
										return true
									}
								}
							}
						}
						return false
					}
					follows = dig(trail, 0)
				}
				if follows {
					r.OK("B-C07 bisection", cn+"/other-end-follows", lwhere, "the other end of the bracket takes the moving end's previous position")
				} else {
					r.Fail("B-C07 bisection", cn+"/other-end-follows", lwhere, "no end of the bracket takes the moving end's previous position: the bracket does not stay adjacent to the target")
				}
				// direction chosen by where the target lies relative to CDF(0)
				var pre *ssa.BasicBlock
				for _, p := range fc.Ctx.LivePreds(l.Header) {
					if !l.Body[p.Index] {
						pre = p
					}
				}
				up := S.Cmp("<", cdf0, yv)
				okDir := pre != nil && ((dir > 0 && fc.HoldsAt(l.Header, up)) || (dir < 0 && fc.RefutedAt(l.Header, up)))
				if !okDir && pre != nil {
					okDir = (dir > 0 && fc.HoldsAt(pre, up)) || (dir < 0 && fc.RefutedAt(pre, up))
				}
				if !okDir && pre != nil {
					func() {
						defer func() { recover() }()
						entry := S.And(fc.ReachCondFrom(fc.Ctx.LoopFreeRegionStart(pre), pre), fc.edgeCond(pre, l.Header))
						ev := X.EvalCond(up, []Assumption{{Cond: entry, True: true}})
						if os.Getenv("GMSA_DEBUG_C07") != "" {
							fmt.Fprintf(os.Stderr, "C07 dir=%d entry=%s ev=%v\n", dir, entry, ev)
						}
						okDir = (dir > 0 && ev == True) || (dir < 0 && ev == False)
					}()
				}
				if okDir {
					r.OK("C-decision", cn+"/direction", lwhere, map[int]string{1: "entered only when CDF(0) < y", -1: "entered only when not CDF(0) < y"}[dir])
				} else {
					r.Fail("C-decision", cn+"/direction", lwhere, "the direction of the expansion is not decided by CDF(0) < y")
				}
			}
			if len(fc.Ctx.Loops()) > 0 && (nUp != 1 || nDown != 1) {
				r.Fail("B-C07 bisection", name+"/expansion", where, fmt.Sprintf("expected one upward and one downward expansion loop from x = 0, found %d/%d", nUp, nDown))
			}
		})
		a.CheckNoMutation(r, "A-1 no-mutation", parent, nil)
	}
	if fn := b.Fn("B-C07 bisection", "stats.bisectBool"); fn != nil {
		name := "stats.bisectBool"
		b.guard("B-C07 bisection", name, func() {
			fc := X.FCFor(fn)
			env := X.EnvFor(fn, "f", "low0", "high0", "xtol")
			rets := fc.Ctx.Returns()
			if len(rets) == 0 {
				anchorFail("no return")
			}
			lo, hi := fc.Val(rets[0].Results[0]), fc.Val(rets[0].Results[1])
			for _, rt := range rets {
				if !fc.Val(rt.Results[0]).Equal(lo) || !fc.Val(rt.Results[1]).Equal(hi) {
					r.Fail("B-C07 bisection", name+"/returns", a.W.InstrPos(rt), "returns differ between exits")
				}
			}
			mid := "((high+low)/2)"
			// f at the low end is carried along (re-stored when the low end moves, which leaves it
			// unchanged) or simply computed once: both are the same recurrence
			var vars map[string]*RF
			b.AnyOf(func() {
				vars = b.LoopSystem("B-C07 bisection", name+"/recurrences", b.pos(fn), fc, lo.Add(hi), env, []recSpec{
					{"low", "low0", "ite(f(" + mid + ")==flow, " + mid + ", low)"},
					{"high", "high0", "ite(f(" + mid + ")==flow, high, " + mid + ")"},
					{"flow", "f(low0)", "ite(f(" + mid + ")==flow, f(" + mid + "), flow)"},
				})
			}, func() {
				vars = b.LoopSystem("B-C07 bisection", name+"/recurrences", b.pos(fn), fc, lo.Add(hi), env, []recSpec{
					{"low", "low0", "ite(f(" + mid + ")==f(low0), " + mid + ", low)"},
					{"high", "high0", "ite(f(" + mid + ")==f(low0), high, " + mid + ")"},
				})
			})
			if vars == nil {
				return
			}
			for k, v := range vars {
				env.Set(k, v, nil)
			}
			b.EqRF("B-C07 bisection", name+"/returns", b.pos(fn), lo, vars["low"], "returns (low, high)")
			b.EqRF("B-C07 bisection", name+"/returns-high", b.pos(fn), hi, vars["high"], "returns (low, high)")
			// termination tests
			hdr := X.phiOf[vars["low"].SingleAtom().ID].Block()
			var conds []*RF
			for _, rt := range rets {
				conds = append(conds, fc.ReachCondFrom(hdr, rt.Block()))
			}
			all := S.False()
			for _, c := range conds {
				all = S.Or(all, c)
			}
			b.Eq("B-C07 bisection", name+"/termination", b.pos(fn), all, env, "high-low<=xtol || "+mid+"==high || "+mid+"==low")
			// panics when not bracketed
			okP := false
			fc.Ctx.Instrs(func(in ssa.Instruction) {
				if p, isP := in.(*ssa.Panic); isP {
					for _, f := range fc.Ctx.Facts(p.Block()) {
						if f.Val && fc.Val(f.Cond).Equal(env.MustParse("f(low0)==f(high0)")) {
							okP = true
						}
					}
				}
			})
			if okP {
				r.OK("B-C07 bisection", name+"/unbracketed-panics", b.pos(fn), "f(low)==f(high) panics")
			} else {
				r.Fail("B-C07 bisection", name+"/unbracketed-panics", b.pos(fn), "no panic for an unbracketed interval")
			}
		})
	}
	// generic Rand closure
	if fn := b.Fn("B-C07 rand", "stats.Rand$1"); fn != nil {
		name := "stats.Rand$1"
		parent := a.W.Fn("stats.Rand")
		b.guard("B-C07 rand", name, func() {
			fc := X.FCFor(fn)
			env := X.EnvFor(fn, "r")
			env.Set("dist", X.ParamRF(parent, 0), parent.Params[0].Type())
			rv := fc.RetVal(0)
			// the result is InvCDF(dist) applied to one value y: every alternative of the returned
			// value (InvCDF may hand back the distribution's own inverse or its generic closure)
			// is an application to the same last argument
			var y *RF
			okShape := true
			var leaves func(v *RF)
			leaves = func(v *RF) {
				at := v.SingleAtom()
				switch {
				case at != nil && at.Name == "ite" && len(at.Args) == 3:
					leaves(at.Args[1])
					leaves(at.Args[2])
				case at != nil && (at.Name == "apply" || strings.HasPrefix(at.Name, "call:")) && len(at.Args) == 2:
					if y != nil && !y.Equal(at.Args[1]) {
						okShape = false
					}
					y = at.Args[1]
				default:
					okShape = false
				}
			}
			leaves(rv)
			if !okShape || y == nil {
				r.Fail("B-C07 rand", name+"/result", b.pos(fn), "the closure does not return inv(y): "+clip(rv.String(), 200))
				return
			}
			b.EqRF("B-C07 rand", name+"/inverse-of-same-dist", b.pos(fn), rv, X.applyValue(env.MustParse("InvCDF(dist)"), []*RF{y}, 0), "returns InvCDF(dist) applied to the draw")
			env.Set("y", y, nil)
			checkDraw := func(dfc *FC, yn *RF, renv *SpecEnv) {
				draws := append(FindFn(yn, "call:Float64"), FindFn(yn, "math/rand.Float64")...)
				okDraw := len(draws) == 2
				for _, d := range draws {
					if d.Name == "call:Float64" && !d.Args[0].Equal(renv.Vars["r"].RF) {
						okDraw = false
					}
				}
				if okDraw {
					renv.Set("g", S.MakeFn("math/rand.Float64"), nil)
					b.Eq("B-C07 rand", name+"/draw", b.pos(fn), yn, renv, "ite(r==nil, g, r.Float64())")
				} else {
					r.Fail("B-C07 rand", name+"/draw", b.pos(fn), "each iteration does not draw from r (or the global source when r==nil): "+clip(yn.String(), 200))
				}
			}
			b.AnyOf(func() {
				// while form: y := 0; for y == 0 { y = draw }
				yi, yn := fc.Recurrence(y)
				b.EqRF("B-C07 rand", name+"/y-init", b.pos(fn), yi, S.Int(0), "y starts at 0 so that at least one draw is made")
				checkDraw(fc, yn, env)
				hdr := X.phiOf[y.SingleAtom().ID].Block()
				if ifi, ok := hdr.Instrs[len(hdr.Instrs)-1].(*ssa.If); ok {
					b.Eq("B-C07 rand", name+"/redraw-while-zero", a.W.InstrPos(ifi), fc.Val(ifi.Cond), env, "y==0")
				} else {
					r.Fail("B-C07 rand", name+"/redraw-while-zero", b.pos(fn), "no loop on y==0")
				}
			}, func() {
				// do-while form, possibly in a helper: for { u = draw; if u != 0 { return u } }
				for _, hfc := range fc.BoundCallees(1) {
					loops := hfc.Ctx.Loops()
					rets := hfc.Ctx.Returns()
					if len(loops) != 1 || len(rets) != 1 {
						continue
					}
					// the return is taken from inside the loop (its block is entered only from the loop body)
					fromLoop := len(hfc.Ctx.LivePreds(rets[0].Block())) > 0
					for _, pb := range hfc.Ctx.LivePreds(rets[0].Block()) {
						if !loops[0].Body[pb.Index] {
							fromLoop = false
						}
					}
					if !fromLoop {
						continue
					}
					if hfc != fc {
						cat := y.SingleAtom()
						if cat == nil || !strings.HasSuffix(cat.Name, hfc.Fn.Name()) {
							continue
						}
					}
					u := hfc.Val(rets[0].Results[0])
					if hfc == fc {
						u = y // the closure itself loops and returns inv(u) from inside the loop
					}
					henv := X.EnvFor(fn, "r")
					checkDraw(hfc, u, henv)
					henv.Set("u", u, nil)
					b.Eq("B-C07 rand", name+"/redraw-while-zero", b.pos(hfc.Fn), hfc.ReachCondFrom(loops[0].Header, rets[0].Block()), henv, "u!=0")
					// the loop is left only through that return
					exits := 0
					for bi := range loops[0].Body {
						for _, sc := range hfc.Ctx.LiveSuccs(hfc.Fn.Blocks[bi]) {
							if !loops[0].Body[sc.Index] && sc != rets[0].Block() {
								exits++
							}
						}
					}
					if exits != 0 {
						r.Fail("B-C07 rand", name+"/redraw-while-zero", b.pos(hfc.Fn), "the drawing loop can be left without returning a non-zero draw")
					}
					return
				}
				r.Fail("B-C07 rand", name+"/draw", b.pos(fn), "no drawing loop found (neither `for y == 0 { y = draw }` nor `for { u = draw; if u != 0 { return u } }`)")
			})
		})
		a.CheckNoMutation(r, "A-1 no-mutation", parent, nil)
	}
}
