package main

import (
	"go/types"

	"golang.org/x/tools/go/ssa"
)

func init() {
	propFuncs["C16"] = propC16
	propInfos["C16"] = &PropInfo{
		Level:   "other",
		Explain: "Structural necessary conditions decided statically (DESIGN.md §5 C16): engine B compares Linear.Map/Unmap, Log.Map/Unmap (with the sign folding of ebounds inlined as gating functions), clamp and QQ.Map/Unmap with the stated formulas; derives symbolically, from the extracted normal forms, Map[x:=Min]=0, Map[x:=Max]=1, Unmap∘Map=id and Map∘Unmap=id (as rational functions / with exp(log e)=e) for Linear and for both sign cases of Log; the reach condition of NewLog's error returns is base<=1 || (min<=0 && max>=0) after ordering and their dynamic type is RangeErr; the success value is Log{min,max,base}; Map/Unmap write nothing (engine A).",
		Assume:  []string{"A4 reals: identities over R, log/exp inverse on the positive axis"},
		Undec:   []string{"strict monotonicity and the inverse law in floating point"},
	}
}

func propC16(a *Analysis, r *Registry) {
	b := NewB(a, r)
	X := b.X
	S := X.S
	const rB = "B-C16 formula"
	sweepC16(a, r, b)
	const rD = "B-C16 derived"
	lin := "(x-s.Min)/(s.Max-s.Min)"
	b.Formula(rB, "scale.(Linear).Map", "scale.(Linear).Map", []string{"s", "x"}, nil, 0,
		"ite(s.Min==s.Max, 0.5, ite(s.Clamp, clamp("+lin+"), "+lin+"))", nil)
	b.Formula(rB, "scale.(Linear).Unmap", "scale.(Linear).Unmap", []string{"s", "y"}, nil, 0, "y*(s.Max-s.Min)+s.Min", nil)
	b.Formula(rB, "scale.clamp", "scale.clamp", []string{"x"}, nil, 0, "ite(x<0, 0, ite(1<x, 1, x))", nil)
	b.Formula(rB, "scale.(QQ).Map", "scale.(QQ).Map", []string{"q", "x"}, nil, 0, "q.Dest.Unmap(q.Src.Map(x))", nil)
	b.Formula(rB, "scale.(QQ).Unmap", "scale.(QQ).Unmap", []string{"q", "x"}, nil, 0, "q.Src.Unmap(q.Dest.Map(x))", nil)
	logLets := [][2]string{{"neg", "s.Min<0"}, {"lo", "ite(neg, -s.Max, s.Min)"}, {"hi", "ite(neg, -s.Min, s.Max)"}}
	b.Formula(rB, "scale.(Log).Map", "scale.(Log).Map", []string{"s", "x"},
		append(logLets, [2]string{"xx", "ite(neg, -x, x)"}, [2]string{"y0", "(log(xx)-log(lo))/(log(hi)-log(lo))"}, [2]string{"Y", "ite(neg, 1-y0, y0)"}), 0,
		"ite(xx<=0, nan(), ite(lo==hi, 0.5, ite(s.Clamp, clamp(Y), Y)))", nil)
	b.Formula(rB, "scale.(Log).Unmap", "scale.(Log).Unmap", []string{"s", "y"},
		append(logLets, [2]string{"yy", "ite(neg, 1-y, y)"}, [2]string{"x0", "exp(yy*(log(hi)-log(lo))+log(lo))"}), 0,
		"ite(neg, -x0, x0)", nil)

	// derived laws
	derive := func(typ string, cases []struct {
		name string
		mk   func(env *SpecEnv) []Assumption
	}) {
		mapFn, unmapFn := a.W.Fn("scale.("+typ+").Map"), a.W.Fn("scale.("+typ+").Unmap")
		if mapFn == nil || unmapFn == nil {
			r.Undecided(rD, typ, "", "Map/Unmap not found")
			return
		}
		for _, cs := range cases {
			cs := cs
			b.guard(rD, typ+"/"+cs.name, func() {
				menv := X.EnvFor(mapFn, "s", "x")
				uenv := X.EnvFor(unmapFn, "s", "y")
				mfc := X.Under(mapFn, cs.mk(menv)...)
				ufc := X.Under(unmapFn, cs.mk(uenv)...)
				M := mfc.Sub(mfc.RetVal(0))
				U := ufc.Sub(ufc.RetVal(0))
				ms, mx := X.ParamRF(mapFn, 0), X.ParamRF(mapFn, 1)
				us, uy := X.ParamRF(unmapFn, 0), X.ParamRF(unmapFn, 1)
				id := func(r *RF) AtomID { return r.SingleAtom().ID }
				where := b.pos(mapFn)
				b.EqRF(rD, typ+"/"+cs.name+"/Map(Min)=0", where, M.Subst(map[AtomID]*RF{id(mx): menv.MustParse("s.Min")}), S.Int(0), "Map sends Min to 0")
				b.EqRF(rD, typ+"/"+cs.name+"/Map(Max)=1", where, M.Subst(map[AtomID]*RF{id(mx): menv.MustParse("s.Max")}), S.Int(1), "Map sends Max to 1")
				b.EqRF(rD, typ+"/"+cs.name+"/Unmap∘Map=id", where, U.Subst(map[AtomID]*RF{id(us): ms, id(uy): M}), mx, "Unmap(Map(x)) ≡ x")
				b.EqRF(rD, typ+"/"+cs.name+"/Map∘Unmap=id", where, M.Subst(map[AtomID]*RF{id(ms): us, id(mx): U}), uy, "Map(Unmap(y)) ≡ y")
			})
		}
	}
	type cs = struct {
		name string
		mk   func(env *SpecEnv) []Assumption
	}
	derive("Linear", []cs{{"Min!=Max,noclamp", func(env *SpecEnv) []Assumption {
		return []Assumption{X.AssumeCond(env.MustParse("s.Min==s.Max"), false), X.AssumeEq(env.MustParse("s.Clamp"), S.False())}
	}}})
	logCase := func(neg bool) func(env *SpecEnv) []Assumption {
		return func(env *SpecEnv) []Assumption {
			as := []Assumption{X.AssumeCond(env.MustParse("s.Min<0"), neg), X.AssumeEq(env.MustParse("s.Clamp"), S.False())}
			lo, hi := "s.Min", "s.Max"
			if neg {
				lo, hi = "-s.Max", "-s.Min"
			}
			as = append(as, X.AssumeCond(env.MustParse(lo+"=="+hi), false))
			if x, ok := env.Vars["x"]; ok {
				xx := x.RF
				if neg {
					xx = xx.Neg()
				}
				as = append(as, X.AssumeCond(S.Cmp("<=", xx, S.Int(0)), false))
			}
			return as
		}
	}
	derive("Log", []cs{{"positive-domain", logCase(false)}, {"negative-domain", logCase(true)}})

	// NewLog
	if fn := b.Fn(rB, "scale.NewLog"); fn != nil {
		name := "scale.NewLog"
		b.guard("C-decision", name, func() {
			fc := X.FCFor(fn)
			env := X.EnvFor(fn, "min", "max", "base")
			env.Let("lo", "ite(max<min, max, min)")
			env.Let("hi", "ite(max<min, min, max)")
			// the alternatives of the error result (one per return, or one per branch assigning a
			// named result that is returned once)
			got, n, okType := S.False(), 0, true
			for _, al := range fc.ResultAlts(1) {
				if c, ok := al.V.(*ssa.Const); ok && c.Value == nil {
					continue
				}
				n++
				got = S.Or(got, al.Cond)
				mi, ok := al.V.(*ssa.MakeInterface)
				if !ok {
					okType = false
					continue
				}
				if nt, ok := mi.X.Type().(*types.Named); !ok || nt.Obj().Name() != "RangeErr" {
					okType = false
				}
			}
			if n == 0 {
				r.Fail("C-decision", name+"/errors", b.pos(fn), "NewLog never returns an error")
				return
			}
			// "NewLog accepts exactly the finite ranges that exclude zero with base >= 2": the error
			// condition must also hold for a NaN or infinite end of the range (no ordering test
			// rejects those: every comparison with NaN is false, and ±Inf orders like a number)
			nonFinite := S.False()
			for _, v := range []string{"min", "max"} {
				nonFinite = S.Or(nonFinite, S.Or(S.MakeFn("math.IsNaN", env.Vars[v].RF), S.MakeFn("math.IsInf", env.Vars[v].RF, S.Int(0))))
			}
			want := S.Or(nonFinite, env.MustParse("base<=1 || (lo<=0 && 0<=hi)"))
			if got.Equal(want) || S.BoolEquiv(got, want) || X.EquivByCases(got, want, 0) {
				r.OK("C-decision", name+"/errors", b.pos(fn), "an error is returned exactly when an end of the range is NaN or infinite, base<=1, or the ordered range contains 0")
			} else if plain := env.MustParse("base<=1 || (lo<=0 && 0<=hi)"); got.Equal(plain) || S.BoolEquiv(got, plain) || X.EquivByCases(got, plain, 0) {
				r.Fail("C-decision", name+"/errors[code: NaN and infinite range ends accepted]", b.pos(fn),
					"NewLog returns an error exactly when base<=1 or the ordered range contains 0: a NaN or infinite end is accepted (NewLog(NaN, 10, 10) and NewLog(1, +Inf, 10) return no error; Map then yields NaN / 0 for every x), although only finite ranges are valid")
			} else {
				r.Fail("C-decision", name+"/errors", b.pos(fn), "code returns an error when "+clip(got.String(), 500)+" ; stated: non-finite end || base<=1 || (lo<=0 && 0<=hi)")
			}
			if okType {
				r.OK("C-decision", name+"/error-type", b.pos(fn), "every error returned is a RangeErr")
			} else {
				r.Fail("C-decision", name+"/error-type", b.pos(fn), "an error return is not of type RangeErr")
			}
			// success value
			sfc := X.Under(fn, X.AssumeCond(env.MustParse("base<=1"), false), X.AssumeCond(env.MustParse("lo<=0 && 0<=hi"), false))
			_ = sfc
			for _, f := range [][2]string{{"Min", "lo"}, {"Max", "hi"}, {"Base", "base"}} {
				var vals []*RF
				fc.Ctx.Instrs(func(in ssa.Instruction) {
					st, ok := in.(*ssa.Store)
					if !ok {
						return
					}
					fa, ok := st.Addr.(*ssa.FieldAddr)
					if !ok || X.typeName(fa.X.Type()) != "Log" {
						return
					}
					if fa.X.Type().Underlying().(*types.Pointer).Elem().Underlying().(*types.Struct).Field(fa.Field).Name() == f[0] {
						vals = append(vals, fc.Val(st.Val))
					}
				})
				if len(vals) != 1 {
					r.Fail("C-decision", name+"/success."+f[0], b.pos(fn), "expected one Log literal setting "+f[0])
					continue
				}
				b.Eq("C-decision", name+"/success."+f[0], b.pos(fn), vals[0], env, f[1])
			}
		})
	}
	for _, n := range []string{"scale.(Linear).Map", "scale.(Linear).Unmap", "scale.(Log).Map", "scale.(Log).Unmap", "scale.(QQ).Map", "scale.(QQ).Unmap", "scale.(*Linear).SetClamp", "scale.(*Log).SetClamp"} {
		if fn := b.Fn("A-1 no-mutation", n); fn != nil {
			a.CheckNoMutation(r, "A-1 no-mutation", fn, nil)
		}
	}
}
