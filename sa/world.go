package main

// Loading of the repository under analysis: type-checked syntax for every
// package of the module, go/ssa form, and a VTA call graph seeded by CHA.
// Nothing in the module under analysis is ever executed.

import (
	"fmt"
	"go/token"
	"go/types"
	"os"
	"sort"
	"strings"

	"golang.org/x/tools/go/callgraph"
	"golang.org/x/tools/go/callgraph/cha"
	"golang.org/x/tools/go/callgraph/vta"
	"golang.org/x/tools/go/packages"
	"golang.org/x/tools/go/ssa"
	"golang.org/x/tools/go/ssa/ssautil"
)

// libPkgs are the packages the properties talk about (module-relative).
var libPkgs = []string{"stats", "mathx", "vec", "scale", "fit", "graph", "graph/graphalg", "graph/graphout"}

type World struct {
	Dir     string
	ModPath string
	Pkgs    []*packages.Package
	Prog    *ssa.Program
	Fset    *token.FileSet
	CG      *callgraph.Graph
	Lib     map[string]*ssa.Package // "stats" -> package
	IsLib   map[*ssa.Package]bool
	// Funcs: every function (incl. anonymous and synthesized init/wrappers
	// that have blocks) belonging to a library package, keyed by short name.
	Funcs    map[string]*ssa.Function
	FuncList []*ssa.Function
	NameOf   map[*ssa.Function]string
	// module-wide (library + cmd + internal) functions for call resolution
	ModFuncs map[*ssa.Function]bool
	// method-set implementors of interfaces: computed lazily
	namedTypes []types.Type
}

func loadEnv() []string {
	env := []string{}
	for _, kv := range os.Environ() {
		if strings.HasPrefix(kv, "GOWORK=") || strings.HasPrefix(kv, "GOFLAGS=") ||
			strings.HasPrefix(kv, "GOPROXY=") || strings.HasPrefix(kv, "GOSUMDB=") ||
			strings.HasPrefix(kv, "GOTOOLCHAIN=") {
			continue
		}
		env = append(env, kv)
	}
	env = append(env, "GOWORK=off", "GOFLAGS=-mod=mod", "GOPROXY=off", "GOSUMDB=off", "GOTOOLCHAIN=local")
	if a := os.Getenv("GMSA_GOARCH"); a != "" {
		env = append(env, "GOARCH="+a)
	}
	return env
}

// Load loads dir/... . libs lists module-relative package paths that form the
// analysis scope; minPkgs is the vacuity floor on loaded packages.
func Load(dir string, libs []string, minPkgs int) (*World, error) {
	cfg := &packages.Config{Mode: packages.LoadAllSyntax | packages.NeedModule, Dir: dir, Env: loadEnv(), Tests: false}
	pkgs, err := packages.Load(cfg, "./...")
	if err != nil {
		return nil, fmt.Errorf("load: %v", err)
	}
	if len(pkgs) < minPkgs {
		return nil, fmt.Errorf("load: only %d packages loaded from %s (floor %d)", len(pkgs), dir, minPkgs)
	}
	var errs []string
	packages.Visit(pkgs, nil, func(p *packages.Package) {
		for _, e := range p.Errors {
			errs = append(errs, e.Error())
		}
	})
	if len(errs) > 0 {
		sort.Strings(errs)
		if len(errs) > 8 {
			errs = errs[:8]
		}
		return nil, fmt.Errorf("load: type/parse errors: %s", strings.Join(errs, "; "))
	}
	w := &World{Dir: dir, Pkgs: pkgs, Lib: map[string]*ssa.Package{}, IsLib: map[*ssa.Package]bool{},
		Funcs: map[string]*ssa.Function{}, NameOf: map[*ssa.Function]string{}, ModFuncs: map[*ssa.Function]bool{}}
	for _, p := range pkgs {
		if p.Module != nil && p.Module.Main {
			w.ModPath = p.Module.Path
		}
	}
	if w.ModPath == "" {
		return nil, fmt.Errorf("load: cannot determine module path")
	}
	prog, spkgs := ssautil.AllPackages(pkgs, ssa.InstantiateGenerics)
	prog.Build()
	w.Prog = prog
	w.Fset = prog.Fset
	for i, p := range pkgs {
		sp := spkgs[i]
		if sp == nil {
			return nil, fmt.Errorf("load: no SSA for %s", p.PkgPath)
		}
		rel := strings.TrimPrefix(strings.TrimPrefix(p.PkgPath, w.ModPath), "/")
		for _, l := range libs {
			if l == rel {
				w.Lib[rel] = sp
				w.IsLib[sp] = true
			}
		}
	}
	for _, l := range libs {
		if w.Lib[l] == nil {
			return nil, fmt.Errorf("load: library package %q not found in module %s", l, w.ModPath)
		}
	}
	all := ssautil.AllFunctions(prog)
	// AllFunctions is reachability based: methods nobody references would be
	// missing. Enumerate the module's declared functions and methods explicitly.
	var addFn func(fn *ssa.Function)
	addFn = func(fn *ssa.Function) {
		if fn == nil || all[fn] {
			if fn != nil {
				for _, an := range fn.AnonFuncs {
					addFn(an)
				}
			}
			return
		}
		all[fn] = true
		for _, an := range fn.AnonFuncs {
			addFn(an)
		}
	}
	for i, p := range pkgs {
		if !strings.HasPrefix(p.PkgPath, w.ModPath) {
			continue
		}
		sp := spkgs[i]
		for _, m := range sp.Members {
			switch m := m.(type) {
			case *ssa.Function:
				addFn(m)
			case *ssa.Type:
				if types.IsInterface(m.Type()) {
					continue
				}
				for _, tt := range []types.Type{m.Type(), types.NewPointer(m.Type())} {
					ms := prog.MethodSets.MethodSet(tt)
					for k := 0; k < ms.Len(); k++ {
						if obj, ok := ms.At(k).Obj().(*types.Func); ok && obj.Pkg() == p.Types {
							addFn(prog.FuncValue(obj))
						}
					}
				}
			}
		}
	}
	w.CG = vta.CallGraph(all, cha.CallGraph(prog))
	for fn := range all {
		if fn.Pkg == nil && fn.Parent() == nil {
			// synthesized wrappers/bounds: attribute to the package of the
			// receiver type's object when it is in the module
			if fn.Synthetic != "" && fn.Object() != nil && fn.Object().Pkg() != nil &&
				strings.HasPrefix(fn.Object().Pkg().Path(), w.ModPath) {
				w.ModFuncs[fn] = true
			}
			continue
		}
		p := fn.Package()
		if p == nil || p.Pkg == nil || !strings.HasPrefix(p.Pkg.Path(), w.ModPath) {
			continue
		}
		w.ModFuncs[fn] = true
		if !w.IsLib[p] || fn.Blocks == nil {
			continue
		}
		name := w.shortName(fn)
		if _, dup := w.Funcs[name]; dup {
			continue
		}
		w.Funcs[name] = fn
		w.NameOf[fn] = name
		w.FuncList = append(w.FuncList, fn)
	}
	sort.Slice(w.FuncList, func(i, j int) bool { return w.NameOf[w.FuncList[i]] < w.NameOf[w.FuncList[j]] })
	// all named types of the module (for module-restricted CHA)
	for _, p := range pkgs {
		if !strings.HasPrefix(p.PkgPath, w.ModPath) {
			continue
		}
		sc := p.Types.Scope()
		for _, n := range sc.Names() {
			if tn, ok := sc.Lookup(n).(*types.TypeName); ok && !tn.IsAlias() {
				if _, isIface := tn.Type().Underlying().(*types.Interface); !isIface {
					w.namedTypes = append(w.namedTypes, tn.Type())
				}
			}
		}
	}
	return w, nil
}

// IsLibFunc: f belongs to a library package of the module — directly, or as an
// instance of one of its generic functions (go/ssa gives instances no package).
func (w *World) IsLibFunc(f *ssa.Function) bool {
	if f == nil {
		return false
	}
	if f.Pkg != nil {
		return w.IsLib[f.Pkg]
	}
	if o := f.Origin(); o != nil && o != f && o.Pkg != nil {
		return w.IsLib[o.Pkg]
	}
	return false
}

func (w *World) relPkg(p *types.Package) string {
	if p == nil {
		return ""
	}
	return strings.TrimPrefix(strings.TrimPrefix(p.Path(), w.ModPath), "/")
}

// shortName: "stats.MannWhitneyUTest", "stats.(*KDE).PDF", "stats.(UDist).p",
// "stats.(*KDE).PDF$1".
func (w *World) shortName(fn *ssa.Function) string {
	if fn.Pkg == nil {
		return fn.String()
	}
	return w.relPkg(fn.Pkg.Pkg) + "." + fn.RelString(fn.Pkg.Pkg)
}

// FuncName gives a printable name for any function (library or external).
func (w *World) FuncName(fn *ssa.Function) string {
	if n, ok := w.NameOf[fn]; ok {
		return n
	}
	s := fn.String()
	return strings.ReplaceAll(s, w.ModPath+"/", "")
}

func (w *World) Fn(name string) *ssa.Function { return w.Funcs[name] }

func (w *World) Pos(p token.Pos) string {
	if !p.IsValid() {
		return "-"
	}
	ps := w.Fset.Position(p)
	f := strings.TrimPrefix(ps.Filename, w.Dir+"/")
	return fmt.Sprintf("%s:%d", f, ps.Line)
}

// instrPos finds a usable position for an instruction (some have NoPos).
func (w *World) InstrPos(in ssa.Instruction) string {
	if in == nil {
		return "-"
	}
	if p := in.Pos(); p.IsValid() {
		return w.Pos(p)
	}
	// fall back to operands, then the function
	var ops []*ssa.Value
	for _, o := range in.Operands(ops) {
		if *o != nil && (*o).Pos().IsValid() {
			return w.Pos((*o).Pos())
		}
	}
	if in.Parent() != nil {
		return w.Pos(in.Parent().Pos())
	}
	return "-"
}

// Implementors returns the methods named `name` of all module types (T and
// *T) whose method set implements iface — module-restricted CHA.
func (w *World) Implementors(iface *types.Interface, name string) []*ssa.Function {
	var out []*ssa.Function
	seen := map[*ssa.Function]bool{}
	for _, t := range w.namedTypes {
		for _, tt := range []types.Type{t, types.NewPointer(t)} {
			if !types.Implements(tt, iface) {
				continue
			}
			ms := w.Prog.MethodSets.MethodSet(tt)
			for i := 0; i < ms.Len(); i++ {
				sel := ms.At(i)
				if sel.Obj().Name() != name {
					continue
				}
				fn := w.Prog.MethodValue(sel)
				if fn != nil && !seen[fn] {
					seen[fn] = true
					out = append(out, fn)
				}
			}
		}
	}
	sort.Slice(out, func(i, j int) bool { return out[i].String() < out[j].String() })
	return out
}

// isExportedEntry: exported function, or exported method of an exported type,
// declared in a library package (not anonymous, not synthetic).
func (w *World) isExportedEntry(fn *ssa.Function) bool {
	if fn.Parent() != nil || fn.Synthetic != "" || fn.Object() == nil {
		return false
	}
	obj, ok := fn.Object().(*types.Func)
	if !ok || !obj.Exported() {
		return false
	}
	sig := obj.Type().(*types.Signature)
	if sig.Recv() != nil {
		t := sig.Recv().Type()
		if p, ok := t.(*types.Pointer); ok {
			t = p.Elem()
		}
		if n, ok := t.(*types.Named); ok && !n.Obj().Exported() {
			// methods of unexported types are reachable through exported
			// interfaces (graph.Graph etc.): still treated as entries when
			// the method name is exported.
			return true
		}
	}
	return true
}

// WithPrivateHelpers: fns extended by their anonymous functions and by the
// library functions all of whose callers (in the call graph) already belong
// to the set — i.e. helpers that exist only to serve these functions.
func (w *World) WithPrivateHelpers(fns []*ssa.Function) []*ssa.Function {
	in := map[*ssa.Function]bool{}
	var out []*ssa.Function
	var add func(f *ssa.Function)
	add = func(f *ssa.Function) {
		if f == nil || in[f] {
			return
		}
		in[f] = true
		out = append(out, f)
		for _, an := range f.AnonFuncs {
			add(an)
		}
	}
	for _, f := range fns {
		add(f)
	}
	for changed := true; changed; {
		changed = false
		for _, f := range w.FuncList {
			if in[f] || f.Pkg == nil || !w.IsLib[f.Pkg] || f.Parent() != nil {
				continue
			}
			if f.Object() != nil && f.Object().Exported() {
				continue
			}
			node := w.CG.Nodes[f]
			if node == nil || len(node.In) == 0 {
				continue
			}
			all := true
			for _, e := range node.In {
				if !in[e.Caller.Func] {
					all = false
					break
				}
			}
			if all {
				add(f)
				changed = true
			}
		}
	}
	return out
}
