#!/bin/sh
# Build the analyser from files on disk only (offline).
set -e
cd "$(dirname "$0")/sa"
export GOFLAGS=-mod=mod GOPROXY=off GOSUMDB=off GOTOOLCHAIN=local GOWORK=off
mkdir -p ../bin ../evidence ../replay
go build -o ../bin/gmsa .
