package main

import (
	"flag"
	"fmt"
	"os"
	"path/filepath"
	"runtime/debug"
	"sort"
	"strconv"
	"strings"
	"time"

	"golang.org/x/tools/go/ssa"
)

// propFuncs maps a property id to the function that registers and decides
// its obligations.
var propFuncs = map[string]func(a *Analysis, r *Registry){}

// propInfo: level + explanation per property (filled by init() in props_*.go)
type PropInfo struct {
	Level   string
	Explain string
	Assume  []string
	Undec   []string
}

var propInfos = map[string]*PropInfo{}

// Analysis bundles what every property check needs.
type Analysis struct {
	W    *World
	Eff  *Effects
	Tier string
	Seed int
}

func usage() {
	fmt.Fprintln(os.Stderr, "usage: gmsa check <Cxx> [--tier quick|thorough] [--repo DIR] [--verif DIR]")
	fmt.Fprintln(os.Stderr, "       gmsa dump effects|funcs [--repo DIR]")
	fmt.Fprintln(os.Stderr, "       gmsa controls [--verif DIR]")
	os.Exit(2)
}

func main() {
	if len(os.Args) < 2 {
		usage()
	}
	cmd := os.Args[1]
	fs := flag.NewFlagSet(cmd, flag.ExitOnError)
	tier := fs.String("tier", envOr("VERIF_TIER", "quick"), "quick|thorough")
	repo := fs.String("repo", "/repo", "repository under analysis")
	verif := fs.String("verif", defaultVerifDir(), "verif directory")
	noControls := fs.Bool("no-controls", false, "skip positive controls")
	var pos []string
	args := os.Args[2:]
	for len(args) > 0 && !strings.HasPrefix(args[0], "-") {
		pos = append(pos, args[0])
		args = args[1:]
	}
	fs.Parse(args)
	pos = append(pos, fs.Args()...)
	seed, _ := strconv.Atoi(envOr("VERIF_SEED", "0"))
	switch cmd {
	case "check":
		if len(pos) != 1 {
			usage()
		}
		os.Exit(runCheck(pos[0], *tier, *repo, *verif, seed, !*noControls))
	case "dump":
		if len(pos) != 1 {
			usage()
		}
		os.Exit(runDump(pos[0], *repo, pos))
	case "controls":
		os.Exit(runControlsCmd(*verif))
	case "stress":
		// stress <prop> <n>: the property's obligations decided n times in one process on the same
		// loaded program; any run whose set of non-discharged obligations differs from the first is
		// printed (a verdict must not depend on map iteration order)
		if len(pos) != 2 {
			usage()
		}
		n, _ := strconv.Atoi(pos[1])
		w, err := Load(*repo, libPkgs, 10)
		if err != nil {
			fmt.Println(err)
			os.Exit(2)
		}
		a := &Analysis{W: w, Tier: "quick"}
		a.Eff = NewEffects(w)
		a.Eff.Run()
		var first string
		bad := 0
		for i := 0; i < n; i++ {
			reg := NewRegistry(pos[0])
			func() {
				defer func() {
					if rec := recover(); rec != nil {
						reg.Undecided("analyser", "panic", "", fmt.Sprint(rec))
					}
				}()
				propFuncs[pos[0]](a, reg)
				runDeps(pos[0], a, reg)
			}()
			var sig []string
			for _, o := range reg.Obs {
				if o.st != Discharged {
					sig = append(sig, o.Rule+" "+o.Construct+": "+clip(o.Detail, 160))
				}
			}
			sort.Strings(sig)
			cur := fmt.Sprintf("%d obligations; not discharged: %s", len(reg.Obs), strings.Join(sig, " || "))
			if i == 0 {
				first = cur
				fmt.Println("run 0:", cur)
			} else if cur != first {
				bad++
				fmt.Printf("run %d DIFFERS: %s\n", i, cur)
			}
		}
		if watchedX != nil {
			cnt := map[Tri]int{}
			for i := 0; i < 200000; i++ {
				watchedX.signCache = map[string]Tri{}
				t := watchedX.EvalCond(watchedC, watchedA)
				cnt[t]++
				if t == True && cnt[t] == 1 {
					signWatchOn = true
					watchedX.signCache = map[string]Tri{}
					t2 := watchedX.EvalCond(watchedC, watchedA)
					signWatchOn = false
					fmt.Println("REPLAY with trace gave", t2)
				}
			}
			fmt.Println("WATCHED query results over 200000 evaluations:", cnt)
		}
		fmt.Printf("stress %s: %d runs, %d differ from the first\n", pos[0], n, bad)
		if bad > 0 {
			os.Exit(1)
		}
		os.Exit(0)
	default:
		usage()
	}
}

func envOr(k, d string) string {
	if v := os.Getenv(k); v != "" {
		return v
	}
	return d
}

func defaultVerifDir() string {
	if exe, err := os.Executable(); err == nil {
		d := filepath.Dir(filepath.Dir(exe))
		if _, err := os.Stat(filepath.Join(d, "properties.jsonl")); err == nil {
			return d
		}
	}
	return "/verif"
}

func runCheck(prop, tier, repo, verif string, seed int, controls bool) (code int) {
	start := time.Now()
	pf, ok := propFuncs[prop]
	info := propInfos[prop]
	if !ok || info == nil {
		fmt.Printf("gmsa: property %s has no check\n", prop)
		return 2
	}
	reg := NewRegistry(prop)
	ri := &RunInfo{VerifDir: verif, Tier: tier, Seed: seed, Level: info.Level, Start: start, Assume: info.Assume,
		Explain: info.Explain, Cmd: "bin/gmsa check " + prop + " --tier " + tier,
		Trusted: []string{"go/types, go/packages, go/ssa, callgraph/vta+cha from golang.org/x/tools v0.29.0", "the gmsa analyser itself (positive controls run on every check)", "external summaries table (math, sort, fmt, strings, math/rand, gonum mat)"},
		Extra:   map[string]interface{}{}}
	reg.Undec = info.Undec
	// watchdog: the analysis is bounded everywhere it searches; should it
	// nevertheless not finish, that is an undecided obligation (exit 1), never a hang
	deadline := 300 * time.Second
	if tier == "thorough" {
		deadline = 3600 * time.Second
	}
	if v := os.Getenv("GMSA_DEADLINE_S"); v != "" {
		if n, err := strconv.Atoi(v); err == nil && n > 0 {
			deadline = time.Duration(n) * time.Second
		}
	}
	wd := time.AfterFunc(deadline, func() {
		reg.Undecided("analyser", "deadline", "", fmt.Sprintf("the analysis did not finish within %v", deadline))
		os.Exit(reg.Finish(ri))
	})
	defer wd.Stop()
	defer func() {
		if rec := recover(); rec != nil {
			reg.Undecided("analyser", "panic", "", fmt.Sprintf("analyser panic: %v\n%s", rec, debug.Stack()))
			code = reg.Finish(ri)
		}
	}()
	if controls {
		if msg := runControls(verif, prop); msg != "" {
			fmt.Printf("gmsa: positive controls FAILED (the checker itself is broken): %s\n", msg)
			return 2
		}
	}
	w, err := Load(repo, libPkgs, 10)
	if err != nil {
		reg.Undecided("load", "repository", repo, err.Error())
		return reg.Finish(ri)
	}
	a := &Analysis{W: w, Tier: tier, Seed: seed}
	a.Eff = NewEffects(w)
	a.Eff.Run()
	reg.Count("packages_loaded", len(w.Pkgs))
	reg.Count("library_functions_analysed", len(w.FuncList))
	pf(a, reg)
	runDeps(prop, a, reg)
	if os.Getenv("GMSA_TIMING") != "" {
		fmt.Printf("TIMING property=%s work_units=%d wall=%.1fs\n", prop, workUnits, time.Since(start).Seconds())
	}
	if tier == "thorough" {
		runThorough(a, reg, ri, prop, repo, verif)
	}
	return reg.Finish(ri)
}

func runDump(what, repo string, pos []string) int {
	w, err := Load(repo, libPkgs, 10)
	if err != nil {
		fmt.Println(err)
		return 2
	}
	switch what {
	case "funcs":
		for _, f := range w.FuncList {
			fmt.Println(w.NameOf[f])
		}
	case "effects":
		e := NewEffects(w)
		e.Run()
		for _, f := range w.FuncList {
			s := e.Summary(f)
			fmt.Printf("%s\n", w.NameOf[f])
			var lines []string
			for k, wr := range s.Writes {
				lines = append(lines, fmt.Sprintf("   W %s tag=%s origin=%s via=%s", objStr(w, k.O), k.Tag, wr.Origin, wr.Via))
			}
			for i, r := range s.Returns {
				if len(r) > 0 {
					lines = append(lines, fmt.Sprintf("   R%d %s", i, setStr(w, r)))
				}
			}
			for k, v := range s.FreshC {
				if len(v) > 0 {
					lines = append(lines, "   FreshC "+objStr(w, k)+" -> "+setStr(w, v))
				}
			}
			for k, v := range s.Stores {
				lines = append(lines, fmt.Sprintf("   S %s <- %s", objStr(w, k), setStr(w, v)))
			}
			for c := range s.RetClos {
				lines = append(lines, "   retclos "+w.FuncName(c))
			}
			for k := range s.Nondet {
				lines = append(lines, "   nondet "+k)
			}
			for p := range s.Problems {
				lines = append(lines, "   PROBLEM "+p)
			}
			sort.Strings(lines)
			for _, l := range lines {
				fmt.Println(l)
			}
		}
		fmt.Printf("stats: %+v\n", e.Stats)
	case "dfloor":
		e := NewEffects(w)
		e.Run()
		x := NewExtractor(w, e)
		n, bad := 0, 0
		for _, f := range w.FuncList {
			for _, st := range x.DFloor(f) {
				n++
				mark := "ok "
				if !st.OK {
					mark = "BAD"
					bad++
				}
				fmt.Printf("%s %-45s %-22s %-9s %s — %s\n", mark, st.Fn, st.Where, st.Kind, clip(st.Expr, 90), clip(st.Why, 110))
			}
		}
		fmt.Printf("sites=%d unproven=%d\n", n, bad)
	case "pts":
		e := NewEffects(w)
		e.Run()
		f := w.Fn(os.Getenv("FN"))
		if f == nil {
			fmt.Println("no such function")
			return 2
		}
		st := e.st[f]
		for i, fv := range f.FreeVars {
			fmt.Printf("freevar %d: %s\n", len(f.Params)+i, fv.Name())
		}
		for _, b := range f.Blocks {
			for _, in := range b.Instrs {
				if v, ok := in.(ssa.Value); ok {
					fmt.Printf("  %s = %s   :: %s\n", v.Name(), in.String(), setStr(w, st.P(v)))
				} else {
					fmt.Printf("  %s\n", in.String())
				}
			}
		}
		for o, c := range st.heap {
			fmt.Printf("heap %s -> %s\n", objStr(w, o), setStr(w, c))
		}
	}
	return 0
}

func objStr(w *World, o Obj) string {
	d := "0"
	if o.Deep {
		d = "+"
	}
	switch o.K {
	case KParam:
		return fmt.Sprintf("P%d^%s", o.Idx, d)
	case KGlobal:
		return fmt.Sprintf("G(%s)^%s", strings.ReplaceAll(o.G.String(), w.ModPath+"/", ""), d)
	case KExt:
		return "Ext"
	}
	if o.Site == nil {
		return "Fresh<" + o.T + ">"
	}
	return "F@" + w.InstrPos(o.Site) + "<" + o.T + ">"
}

func setStr(w *World, s ObjSet) string {
	var xs []string
	for o := range s {
		xs = append(xs, objStr(w, o))
	}
	sort.Strings(xs)
	return "{" + strings.Join(xs, ",") + "}"
}

// ---- obligations imported from the components a property's statement rests on ----

// propDep: the statement of a property quantifies over the behaviour of
// components whose own clauses are decided under another property (its anchor
// files name them). Their obligations are imported, so that a change to such
// a component that breaks this property is reported by this property's check
// as well.
type propDep struct {
	Prop string
	Only []string // substrings of the constructs to import (nil: all)
	Why  string
}

var chooseFamily = []string{"mathx.Choose", "mathx.Lchoose", "mathx.init"}
var betaFamily = []string{"mathx.Beta", "mathx.BetaInc", "mathx.betacf"}

var propDeps = map[string][]propDep{
	"C01": {{"C02", nil, "the exact P is a tail of UDist (stats/udist.go)"}, {"C08", chooseFamily, "UDist counts with mathx.Choose (mathx/choose.go)"}},
	"C02": {{"C08", chooseFamily, "UDist counts with mathx.Choose (mathx/choose.go)"}},
	"C03": {{"C05", []string{"NormalDist).CDF", "NormalDist).PDF", "stats.invSqrt2Pi"}, "the normal approximation evaluates StdNormal.CDF (stats/normaldist.go)"}},
	"C04": {{"C08", betaFamily, "Student-t tails are BetaInc (mathx/beta.go)"}, {"C07", []string{"stats.InvCDF", "stats.bisectBool"}, "MeanCI inverts the t distribution with the generic InvCDF (stats/dist.go)"},
		{"C09", []string{"stats.Mean", "stats.StdDev", "stats.Variance", "(Sample).Mean", "(Sample).StdDev", "(Sample).Variance", "(Sample).Weight", "(Sample).Sum"}, "the statistics are built from Mean/StdDev/Variance (stats/sample.go)"}},
	"C05": {{"C08", betaFamily, "TDist.CDF is BetaInc (mathx/beta.go)"}},
	"C06": {{"C08", append(append([]string{}, chooseFamily...), betaFamily...), "PMFs are built from Choose/Lchoose, the binomial CDF from BetaInc (mathx/choose.go, mathx/beta.go)"}},
	"C10": {{"C09", []string{"(Sample).Bounds", "stats.Bounds", "(Sample).Copy", "(*Sample).Sort", "sampleSorter", "(Sample).Weight"}, "Quantile's ends are Bounds(); it sorts a Copy (stats/sample.go)"}},
	"C11": {{"C06", []string{"BinomialDist"}, "the exact interval sums BinomialDist.PMF (stats/binomdist.go)"}, {"C05", []string{"NormalDist"}, "the approximate interval uses NormalDist (stats/normaldist.go)"}},
	"C12": {{"C05", []string{"NormalDist).pdfEach", "NormalDist).cdfEach", "NormalDist).PDF", "NormalDist).CDF", "DeltaDist", "stats.invSqrt2Pi"}, "Gaussian and delta kernels (stats/normaldist.go, stats/deltadist.go)"},
		{"C09", []string{"(Sample).Sum", "(Sample).Weight", "(Sample).StdDev", "(Sample).Variance", "(Sample).Mean", "(Sample).Bounds", "stats.Bounds"}, "the estimate is a weighted mean over the sample; bandwidths use StdDev (stats/sample.go)"},
		{"C10", []string{"(Sample).Quantile"}, "Scott's bandwidth uses the interquartile range (stats/sample.go)"}},
	"C17": {{"C09", []string{"vec.Linspace", "vec.Logspace"}, "vec/vec.go is an anchor of the property"}},
	"C19": {{"C18", []string{"PostOrder", "PreOrder", "NodeMarks"}, "dominators are computed over PostOrder (graph/graphalg/order.go)"}},
}

func runDeps(prop string, a *Analysis, reg *Registry) {
	for _, d := range propDeps[prop] {
		pf := propFuncs[d.Prop]
		if pf == nil {
			continue
		}
		sub := NewRegistry(prop)
		func() {
			defer func() {
				if rec := recover(); rec != nil {
					sub.Undecided("analyser", "panic in imported "+d.Prop, "", fmt.Sprintf("analyser panic: %v", rec))
				}
			}()
			pf(a, sub)
		}()
		n := 0
		for _, o := range sub.Obs {
			keep := len(d.Only) == 0 || o.Rule == "analyser"
			for _, k := range d.Only {
				if strings.Contains(o.Construct, k) {
					keep = true
				}
			}
			if !keep {
				continue
			}
			o.Rule = "dep[" + d.Prop + "] " + o.Rule
			reg.Obs = append(reg.Obs, o)
			n++
		}
		reg.Count("imported_from_"+d.Prop, n)
		reg.Notes = append(reg.Notes, fmt.Sprintf("imported %d obligations from %s: %s", n, d.Prop, d.Why))
		if n == 0 {
			reg.Undecided("dep["+d.Prop+"]", "import", "", "no obligation of "+d.Prop+" matched the import filter (vacuity)")
		}
	}
}
